"""C09 — concurrent clients never corrupt shared state and never deadlock the server.

Static part (proof): tools/locktables regenerates coq/GenLocks.v (field accesses with must-held lock classes,
lock-order edges through calls and callbacks, blocking sends under a lock) from the CURRENT sources; Coq re-proves
the obligations of Properties/C09.v over it (`vm_compute`), on top of the general theorems `lockset_sound`
and `ordered_no_deadlock` (proofs/LocksProofs.v).

Dynamic part (validation of the tables + search for the concrete failing schedule): harness/c09 runs the real
server stack (production decorators, all modules) under the Go race detector with 2-16 real connections and a
watchdog.  A data race report whose stacks involve a hagall package, a deadlock/wedge dump or a crash of the server
process is a concrete failing schedule of the property.

Verdict:  obligations hold and the campaign is clean                      -> exit 0
          race / wedge / crash found                                      -> VIOLATION replay=<report with seed>
          an obligation fails but the (extended) campaign finds nothing   -> VIOLATION ... no-failing-input-found
"""
import json, os, re, shutil, sys, time, glob
from . import common as C

PID = "C09"
OBLIGATIONS = ["C09_translator_complete", "C09_locksets", "C09_lock_order", "C09_blocking_sites"]


def wdir():
    d = os.path.join(C.WORK, "c09" + C.RTAG)
    os.makedirs(d, exist_ok=True)
    return d


# ------------------------------------------------------------------------------------------- static part
def regenerate():
    """runs only this property's translator, into the Coq directory of the tree under test"""
    os.makedirs(C.COQ, exist_ok=True)
    rc, out = C.sh(["sh", os.path.join(C.VERIF, "tools", "locktables", "run.sh"), C.REPO, C.COQ], env=C.GOENV, timeout=900)
    return rc == 0, out


def eval_obligations():
    """evaluates each obligation on its own (the property file stops at the first one that fails)"""
    d = wdir()
    src = """From Coq Require Import NArith List Bool String.
From hagall Require Import Locks GenLocks.
Import ListNotations.
Definition R := Eval vm_compute in
  (GenLocks.translator_ok && match GenLocks.unresolved with [] => true | _ => false end,
   lockset_consistent_b GenLocks.accesses,
   rank_ok (compute_rank GenLocks.lock_edges) GenLocks.lock_edges,
   blocking_ok GenLocks.allowed_blocking_channels GenLocks.blocking_under_lock).
Print R.
Definition F := Eval vm_compute in (firstn 40 (lockset_failures GenLocks.accesses)).
Print F.
Definition K := Eval vm_compute in (compute_rank_table GenLocks.lock_edges).
Print K.
Definition NB := Eval vm_compute in
  (N.of_nat (List.length GenLocks.accesses), N.of_nat (List.length GenLocks.lock_edges), N.of_nat (List.length GenLocks.blocking_under_lock),
   N.of_nat (List.length GenLocks.lock_names), N.of_nat (List.length GenLocks.field_names)).
Print NB.
"""
    p = os.path.join(d, "obl.v")
    open(p, "w").write(src)
    rc, out = C.sh(["coqc", "-Q", C.COQ, "hagall", p], cwd=d, timeout=900)
    res = {"ok": rc == 0, "log": out[-3000:], "values": None, "failures": [], "counts": None}
    m = re.search(r"R\s*=\s*\((\w+),\s*(\w+),\s*(\w+),\s*(\w+)\)", out.replace("\n", " "))
    if m:
        res["values"] = dict(zip(OBLIGATIONS, [x == "true" for x in m.groups()]))
    fm = re.search(r"F\s*=\s*\[(.*?)\]\s*:", out.replace("\n", " "))
    if fm:
        res["failures"] = [tuple(int(x) for x in t) for t in re.findall(r"\((\d+),\s*(\d+),\s*(\d+)\)", fm.group(1))]
    nm = re.search(r"NB\s*=\s*\((\d+),\s*(\d+),\s*(\d+),\s*(\d+),\s*(\d+)\)", out.replace("\n", " "))
    if nm:
        res["counts"] = dict(zip(["accesses_distinct", "edges", "blocking", "lock_classes", "fields"], [int(x) for x in nm.groups()]))
    km = re.search(r"K\s*=\s*\[(.*?)\]\s*:", out.replace("\n", " "))
    if km:
        res["ranks"] = [(int(a), int(b)) for a, b in re.findall(r"\((\d+),\s*(\d+)\)", km.group(1))]
    return res


def tables():
    import hashlib
    p = os.path.join(C.WORK, "c09", "tables-%s.json" % hashlib.sha1(C.COQ.encode()).hexdigest()[:8])
    try:
        return json.load(open(p))
    except Exception:
        return None


def explain_static(tb, obl):
    """human-readable reasons for the failing obligations, from the JSON twin of GenLocks.v"""
    out = []
    if tb is None:
        return ["no tables"]
    if not tb.get("ok"):
        out.append("translator: " + str(tb.get("error")))
    for u in tb.get("unresolved") or []:
        out.append("unresolved: " + u)
    v = (obl or {}).get("values") or {}
    if v.get("C09_locksets") is False:
        by = {}
        for a in tb["accesses"]:
            if not a["exempt"]:
                by.setdefault(a["field"], []).append(a)
        def guards(a, l):
            return l in a["held"] and (a["held"][l] or not a["write"])
        for f, accs in sorted(by.items()):
            bad = None
            n = 0
            for i, a in enumerate(accs):
                for b in accs[i:]:
                    if (a["write"] or b["write"]) and not any(guards(a, l) and guards(b, l) for l in a["held"]):
                        n += 1
                        bad = bad or (a, b)
            if bad:
                a, b = bad
                out.append("lockset: %s — %d conflicting pairs, e.g. %s %s %s holding %s  vs  %s %s %s holding %s" % (
                    f, n, "write" if a["write"] else "read", a["func"], a["pos"], sorted(a["held"].items()),
                    "write" if b["write"] else "read", b["func"], b["pos"], sorted(b["held"].items())))
    if v.get("C09_lock_order") is False:
        # report one cycle
        adj = {}
        for e in tb["edges"]:
            adj.setdefault(e["from"], []).append(e)
        def find_cycle():
            for start in adj:
                stack, seen = [(start, [])], set()
                while stack:
                    node, path = stack.pop()
                    for e in adj.get(node, []):
                        if e["to"] == start:
                            return path + [e]
                        if e["to"] not in seen:
                            seen.add(e["to"])
                            stack.append((e["to"], path + [e]))
            return None
        cyc = find_cycle()
        if cyc:
            out.append("lock order cycle: " + "  ;  ".join("%s -> %s at %s (%s)" % (e["from"], e["to"], e["site"], e["via"]) for e in cyc))
    if v.get("C09_blocking_sites") is False:
        okc = set(tb.get("blockok") or [])
        for b in tb["blocking"]:
            if b["chan"] not in okc:
                out.append("blocking send under a lock on an unreviewed channel: %s holding %s at %s (%s)" % (b["chan"], b["held"], b["site"], b["via"]))
    return out


# ------------------------------------------------------------------------------------------- race logs
FRAME = re.compile(r"^\s{2}(\S.*)\n\s{6}(\S+):(\d+)", re.M)
HEAD = re.compile(r"^(Write|Read|Previous write|Previous read|Atomic write|Atomic read|Previous atomic write|Previous atomic read) at (0x[0-9a-f]+) by (.*?):$", re.M)


def is_hagall(path):
    rp = os.path.realpath(C.REPO)
    return path.startswith(rp + "/") or path.startswith(C.REPO.rstrip("/") + "/") or "/aukilabs/hagall@" in path or "/aukilabs/hagall-common@" in path


def rel(path):
    for pre in (os.path.realpath(C.REPO) + "/", C.REPO.rstrip("/") + "/"):
        if path.startswith(pre):
            return path[len(pre):]
    i = path.find("/pkg/mod/")
    return path[i + 9:] if i >= 0 else path


def parse_race_logs(paths):
    """-> list of dict(kind pair, top hagall frames, text)"""
    races = []
    for p in paths:
        try:
            txt = open(p, errors="replace").read()
        except OSError:
            continue
        for block in txt.split("=================="):
            if "WARNING: DATA RACE" not in block:
                continue
            heads = list(HEAD.finditer(block))
            accs = []
            for i, h in enumerate(heads[:2]):
                end = block.find("\n\n", h.end())
                sec = block[h.end(): end if end > 0 else len(block)]
                frames = [(m.group(1).strip(), m.group(2), int(m.group(3))) for m in FRAME.finditer(sec)]
                hg = [f for f in frames if is_hagall(f[1]) and "/zz_verif_" not in f[1]]
                accs.append({"op": h.group(1).lower().replace("previous ", ""), "frames": frames, "hagall": hg})
            if len(accs) < 2 or not (accs[0]["hagall"] or accs[1]["hagall"]):
                continue
            tops = []
            for a in accs:
                f = a["hagall"][0] if a["hagall"] else a["frames"][0] if a["frames"] else ("?", "?", 0)
                tops.append("%s %s:%d %s" % (a["op"], rel(f[1]), f[2], f[0].replace("github.com/aukilabs/", "")))
            races.append({"key": " <-> ".join(sorted(tops)), "tops": tops, "text": block.strip()[:6000], "file": p})
    return races


def canonical_races(races, tb):
    """group by (field | line pair)"""
    pos2field = {}
    if tb:
        for a in tb.get("accesses", []):
            pos2field.setdefault(a["pos"], set()).add(a["field"])
    groups = {}
    for r in races:
        fields = None
        for t in r["tops"]:
            pos = t.split()[1]
            fs = pos2field.get(pos)
            if fs:
                fields = fs if fields is None else (fields & fs or fields)
        sig = "/".join(sorted(fields)) if fields else r["key"]
        g = groups.setdefault(sig, {"signature": sig, "count": 0, "pairs": {}, "sample": r["text"]})
        g["count"] += 1
        g["pairs"][r["key"]] = g["pairs"].get(r["key"], 0) + 1
    return sorted(groups.values(), key=lambda g: -g["count"])


# ------------------------------------------------------------------------------------------- dynamic part
def run_campaign(binp, seed, seconds, rounds, tag, mode="load", extra=None):
    d = wdir()
    rdir = os.path.join(d, "race-" + tag)
    shutil.rmtree(rdir, ignore_errors=True)
    os.makedirs(rdir)
    rep = os.path.join(d, "report-%s.json" % tag)
    if os.path.exists(rep):
        os.remove(rep)
    env = dict(os.environ, GORACE="halt_on_error=0 log_path=%s history_size=3" % os.path.join(rdir, "race"))
    cmd = [binp, "-seed", str(seed), "-seconds", str(seconds), "-rounds", str(rounds), "-mode", mode, "-out", rep] + (extra or [])
    t0 = time.time()
    rc, out = C.sh(cmd, env=env, timeout=int(seconds) * 4 + 600)
    crash = re.search(r"^(panic: .*|fatal error: .*)$", out, re.M)
    if len(out) > 16000:
        out = out[:8000] + "\n[...]\n" + out[-8000:]
    res = {"rc": rc, "cmd": "GORACE='%s' %s" % (env["GORACE"], " ".join(cmd)), "out": out, "crash": crash.group(1) if crash else None, "wall": time.time() - t0,
           "report": None, "race_logs": sorted(glob.glob(os.path.join(rdir, "race.*")))}
    try:
        res["report"] = json.load(open(rep))
    except Exception:
        pass
    return res


def summarize_dynamic(runs, tb):
    """-> (findings, stats). findings: list of dict(kind, what, detail)"""
    findings = []
    stats = {"requests": 0, "connections": 0, "max_concurrent_connections": 0, "load_seconds": 0.0, "sessions": 0, "barriers": 0,
             "reconnects": 0, "ops_by_kind": {}, "received_by_type": {}, "rounds": [], "race_reports_total": 0, "race_reports_hagall": 0}
    all_races = []
    for r in runs:
        rep = r["report"]
        if rep:
            stats["requests"] += rep.get("requests", 0)
            stats["connections"] += rep.get("connections", 0)
            stats["max_concurrent_connections"] = max(stats["max_concurrent_connections"], rep.get("max_concurrent_connections", 0))
            stats["load_seconds"] += rep.get("load_seconds", 0)
            stats["sessions"] += rep.get("sessions_created", 0)
            stats["barriers"] += rep.get("barriers", 0)
            stats["reconnects"] += rep.get("reconnects", 0)
            stats["rounds"] += rep.get("rounds") or []
            for k, v in (rep.get("ops_by_kind") or {}).items():
                stats["ops_by_kind"][k] = stats["ops_by_kind"].get(k, 0) + v
            for k, v in (rep.get("received_by_type") or {}).items():
                stats["received_by_type"][k] = stats["received_by_type"].get(k, 0) + v
            if rep.get("wedge"):
                what = rep["wedge"]["reason"]
                dump = rep["wedge"]["goroutines"]
                for g in dump.split("\n\n"):
                    if "[chan send" in g.split("\n")[0] and "websocket.(*handler).disconnect" in g:
                        what += " [a main loop is blocked in websocket.(*handler).disconnect: blocking send on its own full disconnectChan]"
                        break
                    if ("[sync.Mutex.Lock" in g.split("\n")[0] or "[sync.RWMutex" in g.split("\n")[0]) and "aukilabs/hagall" in g:
                        fr = [l for l in g.split("\n") if l.startswith("github.com/aukilabs/hagall")]
                        what += " [a goroutine is blocked on a lock in %s]" % (fr[0].split("(0x")[0] if fr else "?")
                        break
                findings.append({"kind": "deadlock", "what": what, "detail": dump[:200000], "cmd": r["cmd"]})
            if rep.get("server_panics"):
                findings.append({"kind": "panic", "what": "%d handler panics under concurrent load, e.g. %s" % (
                    rep["server_panics"], (rep.get("panic_samples") or ["?"])[0].split("\n")[0]),
                    "detail": "\n\n".join(rep.get("panic_samples") or []), "cmd": r["cmd"]})
            for o in rep.get("orphaned_module_state") or []:
                findings.append({"kind": "orphaned-module-state", "what": o, "detail": o, "cmd": r["cmd"]})
        if r["rc"] not in (0, 3) or (r["rc"] == 3 and not (rep and rep.get("wedge"))):
            if r.get("crash"):
                findings.append({"kind": "crash", "what": "the server process crashed under concurrent load: " + r["crash"],
                                 "detail": r["out"], "cmd": r["cmd"]})
            else:
                findings.append({"kind": "internal", "what": "harness exit code %d" % r["rc"], "detail": r["out"], "cmd": r["cmd"]})
        races = parse_race_logs(r["race_logs"])
        for p in r["race_logs"]:
            try:
                stats["race_reports_total"] += open(p, errors="replace").read().count("WARNING: DATA RACE")
            except OSError:
                pass
        stats["race_reports_hagall"] += len(races)
        for x in races:
            x["cmd"] = r["cmd"]
        all_races += races
    groups = canonical_races(all_races, tb)
    for g in groups:
        findings.append({"kind": "race", "what": "data race on %s (%d reports)" % (g["signature"], g["count"]),
                         "detail": g["sample"], "pairs": g["pairs"], "cmd": all_races[0]["cmd"] if all_races else ""})
    return findings, stats


# ------------------------------------------------------------------------------------------- main
def cross_validate(tb, thorough):
    """the static lock-order table against the lock-order pairs observed on the real code: the sources are instrumented
    (tools/instrument: every Lock / RLock / Unlock / RUnlock reports to the scheduler package, which knows what every
    goroutine holds), harness/c09 is built against them and put under load with real threads, harness/l3v explores one race;
    every pair (class held, class acquired) observed must be an edge of the static table, every site observed must be a
    site the static analysis knows.  -> dict"""
    from . import c01conc, c13conc
    res = {"done": False}
    if not tb or not tb.get("sites"):
        res["why"] = "the static tables carry no site list"; return res
    try:
        with C.Lock("build"):
            ok, what, paths = c01conc.build()
            if not ok:
                res["why"] = "instrumented build: " + what[-300:]; return res
            hdir = C.harness_dir()
            lo = os.path.join(wdir(), "c09lockorder" + C.RTAG)
            rcb, outb = C.sh(["go", "build", "-tags", "verif,lockorder", "-overlay", paths["overlay"], "-o", lo, "./c09"], cwd=hdir, env=C.GOENV, timeout=1800)
            if rcb != 0:
                res["why"] = "harness/c09 does not build against the instrumented sources: " + outb[-400:]; return res
    except RuntimeError as e:
        res["why"] = str(e)[-300:]; return res
    ep1, ep2 = os.path.join(wdir(), "edges-load%s.txt" % C.RTAG), os.path.join(wdir(), "edges-l3v%s.txt" % C.RTAG)
    for p in (ep1, ep2):
        try: os.remove(p)
        except OSError: pass
    secs = "30" if thorough else "6"
    rc1, out1 = C.sh([lo, "-seed", str(C.seed()), "-seconds", secs, "-rounds", "3", "-out", os.path.join(wdir(), "lockorder-report%s.json" % C.RTAG)],
                     env=dict(os.environ, VERIF_EDGES=ep1), timeout=600)
    name, progs, setup, conn, _ = c13conc.SCENARIOS[0]
    try:
        with C.Lock("run-C01conc"):
            c01conc.run_l3v(paths, progs, setup, ["-explore", "-bound", "1", "-max", "2000", "-edges", ep2], timeout=1200)
    except RuntimeError as e:
        res["l3v"] = str(e)[-200:]
    pairs = {}
    for p in (ep1, ep2):
        if os.path.exists(p):
            for line in open(p):
                f = line.split()
                if len(f) == 3:
                    pairs[(f[0], f[1])] = pairs.get((f[0], f[1]), 0) + int(f[2])
    cls = {}
    for st in tb["sites"]:
        cls.setdefault(st["pos"], set()).add(st["class"])
    static = {(e["from"], e["to"]) for e in tb.get("edges", [])}
    unknown_sites = sorted({x for pr in pairs for x in pr if x not in cls})
    dyn, missing = {}, []
    for (a, b), n in sorted(pairs.items()):
        if a not in cls or b not in cls:
            continue
        cands = [(ca, cb) for ca in cls[a] for cb in cls[b]]
        hit = [c for c in cands if c in static]
        for c in (hit or cands[:1]):
            dyn[c] = dyn.get(c, 0) + n
        if not hit:
            missing.append({"held_site": a, "acquired_site": b, "classes": ["%s -> %s" % c for c in cands], "count": n})
    res.update({"done": True, "load": out1.strip().splitlines()[-1][:300] if out1.strip() else "", "load_rc": rc1,
                "site_pairs_observed": len(pairs), "class_edges_observed": sorted("%s -> %s (%d)" % (a, b, n) for (a, b), n in dyn.items()),
                "static_edges": len(static), "static_edges_observed": len([e for e in static if e in dyn]),
                "observed_edges_missing_from_static_table": missing, "observed_sites_unknown_to_static_analysis": unknown_sites,
                "note": "static edges whose locks live outside the instrumented packages (hagall-common scheduler) or are sync.Once cannot be observed"})
    return res

def run(tier, replay):
    t0 = time.time()
    seed = C.seed()
    thorough = tier == "thorough"
    print("C09 tier=%s seed=%d repo=%s" % (tier, seed, C.REPO))
    bad = C.grep_forbidden()
    mine = [b for b in bad if "Locks" in b or "C09" in b]
    if mine:
        print("INTERNAL: forbidden Coq keyword: " + "; ".join(mine))
        return 2

    # ---- 1. tables, Coq
    tl = time.time()
    with C.Lock("build"):
        print("build lock acquired after %.1fs" % (time.time() - tl))
        tl = time.time()
        C.run_translator()   # every Gen*.v must exist for the Makefile's dependency scan; only ours matters below
        okR, logR = regenerate()
        if not okR:
            print("INTERNAL: tools/locktables failed:\n" + logR[-2000:])
            return 2
        # only this property's files: Properties/C09.vo fails to build exactly when an obligation is false
        okC, logC = C.coq_make(["Locks.vo", "GenLocks.vo", "proofs/LocksProofs.vo", "Properties/C09.vo"])
        obl = eval_obligations()
        info = C.property_file_info(PID)
        chk = None
        if thorough and info["ok"]:
            rcq, outq = C.sh(["coqchk", "-silent", "-o", "-Q", ".", "hagall", "hagall.Properties.C09"], cwd=C.COQ, timeout=1800)
            chk = {"rc": rcq, "tail": outq[-600:]}
            print("coqchk hagall.Properties.C09: rc=%d" % rcq)
        okH, logH, binp = C.build_harness("c09", race=True)
    tb = tables()
    print("tables + Coq + harness build: %.1fs" % (time.time() - tl))
    print(logR.strip().splitlines()[-1] if logR.strip() else "")
    vals = obl.get("values")
    if vals is None:
        # Locks.v / LocksProofs.v / GenLocks.v do not compile: every obligation counts as failed
        vals = {k: False for k in OBLIGATIONS}
        obl["values"] = vals
        print("Coq evaluation of the obligations failed:\n" + obl["log"][-1500:])
    failed = [k for k in OBLIGATIONS if not vals.get(k)]
    general_ok = info["ok"] or not failed and False
    static_reasons = explain_static(tb, obl) if failed else []
    print("obligations: " + ", ".join("%s=%s" % (k, "ok" if vals.get(k) else "FAILS") for k in OBLIGATIONS))
    for s in static_reasons[:30]:
        print("  " + s)
    proofs_broken = (not info["ok"]) and not failed
    if proofs_broken:
        print("Properties/C09.v does not compile although every obligation evaluates to true:\n" + info["log"][-2000:])

    # ---- 2. dynamic campaign
    runs = []
    if not okH:
        print("harness/c09 does not build against the current tree:\n" + logH[-3000:])
    else:
        if replay:
            try:
                rp = json.load(open(replay))
            except Exception as e:
                print("INTERNAL: cannot read replay file: %s" % e)
                return 2
            rs = rp.get("seed", seed)
            secs = rp.get("seconds", 20)
            runs.append(run_campaign(binp, rs, secs, rp.get("rounds", 3), "replay", mode=rp.get("mode", "load")))
        else:
            secs, rounds = (150, 10) if thorough else (24, 4)
            runs.append(run_campaign(binp, seed, secs, rounds, "load"))
            trials = 1500 if thorough else 250
            runs.append(run_campaign(binp, seed, 0, 0, "init", mode="initstorm", extra=["-trials", str(trials)]))
            findings0, _ = summarize_dynamic(runs, tb)
            if (failed or proofs_broken) and not [f for f in findings0 if f["kind"] != "internal"]:
                # the tie is broken and the standard volume found nothing: directed, longer search
                print("tie broken, nothing found yet: extended campaign")
                for i in range(3 if not thorough else 6):
                    runs.append(run_campaign(binp, seed + 1000 + i, 40, 5, "ext%d" % i, extra=["-batch", "48"]))
                    f1, _ = summarize_dynamic(runs, tb)
                    if [f for f in f1 if f["kind"] != "internal"]:
                        break
    findings, stats = summarize_dynamic(runs, tb)
    # the initstorm run reads module state from the harness goroutine: its race logs are not evidence
    internal = [f for f in findings if f["kind"] == "internal"]
    real = [f for f in findings if f["kind"] != "internal"]
    print("campaign: %d requests on %d connections (max %d at once), %.1f s of load, %d race reports (%d involving hagall), findings: %d" % (
        stats["requests"], stats["connections"], stats["max_concurrent_connections"], stats["load_seconds"],
        stats["race_reports_total"], stats["race_reports_hagall"], len(real)))
    for f in real[:20]:
        print("  FINDING %s: %s" % (f["kind"], f["what"][:300]))

    # ---- 2b. cross-validation of the static lock-order table (the translator is trusted base: this checks it)
    xv = {"done": False, "why": "replay"} if replay else cross_validate(tb, thorough)
    xv_bad = xv.get("done") and (xv["observed_edges_missing_from_static_table"] or xv["observed_sites_unknown_to_static_analysis"])
    if xv.get("done"):
        print("lock-order cross-validation: %d site pairs observed, %d of %d static edges observed, %d observed edge(s) missing from the static table, %d unknown site(s)" % (
            xv["site_pairs_observed"], xv["static_edges_observed"], xv["static_edges"], len(xv["observed_edges_missing_from_static_table"]), len(xv["observed_sites_unknown_to_static_analysis"])))
    else:
        print("lock-order cross-validation not done: " + str(xv.get("why")))

    # ---- 3. verdict
    rc = 0
    violations = []
    known = C.known_findings(PID)
    def is_known(f):
        for k in known:
            sig = k.get("signature", {})
            if sig.get("kind") == f["kind"] and sig.get("match") and sig["match"] in f["what"]:
                return k
        return None
    unknown = []
    for f in real:
        k = is_known(f)
        if k:
            print("KNOWN-FINDING: property=%s %s" % (PID, k.get("what", f["what"])))
        else:
            unknown.append(f)
    if unknown:
        f = unknown[0]
        rp = C.write_replay(PID, "replay-%s-seed%d.json" % (f["kind"], seed), {
            "property": PID, "kind": f["kind"], "what": f["what"], "seed": (replay and json.load(open(replay)).get("seed")) or seed,
            "seconds": 24, "rounds": 4, "mode": "initstorm" if f["kind"] == "orphaned-module-state" else "load",
            "reproduce": f.get("cmd"), "note": "real-thread schedule: rerun the command (the race detector reports by happens-before, "
            "so the report recurs with the same seed although the interleaving differs)",
            "all_findings": [{"kind": x["kind"], "what": x["what"], "pairs": x.get("pairs")} for x in unknown],
            "failed_obligations": failed, "static_reasons": static_reasons[:40], "schedule": f["detail"]})
        C.violation(PID, rp)
        violations = [{"kind": x["kind"], "what": x["what"][:400]} for x in unknown]
        rc = 1
    elif failed or proofs_broken or not okH or (tb is None) or xv_bad:
        what = failed or (["Properties/C09.v"] if proofs_broken else (["harness/c09 build"] if (not okH or tb is None) else
                ["tools/locktables: the static lock-order table misses what the real code does: " + json.dumps((xv["observed_edges_missing_from_static_table"] or xv["observed_sites_unknown_to_static_analysis"])[:3])]))
        rp = C.write_replay(PID, "unchecked-seed%d.json" % seed, {
            "unchecked": ["Properties/C09.v:" + w for w in what], "reasons": static_reasons[:60],
            "coq_log": (info["log"][-1500:] if proofs_broken else ""), "harness_log": (logH[-1500:] if not okH else ""),
            "searched": {"requests": stats["requests"], "load_seconds": stats["load_seconds"], "runs": [r["cmd"] for r in runs]}})
        C.violation(PID, rp, no_input=True)
        violations = [{"kind": "tie-broken", "what": ", ".join(what)}]
        rc = 1
    if internal and rc == 0:
        print("INTERNAL: " + internal[0]["what"] + "\n" + internal[0]["detail"][-2000:])
        rc = 2

    # ---- 4. evidence
    counts = obl.get("counts") or {}
    nacc = len(tb["accesses"]) if tb and tb.get("accesses") else 0
    fields = sorted({a["field"] for a in tb["accesses"]}) if nacc else []
    exempt = {}
    for a in (tb["accesses"] if nacc else []):
        exempt[a["exempt"] or "checked"] = exempt.get(a["exempt"] or "checked", 0) + 1
    nontrivial = len({(a["field"], a["write"], tuple(sorted(a["held"].items()))) for a in (tb["accesses"] if nacc else []) if not a["exempt"] and a["held"]})
    coverage = {
        "obligations": len(info["theorems"]) or 10, "discharged": len(info["theorems"]) if info["ok"] else (4 if os.path.exists(os.path.join(C.COQ, "proofs", "LocksProofs.vo")) else 0) + sum(1 for k in OBLIGATIONS if vals.get(k)),
        "checker_cmd": "coqc -Q coq hagall coq/Properties/C09.v",
        "theorems": info["theorems"], "print_assumptions": {"closed": info.get("closed"), "axioms": info.get("axioms")},
        "generated_obligations": vals, "failed_obligations": failed, "static_reasons": static_reasons[:20],
        "tables": {"access_records": nacc, "access_records_distinct_for_checker": counts.get("accesses_distinct"),
                   "fields": len(fields), "lock_classes": counts.get("lock_classes"), "lock_edges": counts.get("edges"),
                   "blocking_under_lock": counts.get("blocking"), "functions_analysed": tb.get("functions_analysed") if tb else None,
                   "lock_sites": tb.get("lock_sites") if tb else None, "thread_roots": tb.get("threads") if tb else None,
                   "accesses_by_exemption": exempt, "whitelist_used": tb.get("whitelist_used") if tb else None,
                   "whitelist_unused": tb.get("whitelist_unused") if tb else None,
                   "lock_order": [{"from": e["from"], "to": e["to"]} for e in (tb["edges"] if tb and tb.get("edges") else [])]},
        "trusted_base": C.TRUSTED_BASE + [
            "Print Assumptions of every theorem of Properties/C09.v: Closed under the global context (%s closed, axioms %s)" % (info.get("closed"), info.get("axioms")),
            "tools/locktables (go/packages + go/ssa + VTA call graph -> coq/GenLocks.v): trusted to report field accesses, must-held lock classes, lock-order edges and blocking sends correctly; fails closed (unresolved lock receivers, load errors make the obligations false); cross-checked dynamically by the race detector runs",
            "tools/locktables/confined.txt: hand-justified exemptions (thread-confined fields — the thread-reachability half is re-checked mechanically on every run —, fields written only before publication, value types, accepted blocking channels with their hypotheses)",
            "lock classes stand for lock instances: a lock of class (struct, field) held on another object of the same struct type is not counted, but guards of a different type are counted by class",
            "the theorems are about the extracted tables and the abstract lock machine (exclusive, non re-entrant locks; RWMutex treated as exclusive for ordering), not about Go's memory model",
            "hypotheses of deadlock freedom beyond lock ordering: clients keep reading (blocking send on handler.sendChan under participantMutex/subscriptionMutex) and at most schedulerQueueSize unprocessed requests per connection (send on scheduler.queue under frameMutex); the harness keeps <= 48 requests in flight per connection",
            "dynamic part: Go race detector (happens-before, finds only races on executed paths), harness/c09 (generator, watchdog), hooks modules__{vikja,odal,dagaz}__c09_verif.go (read-only accessor of Module.state)",
        ],
        "traces_validated_against_impl": len([r for r in runs if r["report"]]),
        "evaluations": stats["requests"],
        "distinct_nontrivial": nontrivial,
        "rule": "distinct (field, read/write, held lock set) access shapes that are not exempt and hold at least one lock — what C09_locksets actually compares; dynamic side: requests executed on the real server under the race detector",
        "samples": [{"field": a["field"], "write": a["write"], "held": a["held"], "func": a["func"], "pos": a["pos"]} for a in (tb["accesses"][::max(1, nacc // 6)][:6] if nacc else [])],
        "distribution": {"ops_by_kind": stats["ops_by_kind"], "received_by_type": stats["received_by_type"], "rounds": stats["rounds"]},
        "dynamic": {k: stats[k] for k in ("requests", "connections", "max_concurrent_connections", "load_seconds", "sessions", "barriers", "reconnects", "race_reports_total", "race_reports_hagall")},
        "init_storm": {"trials": sum((r["report"] or {}).get("init_trials", 0) for r in runs), "overlapping": sum((r["report"] or {}).get("init_overlaps", 0) for r in runs)},
        "coqchk": chk,
        "cross_validation_of_static_tables": xv,
    }
    assumptions = ["clients keep reading what they are sent", "at most schedulerQueueSize (256) unprocessed requests per connection",
                   "the translator's tables are faithful (trusted, fail-closed)", "lock class = lock instance abstraction (see trusted_base)"]
    C.write_evidence(PID, tier, coverage, assumptions, time.time() - t0, violations, level="proof")
    print("C09 done rc=%d wall=%.1fs" % (rc, time.time() - t0))
    return rc


if __name__ == "__main__":
    tier = "quick"
    replay = None
    a = sys.argv[1:]
    while a:
        x = a.pop(0)
        if x == "--tier":
            tier = a.pop(0)
        elif x == "--replay":
            replay = a.pop(0)
    sys.exit(run(tier, replay))

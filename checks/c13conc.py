"""C13, concurrent reading of "after unsubscribing a participant receives no further update notifications": an
unsubscribe racing a component update by another member.  C13's quantifier is over (sequential) histories; this part
goes beyond it: it explores every lock-granularity schedule (preemption bound 2 / 3) of the two racing requests on the
instrumented real handlers (the machinery of checks/c01conc.py: tools/instrument, harness/l3v) and checks, in the
unsubscriber's own message stream, that no ENTITY_COMPONENT_UPDATE_BROADCAST follows its unsubscribe response.  In the
code as it is this holds because EntityComponentStore.Notify relays while it holds the subscription lock that
Unsubscribe needs (lock tables of C09); there is no Coq model of this race: the verdict is by exploration only and is
labelled so in the evidence."""
import json, os, time
from . import common as C
from . import c01conc

PID = "C13"
UNSUB_RESP, UPDATE_B = 37, 31
SCENARIOS = [
    ("unsubscribe-vs-comp-update", "C,E,T1,A1.1,S1,G1,N1|J1,S1,G1,U1.1|J1,S1,G1", [1, 1, 1, 1, 2, 3, 1, 1, 2, 2, 3, 3], 1,
     "an unsubscribe against an update of a component of that type by another subscriber"),
    ("unsubscribe-vs-two-updates", "C,E,T1,A1.1,S1,G1,N1|J1,S1,G1,U1.1|J1,S1,G1,U1.1", [1, 1, 1, 1, 2, 3, 1, 1, 2, 2, 3, 3], 1,
     "an unsubscribe against two updates by the two other subscribers"),
]


def late_updates(ex, conn):
    """number of update broadcasts delivered to conn after its unsubscribe response, in the race part of its stream"""
    seen_resp, late = False, 0
    for line in ex.lines:
        f = line.split()
        if len(f) >= 4 and f[0] == "I" and f[1] == str(conn) and f[2] == "0":
            if f[3] == str(UNSUB_RESP):
                seen_resp = True
            elif f[3] == str(UPDATE_B) and seen_resp:
                late += 1
    return late


def run(tier="quick", replay=None, merge=True):
    t0 = time.time()
    try:
        with C.Lock("build"):
            ok, what, paths = c01conc.build()
    except RuntimeError as e:
        print("INTERNAL: " + str(e)); return 2
    cov = {"scenarios": [], "tie_broken": [], "level_of_this_part": "theorems for every schedule over the interleaving model coq/ConcStore.v + regenerated facts about the critical sections (GenStore.v) + exploration of the real handlers"}
    viol = []
    if not ok:
        if what.startswith("INTERNAL"):
            print(what); return 2
        rp = C.write_replay(PID, "replay-c13conc-build.json", {"property": PID, "level": "L3", "scenario": "build", "unchecked": "L3 build", "failed": [what]})
        cov["tie_broken"].append(what[-400:])
        viol.append({"kind": "tie", "replay": rp, "what": what})
    else:
        if replay:
            o = json.load(open(replay))
            execs, _ = c01conc.run_l3v(paths, o["progs"], o.get("setup", []), ["-run", ",".join(map(str, o["schedule"]))])
            n = late_updates(execs[0], o.get("conn", 1))
            print("%d update broadcast(s) after the unsubscribe response of connection %d" % (n, o.get("conn", 1)))
            if n:
                C.violation(PID, replay); return 1
            return 0
        nexec = 0
        with C.Lock("run-C01conc"):
            for (name, progs, setup, conn, what) in SCENARIOS:
                b = 3 if tier == "thorough" and progs.count("U1.1") == 1 else 2
                execs, trunc = c01conc.run_l3v(paths, progs, setup, ["-explore", "-bound", str(b), "-max", "200000" if tier == "thorough" else "30000"], timeout=6000)
                nexec += len(execs)
                bad = [ex for ex in execs if late_updates(ex, conn)]
                cov["scenarios"].append({"name": name, "progs": progs, "setup": setup, "race": what, "bound": b, "executions": len(execs),
                                         "violating": len(bad), "truncated": trunc,
                                         "update_reached_unsubscriber_before_response": sum(1 for ex in execs if any(
                                             l.split()[:4] == ["I", str(conn), "0", str(UPDATE_B)] for l in ex.lines[[i for i, l in enumerate(ex.lines) if l.split()[:3] == ["I", str(conn), "3"]][0]:] if True) and not late_updates(ex, conn))})
                if bad and not viol:
                    ex = bad[0]
                    rp = C.write_replay(PID, "replay-c13conc-%s.json" % name, {"property": PID, "level": "L3", "scenario": name, "progs": progs, "setup": setup,
                                                                              "schedule": ex.choices, "conn": conn,
                                                                              "failed": ["an update notification was delivered to connection %d after its unsubscribe response" % conn]})
                    viol.append({"kind": "property", "replay": rp, "what": name, "schedule": ex.choices})
        cov.update({"traces_validated_against_impl": nexec, "evaluations": nexec,
                    "rule": "one case = one complete schedule of the race on the instrumented real handlers; every lock acquisition of the racing requests is a scheduling point"})
    info, tie = ({"ok": True, "theorems": [], "examples": []}, None) if replay else C.store_clause_info("C13store")
    if tie:
        cov["tie_broken"].append(tie)
        if not viol:
            rp = C.write_replay(PID, "replay-c13store-unchecked.json", {"property": PID, "unchecked": tie,
                                "searched": "every schedule of the race scenarios within the preemption bound on the instrumented real handlers: no failing schedule"})
            viol.append({"kind": "tie", "replay": rp, "what": tie})
    rc = 0
    for v in viol:
        C.violation(PID, v["replay"], no_input=(v["kind"] != "property")); rc = 1
        break
    assumptions = ["concurrent reading (beyond the property's quantifier): for the model, every schedule (Properties/ConcStore.v: C13_conc_no_relay_after_unsub_response, under the hypotheses that a "
                   "participant's subscribe / unsubscribe / response come from its own connection and the response follows the unsubscription); on the real handlers, bounded exploration "
                   "(preemption bound 2, 3 in the thorough tier for two racers)"]
    tb = ["tools/instrument + verifsched + harness/l3v (see C01's concurrent clause); the verdict on real executions reads the unsubscriber's recorded message stream directly (checks/c13conc.py), no extracted model is involved; tools/storefacts (Go AST -> coq/GenStore.v: Notify calls its handler inside the subscription lock, (un)subscriptions are single exclusive critical sections, callers of Notify relay inside the callback, the unsubscribe response follows Unsubscribe), fails closed"]
    if merge:
        err = C.merge_evidence(PID, "concurrent_reading", cov, info, assumptions, tb, rc, time.time() - t0, "", [dict(v) for v in viol])
        if err:
            print("INTERNAL: " + err); return 2
    return rc

"""C03, the noninterference experiment of the property's quantifier ("noninterference is checked by re-running every
history with all other sessions' traffic removed"), on the real handlers.

harness/l1 `purgerun` runs every generated history twice on the implementation: in full, and with the operations of every
connection outside a group A removed (A = connections that ever shared a session incarnation; session ids named by A's
joins and ticks are translated through the correspondence of the two runs).  The extraction of coq/Purge.v `P_purge`
(oracle `C03purge`) walks the two traces side by side: a connection of A must receive, operation by operation, the same
messages in both runs - session ids and uuids up to a bijection, everything else literally, unordered lists sorted, the
payload of module answers (dagaz planes) by digest -, nothing from operations of the others, and the same verdicts.  The
judge re-derives the purge itself from the two traces (codes 391/392), so the Go translation is not trusted for the
verdict.  Histories on which the experiment does not apply (397-399) are counted, not judged.  The same judgement is
proved never to report a violation code on the model (coq/Properties/Purge.v, when present) and is evaluated on the
model's own runs of every history as a diagnostic (MODELVIOL)."""
import json, os, re, time
from . import common as C

PID = "C03"
CODES = {330: "an operation outside the group delivered a message into it", 331: "the group's connections receive different messages with and without the other sessions' traffic",
         332: "a request of the group is accepted in one run and ends the connection in the other", 333: "the payload of a module answer differs with and without the other sessions' traffic",
         334: "the membership relations of the two runs are not a renaming of session ids"}


def parse(out):
    res = {"ok": 0, "skip": {}, "bad": {}, "modelviol": [], "summary": None, "decodefail": []}
    cur = None
    for line in out.splitlines():
        if line.startswith("OK "):
            res["ok"] += 1
        elif line.startswith("SKIP "):
            m = re.search(r"code=(\d+)", line)
            res["skip"][m.group(1)] = res["skip"].get(m.group(1), 0) + 1
        elif line.startswith("BAD "):
            cur = {"gid": int(line.split()[1]), "pviol": []}
            res["bad"][cur["gid"]] = cur
        elif line.startswith("  PVIOL") and cur:
            m = re.match(r"\s+PVIOL (\d+) at=(\d+) code=(-?\d+) info=(.*)", line)
            cur["pviol"].append({"at": int(m.group(2)), "code": int(m.group(3)), "info": m.group(4)})
        elif line.startswith("MODELVIOL"):
            res["modelviol"].append(line)
        elif line.startswith("SUMMARY"):
            res["summary"] = line
        elif line.startswith("DECODEFAIL"):
            res["decodefail"].append(line)
    return res


def history_of(trace_path, hid):
    """H / O lines of history hid of an L1 trace"""
    out, on = [], False
    for line in open(trace_path):
        if line.startswith("H "):
            on = int(line.split()[1]) == hid
        if on and line[:1] in ("H", "O", "E"):
            out.append(line.rstrip("\n"))
            if line.startswith("E"):
                break
    return out


def experiment(l1, ora, wd, name, trace, groups=2):
    pp = os.path.join(wd, name + ".purge.txt")
    sp = os.path.join(wd, name + ".purge.stats")
    rc, o = C.sh([l1, "purgerun", "-in", trace, "-out", pp, "-groups", str(groups), "-stats", sp], timeout=1800)
    if rc != 0:
        return None, None, "harness purgerun failed: " + o[-800:]
    rc, o = C.sh([ora, "C03purge", pp, "3"], timeout=3000)
    r = parse(o)
    st = json.load(open(sp)) if os.path.exists(sp) else {}
    if rc not in (0, 1) or r["decodefail"] or not r["summary"]:
        return None, None, "oracle failed: " + o[-800:]
    try: os.remove(pp)
    except OSError: pass
    return r, st, ""


def run(tier="quick", replay=None, merge=True):
    t0 = time.time()
    with C.Lock("build"):
        tr_ok, tr_log = C.run_translator()
        coq_ok, coq_log = C.coq_make()
        if not os.path.exists(os.path.join(C.COQ, "Purge.vo")):
            print("INTERNAL: coq/Purge.v does not compile\n" + coq_log[-2000:]); return 2
        ok, log = C.build_oracle()
        if not ok:
            print("INTERNAL: oracle build failed\n" + log[-2000:]); return 2
        h_ok, h_log, l1 = C.build_harness("l1")
    ora = os.path.join(C.VERIF, "oracle", "oracle")
    wd = os.path.join(C.WORK, PID + "purge" + C.RTAG)
    os.makedirs(wd, exist_ok=True)
    cov = {"tie_broken": []}
    viol = []
    if not h_ok:
        rp = C.write_replay(PID, "replay-c03purge-build.purge", "# unchecked: harness/l1 does not build against the current tree: " + h_log[-600:].replace("\n", " ") + "\n")
        cov["tie_broken"].append("harness build: " + h_log[-400:])
        viol.append({"kind": "tie", "replay": rp})
    elif replay:
        txt = open(replay).read()
        if not any(l.startswith("H ") for l in txt.splitlines()):
            print("the replay file carries no history; running the quick check"); return run("quick", None, merge=False)
        r, st, e = experiment(l1, ora, wd, "replay", replay, groups=8)
        if r is None:
            print("INTERNAL: " + e); return 2
        print(r["summary"])
        for gid, b in r["bad"].items():
            for v in b["pviol"]:
                print("experiment %d: code %d (%s) at operation %d, info %s" % (gid, v["code"], CODES.get(v["code"], "?"), v["at"], v["info"]))
        if r["bad"]:
            C.violation(PID, replay); return 1
        return 0
    else:
        jobs = []
        cdir = os.path.join(C.VERIF, "corpus", "C03purge")
        if os.path.isdir(cdir):
            for fn in sorted(os.listdir(cdir)):
                if fn.endswith(".purge"):
                    jobs.append(("corpus-" + fn, os.path.join(cdir, fn)))
        plan = [("C03p", 3, 60), ("C03", 1, 40)] if tier == "quick" else [("C03p", 10, 300), ("C03", 3, 200), ("full", 2, 150), ("C07", 2, 150), ("C12", 1, 150), ("C16", 1, 150)]
        for prof, nsh, per in plan:
            for s in range(nsh):
                tp = os.path.join(wd, "gen-%s-%d.trace" % (prof, s))
                rc, o = C.sh([l1, "gen", "-profile", prof, "-seed", str(C.seed() * 911 + 31 * s + 5), "-n", str(per), "-out", tp], timeout=1800)
                if rc != 0:
                    print("INTERNAL: harness gen failed: " + o[-600:]); return 2
                jobs.append(("gen-%s-%d" % (prof, s), tp))
        tot = {"ok": 0, "bad": 0}
        skips, stats, modelviol = {}, {}, []
        for name, tp in jobs:
            r, st, e = experiment(l1, ora, wd, name, tp)
            if r is None:
                print("INTERNAL: " + e); return 2
            tot["ok"] += r["ok"]
            tot["bad"] += len(r["bad"])
            for k, v in r["skip"].items():
                skips[k] = skips.get(k, 0) + v
            for k, v in st.items():
                stats[k] = stats.get(k, 0) + v
            modelviol += r["modelviol"]
            if r["bad"] and not viol:
                gid = sorted(r["bad"])[0]
                pv = r["bad"][gid]["pviol"][0]
                hist = history_of(tp, gid // 10)
                # keep the operations up to the failing one (snapshots are not counted by the judge)
                keep, n = [], 0
                for l in hist:
                    if l.startswith("O "):
                        if l.split()[1] != "6":
                            n += 1
                        if n > pv["at"] + 1:
                            continue
                    keep.append(l)
                body = ("# C03 noninterference experiment: code %d (%s) at operation %d, info %s\n# group %d of the history (connections that ever shared a session), largest first\n"
                        "# replay: bin/check C03 --replay <this file>\n" % (pv["code"], CODES.get(pv["code"], "?"), pv["at"], pv["info"], gid % 10)) + "\n".join(keep) + "\n"
                rp = C.write_replay(PID, "replay-C03-purge-h%d.purge" % (gid // 10), body)
                viol.append({"kind": "property", "replay": rp, "code": pv["code"], "info": pv["info"]})
            if not viol:
                try: os.remove(tp)
                except OSError: pass
        judged = tot["ok"] + tot["bad"]
        nontrivial = sum(v for k, v in stats.items() if k.startswith("groups:") and k != "groups:1" and k != "groups:0")
        cov.update({"traces_validated_against_impl": stats.get("histories", 0), "evaluations": judged,
                    "experiments": stats.get("experiments", 0), "experiments_judged": judged, "experiments_not_applicable_by_code": skips,
                    "histories_with_two_or_more_groups": nontrivial, "operations_full_runs": stats.get("ops_full", 0), "operations_kept_in_purged_runs": stats.get("ops_kept", 0),
                    "distribution": {k: v for k, v in sorted(stats.items()) if k.startswith("group")},
                    "model_violations_of_the_judgement": len(modelviol),
                    "rule": "one case = one (history, group) pair run in full and purged on the real handlers and judged operation by operation"})
        if modelviol:
            cov["tie_broken"].append("P_purge reports a violation code on the model's own runs (Properties/Purge.v should exclude it): " + modelviol[0])
        if judged == 0:
            cov["tie_broken"].append("no experiment was judged")
        if cov["tie_broken"] and not viol:
            rp = C.write_replay(PID, "replay-c03purge-unchecked.purge", "# unchecked: " + "\n# unchecked: ".join(cov["tie_broken"]) + "\n")
            viol.append({"kind": "tie", "replay": rp})
    rc = 0
    for v in viol:
        C.violation(PID, v["replay"], no_input=(v["kind"] != "property")); rc = 1
        break
    info = {"ok": True, "theorems": [], "examples": []}
    assumptions = ["noninterference experiment: groups are unions of connections that ever shared a session incarnation; histories whose group uses server-wide resources "
                   "(signed latency / ping ids, the receipt channel: code 398), whose joins name an id whose liveness changed between send and step (397) are counted, not judged"]
    tb = ["noninterference experiment: harness/l1 purgerun (Go: grouping, translation of session ids in the purged run, payload digests of dagaz answers - FNV of the decoded fields, planes sorted) "
          "and oracle/driver.ml C03purge mode (parser of G / X lines); the verdict is the extraction of coq/Purge.v P_purge, which re-derives the purge from the two traces"]
    if merge:
        err = C.merge_evidence(PID, "noninterference_experiment", cov, info, assumptions, tb, rc, time.time() - t0, "", [dict(v) for v in viol])
        if err:
            print("INTERNAL: " + err); return 2
    return rc

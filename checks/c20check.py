"""C20 — the ground-plane index is complete; its geometry agrees with a reference.

Coq theorems (coq/Properties/C20.v over coq/Grid.v) + correspondence of the extracted model with the
REAL dagaz.RegularGrid / dagaz.Module (harness/c20 -> oracle/c20) + the property predicate evaluated on
the implementation's own dumped states and query results.  See tools/BUILDER_NOTES.md for the contract."""
import json, os, re, shutil, subprocess, sys, time
from . import common as C

PID = "C20"
ODIR = os.path.join(C.VERIF, "oracle", "c20")
KINDS = {0: "random", 1: "clusters (merge-heavy)", 2: "cascade template", 3: "growth in four directions", 4: "stacked levels",
         5: "non-lattice float32 inputs", 6: "big planes", 7: "module, several participants joining/leaving (and switching sessions)", 8: "planes of every scale (half-extents down to the smallest float32)"}
PV = {1: "a stored plane is not registered in a cell its footprint overlaps", 2: "a stored footprint is outside the grid bounds",
      3: "plane count differs from the number of distinct stored planes", 4: "covering region query does not return every stored plane exactly once",
      5: "vertical ray through the centre of a stored plane hits nothing", 6: "stored planes lost while the session lives (join / departure)",
      7: "a participant's view is not the session's complete plane set", 8: "panic on an input of the property's domain",
      9: "debug info inconsistent with the grid", 99: "P(model) not empty"}
RULE = ("a history is non-trivial when it contains at least one appending insertion, at least one merging insertion and the grid grew "
        "in at least two directions (module histories: at least one join of a second participant after a plane was stored and one departure); "
        "distinct by operation list")

def oracle_path():
    return os.path.join(C.WORK, "c20oracle" + C.RTAG)

def build_oracle():
    """extraction + driver; rebuilt when Grid.v / GridObs.v / driver.ml changed"""
    ora = oracle_path()
    srcs = [os.path.join(C.COQ, "Grid.v"), os.path.join(C.COQ, "GridObs.v"), os.path.join(ODIR, "driver.ml"),
            os.path.join(ODIR, "ExtractGrid.v"), os.path.join(ODIR, "build.sh")]
    newest = max(os.path.getmtime(p) for p in srcs if os.path.exists(p))
    if os.path.exists(ora) and os.path.getmtime(ora) >= newest:
        return True, "up to date"
    for f in ("Grid.vo", "GridObs.vo"):
        if not os.path.exists(os.path.join(C.COQ, f)):
            return False, "coq/%s missing (the model does not compile)" % f
    with C.GlobalLock("oracle"):
        rc, out = C.sh(["sh", os.path.join(ODIR, "build.sh"), C.COQ], timeout=900)
        if rc != 0 or not os.path.exists(os.path.join(ODIR, "oracle")):
            return False, out
        shutil.copy2(os.path.join(ODIR, "oracle"), ora)
    return True, out

def build_harness():
    """harness/c20 against the current tree; falls back to the exported API only when the dagaz hook no longer fits"""
    ok, log, binp = C.build_harness("c20")
    if ok:
        return True, log, binp, True
    # fallback: no dagaz hook (tag c20nohook), overlay without it
    ov = json.load(open(C.write_overlay()))
    ov["Replace"] = {k: v for k, v in ov["Replace"].items() if not v.endswith("modules__dagaz__grid_verif.go")}
    ovp = os.path.join(C.WORK, "overlay%s-c20nohook.json" % C.RTAG)
    json.dump(ov, open(ovp, "w"), indent=1)
    hdir = C.harness_dir()
    if hdir is None:
        return False, log, None, False
    binp = os.path.join(C.WORK, "c20" + C.RTAG + "_nohook")
    rc, out = C.sh(["go", "build", "-tags", "verif,c20nohook", "-overlay", ovp, "-o", binp, "./c20"], cwd=hdir, env=C.GOENV, timeout=1800)
    return rc == 0, log + "\n--- fallback without the dagaz hook ---\n" + out, binp, False

def float_phase(tier, wd):
    """-> dict(records, bad, first, error)"""
    res = {"records": 0, "bad": 0, "first": "", "error": ""}
    fdir = os.path.join(C.VERIF, "oracle", "c20f")
    ora = os.path.join(C.WORK, "c20foracle" + C.RTAG)
    with C.Lock("build"):
        srcs = [os.path.join(C.COQ, "GridFloat.v"), os.path.join(C.COQ, "GridFloat2.v"), os.path.join(fdir, "driver.ml"), os.path.join(fdir, "ExtractGridFloat.v"), os.path.join(fdir, "build.sh")]
        if not os.path.exists(os.path.join(C.COQ, "GridFloat.vo")) or not os.path.exists(os.path.join(C.COQ, "GridFloat2.vo")):
            res["error"] = "coq/GridFloat.v / GridFloat2.v does not compile"; return res
        if not os.path.exists(ora) or os.path.getmtime(ora) < max(os.path.getmtime(p) for p in srcs):
            with C.GlobalLock("oracle"):
                rc, out = C.sh(["sh", os.path.join(fdir, "build.sh"), C.COQ], timeout=900)
                if rc != 0 or not os.path.exists(os.path.join(fdir, "oracle")):
                    res["error"] = "INTERNAL oracle/c20f does not build: " + out[-800:]; return res
                shutil.copy2(os.path.join(fdir, "oracle"), ora)
        ok, log, hbin = C.build_harness("c20f")
    if not ok:
        res["error"] = "harness/c20f no longer fits the API of modules/dagaz (NewVector3f, Dot, Cross, ToProtobuf, Quad, Ray, IntersectQuad; VerifNormal / VerifOverlap of the add-only hook): " + log[-400:]; return res
    lp = os.path.join(wd, "float.lines")
    rc, out = C.sh("%s %d %d > %s" % (hbin, C.seed() * 13 + 20, 4000 if tier == "quick" else 60000, lp), timeout=600)
    if rc != 0:
        res["error"] = "harness/c20f failed: " + out[-400:]; return res
    rc, out = C.sh([ora, lp], timeout=1200)
    m = re.search(r"^OK (\d+)", out, flags=re.M)
    bad = [l for l in out.splitlines() if l.startswith("BAD")]
    res["records"] = (int(m.group(1)) if m else 0) + len(bad)
    res["bad"] = len(bad)
    res["first"] = bad[0][:300] if bad else ""
    if rc not in (0, 1) or (not m and not bad):
        res["error"] = "INTERNAL oracle/c20f failed: " + out[-400:]
    try: os.remove(lp)
    except OSError: pass
    return res

def regen_gen():
    """GenGrid.v for the tree under test (coq_make's rsync may have overwritten it in a scratch build dir)"""
    rs = os.path.join(C.VERIF, "tools", "gridconsts", "run.sh")
    rc, out = C.sh(["sh", rs, C.REPO, C.COQ], env=C.GOENV, timeout=600)
    return rc == 0, out

def parse_oracle(out):
    res = {"ok": [], "bad": {}, "summary": {}, "decodefail": []}
    cur = None
    for line in out.splitlines():
        if line.startswith("OK "):
            p = line.split()
            res["ok"].append((int(p[1]), dict(kv.split("=") for kv in p[2:] if "=" in kv)))
        elif line.startswith("BAD "):
            p = line.split()
            cur = {"hid": int(p[1]), "pviol": [], "mm": [], "text": [line], "info": dict(kv.split("=") for kv in p[2:] if "=" in kv)}
            res["bad"][cur["hid"]] = cur
        elif line.startswith("  PVIOL") and cur:
            m = re.match(r"\s+PVIOL (\d+) at=(\d+) code=(-?\d+) info=(.*)", line)
            cur["pviol"].append({"at": int(m.group(2)), "code": int(m.group(3)), "info": m.group(4)})
            cur["text"].append(line)
        elif line.startswith("  MISMATCH") and cur:
            m = re.match(r"\s+MISMATCH (\d+) at=(\d+) margin=(\S+) what=(.*)", line)
            cur["mm"].append({"at": int(m.group(2)), "what": m.group(4)})
            cur["text"].append(line)
        elif line.startswith("SUMMARY"):
            for kv in line.split()[1:]:
                if "=" in kv:
                    k, v = kv.split("=")
                    res["summary"][k] = int(v)
        elif line.startswith("DECODEFAIL"):
            res["decodefail"].append(line)
    return res

def split_hist(path):
    """history file -> {hid: text}"""
    hs, cur, hid = {}, None, None
    for line in open(path):
        if line.startswith("H "):
            hid, cur = int(line.split()[1]), [line]
        elif cur is not None:
            cur.append(line)
            if line.startswith("E"):
                hs[hid] = "".join(cur)
                cur = None
    return hs

def run_shards(c20, ora, wd, jobs, full_every):
    """jobs: list of (name, harness args).  harness then oracle, in parallel; returns {name: (parsed, histfile)}"""
    procs = []
    for name, args in jobs:
        tp = os.path.join(wd, name + ".trace")
        hp = os.path.join(wd, name + ".hist")
        cmd = "%s %s -out %s %s && %s %s 3 %d" % (c20, " ".join(args), tp, ("-hist " + hp) if args[0] == "gen" else "", ora, tp, full_every)
        procs.append((name, tp, hp, subprocess.Popen(cmd, shell=True, stdout=subprocess.PIPE, stderr=subprocess.STDOUT, text=True)))
    out = {}
    for name, tp, hp, p in procs:
        try:
            o, _ = p.communicate(timeout=3000)
        except subprocess.TimeoutExpired:
            p.kill(); o = "TIMEOUT"
        out[name] = (parse_oracle(o), hp, tp, p.returncode, o)
    return out

def ops_of(text):
    return [l for l in text.splitlines() if l[:2] in ("I ", "J ", "L ", "A ", "B ", "Y ", "G ")]

def shrink(c20, ora, wd, text, code, budget_s=40):
    """delta debugging on the op list, keeping a P violation with the same code"""
    t0 = time.time()
    lines = text.splitlines()
    hdr = lines[0]
    ops = [l for l in ops_of(text) if l[0] in "IJLAB"]
    def test(cand):
        hp, tp = os.path.join(wd, "shrink.hist"), os.path.join(wd, "shrink.trace")
        open(hp, "w").write("\n".join([hdr] + cand + ["E"]) + "\n")
        rc, _ = C.sh([c20, "replay", "-in", hp, "-out", tp], timeout=120)
        if rc != 0:
            return False
        rc, o = C.sh([ora, tp, "3", "0"], timeout=300)
        r = parse_oracle(o)
        return any(any(v["code"] == code for v in b["pviol"]) for b in r["bad"].values())
    if not test(ops):
        return ops
    n = 2
    while len(ops) >= 2 and time.time() - t0 < budget_s:
        chunk = max(1, len(ops) // n)
        reduced = False
        for i in range(0, len(ops), chunk):
            cand = ops[:i] + ops[i + chunk:]
            if cand and test(cand):
                ops, n, reduced = cand, max(n - 1, 2), True
                break
            if time.time() - t0 > budget_s:
                break
        if not reduced:
            if chunk == 1:
                break
            n = min(len(ops), n * 2)
    return ops

def match_known(pv):
    for f in C.known_findings(PID):
        if f.get("signature", {}).get("code") == pv["code"]:
            return f
    return None

def replay(path):
    with C.Lock("build"):
        C.run_translator(); C.coq_make(); regen_gen()
        ok, log = build_oracle()
        h_ok, h_log, c20, _ = build_harness()
        if not (ok and h_ok):
            print("INTERNAL: build failed\n" + (log if not ok else h_log)[-2000:]); return 2
    wd = os.path.join(C.WORK, PID + C.RTAG)
    os.makedirs(wd, exist_ok=True)
    txt = open(path).read()
    if not any(l.startswith("H ") for l in txt.splitlines()):
        print("the replay file names an obligation / correspondence that no longer checks and carries no history; running the quick check")
        return run("quick", None)
    tp = os.path.join(wd, "replay.trace")
    rc, o = C.sh([c20, "replay", "-in", path, "-out", tp])
    if rc != 0:
        print("INTERNAL: harness replay failed\n" + o[-2000:]); return 2
    rc, o = C.sh([oracle_path(), tp, "3", "1"], timeout=600)
    print(o)
    r = parse_oracle(o)
    pv = [v for b in r["bad"].values() for v in b["pviol"] if v["code"] != 99]
    if pv and all(match_known(v) for v in pv):
        for line in sorted(set(match_known(v)["line"] for v in pv)):
            print("KNOWN-FINDING: property=%s %s" % (PID, line))
        return 0
    if pv:
        C.violation(PID, path); return 1
    if r["bad"]:
        C.violation(PID, path, no_input=True); return 1
    return 0

def run(tier, replay_path=None):
    if replay_path:
        return replay(replay_path)
    t0 = time.time()
    tie_broken = []
    with C.Lock("build"):
        bad = C.grep_forbidden()
        if bad:
            print("INTERNAL: forbidden vernacular in the Coq development:\n" + "\n".join(bad)); return 2
        tr_ok, tr_log = C.run_translator()
        coq_ok, coq_log = C.coq_make()
        g_ok, g_log = regen_gen()
        if C.RTAG and g_ok:
            coq_ok, coq_log = (lambda r: (r[0] == 0, r[1]))(C.sh(["make", "-k", "-j16"], cwd=C.COQ, timeout=3000))
        model_ok = os.path.exists(os.path.join(C.COQ, "Grid.vo")) and os.path.exists(os.path.join(C.COQ, "GridObs.vo"))
        if not model_ok:
            print("INTERNAL: the executable model coq/Grid.v does not compile\n" + coq_log[-3000:]); return 2
        ora_ok, ora_log = build_oracle()
        if not ora_ok:
            print("INTERNAL: oracle build failed\n" + ora_log[-3000:]); return 2
        h_ok, h_log, c20, hooked = build_harness()
        pinfo = C.property_file_info(PID)
    ora = oracle_path()
    if not g_ok or not tr_ok:
        tie_broken.append("translator tools/gridconsts failed on the current sources: " + (g_log if not g_ok else tr_log)[-300:])
    if not pinfo["ok"]:
        m = re.findall(r'File "\./([^"]+)", line (\d+)', pinfo["log"])
        where = ", ".join("%s:%s" % x for x in m[:3]) or "Properties/C20.v"
        # which obligation? re-check the generated facts one by one for the message
        gen = open(os.path.join(C.COQ, "GenGrid.v")).read() if os.path.exists(os.path.join(C.COQ, "GenGrid.v")) else ""
        exp = {"merge_epsilon": "Some (5033165 # 8388608)", "merge_blend": "Some (13421773 # 67108864)", "range_epsilon": "Some (13743895 # 137438953472)",
               "ray_reach": "Some (13421773 # 8388608)", "module_grid_args": "Some (1, 1, 2)%Z", "init_recreates_grid": "Some false"}
        got = {}
        for l in gen.splitlines():
            m2 = re.match(r"Definition (\w+) : .*? := (.*)\.$", l)
            if m2:
                got[m2.group(1)] = m2.group(2).strip()
        changed = [k for k, v in exp.items() if got.get(k) != v]
        if not changed:
            print("INTERNAL: coq/Properties/C20.v does not build although the generated facts are unchanged (%s)\n%s" % (where, pinfo["log"][-3000:]))
            return 2
        tie_broken.append("obligation(s) of Properties/C20.v over the regenerated GenGrid.v no longer check: " + ", ".join("C20_gen_" + k for k in changed))
    if not h_ok:
        tie_broken.append("harness build: harness/c20 no longer fits the exported API of modules/dagaz: " + h_log[-600:])
    elif not hooked:
        tie_broken.append("hook hooks/modules__dagaz__grid_verif.go no longer fits the code (overlap / normal primitives are reached through the exported API only)")

    wd = os.path.join(C.WORK, PID + C.RTAG)
    os.makedirs(wd, exist_ok=True)
    viol_reported = False
    findings = set()
    first_mm = None
    totals, hist_stats, samples = {}, [], []
    distinct, nontrivial = set(), 0
    kinds_count = {}

    def absorb(results):
        nonlocal viol_reported, first_mm, nontrivial
        for name in sorted(results):
            r, hp, tp, rc, raw = results[name]
            if rc != 0 or r["decodefail"] or not r["summary"]:
                return "oracle/harness failed on shard %s (rc=%s): %s" % (name, rc, raw[-1500:])
            for k, v in r["summary"].items():
                totals[k] = totals.get(k, 0) + v
            hs = split_hist(hp) if os.path.exists(hp) else {}
            for hid, info in r["ok"] + [(b["hid"], b["info"]) for b in r["bad"].values()]:
                if "kind" not in info:
                    continue
                txt = hs.get(hid, "")
                key = hash(tuple(ops_of(txt)))
                k = int(info["kind"])
                kinds_count[KINDS.get(k, str(k))] = kinds_count.get(KINDS.get(k, str(k)), 0) + 1
                if key in distinct:
                    continue
                distinct.add(key)
                grow = bin(int(info.get("grow", 0))).count("1")
                if info.get("mode") == "1":
                    nt = int(info.get("joins", 0)) >= 2 and int(info.get("leaves", 0)) >= 1 and int(info.get("appends", 0)) >= 1
                else:
                    nt = int(info.get("appends", 0)) >= 1 and int(info.get("merges", 0)) >= 1 and grow >= 2
                if nt:
                    nontrivial += 1
                    if len(samples) < 3:
                        samples.append(ops_of(txt)[:12])
            for hid, b in sorted(r["bad"].items()):
                pvs = [v for v in b["pviol"] if v["code"] != 99]
                if pvs:
                    pv = pvs[0]
                    kf = match_known(pv)
                    if kf:
                        findings.add(kf["line"]); continue
                    if not viol_reported:
                        txt = hs.get(hid) or ""
                        if not txt and os.path.exists(tp):
                            txt = split_hist(tp).get(hid, "")
                        ops = shrink(c20, ora, wd, txt, pv["code"]) if txt else []
                        hdr = txt.splitlines()[0] if txt else "H 0 0 1 0"
                        body = ("# P_C20 violated on the implementation's own state: code=%d (%s)\n# first report: at op %d: %s\n"
                                "# replay: bin/check C20 --replay <this file>\n" % (pv["code"], PV.get(pv["code"], "?"), pv["at"], pv["info"])
                                + "\n".join([hdr] + ops + ["E"]) + "\n")
                        rp = C.write_replay(PID, "replay-C20-h%d.hist" % hid, body)
                        C.violation(PID, rp)
                        viol_reported = True
                elif (b["mm"] or any(v["code"] == 99 for v in b["pviol"])) and first_mm is None:
                    first_mm = (hs.get(hid, ""), b)
        return None

    if h_ok:
        # 1. corpus
        cdir = os.path.join(C.VERIF, "corpus", PID)
        jobs = []
        if os.path.isdir(cdir):
            for fn in sorted(os.listdir(cdir)):
                if fn.endswith(".hist"):
                    shutil.copy2(os.path.join(cdir, fn), os.path.join(wd, "corpus-" + fn))
                    jobs.append(("corpus-" + fn[:-5], ["replay", "-in", os.path.join(cdir, fn)]))
        # 2. generated histories, sharded
        nshard, per = (8, 40) if tier == "quick" else (14, 400)
        seed = C.seed()
        for s in range(nshard):
            jobs.append(("gen-%d" % s, ["gen", "-seed", str(seed * 7919 + s), "-n", str(per)] + (["-len", "0"] if tier == "quick" else [])))
        jobs.append(("prims", ["prims", "-seed", str(seed * 31 + 5), "-n", "1500" if tier == "quick" else "20000"]))
        res = run_shards(c20, ora, wd, jobs, 8 if tier == "quick" else 4)
        for name in list(res):
            if name.startswith("corpus-"):
                r = list(res[name]); r[1] = os.path.join(wd, name + ".hist"); res[name] = tuple(r)
        err = absorb(res)
        if err:
            print("INTERNAL: " + err); return 2
        steps = totals.get("insert_steps", 0)
        ill = totals.get("steps_ill_conditioned", 0)
        if steps and ill > 0.05 * steps:
            tie_broken.append("correspondence: %d of %d insertion steps are ill-conditioned (more than 5%%): the float32 code no longer follows the exact model closely" % (ill, steps))

    # 2b. float32 primitives, bit for bit: the real Vector3f.Dot / Cross against the Flocq binary32 model
    #     (coq/GridFloat.v dot32 / cross32, extracted: oracle/c20f), the model the error-bound theorems are about
    fl = float_phase(tier, wd)
    totals.update({"float32_bit_exact_records": fl["records"], "float32_bit_mismatches": fl["bad"]})
    if fl["error"].startswith("INTERNAL"):
        print(fl["error"]); return 2
    if fl["error"]:
        tie_broken.append("float32 primitives: " + fl["error"])
    elif fl["bad"]:
        tie_broken.append("float32 primitives: Dot / Cross / calculateNormal / doHorizontalPlanesOverlap / IntersectQuad differ bit-wise from coq/GridFloat.v, GridFloat2.v (or contradict a conclusion of Properties/C20float2.v) on %d of %d inputs; first: %s"
                          % (fl["bad"], fl["records"], fl["first"]))

    if first_mm is not None:
        tie_broken.append("correspondence model/implementation fails: " + "; ".join(m["what"] for m in first_mm[1]["mm"][:2]))

    # 3. the tie is broken: search harder for an input on which the property itself fails on the implementation
    if tie_broken and not viol_reported and h_ok:
        jobs = [("search-%d" % s, ["gen", "-seed", str(C.seed() * 104729 + 1000 + s), "-n", "250", "-kinds", "1,2,3,6,7,0,4,8"]) for s in range(12)]
        res = run_shards(c20, ora, wd, jobs, 0)
        err = absorb(res)
        if err:
            print("INTERNAL: " + err); return 2
    # 3b. the obligation about Init no longer checks: whether two participants of one session can end up with two grids is a
    #     question about concurrent joins; the init storm of harness/c09 (fresh sessions, all members joining at once, real
    #     threads) looks for a member bound to a grid that is not the session's
    if tie_broken and not viol_reported and any("init_recreates_grid" in t for t in tie_broken):
        from . import c09check
        with C.Lock("build"):
            okS, logS, sbin = C.build_harness("c09", race=True)
        if okS:
            r9 = c09check.run_campaign(sbin, C.seed(), 0, 0, "c20init", mode="initstorm", extra=["-trials", "3000"])
            orph = (r9.get("report") or {}).get("orphaned_module_state") or []
            totals["init_storm_trials"] = (r9.get("report") or {}).get("init_trials", 0)
            dag = [o for o in orph if "dagaz" in o] or orph
            if dag:
                rp = C.write_replay(PID, "replay-C20-initstorm.json", {"property": PID, "kind": "orphaned-module-state", "what": dag[0],
                                    "reproduce": r9["cmd"], "note": "real-thread schedule: rerun the command (concurrent first joins of a fresh session)",
                                    "unchecked": tie_broken})
                C.violation(PID, rp)
                viol_reported = True
    if tie_broken and not viol_reported:
        body = "# unchecked: " + "\n# unchecked: ".join(tie_broken) + "\n# no input was found on which P_C20 fails on the implementation (corpus + %d generated histories)\n" % totals.get("histories", 0)
        if first_mm is not None and first_mm[0]:
            body += "# the first differing history follows\n# " + "\n# ".join(first_mm[1]["text"][:6]) + "\n" + first_mm[0]
        rp = C.write_replay(PID, "replay-C20-unchecked.hist", body)
        C.violation(PID, rp, no_input=True)
        viol_reported = True

    for line in sorted(findings):
        print("KNOWN-FINDING: property=%s %s" % (PID, line))

    for fn in os.listdir(wd):
        if fn.endswith(".trace") and tier == "quick" and not viol_reported:
            try: os.remove(os.path.join(wd, fn))
            except OSError: pass

    nthm = len(pinfo["theorems"])
    cov = {
        "obligations": max(nthm, 1), "discharged": nthm if pinfo["ok"] else 0,
        "checker_cmd": "make -C coq (full .vo build) && coqc -Q coq hagall coq/Properties/C20.v",
        "trusted_base": C.TRUSTED_BASE + [
            "Print Assumptions (C20): %d theorem(s) closed under the global context%s" % (pinfo["closed"], ("; axioms: " + ", ".join(pinfo["axioms"])) if pinfo["axioms"] else ""),
            "tools/gridconsts (Go AST -> coq/GenGrid.v: MERGE_EPSILON, blend factor, in-range epsilon, ray reach, NewRegularGrid arguments, whether Init creates the grid only with a new state), fails closed",
            "oracle/c20/driver.ml (hand-written: trace parser, construction of the extracted grid value from a dump, verdict printer); coq/GridObs.v (comparison, conditioning margins, primitive tolerances: executable, unproved)",
            "harness/c20 (generator, dump of the exported fields of dagaz.RegularGrid, pointer -> insertion index by first appearance) and the add-only hook hooks/modules__dagaz__grid_verif.go (re-exports doHorizontalPlanesOverlap, calculateNormal)",
            "modelled, not verified: float32 arithmetic of modules/dagaz (the model is exact over Q; each step is compared from the implementation's own previous state, coordinates to 1e-4, decisions closer than 2^-10 to a boundary are counted as ill-conditioned and not compared); Min/Max modelled as integers; (uint) conversion of negative floats; the unbounded merge loop is cut at merge_fuel iterations (theorems hold for every fuel)",
            "theorem domain: horizontal quads with positive extents inside the 64 m box; P_C20 on implementation states uses a tolerance of 2^-13 m on cell overlap and bounds",
            "float32 primitives (Properties/C20float.v, C20float2.v): coq/GridFloat.v models Vector3f.Dot / Cross / Add / Sub / Mul, coq/GridFloat2.v models calculateNormal (binary64 products, sum, square root and quotient, rounded to binary32), doHorizontalPlanesOverlap and IntersectQuad, bit for bit over Flocq's binary32 / binary64 (round to nearest even, no fused multiply-add: true of amd64 at GOAMD64=v1; conversions between the formats built on binary_normalize, proved exact / correctly rounded); the error-bound theorems are about real numbers and depend on the axioms the Coq standard library declares for Reals and that Flocq uses: ClassicalDedekindReals.sig_forall_dec, ClassicalDedekindReals.sig_not_dec, Classical_Prop.classic, FunctionalExtensionality.functional_extensionality_dep (none declared by this development); oracle/c20f (ExtrOcamlBasic extraction of GridFloat.v + driver.ml) compares bit patterns produced by the real code (harness/c20f) with dot32 / cross32, all NaNs identified",
        ],
        "theorems": pinfo["theorems"], "examples": pinfo.get("examples", []),
        "traces_validated_against_impl": totals.get("histories", 0),
        "evaluations": totals.get("states_checked", 0),
        "distinct_nontrivial": nontrivial, "rule": RULE, "samples": samples,
        "distribution": {"histories_by_family": kinds_count, "distinct_histories": len(distinct), "oracle_counters": totals,
                         "ill_conditioned_step_fraction": (totals.get("steps_ill_conditioned", 0) / max(1, totals.get("insert_steps", 0)))},
        "tie_broken": tie_broken,
    }
    C.write_evidence(PID, tier, cov,
                     ["inputs: finite float32 quads, extents (ex, 0, ez) with ex, ez > 0, footprint inside [-64, 64]^2, |y| <= 64",
                      "every participant of a history stays in one live session; the last member never leaves inside a history"],
                     time.time() - t0, 1 if viol_reported else 0)
    return 1 if viol_reported else 0

if __name__ == "__main__":
    tier = "quick"
    rp = None
    a = sys.argv[1:]
    i = 0
    while i < len(a):
        if a[i] == "--tier": tier = a[i + 1]; i += 2
        elif a[i] == "--replay": rp = a[i + 1]; i += 2
        else: i += 1
    sys.exit(run(tier, rp))

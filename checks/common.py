"""Shared machinery of bin/check: building, evidence, verdict lines.

Everything is rebuilt from /repo's current working tree (Go build cache and
`make` keep the unchanged case cheap).  Scratch lives in /verif/work only.
"""
import fcntl, hashlib, json, os, re, shutil, subprocess, sys, time

VERIF = os.path.dirname(os.path.dirname(os.path.abspath(__file__)))
REPO = os.environ.get("VERIF_REPO", "/repo")
WORK = os.path.join(VERIF, "work")
COQ_SRC = os.path.join(VERIF, "coq")
# a scratch tree (VERIF_REPO=/tmp/wt-x) gets its own harness module copy, overlay and binaries
RTAG = "" if os.path.realpath(REPO) == "/repo" else "-" + hashlib.sha1(os.path.realpath(REPO).encode()).hexdigest()[:8]
# the Coq development is built in place for /repo and in a private copy (because of Gen.v) for a scratch tree
COQ = COQ_SRC if not RTAG else os.path.join(WORK, "coq" + RTAG)
GOENV = dict(os.environ, GOFLAGS="-mod=mod", GOPROXY="off", GOSUMDB="off", GOTOOLCHAIN="local",
             CGO_ENABLED=os.environ.get("CGO_ENABLED", "1"))
FORBIDDEN = re.compile(r"\b(Admitted|admit|Axiom|Parameter|Conjecture|bypass_check)\b|Unset Guard|type-in-type|impredicative-set|Admit Obligations")

os.makedirs(WORK, exist_ok=True)

def sh(cmd, cwd=None, env=None, timeout=1800, stdin=None):
    """run, return (rc, stdout+stderr)"""
    try:
        p = subprocess.run(cmd, cwd=cwd, env=env, shell=isinstance(cmd, str), stdout=subprocess.PIPE,
                           stderr=subprocess.STDOUT, timeout=timeout, input=stdin, text=True)
        return p.returncode, p.stdout
    except subprocess.TimeoutExpired as e:
        return 124, (e.stdout or "") + "\nTIMEOUT"

class Lock:
    def __init__(self, name="lock"):
        self.path = os.path.join(WORK, "lock-" + name + RTAG)
    def __enter__(self):
        self.f = open(self.path, "w")
        fcntl.flock(self.f, fcntl.LOCK_EX)
        return self
    def __exit__(self, *a):
        fcntl.flock(self.f, fcntl.LOCK_UN)
        self.f.close()

def seed():
    try:
        return int(os.environ.get("VERIF_SEED", "1"))
    except ValueError:
        return 1

# ---------------------------------------------------------------- Coq
def grep_forbidden(only=None):
    """forbidden vernacular in the development; `only` = a property file (relative to coq/): then just the
    files it depends on are scanned (setup scans everything)"""
    bad = []
    keep = None
    if only:
        try:
            keep = set(os.path.normpath(f) for f in coq_deps(only, src=True))
        except Exception:
            keep = None
    for root, _, files in os.walk(COQ_SRC):
        for fn in files:
            if fn.endswith(".v"):
                p = os.path.join(root, fn)
                if keep is not None and os.path.normpath(os.path.relpath(p, COQ_SRC)) not in keep:
                    continue
                for i, line in enumerate(open(p, encoding="utf-8", errors="replace"), 1):
                    code = re.sub(r"\(\*.*?\*\)", "", line)
                    if FORBIDDEN.search(code):
                        bad.append("%s:%d: %s" % (os.path.relpath(p, VERIF), i, line.strip()))
    return bad

def run_translator():
    """regenerates coq/Gen*.v from the repository's current sources: every tools/<name>/run.sh is
    called as `run.sh <repo> <coq dir>`; returns (ok, log)"""
    os.makedirs(COQ, exist_ok=True)
    ok, log = True, ""
    tools = os.path.join(VERIF, "tools")
    for name in sorted(os.listdir(tools)):
        rs = os.path.join(tools, name, "run.sh")
        if os.path.isfile(rs):
            rc, out = sh(["sh", rs, REPO, COQ], env=GOENV, timeout=900)
            log += "[%s] rc=%d\n%s\n" % (name, rc, out[-3000:])
            ok = ok and rc == 0
    return ok, log

def coq_make(targets=None):
    """full .vo build (incremental). returns (ok, log)"""
    if RTAG:
        rc, out = sh(["rsync", "-a", "--exclude", "Gen*.v", "--exclude", "Gen*.vo", "--exclude", "Gen*.vos", "--exclude", "Gen*.vok",
                      "--exclude", "Gen*.glob", "--exclude", ".Gen*.aux", "--exclude", ".Makefile.d",
                      COQ_SRC + "/", COQ + "/"])
        if rc != 0:
            return False, out
    if not os.path.exists(os.path.join(COQ, "Makefile")) or \
       os.path.getmtime(os.path.join(COQ, "_CoqProject")) > os.path.getmtime(os.path.join(COQ, "Makefile")):
        rc, out = sh("coq_makefile -f _CoqProject -o Makefile", cwd=COQ)
        if rc != 0:
            return False, out
    cmd = ["make", "-k", "-j16"] + (targets or [])
    rc, out = sh(cmd, cwd=COQ, timeout=3000)
    global COQ_FAILED
    COQ_FAILED = sorted(set(re.findall(r'File "\./([^"]+\.v)", line \d+, characters [\d-]+:\s*\n(?:.*\n)*?Error', out)) |
                        set(re.findall(r"make.*: \*\*\* \[.*?: ([\w/]+)\.vo\]", out)))
    COQ_FAILED = [f if f.endswith(".v") else f + ".v" for f in COQ_FAILED]
    return rc == 0, out

COQ_FAILED = []

def coq_deps(vfile, src=False):
    """transitive .v dependencies of coq/<vfile> inside the development (from coqdep)"""
    rc, out = sh("coqdep -Q . hagall $(find . -name '*.v' | sed 's#^\\./##')", cwd=COQ_SRC if src else COQ, timeout=120)
    deps = {}
    for line in out.splitlines():
        if ":" not in line:
            continue
        lhs, rhs = line.split(":", 1)
        tg = [t for t in lhs.split() if t.endswith(".vo")]
        if not tg:
            continue
        deps[tg[0][:-1]] = [d[:-1] for d in rhs.split() if d.endswith(".vo")]
    seen, todo = set(), [vfile]
    while todo:
        f = todo.pop()
        if f in seen:
            continue
        seen.add(f)
        todo += deps.get(f, [])
    return seen

def coq_ok_for(vfile):
    """did every file the given one depends on build in the last coq_make()?"""
    d = coq_deps(vfile)
    bad = [f for f in COQ_FAILED if f in d]
    return not bad, bad

class GlobalLock(Lock):
    """a lock shared by the checks of every tree under test (the oracles are built in /verif/oracle, which does not
    depend on the repository)"""
    def __init__(self, name):
        self.path = os.path.join(WORK, "lock-" + name)

def build_oracle():
    with GlobalLock("oracle"):
        return _build_oracle()

def _build_oracle():
    ora = os.path.join(VERIF, "oracle", "oracle")
    newest = 0
    for fn in os.listdir(COQ_SRC):
        if fn.endswith(".v") and fn != "Gen.v":
            newest = max(newest, os.path.getmtime(os.path.join(COQ_SRC, fn)))
    for fn in ("driver.ml", "props.ml", "build.sh"):
        newest = max(newest, os.path.getmtime(os.path.join(VERIF, "oracle", fn)))
    if os.path.exists(ora) and os.path.getmtime(ora) >= newest:
        return True, "up to date"
    rc, out = sh(["sh", os.path.join(VERIF, "oracle", "build.sh")], timeout=900)
    return rc == 0 and os.path.exists(ora), out

def hook_target(fn):
    """hook file name -> path inside the repository.  Convention:
    <pkg dir with '/' written '__'>__<name>_verif.go  ->  <pkg dir>/zz_verif_<name>.go"""
    table = {"websocket_verif.go": "websocket/zz_verif_hooks.go", "models_verif.go": "models/zz_verif_hooks.go"}
    if fn in table:
        return table[fn]
    if fn.endswith("_verif.go") and "__" in fn:
        parts = fn[:-len("_verif.go")].split("__")
        return "/".join(parts[:-1]) + "/zz_verif_" + parts[-1] + ".go"
    return None

def write_overlay(extra=None):
    ov = {"Replace": {}}
    hooks = os.path.join(VERIF, "hooks")
    for fn in sorted(os.listdir(hooks)):
        t = hook_target(fn)
        if t:
            ov["Replace"][os.path.join(REPO, t)] = os.path.join(hooks, fn)
    for k, v in (extra or {}).items():
        ov["Replace"][k] = v
    p = os.path.join(WORK, "overlay%s%s.json" % (RTAG, "-x" if extra else ""))
    s = json.dumps(ov, indent=1)
    if not os.path.exists(p) or open(p).read() != s:
        open(p, "w").write(s)
    return p

def harness_dir():
    """the harness Go module, with go.mod pointing at REPO (a private copy for a scratch tree)"""
    src = os.path.join(VERIF, "harness")
    hdir = src
    if RTAG:
        hdir = os.path.join(WORK, "harness" + RTAG)
        rc, out = sh(["rsync", "-a", "--delete", "--exclude", "go.mod", "--exclude", "go.sum", src + "/", hdir + "/"])
        if rc != 0:
            return None
    rc, out = sh(["sh", os.path.join(hdir, "mkmod.sh")], env=dict(GOENV, VERIF_REPO=REPO))
    return hdir if rc == 0 else None

def build_harness(name="l1", race=False):
    """builds /verif/harness/<name> against /repo's working tree with the verif hooks overlaid"""
    ov = write_overlay()
    hdir = harness_dir()
    if hdir is None:
        return False, "could not prepare the harness module", None
    binp = os.path.join(WORK, name + RTAG + ("_race" if race else ""))
    cmd = ["go", "build", "-tags", "verif", "-overlay", ov, "-o", binp]
    if race:
        cmd.append("-race")
    cmd.append("./" + name)
    rc, out = sh(cmd, cwd=hdir, env=GOENV, timeout=1800)
    if rc == 0 and name != "hookcheck":
        # the hooks find unexported fields by type: their self-test says whether the structs still have the expected shape
        hb = os.path.join(WORK, "hookcheck" + RTAG)
        rc2, out2 = sh(["go", "build", "-tags", "verif", "-overlay", ov, "-o", hb, "./hookcheck"], cwd=hdir, env=GOENV, timeout=1800)
        if rc2 == 0:
            rc3, out3 = sh([hb], timeout=60)
            if rc3 != 0:
                return False, "the verif hooks no longer fit the code: " + out3[-600:], binp
        else:
            return False, "the verif hooks no longer fit the code (hookcheck does not build): " + out2[-600:], binp
    return rc == 0, out, binp

# further statement files of a property (same rules as Properties/<pid>.v: statements, Print Assumptions, Examples);
# they are compiled, scanned and counted together with the main file
EXTRA_PROPERTY_FILES = {
    "C01": ["C01views", "RefFin"],
    "C03": ["RefFin", "Purge"],
    "C04": ["RefFin", "RefLat"],
    "C02": ["RefMod"],
    "C05": ["Refine", "RefMod"],
    "C06": ["C06own", "RefMod"],
    "C07": ["Refine"],
    "C10": ["RefMod"],
    "C11": ["RefSched"],
    "C12": ["RefComp"],
    "C13": ["RefComp"],
    "C14": ["Refine"],
    "C16": ["RefMod"],
    "C18": ["RefSched"],
    "C20": ["C20float", "C20float2"],
}

def property_targets(pid):
    """make targets of a property's statement files"""
    return ["Properties/%s.vo" % f for f in [pid] + EXTRA_PROPERTY_FILES.get(pid, [])]

def property_file_info(pid):
    """compiles the property's statement files on their own, returns dict(theorems, assumptions, ok, log)"""
    infos = [_property_file_info(f) for f in [pid] + EXTRA_PROPERTY_FILES.get(pid, [])]
    out = infos[0]
    for x in infos[1:]:
        out = {"ok": out["ok"] and x["ok"], "theorems": out["theorems"] + x["theorems"],
               "examples": out.get("examples", []) + x.get("examples", []), "closed": out.get("closed", 0) + x.get("closed", 0),
               "axioms": sorted(set(out.get("axioms", [])) | set(x.get("axioms", []))),
               "log": out["log"] if not out["ok"] else x["log"]}
    return out

def _property_file_info(pid):
    pf = os.path.join(COQ, "Properties", pid + ".v")
    if not os.path.exists(pf):
        return {"ok": False, "theorems": [], "assumptions": [], "log": "no property file"}
    src = open(pf).read()
    src_nc = re.sub(r"\(\*.*?\*\)", "", src, flags=re.S)
    theorems = re.findall(r"^\s*(?:Theorem|Corollary)\s+(\w+)", src_nc, flags=re.M)
    examples = re.findall(r"^\s*Example\s+(\w+)", src_nc, flags=re.M)
    rc, out = sh(["coqc", "-Q", ".", "hagall", "-w", "-notation-overridden,-ambiguous-paths,-deprecated-hint-without-locality,-deprecated-instance-without-locality", "Properties/%s.v" % pid], cwd=COQ, timeout=1800)
    closed = len(re.findall(r"Closed under the global context", out))
    # axioms are printed with their qualified names (Classical_Prop.classic : ..., or the bare name on its own line)
    axioms = sorted(set(re.findall(r"^([A-Z]\w*(?:\.\w+)+)\b", out.split("Axioms:", 1)[1], flags=re.M))) if "Axioms:" in out else []
    return {"ok": rc == 0, "theorems": theorems, "examples": examples, "closed": closed,
            "axioms": axioms, "log": out[-4000:]}

def store_clause_info(facts_file, model_file="ConcStore"):
    """the interleaving model of the component store (coq/ConcStore.v, Properties/ConcStore.v) and the regenerated facts that
    tie it to the code (Properties/<facts_file>.v over GenStore.v): -> (info for merge_evidence, tie string or None)"""
    with Lock("build"):
        run_translator()
        coq_make(["Properties/%s.vo" % model_file, "Properties/%s.vo" % facts_file])
        a = _property_file_info(model_file)
        b = _property_file_info(facts_file)
    info = {"ok": a["ok"] and b["ok"], "theorems": a["theorems"] + b["theorems"], "examples": a.get("examples", []) + b.get("examples", []),
            "closed": a.get("closed", 0) + b.get("closed", 0), "axioms": sorted(set(a.get("axioms", [])) | set(b.get("axioms", [])))}
    tie = None
    if not a["ok"]:
        tie = "coq/Properties/%s.v no longer checks: " % model_file + a["log"][-300:]
    elif not b["ok"]:
        gen = ""
        try: gen = open(os.path.join(COQ, "GenStore.v")).read()
        except OSError: pass
        false = re.findall(r"Definition (\w+) : bool := false", gen)
        notes = re.findall(r"\(\* note: (.*?) \*\)", gen)
        tie = ("obligation Properties/%s.v over the regenerated GenStore.v no longer checks (%s): the critical sections of the code are no longer the "
               "instructions the theorems of Properties/%s.v are about%s" % (facts_file, ", ".join(false) or "see log", model_file, ("; " + "; ".join(notes)) if notes else ""))
    return info, tie

# ---------------------------------------------------------------- evidence / verdict
def known_findings(pid):
    p = os.path.join(VERIF, "known_findings.json")
    if not os.path.exists(p):
        return []
    fs = json.load(open(p)).get("findings", [])
    return [f for f in fs if f.get("status") == "known" and (f.get("property") == pid or pid in f.get("also", []))]

def write_evidence(pid, tier, coverage, assumptions, wall_s, violations, level="proof"):
    edir = os.path.join(VERIF, "evidence") if not RTAG else os.path.join(WORK, "evidence" + RTAG)
    os.makedirs(edir, exist_ok=True)
    if isinstance(assumptions, dict):
        flat = []
        for k_, v_ in assumptions.items():
            for x_ in (v_ if isinstance(v_, list) else [v_]):
                flat.append("%s: %s" % (k_, x_))
        assumptions = flat
    assumptions = [str(a) for a in (assumptions or [])]
    if not isinstance(violations, int):
        coverage = dict(coverage, violation_details=violations)
        violations = len(violations) if hasattr(violations, "__len__") else int(bool(violations))
    ev = {"property_id": pid, "tier": tier, "seed": seed(), "level": level, "coverage": coverage,
          "assumptions": assumptions, "wall_s": round(wall_s, 2), "violations": violations}
    tmp = os.path.join(edir, pid + ".json.tmp")
    json.dump(ev, open(tmp, "w"), indent=1)
    os.replace(tmp, os.path.join(edir, pid + ".json"))

def violation(pid, replay, no_input=False):
    print("VIOLATION property=%s replay=%s%s" % (pid, replay, " no-failing-input-found" if no_input else ""))
    sys.stdout.flush()

def write_replay(pid, name, obj_or_text):
    d = os.path.join(WORK, pid + RTAG)
    os.makedirs(d, exist_ok=True)
    p = os.path.join(d, name)
    with open(p, "w") as f:
        if isinstance(obj_or_text, str):
            f.write(obj_or_text)
        else:
            json.dump(obj_or_text, f, indent=1)
    return p

TRUSTED_BASE = [
    "Coq 8.16.1 kernel (coqc; coqchk re-check in the thorough tier); vm_compute used in reflection proofs; no native_compute",
    "no axioms declared by the development; Print Assumptions output of the property file recorded below",
    "extraction with ExtrOcamlBasic only (bool, option, unit, list, prod, sumbool, comparison mapped to OCaml natives); N/Z/positive/nat stay extracted inductives; no Extract Constant / Extract Inductive of our own",
    "oracle/driver.ml and oracle/props.ml (hand-written OCaml glue: tokenizer, printer, property table)",
    "Go harness /verif/harness (generator, interning of strings to tokens, renaming of UUIDs / ping ids / session-id strings, message encoder) and add-only hooks /verif/hooks (build tag verif, injected by go -overlay)",
    "tools/translate (Go AST -> coq/Gen.v), fails closed",
    "modelled, not verified: goroutine scheduling, timers, TCP, x/net/websocket framing, protobuf encoding, Go memory model; each models method taken as one atomic action",
]


def merge_evidence(pid, part, cov, info, assumptions, tb, rc, wall_s, checker_suffix, viol):
    """appends the coverage of a second part of a property's check (e.g. its concurrent clause) to the evidence file the
    first part has just written.  -> error string or None"""
    edir = os.path.join(VERIF, "evidence") if not RTAG else os.path.join(WORK, "evidence" + RTAG)
    ep = os.path.join(edir, pid + ".json")
    try:
        ev = json.load(open(ep))
    except Exception as e:
        return "the first part of the %s check left no evidence file: %s" % (pid, e)
    c = ev["coverage"]
    nt = len(info["theorems"])
    c["obligations"] = c.get("obligations", 0) + nt
    c["discharged"] = c.get("discharged", 0) + (nt if info["ok"] else 0)
    c["theorems"] = c.get("theorems", []) + info["theorems"]
    c["examples"] = c.get("examples", []) + info.get("examples", [])
    c["trusted_base"] = c.get("trusted_base", []) + list(tb)
    c["checker_cmd"] = c.get("checker_cmd", "") + checker_suffix
    c["traces_validated_against_impl"] = c.get("traces_validated_against_impl", 0) + cov.get("traces_validated_against_impl", 0)
    c["evaluations"] = c.get("evaluations", 0) + cov.get("evaluations", 0)
    c[part] = {k: v for k, v in cov.items() if k not in ("known_lines", "obligations", "discharged", "theorems", "examples", "checker_cmd")}
    c[part]["violations"] = viol
    if cov.get("tie_broken"):
        c["tie_broken"] = c.get("tie_broken", []) + [part + ": " + x for x in cov["tie_broken"]]
    ev["assumptions"] = ev.get("assumptions", []) + list(assumptions)
    ev["violations"] = int(ev.get("violations", 0)) + (1 if rc else 0)
    ev["wall_s"] = round(float(ev.get("wall_s", 0)) + wall_s, 2)
    tmp = ep + ".tmp"
    json.dump(ev, open(tmp, "w"), indent=1)
    os.replace(tmp, ep)
    return None

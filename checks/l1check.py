"""Generic handler-level (L1) check: Coq theorems + correspondence on pi_C + P_C on the
implementation's traces, with search / shrinking when the tie breaks."""
import hashlib, json, os, re, shutil, sys, time
from . import common as C

ORACLE = os.path.join(C.VERIF, "oracle", "oracle")

class Hist:
    def __init__(self, hid, header):
        self.hid, self.header, self.lines = hid, header, []
    def ops(self):
        return [l for l in self.lines if l.startswith("O ")]
    def text(self, ops=None):
        return "\n".join([self.header] + (ops if ops is not None else self.ops()) + ["E"]) + "\n"

def split_trace(path):
    hs, cur = {}, None
    with open(path) as f:
        for line in f:
            line = line.rstrip("\n")
            if line.startswith("H "):
                cur = Hist(int(line.split()[1]), line)
                hs[cur.hid] = cur
            elif line.startswith("E"):
                cur = None
            elif cur is not None:
                cur.lines.append(line)
    return hs

def parse_oracle(out):
    res = {"ok": 0, "bad": {}, "summary": None, "decodefail": None}
    cur = None
    for line in out.splitlines():
        if line.startswith("OK "):
            res["ok"] += 1
        elif line.startswith("BAD "):
            p = line.split()
            cur = {"hid": int(p[1]), "mismatches": int(p[2].split("=")[1]), "violations": int(p[3].split("=")[1]),
                   "pviol": [], "mm": [], "text": [line]}
            res["bad"][cur["hid"]] = cur
        elif line.startswith("  PVIOL") and cur:
            m = re.match(r"\s+PVIOL (\d+) at=(\d+) code=(-?\d+) info=(.*)", line)
            cur["pviol"].append({"at": int(m.group(2)), "code": int(m.group(3)), "info": m.group(4)})
            cur["text"].append(line)
        elif line.startswith("  MISMATCH") and cur:
            m = re.match(r"\s+MISMATCH (\d+) at=(\d+)", line)
            cur["mm"].append(int(m.group(2)))
            cur["text"].append(line)
        elif line.startswith("    ") and cur:
            cur["text"].append(line)
        elif line.startswith("SUMMARY"):
            res["summary"] = line
        elif line.startswith("DECODEFAIL"):
            res["decodefail"] = line
    return res

def run_oracle(prop, trace, trace2=None):
    rc, out = C.sh([ORACLE, prop, trace] + ([trace2] if trace2 else []) + ["3"], timeout=3000)
    r = parse_oracle(out)
    r["rc"], r["raw"] = rc, out
    return r

def merge_results(rs):
    out = {"ok": 0, "bad": {}, "summary": "merged", "decodefail": None, "rc": 0, "raw": ""}
    for r in rs:
        out["ok"] += r["ok"]
        out["raw"] += r["raw"]
        if r["decodefail"] or r["summary"] is None:
            out["decodefail"] = r["decodefail"] or "no summary"
        for hid, b in r["bad"].items():
            if hid in out["bad"]:
                out["bad"][hid]["pviol"] += b["pviol"]; out["bad"][hid]["mm"] += b["mm"]; out["bad"][hid]["text"] += b["text"]
            else:
                out["bad"][hid] = b
    return out

def evaluate(l1, prop, hist_path, workdir):
    """runs one history file through the implementation and the oracle; C17 also runs the flag-free twin"""
    os.makedirs(workdir, exist_ok=True)
    tp = os.path.join(workdir, "eval.trace")
    if prop != "C17":
        rc, o = C.sh([l1, "replay", "-in", hist_path, "-out", tp], timeout=300)
        if rc != 0:
            return None
        return run_oracle(prop, tp)
    lines = [l for l in open(hist_path).read().splitlines() if l and l[0] in "HOE"]
    hdr = [l for l in lines if l.startswith("H ")]
    if not hdr:
        return None
    v = hdr[0].split()
    nf = int(v[2])
    mods = v[3 + nf:]
    body = [l for l in lines if not l.startswith("H ") and not l.startswith("E")]
    fb, ff = os.path.join(workdir, "base.hist"), os.path.join(workdir, "flag.hist")
    open(fb, "w").write("\n".join(["H 7 0 " + " ".join(mods)] + body + ["E"]) + "\n")
    open(ff, "w").write("\n".join(["H 7000 " + " ".join(v[2:])] + body + ["E"]) + "\n")
    tb, tf = os.path.join(workdir, "base.trace"), os.path.join(workdir, "flag.trace")
    for a, b in ((fb, tb), (ff, tf)):
        rc, o = C.sh([l1, "replay", "-in", a, "-out", b], timeout=300)
        if rc != 0:
            return None
    return merge_results([run_oracle("C17", tf), run_oracle("C17pair", tb, tf)])

def classify(trace_path, own_kinds):
    """distribution of the generated histories + count of distinct non-trivial ones"""
    hs = split_trace(trace_path)
    distinct, nontrivial, lens, kinds, outcomes = set(), 0, [], {}, {"accepted": 0, "refused": 0, "error_verdict": 0}
    for h in hs.values():
        key = hashlib.sha1(("\n".join(h.ops())).encode()).hexdigest()
        acc = ref = False
        actor, kind, got_err = None, None, False
        nops = 0
        for l in h.lines + ["O end"]:
            if l.startswith("O "):
                if kind is not None:
                    kinds[kind] = kinds.get(kind, 0) + 1
                    if kind in own_kinds:
                        if got_err:
                            ref = True; outcomes["refused"] += 1
                        else:
                            acc = True; outcomes["accepted"] += 1
                p = l.split()
                nops += 1
                actor = p[2] if len(p) > 2 else None
                kind, got_err = None, False
            elif l.startswith("R "):
                kind = int(l.split()[1])
            elif l.startswith("D "):
                p = l.split()
                if p[1] == actor and p[2] == "0":
                    got_err = True
            elif l.startswith("V "):
                if l.split()[1] in ("1", "3"):
                    got_err = True
                    outcomes["error_verdict"] += 1
        lens.append(nops)
        if key not in distinct:
            distinct.add(key)
            if acc and ref:
                nontrivial += 1
    return {"histories": len(hs), "distinct": len(distinct), "distinct_nontrivial": nontrivial,
            "ops_total": sum(lens), "ops_min": min(lens) if lens else 0, "ops_max": max(lens) if lens else 0,
            "consumed_by_kind": {str(k): v for k, v in sorted(kinds.items())}, "own_kind_outcomes": outcomes}, hs

def shrink(l1, prop, hist, want, budget_s=60):
    """delta debugging on the op list; `want(result)` says whether the failure is preserved"""
    t0 = time.time()
    d = os.path.join(C.WORK, prop + C.RTAG, "shrink")
    os.makedirs(d, exist_ok=True)
    def test(ops):
        hp = os.path.join(d, "h.hist")
        open(hp, "w").write(hist.text(ops))
        r = evaluate(l1, prop, hp, d)
        return r is not None and want(r)
    ops = hist.ops()
    if not test(ops):
        return ops
    n = 2
    while len(ops) >= 2 and time.time() - t0 < budget_s:
        chunk = max(1, len(ops) // n)
        reduced = False
        for i in range(0, len(ops), chunk):
            cand = ops[:i] + ops[i + chunk:]
            if cand and test(cand):
                ops, n, reduced = cand, max(n - 1, 2), True
                break
            if time.time() - t0 > budget_s:
                break
        if not reduced:
            if chunk == 1:
                break
            n = min(len(ops), n * 2)
    return ops

def want_same(first):
    """predicate: the same kind of failure (same P_C violation code, or still a mismatch)"""
    if first["pviol"]:
        code = first["pviol"][0]["code"]
        return lambda r: any(any(v["code"] == code for v in b["pviol"]) for b in r["bad"].values())
    return lambda r: any(b["mm"] and not b["pviol"] for b in r["bad"].values()) or any(b["mm"] for b in r["bad"].values())

def match_known(pid, pv):
    for f in C.known_findings(pid):
        sig = f.get("signature", {})
        if sig.get("code") == pv["code"]:
            return f
    return None

def run(pid, tier, spec):
    """spec: dict(profile, n_quick, n_thorough, len_thorough, own_kinds, rule, level_note, extra_assumptions)"""
    t0 = time.time()
    out_lines = []
    with C.Lock("build"):
        bad = [b for t in C.property_targets(pid) for b in C.grep_forbidden(t[:-1])]
        if bad:
            print("INTERNAL: forbidden vernacular in the Coq development:\n" + "\n".join(bad))
            return 2
        tr_ok, tr_log = C.run_translator()
        coq_ok, coq_log = C.coq_make(C.property_targets(pid))
        ora_ok, ora_log = C.build_oracle()
        if not ora_ok:
            print("INTERNAL: oracle build failed\n" + ora_log[-3000:])
            return 2
        h_ok, h_log, l1 = C.build_harness("l1")
        if not coq_ok:
            coq_ok = all(C.coq_ok_for(t[:-1])[0] for t in C.property_targets(pid))
        pinfo = C.property_file_info(pid) if coq_ok else {"ok": False, "theorems": [], "examples": [], "closed": 0, "axioms": [], "log": coq_log[-3000:]}
    with C.Lock("run-" + pid):

        tie_broken = []       # names of what no longer checks
        if not tr_ok:
            tie_broken.append("translator: tools/translate failed on the current sources: " + tr_log[-400:])
        if not coq_ok or not pinfo["ok"]:
            m = re.findall(r'File "\./([^"]+)", line (\d+)', coq_log if not coq_ok else pinfo["log"])
            where = ", ".join("%s:%s" % x for x in m[:3]) or "coq build"
            gen_changed = True
            exp = os.path.join(C.COQ, "Gen.expected.v")
            if os.path.exists(exp) and os.path.exists(os.path.join(C.COQ, "Gen.v")):
                gen_changed = open(exp).read() != open(os.path.join(C.COQ, "Gen.v")).read()
            if not gen_changed:
                print("INTERNAL: the Coq development does not build although Gen.v is unchanged (%s)\n%s" % (where, (coq_log if not coq_ok else pinfo["log"])[-3000:]))
                return 2
            tie_broken.append("proof obligation over the regenerated Gen.v no longer checks (%s)" % where)
        if not h_ok:
            tie_broken.append("harness build: the verif hooks no longer fit the code: " + h_log[-600:])

        wd = os.path.join(C.WORK, pid + C.RTAG)
        os.makedirs(wd, exist_ok=True)
        findings_printed, viol_reported = set(), False
        total_hist = total_events = 0
        stats, dist = {}, {}
        first_bad = None
        flagsets = set()

        def handle_bad(hists, res, tracefile, src=None):
            """src: the corpus file the histories were replayed from (kept as the replay when it contains wait lines,
            which a history shrunk to its operations would lose)"""
            nonlocal first_bad, viol_reported
            for hid, b in sorted(res["bad"].items()):
                if b["pviol"]:
                    pv = b["pviol"][0]
                    kf = match_known(pid, pv)
                    if kf:
                        findings_printed.add(kf["line"])
                        continue
                    if not viol_reported and src and any(l.startswith("W ") for l in open(src)):
                        rp = C.write_replay(pid, "replay-%s-%s" % (pid, os.path.basename(src)),
                                            "# P_%s violated on the implementation's own trace: code=%d at=%d info=%s (timed history, kept whole)\n" % (pid, pv["code"], pv["at"], pv["info"]) + open(src).read())
                        C.violation(pid, rp)
                        viol_reported = True
                    if not viol_reported:
                        h = hists[hid]
                        ops = shrink(l1, pid, h, want_same(b))
                        rp = C.write_replay(pid, "replay-%s-h%d.hist" % (pid, hid),
                                            "# P_%s violated on the implementation's own trace: code=%d at=%d info=%s\n# replay: bin/check %s --replay <this file>\n" % (pid, pv["code"], pv["at"], pv["info"], pid) + h.text(ops))
                        C.violation(pid, rp)
                        viol_reported = True
                elif b["mm"] and first_bad is None:
                    first_bad = (hists[hid], b, tracefile)

        if h_ok:
            # 1. corpus first
            cdir = os.path.join(C.VERIF, "corpus", pid)
            if os.path.isdir(cdir):
                for fn in sorted(os.listdir(cdir)):
                    if fn.endswith(".hist"):
                        tp = os.path.join(wd, "corpus-" + fn + ".trace")
                        rc, o = C.sh([l1, "replay", "-in", os.path.join(cdir, fn), "-out", tp], timeout=300)
                        if rc != 0:
                            print("INTERNAL: replay of corpus file failed: " + fn + "\n" + o[-2000:]); return 2
                        r = run_oracle(pid, tp)
                        if r["decodefail"] or r["summary"] is None:
                            print("INTERNAL: oracle failed on corpus %s: %s" % (fn, r["raw"][-2000:])); return 2
                        total_hist += r["ok"] + len(r["bad"])
                        handle_bad(split_trace(tp), r, tp, src=os.path.join(cdir, fn))
            # 2. generated histories
            n = spec["n_thorough"] if tier == "thorough" else spec["n_quick"]
            shard = 400
            done = 0
            sidx = 0
            agg = None
            searched = False
            while done < n:
                k = min(shard, n - done)
                tp = os.path.join(wd, "gen-%d.trace" % sidx)
                sp = os.path.join(wd, "gen-%d.stats.json" % sidx)
                cmd = [l1, "gen", "-profile", spec["profile"], "-seed", str(C.seed() * 7919 + sidx), "-n", str(k), "-out", tp, "-stats", sp]
                if tier == "thorough" and spec.get("len_thorough"):
                    cmd += ["-len", str(spec["len_thorough"])]
                rc, o = C.sh(cmd, timeout=3000)
                if rc != 0:
                    print("INTERNAL: harness run failed\n" + o[-3000:]); return 2
                if spec.get("mode") == "flags":
                    # the same histories under sampled flag sets: model correspondence on the flagged runs
                    # and the pairwise filter relation against the flag-free run
                    tpf = os.path.join(wd, "gen-%d.flags.trace" % sidx)
                    rc, o = C.sh([l1, "flagrun", "-in", tp, "-out", tpf, "-seed", str(C.seed() + sidx),
                                  "-per", "0" if tier == "thorough" else "4"], timeout=3000)
                    if rc != 0:
                        print("INTERNAL: harness flag run failed\n" + o[-3000:]); return 2
                    r0 = run_oracle(pid, tp)
                    r = run_oracle(pid, tpf)
                    rp_ = run_oracle("C17pair", tp, tpf)
                    for rr in (r0, r, rp_):
                        if rr["decodefail"] or rr["summary"] is None:
                            print("INTERNAL: oracle failed: %s" % rr["raw"][-2000:]); return 2
                    hf = split_trace(tpf)
                    handle_bad(split_trace(tp), r0, tp)
                    handle_bad(hf, rp_, tpf)
                    stats["flagged_runs"] = stats.get("flagged_runs", 0) + len(hf)
                    flagsets.update(h.header.split(" ", 2)[2] for h in hf.values())
                    total_hist += len(hf)
                    handle_bad(hf, r, tpf)
                    r = {"bad": {}, "ok": 0}
                    try: os.remove(tpf)
                    except OSError: pass
                else:
                    r = run_oracle(pid, tp)
                    if r["decodefail"] or r["summary"] is None:
                        print("INTERNAL: oracle failed: %s" % r["raw"][-2000:]); return 2
                cl, hists = classify(tp, set(spec["own_kinds"]))
                for kk, v in json.load(open(sp)).items():
                    stats[kk] = stats.get(kk, 0) + v
                if agg is None:
                    agg = cl
                    agg["samples"] = [hists[h].ops()[:40] for h in sorted(hists)[:2]]
                else:
                    for kk in ("histories", "distinct", "distinct_nontrivial", "ops_total"):
                        agg[kk] += cl[kk]
                    agg["ops_max"] = max(agg["ops_max"], cl["ops_max"])
                    for kk, v in cl["consumed_by_kind"].items():
                        agg["consumed_by_kind"][kk] = agg["consumed_by_kind"].get(kk, 0) + v
                    for kk, v in cl["own_kind_outcomes"].items():
                        agg["own_kind_outcomes"][kk] += v
                total_hist += cl["histories"]
                total_events += cl["ops_total"]
                handle_bad(hists, r, tp)
                if sidx > 0 or tier == "quick":
                    try: os.remove(tp)
                    except OSError: pass
                done += k
                sidx += 1
                # the tie is broken and no failing input has been found yet: widen the search (4x the tier's volume,
                # fresh seeds) before giving up
                if done >= n and not searched and not viol_reported and (tie_broken or first_bad is not None) and tier == "quick":
                    searched = True
                    n += 4 * n
                    stats["directed_search_histories"] = n - done
            dist = agg or {}

        # decide on a broken tie
        if (first_bad is not None or tie_broken) and not viol_reported:
            if first_bad is not None:
                h, b, tf = first_bad
                tie_broken.append("correspondence pi_%s(implementation) = pi_%s(model) fails (history %d, first at op %d)" % (pid, pid, h.hid, b["mm"][0]))
                ops = shrink(l1, pid, h, want_same(b), budget_s=40) if h_ok else h.ops()
                body = "# unchecked: " + "; ".join(tie_broken) + "\n# no history was found on which P_%s fails on the implementation; the first differing history follows\n# " % pid + "\n# ".join(b["text"][:8]) + "\n" + h.text(ops)
            else:
                body = "# unchecked: " + "; ".join(tie_broken) + "\n# no failing input found by the search (corpus + %d generated histories)\n" % total_hist
            rp = C.write_replay(pid, "replay-%s-unchecked.hist" % pid, body)
            C.violation(pid, rp, no_input=True)
            viol_reported = True

        for line in sorted(findings_printed):
            print("KNOWN-FINDING: property=%s %s" % (pid, line))

        nthm = len(pinfo["theorems"])
        cov = {
            "obligations": max(nthm, 1), "discharged": nthm if pinfo["ok"] else 0,
            "checker_cmd": "make -C coq (full .vo build) && coqc -Q coq hagall coq/Properties/%s.v" % pid,
            "trusted_base": C.TRUSTED_BASE + ["Print Assumptions (%s): %s" % (pid, ("%d theorem(s) closed under the global context" % pinfo["closed"]) + ("; axioms: " + ", ".join(pinfo["axioms"]) if pinfo["axioms"] else ""))],
            "theorems": pinfo["theorems"], "examples": pinfo.get("examples", []),
            "traces_validated_against_impl": total_hist,
            "evaluations": total_hist, "distinct_nontrivial": dist.get("distinct_nontrivial", 0),
            "rule": spec["rule"], "samples": dist.get("samples", []),
            "distribution": {k: v for k, v in dist.items() if k != "samples"}, "generator_stats": stats,
            "tie_broken": tie_broken,
        }
        if flagsets:
            cov["distinct_flag_sets"] = len(flagsets)
        C.write_evidence(pid, tier, cov, spec.get("assumptions", []), time.time() - t0, 1 if viol_reported else 0)
        return 1 if viol_reported else 0

def replay(pid, path):
    with C.Lock("build"):
        C.run_translator()
        ok, log = C.build_oracle()
        h_ok, h_log, l1 = C.build_harness("l1")
        if not (ok and h_ok):
            print("INTERNAL: build failed\n" + (log if not ok else h_log)[-2000:]); return 2
    r = evaluate(l1, pid, path, os.path.join(C.WORK, pid + C.RTAG, "replay"))
    if r is None:
        print("INTERNAL: could not replay " + path); return 2
    print(r["raw"])
    if any(b["pviol"] for b in r["bad"].values()):
        C.violation(pid, path); return 1
    if r["bad"]:
        C.violation(pid, path, no_input=True); return 1
    return 0

"""C01 / C02, concurrent clause: "AND for every interleaving at lock granularity (bounded number of preemptions) of 2-3
requests issued concurrently by different connections after any such history" the views at quiescence equal the
server's state (C01), and every accepted change is relayed exactly once (C02).

Tie (L3): tools/instrument rewrites every x.Lock()/x.RLock() statement of the CURRENT sources of models, websocket,
modules/* into a yield to the cooperative scheduler verifsched; harness/l3v runs the real handlers (vikja and odal
loaded) as scheduler threads: a sequential set-up, then a race of one request per racing connection, explored over all
schedules of the racers' lock acquisitions within a preemption bound.  Every complete execution (for each connection
the ordered stream of what it was sent and of its own requests; hook snapshots when the race starts and at
quiescence) is judged by oracle/concview, the extraction of coq/ConcView.v: views folded with the view_init /
view_recv / view_own of Preds2.v and compared with the snapshot as P_C01 does, under a strict client (the letter of
C01) and a lenient, buffering client; plus the relay clause of C02.

Proof side: coq/ConcView.v (the judge; a small interleaving model of the racing micro-programs),
coq/proofs/ConcViewProofs.v, coq/Properties/C01conc.v (witness theorems C01_conc_refuted_*, C02_conc_refuted_*, positive
theorems for race classes that converge).  Every _refuted witness is stored under corpus/C01conc/ with its scenario and
schedule and is replayed on the real code by this check.

run(tier, replay) follows the contract of bin/check (exit 0 / 1 / 2); phase(tier) returns (violations, coverage)."""
import json, os, re, sys, time
from . import common as C

PID = "C01"
WD = os.path.join(C.WORK, "c01conc")
CORPUS = os.path.join(C.VERIF, "corpus", "C01conc")
COQ_FILES = ["ConcView.v", "proofs/ConcViewProofs.v", "Properties/C01conc.v"]

CODES = {100: "a connection holds a view of a session that does not exist", 101: "participants differ", 102: "entities (owner, flag, pose) differ",
         103: "components of a synced type differ", 104: "entity actions differ", 107: "asset instances differ",
         111: "a participant of the session is no connection that holds a view of it",
         201: "an accepted change was not relayed to a member it is owed to", 202: "an accepted change was relayed more than once to one connection",
         106: "a broadcast could not be applied when it arrived"}

# scenario: name, programs (one per connection), set-up (threads that in turn run one whole request), the race
SCENARIOS = [
    ("join-vs-entity-delete", "C,E,X1|J1|J1", [1, 1, 3], "join against the deletion of an entity by its owner"),
    ("join-vs-entity-delete-with-modules", "C,E,T1,A1.1,V1.1.100,O1,X1|J1|J1", [1, 1, 1, 1, 1, 1, 3],
     "join against the deletion of an entity that carries a component, an action and an asset"),
    ("join-vs-entity-add", "C,E,E|J1|J1", [1, 1, 3], "join against an entity add"),
    ("join-vs-pose", "C,E,P1|J1|J1", [1, 1, 3], "join against a pose update"),
    ("join-vs-comp-add", "C,E,T1,S1,G1,A1.1|J1|J1,S1,G1", [1, 1, 1, 1, 1, 3, 3, 3], "join against a component add"),
    ("join-vs-comp-delete", "C,E,T1,S1,G1,A1.1,D1.1|J1|J1,S1,G1", [1, 1, 1, 1, 1, 1, 3, 3, 3], "join against a component delete"),
    ("join-vs-action", "C,E,V1.1.100|J1|J1", [1, 1, 3], "join against an entity action"),
    ("join-vs-asset", "C,E,O1|J1|J1", [1, 1, 3], "join against an asset instance add"),
    ("two-joins", "C,E|J1|J1|J1", [1, 1, 4], "two joins of the same session"),
    ("disconnect-vs-join", "C|J1,E,V1.1.100,O1,L|J1|J1", [1, 2, 3, 2, 2, 2], "departure of an entity owner against a join"),
    ("two-comp-updates", "C,E,T1,A1.1,S1,G1,U1.1|J1,S1,G1,U1.1|J1,S1,G1", [1, 1, 1, 1, 2, 3, 1, 1, 2, 2, 3, 3],
     "two updates of the same component by different members"),
    ("two-actions-equal-ts", "C,E,V1.1.100|J1,V1.1.100|J1", [1, 1, 2, 3], "two actions on the same (entity, name), equal timestamps"),
    ("two-actions-different-ts", "C,E,V1.1.100|J1,V1.1.200|J1", [1, 1, 2, 3], "two actions on the same (entity, name), different timestamps"),
    ("two-entity-adds", "C,E|J1,E|J1", [1, 2, 3], "two entity adds"),
    ("two-comp-adds", "C,E,T1,S1,G1,A1.1|J1,S1,G1,A1.1|J1,S1,G1", [1, 1, 1, 2, 3, 1, 1, 2, 2, 3, 3], "two adds of the same component"),
    ("entity-delete-vs-comp-add", "C,E,T1,S1,G1,X1|J1,S1,G1,A1.1|J1,S1,G1", [1, 1, 1, 2, 3, 1, 1, 2, 2, 3, 3],
     "deletion of an entity against a component add on it"),
    ("entity-delete-vs-comp-update", "C,E,T1,A1.1,S1,G1,X1|J1,S1,G1,U1.1|J1,S1,G1", [1, 1, 1, 1, 2, 3, 1, 1, 2, 2, 3, 3],
     "deletion of an entity against an update of its component"),
    ("entity-delete-vs-action", "C,E,X1|J1,V1.1.100|J1", [1, 1, 2, 3], "deletion of an entity against an action set on it by another member"),
    ("asset-add-vs-action", "C,E,O1|J1,V1.1.100|J1", [1, 1, 2, 3], "asset add by the owner against an action set by another member"),
    ("comp-delete-vs-comp-update", "C,E,T1,A1.1,S1,G1,D1.1|J1,S1,G1,U1.1|J1,S1,G1", [1, 1, 1, 1, 2, 3, 1, 1, 2, 2, 3, 3],
     "component delete against an update of it"),
    ("switch-vs-entity-add", "C,E|C|J1,J2", [1, 2, 3], "a member moves to another session against an entity add in the session it leaves"),
    ("comp-update-vs-list", "C,E,T1,A1.1,S1,G1,U1.1|J1,S1,G1|J1,S1,G1", [1, 1, 1, 1, 2, 3, 1, 1, 2, 3, 3], "component update against a list by a subscriber"),
]
# scenarios that coq/ConcView.v models (scenario_of): every execution is compared with the model under the same schedule
MODEL_ID = {"join-vs-entity-delete": 1, "join-vs-entity-delete-with-modules": 2, "join-vs-entity-add": 3, "two-comp-updates": 4,
            "two-actions-equal-ts": 5, "two-actions-different-ts": 6, "entity-delete-vs-comp-add": 7, "entity-delete-vs-action": 8}
TIE = {1: "instruction trace", 2: "the model is not at quiescence", 3: "state when the race starts", 4: "state at quiescence",
       5: "what the connections were sent and did in the race", 9: "unknown scenario"}
THOROUGH_EXTRA = [
    ("three-way-updates-vs-join", "C,E,T1,A1.1,S1,G1,U1.1|J1,S1,G1,U1.1|J1", [1, 1, 1, 1, 2, 1, 1, 2, 2], "two component updates and a join"),
    ("three-way-delete-add-join", "C,E,X1|J1,E|J1", [1, 1, 2], "entity delete, entity add and a join"),
    ("two-disconnects-vs-join", "C|J1,E,L|J1,E,L|J1", [1, 2, 3, 2, 3], "two departures of entity owners against a join"),
]

# scenarios explored with the deliveries of Session.Broadcast / BroadcastTo as additional scheduling points (not modelled in Coq)
POINT_SCENARIOS = {"switch-vs-entity-add"}

THOROUGH_BOUND2 = set(n for (n, _, _, _) in THOROUGH_EXTRA)     # three racers: preemption bound 2 also in the thorough tier


# a violation kind = scenario / client discipline (strict, lenient, both) + clause
def kind_name(scenario, mode, code):
    return "%s/%s%d" % (scenario, mode, code)


# the kinds that were analysed, by root cause: what a known_findings.json entry for the class would list
# (python3 -m checks.c01conc --propose writes them to work/c01conc/proposed_known_findings.json); the check itself
# matches only against known_findings.json
CLASSES = [
    {"conc": "K2-stale-snapshot-on-join",
     "line": "K2 stale snapshot on join (strict client only): HandleParticipantJoin makes the newcomer a participant, then reads GetParticipants / "
             "Entities / ListAll in three critical sections and sends SessionState (VikjaState / OdalState later still); a concurrent entity add / "
             "delete / pose update / join / departure is broadcast to the newcomer BEFORE the stale state that overwrites it: its view keeps a deleted "
             "entity (lacks a new one, an old pose, a departed participant) for ever. A client that buffers broadcasts until the states have arrived converges",
     "witness": "corpus/C01conc/K2-join-vs-entity-delete.json",
     "theorems": ["C01_conc_refuted_join_entity_delete", "C01_conc_refuted_join_entity_add", "C01_conc_join_entity_add_lenient"],
     "kinds": ["join-vs-entity-delete/strict102", "join-vs-entity-delete-with-modules/strict102", "join-vs-entity-delete-with-modules/strict104",
               "join-vs-entity-delete-with-modules/strict107", "join-vs-entity-add/strict102", "join-vs-pose/strict102", "two-joins/strict101",
               "disconnect-vs-join/strict101", "disconnect-vs-join/strict102", "three-way-delete-add-join/strict102",
               "two-disconnects-vs-join/strict101", "two-disconnects-vs-join/strict102"]},
    {"conc": "K2m-stale-module-state-on-join",
     "line": "K2m stale module state on join (any client): HandleEntityDelete removes the entity and broadcasts its deletion, the vikja / odal "
             "modules remove its actions / asset only afterwards (handleMessage's module loop); a newcomer that becomes a participant after the broadcast and "
             "is handed VikjaState / OdalState before the modules have cleaned up holds actions and an asset of an entity that does not exist, and is never told",
     "witness": "corpus/C01conc/K2m-join-stale-module-state.json",
     "theorems": ["C01_conc_refuted_join_stale_module_state"],
     "kinds": ["join-vs-entity-delete-with-modules/both104", "join-vs-entity-delete-with-modules/both107"]},
    {"conc": "K3-relay-order-differs-from-mutation-order",
     "line": "K3 mutate-then-broadcast is not atomic (any client): two members change the same component / entity action concurrently (Update then Notify / "
             "BroadcastTo; SetEntityAction then Broadcast): the last writer's relay can overtake the first writer's, observers and the last writer end with the "
             "first writer's value, the server with the last writer's; likewise an update or action relayed after the relay of the deletion of its component / "
             "entity (strict client only). Every change is still relayed exactly once (C02 holds)",
     "witness": "corpus/C01conc/K3-two-component-updates.json",
     "theorems": ["C01_conc_refuted_two_component_updates", "C01_conc_refuted_two_actions_equal_ts", "C01_conc_refuted_two_actions_different_ts",
                  "C01_conc_refuted_delete_vs_action_late_relay", "C02_conc_relayed_once"],
     "kinds": ["two-comp-updates/both103", "two-actions-equal-ts/both104", "two-actions-different-ts/both104", "entity-delete-vs-comp-update/strict103",
               "comp-delete-vs-comp-update/strict103", "entity-delete-vs-action/strict104", "three-way-updates-vs-join/both103"]},
    {"conc": "K4-change-accepted-on-an-entity-being-deleted",
     "line": "K4 check-then-act on the entity (any client): HandleEntityComponentAdd / vikja handleSetEntityAction look the entity up (EntityByID) and "
             "mutate later; the owner's HandleEntityDelete cleans the component store / module state in between: the change is accepted and relayed, the server "
             "keeps a component / action of an entity that no longer exists (or wipes an action it has just acknowledged), the views have dropped it",
     "witness": "corpus/C01conc/K4-entity-delete-vs-component-add.json",
     "theorems": ["C01_conc_refuted_delete_vs_component_add", "C01_conc_refuted_delete_vs_action_orphan"],
     "kinds": ["entity-delete-vs-comp-add/both103", "entity-delete-vs-action/lenient104", "entity-delete-vs-action/both104"]},
]


def class_of(kind):
    for c in CLASSES:
        if kind in c["kinds"]:
            return c["conc"]
    return kind


def propose():
    out = [{"status": "known", "property": PID, "signature": {"conc": c["conc"], "kinds": c["kinds"]},
            "line": "KNOWN-FINDING: property=%s %s" % (PID, c["line"]), "witness": c["witness"], "theorems": c["theorems"]} for c in CLASSES]
    os.makedirs(WD, exist_ok=True)
    p = os.path.join(WD, "proposed_known_findings.json")
    json.dump({"findings": out}, open(p, "w"), indent=1)
    return p


# ---------------------------------------------------------------- building
def _newer(src_files, target):
    if not os.path.exists(target):
        return True
    t = os.path.getmtime(target)
    return any(os.path.getmtime(f) > t for f in src_files if os.path.exists(f))


def build():
    """instrument the current sources, build harness/l3v against them, build the oracle. -> (ok, what, paths)"""
    os.makedirs(WD, exist_ok=True)
    tooldir = os.path.join(C.VERIF, "tools", "instrument")
    ibin = os.path.join(WD, "instrument")
    if _newer([os.path.join(tooldir, "main.go"), os.path.join(tooldir, "go.mod")], ibin):
        rc, out = C.sh(["go", "build", "-o", ibin, "."], cwd=tooldir, env=C.GOENV, timeout=600)
        if rc != 0:
            return False, "INTERNAL: the instrumenter does not build:\n" + out[-2000:], None
    inst = os.path.join(WD, "inst" + C.RTAG)
    rc, out = C.sh([ibin, C.REPO, inst, os.path.join(tooldir, "verifsched", "sched.go")], timeout=300)
    if rc != 0:
        return False, "instrumenter: " + out[-1500:], None
    nsites = int(re.search(r"(\d+) sites", out).group(1)) if re.search(r"(\d+) sites", out) else 0
    base = json.load(open(C.write_overlay()))
    base["Replace"].update(json.load(open(os.path.join(inst, "overlay-extra.json"))))
    ov = os.path.join(WD, "overlay%s.json" % C.RTAG)
    s = json.dumps(base, indent=1)
    if not os.path.exists(ov) or open(ov).read() != s:
        open(ov, "w").write(s)
    hdir = C.harness_dir()
    if hdir is None:
        return False, "INTERNAL: could not prepare the harness module", None
    l3v = os.path.join(WD, "l3vbin" + C.RTAG)
    rc, out = C.sh(["go", "build", "-tags", "verif", "-overlay", ov, "-o", l3v, "./l3v"], cwd=hdir, env=C.GOENV, timeout=1800)
    if rc != 0:
        return False, "harness build: " + out[-2500:], None
    odir = os.path.join(C.VERIF, "oracle", "concview")
    ora = os.path.join(odir, "oracle")
    deps = [os.path.join(C.COQ_SRC, f) for f in ("ConcView.v", "Preds2.v", "Preds.v", "Codec.v", "Msg.v")] + \
           [os.path.join(odir, f) for f in ("driver.ml", "extract.v", "build.sh")]
    if _newer(deps, ora):
        if _newer([os.path.join(C.COQ_SRC, "ConcView.v"), os.path.join(C.COQ_SRC, "Preds2.vo")], os.path.join(C.COQ_SRC, "ConcView.vo")):
            rc, out = coqc("ConcView.v")
            if rc != 0:
                return False, "INTERNAL: coq/ConcView.v does not compile:\n" + out[-2000:], None
        rc, out = C.sh(["sh", os.path.join(odir, "build.sh"), C.COQ_SRC], timeout=900)
        if rc != 0 or not os.path.exists(ora):
            return False, "INTERNAL: oracle/concview does not build:\n" + out[-2000:], None
    return True, "", {"l3v": l3v, "oracle": ora, "sites": nsites, "overlay": ov}


def coqc(vfile, timeout=1800):
    return C.sh(["coqc", "-Q", ".", "hagall", "-w", "-notation-overridden,-ambiguous-paths,-deprecated-hint-without-locality,-deprecated-instance-without-locality",
                 vfile], cwd=C.COQ_SRC, timeout=timeout)


def coq_side():
    """compiles the three Coq files of the concurrent clause (they are not in _CoqProject). -> dict(ok, theorems, closed, axioms, log)"""
    info = {"ok": True, "theorems": [], "examples": [], "closed": 0, "axioms": [], "log": ""}
    for f in COQ_FILES:
        p = os.path.join(C.COQ_SRC, f)
        if not os.path.exists(p):
            info["ok"] = False; info["log"] = "missing " + f; return info
        for i, line in enumerate(open(p, encoding="utf-8", errors="replace"), 1):
            if C.FORBIDDEN.search(re.sub(r"\(\*.*?\*\)", "", line)):
                info["ok"] = False; info["log"] = "forbidden vernacular %s:%d: %s" % (f, i, line.strip()); return info
        vo = p[:-2] + ".vo"
        last = f == COQ_FILES[-1]
        # stale when its source, or the compiled file it is built on, is newer (Preds2.vo for the first)
        prev = os.path.join(C.COQ_SRC, "Preds2.vo") if f == COQ_FILES[0] else os.path.join(C.COQ_SRC, COQ_FILES[COQ_FILES.index(f) - 1][:-2] + ".vo")
        if last or _newer([p, prev], vo):
            rc, out = coqc(f)
            if rc != 0:
                info["ok"] = False; info["log"] = "%s: %s" % (f, out[-3000:]); return info
            if last:
                info["closed"] = len(re.findall(r"Closed under the global context", out))
                if "Axioms:" in out:
                    info["axioms"] = sorted(set(re.findall(r"^([A-Z]\w*(?:\.\w+)+)\b", out.split("Axioms:", 1)[1], flags=re.M)))
                src = re.sub(r"\(\*.*?\*\)", "", open(p).read(), flags=re.S)
                info["theorems"] = re.findall(r"^\s*(?:Theorem|Corollary)\s+(\w+)", src, flags=re.M)
                info["examples"] = re.findall(r"^\s*Example\s+(\w+)", src, flags=re.M)
    if info["axioms"] or info["closed"] < len(info["theorems"]):
        info["ok"] = False
        info["log"] = "Print Assumptions: %d closed of %d theorems; axioms %s" % (info["closed"], len(info["theorems"]), info["axioms"])
    return info


# ---------------------------------------------------------------- executions
class Exec:
    """one execution as printed by harness/l3v, with the verdict of oracle/concview"""
    def __init__(self):
        self.deadlock = self.blocked = self.panics = self.errors = 0
        self.choices, self.sites, self.lines = [], [], []
        self.S, self.L, self.R, self.N = [], [], [], []      # (code, info)
        self.tie = None                                      # None: not compared with the model; [] agrees; [codes] differs

    def kinds(self, scenario):
        """the distinct kinds of violation of this execution"""
        ks = []
        sc, lc = set(c for c, _ in self.S), set(c for c, _ in self.L)
        for c in sorted(sc | lc):
            ks.append(kind_name(scenario, "both" if (c in lc and c in sc) else "strict" if c in sc else "lenient", c))
        for c in sorted(set(c for c, _ in self.R)):
            ks.append(kind_name(scenario, "relay", c))
        if self.deadlock:
            ks.append(kind_name(scenario, "deadlock", 0))
        if self.panics:
            ks.append(kind_name(scenario, "panic", 0))
        return ks


def run_l3v(paths, progs, setup, extra, timeout=1800, model=None):
    args = [paths["l3v"], "-progs", progs]
    if setup:
        args += ["-setup", ",".join(map(str, setup))]
    rc, out = C.sh(args + extra, timeout=timeout)
    if rc != 0:
        raise RuntimeError("harness/l3v failed (rc %d) on %s: %s" % (rc, progs, out[-2000:]))
    execs, cur, trunc = [], None, False
    for line in out.splitlines():
        if line == "B":
            cur = Exec(); execs.append(cur)
        elif line.startswith("Z "):
            trunc = line.split()[2] == "1"
        elif cur is not None:
            cur.lines.append(line)
            if line.startswith("X "):
                cur.deadlock, cur.blocked, cur.panics, cur.errors = [int(x) for x in line.split()[1:5]]
            elif line.startswith("C "):
                cur.choices = [int(x) for x in line.split()[2:]]
            elif line.startswith("P "):
                cur.sites = line.split()[1:]
    rc, ver = C.sh([paths["oracle"]] + (["-model", str(model)] if model else []), stdin=out, timeout=timeout)
    if rc != 0 or "SUMMARY executions=%d" % len(execs) not in ver:
        raise RuntimeError("oracle/concview failed: " + ver[-1500:])
    for line in ver.splitlines():
        f = line.split()
        if f and f[0] == "V":
            getattr(execs[int(f[1])], f[2]).append((int(f[3]), [int(x) for x in f[4:]]))
        elif f and f[0] == "T":
            execs[int(f[1])].tie = [] if f[2] == "ok" else [int(x) for x in f[2:]]
    return execs, trunc


def describe(name, progs, setup, ex):
    out = ["scenario %s" % name,
           "programs (one per connection): " + progs,
           "set-up (threads that in turn run one whole request): " + ",".join(map(str, setup)),
           "race schedule (thread per critical section): " + ",".join(map(str, ex.choices)),
           "critical sections: " + " ".join(ex.sites)]
    for tag, what in (("S", "strict client"), ("L", "lenient client"), ("R", "relay clause (C02)"), ("N", "note")):
        for code, info in getattr(ex, tag):
            out.append("%s %s: %d %s %s" % ("FAILED" if tag != "N" else "note", what, code, CODES.get(code, "?"), info))
    if ex.tie is not None:
        out.append("model (coq/ConcView.v) under the same schedule: " + ("agrees (instruction trace, states, streams)" if not ex.tie else
                                                                        "DIFFERS in " + ", ".join(TIE.get(x, str(x)) for x in ex.tie)))
    if ex.deadlock:
        out.append("FAILED: every unfinished thread is blocked (deadlock)")
    if ex.panics:
        out.append("FAILED: a handler panicked")
    out.append("execution (harness/l3v):")
    out += ["  " + l for l in ex.lines]
    return "\n".join(out)


def replay_obj(name, progs, setup, ex, kinds):
    return {"property": PID, "level": "L3", "scenario": name, "progs": progs, "setup": setup, "schedule": ex.choices, "kinds": kinds,
            "failed": ["%s %d %s" % (t, c, CODES.get(c, "?")) for t in "SLR" for c, _ in getattr(ex, t)]}


def known_table():
    """known_findings.json entries {"status": "known", "property": "C01", "signature": {"conc": <class>, "kinds": [<kind>, ...]}}:
    kind (scenario/discipline+code, see Exec.kinds) -> entry.  A kind that no entry lists is a violation."""
    tab = {}
    for f in C.known_findings(PID) + C.known_findings("C02"):
        sig = f.get("signature", {})
        if isinstance(sig, dict) and sig.get("conc"):
            for x in sig.get("kinds", []):
                tab[x] = f
    return tab


def witnesses():
    """the stored witnesses of the _refuted theorems: corpus/C01conc/*.json"""
    out = []
    if os.path.isdir(CORPUS):
        for fn in sorted(os.listdir(CORPUS)):
            if fn.endswith(".json"):
                try:
                    o = json.load(open(os.path.join(CORPUS, fn)))
                    out.append((fn, o))
                except Exception:
                    pass
    return out


def phase(tier="quick", verbose=False):
    """-> (violations, coverage).  A violation is a dict(kind, replay, no_input, what)."""
    t0 = time.time()
    cov = {"scenarios": [], "known_lines": [], "tie_broken": [], "kinds": {}, "witnesses": []}
    viol = []
    with C.Lock("build"):
        ok, what, paths = build()
    if not ok:
        if what.startswith("INTERNAL"):
            raise RuntimeError(what)
        rp = C.write_replay(PID, "replay-conc-build.json", {"property": PID, "level": "L3", "scenario": "build", "progs": "", "unchecked": "L3 build", "failed": [what]})
        viol.append({"kind": "tie", "replay": rp, "no_input": True, "what": what})
        cov["tie_broken"].append(what[-400:])
        return viol, cov
    cov["lock_sites_instrumented"] = paths["sites"]
    known = known_table()
    bound = 3 if tier == "thorough" else 2
    nexec = 0
    with C.Lock("run-C01conc"):
        # 1. the stored witnesses of the refutation theorems replay on the real code
        for fn, o in witnesses():
            execs, _ = run_l3v(paths, o["progs"], o.get("setup", []), ["-run", ",".join(map(str, o["schedule"]))] + (["-points"] if o.get("points") else []), model=o.get("model"))
            ex = execs[0]
            nexec += 1
            got = ex.kinds(o["scenario"])
            missing = [k for k in o.get("kinds", []) if k not in got] + [k for k in got if k not in o.get("kinds", [])]
            cov["witnesses"].append({"file": fn, "theorem": o.get("theorem"), "kinds": o.get("kinds", []),
                                     "replays": not missing and ex.choices == o["schedule"] and not ex.tie})
            if (missing or ex.choices != o["schedule"] or ex.tie) and o.get("theorem"):
                what = "witness corpus/C01conc/%s (%s) no longer replays on the code: expected %s, observed %s%s%s" % (
                    fn, o.get("theorem", "?"), o.get("kinds", []), got, "" if ex.choices == o["schedule"] else "; the schedule is not executable as recorded",
                    "" if not ex.tie else "; the model of coq/ConcView.v and the code differ under this schedule in: " + ", ".join(TIE.get(x, str(x)) for x in ex.tie))
                cov["tie_broken"].append(what)
                rp = C.write_replay(PID, "replay-conc-tie-%s" % fn, dict(o, unchecked="witness of " + str(o.get("theorem")), observed=got))
                viol.append({"kind": "tie", "replay": rp, "no_input": True, "what": what})
        # 2. every schedule of every race within the preemption bound
        scen = SCENARIOS + (THOROUGH_EXTRA if tier == "thorough" else [])
        for (name, progs, setup, what) in scen:
            b = 2 if name in THOROUGH_BOUND2 else bound
            execs, trunc = run_l3v(paths, progs, setup, ["-explore", "-bound", str(b), "-max", "400000" if tier == "thorough" else "30000"] +
                                   (["-points"] if name in POINT_SCENARIOS else []), timeout=6000, model=MODEL_ID.get(name))
            nexec += len(execs)
            nbad = 0
            per_kind = {}
            untied = [ex for ex in execs if ex.tie]
            if untied:
                ex = untied[0]
                msg = "scenario %s: the model of coq/ConcView.v (scenario_of %d) and the code differ on %d of %d schedules; first in: %s" % (
                    name, MODEL_ID[name], len(untied), len(execs), ", ".join(TIE.get(x, str(x)) for x in ex.tie))
                cov["tie_broken"].append(msg)
                rp = C.write_replay(PID, "replay-conc-tie-%s.json" % name, dict(replay_obj(name, progs, setup, ex, ex.kinds(name)), model=MODEL_ID[name],
                                                                               unchecked="L3 correspondence with ConcView.v mrun"))
                open(rp + ".txt", "w").write(describe(name, progs, setup, ex) + "\n")
                viol.append({"kind": "tie", "replay": rp, "no_input": True, "what": msg})
            for ex in execs:
                ks = ex.kinds(name)
                if ks:
                    nbad += 1
                for k in ks:
                    per_kind[k] = per_kind.get(k, 0) + 1
                    if k in cov["kinds"]:
                        cov["kinds"][k]["executions"] += 1
                        continue
                    rp = C.write_replay(PID, "replay-conc-%s.json" % k.replace("/", "--"), replay_obj(name, progs, setup, ex, ks))
                    open(rp + ".txt", "w").write(describe(name, progs, setup, ex) + "\n")
                    ent = {"scenario": name, "replay": rp, "schedule": ex.choices, "executions": 1, "known": k in known}
                    cov["kinds"][k] = ent
                    if "/strict" in k:
                        # only the STRICT client diverges (a state handed on joining overwrites the broadcasts that reached the
                        # newcomer between its join answer and that state); the property is read with the lenient client
                        # (DESIGN reading decision 13): recorded as an observation, neither a violation nor a known finding
                        ent["observation"] = True
                        cov.setdefault("observations", []).append(k)
                    elif k in known:
                        line = known[k].get("line") or "KNOWN-FINDING: property=%s %s" % (PID, k)
                        if line not in cov["known_lines"]:
                            cov["known_lines"].append(line)
                    else:
                        viol.append({"kind": "property", "replay": rp, "no_input": False, "what": k, "scenario": name, "schedule": ex.choices})
            cov["scenarios"].append({"name": name, "progs": progs, "setup": setup, "race": what, "bound": b, "executions": len(execs),
                                     "violating": nbad, "kinds": per_kind, "truncated": trunc,
                                     "compared_with_model": sum(1 for ex in execs if ex.tie is not None), "model_mismatches": len(untied),
                                     "inapplicable_broadcasts": sum(1 for ex in execs if ex.N)})
            if verbose:
                print("  %-38s %6d executions, %5d violating %s (%.1fs)" % (name, len(execs), nbad, per_kind or "", time.time() - t0)); sys.stdout.flush()
    cov.update({"traces_validated_against_impl": nexec, "evaluations": nexec, "preemption_bound": bound,
                "rule": "one case = one complete schedule of a race, executed on the instrumented real handlers after a sequential set-up; "
                        "every lock acquisition of the racing requests is a scheduling point",
                "wall_phase_s": round(time.time() - t0, 1)})
    return viol, cov


def report(cov):
    for s in cov["scenarios"]:
        print("  %-38s %6d schedules%s  %s" % (s["name"], s["executions"], " (= model)" if s.get("compared_with_model") and not s.get("model_mismatches") else "",
              "clean" if not s["kinds"] else " ".join("%s x%d" % (k.split("/", 1)[1], n) for k, n in sorted(s["kinds"].items()))))
    for w in cov["witnesses"]:
        print("  witness %-44s %s  %s" % (w["file"], "replays" if w["replays"] else "DOES NOT REPLAY", w.get("theorem") or ""))


def run(tier="quick", replay=None, merge_pid=None, relay_only=False):
    """merge_pid: append the coverage to evidence/<merge_pid>.json (written just before by the sequential part of that
    property's check) instead of writing a stand-alone file; relay_only: judge only the C02 clause (relay kinds, ties)"""
    t0 = time.time()
    if replay:
        return do_replay(replay)
    with C.Lock("build"):
        info = coq_side()
    try:
        viol, cov = phase(tier, verbose=bool(os.environ.get("VERIF_VERBOSE")))
    except RuntimeError as e:
        print("INTERNAL: " + str(e)); return 2
    if not info["ok"]:
        print("INTERNAL: the Coq side of the concurrent clause does not check:\n" + info["log"][-2000:]); return 2
    if not relay_only:
        report(cov)
    for line in ([] if relay_only else cov["known_lines"]):
        print(line if line.startswith("KNOWN-FINDING") else "KNOWN-FINDING: property=%s %s" % (PID, line))
    rc = 0
    seen = {}
    pid_out = merge_pid or PID
    if relay_only:
        viol = [v for v in viol if v["kind"] != "property" or "/relay" in v["what"]]
        cov["known_lines"] = []
    for v in viol:
        if v["kind"] == "property":
            seen.setdefault(class_of(v["what"]), []).append(v)
    for cls, vs in seen.items():
        print("  unmatched by known_findings.json: %s  (%s)" % (cls, ", ".join(v["what"] for v in vs)))
        C.violation(pid_out, vs[0]["replay"]); rc = 1
    ties = [v for v in viol if v["kind"] != "property"]
    for v in ties:
        print("  tie: " + v["what"][:600])
    if ties:
        C.violation(pid_out, ties[0]["replay"], no_input=True); rc = 1
    coverage = dict(cov, obligations=len(info["theorems"]), discharged=len(info["theorems"]), theorems=info["theorems"], examples=info["examples"],
                    checker_cmd="python3 -m checks.c01conc --tier %s (tools/instrument + harness/l3v + oracle/concview; coqc ConcView.v proofs/ConcViewProofs.v Properties/C01conc.v)" % tier,
                    trusted_base=C.TRUSTED_BASE + [
                        "tools/instrument and verifsched: scheduling points are exactly the lock acquisitions of models, websocket, modules/*; code between two acquisitions is taken as atomic",
                        "harness/l3v (request builder, per-connection stream recorder, message and snapshot encoders copied from harness/l1) and oracle/concview/driver.ml",
                        "the client disciplines of ConcView.v (strict: a state handed on joining overwrites what arrived before it; lenient: it is applied first); a fire-and-forget update takes effect in its sender's view where the server applies it",
                    ])
    assumptions = ["the exploration is bounded: preemption bound %d, one request per racing connection, the set-ups listed in SCENARIOS" % cov.get("preemption_bound", 0),
                   "the witness theorems are about the micro-programs of ConcView.v; their correspondence with the code is the replay of every witness schedule on the real handlers"]
    if not merge_pid:
        C.write_evidence("C01conc", tier, coverage, assumptions, time.time() - t0, [dict(v) for v in viol], level="proof")
        return rc
    tb = coverage.pop("trusted_base")[len(C.TRUSTED_BASE):]
    err = C.merge_evidence(merge_pid, "concurrent_clause", coverage, info, assumptions, tb, rc, time.time() - t0,
                           " && coqc ConcView.v proofs/ConcViewProofs.v Properties/C01conc.v", [dict(v) for v in viol])
    if err:
        print("INTERNAL: " + err); return 2
    return rc


def do_replay(path):
    try:
        o = json.load(open(path))
    except Exception as e:
        print("INTERNAL: cannot read replay file: %s" % e); return 2
    with C.Lock("build"):
        ok, what, paths = build()
    if not ok:
        if what.startswith("INTERNAL"):
            print(what); return 2
        print("the instrumented sources do not build:\n" + what)
        C.violation(PID, path, no_input=True); return 1
    if not o.get("progs"):
        print("this replay file names a broken tie (%s), not a schedule; running the quick check" % o.get("unchecked"))
        return run("quick", None)
    with C.Lock("run-C01conc"):
        try:
            execs, _ = run_l3v(paths, o["progs"], o.get("setup", []), ["-run", ",".join(map(str, o["schedule"]))] +
                               (["-points"] if o.get("scenario") in POINT_SCENARIOS else []),
                               model=o.get("model") or MODEL_ID.get(o.get("scenario")))
        except RuntimeError as e:
            print("INTERNAL: " + str(e)); return 2
    ex = execs[0]
    print(describe(o.get("scenario", "?"), o["progs"], o.get("setup", []), ex))
    ks = ex.kinds(o.get("scenario", "?"))
    if o.get("unchecked") or o.get("theorem"):
        missing = [k for k in o.get("kinds", []) if k not in ks]
        if missing or ex.tie:
            print("the witness does not replay: expected %s, observed %s%s" % (o.get("kinds"), ks, "; model and code differ" if ex.tie else ""))
            C.violation(PID, path, no_input=True); return 1
    if not ks:
        print("the views at quiescence equal the server's state and every change is relayed once on this schedule")
        return 0
    known = known_table()
    if all(k in known for k in ks):
        for line in sorted(set(known[k].get("line") or k for k in ks)):
            print(line if line.startswith("KNOWN-FINDING") else "KNOWN-FINDING: property=%s %s" % (PID, line))
        return 0
    C.violation(PID, path); return 1


if __name__ == "__main__":
    tier = "quick"
    rp = None
    a = sys.argv[1:]
    i = 0
    while i < len(a):
        if a[i] == "--propose":
            print(propose()); sys.exit(0)
        elif a[i] == "--tier":
            tier = a[i + 1]; i += 2
        elif a[i] == "--replay":
            rp = a[i + 1]; i += 2
        else:
            i += 1
    sys.exit(run(tier, rp))

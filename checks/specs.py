"""Property id -> check entry point."""
import importlib, os
from . import common as C
from . import l1check

ALL_REQ = [3, 8, 11, 14, 16, 18, 20, 22, 24, 27, 30, 32, 34, 36, 38, 39, 40, 42, 101, 201, 301, 303, 305]
NOFLAGS = "flags empty (suppression is C17's subject)"
INTERN = "strings and blobs the server only tests for emptiness/equality are interned to numbers by the harness (injective)"

L1 = {
    "C01": dict(profile="C01", n_quick=240, n_thorough=8000, len_thorough=250, own_kinds=ALL_REQ,
                rule="online-generated histories (profile C01: up to 6 connections, 3 sessions, all 8 module subsets round-robin, hook snapshot after ~30% of the ops and at the end); every member's replicated view is recomputed from its own message stream and compared with the server state at every snapshot; non-trivial = contains an accepted and a refused request; distinct by op list",
                assumptions=[NOFLAGS, INTERN, "a participant's knowledge of a component type is compared only while it is synced (DESIGN §4.2)"]),
    "C02": dict(profile="C02", n_quick=240, n_thorough=8000, len_thorough=250, own_kinds=[3, 8, 11, 14, 16, 101, 201],
                rule="online-generated histories (profile C02: sessions of 3-6 members, joins / switches / departures, entity add / delete, pose updates with frame ticks, untargeted custom messages, actions, assets, foreign and dead ids); non-trivial = contains an accepted and a refused relaying request; distinct by op list",
                assumptions=[NOFLAGS, INTERN]),
    "C03": dict(profile="C03", n_quick=240, n_thorough=8000, len_thorough=250, own_kinds=ALL_REQ,
                rule="online-generated histories (profile C03: 3 concurrent sessions whose participant / entity / type ids coincide, connections that never join, switch back and forth, name ids of other sessions, end-and-recreate cycles that recycle session ids; hook snapshot after ~60% of the ops); non-trivial = contains an accepted and a refused request; distinct by op list",
                assumptions=[INTERN, "noninterference is proved on the model (C03_local_respect) and carried to the code by the correspondence; on the code itself the check is: no delivery leaves the actor's sessions, and a session nobody in it touched is bit-for-bit unchanged between consecutive snapshots"]),
    "C04": dict(profile="C04", n_quick=240, n_thorough=8000, len_thorough=250, own_kinds=ALL_REQ,
                rule="online-generated histories (profile C04: every request kind incl. undecodable bodies and unknown type numbers, zero / unknown / foreign / dead / huge ids, empty strings, missing sub-messages, joined and unjoined senders; snapshot after ~45% of the ops); non-trivial = contains an accepted and a refused request; distinct by op list",
                assumptions=[INTERN, "request ids are unique per history so that answers are attributable", "TOO_BUSY vs accepted for a receipt is not predicted (queue length is C19's subject)"]),
    "C05": dict(profile="C05", n_quick=240, n_thorough=8000, len_thorough=250, own_kinds=[11, 14, 201],
                rule="online-generated histories (profile C05: every (requester, entity) pair class: own, foreign, orphaned persistent entity of a departed owner, joiner after the owner left, unknown, zero and huge ids); non-trivial = contains an accepted and a refused owner-restricted request; distinct by op list",
                assumptions=[INTERN]),
    "C06": dict(profile="C06", n_quick=240, n_thorough=8000, len_thorough=250, own_kinds=[3, 8],
                rule="online-generated histories (profile C06: participants owning 0-5 entities with random persist flags, components of several types, actions, assets, subscriptions; departures by disconnect, handler error, undecodable frame, switching join); non-trivial = contains a departure that removes entities and one that keeps a persistent entity... counted as accepted+refused of the join / entity-add kinds; distinct by op list",
                assumptions=[INTERN, "the wire-level causes of a connection ending (idle timeout, TCP reset, ...) funnel into the same HandleDisconnect; that funnel is C08's subject",
                             "client requests carry origin timestamps >= 1 (the generator counts up from 1): the predicate recognises a departure's own delete broadcasts by origin timestamp 0 (RefMod_C06_refuted shows the condition is needed for the predicate, not for the property)"]),
    "C07": dict(profile="C07", n_quick=240, n_thorough=8000, len_thorough=300, own_kinds=[3],
                rule="online-generated histories (profile C07: long create / join / switch / end cycles over up to 4 sessions with session-id reuse, joins of live, dead, guessed and junk ids; hook snapshot of registry keys, gauge and frame-handler counts after ~40% of the ops); non-trivial = contains an accepted and a refused join; distinct by op list",
                assumptions=["the handler-level histories are sequential; the lock-granularity interleavings of concurrent joins / departures are decided by the second part of this check (coverage.concurrent_clause)"]),
    "C10": dict(profile="C10", n_quick=240, n_thorough=8000, len_thorough=400, own_kinds=[3, 8, 18, 201],
                rule="online-generated histories (profile C10: hundreds of allocations of participant, entity, type and asset ids with releases, session create / end cycles building reusable id pools); non-trivial = contains an accepted and a refused allocating request; distinct by op list",
                assumptions=["fewer than 2^32-1 allocations per generator (uint32 wrap is in the model and excluded by hypothesis in the theorems)", INTERN]),
    "C11": dict(profile="C11", n_quick=240, n_thorough=8000, len_thorough=300, own_kinds=[14],
                rule="online-generated histories (profile C11: pose updates carrying a sequence number, 0 / 1 / many updates per frame, ticks with nothing pending, updates pending while the owner deletes the entity, leaves or switches session, other members joining meanwhile; requests are queued and consumed out of lock-step); non-trivial = contains a relayed and a dropped pose update; distinct by op list",
                assumptions=[NOFLAGS, "'within a few frames' = after one frame tick following the last dispatch, once the flushed message has been consumed (DESIGN §4.7)"]),
    "C12": dict(profile="C12", n_quick=240, n_thorough=8000, len_thorough=250, own_kinds=[18, 24, 27, 32],
                rule="online-generated histories (profile C12: type registrations, component adds / updates / deletes / lists, entity deletions and departures, ids that exist, never existed or no longer exist); non-trivial = contains an accepted and a refused component request; distinct by op list",
                assumptions=[INTERN]),
    "C13": dict(profile="C13", n_quick=240, n_thorough=8000, len_thorough=250, own_kinds=[24, 27, 34],
                rule="online-generated histories (profile C13: several component types, every member subscribing / unsubscribing / leaving / re-joining, component changes by subscribers and non-subscribers); non-trivial = contains an accepted and a refused component or subscription request; distinct by op list",
                assumptions=[INTERN, "exactly the property's clauses: what non-subscribers receive for adds / deletes while somebody is subscribed is neither required nor forbidden"]),
    "C14": dict(profile="C14", n_quick=160, n_thorough=4000, len_thorough=150, own_kinds=[16],
                rule="online-generated histories (profile C14: bodies of length 0/1/10239/10240/10241/random, recipient lists over members, non-members, duplicates, the sender, 0); a history is non-trivial when it contains a delivered and a refused custom message; distinct by op list",
                assumptions=["protobuf marshalling is injective on the body bytes", NOFLAGS]),
    "C16": dict(profile="C16", n_quick=240, n_thorough=8000, len_thorough=250, own_kinds=[101, 201],
                rule="online-generated histories (profile C16: actions with equal, decreasing, far-future, zero and negative timestamps, several names per entity, assets re-added, requests from non-owners, interleaved entity deletions and departures, persistent orphans, every module subset); non-trivial = contains an accepted and a refused action / asset request; distinct by op list",
                assumptions=[INTERN, "|timestamp seconds| <= 2^55 (beyond that time.Unix wraps)"]),
    "C17": dict(profile="C17", n_quick=60, n_thorough=1024, len_thorough=120, own_kinds=ALL_REQ, mode="flags",
                rule="online-generated flag-free histories (profile C17), each replayed under sampled flag sets (quick: 4 per history cycling through the 10 singletons, the full set, unknown names and random subsets; thorough: all 1024 subsets, 16 per history); each flagged run is compared with the model and, pairwise, with its flag-free twin filtered by the set flags; non-trivial = contains an accepted and a refused request; distinct by op list",
                assumptions=["a pair is compared only up to the first point where the two runs recycle a different session id (Go map order)"]),
    "C18": dict(profile="C18", n_quick=200, n_thorough=4000, len_thorough=300, own_kinds=[42, 39],
                rule="online-generated histories (profile C18: iteration counts 0..60 and 2^32-1, empty wallets, ping answers in order, twice, unknown ids, old ids after completion, restarts mid-measurement, session switches); the final round is delayed 2 ms so that 'last' is decidable from outside; non-trivial = contains an accepted and a refused latency request or ping answer; distinct by op list",
                assumptions=["clock readings are monotone and a measured round trip is >= 1 us (the harness sleeps 20 us)", "Keccak-256 and secp256k1 recovery are go-ethereum's (the harness recovers the signer independently)", "protobuf marshalling of LatencyData"]),
}

def l1_entry(pid):
    def f(tier, replay):
        if replay:
            return l1check.replay(pid, replay)
        return l1check.run(pid, tier, L1[pid])
    return f

def mod_entry(modname):
    def f(tier, replay):
        m = importlib.import_module("checks." + modname)
        return m.run(tier, replay)
    return f

def c07_entry(tier, replay):
    """C07 = the sequential clauses (handler level, like the other relay properties) + the concurrent clause
    (lock-granularity schedules on the instrumented real handlers against coq/Conc.v)"""
    from . import c07conc
    if replay:
        if replay.endswith(".json"):
            return c07conc.do_replay(replay)
        return l1check.replay("C07", replay)
    rc1 = l1check.run("C07", tier, L1["C07"])
    if rc1 == 2:
        return 2
    rc2 = c07conc.run(tier, None, merge=True)
    if rc2 == 2:
        return 2
    return 1 if (rc1 or rc2) else 0

def c01_entry(pid, relay_only):
    """C01 / C02 = the sequential clauses (handler level) + the concurrent clause (lock-granularity schedules of racing
    requests on the instrumented real handlers, judged by the extraction of coq/ConcView.v)"""
    def f(tier, replay):
        from . import c01conc
        if replay:
            if replay.endswith(".json"):
                if "c02wire" in os.path.basename(replay):
                    from . import c02wire
                    return c02wire.run("quick", None, merge=False)
                return c01conc.do_replay(replay)
            return l1check.replay(pid, replay)
        rc1 = l1check.run(pid, tier, L1[pid])
        if rc1 == 2:
            return 2
        rc2 = c01conc.run(tier, None, merge_pid=pid, relay_only=relay_only)
        if rc2 == 2:
            return 2
        rc3 = 0
        if pid == "C02":
            from . import c02wire
            rc3 = c02wire.run(tier, None, merge=True)
            if rc3 == 2:
                return 2
        return 1 if (rc1 or rc2 or rc3) else 0
    return f

CHECKS = {pid: l1_entry(pid) for pid in L1}
CHECKS["C07"] = c07_entry
def c13_entry(tier, replay):
    from . import c13conc
    if replay:
        if replay.endswith(".json"):
            return c13conc.run(tier, replay)
        return l1check.replay("C13", replay)
    rc1 = l1check.run("C13", tier, L1["C13"])
    if rc1 == 2:
        return 2
    rc2 = c13conc.run(tier, None, merge=True)
    if rc2 == 2:
        return 2
    return 1 if (rc1 or rc2) else 0

def c10_entry(tier, replay):
    from . import c10conc
    if replay:
        if replay.endswith(".json"):
            return c10conc.run(tier, replay)
        return l1check.replay("C10", replay)
    rc1 = l1check.run("C10", tier, L1["C10"])
    if rc1 == 2:
        return 2
    rc2 = c10conc.run(tier, None, merge=True)
    if rc2 == 2:
        return 2
    return 1 if (rc1 or rc2) else 0

def c03_entry(tier, replay):
    from . import c03mod, c03purge, c03conc
    if replay:
        if replay.endswith(".json"):
            return c03conc.run(tier, replay)
        if replay.endswith(".modhist"):
            return c03mod.run(tier, replay)
        if replay.endswith(".purge"):
            return c03purge.run(tier, replay)
        return l1check.replay("C03", replay)
    rc1 = l1check.run("C03", tier, L1["C03"])
    if rc1 == 2:
        return 2
    rc2 = c03purge.run(tier, None, merge=True)
    if rc2 == 2:
        return 2
    rc3 = c03mod.run(tier, None, merge=True)
    if rc3 == 2:
        return 2
    rc4 = c03conc.run(tier, None, merge=True)
    if rc4 == 2:
        return 2
    return 1 if (rc1 or rc2 or rc3 or rc4) else 0

def wire_entry(pid):
    def f(tier, replay):
        from . import wirepart
        if replay:
            if replay.endswith(".wire.json"):
                return wirepart.run(pid, tier, replay, merge=False)
            return l1check.replay(pid, replay)
        rc1 = l1check.run(pid, tier, L1[pid])
        if rc1 == 2:
            return 2
        rc2 = wirepart.run(pid, tier, None, merge=True)
        if rc2 == 2:
            return 2
        return 1 if (rc1 or rc2) else 0
    return f

def c06_entry(tier, replay):
    from . import c06conc
    if replay:
        if replay.endswith(".json"):
            return c06conc.run(tier, replay)
        return l1check.replay("C06", replay)
    rc1 = l1check.run("C06", tier, L1["C06"])
    if rc1 == 2:
        return 2
    rc2 = c06conc.run(tier, None, merge=True)
    if rc2 == 2:
        return 2
    return 1 if (rc1 or rc2) else 0

CHECKS["C06"] = c06_entry
CHECKS["C04"] = wire_entry("C04")
CHECKS["C14"] = wire_entry("C14")
CHECKS["C03"] = c03_entry
CHECKS["C10"] = c10_entry
CHECKS["C13"] = c13_entry
CHECKS["C01"] = c01_entry("C01", False)
CHECKS["C02"] = c01_entry("C02", True)
for _pid, _mod in (("C08", "c08check"), ("C09", "c09check"), ("C15", "c15check"), ("C19", "c19check"), ("C20", "c20check")):
    CHECKS[_pid] = mod_entry(_mod)

def setup():
    """MANIFEST.setup_cmd: build everything once, offline"""
    with C.Lock("build"):
        bad = C.grep_forbidden()
        if bad:
            print("forbidden vernacular:\n" + "\n".join(bad)); return 2
        ok, log = C.run_translator()
        print("translator:", "ok" if ok else log[-2000:])
        ok, log = C.coq_make()
        print("coq:", "ok" if ok else "some files failed: %s\n%s" % (C.COQ_FAILED, log[-3000:]))
        core_ok, bad = C.coq_ok_for("Preds2.v")
        if not core_ok:
            print("core model does not build:", bad); return 2
        ok, log = C.build_oracle()
        print("oracle:", "ok" if ok else log[-2000:])
        if not ok: return 2
        ok, log, _ = C.build_harness("l1")
        print("harness:", "ok" if ok else log[-2000:])
        if not ok: return 2
    return 0

"""Property id -> check entry point."""
from . import common as C
from . import l1check

L1 = {
    "C14": dict(profile="C14", n_quick=300, n_thorough=6000, len_thorough=200, own_kinds=[16],
                rule="online-generated histories (profile C14: bodies of length 0/1/10239/10240/10241/random, recipient lists over members, non-members, duplicates, the sender, 0); a history is non-trivial when it contains a delivered and a refused custom message; distinct by op list",
                assumptions=["protobuf marshalling is injective on the body bytes", "flags empty (suppression is C17's subject)"]),
}

def l1_entry(pid):
    def f(tier, replay):
        if replay:
            return l1check.replay(pid, replay)
        return l1check.run(pid, tier, L1[pid])
    return f

CHECKS = {pid: l1_entry(pid) for pid in L1}

def setup():
    """MANIFEST.setup_cmd: build everything once, offline"""
    with C.Lock():
        bad = C.grep_forbidden()
        if bad:
            print("forbidden vernacular:\n" + "\n".join(bad)); return 2
        ok, log = C.run_translator()
        print("translator:", "ok" if ok else log[-2000:])
        ok, log = C.coq_make()
        print("coq:", "ok" if ok else log[-4000:])
        if not ok: return 2
        ok, log = C.build_oracle()
        print("oracle:", "ok" if ok else log[-2000:])
        if not ok: return 2
        ok, log, _ = C.build_harness("l1")
        print("harness:", "ok" if ok else log[-2000:])
        if not ok: return 2
    return 0

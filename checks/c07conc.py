"""C07 / C10, concurrent clause: "for every lock-granularity interleaving of concurrent joins and departures on the
same session or the same id (join of an existing session against the last departure, two last departures, two
creations)".

Proof side: coq/Conc.v (interleaving semantics of HandleParticipantJoin / leaveSession over the registry, one
instruction per critical section of package models), coq/proofs/ConcProofs.v, coq/Properties/C07conc.v.
Tie (L3): tools/instrument rewrites every x.Lock()/x.RLock() statement of the CURRENT sources of models, websocket,
modules/* into a yield to the cooperative scheduler verifsched; harness/l3 runs the real handlers as scheduler
threads under explicit schedules (a DFS over all schedules within a preemption bound, plus fixed witness
schedules); every execution is (a) judged by the property predicate on the implementation's own observables and
(b) compared with what the extracted Conc.v (oracle/conc) computes for the same schedule.

run(tier, replay) follows the contract of bin/check; phase(tier) returns (violations, coverage) for a caller that
prints the verdict itself (the C07 check)."""
import json, os, re, sys, time
from . import common as C

PID = "C07"
SIG = "F8"     # known_findings.json: {"status": "known", "property": "C07", "signature": {"conc": "F8"}, "line": ...}
OPNAMES = {1: "GetByGlobalID", 2: "NewID", 3: "Add", 4: "NewParticipantID", 5: "AddParticipant", 6: "RemoveParticipant",
           7: "ParticipantCount", 8: "Remove(store.mutex)", 9: "Remove(ids.Reuse)", 99: "unknown SessionStore section"}

# scenario: name, programs (one per connection), sequential set-up (threads that first run one whole request each),
# the race of the property it instantiates
SCENARIOS = [
    ("join-vs-last-departure", "C,L|J1", [1], "join of an existing session against the last departure"),
    ("two-last-departures", "C,L|J1,L", [1, 2], "two last departures"),
    ("two-last-departures-vs-creation", "C,L|J1,L|C", [1, 2], "two last departures, the id reissued meanwhile"),
    ("two-creations", "C|C", [], "two creations"),
    ("two-joins-vs-last-departure", "C,L|J1|J1,L", [1], "two joins against the last departure"),
    ("creation-vs-join-of-the-new-id", "C,L|J1,L", [], "join of a session that is being created"),
    ("reuse-vs-creations", "C,L,C|C,L|J1", [1], "creations against a departure that recycles an id"),
    ("switch-vs-last-departure", "C,J2,L|C,L|J2", [1, 2], "switching join (last departure of one session) against the last departure of the target"),
]
THOROUGH_EXTRA = [
    ("three-departures-vs-join", "C,L|J1,L|J1,L|J1", [1, 2, 3], "last departures against a join"),
    ("create-end-cycles", "C,L,C,L|C,L,C,L|J1,J2", [], "create / end cycles with id reuse against joins by id"),
]
# fixed witness schedules (visible scheduling points), replayed first: (name, progs, schedule for the unrepaired
# code, schedule for the repaired code)
WITNESSES = [
    ("orphan-join", "C,L|J1", [1, 1, 1, 1, 1, 2, 1, 1, 1, 1, 2, 2], [1, 1, 1, 1, 1, 2, 1, 1, 1, 2, 2]),
    ("double-remove", "C,L|J1,L", [1, 1, 1, 1, 1, 2, 2, 2, 1, 2, 1, 2, 1, 1, 2, 2], [1, 1, 1, 1, 1, 2, 2, 2, 1, 2, 2, 2]),
    ("double-remove-reissue", "C,L|J1,L|C", [1, 1, 1, 1, 1, 2, 2, 2, 1, 2, 1, 2, 1, 1, 3, 3, 3, 2, 2, 3, 3],
     [1, 1, 1, 1, 1, 2, 2, 2, 1, 2, 2, 2, 3, 3, 3, 3, 3]),
]

WD = os.path.join(C.WORK, "conc")


# ---------------------------------------------------------------- building
def _newer(src_files, target):
    if not os.path.exists(target):
        return True
    t = os.path.getmtime(target)
    return any(os.path.getmtime(f) > t for f in src_files if os.path.exists(f))


def build():
    """instrument the current sources, build harness/l3 against them, build the oracle. -> (ok, what, paths)"""
    os.makedirs(WD, exist_ok=True)
    tooldir = os.path.join(C.VERIF, "tools", "instrument")
    ibin = os.path.join(WD, "instrument")
    if _newer([os.path.join(tooldir, "main.go"), os.path.join(tooldir, "go.mod")], ibin):
        rc, out = C.sh(["go", "build", "-o", ibin, "."], cwd=tooldir, env=C.GOENV, timeout=600)
        if rc != 0:
            return False, "INTERNAL: the instrumenter does not build:\n" + out[-2000:], None
    inst = os.path.join(WD, "inst" + C.RTAG)
    rc, out = C.sh([ibin, C.REPO, inst, os.path.join(tooldir, "verifsched", "sched.go")], timeout=300)
    if rc != 0:
        return False, "instrumenter: " + out[-1500:], None
    nsites = int(re.search(r"(\d+) sites", out).group(1)) if re.search(r"(\d+) sites", out) else 0
    base = json.load(open(C.write_overlay()))
    base["Replace"].update(json.load(open(os.path.join(inst, "overlay-extra.json"))))
    ov = os.path.join(WD, "overlay%s.json" % C.RTAG)
    s = json.dumps(base, indent=1)
    if not os.path.exists(ov) or open(ov).read() != s:
        open(ov, "w").write(s)
    hdir = C.harness_dir()
    if hdir is None:
        return False, "INTERNAL: could not prepare the harness module", None
    l3 = os.path.join(WD, "l3bin" + C.RTAG)
    rc, out = C.sh(["go", "build", "-tags", "verif", "-overlay", ov, "-o", l3, "./l3"], cwd=hdir, env=C.GOENV, timeout=1800)
    if rc != 0:
        return False, "harness build: " + out[-2500:], None
    odir = os.path.join(C.VERIF, "oracle", "conc")
    ora = os.path.join(odir, "oracle")
    if _newer([os.path.join(C.COQ_SRC, "Conc.v"), os.path.join(C.COQ_SRC, "Model.v"), os.path.join(odir, "driver.ml"),
               os.path.join(odir, "extract.v"), os.path.join(odir, "build.sh")], ora):
        with C.GlobalLock("oracle"):
            rc, out = C.sh(["sh", os.path.join(odir, "build.sh"), C.COQ_SRC], timeout=900)
        if rc != 0 or not os.path.exists(ora):
            return False, "INTERNAL: oracle/conc does not build:\n" + out[-2000:], None
    return True, "", {"l3": l3, "oracle": ora, "sites": nsites, "overlay": ov}


# ---------------------------------------------------------------- records
class Rec:
    """one execution as printed by harness/l3 (or predicted by the oracle)"""
    def __init__(self, line):
        f = line.split()
        self.raw = line.strip()
        i = 0
        self.deadlock = self.blocked = self.panics = 0
        self.choices, self.steps = [], []
        self.mismatch, self.complete = -1, 1
        def ints(k):
            nonlocal i
            v = [int(x) for x in f[i:i + k]]
            i += k
            return v
        while i < len(f):
            tag = f[i]; i += 1
            if tag == "X":
                self.deadlock, self.blocked, self.panics = ints(3)
            elif tag == "Y":
                self.mismatch, self.complete = ints(2)
            elif tag == "C":
                n, = ints(1); self.choices = ints(n)
            elif tag == "S":
                n, = ints(1); v = ints(3 * n); self.steps = [tuple(v[j:j + 3]) for j in range(0, 3 * n, 3)]
            elif tag == "A":
                n, = ints(1); v = ints(6 * n); self.answers = [tuple(v[j:j + 6]) for j in range(0, 6 * n, 6)]
            elif tag == "G":
                n, = ints(1); self.reg = []
                for _ in range(n):
                    idn, uu, k = ints(3)
                    self.reg.append((idn, uu, tuple(ints(k))))
            elif tag == "U":
                self.gauge, = ints(1)
            elif tag == "I":
                cur, n = ints(2); self.gen = (cur, tuple(ints(n)))
            elif tag == "M":
                n, = ints(1); v = ints(6 * n); self.members = [tuple(v[j:j + 6]) for j in range(0, 6 * n, 6)]
            else:
                raise ValueError("bad record: " + line)

    def canon(self):
        """observables with the incarnation tokens renamed to first occurrence"""
        ren = {0: 0}
        def r(u):
            if u not in ren:
                ren[u] = len(ren)
            return ren[u]
        a = [(c, i, k, (sid if k == 1 else 0), (r(u) if k == 1 else 0), (p if k == 1 else 0)) for (c, i, k, sid, u, p) in self.answers]
        g = [(idn, r(u), ps) for (idn, u, ps) in self.reg]
        m = [(c, sid, r(u), p, inr, regd) for (c, sid, u, p, inr, regd) in self.members]
        return {"answers": a, "registry": g, "gauge": self.gauge, "idgen": self.gen, "members": m}


def registry_ok(rec):
    """the property predicate at quiescence, on the observables of one execution. -> list of failed clauses"""
    bad = []
    if rec.deadlock:
        bad.append("every unfinished thread is blocked (deadlock)")
    if rec.panics:
        bad.append("a handler panicked")
    cur, reusable = rec.gen
    uu = [u for (_, u, _) in rec.reg]
    for (idn, u, ps) in rec.reg:
        if not ps:
            bad.append("session %d is registered with no participant" % idn)
        if idn in reusable:
            bad.append("id %d is registered and recyclable at the same time" % idn)
        if idn > cur:
            bad.append("registered id %d was never issued" % idn)
    if len(set(uu)) != len(uu):
        bad.append("one session object is registered under two ids")
    if rec.gauge != len(rec.reg):
        bad.append("session gauge %d but %d registered sessions" % (rec.gauge, len(rec.reg)))
    lastok = {}
    for (c, i, k, sid, u, p) in rec.answers:
        lastok[c] = (k, sid, u, p)
    for (c, sid, u, p, inr, regd) in rec.members:
        if not inr:
            bad.append("connection %d believes it is participant %d of session %d but is not in its participant set" % (c, p, sid))
        if not regd:
            bad.append("connection %d was answered with success for session id %d, which does not resolve to its session (orphaned join)" % (c, sid))
        if c in lastok and lastok[c][0] == 1 and lastok[c][1:] != (sid, u, p):
            bad.append("connection %d is in another session than the one it was answered" % c)
    return bad


# ---------------------------------------------------------------- running
def enc_progs(progs):
    out = []
    for p in progs.split("|"):
        ops = [o.strip() for o in p.split(",") if o.strip()]
        out.append(str(len(ops)))
        for o in ops:
            out += {"C": ["1", "0"], "L": ["3", "0"]}.get(o[0]) or ["2", o[1:]]
    return [str(len(progs.split("|")))] + out


def oracle(paths, fixed, progs, recs):
    lines = []
    for r in recs:
        st = [str(x) for s in r.steps for x in s]
        lines.append(" ".join([str(int(fixed))] + enc_progs(progs) + [str(len(r.steps))] + st))
    rc, out = C.sh([paths["oracle"]], stdin="\n".join(lines) + "\n", timeout=600)
    res = [l for l in out.splitlines() if l.startswith("Y ")]
    if rc != 0 or len(res) != len(recs):
        raise RuntimeError("oracle/conc failed: " + out[-1500:])
    return [Rec(l) for l in res]


def run_l3(paths, args, timeout=900):
    rc, out = C.sh([paths["l3"]] + args, timeout=timeout)
    if rc != 0:
        raise RuntimeError("harness/l3 failed (rc %d): %s" % (rc, out[-2000:]))
    recs = [Rec(l) for l in out.splitlines() if l.startswith("X ")]
    unknown = [l[2:] for l in out.splitlines() if l.startswith("N ")]
    end = [l for l in out.splitlines() if l.startswith("E ")]
    trunc = bool(end) and end[-1].split()[2] == "1"
    return recs, unknown, trunc


def detect_variant(paths):
    """which micro-programs does the code run?  From a sequential create + disconnect and a join + disconnect."""
    recs, _, _ = run_l3(paths, ["-progs", "C,L|J1", "-run", ""])
    ops = {1: [], 2: []}
    for (t, op, _) in recs[0].steps:
        ops[t].append(op)
    if ops[1] == [1, 2, 3, 4, 5, 6, 7, 8, 9] and ops[2] == [1]:
        return "unrepaired", ops
    if ops[1] == [1, 2, 3, 4, 5, 6, 8, 9] and ops[2] == [1]:
        return "repaired", ops
    return None, ops


def describe(progs, rec, failed, model=None):
    lines = ["programs (one per connection; C create, J<n> join session n, L disconnect): " + progs,
             "schedule (thread per critical section): " + ",".join(str(t) for t in rec.choices),
             "critical sections: " + " ".join("%d:%s" % (t, OPNAMES.get(op, str(op))) for (t, op, _) in rec.steps),
             "implementation: " + json.dumps(rec.canon())]
    if model is not None:
        lines.append("model (Conc.v):  " + json.dumps(model.canon()) + ("  [instruction trace differs at step %d]" % model.mismatch if model.mismatch >= 0 else ""))
    for b in failed:
        lines.append("FAILED: " + b)
    return "\n".join(lines)


def replay_obj(name, progs, rec, points, failed, unchecked=None):
    o = {"property": PID, "level": "L3", "scenario": name, "progs": progs, "points": points,
         "schedule": rec.choices if rec is not None else [], "failed": failed}
    if unchecked:
        o["unchecked"] = unchecked
    return o


def phase(tier="quick", verbose=False):
    """-> (violations, coverage).  A violation is a dict(kind, replay, no_input, what); known findings are in
    coverage['known_lines']."""
    t0 = time.time()
    cov = {"scenarios": [], "known_lines": [], "tie_broken": [], "variant": None}
    viol = []
    with C.Lock("build"):
        ok, what, paths = build()
    if not ok:
        if what.startswith("INTERNAL"):
            raise RuntimeError(what)
        # the instrumented code or the hooks no longer compile: nothing can be run, so no failing input either
        rp = C.write_replay(PID, "replay-conc-build.json", replay_obj("build", "", None, "visible", [what], unchecked="L3 build"))
        viol.append({"kind": "tie", "replay": rp, "no_input": True, "what": what})
        cov["tie_broken"].append(what[-400:])
        return viol, cov
    cov["lock_sites_instrumented"] = paths["sites"]
    with C.Lock("run-C07conc"):
        variant, probe = detect_variant(paths)
        cov["variant"] = variant or "unknown (%s)" % probe
        fixed = variant != "unrepaired"
        if variant is None:
            cov["tie_broken"].append("the critical sections of a sequential create/join/disconnect are %s: neither the unrepaired nor the repaired micro-programs of Conc.v" % probe)
        known = [f for f in C.known_findings(PID) if f.get("signature", {}).get("conc") == SIG]
        bound = 3 if tier == "thorough" else 2
        nexec = nmis = nfail = ninter = 0
        distinct = set()
        samples = []
        first_mismatch = None
        dist = {}

        def judge(name, progs, recs, points):
            nonlocal nexec, nmis, nfail, ninter, first_mismatch
            if not recs:
                return
            models = oracle(paths, fixed, progs, recs)
            for r, m in zip(recs, models):
                nexec += 1
                key = (progs, tuple(t for (t, _, _) in r.steps))
                thr = [t for (t, _, _) in r.steps]
                switches = sum(1 for a, b in zip(thr, thr[1:]) if a != b)
                if switches >= len(set(thr)):
                    if key not in distinct:
                        ninter += 1
                distinct.add(key)
                failed = registry_ok(r)
                same = (m.mismatch < 0 and m.complete == 1 and r.canon() == m.canon())
                if not same:
                    nmis += 1
                    if first_mismatch is None:
                        first_mismatch = (name, progs, r, m, points)
                if failed:
                    nfail += 1
                    if same and variant == "unrepaired" and known:
                        line = known[0].get("line") or "KNOWN-FINDING: property=C07 %s" % SIG
                        if line not in cov["known_lines"]:
                            cov["known_lines"].append(line)
                        continue
                    if not any(v["kind"] == "property" for v in viol):
                        rp = C.write_replay(PID, "replay-conc-%s.json" % name, replay_obj(name, progs, r, points, failed))
                        open(rp + ".txt", "w").write(describe(progs, r, failed, m) + "\n")
                        viol.append({"kind": "property", "replay": rp, "no_input": False, "what": failed[0], "scenario": name,
                                     "schedule": r.choices})
                if len(samples) < 4 and switches >= 2:
                    samples.append({"scenario": name, "schedule": r.choices, "impl": r.canon()})

        # 1. the fixed witness schedules
        for (name, progs, s_un, s_rep) in WITNESSES:
            sched = s_un if variant == "unrepaired" else s_rep
            recs, unknown, _ = run_l3(paths, ["-progs", progs, "-run", ",".join(map(str, sched))])
            judge("witness-" + name, progs, recs, "visible")
            dist["witness"] = dist.get("witness", 0) + 1
        # 2. every schedule within the preemption bound
        scen = SCENARIOS + (THOROUGH_EXTRA if tier == "thorough" else [])
        for (name, progs, setup, what) in scen:
            args = ["-progs", progs, "-explore", "-bound", str(bound), "-max", "200000" if tier == "thorough" else "20000"]
            if setup:
                args += ["-setup", ",".join(map(str, setup))]
            recs, unknown, trunc = run_l3(paths, args, timeout=3000)
            judge(name, progs, recs, "visible")
            cov["scenarios"].append({"name": name, "progs": progs, "race": what, "bound": bound, "points": "visible",
                                     "executions": len(recs), "truncated": trunc})
            dist[name] = len(recs)
            if verbose:
                print("  %-36s %6d executions (%.1fs)" % (name, len(recs), time.time() - t0)); sys.stdout.flush()
        # 3. thorough: also with every acquisition (snapshots, broadcasts, frame registration, nested) as a scheduling point
        if tier == "thorough":
            for (name, progs, setup, what) in SCENARIOS[:5]:
                args = ["-progs", progs, "-explore", "-bound", "2", "-points", "all", "-max", "60000"]
                if setup:
                    args += ["-setup", ",".join(map(str, setup))]
                recs, unknown, trunc = run_l3(paths, args, timeout=3000)
                judge(name + "-allpoints", progs, recs, "all")
                cov["scenarios"].append({"name": name + "-allpoints", "progs": progs, "race": what, "bound": 2, "points": "all",
                                         "executions": len(recs), "truncated": trunc})
                dist[name + "-allpoints"] = len(recs)
                if verbose:
                    print("  %-36s %6d executions (%.1fs)" % (name + "-allpoints", len(recs), time.time() - t0)); sys.stdout.flush()
        if (nmis or variant is None) and not any(v["kind"] == "property" for v in viol):
            if first_mismatch:
                name, progs, r, m, points = first_mismatch
                what = "implementation and coq/Conc.v (%s programs) disagree on %d of %d executions; first: scenario %s" % (
                    "repaired" if fixed else "unrepaired", nmis, nexec, name)
                rp = C.write_replay(PID, "replay-conc-tie.json", replay_obj(name, progs, r, points, [], unchecked="L3 correspondence with Conc.v sched_run"))
                open(rp + ".txt", "w").write(describe(progs, r, [], m) + "\n")
            else:
                what = cov["tie_broken"][0]
                rp = C.write_replay(PID, "replay-conc-tie.json", replay_obj("probe", "C,L|J1", None, "visible", [], unchecked="micro-programs of Conc.v"))
            cov["tie_broken"].append(what)
            viol.append({"kind": "tie", "replay": rp, "no_input": True, "what": what})
    cov.update({"traces_validated_against_impl": nexec, "evaluations": nexec, "model_mismatches": nmis,
                "executions_violating_registry_ok": nfail, "distinct_nontrivial": ninter, "distinct_schedules": len(distinct),
                "rule": "one case = one complete schedule of a scenario, executed on the instrumented real handlers; non-trivial = "
                        "the threads' critical sections interleave (more context switches than threads); distinct by (programs, thread sequence)",
                "samples": samples, "distribution": dist, "preemption_bound": bound, "wall_phase_s": round(time.time() - t0, 1)})
    return viol, cov


THEOREM_NOTE = ("concurrent clause: C07_conc, C07_conc_member_always, C07_conc_gauge_always, C10_conc_participant_ids_distinct (repaired "
                "micro-programs, every schedule, any number of threads and requests) / C07_conc_refuted_orphan_join, "
                "C07_conc_refuted_double_remove, C07_conc_refuted_reissue (micro-programs before the repair)")


def run(tier="quick", replay=None, merge=True):
    """the concurrent clause.  With merge=True (the C07 check) the coverage is merged into evidence/C07.json, which
    the sequential part (l1check) has just written; otherwise a stand-alone evidence file C07conc.json is written."""
    t0 = time.time()
    if replay:
        return do_replay(replay)
    with C.Lock("build"):
        bad = C.grep_forbidden("Properties/C07conc.v")
        if bad:
            print("INTERNAL: forbidden vernacular in the Coq development:\n" + "\n".join(bad)); return 2
        C.run_translator()
        coq_ok, coq_log = C.coq_make(["Properties/C07conc.vo"])
        info = C.property_file_info("C07conc")
    try:
        viol, cov = phase(tier, verbose=bool(os.environ.get("VERIF_VERBOSE")))
    except RuntimeError as e:
        print("INTERNAL: " + str(e)); return 2
    if not info["ok"]:
        # the Coq side does not depend on the repository: this is a defect of the development itself
        print("INTERNAL: Properties/C07conc.v does not check:\n" + info["log"][-2000:]); return 2
    for line in cov["known_lines"]:
        print(line if line.startswith("KNOWN-FINDING") else "KNOWN-FINDING: property=%s %s" % (PID, line))
    rc = 0
    for v in viol:
        if v["kind"] == "property":
            C.violation(PID, v["replay"]); rc = 1
            break
    else:
        for v in viol:
            C.violation(PID, v["replay"], no_input=True); rc = 1
            break
    tb = [
        "Print Assumptions of Properties/C07conc.v: %s" % ("closed under the global context (%d)" % info.get("closed", 0) if not info.get("axioms") else info["axioms"]),
        "tools/instrument (go/ast rewrite of x.Lock()/x.RLock() statements into scheduler yields) and verifsched (cooperative scheduler): scheduling points are exactly the lock acquisitions of models, websocket, modules/*; code between two acquisitions is taken as atomic",
        "harness/l3 classification of a critical section by its call chain (which models method) and oracle/conc/driver.ml",
        "modelled, not verified: SessionStore.Remove as one instruction placed at its inner acquisition (ids.Reuse under store.mutex); the Go memory model; fairness (a schedule is finite and complete)",
    ]
    assumptions = ["concurrent clause: session-id and participant-id counters stay below 2^32 (schedule length < 2^32 in the theorems)",
                   "concurrent clause: the exploration is bounded (preemption bound %d); the theorems, not the exploration, cover all schedules" % cov.get("preemption_bound", 0),
                   THEOREM_NOTE]
    if not merge:
        coverage = dict(cov, obligations=len(info["theorems"]), discharged=len(info["theorems"]) if info["ok"] else 0,
                        theorems=info["theorems"], examples=info.get("examples", []),
                        checker_cmd="bin/check C07 (checks/c07conc.py: tools/instrument + harness/l3 + oracle/conc; coqc Properties/C07conc.v)",
                        trusted_base=C.TRUSTED_BASE + tb)
        C.write_evidence("C07conc", tier, coverage, assumptions, time.time() - t0, [dict(v) for v in viol], level="proof")
        return rc
    edir = os.path.join(C.VERIF, "evidence") if not C.RTAG else os.path.join(C.WORK, "evidence" + C.RTAG)
    ep = os.path.join(edir, "C07.json")
    try:
        ev = json.load(open(ep))
    except Exception as e:
        print("INTERNAL: the sequential part of C07 left no evidence file: %s" % e); return 2
    c = ev["coverage"]
    nt = len(info["theorems"])
    c["obligations"] = c.get("obligations", 0) + nt
    c["discharged"] = c.get("discharged", 0) + (nt if info["ok"] else 0)
    c["theorems"] = c.get("theorems", []) + info["theorems"]
    c["examples"] = c.get("examples", []) + info.get("examples", [])
    c["trusted_base"] = c.get("trusted_base", []) + tb
    c["checker_cmd"] = c.get("checker_cmd", "") + " && coqc -Q coq hagall coq/Properties/C07conc.v"
    c["traces_validated_against_impl"] = c.get("traces_validated_against_impl", 0) + cov.get("traces_validated_against_impl", 0)
    c["evaluations"] = c.get("evaluations", 0) + cov.get("evaluations", 0)
    c["concurrent_clause"] = {k: v for k, v in cov.items() if k not in ("known_lines",)}
    c["concurrent_clause"]["violations"] = [dict(v) for v in viol]
    if cov.get("tie_broken"):
        c["tie_broken"] = c.get("tie_broken", []) + ["concurrent clause: " + x for x in cov["tie_broken"]]
    ev["assumptions"] = ev.get("assumptions", []) + assumptions
    ev["violations"] = int(ev.get("violations", 0)) + (1 if rc else 0)
    ev["wall_s"] = round(float(ev.get("wall_s", 0)) + time.time() - t0, 2)
    tmp = ep + ".tmp"
    json.dump(ev, open(tmp, "w"), indent=1)
    os.replace(tmp, ep)
    return rc


def do_replay(path):
    try:
        o = json.load(open(path))
    except Exception as e:
        print("INTERNAL: cannot read replay file: %s" % e); return 2
    with C.Lock("build"):
        ok, what, paths = build()
    if not ok:
        if what.startswith("INTERNAL"):
            print(what); return 2
        print("the instrumented sources do not build:\n" + what)
        C.violation(PID, path, no_input=True); return 1
    if not o.get("progs"):
        print("this replay file names a broken tie (%s), not a schedule" % o.get("unchecked"));
        viol, cov = phase("quick")
        for v in viol:
            C.violation(PID, v["replay"], no_input=v["no_input"]); return 1
        return 0
    with C.Lock("run-C07conc"):
        variant, _ = detect_variant(paths)
        recs, unknown, _ = run_l3(paths, ["-progs", o["progs"], "-points", o.get("points", "visible"), "-run", ",".join(map(str, o["schedule"]))])
        r = recs[0]
        m = oracle(paths, variant != "unrepaired", o["progs"], [r])[0]
    failed = registry_ok(r)
    print(describe(o["progs"], r, failed, m))
    print("code variant: %s" % (variant or "unknown"))
    if failed:
        C.violation(PID, path); return 1
    if o.get("unchecked") and not (m.mismatch < 0 and r.canon() == m.canon()):
        C.violation(PID, path, no_input=True); return 1
    print("registry_ok holds on this schedule")
    return 0


if __name__ == "__main__":
    tier = "quick"
    rp = None
    a = sys.argv[1:]
    i = 0
    while i < len(a):
        if a[i] == "--tier":
            tier = a[i + 1]; i += 2
        elif a[i] == "--replay":
            rp = a[i + 1]; i += 2
        else:
            i += 1
    sys.exit(run(tier, rp))

(* proofs/ConcInv.v — the concurrent clause of C07 for the repaired micro-programs ([fixed = true], the code after
   the commit "fix: end a session in the critical section that removes its last participant ..."):
   an invariant of the interleaving semantics of coq/Conc.v that accounts for the handlers in flight, preserved
   by every critical section of every thread, for ANY number of threads, requests and sessions and EVERY schedule. *)
From hagall Require Import Model Conc.
From hagall.proofs Require Import BaseLemmas Inv.
From Coq Require Import Lia.

(* ---------- vocabulary ---------- *)
Definition thr_at (st : cstate) (P : pc → Prop) : Prop :=
  ∃ tid T, k_thr st !! tid = Some T ∧ P (t_pc T).
Definition is_padd (inc : N) (p : pc) : Prop := p = PAdd inc.
Definition is_pending (inc : N) (p : pc) : Prop := p = PNewPID inc ∨ ∃ q, p = PAddP inc q.
Definition is_premove (inc : N) (p : pc) : Prop := ∃ k, p = PRemove inc k.
Definition not_premove (p : pc) : Prop := ∀ i k, p ≠ PRemove i k.

(* the incarnation still owns its numeric id: it is not ended, or it is still filed in the registry *)
Definition holds (st : cstate) (inc : N) (R : srec) : Prop :=
  r_dead R = false ∨ k_reg st !! r_id R = Some inc.

(* a thread's claim on participant id [p] of incarnation [inc]: allocated and about to be added, or a member *)
Definition claims (T : thread) (inc p : N) : Prop :=
  t_pc T = PAddP inc p ∨ ((∃ sid, t_cur T = Some (sid, inc, p)) ∧ not_premove (t_pc T)).

Definition thr_ok (st : cstate) (tid : N) (T : thread) : Prop :=
  match t_pc T with
  | PAdd inc => ∃ R, k_heap st !! inc = Some R ∧ r_dead R = false ∧ k_reg st !! r_id R ≠ Some inc ∧
                     ∀ t' T', t' ≠ tid → k_thr st !! t' = Some T' → t_pc T' ≠ PAdd inc
  | PNewPID inc => ∃ R, k_heap st !! inc = Some R ∧ (r_dead R = false → k_reg st !! r_id R = Some inc)
  | PAddP inc p => ∃ R, k_heap st !! inc = Some R ∧ (r_dead R = false → k_reg st !! r_id R = Some inc)
  | PRemove inc k => ∃ R, k_heap st !! inc = Some R ∧ r_dead R = true ∧ k_reg st !! r_id R = Some inc ∧
                     ∀ t' T', t' ≠ tid → k_thr st !! t' = Some T' → ¬ is_premove inc (t_pc T')
  | PCount _ _ => False          (* ParticipantCount is gone from the repaired leaveSession *)
  | _ => True
  end.

Record cinv (n : N) (st : cstate) : Prop := {
  ci_inc : ∀ inc R, k_heap st !! inc = Some R → inc ≤ k_inc st;
  ci_pgen : ∀ inc R, k_heap st !! inc = Some R → r_pgen R ≤ n;
  ci_dead : ∀ inc R, k_heap st !! inc = Some R → r_dead R = true →
      r_parts R = ∅ ∧ (k_reg st !! r_id R = Some inc → thr_at st (is_premove inc));
  ci_alive : ∀ inc R, k_heap st !! inc = Some R → r_dead R = false →
      (k_reg st !! r_id R = Some inc ∧ (r_parts R = ∅ → thr_at st (is_pending inc))) ∨
      (r_parts R = ∅ ∧ thr_at st (is_padd inc));
  ci_held : ∀ inc R, k_heap st !! inc = Some R → holds st inc R →
      r_id R ∉ g_reuse (k_ids st) ∧ r_id R ≤ g_cur (k_ids st);
  ci_uniq : ∀ i1 R1 i2 R2, k_heap st !! i1 = Some R1 → k_heap st !! i2 = Some R2 →
      holds st i1 R1 → holds st i2 R2 → r_id R1 = r_id R2 → i1 = i2;
  ci_gcur : g_cur (k_ids st) ≤ n;
  ci_reuse : ∀ x, x ∈ g_reuse (k_ids st) → x ≤ g_cur (k_ids st);
  ci_reg : ∀ id inc, k_reg st !! id = Some inc → ∃ R, k_heap st !! inc = Some R ∧ r_id R = id;
  ci_gauge : k_gauge st = Z.of_nat (size (k_reg st));
  ci_thr : ∀ tid T, k_thr st !! tid = Some T → thr_ok st tid T;
  ci_member : ∀ tid T sid inc p, k_thr st !! tid = Some T → t_cur T = Some (sid, inc, p) → not_premove (t_pc T) →
      ∃ R, k_heap st !! inc = Some R ∧ r_id R = sid ∧ k_reg st !! sid = Some inc ∧ r_dead R = false ∧ p ∈ r_parts R;
  ci_claim_bound : ∀ tid T inc p, k_thr st !! tid = Some T → claims T inc p →
      ∃ R, k_heap st !! inc = Some R ∧ p ≤ r_pgen R;
  ci_claim_uniq : ∀ t1 t2 T1 T2 inc p, t1 ≠ t2 → k_thr st !! t1 = Some T1 → k_thr st !! t2 = Some T2 →
      claims T1 inc p → claims T2 inc p → False
}.

(* ---------- the invariant gives the property at quiescence ---------- *)
Lemma cinv_registry_ok n st : cinv n st → complete st → registry_ok st.
Proof.
  intros I C.
  assert (Hno : ∀ P : pc → Prop, (∀ p, P p → p ≠ PIdle) → ¬ thr_at st P).
  { intros P HP (tid&T&HT&Hp). specialize (C tid T HT). unfold idle in C. by apply (HP _ Hp). }
  split; [|split; [|split]].
  - intros id inc Hr. unfold reg_entry_ok.
    destruct (ci_reg _ _ I id inc Hr) as (R&HR&Hid). rewrite HR. split; [done|].
    assert (Hh : holds st inc R) by (right; by rewrite Hid).
    destruct (ci_held _ _ I inc R HR Hh) as [Hre _]. rewrite Hid in Hre. split; [|done].
    intros He. destruct (r_dead R) eqn:Hd.
    + destruct (ci_dead _ _ I inc R HR Hd) as [_ Hp]. rewrite Hid in Hp.
      apply (Hno (is_premove inc)); [by intros p [k ->]|by apply Hp].
    + destruct (ci_alive _ _ I inc R HR Hd) as [[_ Hp]|[_ Hp]].
      * apply (Hno (is_pending inc)); [by intros p [->|[q ->]]|by apply Hp].
      * apply (Hno (is_padd inc)); [by intros p ->|done].
  - intros inc R HR Hne. destruct (r_dead R) eqn:Hd.
    + by destruct (ci_dead _ _ I inc R HR Hd) as [He _].
    + by destruct (ci_alive _ _ I inc R HR Hd) as [[Hr _]|[He _]].
  - intros tid T HT. unfold member_ok. destruct (t_cur T) as [[[sid inc] p]|] eqn:Hc; [|done].
    assert (Hnp : not_premove (t_pc T)) by (intros i k; rewrite (C tid T HT); done).
    destruct (ci_member _ _ I tid T sid inc p HT Hc Hnp) as (R&HR&_&Hreg&_&Hp). by rewrite HR.
  - apply (ci_gauge _ _ I).
Qed.

(* ---------- the initial state ---------- *)
Definition neutral (p : pc) : Prop :=
  match p with PIdle | PGet _ | PNewID | PRmP _ => True | _ => False end.

Lemma load_neutral cur ops ans : neutral (load cur ops ans).1.1.
Proof.
  revert ans. induction ops as [|o ops IH]; intros ans; simpl; [done|].
  destruct o as [|sid|]; destruct cur as [[[sid' inc] p]|]; simpl; try done; try apply IH.
  case_decide; [apply IH|done].
Qed.
Lemma next_req_pc T cur ans : neutral (t_pc (next_req T cur ans)).
Proof.
  unfold next_req. pose proof (load_neutral cur (t_ops T) ans) as H.
  destruct (load cur (t_ops T) ans) as [[p ops] ans']. done.
Qed.
Lemma next_req_cur T cur ans : t_cur (next_req T cur ans) = cur.
Proof. unfold next_req. by destruct (load cur (t_ops T) ans) as [[p ops] ans']. Qed.

Lemma init_threads_lookup progs tid T :
  init_threads progs !! tid = Some T → neutral (t_pc T) ∧ t_cur T = None.
Proof.
  unfold init_threads. intros H%elem_of_list_to_map_2.
  apply elem_of_lookup_imap in H as (i&p&Heq&_). injection Heq as -> ->.
  split; [apply next_req_pc|apply next_req_cur].
Qed.

Lemma neutral_thr_ok st tid T : neutral (t_pc T) → thr_ok st tid T.
Proof. unfold thr_ok. by destruct (t_pc T). Qed.
Lemma neutral_not_premove p : neutral p → not_premove p.
Proof. intros H i k ->. done. Qed.

Lemma cinv_init progs : cinv 0 (cinit progs).
Proof.
  split; simpl; try (intros *; rewrite lookup_empty; done); try done; try lia.
  - intros tid T HT. apply neutral_thr_ok. by apply init_threads_lookup in HT as [? _].
  - intros tid T sid inc p HT Hc. apply init_threads_lookup in HT as [_ ?]. congruence.
  - intros tid T inc p HT [Hp|[[sid Hc] _]]; apply init_threads_lookup in HT as [Hn Hcur]; exfalso.
    + rewrite Hp in Hn. done.
    + congruence.
  - intros t1 t2 T1 T2 inc p _ HT1 _ [Hp|[[sid Hc] _]] _; apply init_threads_lookup in HT1 as [Hn Hcur].
    + rewrite Hp in Hn. done.
    + congruence.
Qed.

(* ---------- helpers ---------- *)
Lemma cinv_mono n m st : cinv n st → n ≤ m → cinv m st.
Proof.
  intros I Hle. destruct I. split; try done.
  - intros inc R HR. specialize (ci_pgen0 inc R HR). lia.
  - lia.
Qed.

Lemma thr_at_other st st' tid T T' (P : pc → Prop) :
  k_thr st' = <[tid := T']> (k_thr st) → k_thr st !! tid = Some T → ¬ P (t_pc T) → thr_at st P → thr_at st' P.
Proof.
  intros E HT Hn (t&X&HX&HP). destruct (decide (t = tid)) as [->|Hne]; [congruence|].
  exists t, X. rewrite E, lookup_insert_ne by done. done.
Qed.
Lemma thr_at_self st' tid T' (m : gmap N thread) (P : pc → Prop) :
  k_thr st' = <[tid := T']> m → P (t_pc T') → thr_at st' P.
Proof. intros E HP. exists tid, T'. by rewrite E, lookup_insert. Qed.

Lemma neutral_not_padd inc p : neutral p → ¬ is_padd inc p.
Proof. intros H ->. done. Qed.
Lemma neutral_not_pending inc p : neutral p → ¬ is_pending inc p.
Proof. intros H [->|[q ->]]; done. Qed.
Lemma neutral_not_is_premove inc p : neutral p → ¬ is_premove inc p.
Proof. intros H [k ->]. done. Qed.

Lemma claims_neutral T inc p : neutral (t_pc T) → claims T inc p ↔ ∃ sid, t_cur T = Some (sid, inc, p).
Proof.
  intros Hn. split.
  - intros [Hp|[H _]]; [rewrite Hp in Hn; done|done].
  - intros H. right. split; [done|by apply neutral_not_premove].
Qed.

(* a thread at a neutral pc moves to a neutral pc or starts a join of an incarnation it found in the registry;
   nothing else changes *)
Lemma cinv_set_thr_simple n st tid T T' :
  cinv n st → k_thr st !! tid = Some T → neutral (t_pc T) → t_cur T' = t_cur T →
  (neutral (t_pc T') ∨ ∃ inc R, t_pc T' = PNewPID inc ∧ k_heap st !! inc = Some R ∧ k_reg st !! r_id R = Some inc) →
  cinv n (set_thr tid T' st).
Proof.
  intros I HT Hn Hcur Hnew.
  assert (E : k_thr (set_thr tid T' st) = <[tid := T']> (k_thr st)) by done.
  assert (Hnp' : not_premove (t_pc T')).
  { destruct Hnew as [H|(inc&R&->&_)]; [by apply neutral_not_premove|by intros i k]. }
  assert (Hcl : ∀ inc p, claims T' inc p ↔ claims T inc p).
  { intros inc p. rewrite (claims_neutral T) by done. unfold claims. rewrite Hcur. split.
    - intros [Hp|[H _]]; [|done]. destruct Hnew as [H|(i&R&H&_)]; rewrite Hp in H; done.
    - intros H. by right. }
  destruct I. split; simpl; try done.
  - intros inc R HR Hd. destruct (ci_dead0 inc R HR Hd) as [He Hp]. split; [done|].
    intros Hr. eapply thr_at_other; [done|done|by apply neutral_not_is_premove|by apply Hp].
  - intros inc R HR Hd. destruct (ci_alive0 inc R HR Hd) as [[Hr Hp]|[He Hp]]; [left|right]; (split; [done|]).
    + intros He. eapply thr_at_other; [done|done|by apply neutral_not_pending|by apply Hp].
    + eapply thr_at_other; [done|done|by apply neutral_not_padd|done].
  - intros t X HX. apply lookup_insert_Some in HX as [[<- <-]|[Hne HX]].
    + destruct Hnew as [H|(inc&R&Hp&HR&Hreg)]; [by apply neutral_thr_ok|].
      unfold thr_ok. rewrite Hp. simpl. eauto.
    + specialize (ci_thr0 t X HX). unfold thr_ok in *. destruct (t_pc X) eqn:EX; try done; simpl.
      * destruct ci_thr0 as (R&H1&H2&H3&H4). exists R. repeat split; try done.
        intros t' X' Hne' HX'. apply lookup_insert_Some in HX' as [[<- <-]|[_ HX']]; [|by eapply H4].
        destruct Hnew as [H|(i&R'&->&_)]; [|done]. intros Hp. rewrite Hp in H. done.
      * destruct ci_thr0 as (R&H1&H2&H3&H4). exists R. repeat split; try done.
        intros t' X' Hne' HX'. apply lookup_insert_Some in HX' as [[<- <-]|[_ HX']]; [|by eapply H4].
        intros [k0 Hp]. by apply (Hnp' inc k0).
  - intros t X sid inc p HX. apply lookup_insert_Some in HX as [[<- <-]|[Hne HX]].
    + rewrite Hcur. intros Hc _. eapply (ci_member0 tid T); [done|done|by apply neutral_not_premove].
    + by apply (ci_member0 t).
  - intros t X inc p HX. apply lookup_insert_Some in HX as [[<- <-]|[Hne HX]].
    + rewrite Hcl. by apply (ci_claim_bound0 tid).
    + by apply (ci_claim_bound0 t).
  - intros t1 t2 X1 X2 inc p Hne H1 H2.
    apply lookup_insert_Some in H1 as [[<- <-]|[Hne1 H1]]; apply lookup_insert_Some in H2 as [[<- <-]|[Hne2 H2]];
      try done; rewrite ?Hcl.
    + by apply (ci_claim_uniq0 tid t2 T X2 inc p).
    + by apply (ci_claim_uniq0 t1 tid X1 T inc p).
    + by apply (ci_claim_uniq0 t1 t2 X1 X2 inc p).
Qed.

Lemma claims_set_pc T q inc p :
  (∀ i x, q ≠ PAddP i x) → not_premove q → (∀ i x, t_pc T ≠ PAddP i x) → not_premove (t_pc T) →
  claims (set_pc q T) inc p ↔ claims T inc p.
Proof.
  intros H1 H2 H3 H4. unfold claims. simpl. split.
  - intros [Hp|[Hc _]]; [by apply H1 in Hp|by right].
  - intros [Hp|[Hc _]]; [by apply H3 in Hp|by right].
Qed.

(* ---------- PNewID : NewID ; NewSession ---------- *)
Lemma step_newid n st tid T hint :
  cinv n st → n + 1 < two32 → k_thr st !! tid = Some T → t_pc T = PNewID →
  cinv (n + 1) (step true st tid hint).
Proof.
  intros I Hn HT Hpc. unfold step. rewrite HT, Hpc.
  destruct (gen_new hint (k_ids st)) as [id g] eqn:Hg.
  set (inc := k_inc st + 1).
  assert (Hfresh : k_heap st !! inc = None).
  { destruct (k_heap st !! inc) as [R|] eqn:HR; [|done]. pose proof (ci_inc _ _ I inc R HR). lia. }
  assert (Hneutral : neutral (t_pc T)) by (by rewrite Hpc).
  assert (Hcl : ∀ i p, claims (set_pc (PAdd inc) T) i p ↔ claims T i p).
  { intros i p. apply claims_set_pc; try done; rewrite Hpc; done. }
  pose proof (ci_gcur _ _ I) as Hgc.
  assert (Hids : (∀ i R, k_heap st !! i = Some R → holds st i R → r_id R ≠ id ∧ r_id R ∉ g_reuse g ∧ r_id R ≤ g_cur g) ∧
                 id ∉ g_reuse g ∧ id ≤ g_cur g ∧ g_cur g ≤ n + 1 ∧ (∀ x, x ∈ g_reuse g → x ≤ g_cur g)).
  { apply gen_new_spec in Hg as [(He&->&Hc&Hr)|(Hin&Hc&Hr)].
    - rewrite u32_succ_small in * by lia. rewrite Hc, Hr. repeat split; try set_solver; try lia.
      + destruct (ci_held _ _ I i R H H0). lia.
      + destruct (ci_held _ _ I i R H H0). lia.
    - rewrite Hc, Hr. repeat split; try lia.
      + destruct (ci_held _ _ I i R H H0). set_solver.
      + destruct (ci_held _ _ I i R H H0). set_solver.
      + by destruct (ci_held _ _ I i R H H0).
      + set_solver.
      + by apply (ci_reuse _ _ I).
      + intros x Hx. apply (ci_reuse _ _ I). set_solver. }
  destruct Hids as (Hold&Hid1&Hid2&Hgn&Hre).
  assert (Hholds : ∀ i R, i ≠ inc → holds {| k_heap := <[inc:=srec0 id]> (k_heap st); k_reg := k_reg st; k_ids := g;
              k_gauge := k_gauge st; k_inc := inc; k_thr := <[tid:=set_pc (PAdd inc) T]> (k_thr st) |} i R ↔ holds st i R) by done.
  set (st' := {| k_heap := <[inc:=srec0 id]> (k_heap st); k_reg := k_reg st; k_ids := g;
              k_gauge := k_gauge st; k_inc := inc; k_thr := <[tid:=set_pc (PAdd inc) T]> (k_thr st) |}) in *.
  assert (E : k_thr st' = <[tid := set_pc (PAdd inc) T]> (k_thr st)) by done.
  split; simpl.
  - intros i R HR. apply lookup_insert_Some in HR as [[<- <-]|[Hne HR]]; [lia|].
    pose proof (ci_inc _ _ I i R HR). lia.
  - intros i R HR. apply lookup_insert_Some in HR as [[<- <-]|[Hne HR]]; [simpl; lia|].
    pose proof (ci_pgen _ _ I i R HR). lia.
  - intros i R HR Hd. apply lookup_insert_Some in HR as [[<- <-]|[Hne HR]]; [done|].
    destruct (ci_dead _ _ I i R HR Hd) as [He Hp]. split; [done|]. intros Hr.
    eapply thr_at_other; [done|done|by apply neutral_not_is_premove|by apply Hp].
  - intros i R HR Hd. apply lookup_insert_Some in HR as [[<- <-]|[Hne HR]].
    + right. split; [done|]. eapply thr_at_self; [done|]. done.
    + destruct (ci_alive _ _ I i R HR Hd) as [[Hr Hp]|[He Hp]]; [left|right]; (split; [done|]).
      * intros He. eapply thr_at_other; [done|done|by apply neutral_not_pending|by apply Hp].
      * eapply thr_at_other; [done|done|by apply neutral_not_padd|done].
  - intros i R HR Hh. apply lookup_insert_Some in HR as [[<- <-]|[Hne HR]]; [done|].
    apply Hholds in Hh; [|done]. by destruct (Hold i R HR Hh) as (_&?&?).
  - intros i1 R1 i2 R2 H1 H2 Hh1 Hh2 Hid.
    apply lookup_insert_Some in H1 as [[<- <-]|[Hne1 H1]]; apply lookup_insert_Some in H2 as [[<- <-]|[Hne2 H2]]; try done.
    + apply Hholds in Hh2; [|done]. destruct (Hold i2 R2 H2 Hh2) as (Hx&_). simpl in Hid. congruence.
    + apply Hholds in Hh1; [|done]. destruct (Hold i1 R1 H1 Hh1) as (Hx&_). simpl in Hid. congruence.
    + apply Hholds in Hh1; [|done]. apply Hholds in Hh2; [|done]. by apply (ci_uniq _ _ I i1 R1 i2 R2).
  - done.
  - done.
  - intros x i Hr. destruct (ci_reg _ _ I x i Hr) as (R&HR&Hx). exists R. split; [|done].
    rewrite lookup_insert_ne; [done|]. intros <-. congruence.
  - apply (ci_gauge _ _ I).
  - intros t X HX. apply lookup_insert_Some in HX as [[<- <-]|[Hne HX]].
    + unfold thr_ok. simpl. exists (srec0 id). rewrite lookup_insert. repeat split; try done.
      * simpl. intros Hr. destruct (ci_reg _ _ I id inc Hr) as (R&HR&_). congruence.
      * intros t' X' Hne' HX'. rewrite lookup_insert_ne in HX' by done. intros Hp.
        pose proof (ci_thr _ _ I t' X' HX') as Hok. unfold thr_ok in Hok. rewrite Hp in Hok.
        destruct Hok as (R&HR&_). congruence.
    + pose proof (ci_thr _ _ I t X HX) as Hok. unfold thr_ok in *. destruct (t_pc X) eqn:EX; try done; simpl.
      * destruct Hok as (R&H1&H2&H3&H4). exists R. rewrite lookup_insert_ne by (intros <-; congruence).
        repeat split; try done.
        intros t' X' Hne' HX'. apply lookup_insert_Some in HX' as [[<- <-]|[_ HX']]; [|by eapply H4].
        simpl. intros [= <-]. congruence.
      * destruct Hok as (R&H1&H2). exists R. rewrite lookup_insert_ne by (intros <-; congruence). done.
      * destruct Hok as (R&H1&H2). exists R. rewrite lookup_insert_ne by (intros <-; congruence). done.
      * destruct Hok as (R&H1&H2&H3&H4). exists R. rewrite lookup_insert_ne by (intros <-; congruence).
        repeat split; try done.
        intros t' X' Hne' HX'. apply lookup_insert_Some in HX' as [[<- <-]|[_ HX']]; [|by eapply H4].
        simpl. by intros [k0 ?].
  - intros t X sid i p HX Hc Hnp.
    assert (∃ R, k_heap st !! i = Some R ∧ r_id R = sid ∧ k_reg st !! sid = Some i ∧ r_dead R = false ∧ p ∈ r_parts R) as (R&HR&?).
    { apply lookup_insert_Some in HX as [[<- <-]|[Hne HX]].
      - apply (ci_member _ _ I tid T); [done|done|by apply neutral_not_premove].
      - by apply (ci_member _ _ I t X). }
    exists R. rewrite lookup_insert_ne by (intros <-; congruence). done.
  - intros t X i p HX Hcl'.
    assert (∃ R, k_heap st !! i = Some R ∧ p ≤ r_pgen R) as (R&HR&?).
    { apply lookup_insert_Some in HX as [[<- <-]|[Hne HX]].
      - apply Hcl in Hcl'. by apply (ci_claim_bound _ _ I tid T).
      - by apply (ci_claim_bound _ _ I t X). }
    exists R. rewrite lookup_insert_ne by (intros <-; congruence). done.
  - intros t1 t2 X1 X2 i p Hne H1 H2.
    apply lookup_insert_Some in H1 as [[<- <-]|[Hne1 H1]]; apply lookup_insert_Some in H2 as [[<- <-]|[Hne2 H2]];
      try done; rewrite ?Hcl.
    + by apply (ci_claim_uniq _ _ I tid t2 T X2 i p).
    + by apply (ci_claim_uniq _ _ I t1 tid X1 T i p).
    + by apply (ci_claim_uniq _ _ I t1 t2 X1 X2 i p).
Qed.

(* ---------- PAdd : SessionStore.Add ---------- *)
Lemma step_add n st tid T inc :
  cinv n st → k_thr st !! tid = Some T → t_pc T = PAdd inc →
  cinv n (step true st tid 0).
Proof.
  intros I HT Hpc. unfold step. rewrite HT, Hpc.
  pose proof (ci_thr _ _ I tid T HT) as Hok. unfold thr_ok in Hok. rewrite Hpc in Hok.
  destruct Hok as (R&HR&Hd&Hnr&Hun).
  assert (Hrid : rid_of (k_heap st) inc = r_id R) by (unfold rid_of; by rewrite HR).
  rewrite Hrid.
  assert (Hnone : k_reg st !! r_id R = None).
  { destruct (k_reg st !! r_id R) as [i|] eqn:Hr; [|done]. exfalso.
    destruct (ci_reg _ _ I _ _ Hr) as (R'&HR'&Hid').
    assert (i = inc); [|congruence].
    apply (ci_uniq _ _ I i R' inc R); try done; [right; by rewrite Hid'|by left]. }
  assert (Hcl : ∀ i p, claims (set_pc (PNewPID inc) T) i p ↔ claims T i p).
  { intros i p. apply claims_set_pc; try done; rewrite Hpc; done. }
  set (st' := {| k_heap := k_heap st; k_reg := <[r_id R:=inc]> (k_reg st); k_ids := k_ids st;
                 k_gauge := (k_gauge st + 1)%Z; k_inc := k_inc st; k_thr := <[tid:=set_pc (PNewPID inc) T]> (k_thr st) |}).
  assert (E : k_thr st' = <[tid := set_pc (PNewPID inc) T]> (k_thr st)) by done.
  assert (Hreg : ∀ x i, i ≠ inc → k_reg st' !! x = Some i ↔ k_reg st !! x = Some i).
  { intros x i Hne. simpl. rewrite lookup_insert_Some. split.
    - intros [[_ Hx]|[_ Hx]]; [congruence|done].
    - intros Hx. right. split; [congruence|done]. }
  assert (Hholds : ∀ i R', holds st' i R' → holds st i R' ∨ i = inc).
  { intros i R' [Hx|Hx]; [left; by left|]. destruct (decide (i = inc)) as [->|Hne]; [by right|].
    left. right. by apply Hreg in Hx. }
  assert (Hholds2 : ∀ i R', k_heap st !! i = Some R' → holds st' i R' → holds st i R').
  { intros i R' HR' Hh. destruct (Hholds i R' Hh) as [Hh'| ->]; [done|]. left. congruence. }
  assert (Hnp : ∀ i, ¬ is_premove i (t_pc T)) by (intros i [k Hk]; congruence).
  split; simpl.
  - apply (ci_inc _ _ I).
  - apply (ci_pgen _ _ I).
  - intros i R' HR' Hd'. destruct (ci_dead _ _ I i R' HR' Hd') as [He Hp]. split; [done|]. intros Hr.
    assert (i ≠ inc) by (intros ->; congruence). apply (Hreg _ _ H) in Hr.
    eapply thr_at_other; [done|done|apply Hnp|by apply Hp].
  - intros i R' HR' Hd'. destruct (decide (i = inc)) as [->|Hne].
    + left. assert (R' = R) as -> by congruence. split; [by rewrite lookup_insert|].
      intros _. eapply thr_at_self; [done|]. by left.
    + destruct (ci_alive _ _ I i R' HR' Hd') as [[Hr Hp]|[He Hp]]; [left|right]; (split; [try done|]).
      * by apply Hreg.
      * intros He. eapply thr_at_other; [done|done| |by apply Hp]. rewrite Hpc. by intros [?|[q ?]].
      * eapply thr_at_other; [done|done| |done]. rewrite Hpc. intros [= ->]. done.
  - intros i R' HR' Hh. apply (ci_held _ _ I i R' HR'). by apply Hholds2.
  - intros i1 R1 i2 R2 H1 H2 Hh1 Hh2 Hid. apply (ci_uniq _ _ I i1 R1 i2 R2); try done; by apply Hholds2.
  - apply (ci_gcur _ _ I).
  - apply (ci_reuse _ _ I).
  - intros x i Hr. apply lookup_insert_Some in Hr as [[<- <-]|[_ Hr]]; [by exists R|]. by apply (ci_reg _ _ I).
  - rewrite map_size_insert_None by done. rewrite (ci_gauge _ _ I). lia.
  - intros t X HX. apply lookup_insert_Some in HX as [[<- <-]|[Hne HX]].
    + unfold thr_ok. simpl. exists R. split; [done|]. intros _. by rewrite lookup_insert.
    + pose proof (ci_thr _ _ I t X HX) as Hok. unfold thr_ok in *. destruct (t_pc X) eqn:EX; try done; simpl.
      * destruct Hok as (R'&H1&H2&H3&H4). exists R'. repeat split; try done.
        -- assert (inc0 ≠ inc) by (intros ->; by apply (Hun t X)). intros Hx. apply H3. by apply (Hreg _ _ H).
        -- intros t' X' Hne' HX'. apply lookup_insert_Some in HX' as [[<- <-]|[_ HX']]; [done|by eapply H4].
      * destruct Hok as (R'&H1&H2). exists R'. split; [done|]. intros Hd'. specialize (H2 Hd').
        destruct (decide (inc0 = inc)) as [->|Hne']; [congruence|]. by apply Hreg.
      * destruct Hok as (R'&H1&H2). exists R'. split; [done|]. intros Hd'. specialize (H2 Hd').
        destruct (decide (inc0 = inc)) as [->|Hne']; [congruence|]. by apply Hreg.
      * destruct Hok as (R'&H1&H2&H3&H4). exists R'. repeat split; try done.
        -- destruct (decide (inc0 = inc)) as [->|Hne']; [congruence|]. by apply Hreg.
        -- intros t' X' Hne' HX'. apply lookup_insert_Some in HX' as [[<- <-]|[_ HX']]; [|by eapply H4].
           simpl. by intros [k0 ?].
  - intros t X sid i p HX Hc Hnp'.
    assert (∃ R, k_heap st !! i = Some R ∧ r_id R = sid ∧ k_reg st !! sid = Some i ∧ r_dead R = false ∧ p ∈ r_parts R) as (R'&HR'&?&Hr&?&?).
    { apply lookup_insert_Some in HX as [[<- <-]|[Hne HX]].
      - apply (ci_member _ _ I tid T); [done|done|]. rewrite Hpc. by intros ??.
      - by apply (ci_member _ _ I t X). }
    exists R'. repeat split; try done. destruct (decide (i = inc)) as [->|Hne']; [congruence|]. by apply Hreg.
  - intros t X i p HX Hcl'.
    apply lookup_insert_Some in HX as [[<- <-]|[Hne HX]].
    + apply Hcl in Hcl'. by apply (ci_claim_bound _ _ I tid T).
    + by apply (ci_claim_bound _ _ I t X).
  - intros t1 t2 X1 X2 i p Hne H1 H2.
    apply lookup_insert_Some in H1 as [[<- <-]|[Hne1 H1]]; apply lookup_insert_Some in H2 as [[<- <-]|[Hne2 H2]];
      try done; rewrite ?Hcl.
    + by apply (ci_claim_uniq _ _ I tid t2 T X2 i p).
    + by apply (ci_claim_uniq _ _ I t1 tid X1 T i p).
    + by apply (ci_claim_uniq _ _ I t1 t2 X1 X2 i p).
Qed.

Lemma thr_at_upd st st' tid T T' (P : pc → Prop) :
  k_thr st' = <[tid := T']> (k_thr st) → k_thr st !! tid = Some T → (P (t_pc T) → P (t_pc T')) →
  thr_at st P → thr_at st' P.
Proof.
  intros E HT Himp (t&X&HX&HP). destruct (decide (t = tid)) as [->|Hne].
  - exists tid, T'. rewrite E, lookup_insert. split; [done|]. apply Himp. congruence.
  - exists t, X. rewrite E, lookup_insert_ne by done. done.
Qed.

(* ---------- PNewPID : Session.NewParticipantID ---------- *)
Lemma step_newpid n st tid T inc :
  cinv n st → n + 1 < two32 → k_thr st !! tid = Some T → t_pc T = PNewPID inc →
  cinv (n + 1) (step true st tid 0).
Proof.
  intros I Hn HT Hpc. unfold step. rewrite HT, Hpc.
  pose proof (ci_thr _ _ I tid T HT) as Hok. unfold thr_ok in Hok. rewrite Hpc in Hok.
  destruct Hok as (R&HR&Hreg). rewrite HR.
  pose proof (ci_pgen _ _ I inc R HR) as Hpg.
  rewrite u32_succ_small by lia.
  set (p := r_pgen R + 1).
  set (T' := set_pc (PAddP inc p) T).
  set (st' := set_thr tid T' (set_heap inc (with_pgen p R) st)).
  assert (E : k_thr st' = <[tid := T']> (k_thr st)) by done.
  assert (Hheap : ∀ i X, k_heap st' !! i = Some X → ∃ X0, k_heap st !! i = Some X0 ∧ r_id X = r_id X0 ∧
             r_dead X = r_dead X0 ∧ r_parts X = r_parts X0 ∧ r_pgen X0 ≤ r_pgen X ∧ r_pgen X ≤ n + 1).
  { intros i X HX. simpl in HX. apply lookup_insert_Some in HX as [[<- <-]|[Hne HX]].
    - exists R. simpl. repeat split; try done; lia.
    - exists X. repeat split; try done. pose proof (ci_pgen _ _ I i X HX). lia. }
  assert (Hheap2 : ∀ i X0, k_heap st !! i = Some X0 → ∃ X, k_heap st' !! i = Some X ∧ r_id X = r_id X0 ∧
             r_dead X = r_dead X0 ∧ r_parts X = r_parts X0 ∧ r_pgen X0 ≤ r_pgen X).
  { intros i X0 HX0. simpl. destruct (decide (i = inc)) as [->|Hne].
    - rewrite lookup_insert. exists (with_pgen p R). assert (X0 = R) as -> by congruence. simpl. repeat split; try done. lia.
    - rewrite lookup_insert_ne by done. exists X0. repeat split; try done. }
  assert (Hholds : ∀ i X X0, k_heap st !! i = Some X0 → r_id X = r_id X0 → r_dead X = r_dead X0 → holds st' i X → holds st i X0).
  { intros i X X0 _ Hi Hd. unfold holds. simpl. rewrite Hi, Hd. done. }
  assert (Hmem : ∀ sid q, t_cur T' = Some (sid, inc, q) → not_premove (t_pc T') → q ≤ r_pgen R).
  { intros sid q Hc _. simpl in Hc.
    destruct (ci_claim_bound _ _ I tid T inc q HT) as (R0&HR0&Hle).
    - right. split; [by exists sid|]. rewrite Hpc. by intros ??.
    - congruence. }
  split.
  - intros i X HX. destruct (Hheap i X HX) as (X0&HX0&_). apply (ci_inc _ _ I i X0 HX0).
  - intros i X HX. by destruct (Hheap i X HX) as (X0&HX0&_&_&_&_&?).
  - intros i X HX Hd. destruct (Hheap i X HX) as (X0&HX0&Hi&Hdd&Hpp&_). rewrite Hdd in Hd.
    destruct (ci_dead _ _ I i X0 HX0 Hd) as [He Hp]. split; [congruence|]. rewrite Hi. intros Hr.
    eapply thr_at_upd; [done|done| |by apply Hp]. rewrite Hpc. by intros [k ?].
  - intros i X HX Hd. destruct (Hheap i X HX) as (X0&HX0&Hi&Hdd&Hpp&_). rewrite Hdd in Hd. rewrite Hi, Hpp.
    destruct (ci_alive _ _ I i X0 HX0 Hd) as [[Hr Hp]|[He Hp]]; [left|right]; (split; [done|]).
    + intros He. eapply thr_at_upd; [done|done| |by apply Hp]. rewrite Hpc. intros [[= ->]|[q [=]]]. right. by exists p.
    + eapply thr_at_upd; [done|done| |done]. rewrite Hpc. by intros [=].
  - intros i X HX Hh. destruct (Hheap i X HX) as (X0&HX0&Hi&Hdd&_). rewrite Hi.
    apply (ci_held _ _ I i X0 HX0). by eapply Hholds.
  - intros i1 X1 i2 X2 H1 H2 Hh1 Hh2 Hid.
    destruct (Hheap i1 X1 H1) as (Y1&HY1&Hi1&Hd1&_). destruct (Hheap i2 X2 H2) as (Y2&HY2&Hi2&Hd2&_).
    apply (ci_uniq _ _ I i1 Y1 i2 Y2); try done; [by eapply Hholds|by eapply Hholds|congruence].
  - pose proof (ci_gcur _ _ I). simpl. lia.
  - apply (ci_reuse _ _ I).
  - intros x i Hr. destruct (ci_reg _ _ I x i Hr) as (X0&HX0&Hx).
    destruct (Hheap2 i X0 HX0) as (X&HX&Hi&_). exists X. split; [done|congruence].
  - apply (ci_gauge _ _ I).
  - intros t X HX. rewrite E in HX. apply lookup_insert_Some in HX as [[<- <-]|[Hne HX]].
    + unfold thr_ok. simpl. rewrite lookup_insert. exists (with_pgen p R). split; [done|]. simpl. done.
    + pose proof (ci_thr _ _ I t X HX) as Hok. unfold thr_ok in *. destruct (t_pc X) eqn:EX; try done.
      * destruct Hok as (R'&H1&H2&H3&H4). destruct (Hheap2 _ _ H1) as (Y&HY&Hi&Hd&_). exists Y.
        rewrite Hi, Hd. repeat split; try done.
        intros t' X' Hne' HX'. rewrite E in HX'. apply lookup_insert_Some in HX' as [[<- <-]|[_ HX']]; [done|by eapply H4].
      * destruct Hok as (R'&H1&H2). destruct (Hheap2 _ _ H1) as (Y&HY&Hi&Hd&_). exists Y. rewrite Hi, Hd. done.
      * destruct Hok as (R'&H1&H2). destruct (Hheap2 _ _ H1) as (Y&HY&Hi&Hd&_). exists Y. rewrite Hi, Hd. done.
      * destruct Hok as (R'&H1&H2&H3&H4). destruct (Hheap2 _ _ H1) as (Y&HY&Hi&Hd&_). exists Y.
        rewrite Hi, Hd. repeat split; try done.
        intros t' X' Hne' HX'. rewrite E in HX'. apply lookup_insert_Some in HX' as [[<- <-]|[_ HX']]; [|by eapply H4].
        simpl. by intros [k0 ?].
  - intros t X sid i q HX Hc Hnp'. rewrite E in HX.
    assert (∃ R, k_heap st !! i = Some R ∧ r_id R = sid ∧ k_reg st !! sid = Some i ∧ r_dead R = false ∧ q ∈ r_parts R) as (R'&HR'&?&Hr&?&?).
    { apply lookup_insert_Some in HX as [[<- <-]|[Hne HX]].
      - apply (ci_member _ _ I tid T); [done|done|]. rewrite Hpc. by intros ??.
      - by apply (ci_member _ _ I t X). }
    destruct (Hheap2 _ _ HR') as (Y&HY&Hi&Hd&Hpp&_). exists Y. rewrite Hi, Hd, Hpp. done.
  - intros t X i q HX Hcl'. rewrite E in HX.
    assert (∃ R0, k_heap st !! i = Some R0 ∧ (q ≤ r_pgen R0 ∨ (i = inc ∧ q = p))) as (R0&HR0&Hq).
    { apply lookup_insert_Some in HX as [[<- <-]|[Hne HX]].
      - destruct Hcl' as [Hp|[[sid Hc] Hnp']].
        + simpl in Hp. injection Hp as <- <-. exists R. split; [done|]. by right.
        + destruct (ci_claim_bound _ _ I tid T i q HT) as (R0&HR0&Hle).
          * right. split; [by exists sid|]. rewrite Hpc. by intros ??.
          * exists R0. split; [done|by left].
      - destruct (ci_claim_bound _ _ I t X i q HX Hcl') as (R0&HR0&Hle). exists R0. split; [done|by left]. }
    destruct (Hheap2 _ _ HR0) as (Y&HY&_&_&_&Hle). exists Y. split; [done|].
    destruct Hq as [Hq|[-> ->]]; [lia|].
    simpl in HY. rewrite lookup_insert in HY. injection HY as <-. simpl. lia.
  - intros t1 t2 X1 X2 i q Hne H1 H2 C1 C2. rewrite E in H1, H2.
    assert (Hnew : ∀ t X, t ≠ tid → k_thr st !! t = Some X → claims X inc p → False).
    { intros t X Hnt HX Hc. destruct (ci_claim_bound _ _ I t X inc p HX Hc) as (R0&HR0&Hle).
      assert (R0 = R) as -> by congruence. unfold p in Hle. lia. }
    assert (Hold : ∀ i q, claims T' i q → (i = inc ∧ q = p) ∨ claims T i q).
    { intros i' q' [Hp|[Hc Hnp']]; [left; simpl in Hp; by injection Hp as <- <-|].
      right. right. split; [done|]. rewrite Hpc. by intros ??. }
    apply lookup_insert_Some in H1 as [[<- <-]|[Hne1 H1]]; apply lookup_insert_Some in H2 as [[<- <-]|[Hne2 H2]]; try done.
    + destruct (Hold _ _ C1) as [[-> ->]|C1']; [by eapply Hnew|by apply (ci_claim_uniq _ _ I tid t2 T X2 i q)].
    + destruct (Hold _ _ C2) as [[-> ->]|C2']; [by eapply Hnew|by apply (ci_claim_uniq _ _ I t1 tid X1 T i q)].
    + by apply (ci_claim_uniq _ _ I t1 t2 X1 X2 i q).
Qed.

(* ---------- PAddP on an ended session : the join is refused ---------- *)
Lemma step_addp_dead n st tid T inc p R :
  cinv n st → k_thr st !! tid = Some T → t_pc T = PAddP inc p → k_heap st !! inc = Some R → r_dead R = true →
  cinv n (step true st tid 0).
Proof.
  intros I HT Hpc HR Hd. unfold step. rewrite HT, Hpc, HR, Hd. simpl.
  set (T' := next_req T (t_cur T) (t_ans T ++ [ANotFound])).
  assert (Hn' : neutral (t_pc T')) by apply next_req_pc.
  assert (Hc' : t_cur T' = t_cur T) by apply next_req_cur.
  set (st' := set_thr tid T' st).
  assert (E : k_thr st' = <[tid := T']> (k_thr st)) by done.
  assert (Hnp : not_premove (t_pc T)) by (rewrite Hpc; by intros ??).
  assert (Hcl : ∀ i q, claims T' i q → claims T i q).
  { intros i q. rewrite (claims_neutral T') by done. rewrite Hc'. intros H. by right. }
  split; simpl.
  - apply (ci_inc _ _ I).
  - apply (ci_pgen _ _ I).
  - intros i X HX Hdd. destruct (ci_dead _ _ I i X HX Hdd) as [He Hp]. split; [done|]. intros Hr.
    eapply thr_at_other; [done|done| |by apply Hp]. rewrite Hpc. by intros [k ?].
  - intros i X HX Hdd. assert (i ≠ inc) by (intros ->; congruence).
    destruct (ci_alive _ _ I i X HX Hdd) as [[Hr Hp]|[He Hp]]; [left|right]; (split; [done|]).
    + intros He. eapply thr_at_other; [done|done| |by apply Hp]. rewrite Hpc. intros [[=]|[q [= ? ?]]]. done.
    + eapply thr_at_other; [done|done| |done]. rewrite Hpc. by intros [=].
  - apply (ci_held _ _ I).
  - apply (ci_uniq _ _ I).
  - apply (ci_gcur _ _ I).
  - apply (ci_reuse _ _ I).
  - apply (ci_reg _ _ I).
  - apply (ci_gauge _ _ I).
  - intros t X HX. apply lookup_insert_Some in HX as [[<- <-]|[Hne HX]]; [by apply neutral_thr_ok|].
    pose proof (ci_thr _ _ I t X HX) as Hok. unfold thr_ok in *. destruct (t_pc X) eqn:EX; try done; simpl.
    + destruct Hok as (R'&H1&H2&H3&H4). exists R'. repeat split; try done.
      intros t' X' Hne' HX'. apply lookup_insert_Some in HX' as [[<- <-]|[_ HX']]; [|by eapply H4].
      intros Hp. rewrite Hp in Hn'. done.
    + destruct Hok as (R'&H1&H2&H3&H4). exists R'. repeat split; try done.
      intros t' X' Hne' HX'. apply lookup_insert_Some in HX' as [[<- <-]|[_ HX']]; [|by eapply H4].
      by apply neutral_not_is_premove.
  - intros t X sid i q HX. apply lookup_insert_Some in HX as [[<- <-]|[Hne HX]].
    + rewrite Hc'. intros Hc _. by apply (ci_member _ _ I tid T).
    + by apply (ci_member _ _ I t X).
  - intros t X i q HX. apply lookup_insert_Some in HX as [[<- <-]|[Hne HX]].
    + intros Hc%Hcl. by apply (ci_claim_bound _ _ I tid T).
    + by apply (ci_claim_bound _ _ I t X).
  - intros t1 t2 X1 X2 i q Hne H1 H2.
    apply lookup_insert_Some in H1 as [[<- <-]|[Hne1 H1]]; apply lookup_insert_Some in H2 as [[<- <-]|[Hne2 H2]]; try done.
    + intros C1%Hcl C2. by apply (ci_claim_uniq _ _ I tid t2 T X2 i q).
    + intros C1 C2%Hcl. by apply (ci_claim_uniq _ _ I t1 tid X1 T i q).
    + by apply (ci_claim_uniq _ _ I t1 t2 X1 X2 i q).
Qed.

(* ---------- PAddP on a live session : AddParticipant, then the answer ---------- *)
Lemma step_addp_live n st tid T inc p R :
  cinv n st → k_thr st !! tid = Some T → t_pc T = PAddP inc p → k_heap st !! inc = Some R → r_dead R = false →
  cinv n (step true st tid 0).
Proof.
  intros I HT Hpc HR Hd. unfold step. rewrite HT, Hpc, HR, Hd. simpl.
  pose proof (ci_thr _ _ I tid T HT) as Hok. unfold thr_ok in Hok. rewrite Hpc in Hok.
  destruct Hok as (R0&HR0&Hreg). assert (R0 = R) as -> by congruence. specialize (Hreg Hd).
  set (R' := with_parts (λ ps, ps ∪ {[p]}) R).
  set (T' := next_req T (Some (r_id R, inc, p)) (t_ans T ++ [AOk (r_id R) inc p])).
  assert (Hn' : neutral (t_pc T')) by apply next_req_pc.
  assert (Hc' : t_cur T' = Some (r_id R, inc, p)) by apply next_req_cur.
  set (st' := set_thr tid T' (set_heap inc R' st)).
  assert (E : k_thr st' = <[tid := T']> (k_thr st)) by done.
  assert (Hcl : ∀ i q, claims T' i q → i = inc ∧ q = p).
  { intros i q. rewrite (claims_neutral T') by done. rewrite Hc'. by intros [sid [= _ <- <-]]. }
  assert (HclT : claims T inc p) by (by left).
  assert (Hheap : ∀ i X, k_heap st' !! i = Some X → ∃ X0, k_heap st !! i = Some X0 ∧ r_id X = r_id X0 ∧
             r_dead X = r_dead X0 ∧ r_pgen X = r_pgen X0 ∧ r_parts X0 ⊆ r_parts X ∧ (i ≠ inc → X = X0)).
  { intros i X HX. simpl in HX. apply lookup_insert_Some in HX as [[<- <-]|[Hne HX]].
    - exists R. simpl. repeat split; try done. set_solver.
    - exists X. repeat split; try done. }
  assert (Hheap2 : ∀ i X0, k_heap st !! i = Some X0 → ∃ X, k_heap st' !! i = Some X ∧ r_id X = r_id X0 ∧
             r_dead X = r_dead X0 ∧ r_pgen X = r_pgen X0 ∧ r_parts X0 ⊆ r_parts X).
  { intros i X0 HX0. simpl. destruct (decide (i = inc)) as [->|Hne].
    - rewrite lookup_insert. exists R'. assert (X0 = R) as -> by congruence. simpl. repeat split; try done. set_solver.
    - rewrite lookup_insert_ne by done. exists X0. repeat split; try done. }
  assert (Hholds : ∀ i X X0, r_id X = r_id X0 → r_dead X = r_dead X0 → holds st' i X → holds st i X0).
  { intros i X X0 Hi Hdd. unfold holds. simpl. rewrite Hi, Hdd. done. }
  split.
  - intros i X HX. destruct (Hheap i X HX) as (X0&HX0&_). apply (ci_inc _ _ I i X0 HX0).
  - intros i X HX. destruct (Hheap i X HX) as (X0&HX0&_&_&Hpg&_). rewrite Hpg. apply (ci_pgen _ _ I i X0 HX0).
  - intros i X HX Hdd. destruct (Hheap i X HX) as (X0&HX0&Hi&Hd0&_&_&Hne). rewrite Hd0 in Hdd.
    assert (i ≠ inc) as Hni by (intros ->; congruence). rewrite (Hne Hni).
    destruct (ci_dead _ _ I i X0 HX0 Hdd) as [He Hp]. split; [done|]. intros Hr.
    eapply thr_at_other; [done|done| |by apply Hp]. rewrite Hpc. by intros [k ?].
  - intros i X HX Hdd. destruct (decide (i = inc)) as [->|Hni].
    + left. simpl in HX. rewrite lookup_insert in HX. injection HX as <-. simpl. split; [done|]. set_solver.
    + destruct (Hheap i X HX) as (X0&HX0&_&_&_&_&Hne). rewrite (Hne Hni) in *.
      destruct (ci_alive _ _ I i X0 HX0 Hdd) as [[Hr Hp]|[He Hp]]; [left|right]; (split; [done|]).
      * intros He. eapply thr_at_other; [done|done| |by apply Hp]. rewrite Hpc. intros [[=]|[q [= ? ?]]]. done.
      * eapply thr_at_other; [done|done| |done]. rewrite Hpc. by intros [=].
  - intros i X HX Hh. destruct (Hheap i X HX) as (X0&HX0&Hi&Hdd&_). rewrite Hi.
    apply (ci_held _ _ I i X0 HX0). by eapply Hholds.
  - intros i1 X1 i2 X2 H1 H2 Hh1 Hh2 Hid.
    destruct (Hheap i1 X1 H1) as (Y1&HY1&Hi1&Hd1&_). destruct (Hheap i2 X2 H2) as (Y2&HY2&Hi2&Hd2&_).
    apply (ci_uniq _ _ I i1 Y1 i2 Y2); try done; [by eapply Hholds|by eapply Hholds|congruence].
  - apply (ci_gcur _ _ I).
  - apply (ci_reuse _ _ I).
  - intros x i Hr. destruct (ci_reg _ _ I x i Hr) as (X0&HX0&Hx).
    destruct (Hheap2 i X0 HX0) as (X&HX&Hi&_). exists X. split; [done|congruence].
  - apply (ci_gauge _ _ I).
  - intros t X HX. rewrite E in HX. apply lookup_insert_Some in HX as [[<- <-]|[Hne HX]]; [by apply neutral_thr_ok|].
    pose proof (ci_thr _ _ I t X HX) as Hok. unfold thr_ok in *. destruct (t_pc X) eqn:EX; try done.
    + destruct Hok as (Y0&H1&H2&H3&H4). destruct (Hheap2 _ _ H1) as (Y&HY&Hi&Hdd&_). exists Y.
      rewrite Hi, Hdd. repeat split; try done.
      intros t' X' Hne' HX'. rewrite E in HX'. apply lookup_insert_Some in HX' as [[<- <-]|[_ HX']]; [|by eapply H4].
      intros Hp. rewrite Hp in Hn'. done.
    + destruct Hok as (Y0&H1&H2). destruct (Hheap2 _ _ H1) as (Y&HY&Hi&Hdd&_). exists Y. rewrite Hi, Hdd. done.
    + destruct Hok as (Y0&H1&H2). destruct (Hheap2 _ _ H1) as (Y&HY&Hi&Hdd&_). exists Y. rewrite Hi, Hdd. done.
    + destruct Hok as (Y0&H1&H2&H3&H4). destruct (Hheap2 _ _ H1) as (Y&HY&Hi&Hdd&_). exists Y.
      rewrite Hi, Hdd. repeat split; try done.
      intros t' X' Hne' HX'. rewrite E in HX'. apply lookup_insert_Some in HX' as [[<- <-]|[_ HX']]; [|by eapply H4].
      by apply neutral_not_is_premove.
  - intros t X sid i q HX Hc Hnp'. rewrite E in HX. apply lookup_insert_Some in HX as [[<- <-]|[Hne HX]].
    + rewrite Hc' in Hc. injection Hc as <- <- <-. exists R'. simpl. rewrite lookup_insert.
      repeat split; try done. set_solver.
    + destruct (ci_member _ _ I t X sid i q HX Hc Hnp') as (Y0&HY0&?&?&?&?).
      destruct (Hheap2 _ _ HY0) as (Y&HY&Hi&Hdd&_&Hsub). exists Y. rewrite Hi, Hdd. repeat split; try done. set_solver.
  - intros t X i q HX Hcl'. rewrite E in HX.
    assert (∃ Y0, k_heap st !! i = Some Y0 ∧ q ≤ r_pgen Y0) as (Y0&HY0&Hle).
    { apply lookup_insert_Some in HX as [[<- <-]|[Hne HX]].
      - destruct (Hcl _ _ Hcl') as [-> ->]. by apply (ci_claim_bound _ _ I tid T).
      - by apply (ci_claim_bound _ _ I t X). }
    destruct (Hheap2 _ _ HY0) as (Y&HY&_&_&Hpg&_). exists Y. split; [done|]. by rewrite Hpg.
  - intros t1 t2 X1 X2 i q Hne H1 H2. rewrite E in H1, H2.
    apply lookup_insert_Some in H1 as [[<- <-]|[Hne1 H1]]; apply lookup_insert_Some in H2 as [[<- <-]|[Hne2 H2]]; try done.
    + intros C1 C2. destruct (Hcl _ _ C1) as [-> ->]. by apply (ci_claim_uniq _ _ I tid t2 T X2 inc p).
    + intros C1 C2. destruct (Hcl _ _ C2) as [-> ->]. by apply (ci_claim_uniq _ _ I t1 tid X1 T inc p).
    + by apply (ci_claim_uniq _ _ I t1 t2 X1 X2 i q).
Qed.

Lemma after_leave_pc T k : neutral (t_pc (after_leave T k)).
Proof. destruct k as [s|]; simpl; [done|apply next_req_pc]. Qed.
Lemma after_leave_cur T k : t_cur (after_leave T k) = None.
Proof. destruct k as [s|]; simpl; [done|apply next_req_cur]. Qed.

(* ---------- PRmP : RemoveParticipant ---------- *)
Lemma step_rmp n st tid T k :
  cinv n st → k_thr st !! tid = Some T → t_pc T = PRmP k →
  cinv n (step true st tid 0).
Proof.
  intros I HT Hpc. unfold step. rewrite HT, Hpc.
  destruct (t_cur T) as [[[sid inc] p]|] eqn:Hcur; [|done].
  assert (Hnp : not_premove (t_pc T)) by (rewrite Hpc; by intros ??).
  destruct (ci_member _ _ I tid T sid inc p HT Hcur Hnp) as (R&HR&Hsid&Hreg&Hd&Hp).
  rewrite HR. simpl. rewrite Hd. simpl. rewrite andb_true_r.
  assert (HclT : claims T inc p) by (right; split; [by exists sid|done]).
  assert (Hothers : ∀ t X s q, tid ≠ t → k_thr st !! t = Some X → t_cur X = Some (s, inc, q) → not_premove (t_pc X) →
                     q ∈ r_parts R ∖ {[p]}).
  { intros t X s q Hne HX Hc Hnp'. destruct (ci_member _ _ I t X s inc q HX Hc Hnp') as (R0&HR0&_&_&_&Hq).
    assert (R0 = R) as -> by congruence. apply elem_of_difference. split; [done|]. intros ->%elem_of_singleton.
    apply (ci_claim_uniq _ _ I t tid X T inc p); try done. right. split; [by exists s|done]. }
  destruct (bool_decide (r_parts R ∖ {[p]} = ∅)) eqn:Hb;
    set (R1 := with_parts (λ ps, ps ∖ {[p]}) R).
  - (* the last participant: the session is ended here *)
    apply bool_decide_eq_true in Hb.
    set (R' := with_dead true R1).
    set (T' := set_pc (PRemove inc k) T).
    set (st' := set_thr tid T' (set_heap inc R' st)).
    assert (E : k_thr st' = <[tid := T']> (k_thr st)) by done.
    assert (Hnocl : ∀ i q, ¬ claims T' i q).
    { intros i q [Hx|[_ Hx]]; [done|]. by apply (Hx inc k). }
    assert (Hheap : ∀ i X, k_heap st' !! i = Some X → ∃ X0, k_heap st !! i = Some X0 ∧ r_id X = r_id X0 ∧
               r_pgen X = r_pgen X0 ∧ (i ≠ inc → X = X0) ∧ (i = inc → X = R' ∧ X0 = R)).
    { intros i X HX. simpl in HX. apply lookup_insert_Some in HX as [[<- <-]|[Hne HX]].
      - exists R. simpl. repeat split; try done.
      - exists X. repeat split; try done. }
    assert (Hheap2 : ∀ i X0, k_heap st !! i = Some X0 → ∃ X, k_heap st' !! i = Some X ∧ r_id X = r_id X0 ∧
               r_pgen X = r_pgen X0 ∧ (i ≠ inc → X = X0) ∧ (i = inc → X = R' ∧ X0 = R)).
    { intros i X0 HX0. simpl. destruct (decide (i = inc)) as [->|Hne].
      - rewrite lookup_insert. exists R'. assert (X0 = R) as -> by congruence. simpl. repeat split; try done.
      - rewrite lookup_insert_ne by done. exists X0. repeat split; try done. }
    assert (Hholds : ∀ i X X0, k_heap st' !! i = Some X → k_heap st !! i = Some X0 → holds st' i X → holds st i X0).
    { intros i X X0 HX HX0 Hh. destruct (decide (i = inc)) as [->|Hne].
      - left. congruence.
      - destruct (Hheap i X HX) as (Y&HY&_&_&He&_). rewrite (He Hne) in *. assert (Y = X0) as <- by congruence. done. }
    split.
    + intros i X HX. destruct (Hheap i X HX) as (X0&HX0&_). apply (ci_inc _ _ I i X0 HX0).
    + intros i X HX. destruct (Hheap i X HX) as (X0&HX0&_&Hpg&_). rewrite Hpg. apply (ci_pgen _ _ I i X0 HX0).
    + intros i X HX Hdd. destruct (decide (i = inc)) as [->|Hni].
      * destruct (Hheap inc X HX) as (X0&HX0&_&_&_&He). destruct (He eq_refl) as [-> ->]. simpl. split; [done|].
        intros _. eapply thr_at_self; [done|]. by exists k.
      * destruct (Hheap i X HX) as (X0&HX0&_&_&He&_). rewrite (He Hni) in *.
        destruct (ci_dead _ _ I i X0 HX0 Hdd) as [Hem Hpr]. split; [done|]. intros Hr.
        eapply thr_at_other; [done|done| |by apply Hpr]. rewrite Hpc. by intros [k0 ?].
    + intros i X HX Hdd. destruct (decide (i = inc)) as [->|Hni].
      * destruct (Hheap inc X HX) as (X0&HX0&_&_&_&He). destruct (He eq_refl) as [-> ->]. done.
      * destruct (Hheap i X HX) as (X0&HX0&_&_&He&_). rewrite (He Hni) in *.
        destruct (ci_alive _ _ I i X0 HX0 Hdd) as [[Hr Hpe]|[Hem Hpe]]; [left|right]; (split; [done|]).
        -- intros Hem. eapply thr_at_other; [done|done| |by apply Hpe]. rewrite Hpc. by intros [[=]|[q [=]]].
        -- eapply thr_at_other; [done|done| |done]. rewrite Hpc. by intros [=].
    + intros i X HX Hh. destruct (Hheap i X HX) as (X0&HX0&Hi&_). rewrite Hi.
      apply (ci_held _ _ I i X0 HX0). by eapply Hholds.
    + intros i1 X1 i2 X2 H1 H2 Hh1 Hh2 Hid.
      destruct (Hheap i1 X1 H1) as (Y1&HY1&Hi1&_). destruct (Hheap i2 X2 H2) as (Y2&HY2&Hi2&_).
      apply (ci_uniq _ _ I i1 Y1 i2 Y2); try done; [by eapply Hholds|by eapply Hholds|congruence].
    + apply (ci_gcur _ _ I).
    + apply (ci_reuse _ _ I).
    + intros x i Hr. destruct (ci_reg _ _ I x i Hr) as (X0&HX0&Hx).
      destruct (Hheap2 i X0 HX0) as (X&HX&Hi&_). exists X. split; [done|congruence].
    + apply (ci_gauge _ _ I).
    + intros t X HX. rewrite E in HX. apply lookup_insert_Some in HX as [[<- <-]|[Hne HX]].
      * unfold thr_ok. simpl. rewrite lookup_insert. exists R'. simpl. repeat split; try done; [by rewrite Hsid|].
        intros t' X' Hne' HX'. rewrite lookup_insert_ne in HX' by done. intros [k0 Hk0].
        pose proof (ci_thr _ _ I t' X' HX') as Hok. unfold thr_ok in Hok. rewrite Hk0 in Hok.
        destruct Hok as (R0&HR0&Hd0&_). congruence.
      * pose proof (ci_thr _ _ I t X HX) as Hok. unfold thr_ok in *. destruct (t_pc X) eqn:EX; try done.
        -- destruct Hok as (Y0&H1&H2&H3&H4).
           assert (inc0 ≠ inc) as Hni. { intros ->. assert (Y0 = R) as -> by congruence. rewrite Hsid in H3. done. }
           destruct (Hheap2 _ _ H1) as (Y&HY&_&_&He&_). rewrite (He Hni) in HY. exists Y0. repeat split; try done.
           intros t' X' Hne' HX'. rewrite E in HX'. apply lookup_insert_Some in HX' as [[<- <-]|[_ HX']]; [done|by eapply H4].
        -- destruct Hok as (Y0&H1&H2). destruct (Hheap2 _ _ H1) as (Y&HY&Hi&_&He&He'). exists Y. split; [done|].
           destruct (decide (inc0 = inc)) as [->|Hni]; [destruct (He' eq_refl) as [-> _]; done|].
           rewrite (He Hni). done.
        -- destruct Hok as (Y0&H1&H2). destruct (Hheap2 _ _ H1) as (Y&HY&Hi&_&He&He'). exists Y. split; [done|].
           destruct (decide (inc0 = inc)) as [->|Hni]; [destruct (He' eq_refl) as [-> _]; done|].
           rewrite (He Hni). done.
        -- destruct Hok as (Y0&H1&H2&H3&H4).
           assert (inc0 ≠ inc) as Hni. { intros ->. congruence. }
           destruct (Hheap2 _ _ H1) as (Y&HY&_&_&He&_). rewrite (He Hni) in HY. exists Y0. repeat split; try done.
           intros t' X' Hne' HX'. rewrite E in HX'. apply lookup_insert_Some in HX' as [[<- <-]|[_ HX']]; [|by eapply H4].
           simpl. intros [k1 [= ? ?]]. done.
    + intros t X s i q HX Hc Hnp'. rewrite E in HX. apply lookup_insert_Some in HX as [[<- <-]|[Hne HX]].
      * exfalso. by apply (Hnp' inc k).
      * destruct (decide (i = inc)) as [->|Hni].
        -- exfalso. pose proof (Hothers t X s q Hne HX Hc Hnp') as Hq. simpl in Hb. set_solver.
        -- destruct (ci_member _ _ I t X s i q HX Hc Hnp') as (Y0&HY0&?&?&?&?).
           destruct (Hheap2 _ _ HY0) as (Y&HY&_&_&He&_). rewrite (He Hni) in HY. by exists Y0.
    + intros t X i q HX Hcl'. rewrite E in HX. apply lookup_insert_Some in HX as [[<- <-]|[Hne HX]]; [by apply Hnocl in Hcl'|].
      destruct (ci_claim_bound _ _ I t X i q HX Hcl') as (Y0&HY0&Hle).
      destruct (Hheap2 _ _ HY0) as (Y&HY&_&Hpg&_). exists Y. split; [done|]. by rewrite Hpg.
    + intros t1 t2 X1 X2 i q Hne H1 H2. rewrite E in H1, H2.
      apply lookup_insert_Some in H1 as [[<- <-]|[Hne1 H1]]; apply lookup_insert_Some in H2 as [[<- <-]|[Hne2 H2]]; try done.
      * intros C1 _. by apply Hnocl in C1.
      * intros _ C2. by apply Hnocl in C2.
      * by apply (ci_claim_uniq _ _ I t1 t2 X1 X2 i q).
  - (* somebody is left *)
    apply bool_decide_eq_false in Hb.
    set (T' := after_leave T k).
    assert (Hn' : neutral (t_pc T')) by apply after_leave_pc.
    assert (Hc' : t_cur T' = None) by apply after_leave_cur.
    set (st' := set_thr tid T' (set_heap inc R1 st)).
    assert (E : k_thr st' = <[tid := T']> (k_thr st)) by done.
    assert (Hnocl : ∀ i q, ¬ claims T' i q).
    { intros i q. rewrite (claims_neutral T') by done. rewrite Hc'. by intros [? ?]. }
    assert (Hheap : ∀ i X, k_heap st' !! i = Some X → ∃ X0, k_heap st !! i = Some X0 ∧ r_id X = r_id X0 ∧
               r_dead X = r_dead X0 ∧ r_pgen X = r_pgen X0 ∧ (i ≠ inc → X = X0) ∧ (i = inc → X = R1 ∧ X0 = R)).
    { intros i X HX. simpl in HX. apply lookup_insert_Some in HX as [[<- <-]|[Hne HX]].
      - exists R. simpl. repeat split; try done.
      - exists X. repeat split; try done. }
    assert (Hheap2 : ∀ i X0, k_heap st !! i = Some X0 → ∃ X, k_heap st' !! i = Some X ∧ r_id X = r_id X0 ∧
               r_dead X = r_dead X0 ∧ r_pgen X = r_pgen X0 ∧ (i ≠ inc → X = X0) ∧ (i = inc → X = R1 ∧ X0 = R)).
    { intros i X0 HX0. simpl. destruct (decide (i = inc)) as [->|Hne].
      - rewrite lookup_insert. exists R1. assert (X0 = R) as -> by congruence. simpl. repeat split; try done.
      - rewrite lookup_insert_ne by done. exists X0. repeat split; try done. }
    assert (Hholds : ∀ i X X0, r_id X = r_id X0 → r_dead X = r_dead X0 → holds st' i X → holds st i X0).
    { intros i X X0 Hi Hdd. unfold holds. simpl. rewrite Hi, Hdd. done. }
    split.
    + intros i X HX. destruct (Hheap i X HX) as (X0&HX0&_). apply (ci_inc _ _ I i X0 HX0).
    + intros i X HX. destruct (Hheap i X HX) as (X0&HX0&_&_&Hpg&_). rewrite Hpg. apply (ci_pgen _ _ I i X0 HX0).
    + intros i X HX Hdd. destruct (Hheap i X HX) as (X0&HX0&Hi&Hd0&_&He&He').
      assert (i ≠ inc) as Hni. { intros ->. destruct (He' eq_refl) as [-> ->]. simpl in Hdd. congruence. }
      rewrite (He Hni) in *.
      destruct (ci_dead _ _ I i X0 HX0 Hdd) as [Hem Hpr]. split; [done|]. intros Hr.
      eapply thr_at_other; [done|done| |by apply Hpr]. rewrite Hpc. by intros [k0 ?].
    + intros i X HX Hdd. destruct (decide (i = inc)) as [->|Hni].
      * destruct (Hheap inc X HX) as (X0&HX0&_&_&_&_&He). destruct (He eq_refl) as [-> ->]. left. simpl.
        split; [by rewrite Hsid|]. done.
      * destruct (Hheap i X HX) as (X0&HX0&_&_&_&He&_). rewrite (He Hni) in *.
        destruct (ci_alive _ _ I i X0 HX0 Hdd) as [[Hr Hpe]|[Hem Hpe]]; [left|right]; (split; [done|]).
        -- intros Hem. eapply thr_at_other; [done|done| |by apply Hpe]. rewrite Hpc. by intros [[=]|[q [=]]].
        -- eapply thr_at_other; [done|done| |done]. rewrite Hpc. by intros [=].
    + intros i X HX Hh. destruct (Hheap i X HX) as (X0&HX0&Hi&Hdd&_). rewrite Hi.
      apply (ci_held _ _ I i X0 HX0). by eapply Hholds.
    + intros i1 X1 i2 X2 H1 H2 Hh1 Hh2 Hid.
      destruct (Hheap i1 X1 H1) as (Y1&HY1&Hi1&Hd1&_). destruct (Hheap i2 X2 H2) as (Y2&HY2&Hi2&Hd2&_).
      apply (ci_uniq _ _ I i1 Y1 i2 Y2); try done; [by eapply Hholds|by eapply Hholds|congruence].
    + apply (ci_gcur _ _ I).
    + apply (ci_reuse _ _ I).
    + intros x i Hr. destruct (ci_reg _ _ I x i Hr) as (X0&HX0&Hx).
      destruct (Hheap2 i X0 HX0) as (X&HX&Hi&_). exists X. split; [done|congruence].
    + apply (ci_gauge _ _ I).
    + intros t X HX. rewrite E in HX. apply lookup_insert_Some in HX as [[<- <-]|[Hne HX]]; [by apply neutral_thr_ok|].
      pose proof (ci_thr _ _ I t X HX) as Hok. unfold thr_ok in *. destruct (t_pc X) eqn:EX; try done.
      * destruct Hok as (Y0&H1&H2&H3&H4). destruct (Hheap2 _ _ H1) as (Y&HY&Hi&Hdd&_). exists Y.
        rewrite Hi, Hdd. repeat split; try done.
        intros t' X' Hne' HX'. rewrite E in HX'. apply lookup_insert_Some in HX' as [[<- <-]|[_ HX']]; [|by eapply H4].
        intros Hx. rewrite Hx in Hn'. done.
      * destruct Hok as (Y0&H1&H2). destruct (Hheap2 _ _ H1) as (Y&HY&Hi&Hdd&_). exists Y. rewrite Hi, Hdd. done.
      * destruct Hok as (Y0&H1&H2). destruct (Hheap2 _ _ H1) as (Y&HY&Hi&Hdd&_). exists Y. rewrite Hi, Hdd. done.
      * destruct Hok as (Y0&H1&H2&H3&H4). destruct (Hheap2 _ _ H1) as (Y&HY&Hi&Hdd&_). exists Y.
        rewrite Hi, Hdd. repeat split; try done.
        intros t' X' Hne' HX'. rewrite E in HX'. apply lookup_insert_Some in HX' as [[<- <-]|[_ HX']]; [|by eapply H4].
        by apply neutral_not_is_premove.
    + intros t X s i q HX Hc Hnp'. rewrite E in HX. apply lookup_insert_Some in HX as [[<- <-]|[Hne HX]]; [congruence|].
      destruct (ci_member _ _ I t X s i q HX Hc Hnp') as (Y0&HY0&?&?&?&?).
      destruct (Hheap2 _ _ HY0) as (Y&HY&Hi&Hdd&_&He&He'). exists Y. rewrite Hi, Hdd. repeat split; try done.
      destruct (decide (i = inc)) as [->|Hni].
      * destruct (He' eq_refl) as [-> _]. simpl. by apply (Hothers t X s q).
      * by rewrite (He Hni).
    + intros t X i q HX Hcl'. rewrite E in HX. apply lookup_insert_Some in HX as [[<- <-]|[Hne HX]]; [by apply Hnocl in Hcl'|].
      destruct (ci_claim_bound _ _ I t X i q HX Hcl') as (Y0&HY0&Hle).
      destruct (Hheap2 _ _ HY0) as (Y&HY&_&_&Hpg&_). exists Y. split; [done|]. by rewrite Hpg.
    + intros t1 t2 X1 X2 i q Hne H1 H2. rewrite E in H1, H2.
      apply lookup_insert_Some in H1 as [[<- <-]|[Hne1 H1]]; apply lookup_insert_Some in H2 as [[<- <-]|[Hne2 H2]]; try done.
      * intros C1 _. by apply Hnocl in C1.
      * intros _ C2. by apply Hnocl in C2.
      * by apply (ci_claim_uniq _ _ I t1 t2 X1 X2 i q).
Qed.

(* ---------- PRemove : SessionStore.Remove ---------- *)
Lemma step_remove n st tid T inc k :
  cinv n st → k_thr st !! tid = Some T → t_pc T = PRemove inc k →
  cinv n (step true st tid 0).
Proof.
  intros I HT Hpc. unfold step. rewrite HT, Hpc.
  pose proof (ci_thr _ _ I tid T HT) as Hok. unfold thr_ok in Hok. rewrite Hpc in Hok.
  destruct Hok as (R&HR&Hd&Hreg&Hun).
  assert (Hrid : rid_of (k_heap st) inc = r_id R) by (unfold rid_of; by rewrite HR).
  rewrite Hrid.
  set (T' := after_leave T k).
  assert (Hn' : neutral (t_pc T')) by apply after_leave_pc.
  assert (Hc' : t_cur T' = None) by apply after_leave_cur.
  set (st' := {| k_heap := k_heap st; k_reg := delete (r_id R) (k_reg st); k_ids := gen_reuse (r_id R) (k_ids st);
                 k_gauge := (k_gauge st - 1)%Z; k_inc := k_inc st; k_thr := <[tid:=T']> (k_thr st) |}).
  assert (E : k_thr st' = <[tid := T']> (k_thr st)) by done.
  assert (Hnocl : ∀ i q, ¬ claims T' i q).
  { intros i q. rewrite (claims_neutral T') by done. rewrite Hc'. by intros [? ?]. }
  assert (Hdel : ∀ x i, k_reg st' !! x = Some i → x ≠ r_id R ∧ k_reg st !! x = Some i).
  { intros x i Hx. simpl in Hx. apply lookup_delete_Some in Hx as [? ?]. split; [congruence|done]. }
  assert (Hkeep : ∀ i X, k_heap st !! i = Some X → i ≠ inc → k_reg st !! r_id X = Some i → k_reg st' !! r_id X = Some i).
  { intros i X HX Hni Hr. simpl. apply lookup_delete_Some. split; [|done]. intros Hid. rewrite <- Hid in Hr. congruence. }
  assert (Hholds : ∀ i X, holds st' i X → holds st i X).
  { intros i X [Hx|Hx]; [by left|]. right. by apply Hdel in Hx as [_ ?]. }
  assert (Hinc : ¬ holds st' inc R).
  { intros [Hx|Hx]; [congruence|]. apply Hdel in Hx as [? _]. done. }
  assert (HhR : holds st inc R) by (by right).
  split; simpl.
  - apply (ci_inc _ _ I).
  - apply (ci_pgen _ _ I).
  - intros i X HX Hdd. destruct (ci_dead _ _ I i X HX Hdd) as [He Hp]. split; [done|]. intros Hr.
    apply Hdel in Hr as [Hni Hr].
    assert (i ≠ inc) by (intros ->; congruence).
    eapply thr_at_other; [done|done| |by apply Hp]. rewrite Hpc. intros [k0 [= ? ?]]. done.
  - intros i X HX Hdd. assert (i ≠ inc) as Hni by (intros ->; congruence).
    destruct (ci_alive _ _ I i X HX Hdd) as [[Hr Hp]|[He Hp]]; [left|right]; (split; [try done|]).
    + by apply (Hkeep i X).
    + intros He. eapply thr_at_other; [done|done| |by apply Hp]. rewrite Hpc. by intros [[=]|[q [=]]].
    + eapply thr_at_other; [done|done| |done]. rewrite Hpc. by intros [=].
  - intros i X HX Hh. destruct (ci_held _ _ I i X HX (Hholds _ _ Hh)) as [H1 H2]. split; [|done].
    intros [Hx|Hx%elem_of_singleton]%elem_of_union; [done|].
    assert (i = inc) as -> by (apply (ci_uniq _ _ I i X inc R); try done; by apply Hholds).
    assert (X = R) as -> by congruence. done.
  - intros i1 X1 i2 X2 H1 H2 Hh1 Hh2 Hid. apply (ci_uniq _ _ I i1 X1 i2 X2); try done; by apply Hholds.
  - apply (ci_gcur _ _ I).
  - intros x [Hx|Hx%elem_of_singleton]%elem_of_union; [by apply (ci_reuse _ _ I)|]. subst x.
    by destruct (ci_held _ _ I inc R HR HhR).
  - intros x i Hr. apply Hdel in Hr as [_ Hr]. by apply (ci_reg _ _ I).
  - rewrite (ci_gauge _ _ I).
    assert (size (k_reg st) = S (size (delete (r_id R) (k_reg st)))) as ->.
    { rewrite <- (insert_delete (k_reg st) (r_id R) inc Hreg) at 1. rewrite map_size_insert_None; [done|apply lookup_delete]. }
    lia.
  - intros t X HX. apply lookup_insert_Some in HX as [[<- <-]|[Hne HX]]; [by apply neutral_thr_ok|].
    pose proof (ci_thr _ _ I t X HX) as Hok. unfold thr_ok in *. destruct (t_pc X) eqn:EX; try done; simpl.
    + destruct Hok as (Y&H1&H2&H3&H4). exists Y. repeat split; try done.
      * intros Hx. apply H3. by apply Hdel in Hx as [_ ?].
      * intros t' X' Hne' HX'. apply lookup_insert_Some in HX' as [[<- <-]|[_ HX']]; [|by eapply H4].
        intros Hx. rewrite Hx in Hn'. done.
    + destruct Hok as (Y&H1&H2). exists Y. split; [done|]. intros Hdd.
      apply (Hkeep inc0 Y H1); [intros ->; congruence|by apply H2].
    + destruct Hok as (Y&H1&H2). exists Y. split; [done|]. intros Hdd.
      apply (Hkeep inc0 Y H1); [intros ->; congruence|by apply H2].
    + destruct Hok as (Y&H1&H2&H3&H4). exists Y.
      assert (inc0 ≠ inc) as Hni. { intros ->. apply (Hun t X); [done|done|]. by exists k0. }
      repeat split; try done; [by apply (Hkeep inc0 Y)|].
      intros t' X' Hne' HX'. apply lookup_insert_Some in HX' as [[<- <-]|[_ HX']]; [|by eapply H4].
      by apply neutral_not_is_premove.
  - intros t X s i q HX Hc Hnp'. apply lookup_insert_Some in HX as [[<- <-]|[Hne HX]]; [congruence|].
    destruct (ci_member _ _ I t X s i q HX Hc Hnp') as (Y&HY&Hs&Hr&Hdd&Hq). exists Y. repeat split; try done.
    rewrite <- Hs. apply (Hkeep i Y HY); [intros ->; congruence|by rewrite Hs].
  - intros t X i q HX Hcl'. apply lookup_insert_Some in HX as [[<- <-]|[Hne HX]]; [by apply Hnocl in Hcl'|].
    by apply (ci_claim_bound _ _ I t X).
  - intros t1 t2 X1 X2 i q Hne H1 H2.
    apply lookup_insert_Some in H1 as [[<- <-]|[Hne1 H1]]; apply lookup_insert_Some in H2 as [[<- <-]|[Hne2 H2]]; try done.
    + intros C1 _. by apply Hnocl in C1.
    + intros _ C2. by apply Hnocl in C2.
    + by apply (ci_claim_uniq _ _ I t1 t2 X1 X2 i q).
Qed.

(* ---------- every critical section of every thread preserves the invariant ---------- *)
Lemma step_inv n st tid hint :
  cinv n st → n + 1 < two32 → cinv (n + 1) (step true st tid hint).
Proof.
  intros I Hn.
  assert (Hm : ∀ s, cinv n s → cinv (n + 1) s) by (intros s Hs; apply (cinv_mono n); [done|lia]).
  destruct (k_thr st !! tid) as [T|] eqn:HT; [|unfold step; rewrite HT; by apply Hm].
  destruct (t_pc T) as [|s| |inc|inc|inc p|k|inc k|inc k] eqn:Hpc.
  - unfold step. rewrite HT, Hpc. by apply Hm.
  - apply Hm. unfold step. rewrite HT, Hpc. destruct s as [sid|].
    + destruct (k_reg st !! sid) as [inc|] eqn:Hr.
      * destruct (ci_reg _ _ I sid inc Hr) as (R&HR&Hid).
        apply (cinv_set_thr_simple n st tid T); try done; [by rewrite Hpc|].
        right. exists inc, R. simpl. repeat split; try done. by rewrite Hid.
      * apply (cinv_set_thr_simple n st tid T); try done; [by rewrite Hpc|apply next_req_cur|]. left. apply next_req_pc.
    + apply (cinv_set_thr_simple n st tid T); try done; [by rewrite Hpc|]. by left.
  - by apply (step_newid n st tid T).
  - apply Hm. replace (step true st tid hint) with (step true st tid 0); [by eapply step_add|].
    unfold step. by rewrite HT, Hpc.
  - replace (step true st tid hint) with (step true st tid 0); [by eapply step_newpid|].
    unfold step. by rewrite HT, Hpc.
  - apply Hm. replace (step true st tid hint) with (step true st tid 0) by (unfold step; by rewrite HT, Hpc).
    destruct (k_heap st !! inc) as [R|] eqn:HR.
    + destruct (r_dead R) eqn:Hd; [by eapply step_addp_dead|by eapply step_addp_live].
    + unfold step. by rewrite HT, Hpc, HR.
  - apply Hm. replace (step true st tid hint) with (step true st tid 0) by (unfold step; by rewrite HT, Hpc).
    by eapply step_rmp.
  - (* PCount does not occur in the repaired programs: no thread is ever there; the step is harmless anyway *)
    pose proof (ci_thr _ _ I tid T HT) as Hok. unfold thr_ok in Hok. by rewrite Hpc in Hok.
  - apply Hm. replace (step true st tid hint) with (step true st tid 0) by (unfold step; by rewrite HT, Hpc).
    by eapply step_remove.
Qed.

(* ---------- every schedule ---------- *)
Lemma sched_run_inv σ : ∀ n st, cinv n st → n + N.of_nat (length σ) < two32 →
  cinv (n + N.of_nat (length σ)) (sched_run true st σ).
Proof.
  induction σ as [|[tid hint] σ IH]; intros n st I Hn.
  - cbn [length]. change (N.of_nat 0) with 0. by rewrite N.add_0_r.
  - cbn [length] in *. rewrite Nat2N.inj_succ in *.
    replace (n + N.succ (N.of_nat (length σ))) with ((n + 1) + N.of_nat (length σ)) by lia.
    unfold sched_run. cbn [fold_left]. apply IH; [|lia]. apply step_inv; [done|lia].
Qed.

(* every state reached by any schedule of any programs satisfies the invariant *)
Lemma reachable_cinv progs σ :
  N.of_nat (length σ) < two32 → cinv (N.of_nat (length σ)) (sched_run true (cinit progs) σ).
Proof. intros H. apply (sched_run_inv σ 0 (cinit progs)); [apply cinv_init|lia]. Qed.

(* the concurrent clause of C07: whatever the programs, however many threads, whatever the schedule, when every
   handler has returned the registry is exactly the set of non-empty sessions, each under its own id, no id both
   registered and recyclable, the gauge equals their number and every connection that was answered with success
   (and has not left since) is a participant of the session its id resolves to *)
Theorem conc_registry_ok progs σ :
  N.of_nat (length σ) < two32 →
  let st := sched_run true (cinit progs) σ in complete st → registry_ok st.
Proof. intros H st C. eapply cinv_registry_ok; [by apply reachable_cinv|done]. Qed.

(* ... and not only at quiescence: at EVERY moment of every schedule, a handler that was answered with success and
   has not started to unregister the session is a participant of a live (not ended) session object that the
   returned id resolves to; the gauge equals the number of registered sessions; a registered id is never recyclable *)
Theorem conc_member_always progs σ tid T sid inc p :
  N.of_nat (length σ) < two32 →
  let st := sched_run true (cinit progs) σ in
  k_thr st !! tid = Some T → t_cur T = Some (sid, inc, p) → not_premove (t_pc T) →
  ∃ R, k_heap st !! inc = Some R ∧ r_id R = sid ∧ k_reg st !! sid = Some inc ∧ r_dead R = false ∧ p ∈ r_parts R.
Proof. intros H st. apply (ci_member _ _ (reachable_cinv progs σ H)). Qed.

Theorem conc_gauge_always progs σ :
  N.of_nat (length σ) < two32 →
  let st := sched_run true (cinit progs) σ in
  k_gauge st = Z.of_nat (size (k_reg st)) ∧
  (∀ id inc, k_reg st !! id = Some inc → id ∉ g_reuse (k_ids st) ∧ ∃ R, k_heap st !! inc = Some R ∧ r_id R = id).
Proof.
  intros H st. pose proof (reachable_cinv progs σ H) as I. split; [apply (ci_gauge _ _ I)|].
  intros id inc Hr. destruct (ci_reg _ _ I id inc Hr) as (R&HR&Hid). split; [|by exists R].
  rewrite <- Hid. apply (ci_held _ _ I inc R HR). right. by rewrite Hid.
Qed.

(* two handlers never hold the same participant id of the same session object (the participant-id clause of C10
   under concurrent joins) *)
Theorem conc_participant_ids_distinct progs σ t1 t2 T1 T2 inc p :
  N.of_nat (length σ) < two32 →
  let st := sched_run true (cinit progs) σ in
  t1 ≠ t2 → k_thr st !! t1 = Some T1 → k_thr st !! t2 = Some T2 → claims T1 inc p → claims T2 inc p → False.
Proof. intros H st. apply (ci_claim_uniq _ _ (reachable_cinv progs σ H)). Qed.

(* the session-id clause of C10 under concurrent creations, joins and departures: at every moment two session
   objects that still own their numeric id (not ended, or still filed in the registry) never share it, such an id is
   never recyclable, and it was issued by the generator (≤ its counter) *)
Theorem conc_session_ids_distinct progs σ i1 R1 i2 R2 :
  N.of_nat (length σ) < two32 →
  let st := sched_run true (cinit progs) σ in
  k_heap st !! i1 = Some R1 → k_heap st !! i2 = Some R2 → holds st i1 R1 → holds st i2 R2 →
  (r_id R1 = r_id R2 → i1 = i2) ∧ r_id R1 ∉ g_reuse (k_ids st) ∧ r_id R1 ≤ g_cur (k_ids st).
Proof.
  intros H st H1 H2 Hh1 Hh2. pose proof (reachable_cinv progs σ H) as I. split.
  - by apply (ci_uniq _ _ I i1 R1 i2 R2).
  - by apply (ci_held _ _ I i1 R1).
Qed.

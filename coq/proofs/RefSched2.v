(* proofs/RefSched2.v — predicate soundness for P_C11 (Preds2.v), part 1: the scheduler bookkeeping.
   - [frames_inv]: the connections with a registered frame handler are exactly the members of the session
     (so that OTick flushes exactly the connections the predicate moves);
   - [Rs]: the predicate's [u_last] / [u_expect] against the model's pending map and queue of every connection
     that is not closed, preserved by OSend (dispatch), OTick (flush), OStep (consumption), departures and session
     switches (the pending maps survive a switch), hence clauses 1101 and 1106;
   - clauses 1102 / 1103 / 1105 (what the consumption of a pose update relays) from the entity refinement.
   The u_deleted part (1104) and the snapshot clauses are in proofs/RefSched3.v. *)
From stdpp Require Import relations sorting.
From hagall Require Import Model Spec Obs Preds Preds2.
From hagall.proofs Require Import BaseLemmas Relay Inv Session Local Trans WF Mono Reach PC02 PC06 PC07 PC11 PC18 Own
  Refine Refine2 Refine3 Refine4 Refine5 RefComp RefComp2 RefComp3 RefComp4 RefSched.
From Coq Require Import Lia.

(* ================= frame handlers = members ================= *)
Definition frames_ok (SS : session) : Prop := ∀ c, c ∈ s_frames SS ↔ ∃ p, s_parts SS !! p = Some c.
Definition frames_inv (st : state) : Prop := ∀ sid SS, sessions st !! sid = Some SS → frames_ok SS.

Lemma frames_state0 : frames_inv state0.
Proof. intros sid SS. simpl. by rewrite lookup_empty. Qed.
Lemma frames_same st st' : sessions st' = sessions st → frames_inv st → frames_inv st'.
Proof. intros H F sid SS. rewrite H. apply F. Qed.
Lemma frames_insert (m : gmap N session) sid SS' :
  (∀ s SS, m !! s = Some SS → frames_ok SS) → frames_ok SS' → ∀ s SS, <[sid := SS']> m !! s = Some SS → frames_ok SS.
Proof. intros F H s SS [[<- <-]|[_ H0]]%lookup_insert_Some; [done|by eapply F]. Qed.

Lemma frames_leave cfg st c : inv st → frames_inv st → frames_inv (leave cfg st c).1.
Proof.
  intros I F. destruct (leave_sessions cfg st c I) as [(cn&sid&p&SS&Hc&Hcur&HS&Hp&E)|[_ E]]; [|by rewrite E].
  intros s S0. rewrite E. case_decide as He.
  - intros [_ H0]%lookup_delete_Some. by eapply F.
  - apply frames_insert; [exact F|].
    destruct (left_fields cfg c p (c_own cn) SS) as (_&_&_&_&_&Fp&Ff&_).
    destruct (inv_member st c cn sid p SS I Hc Hcur HS) as [_ Hinj].
    intros c'. rewrite Ff, Fp, elem_of_difference, (F sid SS HS c'), elem_of_singleton. split.
    + intros [[q Hq] Hne]. exists q. rewrite lookup_delete_ne; [done|]. intros ->. congruence.
    + intros [q [Hqp Hq]%lookup_delete_Some]. split; [eauto|]. intros ->. apply Hqp. by eapply Hinj.
Qed.

Lemma frames_entered SS c : s_parts SS !! u32_succ (s_pgen SS) = None → frames_ok SS → frames_ok (entered SS c).
Proof.
  intros Hfresh F c'. unfold entered. simpl. rewrite elem_of_union, elem_of_singleton, (F c'). split.
  - intros [[q Hq]| ->]; [|exists (u32_succ (s_pgen SS)); by rewrite lookup_insert].
    exists q. rewrite lookup_insert_ne; [done|]. intros <-. congruence.
  - intros [q [[_ <-]|[_ Hq]]%lookup_insert_Some]; [by right|left; eauto].
Qed.

Lemma frames_enter cfg st c rid n ots :
  inv st → nowrap st → frames_inv st → frames_inv (enter cfg st c rid n ots).1.1.
Proof.
  intros I [_ W] F. destruct (sessions st !! n) as [SS|] eqn:HS.
  2:{ unfold enter. by rewrite HS. }
  intros s S0. rewrite (enter_sessions cfg st c rid n ots SS HS). apply frames_insert; [exact F|].
  apply frames_entered; [|by eapply F].
  assert (Hps : parts_of st n = Some (s_parts SS)) by (unfold parts_of; by rewrite HS).
  assert (Hg : pgen_of st n = Some (s_pgen SS)) by (unfold pgen_of; by rewrite HS).
  specialize (W n _ Hg). destruct (s_parts SS !! u32_succ (s_pgen SS)) as [x|] eqn:E; [|done]. exfalso.
  pose proof (inv_pgen _ I n _ _ (u32_succ (s_pgen SS)) Hps Hg ltac:(by rewrite E)) as Hle.
  rewrite u32_succ_small in Hle by done. lia.
Qed.

Lemma frames_join cfg st c rid s ots hint :
  inv st → nowrap st → frames_inv st → frames_inv (Model.join cfg st c rid s ots hint).1.1.
Proof.
  intros I W F. unfold Model.join. destruct (conns st !! c) as [cn|]; [|done].
  destruct (already_joined cn s); [done|].
  pose proof (frames_leave cfg st c I F) as F1. pose proof (inv_leave cfg st c I) as I1.
  pose proof (leave_nowrap cfg st c I W) as W1.
  destruct (leave cfg st c) as [st1 o1]. simpl in *.
  destruct s as [|n|k]; [| |done].
  - destruct (create_session hint st1) as [n st2] eqn:Hcr.
    destruct (create_sessions _ _ _ _ Hcr) as [E2 _].
    assert (HS2 : sessions st2 !! n = Some (session0 (next_uuid st1 + 1))) by (rewrite E2; by rewrite lookup_insert).
    pose proof (enter_sessions cfg st2 c rid n ots _ HS2) as E3.
    destruct (enter cfg st2 c rid n ots) as [[st3 o2] v]. simpl in *.
    intros s S0. rewrite E3, E2, insert_insert. apply frames_insert; [exact F1|].
    apply frames_entered; [done|]. intros c'. simpl. rewrite elem_of_empty. split; [done|]. by intros [q Hq].
  - destruct (sessions st1 !! n); [|done].
    pose proof (frames_enter cfg st1 c rid n ots I1 W1 F1). by destruct (enter cfg st1 c rid n ots) as [[? ?] ?].
Qed.

Lemma frames_handle cfg st c r hint : inv st → nowrap st → frames_inv st → frames_inv (handle cfg st c r hint).1.1.
Proof.
  intros I W F. unfold handle. destruct (conns st !! c) as [cn|] eqn:Hc; [|done].
  destruct (c_cur cn) as [[s p]|] eqn:Hcur.
  - destruct (sessions st !! s) as [SS|] eqn:HS; [|done].
    destruct (is_join r) eqn:Hj. { destruct r; try discriminate Hj. simpl. by apply frames_join. }
    destruct (session_local r) eqn:Hl.
    + rewrite (handle_joined_sstep cfg st c cn s p SS r hint Hl Hc HS). unfold apply_sstep. cbn [fst snd].
      intros s0 S0. change (sessions (upd_conn ?c ?f (put_session st s ?X))) with (<[s := X]> (sessions st)).
      apply frames_insert; [exact F|]. intros c'. rewrite sstep_frames, sstep_parts. by apply (F s SS HS).
    + eapply frames_same; [|exact F]. by apply handle_joined_other.
  - destruct (is_join r) eqn:Hj. { destruct r; try discriminate Hj. simpl. by apply frames_join. }
    eapply frames_same; [|exact F]. by apply handle_unjoined_other.
Qed.

Lemma frames_disconnect cfg st c : inv st → frames_inv st → frames_inv (disconnect cfg st c).1.
Proof.
  intros I F. unfold disconnect. pose proof (frames_leave cfg st c I F). destruct (leave cfg st c). simpl in *.
  eapply frames_same; [|done]. done.
Qed.

Theorem step_frames cfg st o k :
  inv st → bounded k st → k + 1 < two32 → frames_inv st → frames_inv (step cfg st o).1.1.
Proof.
  intros I B Hk F. pose proof (bounded_nowrap _ _ B Hk) as W.
  destruct o as [c|c r|c hint|s|c|]; simpl; try done.
  - destruct (conns st !! c); [done|]. eapply frames_same; [|done]. done.
  - unfold dispatch. destruct (conns st !! c) as [cn|] eqn:Hc; [|done].
    destruct (c_open cn); [|done]. simpl.
    destruct r; simpl; try (eapply frames_same; [|done]; done).
    destruct (ty =? 14); [|eapply frames_same; [|done]; done].
    pose proof (frames_disconnect cfg st c I F). by destruct (disconnect cfg st c).
  - destruct (conns st !! c) as [cn|] eqn:Hc; [|done].
    destruct (c_open cn) eqn:Ho; [|done]. simpl.
    destruct (c_queue cn) as [|r q] eqn:Hq; [done|].
    set (st0 := upd_conn c (set_queue q) st).
    assert (Hs0 : same_mem st st0) by (apply same_mem_upd_conn; by intros []).
    assert (I0 : inv st0) by by eapply inv_same_mem.
    assert (B0 : bounded k st0) by by eapply bounded_same_mem.
    assert (W0 : nowrap st0) by by eapply bounded_nowrap.
    assert (F0 : frames_inv st0) by (eapply frames_same; [|exact F]; done).
    assert (Ho0 : open_of st0 c = Some true).
    { destruct Hs0 as (_&H2&_). rewrite H2. unfold open_of. by rewrite Hc; simpl; rewrite Ho. }
    pose proof (frames_handle cfg st0 c r hint I0 W0 F0) as F1.
    destruct (handle_inv cfg st0 c r hint k I0 B0 Hk Ho0) as [I1 _].
    destruct (handle cfg st0 c r hint) as [[st1 o1] v]. simpl in *.
    destruct v; try done.
    pose proof (frames_disconnect cfg st1 c I1 F1). by destruct (disconnect cfg st1 c).
  - eapply frames_same; [|done]. apply tick_sessions.
  - destruct (conns st !! c) as [cn|] eqn:Hc; [|done].
    destruct (c_open cn); [|done]. simpl.
    pose proof (frames_disconnect cfg st c I F). by destruct (disconnect cfg st c).
Qed.

Theorem reachable_frames cfg h : N.of_nat (length h) < two32 → frames_inv (final cfg h).
Proof.
  intros Hb. unfold final. rewrite run_from_final.
  assert (G : ∀ h st k, inv st → bounded k st → k + N.of_nat (length h) < two32 → frames_inv st →
            frames_inv (fold_left (λ s o, (step cfg s o).1.1) h st)).
  { clear. induction h as [|o h IH]; intros st k I B Hk R; [done|]. cbn [fold_left length] in *.
    rewrite Nat2N.inj_succ in Hk. destruct (step_inv cfg st o k I B) as [I1 B1]; [lia|].
    apply (IH _ (k + 1) I1 B1); [lia|]. apply (step_frames cfg st o k); try done. lia. }
  apply (G h state0 0 inv_state0 bounded_state0); [lia|apply frames_state0].
Qed.

(* ================= the scheduler part of the predicate's state, as a function of the event ================= *)
Definition c11_reset (sp sp' : spec) (e : event) (s : c11st) : c11st :=
  match actor e with
  | Some c => if negb (mem_changed sp sp' e c) then s
              else {| u_last := u_last s; u_expect := u_expect s; u_deleted := delete c (u_deleted s) |}
  | None => s end.

Definition c11_move (members : list N) (ul : gmap (N*N) N) (ue : gmap (N*N) (list N)) : gmap (N*N) (list N) :=
  fold_right (λ (kv : (N*N) * N) m, <[fst kv := default [] (m !! fst kv) ++ [snd kv]]> m) ue
             (List.filter (λ kv : (N*N) * N, memN (fst (fst kv)) members) (map_to_list ul)).

Definition c11_sched (sp : spec) (e : event) (ul : gmap (N*N) N) (ue : gmap (N*N) (list N)) :
    gmap (N*N) N * gmap (N*N) (list N) :=
  match ev_op e with
  | OSend c (RPose eid po ots) =>
      match ev_verdict e with VOk => (<[(c, eid) := ots]> ul, ue) | _ => (ul, ue) end
  | OTick sid =>
      let members := map snd (sp_members sp sid) in
      (filter (λ kv : (N*N) * N, negb (memN (fst (fst kv)) members)) ul, c11_move members ul ue)
  | OStep c _ =>
      let closed := match ev_verdict e with VErr | VPanic => true | _ => false end in
      let ul2 := if closed then drop_conn c ul else ul in
      let ue2 := if closed then drop_conn c ue else ue in
      match ev_req e with
      | Some (RPose eid po ots) => (ul2, <[(c, eid) := tl (default [] (ue !! (c, eid)))]> ue2)
      | _ => (ul2, ue2)
      end
  | ODisconnect c => (drop_conn c ul, drop_conn c ue)
  | _ => (ul, ue)
  end.

Lemma c11_deliveries_sched i s outs :
  u_last (c11_deliveries i s outs).1 = u_last s ∧ u_expect (c11_deliveries i s outs).1 = u_expect s.
Proof.
  unfold c11_deliveries.
  assert (G : ∀ acc : c11st * list violation,
    u_last (fold_left (λ (acc : c11st * list violation) (d : delivery),
      let '(s, vs) := acc in
      let seen := default ∅ (u_deleted s !! fst d) in
      match snd d with
      | MPoseB _ eid _ => (s, vs ++ okv i (bool_decide (eid ∉ seen)) 1104 [zn (fst d); zn eid])
      | MEntityDeleteB _ eid => ({| u_last := u_last s; u_expect := u_expect s;
                                    u_deleted := <[fst d := seen ∪ {[eid]}]> (u_deleted s) |}, vs)
      | _ => (s, vs)
      end) outs acc).1 = u_last acc.1 ∧
    u_expect (fold_left (λ (acc : c11st * list violation) (d : delivery),
      let '(s, vs) := acc in
      let seen := default ∅ (u_deleted s !! fst d) in
      match snd d with
      | MPoseB _ eid _ => (s, vs ++ okv i (bool_decide (eid ∉ seen)) 1104 [zn (fst d); zn eid])
      | MEntityDeleteB _ eid => ({| u_last := u_last s; u_expect := u_expect s;
                                    u_deleted := <[fst d := seen ∪ {[eid]}]> (u_deleted s) |}, vs)
      | _ => (s, vs)
      end) outs acc).1 = u_expect acc.1).
  { induction outs as [|d outs IH]; intros [s0 vs]; [done|]. cbn [fold_left].
    destruct (snd d); match goal with |- context [fold_left _ outs ?acc] => exact (IH acc) end. }
  apply (G (s, [])).
Qed.

Lemma P_C11_event_sched cfg i sp sp' s e :
  (u_last (P_C11_event cfg i sp sp' s e).1, u_expect (P_C11_event cfg i sp sp' s e).1) =
  c11_sched sp e (u_last s) (u_expect s).
Proof.
  unfold P_C11_event, c11_sched. destruct (c11_deliveries_sched i s (ev_outs e)) as [D1 D2].
  destruct (c11_deliveries i s (ev_outs e)) as [s1 v1]. cbn [fst] in D1, D2.
  set (s1' := match actor e with
              | Some c => if negb (mem_changed sp sp' e c) then s1
                          else {| u_last := u_last s1; u_expect := u_expect s1; u_deleted := delete c (u_deleted s1) |}
              | None => s1 end).
  assert (E1 : u_last s1' = u_last s) by (unfold s1'; destruct (actor e) as [c|]; [destruct (negb _)|]; done).
  assert (E2 : u_expect s1' = u_expect s) by (unfold s1'; destruct (actor e) as [c|]; [destruct (negb _)|]; done).
  clearbody s1'. destruct (ev_op e) as [c|c r|c hint|sid|c|]; cbn [fst snd u_last u_expect]; rewrite ?E1, ?E2; try done.
  - destruct r; cbn [fst snd u_last u_expect]; rewrite ?E1, ?E2; try done.
    destruct (ev_verdict e); cbn [fst snd u_last u_expect]; by rewrite ?E1, ?E2.
  - destruct (ev_req e) as [[]|]; destruct (ev_verdict e); cbn [fst snd u_last u_expect]; by rewrite ?E1, ?E2.
Qed.

(* ================= the relation ================= *)
Definition sv (cn : conn) : bool * list req * gmap N req * gmap (N * N) req :=
  (c_open cn, c_queue cn, c_pposes cn, c_pcomps cn).
Definition conn_ok (cn : conn) : Prop :=
  slots_ok cn ∧ ∀ k r, c_pcomps cn !! k = Some r → ∃ t x d o, r = RCompUpdate t x d o.
Definition pend (st : state) (c eid : N) : option N := conns st !! c ≫= λ cn, c_pposes cn !! eid ≫= pose_of eid.
Definition expq (st : state) (c eid : N) : list N :=
  match conns st !! c with Some cn => queued_poses eid (c_queue cn) | None => [] end.
Definition live (st : state) (c : N) : Prop := open_of st c ≠ Some false.

Record Rs (st : state) (ul : gmap (N*N) N) (ue : gmap (N*N) (list N)) : Prop := {
  rs_ok : ∀ c cn, conns st !! c = Some cn → conn_ok cn;
  rs_last : ∀ c eid, live st c → ul !! (c, eid) = pend st c eid;
  rs_expect : ∀ c eid, live st c → default [] (ue !! (c, eid)) = expq st c eid
}.

Lemma Rs_state0 : Rs state0 ∅ ∅.
Proof. split; intros *; unfold pend, expq; simpl; rewrite ?lookup_empty; done. Qed.

Lemma sv_eq a b : sv a = sv b ↔ c_open a = c_open b ∧ c_queue a = c_queue b ∧ c_pposes a = c_pposes b ∧ c_pcomps a = c_pcomps b.
Proof. unfold sv. split; [by intros [= ? ? ? ?]|by intros (->&->&->&->)]. Qed.
Lemma conn_ok_sv a b : sv a = sv b → conn_ok a → conn_ok b.
Proof. intros (_&_&H3&H4)%sv_eq [O1 O2]. split; [intros e r; rewrite <- H3; apply O1|intros k r; rewrite <- H4; apply O2]. Qed.

(* what the relation looks at, connection by connection *)
Definition same_sv_at (st st' : state) (c : N) : Prop := sv <$> conns st' !! c = sv <$> conns st !! c.
Lemma same_sv_pend st st' c eid : same_sv_at st st' c → pend st' c eid = pend st c eid.
Proof.
  unfold same_sv_at, pend. destruct (conns st' !! c) as [a|], (conns st !! c) as [b|]; simpl; try done.
  intros H. assert (H' : sv a = sv b) by congruence. apply sv_eq in H' as (_&_&H3&_). by rewrite H3.
Qed.
Lemma same_sv_expq st st' c eid : same_sv_at st st' c → expq st' c eid = expq st c eid.
Proof.
  unfold same_sv_at, expq. destruct (conns st' !! c) as [a|], (conns st !! c) as [b|]; simpl; try done.
  intros H. assert (H' : sv a = sv b) by congruence. apply sv_eq in H' as (_&H2&_&_). by rewrite H2.
Qed.
Lemma same_sv_live st st' c : same_sv_at st st' c → live st' c → live st c.
Proof.
  unfold same_sv_at, live, open_of. destruct (conns st' !! c) as [a|], (conns st !! c) as [b|]; simpl; try done.
  intros H. assert (H' : sv a = sv b) by congruence. apply sv_eq in H' as (H1&_&_&_). by rewrite H1.
Qed.
Lemma same_sv_ok st st' c cn' :
  same_sv_at st st' c → (∀ cn, conns st !! c = Some cn → conn_ok cn) → conns st' !! c = Some cn' → conn_ok cn'.
Proof.
  unfold same_sv_at. intros H Hok Hc'. rewrite Hc' in H. destruct (conns st !! c) as [b|]; simpl in H; [|done].
  assert (H' : sv cn' = sv b) by congruence. eapply conn_ok_sv; [symmetry; exact H'|by apply Hok].
Qed.

Lemma Rs_sv st st' ul ue : (∀ c, same_sv_at st st' c) → Rs st ul ue → Rs st' ul ue.
Proof.
  intros H [R1 R2 R3]. split.
  - intros c cn' Hc'. eapply same_sv_ok; [apply H|apply R1|done].
  - intros c eid Hl. rewrite (same_sv_pend st st' c eid (H c)). apply R2. eapply same_sv_live; [apply H|done].
  - intros c eid Hl. rewrite (same_sv_expq st st' c eid (H c)). apply R3. eapply same_sv_live; [apply H|done].
Qed.

Lemma ctrans_sv g st st' :
  ctrans g st st' → (∀ c cn, sv (g c cn) = sv cn) → ∀ c, same_sv_at st st' c.
Proof.
  intros T Hg c. unfold same_sv_at. specialize (T c).
  destruct (conns st' !! c) as [a|], (conns st !! c) as [b|]; simpl in *; try done.
  assert (T' : cv a = cv (g c b)) by congruence. f_equal. rewrite <- (Hg c b). apply cv_eq in T' as (?&?&?&?&?&?). apply sv_eq. done.
Qed.

(* every request handler leaves the scheduler part of every connection alone *)
Lemma handle_sv cfg st c cn r hint st' o v :
  conns st !! c = Some cn → (∀ sid p, c_cur cn = Some (sid, p) → is_Some (sessions st !! sid)) →
  handle cfg st c r hint = (st', o, v) → ∀ c', same_sv_at st st' c'.
Proof.
  intros Hc Hlive Eh. destruct (handle_outcomes cfg st c cn r hint st' o v Hc Hlive Eh) as [_ _ JO|_ _ T _|x _ _ T].
  - destruct JO as [-> _ _|T _|n p r' u T _]; [done| |].
    + eapply ctrans_sv; [exact T|]. intros c' cn'. unfold at_conn. by case_decide.
    + eapply ctrans_sv; [exact T|]. intros c' cn'. unfold at_conn. by case_decide.
  - by eapply ctrans_sv.
  - eapply ctrans_sv; [exact T|]. intros c' cn'. unfold at_conn. by case_decide.
Qed.

Lemma drop_conn_lookup {A} (c : N) (m : gmap (N*N) A) (c' x : N) : drop_conn c m !! (c', x) = if c' =? c then None else m !! (c', x).
Proof.
  unfold drop_conn. rewrite (filter_lookup_b (λ kv : (N*N) * A, negb (kv.1.1 =? c))). simpl.
  destruct (m !! (c', x)); simpl; destruct (c' =? c); done.
Qed.

(* closing connection c: nothing is asked of c any more, the others are as before *)
Lemma Rs_close st st' c cn cn' ul ue ul' ue' :
  Rs st ul ue → (∀ c', c' ≠ c → same_sv_at st st' c') →
  conns st !! c = Some cn → conns st' !! c = Some cn' → c_open cn' = false →
  c_pposes cn' = c_pposes cn → c_pcomps cn' = c_pcomps cn →
  (∀ c' x, c' ≠ c → ul' !! (c', x) = ul !! (c', x)) → (∀ c' x, c' ≠ c → ue' !! (c', x) = ue !! (c', x)) →
  Rs st' ul' ue'.
Proof.
  intros [R1 R2 R3] Hsv Hcn Hcn' Ho E1 E2 Hul Hue.
  assert (Hnl : ¬ live st' c). { unfold live, open_of. rewrite Hcn'. simpl. rewrite Ho. by intros []. }
  split.
  - intros c' cn0 Hc'. destruct (decide (c' = c)) as [->|Hne].
    + rewrite Hcn' in Hc'. injection Hc' as <-. destruct (R1 c cn Hcn) as [O1 O2].
      split; [intros e r; rewrite E1; apply O1|intros k r; rewrite E2; apply O2].
    + eapply same_sv_ok; [by apply Hsv|apply R1|done].
  - intros c' eid Hl. destruct (decide (c' = c)) as [->|Hne]; [done|].
    rewrite Hul by done. rewrite (same_sv_pend st st' c' eid (Hsv c' Hne)). apply R2. eapply same_sv_live; [by apply Hsv|done].
  - intros c' eid Hl. destruct (decide (c' = c)) as [->|Hne]; [done|].
    rewrite Hue by done. rewrite (same_sv_expq st st' c' eid (Hsv c' Hne)). apply R3. eapply same_sv_live; [by apply Hsv|done].
Qed.

Lemma same_sv_trans a b d c : same_sv_at a b c → same_sv_at b d c → same_sv_at a d c.
Proof. unfold same_sv_at. congruence. Qed.
Lemma same_sv_conns st st' c : conns st' !! c = conns st !! c → same_sv_at st st' c.
Proof. unfold same_sv_at. by intros ->. Qed.

Lemma disconnect_sv cfg st c :
  (∀ c', c' ≠ c → same_sv_at st (disconnect cfg st c).1 c') ∧
  (∀ cn, conns st !! c = Some cn → ∃ cn', conns (disconnect cfg st c).1 !! c = Some cn' ∧ c_open cn' = false ∧
                                          c_pposes cn' = c_pposes cn ∧ c_pcomps cn' = c_pcomps cn).
Proof.
  pose proof (disconnect_ctrans cfg st c) as T. split.
  - intros c' Hne. unfold same_sv_at. specialize (T c').
    destruct (conns (disconnect cfg st c).1 !! c') as [a|], (conns st !! c') as [b|]; simpl in *; try done.
    unfold at_conn in T. rewrite decide_False in T by done.
    assert (T' : cv a = cv b) by congruence. f_equal. apply cv_eq in T' as (?&?&?&?&?&?). by apply sv_eq.
  - intros cn Hc. destruct (ctrans_fwd _ _ _ _ _ T Hc) as (cn'&Hc'&Hcv). exists cn'. split; [done|].
    unfold at_conn in Hcv. rewrite decide_True in Hcv by done. apply cv_eq in Hcv as (?&?&?&?&?&?). simpl in *. done.
Qed.

(* updating the record of connection c *)
Lemma Rs_upd st c cn f ul ue ul' ue' :
  Rs st ul ue → conns st !! c = Some cn → conn_ok (f cn) → c_open (f cn) = c_open cn →
  (∀ c' x, c' ≠ c → ul' !! (c', x) = ul !! (c', x) ∧ ue' !! (c', x) = ue !! (c', x)) →
  (live st c → ∀ x, ul' !! (c, x) = c_pposes (f cn) !! x ≫= pose_of x ∧
                    default [] (ue' !! (c, x)) = queued_poses x (c_queue (f cn))) →
  Rs (upd_conn c f st) ul' ue'.
Proof.
  intros [R1 R2 R3] Hc Hok Ho Hoth Hat.
  assert (Hc' : conns (upd_conn c f st) !! c = Some (f cn)) by (by rewrite conns_upd_conn_eq, Hc).
  assert (Hlive : ∀ c', live (upd_conn c f st) c' → live st c').
  { intros c'. unfold live, open_of. rewrite conns_upd_conn. case_decide as Hd; [|done]. subst. rewrite Hc. simpl. by rewrite Ho. }
  split.
  - intros c' cn'. rewrite conns_upd_conn. case_decide as Hd; [subst; rewrite Hc; simpl; by intros [= <-]|apply R1].
  - intros c' eid Hl. apply Hlive in Hl as Hl0. destruct (decide (c' = c)) as [->|Hne].
    + destruct (Hat Hl0 eid) as [-> _]. unfold pend. by rewrite Hc'.
    + destruct (Hoth c' eid Hne) as [-> _]. rewrite (R2 c' eid Hl0). unfold pend. by rewrite conns_upd_conn_ne.
  - intros c' eid Hl. apply Hlive in Hl as Hl0. destruct (decide (c' = c)) as [->|Hne].
    + destruct (Hat Hl0 eid) as [_ ->]. unfold expq. by rewrite Hc'.
    + destruct (Hoth c' eid Hne) as [_ ->]. rewrite (R3 c' eid Hl0). unfold expq. by rewrite conns_upd_conn_ne.
Qed.

(* ---------- a frame ---------- *)
Lemma c11_move_lookup members ul ue k :
  c11_move members ul ue !! k =
  match ul !! k with
  | Some o => if memN (fst k) members then Some (default [] (ue !! k) ++ [o]) else ue !! k
  | None => ue !! k
  end.
Proof.
  unfold c11_move.
  assert (G : ∀ l : list ((N*N) * N), NoDup l.*1 →
    fold_right (λ (kv : (N*N) * N) m, <[fst kv := default [] (m !! fst kv) ++ [snd kv]]> m) ue
               (List.filter (λ kv : (N*N) * N, memN (fst (fst kv)) members) l) !! k =
    match (list_to_map l : gmap (N*N) N) !! k with
    | Some o => if memN (fst k) members then Some (default [] (ue !! k) ++ [o]) else ue !! k
    | None => ue !! k
    end).
  { induction l as [|[k0 o0] l IH]; intros Hnd; [done|]. apply NoDup_cons in Hnd as [Hn Hnd]. specialize (IH Hnd).
    cbn [List.filter fst snd]. rewrite list_to_map_cons.
    assert (Hk0 : (list_to_map l : gmap (N*N) N) !! k0 = None) by (by apply not_elem_of_list_to_map_1).
    destruct (decide (k = k0)) as [->|Hne].
    - rewrite lookup_insert. rewrite Hk0 in IH. destruct (memN k0.1 members) eqn:E; cbn [fold_right fst snd].
      + rewrite lookup_insert. by rewrite IH.
      + exact IH.
    - rewrite lookup_insert_ne by done. destruct (memN k0.1 members); cbn [fold_right fst snd]; [|exact IH].
      rewrite lookup_insert_ne by done. exact IH. }
  rewrite G by apply NoDup_fst_map_to_list. by rewrite list_to_map_to_list.
Qed.

Lemma members_conn sp sid c : memN c (map snd (sp_members sp sid)) = true ↔ ∃ p, sp_mem sp !! c = Some (sid, p).
Proof.
  rewrite memN_elem, elem_of_list_fmap. split.
  - intros ([p c']&->&H). apply elem_of_sp_members in H. eauto.
  - intros [p H]. exists (p, c). split; [done|]. by apply elem_of_sp_members.
Qed.

Lemma pending_pose_eq eid cn : pending_pose eid cn = match c_pposes cn !! eid ≫= pose_of eid with Some o => [o] | None => [] end.
Proof. unfold pending_pose. destruct (c_pposes cn !! eid) as [r|]; simpl; [|done]. by destruct (pose_of eid r). Qed.

Lemma Rs_tick st sid sp ul ue :
  inv st → frames_inv st → refines_mem sp st → Rs st ul ue →
  let members := map snd (sp_members sp sid) in
  Rs (tick st sid) (filter (λ kv : (N*N) * N, negb (memN (fst (fst kv)) members)) ul) (c11_move members ul ue).
Proof.
  intros I F R [R1 R2 R3] members.
  assert (Hmem : ∀ c, memN c members = true ↔ ∃ p, cur_of st c = Some (sid, p)).
  { intros c. unfold members. rewrite members_conn. by setoid_rewrite (rm_mem _ _ R c). }
  assert (Hconn : ∀ c, conns (tick st sid) !! c =
    (λ cn, if memN c members then flush cn else cn) <$> conns st !! c).
  { intros c. destruct (sessions st !! sid) as [SS|] eqn:HS.
    - rewrite (tick_conns st sid SS c HS). destruct (conns st !! c) as [cn|] eqn:Hc; simpl; [|done]. f_equal.
      assert (Hps : parts_of st sid = Some (s_parts SS)) by (unfold parts_of; by rewrite HS).
      destruct (memN c members) eqn:E.
      + apply Hmem in E as [p Hp]. rewrite decide_True; [done|]. apply (F sid SS HS). exists p. by apply (inv_parts _ I sid _ p c Hps).
      + rewrite decide_False; [done|]. intros [p Hp]%(F sid SS HS). apply (inv_parts _ I sid _ p c Hps) in Hp.
        assert (memN c members = true) by (apply Hmem; eauto). congruence.
    - rewrite (tick_conns_none st sid HS). destruct (conns st !! c) as [cn|] eqn:Hc; simpl; [|done]. f_equal.
      destruct (memN c members) eqn:E; [|done]. exfalso. apply Hmem in E as [p Hp].
      destruct (live_session _ _ (inv_live _ I _ _ _ Hp)) as [SS HS']. congruence. }
  assert (Hlive : ∀ c, live (tick st sid) c → live st c).
  { intros c. unfold live, open_of. rewrite Hconn. destruct (conns st !! c) as [cn|]; simpl; [|done]. by destruct (memN c members). }
  split.
  - intros c cn'. rewrite Hconn. destruct (conns st !! c) as [cn|] eqn:Hc; simpl; [|done]. intros [= <-].
    destruct (R1 c cn Hc) as [O1 O2]. destruct (memN c members); [|done].
    destruct (flush_queued 0 cn O1 O2) as (_&_&O3). split; [done|]. intros k r. simpl. by rewrite lookup_empty.
  - intros c eid Hl. apply Hlive in Hl as Hl0. rewrite (filter_lookup_b (λ kv : (N*N) * N, negb (memN kv.1.1 members))). simpl.
    rewrite (R2 c eid Hl0). unfold pend. rewrite Hconn. destruct (conns st !! c) as [cn|]; simpl; [|done].
    destruct (memN c members); simpl.
    + rewrite lookup_empty. simpl. by destruct (c_pposes cn !! eid ≫= pose_of eid).
    + by destruct (c_pposes cn !! eid ≫= pose_of eid).
  - intros c eid Hl. apply Hlive in Hl as Hl0. rewrite c11_move_lookup. cbn [fst].
    pose proof (R2 c eid Hl0) as E2. pose proof (R3 c eid Hl0) as E3. unfold pend, expq in *. rewrite Hconn.
    destruct (conns st !! c) as [cn|] eqn:Hc; simpl in *.
    2:{ rewrite E2. exact E3. }
    destruct (R1 c cn Hc) as [O1 O2]. destruct (memN c members).
    + destruct (flush_queued eid cn O1 O2) as (Q1&_&_). rewrite Q1, pending_pose_eq, <- E2, <- E3.
      destruct (ul !! (c, eid)); simpl; [done|by rewrite app_nil_r].
    + rewrite <- E3. by destruct (ul !! (c, eid)).
Qed.

(* ================= one step: the scheduler relation is kept ================= *)
Lemma queued_poses_cons eid r q :
  queued_poses eid (r :: q) = match pose_of eid r with Some o => o :: queued_poses eid q | None => queued_poses eid q end.
Proof. unfold queued_poses. simpl. by destruct (pose_of eid r). Qed.

Lemma Rs_fields st ul ue c cn :
  Rs st ul ue → conns st !! c = Some cn → live st c →
  ∀ x, ul !! (c, x) = c_pposes cn !! x ≫= pose_of x ∧ default [] (ue !! (c, x)) = queued_poses x (c_queue cn).
Proof.
  intros [_ R2 R3] Hc Hl x. specialize (R2 c x Hl). specialize (R3 c x Hl). unfold pend, expq in *. rewrite Hc in *. done.
Qed.

Lemma sched_step_ok cfg st o sp ul ue :
  inv st → frames_inv st → refines_mem sp st → Rs st ul ue →
  let e := ev_of st o (step cfg st o) in
  Rs (step cfg st o).1.1 (c11_sched sp e ul ue).1 (c11_sched sp e ul ue).2.
Proof.
  intros I F R RS e. pose proof RS as [R1 R2 R3].
  destruct o as [c|c r|c hint|sid|c|]; unfold e, ev_of, c11_sched; cbn [step consumed ev_op ev_req ev_verdict ev_outs].
  - (* connect *)
    destruct (conns st !! c) as [cn|] eqn:Hc; cbn [fst snd]; [done|].
    assert (Hlive : ∀ c', live (set_conns <[c:=conn0]> st) c' → live st c').
    { intros c'. unfold live, open_of. simpl. destruct (decide (c' = c)) as [->|Hne]; [by rewrite Hc|by rewrite lookup_insert_ne]. }
    split.
    + intros c' cn'. simpl. intros [[<- <-]|[_ H]]%lookup_insert_Some; [|by eapply R1].
      split; [intros k r; simpl; by rewrite lookup_empty|intros k r; simpl; by rewrite lookup_empty].
    + intros c' eid Hl. rewrite (R2 c' eid (Hlive c' Hl)). unfold pend. simpl.
      destruct (decide (c' = c)) as [->|Hne]; [by rewrite lookup_insert, Hc|by rewrite lookup_insert_ne].
    + intros c' eid Hl. rewrite (R3 c' eid (Hlive c' Hl)). unfold expq. simpl.
      destruct (decide (c' = c)) as [->|Hne]; [by rewrite lookup_insert, Hc|by rewrite lookup_insert_ne].
  - (* send *)
    unfold dispatch. destruct (conns st !! c) as [cn|] eqn:Hc; [|by destruct r].
    destruct (c_open cn) eqn:Ho; [|by destruct r]. cbn [negb].
    destruct (R1 c cn Hc) as [O1 O2].
    assert (Hq : ∀ r', (∀ x, pose_of x r' = None) →
      Rs (upd_conn c (λ cn0, set_queue (c_queue cn0 ++ [r']) cn0) st) ul ue).
    { intros r' Hr'. eapply (Rs_upd st c cn); try done.
      intros Hl x. destruct (Rs_fields st ul ue c cn RS Hc Hl x) as [E1 E2]. split; [exact E1|]. simpl.
      rewrite queued_poses_app, E2. unfold queued_poses at 2. simpl. rewrite Hr'. by rewrite app_nil_r. }
    destruct r; cbn [fst snd]; try (apply Hq; by intros).
    + (* a pose update: the slot of the entity is overwritten *)
      eapply (Rs_upd st c cn); try done.
      * split; [|done]. intros k r. simpl. intros [[<- <-]|[_ H]]%lookup_insert_Some; [eauto|by apply O1].
      * intros c' x Hne. split; [|done]. rewrite lookup_insert_ne; [done|]. intros [= ? ?]. done.
      * intros Hl x. destruct (Rs_fields st ul ue c cn RS Hc Hl x) as [E1 E2]. simpl. split; [|exact E2].
        destruct (decide (x = eid)) as [->|Hne].
        -- rewrite !lookup_insert. simpl. by rewrite N.eqb_refl.
        -- rewrite lookup_insert_ne by congruence. rewrite lookup_insert_ne by done. exact E1.
    + (* a component update *)
      eapply (Rs_upd st c cn); try done.
      * split; [done|]. intros k r. simpl. intros [[<- <-]|[_ H]]%lookup_insert_Some; [eauto|by eapply O2].
      * intros Hl x. by apply (Rs_fields st ul ue c cn RS Hc Hl x).
    + (* undecodable *)
      destruct (ty =? 14) eqn:E14; [|apply Hq; by intros].
      destruct (disconnect_sv cfg st c) as [D1 D2]. destruct (D2 cn Hc) as (cn'&Hc'&Ho'&E1&E2).
      destruct (disconnect cfg st c) as [st1 o1]. cbn [fst snd] in *.
      by eapply (Rs_close st st1 c cn cn').
  - (* step *)
    destruct (conns st !! c) as [cn|] eqn:Hc; [|done].
    destruct (c_open cn) eqn:Ho; [|done]. cbn [negb].
    destruct (c_queue cn) as [|r q] eqn:Hq; [done|]. cbn [head].
    set (st0 := upd_conn c (set_queue q) st) in *.
    assert (Hs0 : same_mem st st0) by (apply same_mem_upd_conn; by intros []).
    assert (I0 : inv st0) by by eapply inv_same_mem.
    assert (Hc0 : conns st0 !! c = Some (set_queue q cn)) by (unfold st0; by rewrite conns_upd_conn_eq, Hc).
    assert (Hlive0 : ∀ sid p, c_cur (set_queue q cn) = Some (sid, p) → is_Some (sessions st0 !! sid)).
    { intros sid p Hcur. apply live_session. apply (inv_live _ I0 c sid p). unfold cur_of. by rewrite Hc0. }
    destruct (R1 c cn Hc) as [O1 O2].
    assert (Hl : live st c). { unfold live, open_of. rewrite Hc. simpl. by rewrite Ho. }
    pose proof (step_verdict cfg st (OStep c hint) I) as Hvp. simpl in Hvp. rewrite Hc, Ho in Hvp. simpl in Hvp. rewrite Hq in Hvp. fold st0 in Hvp.
    destruct (handle cfg st0 c r hint) as [[st1 o1] v] eqn:Eh.
    pose proof (handle_sv cfg st0 c _ r hint st1 o1 v Hc0 Hlive0 Eh) as Hsv.
    (* the expectation table after the consumption *)
    set (ue1 := match r with RPose eid po ots => <[(c, eid) := tl (default [] (ue !! (c, eid)))]> ue | _ => ue end).
    assert (RS0 : Rs st0 ul ue1).
    { eapply (Rs_upd st c cn (set_queue q)); try done.
      - intros c' x Hne. split; [done|]. unfold ue1. destruct r; try done. rewrite lookup_insert_ne; [done|]. intros [= ? ?]. done.
      - intros _ x. destruct (Rs_fields st ul ue c cn RS Hc Hl x) as [E1 E2]. split; [exact E1|]. simpl.
        rewrite Hq, queued_poses_cons in E2. unfold ue1. destruct r; simpl in E2; try exact E2.
        destruct (decide (x = eid)) as [->|Hne].
        + rewrite lookup_insert. rewrite N.eqb_refl in E2. simpl. by rewrite E2.
        + rewrite lookup_insert_ne by congruence. apply N.eqb_neq in Hne. rewrite N.eqb_sym, Hne in E2. exact E2. }
    assert (RS1 : Rs st1 ul ue1) by (by eapply Rs_sv).
    destruct v; cbn [fst snd].
    + destruct r; exact RS1.
    + (* the handler failed: the connection is ended *)
      destruct (disconnect_sv cfg st1 c) as [D1 D2].
      pose proof (Hsv c) as Hsvc. unfold same_sv_at in Hsvc. rewrite Hc0 in Hsvc.
      destruct (conns st1 !! c) as [cn1|] eqn:Hc1; [|done]. simpl in Hsvc.
      assert (Hsv1 : sv cn1 = sv (set_queue q cn)) by congruence. apply sv_eq in Hsv1 as (?&?&E3&E4). simpl in E3, E4.
      destruct (D2 cn1 eq_refl) as (cn2&Hc2&Ho2&E5&E6).
      destruct (disconnect cfg st1 c) as [st2 o2]. cbn [fst snd] in *.
      assert (Hoth : ∀ c', c' ≠ c → same_sv_at st st2 c').
      { intros c' Hne. eapply same_sv_trans; [|by apply D1]. eapply same_sv_trans; [|apply Hsv].
        apply same_sv_conns. unfold st0. by rewrite conns_upd_conn_ne. }
      assert (G : Rs st2 (drop_conn c ul) (match r with RPose eid po ots => <[(c, eid) := tl (default [] (ue !! (c, eid)))]> (drop_conn c ue)
                                                   | _ => drop_conn c ue end)).
      { eapply (Rs_close st st2 c cn cn2); try done; try congruence.
        - intros c' x Hne. rewrite drop_conn_lookup. apply N.eqb_neq in Hne. by rewrite Hne.
        - intros c' x Hne. assert (Hd : drop_conn c ue !! (c', x) = ue !! (c', x)).
          { rewrite drop_conn_lookup. apply N.eqb_neq in Hne. by rewrite Hne. }
          destruct r; try exact Hd. rewrite lookup_insert_ne; [exact Hd|]. intros [= ? ?]. done. }
      destruct r; exact G.
    + destruct r; exact RS1.
    + by destruct Hvp.
  - (* tick *)
    cbn [fst snd]. by apply Rs_tick.
  - (* disconnect *)
    assert (Hdrop : conns st !! c = None ∨ open_of st c = Some false → Rs st (drop_conn c ul) (drop_conn c ue)).
    { intros Hno. split; [exact R1| |].
      - intros c' eid Hl'. rewrite drop_conn_lookup. destruct (N.eqb_spec c' c) as [->|Hne]; [|by apply R2].
        destruct Hno as [Hno|Hno]; [|done]. unfold pend. by rewrite Hno.
      - intros c' eid Hl'. rewrite drop_conn_lookup. destruct (N.eqb_spec c' c) as [->|Hne]; [|by apply R3].
        destruct Hno as [Hno|Hno]; [|done]. unfold expq. by rewrite Hno. }
    destruct (conns st !! c) as [cn|] eqn:Hc; cbn [fst snd]; [|apply Hdrop; by left].
    destruct (c_open cn) eqn:Ho; cbn [negb fst snd].
    2:{ apply Hdrop. right. unfold open_of. rewrite Hc. simpl. by rewrite Ho. }
    destruct (disconnect_sv cfg st c) as [D1 D2]. destruct (D2 cn Hc) as (cn'&Hc'&Ho'&E1&E2).
    destruct (disconnect cfg st c) as [st1 o1]. cbn [fst snd] in *.
    eapply (Rs_close st st1 c cn cn'); try done.
    + intros c' x Hne. rewrite drop_conn_lookup. apply N.eqb_neq in Hne. by rewrite Hne.
    + intros c' x Hne. rewrite drop_conn_lookup. apply N.eqb_neq in Hne. by rewrite Hne.
  - done.
Qed.

(* ================= who a broadcast reaches, in terms of the spec's membership table ================= *)
Lemma NoDup_sp_members' sp sid : NoDup (sp_members sp sid).
Proof. rewrite sp_members_eq. unfold sort_by. apply NoDup_isort, NoDup_mem_pairs. Qed.
Lemma NoDup_sp_others' sp sid p : NoDup (sp_others sp sid p).
Proof. apply NoDup_List_filter, NoDup_sp_members'. Qed.
Lemma NoDup_others' SS p : NoDup (others SS p).
Proof. apply (NoDup_fmap_1 fst), NoDup_others_fst. Qed.
Lemma sp_others_perm' sp st sid p SS :
  inv st → (∀ c, sp_mem sp !! c = cur_of st c) → sessions st !! sid = Some SS →
  sp_others sp sid p ≡ₚ others SS p.
Proof.
  intros I Hm HS. assert (Hps : parts_of st sid = Some (s_parts SS)) by (unfold parts_of; by rewrite HS).
  apply NoDup_Permutation; [apply NoDup_sp_others'|apply NoDup_others'|].
  intros [q cq]. rewrite elem_of_sp_others, elem_of_others, Hm. by rewrite (inv_parts _ I sid _ q cq Hps).
Qed.
Lemma same_lines_perm' l1 l2 : l1 ≡ₚ l2 → same_lines l1 l2 = true.
Proof. intros H. unfold same_lines, lines. apply bool_decide_eq_true. apply sort_lines_perm. by apply fmap_Permutation. Qed.
Lemma to_all_broadcast' sp st sid p SS S1 m :
  inv st → (∀ c, sp_mem sp !! c = cur_of st c) → sessions st !! sid = Some SS → s_parts S1 = s_parts SS →
  broadcast S1 p m ≡ₚ to_all (sp_others sp sid p) m.
Proof.
  intros I Hm HS Hp. unfold broadcast, to_all. rewrite (others_parts_eq S1 SS p Hp).
  apply fmap_Permutation. symmetry. by eapply sp_others_perm'.
Qed.

(* ================= the clauses of P_C11 that do not concern u_deleted ================= *)
(* what the consumption of a pose update must look like (1101, 1102, 1103, 1105) *)
Definition c11_step_clauses (cfg : config) (i : nat) (sp : spec) (ue : gmap (N*N) (list N)) (e : event) : list violation :=
  match ev_op e with
  | OStep c _ =>
      match ev_req e with
      | Some (RPose eid po ots) =>
          okv i (bool_decide (head (default [] (ue !! (c, eid))) = Some ots)) 1101 [zn c; zn eid; zn ots] ++
          match sp_mem sp !! c with
          | None => []
          | Some (sid, p) =>
              match ev_verdict e with
              | VPanic => [viol i 1105 [zn c; zn eid]]
              | _ =>
                match pose_accepted sp sid p eid po, po with
                | Some _, Some ps =>
                    if flag_on cfg F_POSE_B then [] else
                    okv i (same_lines (ev_outs e) (to_all (sp_others sp sid p) (MPoseB ots eid ps))) 1102 [zn c; zn eid; zn ots]
                | _, _ => okv i (bool_decide (ev_outs e = [])) 1103 [zn c; zn eid; zn ots]
                end
              end
          end
      | _ => []
      end
  | _ => []
  end.
(* a flushed update is in the queue until it is consumed (1106) *)
Definition c11_queue_clause (i : nat) (ue : gmap (N*N) (list N)) (e : event) : list violation :=
  match ev_op e with
  | OSnap =>
      flat_map (λ d : delivery, match snd d with
        | MSnap _ _ q =>
            flat_map (λ kv : (N * N) * list N,
              match kv.2 with
              | [] => []
              | _ => if existsb (λ cn : N * N, (cn.1 =? kv.1.1) && (cn.2 =? 0)) q then [viol i 1106 [zn kv.1.1; zn kv.1.2]] else []
              end) (map_to_list ue)
        | _ => [] end) (ev_outs e)
  | _ => []
  end.
Definition k11 : snapsel := {| k_parts := false; k_ents := true; k_comps := false; k_acts := false; k_assets := false;
                               k_types := false; k_subs := false; k_reg := false |}.

Lemma P_C11_event_viol cfg i sp sp' s e :
  (P_C11_event cfg i sp sp' s e).2 =
  (c11_deliveries i s (ev_outs e)).2 ++
  (c11_step_clauses cfg i sp (u_expect s) e ++ snap_check cfg k11 1100 i sp e ++ c11_queue_clause i (u_expect s) e).
Proof.
  unfold P_C11_event, c11_step_clauses, c11_queue_clause, snap_check. destruct (c11_deliveries_sched i s (ev_outs e)) as [D1 D2].
  destruct (c11_deliveries i s (ev_outs e)) as [s1 v1]. cbn [fst snd] in *.
  set (s1' := match actor e with
              | Some c => if negb (mem_changed sp sp' e c) then s1
                          else {| u_last := u_last s1; u_expect := u_expect s1; u_deleted := delete c (u_deleted s1) |}
              | None => s1 end).
  assert (E2 : u_expect s1' = u_expect s) by (unfold s1'; destruct (actor e) as [c|]; [destruct (negb _)|]; done).
  clearbody s1'. destruct (ev_op e) as [c|c r|c hint|sid|c|]; cbn [fst snd]; rewrite ?E2, ?app_nil_r; try done.
  - destruct r; try done. by destruct (ev_verdict e).
  - destruct (ev_req e) as [[]|]; cbn [fst snd]; rewrite ?E2, ?app_nil_r; done.
Qed.

Lemma c11_step_clauses_ok cfg st o sp ul ue i :
  inv st → refines_mem sp st → refines_ents sp st → Rs st ul ue →
  c11_step_clauses cfg i sp ue (ev_of st o (step cfg st o)) = [].
Proof.
  intros I R E RS. unfold c11_step_clauses, ev_of. destruct o as [c|c r|c hint|sid|c|]; try done.
  cbn [ev_op ev_req ev_outs ev_verdict consumed step].
  destruct (conns st !! c) as [cn|] eqn:Hc; [|done].
  destruct (c_open cn) eqn:Ho; [|done]. cbn [negb].
  destruct (c_queue cn) as [|r q] eqn:Hq; [done|]. cbn [head].
  destruct r; try done.
  assert (Hl : live st c). { unfold live, open_of. rewrite Hc. simpl. by rewrite Ho. }
  destruct (Rs_fields st ul ue c cn RS Hc Hl eid) as [_ E2]. rewrite Hq, queued_poses_cons in E2. simpl in E2.
  rewrite N.eqb_refl in E2. rewrite E2. cbn [head]. rewrite bool_decide_eq_true_2 by done. cbn [okv app].
  rewrite (rm_mem _ _ R c). unfold cur_of. rewrite Hc. simpl.
  destruct (c_cur cn) as [[sid p0]|] eqn:Hcur; [|done].
  set (st0 := upd_conn c (set_queue q) st) in *.
  assert (Hcur0 : cur_of st c = Some (sid, p0)) by (unfold cur_of; by rewrite Hc).
  destruct (live_session _ _ (inv_live _ I _ _ _ Hcur0)) as [SS HS].
  assert (Hc0 : conns st0 !! c = Some (set_queue q cn)) by (unfold st0; by rewrite conns_upd_conn_eq, Hc).
  unfold handle. rewrite Hc0. change (c_cur (set_queue q cn)) with (c_cur cn). rewrite Hcur.
  change (sessions st0) with (sessions st). rewrite HS.
  unfold pose_accepted. rewrite (E sid eid). unfold ents_at. rewrite HS. simpl.
  destruct (s_ents SS !! eid) as [ent|] eqn:He; simpl.
  2:{ by destruct p. }
  destruct p as [ps|]; [|done]. destruct (N.eqb_spec (e_owner ent) p0) as [Hown|Hown]; simpl; [|done].
  destruct (flag_on cfg F_POSE_B); [done|]. simpl.
  rewrite same_lines_perm'; [done|]. eapply (to_all_broadcast' sp st sid p0 SS); try done. apply (rm_mem _ _ R).
Qed.

Lemma c11_queue_clause_ok cfg st o ul ue i :
  Rs st ul ue → c11_queue_clause i ue (ev_of st o (step cfg st o)) = [].
Proof.
  intros RS. unfold c11_queue_clause, ev_of. destruct o as [c|c r|c hint|sid|c|]; try done.
  cbn [ev_op ev_outs step fst snd flat_map snapshot]. rewrite app_nil_r.
  apply flat_map_nil_all. intros [[c eid] l] Hin. apply elem_of_map_to_list in Hin. cbn [fst snd].
  destruct l as [|x l]; [done|].
  destruct (existsb _ _) eqn:Ex; [|done]. exfalso.
  apply existsb_exists in Ex as ([c' n]&Hin'&Hcn). simpl in Hcn. apply andb_true_iff in Hcn as [->%N.eqb_eq ->%N.eqb_eq].
  apply elem_of_list_In, elem_of_list_omap in Hin' as ([c' cn]&Hcn&Hf). apply elem_of_map_to_list in Hcn. simpl in Hf.
  destruct (c_open cn) eqn:Ho; [|done]. injection Hf as -> Hlen.
  assert (Hl : live st c). { unfold live, open_of. rewrite Hcn. simpl. by rewrite Ho. }
  destruct (Rs_fields st ul ue c cn RS Hcn Hl eid) as [_ E2]. rewrite Hin in E2. simpl in E2.
  destruct (c_queue cn); [done|]. simpl in Hlen. lia.
Qed.

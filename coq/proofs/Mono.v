(* proofs/Mono.v — what a per-session transition can and cannot change: counters only grow,
   ids are issued by incrementing them, an entity keeps its owner / persist bit / flag while it
   lives, registered type names stay registered.  (Inside one incarnation: Some SS -> Some SS'.) *)
From stdpp Require Import relations.
From hagall Require Import Model.
From hagall.proofs Require Import BaseLemmas Relay Inv Session Local Trans WF.
From Coq Require Import Lia.

Record stable (SS SS' : session) : Prop := {
  sb_uuid : s_uuid SS' = s_uuid SS;
  sb_pgen : s_pgen SS ≤ s_pgen SS';
  sb_egen : s_egen SS ≤ s_egen SS';
  sb_agen : s_agen SS ≤ s_agen SS';
  sb_tgen : st_gen (s_store SS) ≤ st_gen (s_store SS');
  (* an entity that is there before and after is the same entity *)
  sb_owner : ∀ e ent ent', s_ents SS !! e = Some ent → s_ents SS' !! e = Some ent' →
      e_owner ent' = e_owner ent ∧ e_persist ent' = e_persist ent ∧ e_flag ent' = e_flag ent;
  (* new ids come from the counters *)
  sb_new_ent : ∀ e, s_ents SS !! e = None → is_Some (s_ents SS' !! e) → s_egen SS < e ≤ s_egen SS';
  sb_new_part : ∀ p, s_parts SS !! p = None → is_Some (s_parts SS' !! p) → s_pgen SS < p ≤ s_pgen SS';
  sb_new_asset : ∀ e a, s_assets SS' !! e = Some a → s_assets SS !! e = Some a ∨ s_agen SS < as_id a ≤ s_agen SS';
  (* the type registry only grows, and only by fresh ids *)
  sb_types : ∀ t n, st_names (s_store SS) !! t = Some n → st_names (s_store SS') !! t = Some n;
  sb_new_type : ∀ t, st_names (s_store SS) !! t = None → is_Some (st_names (s_store SS') !! t) →
      st_gen (s_store SS) < t ≤ st_gen (s_store SS')
}.

Ltac stb_auto :=
  try done; try lia;
  try (intros e9 ent9 ent9' H91 H92; by simplify_eq);
  try (intros x9 H9 [y9 Hy9]; congruence);
  try (intros e9 a9 H9; by left);
  try (intros t9 n9 H9; done).

Lemma stable_refl SS : stable SS SS.
Proof.
  split; stb_auto.
Qed.

Lemma stable_sstep cfg k c p own SS r :
  k + 1 < two32 → wf cfg k SS → stable SS (sstep cfg c p own SS r).1.1.
Proof.
  intros Hk [W1 W2 W3 W4 W5 W6 W7 W8 W9 W10 W11 W12].
  destruct r; simpl; try apply stable_refl.
  - (* entity add *)
    assert (Hs : u32_succ (s_egen SS) = s_egen SS + 1) by (apply u32_succ_small; lia).
    split; simpl; stb_auto.
    + intros e ent ent' H1. destruct (decide (e = u32_succ (s_egen SS))) as [->|Hne].
      * specialize (W3 _ _ H1). lia.
      * rewrite lookup_insert_ne by done. intros H2. by simplify_eq.
    + intros e H [x Hx]. apply lookup_insert_Some in Hx as [[<- _]|[_ Hx]]; [lia|congruence].
  - (* entity delete *)
    destruct (s_ents SS !! eid) as [e|] eqn:He; [destruct (negb (e_owner e =? p)); [apply stable_refl|]|]; simpl.
    + set (S1 := set_ents (delete eid) (set_store (store_delete_entity eid) SS)).
      pose proof (cleanup_modules_fields cfg eid S1) as (F1&F2&F3&F4&F5&F6&F7&F8&_).
      split; rewrite ?F1, ?F2, ?F3, ?F4, ?F5, ?F6; simpl; stb_auto.
      * unfold cleanup_modules. by repeat case_match.
      * intros e0 ent ent' H1 [_ H2]%lookup_delete_Some. by simplify_eq.
      * intros e0 H [x [_ Hx]%lookup_delete_Some]. congruence.
      * intros e0 a H. left. pose proof (lookup_weaken _ _ _ _ H F8) as H'. done.
    + pose proof (cleanup_modules_fields cfg eid SS) as (F1&F2&F3&F4&F5&F6&F7&F8&_).
      split; rewrite ?F1, ?F2, ?F3, ?F4, ?F5, ?F6; simpl; stb_auto.
      * unfold cleanup_modules. by repeat case_match.
      * intros e0 a H. left. by apply (lookup_weaken _ _ _ _ H F8).
  - (* pose *)
    destruct (s_ents SS !! eid) as [e|] eqn:He; [|apply stable_refl]. destruct p0 as [ps|]; [|apply stable_refl].
    destruct (negb (e_owner e =? p)); [apply stable_refl|]. simpl.
    split; simpl; stb_auto.
    + intros e0 ent ent' H1. destruct (decide (e0 = eid)) as [->|Hne].
      * rewrite lookup_insert. intros [= <-]. simpl. by simplify_eq.
      * rewrite lookup_insert_ne by done. intros H2. by simplify_eq.
    + intros e0 H [x Hx]. apply lookup_insert_Some in Hx as [[<- _]|[_ Hx]]; congruence.
  - repeat case_match; apply stable_refl.
  - (* type add *)
    destruct (name =? 0); [apply stable_refl|]. unfold store_add_type.
    destruct (st_ids (s_store SS) !! name) as [tid|] eqn:Eid; simpl.
    { split; simpl; stb_auto. }
    assert (Hs : u32_succ (st_gen (s_store SS)) = st_gen (s_store SS) + 1) by (apply u32_succ_small; lia).
    split; simpl; stb_auto.
    + intros t n H. destruct (decide (t = u32_succ (st_gen (s_store SS)))) as [->|Hne]; [|by rewrite lookup_insert_ne].
      destruct (W6 _ _ H). lia.
    + intros t H [x Hx]. apply lookup_insert_Some in Hx as [[<- _]|[_ Hx]]; [lia|congruence].
  - repeat case_match; apply stable_refl.
  - repeat case_match; apply stable_refl.
  - (* component add *)
    repeat case_match; try apply stable_refl; simpl.
    all: split; simpl; stb_auto.
  - repeat case_match; try apply stable_refl; simpl.
    all: split; simpl; stb_auto.
  - repeat case_match; try apply stable_refl; simpl.
    all: split; simpl; stb_auto.
  - repeat case_match; apply stable_refl.
  - repeat case_match; try apply stable_refl; simpl.
    all: split; simpl; stb_auto.
  - destruct (tid =? 0); [apply stable_refl|]. simpl.
    split; simpl; stb_auto.
  - repeat case_match; try apply stable_refl; simpl.
    all: split; simpl; stb_auto.
  - (* asset add *)
    repeat case_match; try apply stable_refl. simpl.
    assert (Hs : u32_succ (s_agen SS) = s_agen SS + 1) by (apply u32_succ_small; lia).
    split; simpl; stb_auto.
    intros e9 a9 [[<- <-]|[_ H9]]%lookup_insert_Some; [right; simpl; lia|by left].
Qed.

Lemma stable_left cfg c p own SS : stable SS (left_session cfg c p own SS).
Proof.
  unfold left_session. cbv zeta.
  set (S1 := module_disconnect cfg own SS).
  set (S2 := set_store (store_set_subs (fmap (λ s : gset N, s ∖ {[p]}))) S1).
  pose proof (remove_doomed_spec cfg p (doomed S2 own) S2) as (R1&R2&R3&R4&R5&R6&R7&R8&R9&R10&R11).
  pose proof (remove_doomed_parts cfg p (doomed S2 own) S2) as (P1&P2&_).
  set (S3 := (remove_doomed cfg p (doomed S2 own) S2).1) in *.
  assert (E1 : s_ents S2 = s_ents SS) by (unfold S2, S1, module_disconnect; by repeat case_match).
  assert (E3 : st_names (s_store S2) = st_names (s_store SS)) by (unfold S2, S1, module_disconnect; by repeat case_match).
  assert (E5 : st_gen (s_store S2) = st_gen (s_store SS)) by (unfold S2, S1, module_disconnect; by repeat case_match).
  assert (E6 : s_egen S2 = s_egen SS ∧ s_agen S2 = s_agen SS ∧ s_pgen S2 = s_pgen SS ∧ s_parts S2 = s_parts SS ∧ s_uuid S2 = s_uuid SS)
    by (unfold S2, S1, module_disconnect; by repeat case_match).
  assert (E8 : s_assets S2 ⊆ s_assets SS).
  { unfold S2, S1, module_disconnect. repeat case_match; simpl; try done; apply map_filter_subseteq. }
  destruct E6 as (E6a&E6b&E6c&E6d&E6e).
  split; simpl; rewrite ?P2, ?R9, ?R10, ?R6, ?R11, ?E6a, ?E6b, ?E6c, ?E5, ?E6e; try done.
  - intros e ent ent' H1. rewrite R1, E1. case_bool_decide; [done|]. intros H2. by simplify_eq.
  - intros e H. rewrite R1, E1. case_bool_decide; intros [x Hx]; congruence.
  - intros q H. rewrite P1, E6d. intros [x [_ Hx]%lookup_delete_Some]. congruence.
  - intros e a. rewrite R8. intros H. left. by apply (lookup_weaken _ _ _ _ H E8).
  - intros t n. by rewrite R3, E3.
  - intros t H. rewrite R3, E3. intros [x Hx]. congruence.
Qed.

Lemma stable_entered k cfg SS c : k + 1 < two32 → wf cfg k SS → stable SS (entered SS c).
Proof.
  intros Hk [W1 W2 _ _ _ _ _ _ _ _ _ _]. unfold entered.
  assert (Hs : u32_succ (s_pgen SS) = s_pgen SS + 1) by (apply u32_succ_small; lia).
  split; simpl; stb_auto.
  intros q H [x Hx]. apply lookup_insert_Some in Hx as [[<- _]|[_ Hx]]; [lia|congruence].
Qed.

Theorem stable_trans cfg k SS SS' :
  k + 1 < two32 → wf cfg k SS → sess_trans cfg (Some SS) (Some SS') → stable SS SS'.
Proof.
  intros Hk W H. inversion H; subst.
  - by eapply stable_sstep.
  - apply stable_left.
  - by eapply stable_entered.
Qed.

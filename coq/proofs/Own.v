(* proofs/Own.v — the own-set of a member connection (Go: Participant.entityIDs) is exactly the set of
   ids of the entities of its session whose owner field is its participant id, in every reachable state.
   Consequence: what a departure removes ([doomed … (c_own cn)], computed from the own-set) is exactly the
   leaver's non-persistent entities in the sense of the owner field (the sense of C06 and of Spec.sp_gone). *)
From stdpp Require Import relations.
From hagall Require Import Model.
From hagall.proofs Require Import BaseLemmas Relay Inv Session Local Trans WF Mono Reach PC02 PC06.
From Coq Require Import Lia.

(* ---------- the invariant ---------- *)
Definition owned (m : gmap N entity) (p eid : N) : Prop := ∃ e, m !! eid = Some e ∧ e_owner e = p.

Definition own_inv (st : state) : Prop :=
  ∀ c cn sid p SS, conns st !! c = Some cn → c_cur cn = Some (sid, p) → sessions st !! sid = Some SS →
    ∀ eid, eid ∈ c_own cn ↔ ∃ e, s_ents SS !! eid = Some e ∧ e_owner e = p.

(* the two fields of a connection the invariant reads *)
Definition mem_of (st : state) (c : N) : option (option (N * N) * gset N) :=
  (λ cn, (c_cur cn, c_own cn)) <$> conns st !! c.

Lemma own_inv_alt st :
  own_inv st ↔
  ∀ c sid p own SS, mem_of st c = Some (Some (sid, p), own) → sessions st !! sid = Some SS →
    ∀ eid, eid ∈ own ↔ owned (s_ents SS) p eid.
Proof.
  unfold own_inv, mem_of, owned. split.
  - intros H c sid p own SS Hm HS. destruct (conns st !! c) as [cn|] eqn:Hc; [|done].
    simpl in Hm. injection Hm as Hcur <-. by eapply H.
  - intros H c cn sid p SS Hc Hcur HS. apply (H c sid p (c_own cn) SS); [|done].
    by rewrite Hc; simpl; rewrite Hcur.
Qed.

Lemma mem_of_cur st c cur own : mem_of st c = Some (cur, own) → cur_of st c = cur.
Proof.
  unfold mem_of, cur_of. destruct (conns st !! c) as [cn|]; [|done]. simpl. by intros [= <- _].
Qed.

Lemma mem_of_upd_conn st c f c' :
  (∀ cn, c_cur (f cn) = c_cur cn) → (∀ cn, c_own (f cn) = c_own cn) →
  mem_of (upd_conn c f st) c' = mem_of st c'.
Proof.
  intros H1 H2. unfold mem_of, upd_conn; simpl.
  destruct (conns st !! c) as [cn|] eqn:E; [|done].
  destruct (decide (c = c')) as [->|Hne].
  - rewrite lookup_insert, E. simpl. by rewrite H1, H2.
  - by rewrite lookup_insert_ne.
Qed.

Lemma mem_of_upd_conn_ne st c f c' : c' ≠ c → mem_of (upd_conn c f st) c' = mem_of st c'.
Proof.
  intros Hne. unfold mem_of, upd_conn; simpl.
  destruct (conns st !! c) as [cn|] eqn:E; [|done]. by rewrite lookup_insert_ne.
Qed.

Lemma mem_of_upd_conn_eq st c f cn :
  conns st !! c = Some cn → mem_of (upd_conn c f st) c = Some (c_cur (f cn), c_own (f cn)).
Proof.
  intros E. unfold mem_of, upd_conn; simpl. rewrite E. by rewrite lookup_insert.
Qed.

(* the invariant reads the entity maps of the sessions and [mem_of] only *)
Lemma own_inv_ext st st' :
  sessions st' = sessions st → (∀ c, mem_of st' c = mem_of st c) → own_inv st → own_inv st'.
Proof.
  rewrite !own_inv_alt. intros HS Hm H c sid p own SS. rewrite HS, Hm. apply H.
Qed.

Lemma own_inv_state0 : own_inv state0.
Proof. intros c cn sid p SS Hc. simpl in Hc. by rewrite lookup_empty in Hc. Qed.

(* two members of one session have different participant ids *)
Lemma members_differ st c c' sid p p' :
  inv st → cur_of st c = Some (sid, p) → cur_of st c' = Some (sid, p') → c' ≠ c → p' ≠ p.
Proof.
  intros I H1 H2 Hne ->. destruct (inv_live _ I _ _ _ H1) as [ps Hps].
  apply (inv_parts _ I sid ps) in H1, H2; [|done|done]. congruence.
Qed.

(* the frame: connection [c], participant [p] of session [sid], acts; the other sessions and the other
   connections are untouched, the entities of the other participants of [sid] are untouched *)
Lemma own_inv_frame st st' c sid p SS :
  inv st → own_inv st → cur_of st c = Some (sid, p) → sessions st !! sid = Some SS →
  (∀ s, s ≠ sid → sessions st' !! s = sessions st !! s) →
  (∀ c', c' ≠ c → mem_of st' c' = mem_of st c') →
  (∀ SS' q eid, sessions st' !! sid = Some SS' → q ≠ p → owned (s_ents SS') q eid ↔ owned (s_ents SS) q eid) →
  (∀ cur own, mem_of st' c = Some (Some cur, own) →
     cur = (sid, p) ∧ ∀ SS', sessions st' !! sid = Some SS' → ∀ eid, eid ∈ own ↔ owned (s_ents SS') p eid) →
  own_inv st'.
Proof.
  intros I H Hcur HS Hs Hc Hothers Hself. rewrite own_inv_alt in H. apply own_inv_alt.
  intros c' sid' p' own SS' Hm HS' eid.
  destruct (decide (c' = c)) as [->|Hne].
  - destruct (Hself _ _ Hm) as [[= -> ->] Hx]. by apply Hx.
  - rewrite Hc in Hm by done. destruct (decide (sid' = sid)) as [->|Hsid].
    + pose proof (mem_of_cur _ _ _ _ Hm) as Hcur'.
      pose proof (members_differ _ _ _ _ _ _ I Hcur Hcur' Hne) as Hp.
      rewrite (Hothers _ _ _ HS' Hp). by apply (H c' sid p' own SS).
    + rewrite Hs in HS' by done. by apply (H c' sid' p' own SS').
Qed.

(* ---------- leave ---------- *)
Lemma own_leave cfg st c : inv st → own_inv st → own_inv (leave cfg st c).1.
Proof.
  intros I H. destruct (cur_of st c) as [[sid p]|] eqn:Hcur0;
    [|by rewrite (proj1 (leave_not_joined _ _ _ Hcur0))].
  pose proof Hcur0 as Hcur. unfold cur_of in Hcur.
  destruct (conns st !! c) as [cn|] eqn:Hc; [|done]. simpl in Hcur.
  destruct (live_session _ _ (inv_live _ I _ _ _ Hcur0)) as [SS HS].
  rewrite (leave_unfold _ _ _ _ _ _ _ Hc Hcur HS). cbv zeta.
  set (L := left_session cfg c p (c_own cn) SS).
  set (st1 := upd_conn c (λ cn, set_own (λ _, ∅) (set_cur None cn)) st).
  assert (Hm1 : ∀ c', c' ≠ c → mem_of st1 c' = mem_of st c') by (intros; by apply mem_of_upd_conn_ne).
  assert (Hm2 : mem_of st1 c = Some (None, ∅)) by (unfold st1; by rewrite (mem_of_upd_conn_eq _ _ _ _ Hc)).
  assert (HL : ∀ q eid, q ≠ p → owned (s_ents L) q eid ↔ owned (s_ents SS) q eid).
  { intros q eid Hq. unfold owned. destruct (left_fields cfg c p (c_own cn) SS) as (F1&_). fold L in F1.
    rewrite F1. case_bool_decide as Hr; [|done].
    destruct Hr as [Ho _]. apply (H c cn sid p SS Hc Hcur HS) in Ho as (e&He&Hp).
    split; [by intros (?&?&_)|]. intros (e'&He'&Hq'). congruence. }
  case_decide as Hempty.
  - apply (own_inv_frame st _ c sid p SS I H Hcur0 HS); simpl.
    + intros s Hs. by rewrite lookup_delete_ne.
    + intros c' Hc'. change (mem_of st1 c' = mem_of st c'). by apply Hm1.
    + intros SS' q eid. by rewrite lookup_delete.
    + intros cur own Hx. change (mem_of st1 c = Some (Some cur, own)) in Hx. by rewrite Hm2 in Hx.
  - apply (own_inv_frame st _ c sid p SS I H Hcur0 HS); simpl.
    + intros s Hs. by rewrite lookup_insert_ne.
    + intros c' Hc'. change (mem_of st1 c' = mem_of st c'). by apply Hm1.
    + intros SS' q eid. rewrite lookup_insert. intros [= <-]. apply HL.
    + intros cur own Hx. change (mem_of st1 c = Some (Some cur, own)) in Hx. by rewrite Hm2 in Hx.
Qed.

(* ---------- well-formed sessions ---------- *)
Definition swf (cfg : config) (k : N) (st : state) : Prop :=
  ∀ sid SS, sessions st !! sid = Some SS → wf cfg k SS.

Lemma swf_leave cfg k st c : inv st → swf cfg k st → swf cfg k (leave cfg st c).1.
Proof.
  intros I W. destruct (leave_sessions cfg st c I) as [(cn&s&p&SS&Hc&Hcur&HS&Hp&E)|[_ E]]; [|by rewrite E].
  intros sid SS'. rewrite E. case_decide as He.
  - intros [_ H]%lookup_delete_Some. by apply (W sid).
  - intros [[<- <-]|[_ H]]%lookup_insert_Some; [|by apply (W sid)]. apply wf_left. by apply (W s).
Qed.

(* the participant id the next joiner is handed owns nothing *)
Lemma next_pid_fresh cfg k SS e ent :
  wf cfg k SS → k + 1 < two32 → s_ents SS !! e = Some ent → e_owner ent ≠ u32_succ (s_pgen SS).
Proof.
  intros [W1 _ W3 _ _ _ _ _ _ _ _ _] Hk He. destruct (W3 _ _ He) as [_ H].
  rewrite u32_succ_small by lia. lia.
Qed.

(* ---------- enter ---------- *)
Lemma own_enter cfg st c rid n ots :
  own_inv st →
  (∀ SS e ent, sessions st !! n = Some SS → s_ents SS !! e = Some ent → e_owner ent ≠ u32_succ (s_pgen SS)) →
  own_inv (enter cfg st c rid n ots).1.1.
Proof.
  intros H Hfresh. unfold enter. destruct (sessions st !! n) as [SS|] eqn:HS; [|done].
  cbn [fst]. rewrite own_inv_alt in H. apply own_inv_alt.
  set (p := u32_succ (s_pgen SS)).
  set (S1 := set_frames (λ f, f ∪ {[c]}) (set_parts (<[p := c]>) (set_pgen p SS))).
  set (st3 := set_sessions (<[n := S1]>) st).
  set (f := λ cn, set_lat None (set_own (λ _, ∅) (set_cur (Some (n, p)) cn))).
  intros c' sid q own SS' Hm HS' eid.
  change (sessions (upd_conn c f st3)) with (<[n := S1]> (sessions st)) in HS'.
  assert (Hents : ∃ SS0, sessions st !! sid = Some SS0 ∧ s_ents SS' = s_ents SS0).
  { apply lookup_insert_Some in HS' as [[<- <-]|[_ HS']]; eauto. }
  destruct Hents as (SS0&HS0&->).
  destruct (decide (c' = c)) as [->|Hne].
  - destruct (conns st !! c) as [cn|] eqn:Hc.
    + assert (Hc3 : conns st3 !! c = Some cn) by exact Hc.
      rewrite (mem_of_upd_conn_eq _ _ _ _ Hc3) in Hm. simpl in Hm. injection Hm as <- <- <-.
      rewrite HS in HS0. injection HS0 as <-. split; [set_solver|].
      intros (e&He&Ho). exfalso. by eapply (Hfresh SS eid e).
    + unfold mem_of, upd_conn in Hm. simpl in Hm. rewrite Hc in Hm. simpl in Hm. rewrite Hc in Hm. done.
  - rewrite mem_of_upd_conn_ne in Hm by done. by apply (H c' sid q own SS0).
Qed.

(* ---------- create_session ---------- *)
Lemma own_create hint st n st' :
  inv st → nowrap st → own_inv st → create_session hint st = (n, st') → own_inv st'.
Proof.
  intros I W H Hcr. destruct (create_session_proj _ _ _ _ I W Hcr) as (Hfresh&_).
  destruct (create_sessions _ _ _ _ Hcr) as [E1 E2].
  rewrite own_inv_alt in H. apply own_inv_alt. intros c sid p own SS Hm HS.
  assert (Hm0 : mem_of st c = Some (Some (sid, p), own)) by (unfold mem_of in *; by rewrite <- E2).
  rewrite E1 in HS. apply lookup_insert_Some in HS as [[<- <-]|[_ HS]]; [|by apply (H c sid p own SS)].
  exfalso. apply mem_of_cur in Hm0. destruct (inv_live _ I _ _ _ Hm0) as [? ?]. congruence.
Qed.

Lemma swf_create cfg k hint st n st' :
  swf cfg k st → create_session hint st = (n, st') → swf cfg k st'.
Proof.
  intros W Hcr. destruct (create_sessions _ _ _ _ Hcr) as [E1 _]. intros sid SS. rewrite E1.
  intros [[<- <-]|[_ HS]]%lookup_insert_Some; [|by apply (W sid)].
  eapply wf_mono; [|apply wf_session0]. lia.
Qed.

(* ---------- join ---------- *)
Lemma own_join cfg st c rid sid ots hint k :
  inv st → nowrap st → swf cfg k st → k + 1 < two32 → own_inv st →
  own_inv (join cfg st c rid sid ots hint).1.1.
Proof.
  intros I W Wf Hk H. unfold join.
  destruct (conns st !! c) as [cn|] eqn:Hc; [|done].
  destruct (already_joined cn sid); [done|].
  pose proof (inv_leave cfg st c I) as I1.
  pose proof (leave_nowrap cfg st c I W) as W1.
  pose proof (swf_leave cfg k st c I Wf) as Wf1.
  pose proof (own_leave cfg st c I H) as H1.
  destruct (leave cfg st c) as [st1 o1]. simpl in *.
  destruct sid as [|n|j]; [| |done].
  - destruct (create_session hint st1) as [n st2] eqn:Hcr.
    pose proof (own_create _ _ _ _ I1 W1 H1 Hcr) as H2.
    pose proof (swf_create cfg k _ _ _ _ Wf1 Hcr) as Wf2.
    pose proof (own_enter cfg st2 c rid n ots H2) as H3.
    destruct (enter cfg st2 c rid n ots) as [[st3 o2] v]. simpl in *. apply H3.
    intros SS e ent HS. apply (next_pid_fresh cfg k); [by apply (Wf2 n)|done].
  - destruct (sessions st1 !! n) as [SS|] eqn:HS; [|done].
    pose proof (own_enter cfg st1 c rid n ots H1) as H3.
    destruct (enter cfg st1 c rid n ots) as [[st2 o2] v]. simpl in *. apply H3.
    intros SS' e ent HS'. apply (next_pid_fresh cfg k); [by apply (Wf1 n)|done].
Qed.

(* ---------- session-local requests ---------- *)
(* what a session-local request does to the entity map and to the sender's own-set: nothing, or one of
   add (fresh id, owner = sender), delete (an entity of the sender), move (owner kept) *)
Lemma sstep_ents cfg c p own SS r :
  let res := sstep cfg c p own SS r in
  (s_ents res.1.1 = s_ents SS ∧ res.1.2 = own) ∨
  (∃ e, e_owner e = p ∧ s_ents res.1.1 = <[u32_succ (s_egen SS) := e]> (s_ents SS) ∧
        res.1.2 = own ∪ {[u32_succ (s_egen SS)]}) ∨
  (∃ eid e, s_ents SS !! eid = Some e ∧ e_owner e = p ∧ s_ents res.1.1 = delete eid (s_ents SS) ∧
            res.1.2 = own ∖ {[eid]}) ∨
  (∃ eid e e1, s_ents SS !! eid = Some e ∧ e_owner e1 = e_owner e ∧
               s_ents res.1.1 = <[eid := e1]> (s_ents SS) ∧ res.1.2 = own).
Proof.
  destruct r; simpl; try (left; done).
  - (* entity add *) right; left. eexists. split; [|done]. done.
  - (* entity delete *)
    destruct (s_ents SS !! eid) as [e|] eqn:He.
    + destruct (negb (e_owner e =? p)) eqn:Eo; [left; done|]. right; right; left.
      apply negb_false_iff, N.eqb_eq in Eo. exists eid, e. simpl.
      set (S1 := set_ents (delete eid) (set_store (store_delete_entity eid) SS)).
      pose proof (cleanup_modules_fields cfg eid S1) as (_&_&_&_&_&F6&_). by rewrite F6.
    + left. simpl. pose proof (cleanup_modules_fields cfg eid SS) as (_&_&_&_&_&F6&_). by rewrite F6.
  - (* pose *)
    destruct (s_ents SS !! eid) as [e|] eqn:He; [|left; done]. destruct p0 as [ps|]; [|left; done].
    destruct (negb (e_owner e =? p)); [left; done|]. right; right; right. simpl.
    by exists eid, e, {| e_owner := e_owner e; e_persist := e_persist e; e_flag := e_flag e; e_pose := ps |}.
  - repeat case_match; left; done.
  - repeat case_match; left; done.
  - repeat case_match; left; done.
  - repeat case_match; left; done.
  - repeat case_match; left; done.
  - repeat case_match; left; done.
  - repeat case_match; left; done.
  - repeat case_match; left; done.
  - repeat case_match; left; done.
  - repeat case_match; left; done.
  - repeat case_match; left; done.
  - repeat case_match; left; done.
Qed.

Lemma sstep_owned cfg k c p own SS r :
  k + 1 < two32 → wf cfg k SS → (∀ eid, eid ∈ own ↔ owned (s_ents SS) p eid) →
  let res := sstep cfg c p own SS r in
  (∀ eid, eid ∈ res.1.2 ↔ owned (s_ents res.1.1) p eid) ∧
  (∀ q eid, q ≠ p → owned (s_ents res.1.1) q eid ↔ owned (s_ents SS) q eid).
Proof.
  intros Hk [W1 _ W3 _ _ _ _ _ _ _ _ _] Hown. cbv zeta.
  destruct (sstep_ents cfg c p own SS r) as [[-> ->]|[(e&Ho&->&->)|[(x&e&He&Ho&->&->)|(x&e&e1&He&Ho&->&->)]]].
  - done.
  - (* add *)
    set (x := u32_succ (s_egen SS)).
    assert (Hx : s_ents SS !! x = None).
    { destruct (s_ents SS !! x) as [ent|] eqn:E; [|done]. destruct (W3 _ _ E) as [[_ Hle] _].
      unfold x in Hle. rewrite u32_succ_small in Hle by lia. lia. }
    unfold owned. split.
    + intros eid. rewrite elem_of_union, elem_of_singleton, Hown. unfold owned.
      destruct (decide (eid = x)) as [->|Hne].
      * rewrite lookup_insert. split; [eauto|by right].
      * rewrite lookup_insert_ne by done. split; [intros [?|?]; done|by left].
    + intros q eid Hq. destruct (decide (eid = x)) as [->|Hne].
      * rewrite lookup_insert, Hx. split; [intros (?&[= <-]&?); congruence|by intros (?&?&_)].
      * by rewrite lookup_insert_ne.
  - (* delete *)
    unfold owned. split.
    + intros eid. rewrite elem_of_difference, elem_of_singleton, Hown. unfold owned.
      destruct (decide (eid = x)) as [->|Hne].
      * rewrite lookup_delete. split; [by intros [_ ?]|by intros (?&?&_)].
      * rewrite lookup_delete_ne by done. split; [by intros [? _]|done].
    + intros q eid Hq. destruct (decide (eid = x)) as [->|Hne].
      * rewrite lookup_delete, He. split; [by intros (?&?&_)|intros (?&[= <-]&?); congruence].
      * by rewrite lookup_delete_ne.
  - (* move *)
    assert (Hsame : ∀ q eid, owned (<[x := e1]> (s_ents SS)) q eid ↔ owned (s_ents SS) q eid).
    { intros q eid. unfold owned. destruct (decide (eid = x)) as [->|Hne].
      - rewrite lookup_insert, He. split; intros (?&[= <-]&?); eexists; (split; [done|congruence]).
      - by rewrite lookup_insert_ne. }
    split; [intros eid; by rewrite Hsame|intros q eid _; apply Hsame].
Qed.

Lemma own_apply_sstep cfg k st c cn sid p SS r :
  inv st → own_inv st → k + 1 < two32 → wf cfg k SS →
  conns st !! c = Some cn → c_cur cn = Some (sid, p) → sessions st !! sid = Some SS →
  own_inv (apply_sstep st c sid (sstep cfg c p (c_own cn) SS r)).1.1.
Proof.
  intros I H Hk W Hc Hcur HS.
  assert (Hcur0 : cur_of st c = Some (sid, p)) by (unfold cur_of; by rewrite Hc).
  destruct (sstep_owned cfg k c p (c_own cn) SS r Hk W (H c cn sid p SS Hc Hcur HS)) as [O1 O2].
  destruct (sstep cfg c p (c_own cn) SS r) as [[SS' own'] outs]. unfold apply_sstep. simpl in *.
  apply (own_inv_frame st _ c sid p SS I H Hcur0 HS).
  - intros s Hs. simpl. by rewrite lookup_insert_ne.
  - intros c' Hc'. by rewrite mem_of_upd_conn_ne.
  - intros SS0 q eid. simpl. rewrite lookup_insert. intros [= <-]. apply O2.
  - intros cur own.
    assert (Hc1 : conns (put_session st sid SS') !! c = Some cn) by exact Hc.
    rewrite (mem_of_upd_conn_eq _ _ _ _ Hc1). simpl. rewrite Hcur. intros [= <- <-]. split; [done|].
    intros SS0. rewrite lookup_insert. intros [= <-]. apply O1.
Qed.

(* ---------- requests that are neither a join nor session-local ---------- *)
Lemma on_ping_mem st c cn rid c' : mem_of (on_ping st c cn rid).1.1 c' = mem_of st c'.
Proof.
  unfold on_ping, send_ping. repeat case_match; simplify_eq; simpl; try done.
  all: rewrite mem_of_upd_conn by (by intros []); done.
Qed.

Lemma handle_joined_other_mem cfg st c cn sid p SS r hint c' :
  session_local r = false → is_join r = false →
  mem_of (handle_joined cfg st c cn sid p SS r hint).1.1 c' = mem_of st c'.
Proof.
  intros Hl Hj. destruct r; try discriminate Hl; try discriminate Hj; simpl.
  all: try (repeat case_match; simplify_eq; simpl; done).
  - apply on_ping_mem.
  - unfold send_ping. repeat case_match; simplify_eq; simpl; try done.
    rewrite mem_of_upd_conn by (by intros []). done.
Qed.

Lemma handle_unjoined_other_mem cfg st c cn r hint c' :
  is_join r = false → mem_of (handle_unjoined cfg st c cn r hint).1.1 c' = mem_of st c'.
Proof.
  intros Hj. destruct r; try discriminate Hj; simpl; repeat case_match; simplify_eq; simpl; done.
Qed.

(* ---------- handleMessage ---------- *)
Lemma own_handle cfg st c r hint k :
  inv st → nowrap st → swf cfg k st → k + 1 < two32 → own_inv st →
  own_inv (handle cfg st c r hint).1.1.
Proof.
  intros I W Wf Hk H. unfold handle. destruct (conns st !! c) as [cn|] eqn:Hc; [|done].
  destruct (c_cur cn) as [[s p]|] eqn:Hcur.
  - destruct (sessions st !! s) as [SS|] eqn:HS; [|done].
    destruct (is_join r) eqn:Hj.
    { destruct r; try discriminate Hj. simpl. by eapply own_join. }
    destruct (session_local r) eqn:Hl.
    + rewrite (handle_joined_sstep cfg st c cn s p SS r hint Hl Hc HS).
      eapply own_apply_sstep; try done. by apply (Wf s).
    + eapply own_inv_ext; [|intros c'; by apply handle_joined_other_mem|done].
      by apply handle_joined_other.
  - destruct (is_join r) eqn:Hj.
    { destruct r; try discriminate Hj. simpl. by eapply own_join. }
    eapply own_inv_ext; [|intros c'; by apply handle_unjoined_other_mem|done].
    by apply handle_unjoined_other.
Qed.

(* ---------- disconnect, tick ---------- *)
Lemma own_disconnect cfg st c : inv st → own_inv st → own_inv (disconnect cfg st c).1.
Proof.
  intros I H. unfold disconnect. pose proof (own_leave cfg st c I H) as H1.
  destruct (leave cfg st c) as [st1 o]. simpl in *.
  eapply own_inv_ext; [|intros c'; apply mem_of_upd_conn; by intros []|done]. done.
Qed.

Lemma tick_mem st sid c : mem_of (tick st sid) c = mem_of st c.
Proof.
  unfold tick. destruct (sessions st !! sid) as [SS|]; [|done]. unfold mem_of. simpl.
  apply (set_fold_ind_L (λ m _, (λ cn, (c_cur cn, c_own cn)) <$> m !! c =
                                (λ cn, (c_cur cn, c_own cn)) <$> conns st !! c)); [done|].
  intros x X' m Hx IH. destruct (m !! x) as [cn|] eqn:E; [|done].
  destruct (decide (x = c)) as [->|Hne].
  - rewrite lookup_insert. rewrite E in IH. simpl in *. by destruct cn.
  - by rewrite lookup_insert_ne.
Qed.

(* ---------- one operation ---------- *)
Theorem own_step cfg st o kb k :
  inv st → bounded kb st → kb + 1 < two32 → swf cfg k st → k + 1 < two32 → own_inv st →
  own_inv (step cfg st o).1.1.
Proof.
  intros I B Hkb Wf Hk H. pose proof (bounded_nowrap _ _ B Hkb) as W.
  destruct o as [c|c r|c hint|sid|c|]; simpl; try done.
  - (* connect *)
    destruct (conns st !! c) as [cn|] eqn:Hc; [done|]. simpl.
    intros c' cn' sid p SS. simpl. intros [[<- <-]|[_ Hc']]%lookup_insert_Some; [done|]. by apply (H c').
  - (* send *)
    unfold dispatch. destruct (conns st !! c) as [cn|] eqn:Hc; [|done].
    destruct (c_open cn) eqn:Ho; [|done]. simpl.
    assert (Hq : ∀ f, (∀ cn, c_cur (f cn) = c_cur cn) → (∀ cn, c_own (f cn) = c_own cn) →
                 own_inv (upd_conn c f st)).
    { intros f H1 H2. eapply own_inv_ext; [|intros c'; by apply mem_of_upd_conn|done]. done. }
    destruct r; try (apply Hq; by intros []).
    all: try (simpl; apply Hq; by intros []).
    destruct (ty =? 14); [|apply Hq; by intros []].
    pose proof (own_disconnect cfg st c I H). destruct (disconnect cfg st c). done.
  - (* step *)
    destruct (conns st !! c) as [cn|] eqn:Hc; [|done].
    destruct (c_open cn) eqn:Ho; [|done]. simpl.
    destruct (c_queue cn) as [|r q] eqn:Hq; [done|].
    set (st0 := upd_conn c (set_queue q) st).
    assert (Hs0 : same_mem st st0) by (apply same_mem_upd_conn; by intros []).
    assert (I0 : inv st0) by by eapply inv_same_mem.
    assert (B0 : bounded kb st0) by by eapply bounded_same_mem.
    assert (W0 : nowrap st0) by by eapply bounded_nowrap.
    assert (H0 : own_inv st0).
    { eapply own_inv_ext; [|intros c'; apply mem_of_upd_conn; by intros []|done]. done. }
    assert (Ho0 : open_of st0 c = Some true).
    { destruct Hs0 as (_&H2&_). rewrite H2. unfold open_of. by rewrite Hc; simpl; rewrite Ho. }
    pose proof (own_handle cfg st0 c r hint k I0 W0 Wf Hk H0) as H1.
    destruct (handle_inv cfg st0 c r hint kb I0 B0 Hkb Ho0) as [I1 _].
    destruct (handle cfg st0 c r hint) as [[st1 o1] v]. simpl in *.
    destruct v; try done.
    pose proof (own_disconnect cfg st1 c I1 H1). destruct (disconnect cfg st1 c). done.
  - (* tick *)
    eapply own_inv_ext; [apply tick_sessions|apply tick_mem|done].
  - (* disconnect *)
    destruct (conns st !! c) as [cn|] eqn:Hc; [|done].
    destruct (c_open cn); [|done]. simpl.
    pose proof (own_disconnect cfg st c I H). destruct (disconnect cfg st c). done.
Qed.

(* ---------- every reachable state ---------- *)
Lemma final_snoc cfg h o : final cfg (h ++ [o]) = (step cfg (final cfg h) o).1.1.
Proof. unfold final. rewrite !run_from_final. by rewrite fold_left_app. Qed.

Lemma short_snoc h o : short (h ++ [o]) → short h ∧ 4 * N.of_nat (length h) + 4 < two32.
Proof. unfold short. rewrite app_length, Nat2N.inj_add. change (N.of_nat (length [o])) with 1. lia. Qed.

Theorem reachable_own cfg h : short h → own_inv (final cfg h).
Proof.
  induction h as [|o h IH] using rev_ind; intros Hs.
  - apply own_inv_state0.
  - apply short_snoc in Hs as [Hs Hb]. rewrite final_snoc.
    destruct (reachable_inv cfg h state0 0 inv_state0 bounded_state0) as [I B]; [lia|].
    apply (own_step cfg _ o (0 + N.of_nat (length h)) (4 * N.of_nat (length h))); try done; try lia.
    + intros sid SS. by apply reachable_wf.
    + by apply IH.
Qed.

(* ---------- the list a departure removes ---------- *)
Lemma insert_sorted_le x l :
  StronglySorted N.le l → StronglySorted N.le (insert_sorted N.leb x l).
Proof.
  induction 1 as [|y l Hl IH Hy]; simpl; [repeat constructor|].
  destruct (N.leb x y) eqn:E.
  - apply N.leb_le in E. constructor; [by constructor|]. constructor; [done|].
    eapply Forall_impl; [exact Hy|]. intros z Hz. simpl in Hz. lia.
  - apply N.leb_gt in E. constructor; [done|].
    rewrite (insert_sorted_perm N.leb x l). constructor; [lia|done].
Qed.
Lemma sortN_sorted l : StronglySorted N.le (sortN l).
Proof. unfold sortN. induction l as [|x l IH]; simpl; [constructor|by apply insert_sorted_le]. Qed.

Lemma filter_StronglySorted {A} (R : relation A) (f : A → bool) l :
  StronglySorted R l → StronglySorted R (List.filter f l).
Proof.
  induction 1 as [|y l Hl IH Hy]; simpl; [constructor|]. destruct (f y); [|done].
  constructor; [done|]. apply Forall_forall. intros z Hz%elem_of_list_In%filter_In.
  destruct Hz as [Hz%elem_of_list_In _]. by eapply Forall_forall in Hy.
Qed.

Lemma sorted_le_NoDup_lt l : StronglySorted N.le l → NoDup l → StronglySorted N.lt l.
Proof.
  induction 1 as [|y l Hl IH Hy]; intros Hnd; [constructor|].
  apply NoDup_cons in Hnd as [Hy' Hnd]. constructor; [by apply IH|].
  apply Forall_forall. intros z Hz. pose proof (proj1 (Forall_forall _ _) Hy z Hz) as Hle. simpl in Hle.
  assert (z ≠ y) by (by intros ->). lia.
Qed.

Lemma sorted_lt_NoDup l : StronglySorted N.lt l → NoDup l.
Proof.
  induction 1 as [|y l Hl IH Hy]; [constructor|]. apply NoDup_cons. split; [|done].
  intros Hin. pose proof (proj1 (Forall_forall _ _) Hy y Hin) as Hlt. simpl in Hlt. lia.
Qed.

(* ascending, hence each id once *)
Lemma doomed_ascending SS own : StronglySorted N.lt (doomed SS own).
Proof.
  apply sorted_le_NoDup_lt; [|apply doomed_NoDup].
  unfold doomed, set_to_sorted. apply filter_StronglySorted, sortN_sorted.
Qed.

(* two ascending lists with the same elements are the same list *)
Lemma ascending_ext l1 l2 :
  StronglySorted N.lt l1 → StronglySorted N.lt l2 → (∀ x, x ∈ l1 ↔ x ∈ l2) → l1 = l2.
Proof.
  intros H1 H2 Hel.
  assert (Hle : ∀ l, StronglySorted N.lt l → StronglySorted N.le l).
  { intros l. induction 1 as [|y l' Hl IH Hy]; constructor; [done|].
    eapply Forall_impl; [exact Hy|]. intros z Hz. simpl in Hz. lia. }
  apply (StronglySorted_unique N.le); [by apply Hle|by apply Hle|].
  apply NoDup_Permutation; [by apply sorted_lt_NoDup|by apply sorted_lt_NoDup|done].
Qed.

(* the non-persistent entities of participant [p] by the OWNER FIELD, ascending: the shape of
   Spec.sp_gone, read off one session record *)
Definition gone_by_owner (SS : session) (p : N) : list N :=
  sortN (omap (λ kv : N * entity, if (e_owner (snd kv) =? p) && negb (e_persist (snd kv))
                                  then Some (fst kv) else None) (map_to_list (s_ents SS))).

Lemma gone_by_owner_spec SS p eid :
  eid ∈ gone_by_owner SS p ↔ ∃ e, s_ents SS !! eid = Some e ∧ e_owner e = p ∧ e_persist e = false.
Proof.
  unfold gone_by_owner. rewrite elem_of_sortN, elem_of_list_omap. split.
  - intros ([k e]&Hin%elem_of_map_to_list&Hf). simpl in Hf.
    destruct (e_owner e =? p) eqn:Eo; [|done]. destruct (e_persist e) eqn:Ep; [done|]. simpl in Hf.
    injection Hf as <-. apply N.eqb_eq in Eo. eauto.
  - intros (e&He&Ho&Hp). exists (eid, e). split; [by apply elem_of_map_to_list|]. simpl.
    by rewrite (proj2 (N.eqb_eq _ _) Ho), Hp.
Qed.

Lemma gone_by_owner_ascending SS p : StronglySorted N.lt (gone_by_owner SS p).
Proof.
  apply sorted_le_NoDup_lt; [apply sortN_sorted|]. unfold gone_by_owner, sortN. apply NoDup_isort.
  pose proof (NoDup_fst_map_to_list (s_ents SS)) as Hnd.
  induction (map_to_list (s_ents SS)) as [|[k e] l IH]; simpl in *; [constructor|].
  apply NoDup_cons in Hnd as [Hk Hnd]. specialize (IH Hnd).
  destruct ((e_owner e =? p) && negb (e_persist e)); [|done]. apply NoDup_cons. split; [|done].
  intros ([k' e']&Hin&Hf)%elem_of_list_omap. simpl in Hf.
  destruct ((e_owner e' =? p) && negb (e_persist e')); [|done]. injection Hf as ->.
  apply Hk. apply elem_of_list_fmap. by exists (k, e').
Qed.

Section departure.
  Context (cfg : config) (h : list op) (c : N) (cn : conn) (sid p : N) (SS : session).
  Hypothesis Hshort : short h.
  Hypothesis Hm : member_of cfg h c cn sid p SS.
  (* the session record at the point where Model.leave computes the list: after the modules' disconnect
     handlers and the unsubscription *)
  Let S2 := set_store (store_set_subs (fmap (λ s : gset N, s ∖ {[p]}))) (module_disconnect cfg (c_own cn) SS).

  Lemma member_own eid : eid ∈ c_own cn ↔ ∃ e, s_ents SS !! eid = Some e ∧ e_owner e = p.
  Proof. destruct Hm as [Hc Hcur HS]. by apply (reachable_own cfg h Hshort c cn sid p SS). Qed.

  Lemma removed_by_owner eid :
    removed (c_own cn) SS eid ↔ ∃ e, s_ents SS !! eid = Some e ∧ e_owner e = p ∧ e_persist e = false.
  Proof.
    unfold removed. rewrite member_own. split.
    - intros [(e&He&Ho) (e'&He'&Hp)]. simplify_eq. eauto.
    - intros (e&He&Ho&Hp). split; eauto.
  Qed.

  Lemma departure_doomed_spec eid :
    eid ∈ doomed S2 (c_own cn) ↔ ∃ e, s_ents SS !! eid = Some e ∧ e_owner e = p ∧ e_persist e = false.
  Proof. unfold S2. by rewrite <- removed_doomed, removed_by_owner. Qed.

  Lemma departure_doomed_exact :
    (∀ eid, eid ∈ doomed S2 (c_own cn) ↔ ∃ e, s_ents SS !! eid = Some e ∧ e_owner e = p ∧ e_persist e = false) ∧
    NoDup (doomed S2 (c_own cn)) ∧ StronglySorted N.lt (doomed S2 (c_own cn)).
  Proof. split; [exact departure_doomed_spec|]. split; [apply doomed_NoDup|apply doomed_ascending]. Qed.

  (* the same, as an equation with the owner-field list *)
  Lemma departure_doomed_gone : doomed S2 (c_own cn) = gone_by_owner SS p.
  Proof.
    apply ascending_ext; [apply doomed_ascending|apply gone_by_owner_ascending|].
    intros eid. by rewrite departure_doomed_spec, gone_by_owner_spec.
  Qed.

  (* the entity map the departure leaves behind, by the owner field *)
  Lemma departure_ents e :
    s_ents (left_session cfg c p (c_own cn) SS) !! e =
      match s_ents SS !! e with
      | Some ent => if (e_owner ent =? p) && negb (e_persist ent) then None else Some ent
      | None => None
      end.
  Proof.
    destruct (left_fields cfg c p (c_own cn) SS) as (F1&_). rewrite F1.
    destruct (s_ents SS !! e) as [ent|] eqn:He.
    - case_bool_decide as Hr.
      + apply removed_by_owner in Hr as (ent'&He'&Ho&Hp). simplify_eq.
        by rewrite N.eqb_refl, Hp.
      + destruct (e_owner ent =? p) eqn:Eo; [|done]. destruct (e_persist ent) eqn:Ep; [done|]. simpl.
        exfalso. apply Hr, removed_by_owner. apply N.eqb_eq in Eo. eauto.
    - by case_bool_decide.
  Qed.
End departure.

(* proofs/PC10.v — the id source (models/id.go): never hands out an id that is in use, for every
   sequence of allocations and releases and every resolution of the choice among reusable ids. *)
From hagall Require Import Model.
From hagall.proofs Require Import BaseLemmas Inv.
From Coq Require Import Lia.

Definition gen_inv (g : idgen) (live : gset N) : Prop :=
  live ## g_reuse g ∧ (∀ x, x ∈ live → x ≤ g_cur g) ∧ (∀ x, x ∈ g_reuse g → x ≤ g_cur g).

Lemma gen_inv_0 : gen_inv gen0 ∅.
Proof. split; [set_solver|]. split; intros x; set_solver. Qed.

Lemma gen_new_fresh hint g live id g' :
  gen_inv g live → g_cur g + 1 < two32 → gen_new hint g = (id, g') →
  id ∉ live ∧ gen_inv g' (live ∪ {[id]}) ∧ g_cur g ≤ g_cur g'.
Proof.
  intros (H1&H2&H3) Hw Hn. apply gen_new_spec in Hn as [(He&->&Hc&Hr)|(Hin&Hc&Hr)].
  - rewrite u32_succ_small in * by done. split; [intros Hx; specialize (H2 _ Hx); lia|].
    split; [|lia]. split; [rewrite Hr; set_solver|]. rewrite Hc. split.
    + intros x [Hx|Hx]%elem_of_union; [specialize (H2 _ Hx); lia|]. apply elem_of_singleton in Hx. lia.
    + intros x. rewrite Hr. set_solver.
  - split; [set_solver|]. split; [|lia]. split; [rewrite Hr; set_solver|]. rewrite Hc, Hr. split.
    + intros x [Hx|Hx]%elem_of_union; [by apply H2|]. apply elem_of_singleton in Hx as ->. by apply H3.
    + intros x Hx. apply H3. set_solver.
Qed.

Lemma gen_reuse_inv id g live : gen_inv g live → id ∈ live → gen_inv (gen_reuse id g) (live ∖ {[id]}).
Proof.
  intros (H1&H2&H3) Hid. split; [simpl; set_solver|]. simpl. split.
  - intros x Hx. apply H2. set_solver.
  - intros x [Hx|Hx]%elem_of_union; [by apply H3|]. apply elem_of_singleton in Hx as ->. by apply H2.
Qed.

(* histories of the id source *)
Inductive gop := GNew (hint : N) | GRelease (id : N).
Fixpoint grun (ops : list gop) (g : idgen) (live : gset N) (issued : list (N * gset N)) : idgen * gset N * list (N * gset N) :=
  match ops with
  | [] => (g, live, issued)
  | GNew hint :: r => let '(id, g') := gen_new hint g in grun r g' (live ∪ {[id]}) (issued ++ [(id, live)])
  | GRelease id :: r => if bool_decide (id ∈ live) then grun r (gen_reuse id g) (live ∖ {[id]}) issued else grun r g live issued
  end.

(* every id handed out was not in use at that moment: whatever the sequence, whatever the choices *)
Lemma idgen_histories ops g live issued :
  gen_inv g live → g_cur g + N.of_nat (length ops) < two32 →
  (∀ id l, (id, l) ∈ issued → id ∉ l) →
  ∀ id l, (id, l) ∈ (grun ops g live issued).2 → id ∉ l.
Proof.
  revert g live issued. induction ops as [|o ops IH]; intros g live issued I Hw Hi; [done|].
  cbn [length] in Hw. rewrite Nat2N.inj_succ in Hw. destruct o as [hint|id]; simpl.
  - destruct (gen_new hint g) as [id g'] eqn:E.
    destruct (gen_new_fresh hint g live id g' I ltac:(lia) E) as (F1&F2&F3).
    apply IH; [done| |].
    + apply gen_new_spec in E as [(_&->&Hc&_)|(_&Hc&_)]; rewrite Hc; [rewrite u32_succ_small by lia|]; lia.
    + intros id0 l0 [H|H]%elem_of_app; [by apply Hi|]. apply elem_of_list_singleton in H. by simplify_eq.
  - case_bool_decide.
    + apply IH; [by apply gen_reuse_inv|simpl; lia|done].
    + apply IH; [done|lia|done].
Qed.

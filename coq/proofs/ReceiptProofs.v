(* ReceiptProofs.v — proofs about the receipt model (coq/Receipt.v), property C19.
   Everything is for ALL histories, all payloads, any capacity, any keccak / ecrecover_ok. *)
From Coq Require Import List NArith Bool Arith Lia.
From hagall Require Import Receipt.
Import ListNotations.

(* ------------------------------------------------------------------ bytes *)
Lemma bytes_eqb_eq : forall a b, bytes_eqb a b = true <-> a = b.
Proof.
  induction a as [|x a IH]; destruct b as [|y b]; simpl; split; intro H; try discriminate; auto.
  - apply andb_true_iff in H. destruct H as [H1 H2]. apply N.eqb_eq in H1. apply IH in H2. congruence.
  - inversion H; subst. apply andb_true_iff. split. apply N.eqb_refl. apply IH. reflexivity.
Qed.

Lemma is_empty_nil : forall b, is_empty b = true <-> b = [].
Proof. destruct b; simpl; split; intro H; auto; discriminate. Qed.

Definition payload_eq_dec : forall a b : payload, {a = b} + {a <> b}.
Proof.
  decide equality; apply (list_eq_dec N.eq_dec).
Defined.

(* subsequence: delivered is what is left of posted after removing the failed POSTs *)
Inductive subseq {A} : list A -> list A -> Prop :=
| ss_nil : subseq [] []
| ss_keep x l m : subseq l m -> subseq (x :: l) (x :: m)
| ss_skip x l m : subseq l m -> subseq l (x :: m).

Lemma subseq_refl {A} (l : list A) : subseq l l.
Proof. induction l; constructor; auto. Qed.

Lemma subseq_app_keep {A} (l m : list A) x : subseq l m -> subseq (l ++ [x]) (m ++ [x]).
Proof. induction 1; simpl; try constructor; auto. repeat constructor. Qed.

Lemma subseq_app_skip {A} (l m : list A) x : subseq l m -> subseq l (m ++ [x]).
Proof. induction 1; simpl; try constructor; auto. repeat constructor. Qed.

Lemma subseq_incl {A} (l m : list A) : subseq l m -> incl l m.
Proof.
  induction 1; intros y Hy; simpl in *; auto.
  destruct Hy; [left | right]; auto.
Qed.

Lemma subseq_length {A} (l m : list A) : subseq l m -> length l <= length m.
Proof. induction 1; simpl; lia. Qed.

Lemma count_occ_filter {A} (dec : forall a b : A, {a = b} + {a <> b}) (f : A -> bool) l x :
  count_occ dec (filter f l) x = if f x then count_occ dec l x else 0.
Proof.
  induction l as [|y l IH]; simpl.
  - destruct (f x); reflexivity.
  - destruct (f y) eqn:Fy; simpl; destruct (dec y x) as [->|N]; rewrite IH; try reflexivity.
    + rewrite Fy. reflexivity.
    + rewrite Fy. reflexivity.
Qed.

Lemma count_occ_subseq {A} (dec : forall a b : A, {a = b} + {a <> b}) l m x :
  subseq l m -> count_occ dec l x <= count_occ dec m x.
Proof. induction 1; simpl; try destruct (dec x0 x); lia. Qed.

Lemma filter_app_one {A} (f : A -> bool) l x : filter f (l ++ [x]) = filter f l ++ (if f x then [x] else []).
Proof. rewrite filter_app. simpl. destruct (f x); reflexivity. Qed.

(* ------------------------------------------------------------------ the model *)
Section Proofs.
  Variable keccak : bytes -> bytes.
  Variable ecrecover_ok : bytes -> bytes -> bool.
  Variable cap : nat.
  Variable blocking : bool.

  Notation valid := (valid keccak ecrecover_ok).
  Notation submit := (submit cap blocking).
  Notation forward_step := (forward_step keccak ecrecover_ok).
  Notation step := (step keccak ecrecover_ok cap blocking).
  Notation run_from := (run_from keccak ecrecover_ok cap blocking).
  Notation run := (run keccak ecrecover_ok cap blocking).

  (* what "well-formed" means, propositionally *)
  Lemma valid_spec : forall p,
    valid p = true <-> keccak (p_receipt p) = p_hash p /\ ecrecover_ok (p_hash p) (p_sig p) = true.
  Proof.
    intro p. unfold Receipt.valid. rewrite andb_true_iff, bytes_eqb_eq. tauto.
  Qed.

  Lemma has_empty_spec : forall p,
    has_empty p = true <-> p_receipt p = [] \/ p_hash p = [] \/ p_sig p = [].
  Proof.
    intro p. unfold has_empty. rewrite !orb_true_iff, !is_empty_nil. tauto.
  Qed.

  (* ---------------------------------------------------------------- one submission *)
  Definition verdict_accepted (v : verdict) : bool := match v with VAccepted => true | _ => false end.

  Definition entry_ok (e : entry) : Prop :=
    let v := expected cap (e_qlen e) (e_payload e) in
    e_answers e = [answer_of (e_rid e) v] /\ e_err e = negb (verdict_accepted v).

  (* every completed submission: exactly one answer, the one the specification `expected`
     names; the handler reports an error exactly when it refuses; a refusal changes nothing
     but the log, an acceptance appends the payload, unchanged, at the tail of the queue *)
  Lemma submit_done : forall st c r p st' e,
    submit st c r p = Done st' e ->
    let v := expected cap (length (queue st)) p in
    e = mkEntry c r p (length (queue st)) [answer_of r v] (negb (verdict_accepted v)) /\
    log st' = log st ++ [e] /\
    up st' = up st /\ dequeued st' = dequeued st /\ posted st' = posted st /\ delivered st' = delivered st /\
    (v = VAccepted -> queue st' = queue st ++ [p] /\ accepted st' = accepted st ++ [p]) /\
    (v <> VAccepted -> queue st' = queue st /\ accepted st' = accepted st).
  Proof.
    intros st c r p st' e H. unfold Receipt.submit in H. unfold expected. cbv zeta.
    destruct (has_empty p) eqn:He.
    - inversion H; subst; clear H. simpl. repeat split; auto; intros; try discriminate; congruence.
    - destruct (length (queue st) <? cap) eqn:Hl.
      + inversion H; subst; clear H. simpl. repeat split; auto; intros; congruence.
      + destruct blocking; [discriminate|].
        inversion H; subst; clear H. simpl. repeat split; auto; intros; try discriminate; congruence.
  Qed.

  (* a submission can only fail to complete when the enqueue is a blocking send, the fields
     are non-empty and the queue is full *)
  Lemma submit_blocked : forall st c r p,
    submit st c r p = Blocked -> blocking = true /\ has_empty p = false /\ cap <= length (queue st).
  Proof.
    intros st c r p H. unfold Receipt.submit in H.
    destruct (has_empty p); [discriminate|].
    destruct (length (queue st) <? cap) eqn:Hl; [discriminate|].
    destruct blocking; [|discriminate]. apply Nat.ltb_ge in Hl. auto.
  Qed.

  Lemma submit_nonblocking_total : blocking = false ->
    forall st c r p, exists st' e, submit st c r p = Done st' e.
  Proof.
    intros Hb st c r p. destruct (submit st c r p) eqn:H; eauto.
    apply submit_blocked in H. destruct H as [H _]. congruence.
  Qed.

  (* the three cases spelled out, without `expected` *)
  Lemma submit_cases : forall st c r p st' e,
    submit st c r p = Done st' e ->
    e_conn e = c /\ e_rid e = r /\ e_payload e = p /\
    ((p_receipt p = [] \/ p_hash p = [] \/ p_sig p = []) ->
       e_answers e = [AError r BadRequest] /\ e_err e = true /\ queue st' = queue st) /\
    (p_receipt p <> [] -> p_hash p <> [] -> p_sig p <> [] -> length (queue st) < cap ->
       e_answers e = [AReceiptResponse r] /\ e_err e = false /\ queue st' = queue st ++ [p]) /\
    (p_receipt p <> [] -> p_hash p <> [] -> p_sig p <> [] -> cap <= length (queue st) ->
       e_answers e = [AError r TooBusy] /\ e_err e = true /\ queue st' = queue st).
  Proof.
    intros st c r p st' e H. apply submit_done in H. cbv zeta in H.
    destruct H as (He & _ & _ & _ & _ & _ & Hacc & Hrej). subst e. simpl.
    repeat split; auto.
    - unfold expected. apply has_empty_spec in H. rewrite H. reflexivity.
    - unfold expected. apply has_empty_spec in H. rewrite H. reflexivity.
    - apply Hrej. unfold expected. apply has_empty_spec in H. rewrite H. discriminate.
    - unfold expected. destruct (has_empty p) eqn:E; [apply has_empty_spec in E; tauto|].
      apply Nat.ltb_lt in H2. rewrite H2. reflexivity.
    - unfold expected. destruct (has_empty p) eqn:E; [apply has_empty_spec in E; tauto|].
      apply Nat.ltb_lt in H2. rewrite H2. reflexivity.
    - apply Hacc. unfold expected. destruct (has_empty p) eqn:E; [apply has_empty_spec in E; tauto|].
      apply Nat.ltb_lt in H2. rewrite H2. reflexivity.
    - unfold expected. destruct (has_empty p) eqn:E; [apply has_empty_spec in E; tauto|].
      apply Nat.ltb_ge in H2. rewrite H2. reflexivity.
    - unfold expected. destruct (has_empty p) eqn:E; [apply has_empty_spec in E; tauto|].
      apply Nat.ltb_ge in H2. rewrite H2. reflexivity.
    - apply Hrej. unfold expected. destruct (has_empty p) eqn:E; [apply has_empty_spec in E; tauto|].
      apply Nat.ltb_ge in H2. rewrite H2. discriminate.
  Qed.

  (* ---------------------------------------------------------------- invariant *)
  Record Inv (st : state) : Prop := {
    inv_fifo : accepted st = dequeued st ++ queue st;
    inv_posted : posted st = filter valid (dequeued st);
    inv_bound : length (queue st) <= cap;
    inv_delivered : subseq (delivered st) (posted st);
    inv_log : Forall entry_ok (log st);
    inv_accepted : accepted st = map e_payload (filter entry_accepted (log st))
  }.

  Lemma inv_init : Inv init.
  Proof. constructor; simpl; auto; try lia. constructor. Qed.

  Lemma inv_submit : forall st c r p st' e, Inv st -> submit st c r p = Done st' e -> Inv st'.
  Proof.
    intros st c r p st' e I H. apply submit_done in H. cbv zeta in H.
    destruct H as (He & Hlog & Hup & Hdq & Hpo & Hde & Hacc & Hrej).
    destruct I as [I1 I2 I3 I4 I5 I6].
    destruct (expected cap (length (queue st)) p) eqn:Ev.
    - destruct (Hacc eq_refl) as [Hq Ha].
      constructor.
      + rewrite Ha, Hq, Hdq, I1, app_assoc. reflexivity.
      + rewrite Hpo, Hdq. exact I2.
      + rewrite Hq, app_length. simpl.
        unfold expected in Ev. destruct (has_empty p); [discriminate|].
        destruct (length (queue st) <? cap) eqn:L; [|discriminate]. apply Nat.ltb_lt in L. lia.
      + rewrite Hde, Hpo. exact I4.
      + rewrite Hlog. apply Forall_app. split; auto. constructor; [|constructor].
        subst e. unfold entry_ok. simpl. rewrite Ev. simpl. auto.
      + rewrite Hlog, Ha, filter_app, map_app, <- I6. subst e. simpl. reflexivity.
    - assert (Hn : VBad <> VAccepted) by discriminate. destruct (Hrej Hn) as [Hq Ha].
      constructor.
      + rewrite Ha, Hq, Hdq. exact I1.
      + rewrite Hpo, Hdq. exact I2.
      + rewrite Hq. exact I3.
      + rewrite Hde, Hpo. exact I4.
      + rewrite Hlog. apply Forall_app. split; auto. constructor; [|constructor].
        subst e. unfold entry_ok. simpl. rewrite Ev. simpl. auto.
      + rewrite Hlog, Ha, filter_app, map_app, <- I6. subst e. simpl. rewrite app_nil_r. reflexivity.
    - assert (Hn : VBusy <> VAccepted) by discriminate. destruct (Hrej Hn) as [Hq Ha].
      constructor.
      + rewrite Ha, Hq, Hdq. exact I1.
      + rewrite Hpo, Hdq. exact I2.
      + rewrite Hq. exact I3.
      + rewrite Hde, Hpo. exact I4.
      + rewrite Hlog. apply Forall_app. split; auto. constructor; [|constructor].
        subst e. unfold entry_ok. simpl. rewrite Ev. simpl. auto.
      + rewrite Hlog, Ha, filter_app, map_app, <- I6. subst e. simpl. rewrite app_nil_r. reflexivity.
  Qed.

  Lemma inv_forward : forall st, Inv st -> Inv (forward_step st).
  Proof.
    intros st [I1 I2 I3 I4 I5 I6]. unfold Receipt.forward_step.
    destruct (queue st) as [|p q] eqn:Q.
    - constructor; auto. rewrite Q. exact I1. rewrite Q. exact I3.
    - simpl in I3. destruct (valid p) eqn:V; constructor; simpl; auto; try lia.
      + rewrite I1, <- app_assoc. reflexivity.
      + rewrite filter_app_one, V, I2. reflexivity.
      + destruct (up st); [apply subseq_app_keep | apply subseq_app_skip]; exact I4.
      + rewrite I1, <- app_assoc. reflexivity.
      + rewrite filter_app_one, V, app_nil_r. exact I2.
  Qed.

  Lemma inv_step : forall st o st', Inv st -> step st o = Some st' -> Inv st'.
  Proof.
    intros st o st' I H. destruct o as [c r p| |b]; simpl in H.
    - destruct (submit st c r p) eqn:S; [|discriminate]. inversion H; subst. eapply inv_submit; eauto.
    - inversion H; subst. apply inv_forward; auto.
    - inversion H; subst. destruct I. constructor; auto.
  Qed.

  Lemma inv_run_from : forall h st st', Inv st -> run_from st h = Some st' -> Inv st'.
  Proof.
    induction h as [|o h IH]; simpl; intros st st' I H.
    - inversion H; subst; auto.
    - destruct (step st o) eqn:S; [|discriminate]. eapply IH; [|eauto]. eapply inv_step; eauto.
  Qed.

  Lemma inv_run : forall h st, run h = Some st -> Inv st.
  Proof. intros h st H. eapply inv_run_from; [apply inv_init | exact H]. Qed.

  (* the log has exactly one entry per submission of the history, in order *)
  Lemma log_run_from : forall h st st', run_from st h = Some st' ->
    map entry_key (log st') = map entry_key (log st) ++ submits h.
  Proof.
    induction h as [|o h IH]; simpl; intros st st' H.
    - inversion H; subst. rewrite app_nil_r. reflexivity.
    - destruct (step st o) as [s1|] eqn:S; [|discriminate]. rewrite (IH _ _ H).
      destruct o as [c r p| |b]; simpl in S.
      + destruct (submit st c r p) as [s2 e|] eqn:Su; [|discriminate]. inversion S; subst.
        apply submit_done in Su. cbv zeta in Su. destruct Su as (He & Hlog & _).
        rewrite Hlog, map_app, <- app_assoc. simpl. subst e. reflexivity.
      + inversion S; subst. unfold Receipt.forward_step.
        destruct (queue st); [reflexivity|]. destruct (valid p); reflexivity.
      + inversion S; subst. reflexivity.
  Qed.

  (* ---------------------------------------------------------------- the theorems *)

  (* C19_answer_once, history form: the log of any completed run lists the submissions of the
     history one for one and in order; every entry carries exactly one answer, the one
     `expected` names for its fields and the queue length at that moment, and the handler
     returned an error exactly for the refusals *)
  Theorem answer_once : forall h st, run h = Some st ->
    map entry_key (log st) = submits h /\
    Forall (fun e => exists a, e_answers e = [a] /\
                     a = answer_of (e_rid e) (expected cap (e_qlen e) (e_payload e)) /\
                     e_err e = negb (verdict_accepted (expected cap (e_qlen e) (e_payload e))) /\
                     e_qlen e <= cap)
           (log st).
  Proof.
    intros h st H. split.
    - apply log_run_from in H. simpl in H. exact H.
    - (* e_qlen <= cap needs the invariant at every prefix: strengthen *)
      assert (G : forall h st0 st1, Inv st0 ->
                 Forall (fun e => entry_ok e /\ e_qlen e <= cap) (log st0) ->
                 run_from st0 h = Some st1 ->
                 Forall (fun e => entry_ok e /\ e_qlen e <= cap) (log st1)).
      { clear. induction h as [|o h IH]; simpl; intros st0 st1 I F H.
        - inversion H; subst; auto.
        - destruct (step st0 o) as [s1|] eqn:S; [|discriminate].
          apply (IH s1 st1); auto. eapply inv_step; eauto.
          destruct o as [c r p| |b]; simpl in S.
          + destruct (submit st0 c r p) as [s2 e|] eqn:Su; [|discriminate]. inversion S; subst.
            pose proof (inv_submit _ _ _ _ _ _ I Su) as I'.
            apply submit_done in Su. cbv zeta in Su. destruct Su as (He & Hlog & _).
            rewrite Hlog. apply Forall_app. split; auto. constructor; [|constructor]. split.
            * destruct I' as [_ _ _ _ L _]. rewrite Hlog in L. apply Forall_app in L.
              destruct L as [_ L]. inversion L; auto.
            * subst e. simpl. apply (inv_bound _ I).
          + inversion S; subst. unfold Receipt.forward_step.
            destruct (queue st0); auto. destruct (valid p); auto.
          + inversion S; subst. auto. }
      specialize (G h init st inv_init (Forall_nil _) H).
      eapply Forall_impl; [|exact G]. intros e [[E1 E2] E3]. eexists. repeat split; eauto.
  Qed.

  (* C19_forward_iff: what was POSTed is, in order, exactly the well-formed part of what was
     dequeued; bodies are the payloads themselves *)
  Theorem forward_iff : forall h st, run h = Some st ->
    posted st = filter valid (dequeued st) /\
    subseq (delivered st) (posted st).
  Proof. intros h st H. apply inv_run in H. destruct H; auto. Qed.

  Theorem forward_iff_members : forall h st, run h = Some st ->
    (forall p, In p (posted st) ->
        In p (dequeued st) /\ keccak (p_receipt p) = p_hash p /\ ecrecover_ok (p_hash p) (p_sig p) = true) /\
    (forall p, In p (dequeued st) ->
        keccak (p_receipt p) = p_hash p -> ecrecover_ok (p_hash p) (p_sig p) = true -> In p (posted st)) /\
    (forall p, In p (delivered st) -> In p (posted st)).
  Proof.
    intros h st H. apply forward_iff in H. destruct H as [H D]. rewrite H. repeat split.
    - apply filter_In in H0. tauto.
    - apply filter_In in H0. destruct H0 as [_ V]. apply valid_spec in V. tauto.
    - apply filter_In in H0. destruct H0 as [_ V]. apply valid_spec in V. tauto.
    - intros p I K E. apply filter_In. split; auto. apply valid_spec. auto.
    - intros p I. rewrite <- H. eapply subseq_incl; eauto.
  Qed.

  (* "at most once", with multiplicities: a payload is POSTed as many times as it was dequeued
     when it is well-formed and never otherwise; it is dequeued at most as often as it was
     accepted; it reaches the service at most as often as it was POSTed *)
  Theorem forward_counts : forall h st, run h = Some st -> forall p,
    count_occ payload_eq_dec (posted st) p =
      (if valid p then count_occ payload_eq_dec (dequeued st) p else 0) /\
    count_occ payload_eq_dec (dequeued st) p <= count_occ payload_eq_dec (accepted st) p /\
    count_occ payload_eq_dec (delivered st) p <= count_occ payload_eq_dec (posted st) p.
  Proof.
    intros h st H p. apply inv_run in H. destruct H as [I1 I2 _ I4 _ _]. repeat split.
    - rewrite I2. apply count_occ_filter.
    - rewrite I1, count_occ_app. lia.
    - apply count_occ_subseq. exact I4.
  Qed.

  (* with the service reachable throughout, every attempt is delivered *)
  Lemma delivered_all_up : forall h st st', up st = true -> delivered st = posted st ->
    Forall (fun o => o <> ServiceUp false) h ->
    run_from st h = Some st' -> up st' = true /\ delivered st' = posted st'.
  Proof.
    induction h as [|o h IH]; simpl; intros st st' U D F H.
    - inversion H; subst; auto.
    - inversion F as [|? ? Fo Fh]; subst.
      destruct (step st o) as [s1|] eqn:S; [|discriminate].
      apply (IH s1 st'); auto; destruct o as [c r p| |b]; simpl in S.
      + destruct (submit st c r p) as [s2 e|] eqn:Su; [|discriminate]. inversion S; subst.
        apply submit_done in Su. cbv zeta in Su. destruct Su as (_ & _ & Hu & _). congruence.
      + inversion S; subst. unfold Receipt.forward_step. destruct (queue st); auto. destruct (valid p); auto.
      + inversion S; subst. destruct b; [reflexivity | congruence].
      + destruct (submit st c r p) as [s2 e|] eqn:Su; [|discriminate]. inversion S; subst.
        apply submit_done in Su. cbv zeta in Su. destruct Su as (_ & _ & _ & _ & Hp & Hd & _). congruence.
      + inversion S; subst. unfold Receipt.forward_step. destruct (queue st); auto.
        destruct (valid p); simpl; auto. rewrite U, D. reflexivity.
      + inversion S; subst. simpl. exact D.
  Qed.

  Theorem delivered_when_up : forall h st, Forall (fun o => o <> ServiceUp false) h ->
    run h = Some st -> delivered st = posted st.
  Proof. intros h st F H. eapply (delivered_all_up h init st); eauto. Qed.

  (* C19_dequeued_subset_accepted: the forwarder sees exactly a prefix of the accepted payloads,
     in acceptance order (FIFO), the rest is still queued; and the accepted payloads are exactly
     those of the submissions answered with a ReceiptResponse, in submission order *)
  Theorem dequeued_prefix_accepted : forall h st, run h = Some st ->
    accepted st = dequeued st ++ queue st /\
    accepted st = map e_payload (filter entry_accepted (log st)) /\
    map entry_key (log st) = submits h.
  Proof.
    intros h st H. pose proof (inv_run _ _ H) as [I1 _ _ _ _ I6]. repeat split; auto.
    apply answer_once in H. tauto.
  Qed.

  (* C19_queue_bounded *)
  Theorem queue_bounded : forall h st, run h = Some st -> length (queue st) <= cap.
  Proof. intros h st H. apply inv_run in H. destruct H; auto. Qed.

  (* bounded at every intermediate state as well: every prefix of a completed run completes *)
  Lemma run_from_app : forall h1 h2 st, run_from st (h1 ++ h2) =
    match run_from st h1 with Some s => run_from s h2 | None => None end.
  Proof.
    induction h1 as [|o h1 IH]; simpl; intros; auto. destruct (step st o); auto.
  Qed.

  Theorem queue_bounded_everywhere : forall h1 h2 st, run (h1 ++ h2) = Some st ->
    exists s1, run h1 = Some s1 /\ length (queue s1) <= cap.
  Proof.
    intros h1 h2 st H. unfold Receipt.run in H. rewrite run_from_app in H.
    destruct (run_from init h1) as [s1|] eqn:R; [|discriminate].
    exists s1. split; auto. eapply queue_bounded; eauto.
  Qed.

  (* C19_never_blocks: with a non-blocking enqueue every operation is one completed step in
     every state, so every history runs to its end *)
  Theorem never_blocks : blocking = false ->
    (forall st c r p, exists st' e, submit st c r p = Done st' e) /\
    (forall st o, exists st', step st o = Some st') /\
    (forall h, exists st, run h = Some st).
  Proof.
    intro Hb. assert (S : forall st o, exists st', step st o = Some st').
    { intros st o. destruct o as [c r p| |b]; simpl; eauto.
      destruct (submit_nonblocking_total Hb st c r p) as (st' & e & ->). eauto. }
    repeat split; auto.
    - apply submit_nonblocking_total; auto.
    - intro h. unfold Receipt.run. generalize init. induction h as [|o h IH]; simpl; intro st; eauto.
      destruct (S st o) as [st' ->]. apply IH.
  Qed.

  (* the hypothesis matters: a blocking enqueue does block, on a full queue *)
  Lemma fill : forall p, has_empty p = false -> forall k st,
    length (queue st) + k <= cap ->
    exists st', run_from st (repeat (Submit 0 0 p) k) = Some st' /\ length (queue st') = length (queue st) + k.
  Proof.
    intros p Hp. induction k as [|k IH]; simpl; intros st L.
    - exists st. split; auto.
    - unfold Receipt.submit. rewrite Hp.
      assert (E : length (queue st) <? cap = true) by (apply Nat.ltb_lt; lia). rewrite E.
      match goal with |- context [run_from ?s _] => destruct (IH s) as (st' & R & Q) end.
      + simpl. rewrite app_length. simpl. lia.
      + exists st'. split; auto. rewrite Q. simpl. rewrite app_length. simpl. lia.
  Qed.

  Theorem blocking_send_blocks : blocking = true ->
    forall p, has_empty p = false -> run (repeat (Submit 0 0 p) (S cap)) = None.
  Proof.
    intros Hb p Hp. replace (S cap) with (cap + 1) by lia. rewrite repeat_app.
    unfold Receipt.run. rewrite run_from_app.
    destruct (fill p Hp cap init) as (st' & R & Q); [simpl; lia|]. rewrite R. simpl in Q. simpl.
    unfold Receipt.submit. rewrite Hp, Hb.
    assert (E : length (queue st') <? cap = false) by (apply Nat.ltb_ge; lia). rewrite E. reflexivity.
  Qed.
End Proofs.

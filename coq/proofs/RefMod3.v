(* proofs/RefMod3.v — second consumer (issued-id sets, type registry, membership): on the model's own traces the
   predicate P_C10 ("ids never collide", Preds.v) is silent, all clauses:
     1001 (the participant id a join hands out is new in its incarnation), 1002 (a live session keeps its incarnation,
     a new session gets an incarnation never seen), 1003 / 1004 (entity / asset-instance ids are new in their incarnation),
     1005 / 1006 (a type name keeps its id; a new type gets an unused non-zero id), 1007-1010 (name <-> id lookups agree
     with the spec's registry), 1011 / 1012 (ids inside every SessionState / ODAL_STATE are pairwise distinct),
     1024 (hook snapshot: type registry), 1028-1031 (registry: incarnations, live sessions, gauge), 1099.
   Also here: the classes of messages each kind of step can emit. *)
From stdpp Require Import relations sorting.
From hagall Require Import Model Spec Obs Preds.
From hagall.proofs Require Import BaseLemmas Relay Inv Session Local Trans WF Mono Reach PC02 PC06 PC07 Own
  Refine Refine2 Refine3 Refine4 Refine5 RefComp RefComp2 RefComp3 RefMod RefMod2.
From Coq Require Import Lia.

(* ================= the messages a step other than a join can emit ================= *)
(* answers and relays of the ordinary requests: no join answer, no state message, no snapshot, no anomaly,
   no join / leave broadcast *)
Definition reply_class (m : msg) : bool :=
  match m with
  | MJoinResp _ _ _ _ | MSessionState _ _ _ | MVikjaState _ | MOdalState _ | MSnap _ _ _ | MBad _ _
  | MJoinB _ _ | MLeaveB _ => false
  | _ => true
  end.
Definition replies (l : list delivery) : Prop := Forall (λ d : delivery, reply_class (snd d) = true) l.

Ltac rc := repeat first
  [ apply Forall_nil_2
  | apply Forall_cons_2; [reflexivity|]
  | apply Forall_app_2
  | apply (Forall_broadcast (λ m, reply_class m = true)); reflexivity
  | apply (Forall_broadcast_to (λ m, reply_class m = true)); reflexivity ].

Lemma on_ping_replies st c cn rid st' o v : on_ping st c cn rid = (st', o, v) → replies o.
Proof. unfold on_ping, send_ping. intros H. repeat case_match; simplify_eq; unfold replies; rc. Qed.

Lemma handle_joined_replies cfg st c cn sid p SS r hint st' o v :
  is_join r = false → handle_joined cfg st c cn sid p SS r hint = (st', o, v) → replies o.
Proof.
  intros Hj H. destruct r; try discriminate Hj; simpl in H.
  all: try (unfold send_ping in H; repeat case_match; simplify_eq; unfold replies; rc; fail).
  by apply on_ping_replies in H.
Qed.
Lemma handle_unjoined_replies cfg st c cn r hint st' o v :
  is_join r = false → handle_unjoined cfg st c cn r hint = (st', o, v) → replies o.
Proof.
  intros Hj H. destruct r; try discriminate Hj; simpl in H.
  all: repeat case_match; simplify_eq; unfold replies; rc.
Qed.
Lemma handle_replies cfg st c r hint st' o v :
  is_join r = false → handle cfg st c r hint = (st', o, v) → replies o.
Proof.
  intros Hj. unfold handle. destruct (conns st !! c) as [cn|]; [|intros [= _ <- _]; constructor].
  destruct (c_cur cn) as [[sid p]|].
  - destruct (sessions st !! sid) as [SS|]; [|intros [= _ <- _]; constructor]. by apply handle_joined_replies.
  - by apply handle_unjoined_replies.
Qed.

(* what a departure sends: only departure relays *)
Definition leave_class (m : msg) : bool := match m with MLeaveB _ | MEntityDeleteB 0 _ => true | _ => false end.
Lemma Forall_remove_doomed0 (Q : msg → Prop) cfg p l SS :
  (∀ e, Q (MEntityDeleteB 0 e)) → Forall (λ d : delivery, Q (snd d)) (remove_doomed cfg p l SS).2.
Proof.
  intros HQ. revert SS. induction l as [|eid l IH]; intros SS; simpl; [constructor|].
  specialize (IH (set_ents (delete eid) (set_store (store_delete_entity eid) SS))).
  destruct (remove_doomed cfg p l _) as [S2 o2]. simpl in *. apply Forall_app_2; [|done].
  destruct (flag_on cfg F_ENTITY_DELETE_B); [constructor|]. by apply Forall_broadcast.
Qed.
Lemma Forall_leave0 (Q : msg → Prop) cfg st c :
  (∀ e, Q (MEntityDeleteB 0 e)) → (∀ p, Q (MLeaveB p)) → Forall (λ d : delivery, Q (snd d)) (leave cfg st c).2.
Proof.
  intros H1 H2. unfold leave. destruct (conns st !! c) as [cn|]; [|constructor]. destruct (c_cur cn) as [[sid p]|]; [|constructor].
  destruct (sessions st !! sid) as [SS|]; [|constructor].
  match goal with |- context [remove_doomed ?a ?b ?l ?S] => pose proof (Forall_remove_doomed0 Q a b l S H1) as H;
    destruct (remove_doomed a b l S) as [S3 o1] end.
  simpl in *. apply Forall_app_2; [done|]. destruct (flag_on cfg F_LEAVE_B); [constructor|]. by apply Forall_broadcast.
Qed.
Lemma Forall_disconnect0 (Q : msg → Prop) cfg st c :
  (∀ e, Q (MEntityDeleteB 0 e)) → (∀ p, Q (MLeaveB p)) → Forall (λ d : delivery, Q (snd d)) (disconnect cfg st c).2.
Proof. intros H1 H2. unfold disconnect. pose proof (Forall_leave0 Q cfg st c H1 H2). by destruct (leave cfg st c). Qed.

(* ================= the messages a join emits ================= *)
Definition join_msg_ok (st' : state) (m : msg) : Prop :=
  leave_class m = true ∨ (∃ r k, m = MError r k) ∨ (∃ o p, m = MJoinB o p) ∨ (∃ r n u p, m = MJoinResp r n u p) ∨
  ∃ n S1, sessions st' !! n = Some S1 ∧
    (m = session_state_msg S1 ∨ m = MVikjaState (map snd (map_to_list (s_actions S1))) ∨
     m = MOdalState (map snd (map_to_list (s_assets S1)))).

Lemma module_join_ok cfg c st' n S1 :
  sessions st' !! n = Some S1 → Forall (λ d : delivery, join_msg_ok st' (snd d)) (module_join_msgs cfg c S1).
Proof.
  intros HS. unfold module_join_msgs. apply Forall_app_2.
  - destruct (cfg_vikja cfg); [|constructor]. constructor; [|constructor]. simpl. do 4 right. exists n, S1. eauto.
  - destruct (cfg_odal cfg); [|constructor]. constructor; [|constructor]. simpl. do 4 right. exists n, S1. eauto.
Qed.

Lemma join_outs_ok cfg st c cn rid s ots hint st' outs v :
  conns st !! c = Some cn → Model.join cfg st c rid s ots hint = (st', outs, v) →
  Forall (λ d : delivery, join_msg_ok st' (snd d)) outs.
Proof.
  intros Hc. unfold Model.join. rewrite Hc.
  destruct (already_joined cn s) eqn:Haj.
  - intros [= <- <- <-]. constructor; [right; left; eauto|].
    destruct (c_cur cn) as [[cur p0]|]; [|constructor].
    destruct (sessions st !! cur) as [SS|] eqn:HS; [|constructor]. by eapply module_join_ok.
  - pose proof (Forall_leave0 (λ m, ∀ st', join_msg_ok st' m) cfg st c) as L1.
    destruct (leave cfg st c) as [st1 o1]. simpl in *.
    assert (Ho1 : ∀ st', Forall (λ d : delivery, join_msg_ok st' (snd d)) o1).
    { intros st0. eapply Forall_impl; [apply L1; intros; by left|]. intros d Hd. apply Hd. }
    assert (Hnf : ∀ st', Forall (λ d : delivery, join_msg_ok st' (snd d)) (o1 ++ [(c, MError rid E_NOT_FOUND)])).
    { intros st0. apply Forall_app_2; [apply Ho1|]. constructor; [|constructor]. right; left; eauto. }
    assert (Henter : ∀ st2 n SS, sessions st2 !! n = Some SS →
      Forall (λ d : delivery, join_msg_ok (enter cfg st2 c rid n ots).1.1 (snd d)) (o1 ++ (enter cfg st2 c rid n ots).1.2)).
    { intros st2 n SS HS. pose proof (enter_sessions cfg st2 c rid n ots _ HS) as E3.
      assert (HS1 : sessions (enter cfg st2 c rid n ots).1.1 !! n = Some (entered SS c)) by (by rewrite E3, lookup_insert).
      apply Forall_app_2; [apply Ho1|]. remember (enter cfg st2 c rid n ots).1.1 as st3 eqn:Est3. clear Est3 E3.
      rewrite (enter_eq cfg st2 c rid n ots SS HS). cbv zeta. cbn [fst snd].
      constructor; [do 3 right; left; eauto 10|]. apply Forall_app_2.
      { destruct (flag_on cfg F_SESSION_STATE); [constructor|]. constructor; [|constructor]. simpl. do 4 right. exists n, (entered SS c). eauto. }
      apply Forall_app_2; [|by eapply module_join_ok].
      destruct (flag_on cfg F_JOIN_B); [constructor|]. apply Forall_broadcast. do 2 right; left; eauto. }
    destruct s as [|n|k].
    + destruct (create_session hint st1) as [n st2] eqn:Hcr.
      destruct (c07_created_fresh _ _ _ _ Hcr) as [HS2 _]. specialize (Henter st2 n _ HS2).
      destruct (enter cfg st2 c rid n ots) as [[st3 o2] v2]. intros [= <- <- <-]. exact Henter.
    + destruct (sessions st1 !! n) as [SS|] eqn:HS.
      * specialize (Henter st1 n _ HS). destruct (enter cfg st1 c rid n ots) as [[st3 o2] v2]. intros [= <- <- <-]. exact Henter.
      * intros [= <- <- <-]. apply Hnf.
    + intros [= <- <- <-]. apply Hnf.
Qed.

(* ================= every message of every step, classified ================= *)
Definition out_ok (st' : state) (m : msg) : Prop :=
  reply_class m = true ∨ join_msg_ok st' m ∨ ∃ st, m = snapshot st.

Lemma step_outs_ok cfg st o :
  inv st → Forall (λ d : delivery, out_ok (step cfg st o).1.1 (snd d)) (step cfg st o).1.2.
Proof.
  intros I.
  assert (Hdis : ∀ st0 c st', Forall (λ d : delivery, out_ok st' (snd d)) (disconnect cfg st0 c).2).
  { intros st0 c st'. apply Forall_disconnect0; intros; right; left; by left. }
  destruct o as [c|c r|c hint|sid|c|]; simpl.
  - destruct (conns st !! c); constructor.
  - unfold dispatch. destruct (conns st !! c) as [cn|]; [|constructor].
    destruct (c_open cn); [|constructor]. simpl. destruct r; try constructor.
    destruct (ty =? 14); [|constructor]. specialize (Hdis st c). destruct (disconnect cfg st c) as [st1 o1]. apply Hdis.
  - destruct (conns st !! c) as [cn|] eqn:Hc; [|constructor].
    destruct (c_open cn) eqn:Ho; [|constructor]. simpl.
    destruct (c_queue cn) as [|r q] eqn:Hq; [constructor|].
    set (st0 := upd_conn c (set_queue q) st).
    assert (I0 : inv st0) by (eapply inv_same_mem; [|exact I]; apply same_mem_upd_conn; by intros []).
    assert (Hc0 : conns st0 !! c = Some (set_queue q cn)).
    { unfold st0, upd_conn. simpl. rewrite Hc. by rewrite lookup_insert. }
    destruct (handle cfg st0 c r hint) as [[st1 o1] v] eqn:Eh.
    assert (H1 : ∀ st', sessions st' = sessions st1 → Forall (λ d : delivery, out_ok st' (snd d)) o1).
    { intros st' Hs'. destruct (is_join r) eqn:Hj.
      - destruct r; try discriminate Hj.
        assert (Hh : handle cfg st0 c (RJoin rid sid ots) hint = Model.join cfg st0 c rid sid ots hint).
        { unfold handle. rewrite Hc0. destruct (c_cur (set_queue q cn)) as [[s p]|] eqn:Hcur; [|done].
          assert (Hcur0 : cur_of st0 c = Some (s, p)) by (unfold cur_of; by rewrite Hc0).
          destruct (live_session _ _ (inv_live _ I0 _ _ _ Hcur0)) as [SS HS]. by rewrite HS. }
        rewrite Hh in Eh. eapply Forall_impl; [exact (join_outs_ok cfg st0 c _ rid sid ots hint _ _ _ Hc0 Eh)|].
        intros d Hd. right; left. unfold join_msg_ok in *. by rewrite Hs'.
      - eapply Forall_impl; [exact (handle_replies cfg st0 c r hint _ _ _ Hj Eh)|]. intros d Hd. by left. }
    assert (Hjv : is_join r = true → v = VOk).
    { intros Hj. destruct r; try discriminate Hj.
      assert (Hh : handle cfg st0 c (RJoin rid sid ots) hint = Model.join cfg st0 c rid sid ots hint).
      { unfold handle. rewrite Hc0. destruct (c_cur (set_queue q cn)) as [[s p]|] eqn:Hcur; [|done].
        assert (Hcur0 : cur_of st0 c = Some (s, p)) by (unfold cur_of; by rewrite Hc0).
        destruct (live_session _ _ (inv_live _ I0 _ _ _ Hcur0)) as [SS HS]. by rewrite HS. }
      pose proof (join_verdict cfg st0 c _ rid sid ots hint Hc0) as Hv. by rewrite <- Hh, Eh in Hv. }
    destruct v; try (by apply H1).
    assert (Hj : is_join r = false). { destruct (is_join r) eqn:Hj; [|done]. by specialize (Hjv eq_refl). }
    pose proof (handle_replies cfg st0 c r hint _ _ _ Hj Eh) as Hr.
    specialize (Hdis st1 c). destruct (disconnect cfg st1 c) as [st2 o2]. cbn [fst snd]. apply Forall_app_2; [|apply Hdis].
    eapply Forall_impl; [exact Hr|]. intros d Hd. by left.
  - constructor.
  - destruct (conns st !! c) as [cn|]; [|constructor]. destruct (c_open cn); [|constructor]. simpl.
    specialize (Hdis st c). destruct (disconnect cfg st c) as [st1 o1]. apply Hdis.
  - constructor; [|constructor]. right; right. eauto.
Qed.

(* ================= P_C10, clause by clause ================= *)
Definition k10 : snapsel := {| k_parts := false; k_ents := false; k_comps := false; k_acts := false; k_assets := false;
                               k_types := true; k_subs := false; k_reg := true |}.

Definition c10_join_clauses (i : nat) (sp : spec) (c : N) (outs : list delivery) : list violation :=
  match join_resp c outs with
  | Some (_, sid, uuid, pid) =>
      let spd := depart sp c in
      okv i (bool_decide (pid ∉ issued (sp_pids spd) uuid)) 1001 [zn c; zn sid; zn pid] ++
      okv i (match sp_uuid spd !! sid with Some u => u =? uuid | None => bool_decide (uuid ∉ sp_seen spd) end)
          1002 [zn c; zn sid; zn uuid]
  | None => []
  end.

Definition c10_req_clauses (i : nat) (sp : spec) (c sid p : N) (r : req) (outs : list delivery) : list violation :=
  let u := uuid_of sp sid in
  match r with
  | REntityAdd rid _ _ _ _ =>
      match first_to c outs (λ m, match m with MEntityAddResp _ x => Some x | _ => None end) with
      | Some eid => okv i (bool_decide (eid ∉ issued (sp_eids sp) u)) 1003 [zn c; zn sid; zn eid]
      | None => [] end
  | RAssetAdd rid _ _ _ =>
      match first_to c outs (λ m, match m with MAssetAddResp _ x => Some x | _ => None end) with
      | Some iid => okv i (bool_decide (iid ∉ issued (sp_iids sp) u)) 1004 [zn c; zn sid; zn iid]
      | None => [] end
  | RTypeAdd rid name =>
      match first_to c outs (λ m, match m with MTypeAddResp _ x => Some x | _ => None end) with
      | Some tid =>
          match sp_types sp !! (sid, name) with
          | Some t0 => okv i (t0 =? tid) 1005 [zn c; zn sid; zn name; zn tid; zn t0]
          | None => okv i (negb (memN tid (spec_tids sp sid)) && negb (tid =? 0)) 1006 [zn c; zn sid; zn name; zn tid]
          end
      | None => [] end
  | RGetName rid tid =>
      if tid =? 0 then [] else
      match first_to c outs (λ m, match m with MGetNameResp _ x => Some x | _ => None end), type_name_of sp sid tid with
      | Some n, Some n0 => okv i (n =? n0) 1007 [zn c; zn sid; zn tid; zn n; zn n0]
      | Some n, None => [viol i 1007 [zn c; zn sid; zn tid; zn n; (-1)%Z]]
      | None, Some n0 => [viol i 1008 [zn c; zn sid; zn tid; zn n0]]
      | None, None => okv i (has_error c E_NOT_FOUND outs) 1008 [zn c; zn sid; zn tid]
      end
  | RGetId rid name =>
      if name =? 0 then [] else
      match first_to c outs (λ m, match m with MGetIdResp _ x => Some x | _ => None end), sp_types sp !! (sid, name) with
      | Some t, Some t0 => okv i (t =? t0) 1009 [zn c; zn sid; zn name; zn t; zn t0]
      | Some t, None => [viol i 1009 [zn c; zn sid; zn name; zn t; (-1)%Z]]
      | None, Some t0 => [viol i 1010 [zn c; zn sid; zn name; zn t0]]
      | None, None => okv i (has_error c E_NOT_FOUND outs) 1010 [zn c; zn sid; zn name]
      end
  | _ => []
  end.

Definition c10_state_clause (i : nat) (d : delivery) : list violation :=
  match snd d with
  | MSessionState ps es cs => okv i (bool_decide (NoDup ps) && bool_decide (NoDup (map ep_id es))) 1011 [zn (fst d)]
  | MOdalState a => okv i (bool_decide (NoDup (map as_id a))) 1012 [zn (fst d)]
  | _ => [] end.

Lemma P_C10_event_unfold cfg i sp sp' e :
  P_C10_event cfg i sp sp' e =
  match stepped e with
  | Some (c, RJoin rid s ots) => c10_join_clauses i sp c (ev_outs e)
  | Some (c, r) => match sp_mem sp !! c with
                   | None => []
                   | Some (sid, p) => c10_req_clauses i sp c sid p r (ev_outs e)
                   end
  | None => []
  end ++
  flat_map (c10_state_clause i) (ev_outs e) ++
  snap_check cfg k10 1000 i sp e ++ bad_msgs i 1000 e.
Proof. unfold P_C10_event. destruct (stepped e) as [[c r]|]; [|reflexivity]. destruct r; reflexivity. Qed.

(* ---------- 1001 / 1002: what a join hands out ---------- *)
Lemma join_c10 cfg st c cn rid s ots hint sp :
  inv st → nowrap st → refines_mem sp st → conns st !! c = Some cn →
  ∀ st' outs v, Model.join cfg st c rid s ots hint = (st', outs, v) →
  ∀ r' n u p, join_resp c outs = Some (r', n, u, p) →
    p ∉ issued (sp_pids (depart sp c)) u ∧
    match sp_uuid (depart sp c) !! n with Some u' => u' = u | None => u ∉ sp_seen (depart sp c) end.
Proof.
  intros I W R Hc st' outs v Hj r' n u p Hjr.
  split; [by eapply (join_pid_fresh cfg st c cn rid s ots hint sp I W R Hc _ _ _ Hj)|].
  revert Hj Hjr. unfold Model.join. rewrite Hc.
  destruct (already_joined cn s) eqn:Haj.
  - intros [= <- <- <-]. unfold already_joined in Haj.
    destruct (c_cur cn) as [[cur p0]|] eqn:Hcur; [|done]. destruct s as [|n0|k]; try done.
    set (mo := match sessions st !! cur with Some SS => module_join_msgs cfg c SS | None => [] end).
    assert (Hmo : plains mo). { unfold mo. destruct (sessions st !! cur); [apply plains_module_join|constructor]. }
    rewrite join_resp_cons_other by done. by rewrite (join_resp_plain _ _ Hmo).
  - pose proof (leave_refines cfg sp st c I R) as R1. pose proof (inv_leave cfg st c I) as I1.
    pose proof (leave_nowrap cfg st c I W) as W1. pose proof (plains_leave cfg st c) as P1.
    destruct (leave cfg st c) as [st1 o1]. simpl in *.
    assert (Hnotfound : ∀ outs, outs = o1 ++ [(c, MError rid E_NOT_FOUND)] → join_resp c outs = None).
    { intros ? ->. rewrite join_resp_app_plain by done. by rewrite join_resp_cons_other. }
    destruct s as [|n0|k].
    + destruct (create_session hint st1) as [n0 st2] eqn:Hcr.
      destruct (create_session_proj _ _ _ _ I1 W1 Hcr) as (Hfresh&_).
      destruct (c07_created_fresh _ _ _ _ Hcr) as [HS2 _].
      assert (Hn1 : sessions st1 !! n0 = None). { unfold parts_of in Hfresh. by destruct (sessions st1 !! n0). }
      rewrite (enter_eq cfg st2 c rid n0 ots _ HS2). cbv zeta. intros [= <- <- <-].
      rewrite join_resp_app_plain by done. unfold join_resp at 1. erewrite first_to_hit by reflexivity.
      intros [= <- <- <- <-]. rewrite (rm_uuid _ _ R1 n0). unfold uuid_at. rewrite Hn1. simpl.
      rewrite (rm_seen _ _ R1). lia.
    + destruct (sessions st1 !! n0) as [SS|] eqn:HS.
      * rewrite (enter_eq cfg st1 c rid n0 ots SS HS). cbv zeta. intros [= <- <- <-].
        rewrite join_resp_app_plain by done. unfold join_resp at 1. erewrite first_to_hit by reflexivity.
        intros [= <- <- <- <-]. rewrite (rm_uuid _ _ R1 n0). unfold uuid_at. by rewrite HS.
      * intros [= <- <- <-]. by rewrite (Hnotfound _ eq_refl).
    + intros [= <- <- <-]. by rewrite (Hnotfound _ eq_refl).
Qed.

(* ---------- the name a type id stands for, according to the spec ---------- *)
Lemma head_all_eq {A} (l : list A) x : l ≠ [] → Forall (eq x) l → head l = Some x.
Proof. intros Hne H. destruct l as [|y l]; [done|]. inversion H; subst. done. Qed.

Lemma type_name_of_store sp sid s tid :
  types_bij s → (∀ name, sp_types sp !! (sid, name) = st_ids s !! name) →
  type_name_of sp sid tid = st_names s !! tid.
Proof.
  intros Hb H. unfold type_name_of.
  set (l := omap (λ tn : N * N, if fst tn =? tid then Some (snd tn) else None) (spec_types sp sid)).
  assert (Hl : ∀ n, n ∈ l ↔ st_names s !! tid = Some n).
  { intros n. unfold l. rewrite elem_of_list_omap. split.
    - intros ([t n']&Hin&Hf). simpl in Hf. destruct (N.eqb_spec t tid) as [->|]; [|done]. injection Hf as ->.
      apply elem_of_spec_types in Hin. rewrite H in Hin. by apply Hb.
    - intros Hn. exists (tid, n). split; [|simpl; by rewrite N.eqb_refl]. apply elem_of_spec_types. rewrite H. by apply Hb. }
  destruct (st_names s !! tid) as [n|] eqn:Hn.
  - apply head_all_eq.
    + intros Hnil. assert (Hin : n ∈ l) by (by apply Hl). rewrite Hnil in Hin. by apply elem_of_nil in Hin.
    + apply Forall_forall. intros n' Hin. apply Hl in Hin. congruence.
  - destruct l as [|n l'] eqn:El; [done|]. assert (Hin : n ∈ n :: l') by (by left). apply Hl in Hin. done.
Qed.

(* ---------- the id-issuing requests of a member, against the model's handler ---------- *)
Lemma c10_request_ok cfg k i st c cn sid p SS r hint st' o v sp :
  is_join r = false → wf cfg k SS → k + 1 < two32 →
  (∀ x, x ∈ issued (sp_eids sp) (uuid_of sp sid) ↔ 1 ≤ x ≤ s_egen SS) →
  (∀ x, x ∈ issued (sp_iids sp) (uuid_of sp sid) ↔ 1 ≤ x ≤ s_agen SS) →
  store_abs sp sid (s_store SS) →
  handle_joined cfg st c cn sid p SS r hint = (st', o, v) →
  c10_req_clauses i sp c sid p r o = [].
Proof.
  intros Hj W Hk Ee Ei [A1 A2 A3] H. pose proof (wf_types _ _ _ W) as Hb.
  destruct (wf_cnt _ _ _ W) as (_&Hge&Hga&Hgt).
  destruct r; try discriminate Hj; try reflexivity; simpl in H; unfold c10_req_clauses.
  - (* entity add *)
    injection H as <- <- <-. erewrite first_to_hit by reflexivity.
    rewrite bool_decide_eq_true_2; [done|]. rewrite Ee, u32_succ_small by lia. lia.
  - (* type add *)
    destruct (name =? 0) eqn:En.
    { injection H as <- <- <-. rewrite first_to_none; [done|]. by repeat constructor. }
    unfold store_add_type in H. rewrite A1. destruct (st_ids (s_store SS) !! name) as [tid|] eqn:Eid.
    + injection H as <- <- <-. erewrite first_to_hit by reflexivity. by rewrite N.eqb_refl.
    + injection H as <- <- <-. erewrite first_to_hit by reflexivity.
      rewrite (memN_spec_tids sp sid (s_store SS) _ Hb A1).
      assert (Hs : u32_succ (st_gen (s_store SS)) = st_gen (s_store SS) + 1) by (apply u32_succ_small; lia).
      destruct (st_names (s_store SS) !! u32_succ (st_gen (s_store SS))) as [nm|] eqn:Hn.
      { destruct (wf_type_ids _ _ _ W _ _ Hn). lia. }
      simpl. rewrite Hs. by rewrite (proj2 (N.eqb_neq _ 0)) by lia.
  - (* get name *)
    destruct (tid =? 0) eqn:Et; [done|]. rewrite (type_name_of_store sp sid (s_store SS) tid Hb A1).
    destruct (st_names (s_store SS) !! tid) as [nm|] eqn:Hn; injection H as <- <- <-.
    + erewrite first_to_hit by reflexivity. by rewrite N.eqb_refl.
    + rewrite first_to_none by (by repeat constructor). unfold has_error. simpl. by rewrite N.eqb_refl.
  - (* get id *)
    destruct (name =? 0) eqn:En; [done|]. rewrite A1.
    destruct (st_ids (s_store SS) !! name) as [tid|] eqn:Hn; injection H as <- <- <-.
    + erewrite first_to_hit by reflexivity. by rewrite N.eqb_refl.
    + rewrite first_to_none by (by repeat constructor). unfold has_error. simpl. by rewrite N.eqb_refl.
  - (* asset add *)
    set (f := λ m : msg, match m with MAssetAddResp _ x => Some x | _ => None end).
    assert (Hrefused : ∀ rid' k', first_to c [(c, MError rid' k')] f = None).
    { intros rid' k'. apply first_to_none. by repeat constructor. }
    destruct (cfg_odal cfg); simpl in H; [|by injection H as <- <- <-].
    destruct (asset =? 0); [injection H as <- <- <-; by rewrite Hrefused|].
    destruct (s_ents SS !! eid) as [ent|]; [|injection H as <- <- <-; by rewrite Hrefused].
    destruct (negb (e_owner ent =? p)); [injection H as <- <- <-; by rewrite Hrefused|].
    injection H as <- <- <-. erewrite first_to_hit by reflexivity.
    rewrite bool_decide_eq_true_2; [done|]. rewrite Ei, u32_succ_small by lia. lia.
Qed.

(* ---------- 1011 / 1012: ids inside the state messages ---------- *)
Lemma session_state_ids S1 :
  ∃ ps es cs, session_state_msg S1 = MSessionState ps es cs ∧ NoDup ps ∧ NoDup (map ep_id es).
Proof.
  eexists _, _, _. split; [reflexivity|]. split; [apply NoDup_fst_map_to_list|].
  unfold ents_pb. rewrite map_map. simpl. apply NoDup_fst_map_to_list.
Qed.

Lemma c10_state_ok cfg kw' i st' outs :
  swf cfg kw' st' → Forall (λ d : delivery, out_ok st' (snd d)) outs → flat_map (c10_state_clause i) outs = [].
Proof.
  intros Wf H. apply flat_map_nil_all. intros [c m] Hin. rewrite Forall_forall in H. specialize (H _ Hin). simpl in H.
  unfold c10_state_clause. simpl. destruct H as [H|[H|[st0 ->]]]; [by destruct m| |done].
  destruct H as [H|[(r&k0&->)|[(o0&p0&->)|[(r&n&u&p0&->)|(n&S1&HS1&[->|[->| ->]])]]]]; try done.
  - by destruct m.
  - destruct (session_state_ids S1) as (ps&es&cs&->&H1&H2). by rewrite !bool_decide_eq_true_2.
  - rewrite bool_decide_eq_true_2; [done|]. apply (NoDup_asset_iids cfg kw'). by apply (Wf n).
Qed.

(* ---------- the hook snapshot: type registry and session registry ---------- *)
Lemma dump_check_k10 cfg i sp d0 :
  dump_check cfg k10 1000 i sp d0 =
  okv i (bool_decide (sort_by (λ tn, [zn (fst tn); zn (snd tn)]) (d_types d0) = spec_types sp (d_sid d0))) 1024 [zn (d_sid d0)] ++
  okv i (bool_decide (Some (d_uuid d0) = sp_uuid sp !! d_sid d0)) 1028 [zn (d_sid d0)].
Proof. reflexivity. Qed.

Lemma snap_ok_10 cfg kw i sp st :
  inv st → reg st → swf cfg kw st → refines_mem sp st → refines_comps sp st →
  snap_check cfg k10 1000 i sp {| ev_op := OSnap; ev_req := None; ev_outs := [(0, snapshot st)]; ev_verdict := VOk |} = [].
Proof.
  intros I G Wf R RC. pose proof (rm_mem _ _ R) as Hm.
  unfold snap_check. cbn [ev_op ev_outs flat_map snd snapshot]. rewrite !app_nil_r.
  set (ss := map (λ kv : N * session, dump_session kv.1 kv.2) (map_to_list (sessions st))).
  assert (Hsid : map d_sid ss = map fst (map_to_list (sessions st))).
  { unfold ss. rewrite map_map. by apply map_ext. }
  assert (H1 : flat_map (dump_check cfg k10 1000 i sp) ss = []).
  { apply flat_map_nil_all. intros d0 Hd. unfold ss in Hd. apply elem_of_list_fmap in Hd as ([sid SS]&->&Hin).
    apply elem_of_map_to_list in Hin. rewrite dump_check_k10. cbn [fst snd dump_session d_types d_sid d_uuid].
    rewrite (spec_types_eq cfg kw sp st sid SS RC Hin (Wf sid SS Hin)). rewrite bool_decide_eq_true_2 by done.
    rewrite (rm_uuid _ _ R sid). unfold uuid_at. rewrite Hin. simpl. by rewrite bool_decide_eq_true_2. }
  rewrite H1. cbn [k_reg k10]. rewrite Hsid, <- (live_sids_eq sp st I Hm).
  rewrite bool_decide_eq_true_2 by done.
  rewrite bool_decide_eq_true_2 by apply NoDup_fst_map_to_list.
  rewrite bool_decide_eq_true_2; [done|].
  rewrite (live_sids_eq sp st I Hm), sortN_length, map_length. apply (reg_gauge _ G).
Qed.

(* ================= one step ================= *)
Lemma c10_step_ok cfg st o k kw kw' sp i :
  inv st → bounded k st → k + 1 < two32 → kw + 1 < two32 → good cfg kw sp st → refines_comps sp st →
  swf cfg kw' (step cfg st o).1.1 →
  let e := ev_of st o (step cfg st o) in
  P_C10_event cfg i sp (spec_step sp e) e = [].
Proof.
  intros I B Hk Hkw [_ G O Wf R E D] RC Wf' e. pose proof (bounded_nowrap _ _ B Hk) as W.
  rewrite P_C10_event_unfold.
  pose proof (step_bad_msgs cfg st o k sp i 1000 I B Hk G R) as Hbad. fold e in Hbad. rewrite Hbad, app_nil_r.
  assert (H1 : match stepped e with
               | Some (c, RJoin rid s ots) => c10_join_clauses i sp c (ev_outs e)
               | Some (c, r) => match sp_mem sp !! c with
                                | None => []
                                | Some (sid, p) => c10_req_clauses i sp c sid p r (ev_outs e)
                                end
               | None => []
               end = []).
  { destruct (stepped e) as [[c r]|] eqn:Hst; [|done].
    destruct (is_join r) eqn:Hj.
    - destruct r; try discriminate Hj.
      destruct (step_stepped_join cfg st o c rid sid ots I Hst) as (hint&cn&q&st1&o1&v&->&Hc&Hc0&Ej&Es).
      set (st0 := upd_conn c (set_queue q) st) in *.
      assert (Hs0 : same_mem st st0) by (apply same_mem_upd_conn; by intros []).
      assert (I0 : inv st0) by by eapply inv_same_mem.
      assert (W0 : nowrap st0) by (eapply bounded_nowrap; [by eapply bounded_same_mem|done]).
      assert (R0 : refines_mem sp st0) by (eapply refines_same; [apply same_all_upd_conn; by intros []|exact R]).
      unfold e, ev_of. rewrite Es. cbn [ev_outs fst snd]. unfold c10_join_clauses.
      destruct (join_resp c o1) as [[[[r' n] u] p']|] eqn:Hjr; [|done].
      destruct (join_c10 cfg st0 c _ rid sid ots hint sp I0 W0 R0 Hc0 _ _ _ Ej _ _ _ _ Hjr) as [J1 J2].
      rewrite bool_decide_eq_true_2 by done. simpl.
      destruct (sp_uuid (depart sp c) !! n) as [u'|]; [subst; by rewrite N.eqb_refl|by rewrite bool_decide_eq_true_2].
    - assert (Hgoal : match sp_mem sp !! c with
                      | None => []
                      | Some (sid, p) => c10_req_clauses i sp c sid p r (ev_outs e)
                      end = []).
      { destruct (sp_mem sp !! c) as [[sid p]|] eqn:Hmem; [|done].
        destruct (step_member cfg st o sp c r sid p I R Hst Hmem) as (hint&cn&q&SS&st1&o1&v&->&Hc&Hcur&HS&Hp&Hinj&Hc0&_&Eh&Es).
        unfold e, ev_of. rewrite Es. cbn [ev_outs fst snd].
        eapply (c10_request_ok cfg kw); [exact Hj|exact (Wf sid SS HS)|exact Hkw| | | |exact Eh].
        - rewrite (uuid_of_refines sp st sid SS R HS). apply (rd_eids _ _ D sid SS HS).
        - rewrite (uuid_of_refines sp st sid SS R HS). apply (rd_iids _ _ D sid SS HS).
        - by eapply refines_comps_at. }
      destruct r; try exact Hgoal. discriminate Hj. }
  rewrite H1. cbn [app].
  rewrite (c10_state_ok cfg kw' i (step cfg st o).1.1 (ev_outs e) Wf' (step_outs_ok cfg st o I)). cbn [app].
  destruct o as [c|c r|c hint|sid|c|]; try (by apply snap_check_not_snap).
  unfold e, ev_of. cbn [step consumed fst snd]. by eapply snap_ok_10.
Qed.

(* ================= every history ================= *)
(* Deliverable 2b: the model's own trace is never flagged by P_C10 (all clauses) *)
Theorem model_passes_C10 cfg h : short h → P_C10 cfg (run cfg h) = [].
Proof.
  induction h as [|o h IH] using rev_ind; intros Hs; [done|].
  pose proof (reachable_swf cfg _ Hs) as Wf'. rewrite final_snoc in Wf'.
  apply short_snoc in Hs as [Hs Hb]. unfold P_C10 in *. rewrite run_snoc, sscan_snoc, IH by done. simpl.
  assert (Hlen : N.of_nat (length h) < two32) by (unfold short in Hs; lia).
  destruct (reachable_inv cfg h state0 0 inv_state0 bounded_state0) as [I B]; [lia|].
  apply (c10_step_ok cfg (final cfg h) o (0 + N.of_nat (length h)) (4 * N.of_nat (length h)) (4 * N.of_nat (length (h ++ [o]))));
    [exact I|exact B|lia|lia|by apply reachable_good|by apply refinement_comps|exact Wf'].
Qed.

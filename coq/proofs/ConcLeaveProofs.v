(* proofs/ConcLeaveProofs.v — invariants of the interleaving semantics of coq/ConcLeave.v, for ANY number of
   connections, ANY well-formed programs and EVERY schedule; the witness for the shortcut departure.
   Statements are collected in Properties/ConcLeave.v. *)
From hagall Require Import Base ConcLeave.
From Coq Require Import Lia.

(* ---------- schedules, steps ---------- *)
Lemma sched_run_app st σ1 σ2 : sched_run st (σ1 ++ σ2) = sched_run (sched_run st σ1) σ2.
Proof. apply fold_left_app. Qed.

Lemma step_cases st tid :
  step st tid = st ∨
  ∃ i rest s' push evs,
    c_thr st !! tid = Some (i :: rest) ∧ exec i (c_store st) = (s', push, evs) ∧
    step st tid = {| c_store := s'; c_thr := <[tid := push ++ rest]> (c_thr st); c_log := c_log st ++ evs |}.
Proof.
  unfold step. destruct (c_thr st !! tid) as [[|i rest]|] eqn:HT; [by left| |by left].
  destruct (exec i (c_store st)) as [[s' push] evs] eqn:Hex.
  right. exists i, rest, s', push, evs. done.
Qed.

Ltac exec_inv Hex :=
  unfold exec in Hex; cbv beta iota zeta in Hex;
  repeat (first
    [ match type of Hex with context [decide ?P] => let H := fresh "Hd" in destruct (decide P) as [H|H] end
    | match type of Hex with context [match ?x with Some _ => _ | None => _ end] =>
        let en := fresh "en0" in let H := fresh "Hlk" in destruct x as [en|] eqn:H end
    | match type of Hex with context [match ?x with _ => _ end] => destruct x eqn:? end ]);
  simplify_eq.

(* the instructions an instruction pushes belong to the same participant *)
Lemma exec_push_pid i s s' push evs j : exec i s = (s', push, evs) → j ∈ push → pid_of j = pid_of i.
Proof.
  intros Hex Hj. destruct i as [p|p b|p e|p|p|p e|p e|p]; exec_inv Hex; try (by apply elem_of_nil in Hj).
  - apply elem_of_app in Hj as [Hj|Hj].
    + apply elem_of_list_fmap in Hj as (e'&->&_). done.
    + apply elem_of_list_singleton in Hj as ->. done.
  - apply elem_of_list_singleton in Hj as ->. done.
  - apply elem_of_list_singleton in Hj as ->. done.
  - apply elem_of_list_singleton in Hj as ->. done.
Qed.

Lemma parts_step i s s' push evs rest p :
  exec i s = (s', push, evs) → p ∈ parts (push ++ rest) → p ∈ parts (i :: rest).
Proof.
  intros Hex. unfold parts. rewrite fmap_app, elem_of_app. intros [Hp|Hp]; simpl.
  - apply elem_of_list_fmap in Hp as (j&->&Hj). rewrite (exec_push_pid _ _ _ _ _ _ Hex Hj). by left.
  - by right.
Qed.

(* ---------- own-sets ---------- *)
Lemma own_of_eq s s' q : s_own s' = s_own s → own_of s' q = own_of s q.
Proof. unfold own_of. by intros ->. Qed.
Lemma own_of_upd s s' p X q :
  s_own s' = <[p := X]> (s_own s) → own_of s' q = if decide (p = q) then X else own_of s q.
Proof.
  unfold own_of. intros ->. destruct (decide (p = q)) as [->|Hne].
  - by rewrite lookup_insert.
  - by rewrite lookup_insert_ne.
Qed.

Lemma u32_succ_small x : x + 1 < two32 → u32_succ x = x + 1.
Proof. intros H. unfold u32_succ. by apply N.mod_small. Qed.

Lemma size_zero_empty (X : gset N) : (size X =? 0)%nat = true → X = ∅.
Proof. intros H%Nat.eqb_eq. by apply size_empty_inv, leibniz_equiv in H. Qed.
Lemma size_nonzero_nonempty (X : gset N) : (size X =? 0)%nat = false → X ≠ ∅.
Proof. intros H%Nat.eqb_neq ->. by rewrite size_empty in H. Qed.

(* ---------- the session alone ---------- *)
Record store_inv (k : nat) (s : store) : Prop := {
  v_ended : s_ended s = true → s_members s = ∅;
  v_own_owner : ∀ e en, s_ents s !! e = Some en → e ∈ own_of s (e_owner en);
  v_owner_own : ∀ p e en, e ∈ own_of s p → s_ents s !! e = Some en → e_owner en = p;
  v_ids : ∀ p e, e ∈ own_of s p → e ≤ s_next s;
  v_budget : s_next s + N.of_nat k < two32
}.

Lemma store_inv_ids k s e en : store_inv k s → s_ents s !! e = Some en → e ≤ s_next s.
Proof. intros H He. eapply v_ids; [exact H|]. eapply v_own_owner; [exact H|exact He]. Qed.

Lemma store_inv0 k : N.of_nat k < two32 → store_inv k store0.
Proof.
  intros Hk. split; simpl; done.
Qed.

Lemma store_inv_weaken k k' s : (k' ≤ k)%nat → store_inv k s → store_inv k' s.
Proof. intros Hle [H1 H2 H3 H4 H5]. split; try done. lia. Qed.

Lemma store_inv_exec k i s s' push evs :
  store_inv (S k) s → exec i s = (s', push, evs) → store_inv k s'.
Proof.
  intros [Hend Hoo Hown Hids Hbud] Hex.
  assert (Hbud' : s_next s + N.of_nat k < two32) by lia.
  destruct i as [p|p b|p e|p|p|p e|p e|p]; exec_inv Hex; try (split; [eauto..|lia]; fail).
  - (* join, accepted *)
    split; simpl; try done.
  - (* add *)
    rewrite u32_succ_small by lia.
    assert (Hfresh : ∀ q, s_next s + 1 ∉ own_of s q).
    { intros q Hq%Hids. lia. }
    split; simpl.
    + done.
    + intros e' en. rewrite lookup_insert_Some. intros [[<- <-]|[Hne He]]; simpl.
      * erewrite own_of_upd by reflexivity. rewrite decide_True by done. set_solver.
      * erewrite own_of_upd by reflexivity. apply Hoo in He. destruct (decide (p = e_owner en)) as [Heq|]; [rewrite Heq|]; set_solver.
    + intros q e' en. erewrite own_of_upd by reflexivity. rewrite lookup_insert_Some.
      intros Hq [[<- <-]|[Hne He]]; simpl.
      * destruct (decide (p = q)) as [->|Hpq]; [done|]. by apply Hfresh in Hq.
      * destruct (decide (p = q)) as [->|Hpq]; [|by eapply Hown].
        apply elem_of_union in Hq as [Hq|Hq]; [by eapply Hown|]. apply elem_of_singleton in Hq. done.
    + intros q e'. erewrite own_of_upd by reflexivity. destruct (decide (p = q)) as [->|Hpq].
      * intros [Hq|Hq]%elem_of_union; [apply Hids in Hq; lia|]. apply elem_of_singleton in Hq. lia.
      * intros Hq%Hids. lia.
    + lia.
  - (* delete by request *)
    split; simpl.
    + done.
    + intros e' en'. rewrite lookup_delete_Some. intros [Hne He]. erewrite own_of_upd by reflexivity.
      apply Hoo in He. destruct (decide (e_owner en0 = e_owner en')) as [Heq|]; [|done]. rewrite Heq. set_solver.
    + intros q e' en'. erewrite own_of_upd by reflexivity. rewrite lookup_delete_Some. intros Hq [Hne He].
      destruct (decide (e_owner en0 = q)) as [Heq|]; [|by eapply Hown]. eapply Hown; [|exact He]. subst q. set_solver.
    + intros q e'. erewrite own_of_upd by reflexivity. destruct (decide (e_owner en0 = q)) as [Heq|]; [|by apply Hids].
      intros Hq. apply (Hids q). set_solver.
    + done.
  - (* removal by a departure *)
    split; simpl; try done.
    + intros e' en'. rewrite lookup_delete_Some. intros [Hne He]. by apply Hoo.
    + intros q e' en'. rewrite lookup_delete_Some. intros Hq [Hne He]. by eapply Hown.
  - (* RemoveParticipant *)
    split; simpl; try done.
    intros [He|Hl]%orb_true_iff.
    + rewrite (Hend He). set_solver.
    + apply andb_true_iff in Hl as [Hl _]. by apply size_zero_empty.
Qed.

(* ---------- programs ---------- *)
Definition mcur (m : mode) : list N := match m with MOut => [] | MIn p | MLeaving p | MDel p _ => [p] end.

Lemma joins_app l1 l2 : joins (l1 ++ l2) = joins l1 ++ joins l2.
Proof. apply omap_app. Qed.
Lemma joins_removes p es : joins (map (ILeaveRemove p) es) = [].
Proof. induction es as [|e es IH]; [done|]. exact IH. Qed.
Lemma wf_push p es rest :
  wf_from (MLeaving p) (map (ILeaveRemove p) es ++ ILeaveFinish p :: rest) = wf_from MOut rest.
Proof. induction es as [|e es IH]; simpl; rewrite bool_decide_eq_true_2 by done; [done|exact IH]. Qed.
Lemma pend_push p es rest : pend (map (ILeaveRemove p) es ++ ILeaveFinish p :: rest) = es.
Proof. induction es as [|e es IH]; simpl; [done|]. by rewrite IH. Qed.

Lemma wf_cons m i rest : wf_from m (i :: rest) = true →
  match i with
  | IJoin p => m = MOut ∧ wf_from (MIn p) rest = true
  | IAddEntity p _ | IDelEntity p _ => m = MIn p ∧ wf_from (MIn p) rest = true
  | ILeaveSnapshot p | ILeaveCheckAlone p => m = MIn p ∧ wf_from MOut rest = true
  | ILeaveRemove p _ => m = MLeaving p ∧ wf_from (MLeaving p) rest = true
  | ILeaveDelete p e => m = MDel p e ∧ wf_from (MLeaving p) rest = true
  | ILeaveFinish p => m = MLeaving p ∧ wf_from MOut rest = true
  end.
Proof.
  destruct i, m; simpl; try discriminate; rewrite ?andb_true_iff, ?bool_decide_eq_true;
    intros; destruct_and?; subst; done.
Qed.

Lemma wf_leaving m prog :
  wf_from m prog = true → leaving_of prog = match m with MLeaving p | MDel p _ => Some p | _ => None end.
Proof.
  destruct prog as [|i rest]; [by destruct m|]. intros H%wf_cons.
  destruct i; destruct H as [-> _]; done.
Qed.

Lemma wf_cur_parts m prog p :
  wf_from m prog = true → (m = MLeaving p ∨ ∃ e, m = MDel p e) → p ∈ parts prog.
Proof.
  destruct prog as [|i rest]; [by intros ? [->|[? ->]]|]. intros H%wf_cons Hm.
  destruct i; destruct H as [-> _]; destruct Hm as [Hm|[? Hm]]; simplify_eq; by left.
Qed.

Lemma wf_parts_joins prog : ∀ m p, wf_from m prog = true → p ∈ parts prog → p ∈ mcur m ∨ p ∈ joins prog.
Proof.
  induction prog as [|i rest IH]; intros m p Hwf Hp; [by apply elem_of_nil in Hp|].
  apply wf_cons in Hwf. apply elem_of_cons in Hp as [->|Hp].
  - destruct i; destruct Hwf as [-> _]; simpl; (by left; left) || (by right; left).
  - destruct i; destruct Hwf as [-> Hwf]; simpl; (destruct (IH _ _ Hwf Hp) as [Hc|Hj]; [simpl in Hc|]);
      try (by left); try (by right); try (by right; right);
      try (right; apply elem_of_list_singleton in Hc as ->; by left); by apply elem_of_nil in Hc.
Qed.

(* what the thread's own mode says about the session *)
Definition mode_ok (s : store) (m : mode) (prog : list instr) : Prop :=
  match m with
  | MOut | MIn _ => True
  | MLeaving p => p ∈ s_members s ∧ ∀ e, e ∈ pend prog → e ∈ own_of s p
  | MDel p e => p ∈ s_members s ∧ (∀ e', e' ∈ pend prog → e' ∈ own_of s p) ∧ s_ents s !! e = Some (Ent p false)
  end.

Definition thr_ok (s : store) (prog : list instr) : Prop :=
  ∃ m, wf_from m prog = true ∧ NoDup (mcur m ++ joins prog) ∧ mode_ok s m prog.

Record thr_inv (st : cstate) : Prop := {
  t_thr : ∀ tid prog, c_thr st !! tid = Some prog → thr_ok (c_store st) prog;
  t_disj : ∀ i j pi pj p, i ≠ j → c_thr st !! i = Some pi → c_thr st !! j = Some pj →
             p ∈ parts pi → p ∉ parts pj
}.

(* ---------- one instruction, seen from another participant ---------- *)
Lemma exec_members_other i s s' push evs q :
  exec i s = (s', push, evs) → q ≠ pid_of i → (q ∈ s_members s' ↔ q ∈ s_members s).
Proof.
  intros Hex Hq. destruct i as [p|p b|p e|p|p|p e|p e|p]; exec_inv Hex; simpl in *; try done; set_solver.
Qed.

Lemma exec_own_other i s s' push evs q :
  exec i s = (s', push, evs) → q ≠ pid_of i → own_of s' q = own_of s q.
Proof.
  intros Hex Hq. destruct i as [p|p b|p e|p|p|p e|p e|p]; exec_inv Hex; simpl in *; try done.
  - erewrite own_of_upd by reflexivity. by rewrite decide_False.
  - erewrite own_of_upd by reflexivity. by rewrite decide_False.
Qed.

Lemma exec_ent_other k i s s' push evs q e b :
  store_inv (S k) s → exec i s = (s', push, evs) → q ≠ pid_of i →
  (∀ p e', i = ILeaveDelete p e' → s_ents s !! e' = Some (Ent p false)) →
  s_ents s !! e = Some (Ent q b) → s_ents s' !! e = Some (Ent q b).
Proof.
  intros Hst Hex Hq Hdel He. pose proof (store_inv_ids _ _ _ _ Hst He) as Hle.
  pose proof (v_budget _ _ Hst) as Hbud.
  destruct i as [p|p b'|p e'|p|p|p e'|p e'|p]; exec_inv Hex; simpl in *; try done.
  - rewrite u32_succ_small by lia. rewrite lookup_insert_ne by lia. done.
  - rewrite lookup_delete_ne; [done|]. intros ->. rewrite He in Hlk. by simplify_eq.
  - rewrite lookup_delete_ne; [done|]. intros ->. rewrite (Hdel _ _ eq_refl) in He. by simplify_eq.
Qed.

Lemma mode_ok_other k i s s' push evs m prog :
  store_inv (S k) s → exec i s = (s', push, evs) →
  (∀ p e', i = ILeaveDelete p e' → s_ents s !! e' = Some (Ent p false)) →
  wf_from m prog = true → pid_of i ∉ parts prog → mode_ok s m prog → mode_ok s' m prog.
Proof.
  intros Hst Hex Hdel Hwf Hni Hok. destruct m as [|p|p|p e]; try done.
  - assert (Hp : p ≠ pid_of i).
    { intros ->. apply Hni. eapply wf_cur_parts; [exact Hwf|by left]. }
    destruct Hok as [Hm Hpe]. split.
    + by apply (exec_members_other _ _ _ _ _ _ Hex Hp).
    + intros e' He'. rewrite (exec_own_other _ _ _ _ _ _ Hex Hp). by apply Hpe.
  - assert (Hp : p ≠ pid_of i).
    { intros ->. apply Hni. eapply wf_cur_parts; [exact Hwf|right; by eexists]. }
    destruct Hok as (Hm&Hpe&He). split; [|split].
    + by apply (exec_members_other _ _ _ _ _ _ Hex Hp).
    + intros e' He'. rewrite (exec_own_other _ _ _ _ _ _ Hex Hp). by apply Hpe.
    + by eapply exec_ent_other.
Qed.

(* ---------- the stepping thread itself ---------- *)
Lemma thr_self k i rest s s' push evs :
  store_inv (S k) s → exec i s = (s', push, evs) → thr_ok s (i :: rest) → thr_ok s' (push ++ rest).
Proof.
  intros Hst Hex (m&Hwf&Hnd&Hok). apply wf_cons in Hwf.
  destruct i as [p|p b|p e|p|p|p e|p e|p]; destruct Hwf as [-> Hwf]; exec_inv Hex; simpl in *.
  1-8: by eexists (MIn _).
  - (* the snapshot *)
    exists (MLeaving p). rewrite <- app_assoc. simpl. rewrite wf_push, pend_push, joins_app, joins_removes. simpl.
    split; [done|]. split; [done|]. split; [done|]. intros e' He'. by apply elem_of_elements in He'.
  - exists MOut. split; [done|]. split; [|done]. by apply NoDup_cons in Hnd as [_ ?].
  - (* alone *)
    exists (MLeaving p). simpl. rewrite bool_decide_eq_true_2 by done. split; [done|]. split; [done|].
    split; [done|]. intros e' He'. by apply elem_of_nil in He'.
  - exists (MIn p). simpl. rewrite bool_decide_eq_true_2 by done. done.
  - exists MOut. split; [done|]. split; [|done]. by apply NoDup_cons in Hnd as [_ ?].
  - (* lookup: persistent *)
    exists (MLeaving p). destruct Hok as [Hm Hpe]. split; [done|]. split; [done|]. split; [done|].
    intros e' He'. apply Hpe. by right.
  - (* lookup: to be removed *)
    exists (MDel p e). destruct Hok as [Hm Hpe]. simpl. rewrite !bool_decide_eq_true_2 by done. split; [done|].
    split; [done|]. split; [done|]. split; [done|].
    destruct en0 as [o b]; simpl in *. subst b.
    assert (o = p) as ->; [|exact Hlk]. change o with (e_owner (Ent o false)).
    eapply (v_owner_own _ _ Hst p e); [|exact Hlk]. apply Hpe. by left.
  - (* lookup: missing *)
    exists (MLeaving p). destruct Hok as [Hm Hpe]. split; [done|]. split; [done|]. split; [done|].
    intros e' He'. apply Hpe. by right.
  - (* the removal *)
    exists (MLeaving p). destruct Hok as (Hm&Hpe&He). split; [done|]. split; [done|]. split; [done|].
    intros e' He'. apply Hpe. by right.
  - (* RemoveParticipant *)
    exists MOut. split; [done|]. split; [|done]. by apply NoDup_cons in Hnd as [_ ?].
Qed.

(* ---------- all threads ---------- *)
Lemma step_thr_parts st tid i rest s' push evs a pa p :
  c_thr st !! tid = Some (i :: rest) → exec i (c_store st) = (s', push, evs) →
  <[tid := push ++ rest]> (c_thr st) !! a = Some pa → p ∈ parts pa →
  ∃ pa0, c_thr st !! a = Some pa0 ∧ p ∈ parts pa0.
Proof.
  intros HT Hex [(->&<-&Hlt)|[Hne Ha]]%list_lookup_insert_Some Hp.
  - exists (i :: rest). split; [done|]. by eapply parts_step.
  - by exists pa.
Qed.

Lemma thr_step k st tid : store_inv (S k) (c_store st) → thr_inv st → thr_inv (step st tid).
Proof.
  intros Hst [Hthr Hdisj]. destruct (step_cases st tid) as [->|(i&rest&s'&push&evs&HT&Hex&->)]; [done|].
  assert (Hdel : ∀ p e', i = ILeaveDelete p e' → s_ents (c_store st) !! e' = Some (Ent p false)).
  { intros p e' ->. destruct (Hthr _ _ HT) as (m&Hwf&_&Hok). apply wf_cons in Hwf as [-> _]. apply Hok. }
  split; simpl.
  - intros j prog [(->&<-&Hlt)|[Hne Hj]]%list_lookup_insert_Some.
    + eapply thr_self; [exact Hst|exact Hex|]. by eapply Hthr.
    + destruct (Hthr _ _ Hj) as (m&Hwf&Hnd&Hok). exists m. split; [done|]. split; [done|].
      eapply mode_ok_other; [exact Hst|exact Hex|exact Hdel|exact Hwf| |exact Hok].
      apply (Hdisj tid j _ _ _ Hne HT Hj). by left.
  - intros a b pa pb p Hab Ha Hb Hpa Hpb.
    destruct (step_thr_parts _ _ _ _ _ _ _ _ _ _ HT Hex Ha Hpa) as (pa0&Ha0&Hpa0).
    destruct (step_thr_parts _ _ _ _ _ _ _ _ _ _ HT Hex Hb Hpb) as (pb0&Hb0&Hpb0).
    by eapply (Hdisj a b).
Qed.

Record base_inv (k : nat) (st : cstate) : Prop := {
  b_store : store_inv k (c_store st);
  b_thr : thr_inv st
}.

Lemma base_step k st tid : base_inv (S k) st → base_inv k (step st tid).
Proof.
  intros [Hst Hthr]. split; [|by eapply thr_step].
  destruct (step_cases st tid) as [->|(i&rest&s'&push&evs&HT&Hex&->)]; simpl.
  - eapply store_inv_weaken; [|exact Hst]. lia.
  - by eapply store_inv_exec.
Qed.

Lemma base_run σ : ∀ k st, base_inv (length σ + k) st → base_inv k (sched_run st σ).
Proof.
  induction σ as [|a σ IH]; intros k st H; simpl; [done|]. apply IH. by apply base_step.
Qed.

Lemma base_weaken k k' st : (k' ≤ k)%nat → base_inv k st → base_inv k' st.
Proof. intros Hle [H1 H2]. split; [|done]. by eapply store_inv_weaken. Qed.

(* ---------- the initial state ---------- *)
Lemma wellformed_thread progs j prog :
  wellformed progs = true → progs !! j = Some prog → wf_from MOut prog = true ∧ NoDup (joins prog).
Proof.
  intros [H _]%andb_true_iff Hj. rewrite forallb_forall in H.
  specialize (H prog). rewrite <- elem_of_list_In in H. specialize (H (elem_of_list_lookup_2 _ _ _ Hj)).
  apply andb_true_iff in H as [H1 H2]. split; [done|]. by apply bool_decide_eq_true in H2.
Qed.

Lemma wellformed_disjoint progs i j pi pj p :
  wellformed progs = true → i ≠ j → progs !! i = Some pi → progs !! j = Some pj →
  p ∈ parts pi → p ∉ parts pj.
Proof.
  intros [_ H]%andb_true_iff Hne Hi Hj Hp.
  unfold threads_disjoint in H. rewrite forallb_forall in H.
  specialize (H (i, pi)). rewrite <- elem_of_list_In in H.
  specialize (H (elem_of_lookup_imap_2 pair progs pi i Hi)). rewrite forallb_forall in H.
  specialize (H (j, pj)). rewrite <- elem_of_list_In in H.
  specialize (H (elem_of_lookup_imap_2 pair progs pj j Hj)). simpl in H.
  apply orb_true_iff in H as [H|H]; [by apply Nat.eqb_eq in H|].
  rewrite forallb_forall in H. specialize (H p). rewrite <- elem_of_list_In in H. specialize (H Hp).
  apply negb_true_iff in H. by apply bool_decide_eq_false in H.
Qed.

Lemma base_init k progs : wellformed progs = true → N.of_nat k < two32 → base_inv k (cinit progs).
Proof.
  intros Hwf Hk. split; simpl; [by apply store_inv0|]. split; simpl.
  - intros j prog Hj. destruct (wellformed_thread _ _ _ Hwf Hj) as [H1 H2]. by exists MOut.
  - intros i j pi pj p. by apply wellformed_disjoint.
Qed.

Lemma base_reach progs σ k :
  wellformed progs = true → N.of_nat (length σ + k) < two32 → base_inv k (sched_run (cinit progs) σ).
Proof. intros Hwf Hk. apply base_run. by apply base_init. Qed.

(* ---------- C06, full departure: no orphaned non-persistent entity ---------- *)
Lemma exec_ent_origin i s s' push evs e en :
  exec i s = (s', push, evs) → s_ents s' !! e = Some en →
  s_ents s !! e = Some en ∨
  (i = IAddEntity (e_owner en) (e_persist en) ∧ e_owner en ∈ s_members s ∧ e = u32_succ (s_next s)).
Proof.
  intros Hex He. destruct i as [p|p b|p e'|p|p|p e'|p e'|p]; exec_inv Hex; simpl in *; try (by left).
  - apply lookup_insert_Some in He as [[<- <-]|[Hne He]]; [by right|by left].
  - apply lookup_delete_Some in He as [_ He]. by left.
  - apply lookup_delete_Some in He as [_ He]. by left.
Qed.

Lemma exec_members_keep i s s' push evs q :
  exec i s = (s', push, evs) → q ∈ s_members s → q ∈ s_members s' ∨ i = ILeaveFinish q.
Proof.
  intros Hex Hq. destruct (decide (q = pid_of i)) as [->|Hne].
  - destruct i as [p|p b|p e'|p|p|p e'|p e'|p]; exec_inv Hex; simpl in *; try (by left); try (by right).
    left. set_solver.
  - left. by apply (exec_members_other _ _ _ _ _ _ Hex Hne).
Qed.

Lemma exec_push_full i s s' push evs :
  exec i s = (s', push, evs) → instr_full i = true → forallb instr_full push = true.
Proof.
  intros Hex Hi. destruct i as [p|p b|p e'|p|p|p e'|p e'|p]; exec_inv Hex; simpl in *; try done.
  rewrite forallb_app. simpl. rewrite andb_true_r. apply forallb_forall. intros x Hx%elem_of_list_In.
  apply elem_of_list_fmap in Hx as (?&->&_). done.
Qed.

Lemma leaving_parts prog p : leaving_of prog = Some p → p ∈ parts prog.
Proof. destruct prog as [|[] rest]; simpl; intros; simplify_eq; by left. Qed.

Lemma leaving_push p es rest : leaving_of (map (ILeaveRemove p) es ++ ILeaveFinish p :: rest) = Some p.
Proof. by destruct es. Qed.

Record full_inv (st : cstate) : Prop := {
  f_nocheck : ∀ tid prog, c_thr st !! tid = Some prog → forallb instr_full prog = true;
  f_member : ∀ e en, s_ents (c_store st) !! e = Some en → e_persist en = false →
               e_owner en ∈ s_members (c_store st);
  f_pending : ∀ tid prog e en, c_thr st !! tid = Some prog → s_ents (c_store st) !! e = Some en →
                e_persist en = false → leaving_of prog = Some (e_owner en) → e ∈ pend prog
}.

Lemma full_step k st tid : base_inv (S k) st → full_inv st → full_inv (step st tid).
Proof.
  intros [Hst [Hthr Hdisj]] [Hnc Hmem Hpend].
  destruct (step_cases st tid) as [->|(i&rest&s'&push&evs&HT&Hex&->)]; [done|].
  pose proof (Hnc _ _ HT) as Hfull. simpl in Hfull. apply andb_true_iff in Hfull as [Hfi Hfrest].
  split; simpl.
  - intros j prog [(->&<-&Hlt)|[Hne Hj]]%list_lookup_insert_Some; [|by eapply Hnc].
    rewrite forallb_app. rewrite (exec_push_full _ _ _ _ _ Hex Hfi). done.
  - intros e en He Hnp. destruct (exec_ent_origin _ _ _ _ _ _ _ Hex He) as [Hold|(->&Hm&_)].
    + destruct (exec_members_keep _ _ _ _ _ _ Hex (Hmem _ _ Hold Hnp)) as [Hk| ->]; [done|].
      exfalso. pose proof (Hpend _ _ _ _ HT Hold Hnp eq_refl) as Hin. by apply elem_of_nil in Hin.
    + destruct (exec_members_keep _ _ _ _ _ _ Hex Hm) as [Hk|Hk]; [done|discriminate].
  - intros j prog e en Hj He Hnp Hlv.
    apply list_lookup_insert_Some in Hj as [(->&<-&Hlt)|[Hne Hj]].
    + (* the stepping thread *)
      destruct (Hthr _ _ HT) as (m&Hwf&_&_). apply wf_cons in Hwf.
      destruct i as [p|p b|p e'|p|p|p e'|p e'|p]; destruct Hwf as [-> Hwf]; try discriminate;
        exec_inv Hex; simpl in *;
        try (rewrite (wf_leaving _ _ Hwf) in Hlv; discriminate).
      * rewrite <- app_assoc in *. simpl in *. rewrite leaving_push in Hlv. rewrite pend_push.
        apply elem_of_elements. injection Hlv as Hlv. rewrite Hlv. by eapply v_own_owner.
      * rewrite (wf_leaving _ _ Hwf) in Hlv.
        pose proof (Hpend _ _ _ _ HT He Hnp Hlv) as [->|Hin]%elem_of_cons; [|done]. congruence.
      * exact (Hpend _ _ _ _ HT He Hnp Hlv).
      * rewrite (wf_leaving _ _ Hwf) in Hlv.
        pose proof (Hpend _ _ _ _ HT He Hnp Hlv) as [->|Hin]%elem_of_cons; [|done]. congruence.
      * rewrite (wf_leaving _ _ Hwf) in Hlv. apply lookup_delete_Some in He as [Hne He].
        pose proof (Hpend _ _ _ _ HT He Hnp Hlv) as [->|Hin]%elem_of_cons; done.
    + (* another thread *)
      destruct (exec_ent_origin _ _ _ _ _ _ _ Hex He) as [Hold|(->&Hm&_)]; [by eapply Hpend|].
      exfalso. apply (Hdisj tid j _ _ (e_owner en) Hne HT Hj); [by left|by apply leaving_parts].
Qed.

Lemma full_run σ : ∀ k st, base_inv (length σ + k) st → full_inv st → full_inv (sched_run st σ).
Proof.
  induction σ as [|a σ IH]; intros k st Hb Hf; simpl; [done|]. simpl in Hb.
  apply (IH k); [by apply base_step|by eapply full_step].
Qed.

Lemma full_init progs : wellformed progs = true → uses_full_departure progs = true → full_inv (cinit progs).
Proof.
  intros Hwf Hfull. split; simpl.
  - intros j prog Hj. unfold uses_full_departure in Hfull. rewrite forallb_forall in Hfull.
    apply Hfull, elem_of_list_In. by eapply elem_of_list_lookup_2.
  - intros e en. by rewrite lookup_empty.
  - intros j prog e en _. by rewrite lookup_empty.
Qed.

(* at every moment of every schedule: a non-persistent entity is owned by a member, and if that member's
   departure is under way, the entity is among the ids of its snapshot not passed yet *)
Theorem conc_no_orphans_always :
  ∀ progs, wellformed progs = true → uses_full_departure progs = true →
  ∀ σ, N.of_nat (length σ) < two32 →
  let st := sched_run (cinit progs) σ in
  ∀ e en, s_ents (c_store st) !! e = Some en → e_persist en = false →
    e_owner en ∈ s_members (c_store st) ∧
    ∀ tid prog, c_thr st !! tid = Some prog → leaving_of prog = Some (e_owner en) → e ∈ pend prog.
Proof.
  intros progs Hwf Hfull σ Hb st e en He Hnp.
  assert (Hf : full_inv st).
  { apply (full_run σ 0); [|by apply full_init]. apply base_init; [done|]. by rewrite Nat.add_0_r. }
  split; [by eapply f_member|]. intros tid prog HT Hlv. by eapply f_pending.
Qed.

Theorem conc_no_orphans :
  ∀ progs, wellformed progs = true → uses_full_departure progs = true →
  ∀ σ, N.of_nat (length σ) < two32 →
  let st := sched_run (cinit progs) σ in
  complete st = true →
  ∀ e en, s_ents (c_store st) !! e = Some en → e_persist en = false → e_owner en ∈ s_members (c_store st).
Proof.
  intros progs Hwf Hfull σ Hb st _ e en He Hnp.
  by apply (conc_no_orphans_always progs Hwf Hfull σ Hb e en He Hnp).
Qed.

(* ---------- what removes an entity ---------- *)
Lemma step_log st tid : ∃ evs, c_log (step st tid) = c_log st ++ evs.
Proof.
  destruct (step_cases st tid) as [->|(i&rest&s'&push&evs&HT&Hex&->)].
  - exists []. by rewrite app_nil_r.
  - by exists evs.
Qed.

Lemma run_log σ : ∀ st, ∃ l, c_log (sched_run st σ) = c_log st ++ l.
Proof.
  induction σ as [|a σ IH]; intros st; simpl.
  - exists []. by rewrite app_nil_r.
  - destruct (IH (step st a)) as [l Hl]. destruct (step_log st a) as [evs Hevs].
    exists (evs ++ l). by rewrite Hl, Hevs, app_assoc.
Qed.

Lemma head_delete st tid p e rest :
  thr_inv st → c_thr st !! tid = Some (ILeaveDelete p e :: rest) →
  s_ents (c_store st) !! e = Some (Ent p false).
Proof.
  intros [Hthr _] HT. destruct (Hthr _ _ HT) as (m&Hwf&_&Hok). apply wf_cons in Hwf as [-> _]. apply Hok.
Qed.

(* one step and one entity: it stays as it is, or its owner's connection deletes it by request, or its owner's
   departure removes it and it is not persistent *)
Lemma ent_step k st a e en :
  base_inv (S k) st → s_ents (c_store st) !! e = Some en →
  s_ents (c_store (step st a)) !! e = Some en ∨
  (∃ rest, c_thr st !! a = Some (IDelEntity (e_owner en) e :: rest) ∧ e_owner en ∈ s_members (c_store st) ∧
     c_log (step st a) = c_log st ++ [EvDel (e_owner en) e]) ∨
  (∃ rest, c_thr st !! a = Some (ILeaveDelete (e_owner en) e :: rest) ∧ e_persist en = false ∧
     c_log (step st a) = c_log st ++ [EvLeaveRm (e_owner en) e]).
Proof.
  intros [Hst Hthr] He. pose proof (store_inv_ids _ _ _ _ Hst He) as Hle. pose proof (v_budget _ _ Hst) as Hbud.
  destruct (step_cases st a) as [->|(i&rest&s'&push&evs&HT&Hex&->)]; [by left|]. simpl.
  destruct i as [p|p b|p e'|p|p|p e'|p e'|p]; exec_inv Hex; simpl in *; try (by left).
  - left. rewrite u32_succ_small by lia. rewrite lookup_insert_ne by lia. done.
  - destruct (decide (e' = e)) as [->|Hne]; [|left; by rewrite lookup_delete_ne].
    right; left. rewrite He in Hlk. simplify_eq. by exists rest.
  - destruct (decide (e' = e)) as [->|Hne]; [|left; by rewrite lookup_delete_ne].
    right; right. pose proof (head_delete _ _ _ _ _ Hthr HT) as Hd. rewrite He in Hd. simplify_eq. by exists rest.
Qed.

Lemma ent_run σ : ∀ k st e en,
  base_inv (length σ + k) st → s_ents (c_store st) !! e = Some en →
  ∃ l, c_log (sched_run st σ) = c_log st ++ l ∧
    (s_ents (c_store (sched_run st σ)) !! e = Some en ∨ EvDel (e_owner en) e ∈ l ∨
     (e_persist en = false ∧ EvLeaveRm (e_owner en) e ∈ l)).
Proof.
  induction σ as [|a σ IH]; intros k st e en Hb He; simpl.
  { exists []. rewrite app_nil_r. split; [done|by left]. }
  simpl in Hb. destruct (ent_step _ _ a _ _ Hb He) as [Hs|[(rest&_&_&Hl)|(rest&_&Hnp&Hl)]].
  - destruct (IH k (step st a) e en (base_step _ _ _ Hb) Hs) as (l&Hl&Hd).
    destruct (step_log st a) as [evs Hevs]. exists (evs ++ l). rewrite Hl, Hevs, app_assoc. split; [done|].
    destruct Hd as [Hd|[Hd|[Hnp Hd]]]; [by left|right; left|right; right; split; [done|]];
      apply elem_of_app; by right.
  - destruct (run_log σ (step st a)) as [l Hl']. exists ([EvDel (e_owner en) e] ++ l).
    rewrite Hl', Hl, <- app_assoc. split; [done|]. right; left. by left.
  - destruct (run_log σ (step st a)) as [l Hl']. exists ([EvLeaveRm (e_owner en) e] ++ l).
    rewrite Hl', Hl, <- app_assoc. split; [done|]. right; right. split; [done|]. by left.
Qed.

(* C06, persistent entities: no step of any connection other than its owner's explicit deletion request,
   executed while the owner is a member, removes or changes a persistent entity *)
Theorem conc_persistent_survive_step :
  ∀ progs, wellformed progs = true →
  ∀ σ tid, N.of_nat (length σ + 1) < two32 →
  let st := sched_run (cinit progs) σ in
  ∀ e en, s_ents (c_store st) !! e = Some en → e_persist en = true →
    s_ents (c_store (step st tid)) !! e = Some en ∨
    ∃ rest, c_thr st !! tid = Some (IDelEntity (e_owner en) e :: rest) ∧ e_owner en ∈ s_members (c_store st) ∧
      c_log (step st tid) = c_log st ++ [EvDel (e_owner en) e].
Proof.
  intros progs Hwf σ tid Hb st e en He Hp.
  assert (Hbase : base_inv 1 st) by (by apply base_reach).
  destruct (ent_step _ _ tid _ _ Hbase He) as [Hs|[Hd|(rest&_&Hnp&_)]]; [by left|by right|congruence].
Qed.

Theorem conc_persistent_survive :
  ∀ progs, wellformed progs = true →
  ∀ σ1 σ2, N.of_nat (length (σ1 ++ σ2)) < two32 →
  let st1 := sched_run (cinit progs) σ1 in
  let st2 := sched_run (cinit progs) (σ1 ++ σ2) in
  ∀ e en, s_ents (c_store st1) !! e = Some en → e_persist en = true →
    ∃ l, c_log st2 = c_log st1 ++ l ∧
      (s_ents (c_store st2) !! e = Some en ∨ EvDel (e_owner en) e ∈ l).
Proof.
  intros progs Hwf σ1 σ2 Hb st1 st2 e en He Hp. rewrite app_length in Hb.
  assert (Hbase : base_inv (length σ2 + 0) st1).
  { apply base_reach; [done|]. by rewrite Nat.add_0_r. }
  destruct (ent_run σ2 0 st1 e en Hbase He) as (l&Hl&Hd). exists l.
  unfold st2. rewrite sched_run_app. split; [exact Hl|].
  destruct Hd as [Hd|[Hd|[Hnp _]]]; [by left|by right|congruence].
Qed.

(* ---------- the log of a participant whose departure has not started ---------- *)
Definition unstarted (p : N) (prog : list instr) : Prop :=
  p ∈ joins prog ∨ ILeaveSnapshot p ∈ prog ∨ ILeaveCheckAlone p ∈ prog.

Lemma joins_parts prog p : p ∈ joins prog → p ∈ parts prog.
Proof.
  unfold joins, parts. rewrite elem_of_list_omap, elem_of_list_fmap. intros (i&Hi&Hp).
  exists i. split; [|done]. destruct i; by simplify_eq.
Qed.

Lemma unstarted_parts p prog : unstarted p prog → p ∈ parts prog.
Proof.
  intros [H|[H|H]]; [by apply joins_parts| |]; unfold parts; apply elem_of_list_fmap; eexists; (split; [|exact H]); done.
Qed.

Lemma wf_unstarted prog : ∀ m p, wf_from m prog = true →
  ILeaveSnapshot p ∈ prog ∨ ILeaveCheckAlone p ∈ prog → m = MIn p ∨ p ∈ joins prog.
Proof.
  induction prog as [|i rest IH]; intros m p Hwf Hin.
  { destruct Hin as [Hin|Hin]; by apply elem_of_nil in Hin. }
  apply wf_cons in Hwf.
  assert (Hcase : i = ILeaveSnapshot p ∨ i = ILeaveCheckAlone p ∨
                  (ILeaveSnapshot p ∈ rest ∨ ILeaveCheckAlone p ∈ rest)).
  { destruct Hin as [[->|Hin]%elem_of_cons|[->|Hin]%elem_of_cons]; auto. }
  destruct Hcase as [->|[->|Hrest]].
  - destruct Hwf as [-> _]. by left.
  - destruct Hwf as [-> _]. by left.
  - destruct i as [q|q b|q e|q|q|q e|q e|q]; destruct Hwf as [-> Hwf]; destruct (IH _ _ Hwf Hrest) as [Hm|Hj];
      simplify_eq; simpl; try (by left); try (by right); try (right; by right); right; by left.
Qed.

Lemma exec_push_joins i s s' push evs : exec i s = (s', push, evs) → joins push = [].
Proof.
  intros Hex. destruct i as [p|p b|p e|p|p|p e|p e|p]; exec_inv Hex; try done.
  by rewrite joins_app, joins_removes.
Qed.

Lemma exec_push_unstarted i s s' push evs rest p :
  exec i s = (s', push, evs) → unstarted p (push ++ rest) → unstarted p (i :: rest).
Proof.
  intros Hex [H|[H|H]].
  - left. rewrite joins_app, (exec_push_joins _ _ _ _ _ Hex) in H. simpl in H.
    destruct i; simpl; try done. by right.
  - apply elem_of_app in H as [H|H]; [|right; left; by right].
    destruct i as [q|q b|q e|q|q|q e|q e|q]; exec_inv Hex; try (by apply elem_of_nil in H).
    + apply elem_of_app in H as [H|H].
      * apply elem_of_list_fmap in H as (?&?&_). done.
      * apply elem_of_list_singleton in H. done.
    + apply elem_of_list_singleton in H. done.
    + apply elem_of_list_singleton in H. simplify_eq. right; right. by left.
    + apply elem_of_list_singleton in H. done.
  - apply elem_of_app in H as [H|H]; [|right; right; by right].
    destruct i as [q|q b|q e|q|q|q e|q e|q]; exec_inv Hex; try (by apply elem_of_nil in H).
    + apply elem_of_app in H as [H|H].
      * apply elem_of_list_fmap in H as (?&?&_). done.
      * apply elem_of_list_singleton in H. done.
    + apply elem_of_list_singleton in H. done.
    + apply elem_of_list_singleton in H. done.
    + apply elem_of_list_singleton in H. done.
Qed.

Lemma exec_evs_leave i s s' push evs p :
  exec i s = (s', push, evs) → (∃ e, EvLeaveRm p e ∈ evs) ∨ (∃ b, EvFinish p b ∈ evs) →
  (∃ e, i = ILeaveDelete p e) ∨ i = ILeaveFinish p.
Proof.
  intros Hex Hev.
  destruct i as [q|q b|q e|q|q|q e|q e|q]; exec_inv Hex;
    destruct Hev as [[x Hx]|[x Hx]];
    try (by apply elem_of_nil in Hx); apply elem_of_list_singleton in Hx; simplify_eq.
  - left. by eexists.
  - by right.
Qed.

Lemma exec_evs_rm i s s' push evs p e :
  exec i s = (s', push, evs) → EvLeaveRm p e ∈ evs → i = ILeaveDelete p e.
Proof.
  intros Hex Hx.
  destruct i as [q|q b|q e'|q|q|q e'|q e'|q]; exec_inv Hex;
    try (by apply elem_of_nil in Hx); apply elem_of_list_singleton in Hx; by simplify_eq.
Qed.

Definition log_inv (st : cstate) : Prop :=
  ∀ tid prog p, c_thr st !! tid = Some prog → unstarted p prog →
    (∀ e, EvLeaveRm p e ∉ c_log st) ∧ (∀ b, EvFinish p b ∉ c_log st).

Lemma log_step k st a : base_inv (S k) st → log_inv st → log_inv (step st a).
Proof.
  intros [Hst [Hthr Hdisj]] Hlog.
  destruct (step_cases st a) as [->|(i&rest&s'&push&evs&HT&Hex&->)]; [done|].
  intros j prog p Hj Hun. simpl in *.
  assert (∃ prog0, c_thr st !! j = Some prog0 ∧ unstarted p prog0) as (prog0&Hj0&Hun0).
  { apply list_lookup_insert_Some in Hj as [(->&<-&Hlt)|[Hne Hj]]; [|by eauto].
    exists (i :: rest). split; [done|]. by eapply exec_push_unstarted. }
  destruct (Hlog _ _ _ Hj0 Hun0) as [Hrm Hfin].
  assert (Hnone : ¬ ((∃ e, EvLeaveRm p e ∈ evs) ∨ (∃ b, EvFinish p b ∈ evs))).
  { intros Hev. apply (exec_evs_leave _ _ _ _ _ _ Hex) in Hev.
    assert (Hpi : p = pid_of i) by (destruct Hev as [[e ->]| ->]; done).
    destruct (decide (j = a)) as [->|Hne].
    - rewrite HT in Hj0. injection Hj0 as <-. clear Hpi. destruct (Hthr _ _ HT) as (m&Hwf&Hnd&_). apply wf_cons in Hwf.
      assert (Hrest : p ∈ joins rest ∨ ILeaveSnapshot p ∈ rest ∨ ILeaveCheckAlone p ∈ rest).
      { destruct Hev as [[e ->]| ->]; destruct Hun0 as [H|[H|H]]; simpl in H; auto;
          apply elem_of_cons in H as [H|H]; auto; discriminate. }
      assert (p ∉ joins rest ∧ ∃ m', wf_from m' rest = true ∧ m' ≠ MIn p) as (Hnj&m'&Hwf'&Hm').
      { destruct Hev as [[e ->]| ->]; destruct Hwf as [-> Hwf]; simpl in Hnd; apply NoDup_cons in Hnd as [Hnd _];
          (split; [done|]); eexists; (split; [exact Hwf|done]). }
      destruct Hrest as [H|H]; [done|]. destruct (wf_unstarted _ _ _ Hwf' H) as [?|?]; done.
    - apply (Hdisj a j _ _ p (not_eq_sym Hne) HT Hj0); [rewrite Hpi; by left|by apply unstarted_parts]. }
  split.
  - intros e [Hin|Hin]%elem_of_app; [by eapply Hrm|]. apply Hnone. left. by exists e.
  - intros b [Hin|Hin]%elem_of_app; [by eapply Hfin|]. apply Hnone. right. by exists b.
Qed.

Lemma log_run σ : ∀ k st, base_inv (length σ + k) st → log_inv st → log_inv (sched_run st σ).
Proof.
  induction σ as [|a σ IH]; intros k st Hb Hl; simpl; [done|]. simpl in Hb.
  apply (IH k); [by apply base_step|by eapply log_step].
Qed.

Lemma log_init progs : log_inv (cinit progs).
Proof. intros j prog p _ _. simpl. split; intros x Hx; by apply elem_of_nil in Hx. Qed.

(* ---------- C06, one departure followed from its snapshot on ---------- *)
Lemma exec_next_mono k i s s' push evs : store_inv (S k) s → exec i s = (s', push, evs) → s_next s ≤ s_next s'.
Proof.
  intros Hst Hex. pose proof (v_budget _ _ Hst) as Hbud.
  destruct i as [p|p b|p e|p|p|p e|p e|p]; exec_inv Hex; simpl; try lia.
  rewrite u32_succ_small by lia. lia.
Qed.

(* an id that was in the entity map once and is not there now does not come back *)
Lemma exec_ent_none k i s s' push evs e :
  store_inv (S k) s → exec i s = (s', push, evs) → e ≤ s_next s → s_ents s !! e = None → s_ents s' !! e = None.
Proof.
  intros Hst Hex Hle Hn. pose proof (v_budget _ _ Hst) as Hbud.
  destruct (s_ents s' !! e) as [en|] eqn:He; [|done].
  destruct (exec_ent_origin _ _ _ _ _ _ _ Hex He) as [Hold|(_&_&->)]; [congruence|].
  rewrite u32_succ_small in Hle by lia. lia.
Qed.

(* [p]'s departure, run by thread [tid], seen from the state of its snapshot (entity map [ents1], id counter
   [next1], log [log1]) *)
Definition dep_inv (p : N) (tid : nat) (ents1 : gmap N ent) (next1 : N) (log1 : list event) (st : cstate) : Prop :=
  ∃ l prog,
    c_log st = log1 ++ l ∧ c_thr st !! tid = Some prog ∧ next1 ≤ s_next (c_store st) ∧
    (∀ e, EvLeaveRm p e ∈ l → ents1 !! e = Some (Ent p false) ∧ s_ents (c_store st) !! e = None) ∧
    ((leaving_of prog = Some p ∧ (∀ b, EvFinish p b ∉ l) ∧
      (∀ e en, e ∈ pend prog → s_ents (c_store st) !! e = Some en → ents1 !! e = Some en) ∧
      (∀ e, ents1 !! e = Some (Ent p false) →
         EvLeaveRm p e ∈ l ∨ (e ∈ pend prog ∧ s_ents (c_store st) !! e = Some (Ent p false))))
     ∨
     ((∃ b, EvFinish p b ∈ l) ∧ (∀ e, ents1 !! e = Some (Ent p false) → EvLeaveRm p e ∈ l) ∧
      ∀ j pj, c_thr st !! j = Some pj → p ∉ parts pj)).

Lemma dep_step k p tid ents1 next1 log1 st a :
  base_inv (S k) st → (∀ e en, ents1 !! e = Some en → e ≤ next1) →
  dep_inv p tid ents1 next1 log1 st → dep_inv p tid ents1 next1 log1 (step st a).
Proof.
  intros [Hst [Hthr Hdisj]] Hle1 (l&prog&Hlog&Hprog&Hnx&Hrm&Hph).
  destruct (step_cases st a) as [->|(i&rest&s'&push&evs&HT&Hex&->)].
  { exists l, prog. done. }
  pose proof (exec_next_mono _ _ _ _ _ _ Hst Hex) as Hmono.
  assert (Hdel : ∀ q e', i = ILeaveDelete q e' → s_ents (c_store st) !! e' = Some (Ent q false)).
  { intros q e' ->. by eapply head_delete. }
  assert (Hrm_old : ∀ e, EvLeaveRm p e ∈ l → ents1 !! e = Some (Ent p false) ∧ s_ents s' !! e = None).
  { intros e He. destruct (Hrm _ He) as [H1 H2]. split; [done|].
    eapply exec_ent_none; [exact Hst|exact Hex| |exact H2]. apply Hle1 in H1. lia. }
  destruct Hph as [(Hlv&Hnf&Hpe&HD)|(Hf&HD&Hnp)].
  - (* the departure is under way *)
    destruct (decide (a = tid)) as [->|Hne].
    + (* its own thread steps *)
      rewrite HT in Hprog. injection Hprog as <-.
      destruct (Hthr _ _ HT) as (m&Hwf&Hnd&Hok). apply wf_cons in Hwf.
      destruct i as [q|q b|q e0|q|q|q e0|q e0|q]; simpl in Hlv; try discriminate; injection Hlv as ->;
        destruct Hwf as [-> Hwf]; exec_inv Hex.
      * (* lookup: persistent *)
        exists l, rest. simpl. rewrite app_nil_r, list_lookup_insert by (by eapply lookup_lt_Some).
        split; [done|]. split; [done|]. split; [done|]. split; [done|]. left.
        split; [by rewrite (wf_leaving _ _ Hwf)|]. split; [done|]. split.
        -- intros e en He. apply Hpe. by right.
        -- intros e He. destruct (HD _ He) as [?|[[->|Hin]%elem_of_cons Hs]]; [by left| |by right].
           rewrite Hlk in Hs. by simplify_eq.
      * (* lookup: to be removed *)
        exists l, (ILeaveDelete p e0 :: rest). simpl. rewrite app_nil_r, list_lookup_insert by (by eapply lookup_lt_Some).
        split; [done|]. split; [done|]. split; [done|]. split; [done|]. left. done.
      * (* lookup: missing *)
        exists l, rest. simpl. rewrite app_nil_r, list_lookup_insert by (by eapply lookup_lt_Some).
        split; [done|]. split; [done|]. split; [done|]. split; [done|]. left.
        split; [by rewrite (wf_leaving _ _ Hwf)|]. split; [done|]. split.
        -- intros e en He. apply Hpe. by right.
        -- intros e He. destruct (HD _ He) as [?|[[->|Hin]%elem_of_cons Hs]]; [by left| |by right].
           rewrite Hlk in Hs. by simplify_eq.
      * (* the removal *)
        destruct Hok as (_&_&He0).
        exists (l ++ [EvLeaveRm p e0]), rest. simpl. rewrite list_lookup_insert by (by eapply lookup_lt_Some).
        split; [by rewrite Hlog, app_assoc|]. split; [done|]. split; [done|]. split.
        { intros e [Hin|Hin]%elem_of_app.
          - destruct (Hrm _ Hin) as [H1 H2]. split; [done|]. apply lookup_delete_None. by right.
          - apply elem_of_list_singleton in Hin. simplify_eq. split; [|by apply lookup_delete].
            apply (Hpe e0 _ (elem_of_list_here _ _) He0). }
        left. split; [by rewrite (wf_leaving _ _ Hwf)|]. split.
        { intros b [Hin|Hin]%elem_of_app; [by eapply Hnf|]. by apply elem_of_list_singleton in Hin. }
        split.
        -- intros e en He [Hne' Hs]%lookup_delete_Some. apply Hpe; [by right|done].
        -- intros e He. destruct (decide (e = e0)) as [->|Hne'].
           { left. apply elem_of_app. right. by left. }
           destruct (HD _ He) as [Hin|[[->|Hin]%elem_of_cons Hs]]; [left; apply elem_of_app; by left|done|].
           right. split; [done|]. by rewrite lookup_delete_ne.
      * (* RemoveParticipant *)
        eexists (l ++ [EvFinish p _]), rest. simpl. rewrite list_lookup_insert by (by eapply lookup_lt_Some).
        split; [by rewrite Hlog, app_assoc|]. split; [done|]. split; [done|]. split.
        { intros e [Hin|Hin]%elem_of_app; [by apply Hrm|]. by apply elem_of_list_singleton in Hin. }
        right. split; [eexists; apply elem_of_app; right; by left|]. split.
        -- intros e He. destruct (HD _ He) as [Hin|[Hin _]]; [apply elem_of_app; by left|].
           by apply elem_of_nil in Hin.
        -- intros j pj [(->&<-&Hlt)|[Hne Hj]]%list_lookup_insert_Some.
           ++ intros Hin. simpl in Hnd. apply NoDup_cons in Hnd as [Hnd _].
              destruct (wf_parts_joins _ _ _ Hwf Hin) as [Hc|Hj]; [by apply elem_of_nil in Hc|done].
           ++ apply (Hdisj tid j _ _ p Hne HT Hj). by left.
    + (* another thread steps *)
      assert (Hpp : p ∈ parts prog) by (by apply leaving_parts).
      assert (Hpi : p ≠ pid_of i).
      { intros ->. apply (Hdisj a tid _ _ (pid_of i) Hne HT Hprog); [by left|done]. }
      assert (Hnone : ∀ x, x ∈ evs → (∀ e, x ≠ EvLeaveRm p e) ∧ (∀ b, x ≠ EvFinish p b)).
      { intros x Hx. split.
        - intros e ->. apply Hpi. assert (Hev : (∃ e, EvLeaveRm p e ∈ evs) ∨ (∃ b, EvFinish p b ∈ evs)) by (left; eauto).
          apply (exec_evs_leave _ _ _ _ _ _ Hex) in Hev as [[? ->]| ->]; done.
        - intros b ->. apply Hpi. assert (Hev : (∃ e, EvLeaveRm p e ∈ evs) ∨ (∃ b, EvFinish p b ∈ evs)) by (right; eauto).
          apply (exec_evs_leave _ _ _ _ _ _ Hex) in Hev as [[? ->]| ->]; done. }
      assert (Hown : ∀ e, e ∈ pend prog → e ∈ own_of (c_store st) p).
      { destruct (Hthr _ _ Hprog) as (m&Hwf&_&Hok). pose proof (wf_leaving _ _ Hwf) as Hl. rewrite Hlv in Hl.
        destruct m; simplify_eq; apply Hok. }
      exists (l ++ evs), prog. simpl. rewrite list_lookup_insert_ne by done.
      split; [by rewrite Hlog, app_assoc|]. split; [done|]. split; [lia|]. split.
      { intros e [Hin|Hin]%elem_of_app; [by apply Hrm_old|]. by destruct (Hnone _ Hin) as [H _]; destruct (H e). }
      left. split; [done|]. split.
      { intros b [Hin|Hin]%elem_of_app; [by eapply Hnf|]. by destruct (Hnone _ Hin) as [_ H]; destruct (H b). }
      split.
      * intros e en He Hs. destruct (exec_ent_origin _ _ _ _ _ _ _ Hex Hs) as [Hold|(_&_&->)]; [by eapply Hpe|].
        exfalso. apply Hown in He. apply (v_ids _ _ Hst) in He. pose proof (v_budget _ _ Hst).
        rewrite u32_succ_small in He by lia. lia.
      * intros e He. destruct (HD _ He) as [Hin|[Hin Hs]]; [left; apply elem_of_app; by left|].
        right. split; [done|]. by eapply exec_ent_other.
  - (* the departure is over *)
    exists (l ++ evs), (match decide (a = tid) with left _ => push ++ rest | right _ => prog end). simpl.
    split; [by rewrite Hlog, app_assoc|]. split.
    { destruct (decide (a = tid)) as [->|Hne]; [|by rewrite list_lookup_insert_ne].
      rewrite list_lookup_insert; [done|]. by eapply lookup_lt_Some. }
    split; [lia|].
    assert (Hpi : p ≠ pid_of i).
    { intros ->. apply (Hnp _ _ HT). by left. }
    split.
    { intros e [Hin|Hin]%elem_of_app; [by apply Hrm_old|].
      apply (exec_evs_rm _ _ _ _ _ _ _ Hex) in Hin. subst i. done. }
    right. split.
    { destruct Hf as [b Hb]. exists b. apply elem_of_app. by left. }
    split.
    { intros e He. apply elem_of_app. left. by apply HD. }
    intros j pj Hj Hin. destruct (step_thr_parts _ _ _ _ _ _ _ _ _ _ HT Hex Hj Hin) as (pj0&Hj0&Hin0).
    by apply (Hnp _ _ Hj0).
Qed.

Lemma dep_run σ : ∀ k p tid ents1 next1 log1 st,
  base_inv (length σ + k) st → (∀ e en, ents1 !! e = Some en → e ≤ next1) →
  dep_inv p tid ents1 next1 log1 st → dep_inv p tid ents1 next1 log1 (sched_run st σ).
Proof.
  induction σ as [|a σ IH]; intros k p tid ents1 next1 log1 st Hb Hle Hd; simpl; [done|]. simpl in Hb.
  apply (IH k); [by apply base_step|done|by eapply dep_step].
Qed.

Lemma dep_start k st tid p rest :
  base_inv (S k) st → c_thr st !! tid = Some (ILeaveSnapshot p :: rest) → p ∈ s_members (c_store st) →
  dep_inv p tid (s_ents (c_store st)) (s_next (c_store st)) (c_log st) (step st tid).
Proof.
  intros [Hst Hthr] HT Hm. unfold step. rewrite HT. unfold exec. rewrite decide_True by done. simpl.
  exists [], (map (ILeaveRemove p) (elements (own_of (c_store st) p)) ++ ILeaveFinish p :: rest). simpl.
  split; [done|]. split.
  { rewrite list_lookup_insert by (by eapply lookup_lt_Some). by rewrite <- app_assoc. }
  split; [lia|]. split.
  { intros e He. by apply elem_of_nil in He. }
  left. rewrite leaving_push, pend_push. split; [done|]. split.
  { intros b Hb. by apply elem_of_nil in Hb. }
  split; [done|]. intros e He. right. split; [|done].
  apply elem_of_elements. by apply (v_own_owner _ _ Hst _ _ He).
Qed.

(* C06, exactness: from the snapshot of p's departure on, what that departure removes are entities that were
   p's and non-persistent at the snapshot (and they do not come back); once its RemoveParticipant has returned,
   it has removed all of them; and any entity of the snapshot state that is gone or changed was removed by its
   OWN owner's request or its OWN owner's departure *)
Theorem conc_departure_exact :
  ∀ progs, wellformed progs = true →
  ∀ σ1 tid σ2 p rest, N.of_nat (length (σ1 ++ tid :: σ2)) < two32 →
  let st1 := sched_run (cinit progs) σ1 in
  let st2 := sched_run (cinit progs) (σ1 ++ tid :: σ2) in
  c_thr st1 !! tid = Some (ILeaveSnapshot p :: rest) → p ∈ s_members (c_store st1) →
  (∀ e, EvLeaveRm p e ∉ c_log st1) ∧
  ∃ l, c_log st2 = c_log st1 ++ l ∧
    (∀ e, EvLeaveRm p e ∈ l →
       s_ents (c_store st1) !! e = Some (Ent p false) ∧ s_ents (c_store st2) !! e = None) ∧
    ((∃ b, EvFinish p b ∈ l) → ∀ e, s_ents (c_store st1) !! e = Some (Ent p false) → EvLeaveRm p e ∈ l) ∧
    (∀ e en, s_ents (c_store st1) !! e = Some en →
       s_ents (c_store st2) !! e = Some en ∨ EvDel (e_owner en) e ∈ l ∨
       (e_persist en = false ∧ EvLeaveRm (e_owner en) e ∈ l)).
Proof.
  intros progs Hwf σ1 tid σ2 p rest Hb st1 st2 HT Hm. rewrite app_length in Hb. simpl in Hb.
  assert (Hbase : base_inv (length (tid :: σ2) + 0) st1).
  { apply base_reach; [done|]. simpl. lia. }
  split.
  { assert (Hlog : log_inv st1).
    { apply (log_run σ1 0); [|apply log_init]. apply base_init; [done|]. lia. }
    apply (Hlog _ _ p HT). right; left. by left. }
  assert (Hd : dep_inv p tid (s_ents (c_store st1)) (s_next (c_store st1)) (c_log st1) st2).
  { unfold st2. rewrite sched_run_app. simpl. apply (dep_run σ2 0).
    - apply base_step. exact Hbase.
    - intros e en He. eapply store_inv_ids; [apply Hbase|exact He].
    - eapply dep_start; [exact Hbase|exact HT|exact Hm]. }
  destruct Hd as (l&prog&Hl&_&_&Hrm&Hph). exists l. split; [exact Hl|]. split; [exact Hrm|]. split.
  - intros [b Hfin] e He. destruct Hph as [(_&Hnf&_)|(_&HD&_)]; [by destruct (Hnf b)|by apply HD].
  - intros e en He. destruct (ent_run (tid :: σ2) 0 st1 e en Hbase He) as (l'&Hl'&Hd).
    change (sched_run st1 (tid :: σ2)) with (sched_run (sched_run (cinit progs) σ1) (tid :: σ2)) in Hl', Hd.
    rewrite <- sched_run_app in Hl', Hd. fold st2 in Hl', Hd.
    rewrite Hl in Hl'. apply app_inv_head in Hl'. subst l'. exact Hd.
Qed.

(* ---------- the end of the session ---------- *)
Lemma exec_kinds i s s' push evs :
  exec i s = (s', push, evs) →
  (s_members s' = s_members s ∧ s_ended s' = s_ended s ∧
   ∀ x, x ∈ evs → (∀ q, x ≠ EvJoin q true) ∧ (∀ p, x ≠ EvFinish p true)) ∨
  (∃ p, i = IJoin p ∧ s_ended s = false ∧ s_members s' = {[p]} ∪ s_members s ∧ s_ended s' = false ∧
        evs = [EvJoin p true]) ∨
  (∃ p, i = ILeaveFinish p ∧ s_ended s = false ∧ s_members s' = ∅ ∧ s_ended s' = true ∧
        evs = [EvFinish p true]) ∨
  (∃ p, i = ILeaveFinish p ∧ s_members s' = s_members s ∖ {[p]} ∧ s_ended s' = s_ended s ∧
        evs = [EvFinish p false] ∧ (s_ended s = false → s_members s ∖ {[p]} ≠ ∅)).
Proof.
  intros Hex.
  assert (Hq : ∀ x : event, x ∈ [] → (∀ q, x ≠ EvJoin q true) ∧ (∀ p, x ≠ EvFinish p true)).
  { intros x Hx. by apply elem_of_nil in Hx. }
  destruct i as [p|p b|p e|p|p|p e|p e|p]; unfold exec in Hex; cbv beta iota zeta in Hex.
  - destruct (s_ended s) eqn:Hend; simplify_eq.
    + left. split; [done|]. split; [done|]. intros x Hx. apply elem_of_list_singleton in Hx as ->. done.
    + right; left. by exists p.
  - left. destruct (decide (p ∈ s_members s)); simplify_eq; simpl; [|done].
    split; [done|]. split; [done|]. intros x Hx. apply elem_of_list_singleton in Hx as ->. done.
  - left. destruct (decide (p ∈ s_members s)); [|by simplify_eq].
    destruct (s_ents s !! e) as [en|]; [|by simplify_eq].
    destruct (decide (e_owner en = p)); simplify_eq; simpl; [|done].
    split; [done|]. split; [done|]. intros x Hx. apply elem_of_list_singleton in Hx as ->. done.
  - left. destruct (decide (p ∈ s_members s)); by simplify_eq.
  - left. destruct (decide (p ∈ s_members s)); by simplify_eq.
  - left. destruct (s_ents s !! e) as [en|]; [|by simplify_eq]. destruct (e_persist en); by simplify_eq.
  - left. simplify_eq. simpl. split; [done|]. split; [done|].
    intros x Hx. apply elem_of_list_singleton in Hx as ->. done.
  - right; right. simplify_eq. simpl.
    destruct (s_ended s) eqn:Hend; simpl.
    + right. exists p. rewrite andb_false_r. done.
    + rewrite andb_true_r. destruct (size (s_members s ∖ {[p]}) =? 0)%nat eqn:Hsz.
      * left. exists p. apply size_zero_empty in Hsz. rewrite Hsz. done.
      * right. exists p. split; [done|]. split; [done|]. split; [done|]. split; [done|].
        intros _. by apply size_nonzero_nonempty.
Qed.

Record ended_inv (st : cstate) : Prop := {
  n_joined : (∃ q, EvJoin q true ∈ c_log st) ∨ (s_members (c_store st) = ∅ ∧ s_ended (c_store st) = false);
  n_alive : s_ended (c_store st) = false → (∃ q, EvJoin q true ∈ c_log st) → s_members (c_store st) ≠ ∅;
  n_last : s_ended (c_store st) = true ↔ ∃ p, EvFinish p true ∈ c_log st
}.

Lemma finish_member st tid p rest :
  thr_inv st → c_thr st !! tid = Some (ILeaveFinish p :: rest) → p ∈ s_members (c_store st).
Proof.
  intros [Hthr _] HT. destruct (Hthr _ _ HT) as (m&Hwf&_&Hok). apply wf_cons in Hwf as [-> _]. apply Hok.
Qed.

Lemma ended_step k st a : base_inv k st → ended_inv st → ended_inv (step st a).
Proof.
  intros [Hst Hthr] [Hj Ha Hl].
  destruct (step_cases st a) as [->|(i&rest&s'&push&evs&HT&Hex&->)]; [done|].
  destruct (exec_kinds _ _ _ _ _ Hex) as
    [(Hm&He&Hq)|[(p&->&He&Hm&He'&->)|[(p&->&He&Hm&He'&->)|(p&->&Hm&He'&->&Hne)]]];
    split; simpl; rewrite ?Hm, ?He, ?He'.
  - destruct Hj as [[q Hq']|Hj]; [left; exists q; apply elem_of_app; by left|by right].
  - intros Hend [q [Hin|Hin]%elem_of_app]; [by eauto|]. by destruct (Hq _ Hin) as [H _]; destruct (H q).
  - rewrite Hl. split; intros [p Hp]; exists p; [apply elem_of_app; by left|].
    apply elem_of_app in Hp as [Hp|Hp]; [done|]. by destruct (Hq _ Hp) as [_ H]; destruct (H p).
  - left. exists p. apply elem_of_app. right. by left.
  - intros _ _. set_solver.
  - split; [done|]. intros [q [Hin|Hin]%elem_of_app].
    + assert (s_ended (c_store st) = true) by (apply Hl; by exists q). congruence.
    + by apply elem_of_list_singleton in Hin.
  - left. destruct Hj as [[q Hq]|[Hm' _]]; [exists q; apply elem_of_app; by left|].
    pose proof (finish_member _ _ _ _ Hthr HT) as Hp. rewrite Hm' in Hp. set_solver.
  - done.
  - split; [|done]. intros _. exists p. apply elem_of_app. right. by left.
  - destruct Hj as [[q Hq]|[Hm' _]]; [left; exists q; apply elem_of_app; by left|].
    pose proof (finish_member _ _ _ _ Hthr HT) as Hp. rewrite Hm' in Hp. set_solver.
  - intros Hend [q [Hin|Hin]%elem_of_app]; [by apply Hne|]. by apply elem_of_list_singleton in Hin.
  - rewrite Hl. split; intros [q Hq]; exists q; [apply elem_of_app; by left|].
    apply elem_of_app in Hq as [Hq|Hq]; [done|]. by apply elem_of_list_singleton in Hq.
Qed.

Lemma ended_run σ : ∀ k st, base_inv (length σ + k) st → ended_inv st → ended_inv (sched_run st σ).
Proof.
  induction σ as [|a σ IH]; intros k st Hb He; simpl; [done|]. simpl in Hb.
  apply (IH k); [by apply base_step|by eapply ended_step].
Qed.

Lemma ended_init progs : ended_inv (cinit progs).
Proof.
  split; simpl; [by right| |].
  - intros _ [q Hq]. by apply elem_of_nil in Hq.
  - split; [done|]. intros [p Hp]. by apply elem_of_nil in Hp.
Qed.

(* the session has ended exactly when some join succeeded and no member is left, and exactly when some
   RemoveParticipant has reported "last" *)
Theorem conc_ended_exact :
  ∀ progs, wellformed progs = true →
  ∀ σ, N.of_nat (length σ) < two32 →
  let st := sched_run (cinit progs) σ in
  (s_ended (c_store st) = true ↔ s_members (c_store st) = ∅ ∧ ∃ q, EvJoin q true ∈ c_log st) ∧
  (s_ended (c_store st) = true ↔ ∃ p, EvFinish p true ∈ c_log st).
Proof.
  intros progs Hwf σ Hb st.
  assert (Hbase : base_inv 0 st) by (apply base_reach; [done|]; by rewrite Nat.add_0_r).
  assert (He : ended_inv st).
  { apply (ended_run σ 0); [|apply ended_init]. apply base_init; [done|]. by rewrite Nat.add_0_r. }
  destruct He as [Hj Ha Hl]. split; [|exact Hl]. split.
  - intros Hend. split; [by apply (v_ended _ _ (b_store _ _ Hbase))|].
    destruct Hj as [Hj|[_ Hf]]; [done|congruence].
  - intros [Hm Hq]. destruct (s_ended (c_store st)) eqn:Hend; [done|]. by destruct (Ha eq_refl Hq).
Qed.

(* once the session has ended it stays ended and empty, and no join succeeds any more: ANY programs *)
Lemma ended_stays_step st a :
  s_ended (c_store st) = true → s_members (c_store st) = ∅ →
  s_ended (c_store (step st a)) = true ∧ s_members (c_store (step st a)) = ∅ ∧
  ∃ evs, c_log (step st a) = c_log st ++ evs ∧ ∀ q, EvJoin q true ∉ evs.
Proof.
  intros Hend Hm. destruct (step_cases st a) as [->|(i&rest&s'&push&evs&HT&Hex&->)].
  { split; [done|]. split; [done|]. exists []. rewrite app_nil_r. split; [done|]. intros q Hq. by apply elem_of_nil in Hq. }
  simpl. destruct (exec_kinds _ _ _ _ _ Hex) as
    [(Hm'&He&Hq)|[(p&->&He&_)|[(p&->&He&_)|(p&->&Hm'&He'&->&_)]]]; try congruence.
  - rewrite Hm', He. split; [done|]. split; [done|]. exists evs. split; [done|].
    intros q Hin. by destruct (Hq _ Hin) as [H _]; destruct (H q).
  - rewrite Hm', He', Hm. split; [done|]. split; [set_solver|]. eexists. split; [done|].
    intros q Hin. by apply elem_of_list_singleton in Hin.
Qed.

Lemma ended_stays_run σ : ∀ st,
  s_ended (c_store st) = true → s_members (c_store st) = ∅ →
  s_ended (c_store (sched_run st σ)) = true ∧ s_members (c_store (sched_run st σ)) = ∅ ∧
  ∃ l, c_log (sched_run st σ) = c_log st ++ l ∧ ∀ q, EvJoin q true ∉ l.
Proof.
  induction σ as [|a σ IH]; intros st Hend Hm; simpl.
  { split; [done|]. split; [done|]. exists []. rewrite app_nil_r. split; [done|]. intros q Hq. by apply elem_of_nil in Hq. }
  destruct (ended_stays_step st a Hend Hm) as (He&Hm'&evs&Hl&Hq).
  destruct (IH _ He Hm') as (He2&Hm2&l&Hl2&Hq2). split; [done|]. split; [done|].
  exists (evs ++ l). rewrite Hl2, Hl, app_assoc. split; [done|].
  intros q [Hin|Hin]%elem_of_app; [by eapply Hq|by eapply Hq2].
Qed.

Lemma ended_empty_run σ : ∀ st,
  (s_ended (c_store st) = true → s_members (c_store st) = ∅) →
  s_ended (c_store (sched_run st σ)) = true → s_members (c_store (sched_run st σ)) = ∅.
Proof.
  induction σ as [|a σ IH]; intros st H; simpl; [done|]. apply IH.
  destruct (step_cases st a) as [->|(i&rest&s'&push&evs&HT&Hex&->)]; [done|]. simpl.
  destruct (exec_kinds _ _ _ _ _ Hex) as
    [(Hm'&He&Hq)|[(p&->&He&Hm'&He'&_)|[(p&->&He&Hm'&He'&_)|(p&->&Hm'&He'&->&_)]]];
    rewrite ?Hm', ?He, ?He'; try done.
  intros Hend. rewrite (H Hend). set_solver.
Qed.

Theorem conc_no_join_after_end :
  ∀ progs σ1 σ2,
  let st1 := sched_run (cinit progs) σ1 in
  let st2 := sched_run (cinit progs) (σ1 ++ σ2) in
  s_ended (c_store st1) = true →
  s_ended (c_store st2) = true ∧ s_members (c_store st2) = ∅ ∧
  ∃ l, c_log st2 = c_log st1 ++ l ∧ ∀ q, EvJoin q true ∉ l.
Proof.
  intros progs σ1 σ2 st1 st2 Hend. unfold st2. rewrite sched_run_app.
  apply ended_stays_run; [exact Hend|]. apply ended_empty_run; [|exact Hend]. done.
Qed.

(* ---------- the shortcut (seeded change C06-e) ---------- *)
(* connection 0 = participant 1: joins, adds a non-persistent entity (id 1), leaves with the shortcut;
   connection 1 = participant 2: joins.  Schedule: 1 joins, adds, reads "I am alone"; 2 joins; 1's
   RemoveParticipant.  The session is alive, 2 is its member, and it still holds entity 1 of participant 1 *)
Definition w06_progs : list (list instr) := [ [IJoin 1; IAddEntity 1 false; ILeaveCheckAlone 1]; [IJoin 2] ].
Definition w06_sched : list nat := [0; 0; 0; 1; 0]%nat.

Theorem conc_shortcut_refuted :
  ∃ progs σ, let st := sched_run (cinit progs) σ in
    wellformed progs = true ∧ uses_full_departure progs = false ∧ N.of_nat (length σ) < two32 ∧
    complete st = true ∧ s_ended (c_store st) = false ∧
    ∃ q e en, q ∈ s_members (c_store st) ∧ s_ents (c_store st) !! e = Some en ∧ e_persist en = false ∧
      e_owner en ∉ s_members (c_store st).
Proof.
  exists w06_progs, w06_sched. simpl.
  split; [vm_compute; reflexivity|]. split; [vm_compute; reflexivity|]. split; [vm_compute; reflexivity|].
  split; [vm_compute; reflexivity|]. split; [vm_compute; reflexivity|].
  exists 2, 1, (Ent 1 false).
  split; [apply (bool_decide_unpack _); vm_compute; exact I|].
  split; [vm_compute; reflexivity|]. split; [reflexivity|].
  apply (bool_decide_unpack _); vm_compute; exact I.
Qed.

(* ---------- the leaver's persistent entities, from its snapshot on ---------- *)
Lemma dep_persist_step k p tid ents1 next1 log1 st a e :
  base_inv (S k) st → dep_inv p tid ents1 next1 log1 st →
  s_ents (c_store st) !! e = Some (Ent p true) → s_ents (c_store (step st a)) !! e = Some (Ent p true).
Proof.
  intros Hb (l&prog&_&Hprog&_&_&Hph) He.
  destruct (ent_step _ _ a _ _ Hb He) as [Hs|[(rest&HT&_)|(rest&_&Hnp&_)]]; [done| |done].
  exfalso. simpl in HT. destruct Hph as [(Hlv&_)|(_&_&Hnp)].
  - destruct (decide (a = tid)) as [->|Hne].
    + rewrite HT in Hprog. injection Hprog as <-. done.
    + destruct Hb as [_ [_ Hdisj]]. apply (Hdisj a tid _ _ p Hne HT Hprog); [by left|by apply leaving_parts].
  - apply (Hnp _ _ HT). by left.
Qed.

Lemma dep_persist_run σ : ∀ k p tid ents1 next1 log1 st e,
  base_inv (length σ + k) st → (∀ e en, ents1 !! e = Some en → e ≤ next1) →
  dep_inv p tid ents1 next1 log1 st →
  s_ents (c_store st) !! e = Some (Ent p true) → s_ents (c_store (sched_run st σ)) !! e = Some (Ent p true).
Proof.
  induction σ as [|a σ IH]; intros k p tid ents1 next1 log1 st e Hb Hle Hd He; simpl; [done|]. simpl in Hb.
  apply (IH k p tid ents1 next1 log1); [by apply base_step|done|by eapply dep_step|by eapply dep_persist_step].
Qed.

Lemma step_snapshot_store st tid p rest :
  c_thr st !! tid = Some (ILeaveSnapshot p :: rest) → c_store (step st tid) = c_store st.
Proof. intros HT. unfold step. rewrite HT. unfold exec. by destruct (decide (p ∈ s_members (c_store st))). Qed.

(* C06, the leaver's persistent entities: those it holds at the snapshot of its departure are still there,
   unchanged, at every later moment *)
Theorem conc_departure_keeps_persistent :
  ∀ progs, wellformed progs = true →
  ∀ σ1 tid σ2 p rest, N.of_nat (length (σ1 ++ tid :: σ2)) < two32 →
  let st1 := sched_run (cinit progs) σ1 in
  let st2 := sched_run (cinit progs) (σ1 ++ tid :: σ2) in
  c_thr st1 !! tid = Some (ILeaveSnapshot p :: rest) → p ∈ s_members (c_store st1) →
  ∀ e, s_ents (c_store st1) !! e = Some (Ent p true) → s_ents (c_store st2) !! e = Some (Ent p true).
Proof.
  intros progs Hwf σ1 tid σ2 p rest Hb st1 st2 HT Hm e He. rewrite app_length in Hb. simpl in Hb.
  assert (Hbase : base_inv (S (length σ2 + 0)) st1).
  { apply base_reach; [done|]. lia. }
  unfold st2. rewrite sched_run_app. simpl.
  apply (dep_persist_run σ2 0 p tid (s_ents (c_store st1)) (s_next (c_store st1)) (c_log st1)).
  - apply base_step. exact Hbase.
  - intros e' en He'. eapply store_inv_ids; [apply Hbase|exact He'].
  - eapply dep_start; [exact Hbase|exact HT|exact Hm].
  - fold st1. rewrite (step_snapshot_store _ _ _ _ HT). exact He.
Qed.

(* ---------- why "no participant id is used by two connections" is needed ---------- *)
(* two connections act as participant 1: connection 0 takes the (empty) snapshot of its departure, connection 1
   adds a non-persistent entity, connection 0's RemoveParticipant: an orphan *)
Definition w06own_progs : list (list instr) := [ [IJoin 1; ILeaveSnapshot 1]; [IJoin 1; IAddEntity 1 false] ].
Definition w06own_sched : list nat := [0; 1; 0; 1; 0]%nat.

Theorem conc_needs_own_participant_refuted :
  ∃ progs σ, let st := sched_run (cinit progs) σ in
    uses_full_departure progs = true ∧ threads_disjoint progs = false ∧
    forallb (λ prog, wf_from MOut prog && bool_decide (NoDup (joins prog))) progs = true ∧
    N.of_nat (length σ) < two32 ∧ complete st = true ∧
    ∃ e en, s_ents (c_store st) !! e = Some en ∧ e_persist en = false ∧ e_owner en ∉ s_members (c_store st).
Proof.
  exists w06own_progs, w06own_sched. simpl.
  split; [vm_compute; reflexivity|]. split; [vm_compute; reflexivity|]. split; [vm_compute; reflexivity|].
  split; [vm_compute; reflexivity|]. split; [vm_compute; reflexivity|].
  exists 1, (Ent 1 false).
  split; [vm_compute; reflexivity|]. split; [reflexivity|].
  apply (bool_decide_unpack _); vm_compute; exact I.
Qed.

(* proofs/PC03.v — sessions are isolated (C03): what a connection does changes only the sessions it is in,
   and is delivered only to itself and to members of those sessions. *)
From stdpp Require Import relations.
From hagall Require Import Model.
From hagall.proofs Require Import BaseLemmas Relay Inv Session Local Trans WF Mono Reach PC02.
From Coq Require Import Lia.

(* ---------- session-local requests ---------- *)
Lemma sstep_recipients cfg c p own SS r d :
  d ∈ (sstep cfg c p own SS r).2 → fst d = c ∨ ∃ q, s_parts SS !! q = Some (fst d) ∧ q ≠ p.
Proof.
  destruct d as [cq m]. destruct r; simpl; try (by inversion 1).
  all: repeat case_match; simpl; intros Hin.
  all: repeat match goal with
       | H : _ ∈ [] |- _ => inversion H
       | H : _ ∈ [_] |- _ => apply elem_of_list_singleton in H; simplify_eq
       | H : _ ∈ _ :: _ |- _ => apply elem_of_cons in H as [H|H]; simplify_eq
       | H : _ ∈ _ ++ _ |- _ => apply elem_of_app in H as [H|H]
       | H : _ ∈ broadcast _ _ _ |- _ => apply broadcast_spec in H as (_&q&Hq&Hne); simpl in Hq
       | H : _ ∈ broadcast_to _ _ _ _ |- _ => apply broadcast_to_spec in H as (_&q&_&Hne&Hq); simpl in Hq
       end; try (by left); try (right; eauto).
Qed.

(* in every reachable state: a member's session-local request leaves every other session exactly as it is, and
   reaches only the requester and members of the requester's own session *)
Theorem local_respect cfg h c cn sid p SS r hint :
  member_of cfg h c cn sid p SS → session_local r = true →
  let res := handle cfg (final cfg h) c r hint in
  (∀ s, s ≠ sid → sessions res.1.1 !! s = sessions (final cfg h) !! s) ∧
  (∀ d, d ∈ res.1.2 → fst d = c ∨ ∃ q, s_parts SS !! q = Some (fst d) ∧ q ≠ p).
Proof.
  intros Hm Hl. simpl. rewrite (member_step cfg h c cn sid p SS r hint Hm Hl). unfold apply_sstep. simpl. split.
  - intros s Hne. by rewrite lookup_insert_ne.
  - intros d. apply sstep_recipients.
Qed.

(* ---------- departures ---------- *)
Lemma leave_frame cfg st c s :
  inv st → (∀ p, cur_of st c ≠ Some (s, p)) → sessions (leave cfg st c).1 !! s = sessions st !! s.
Proof.
  intros I Hne. destruct (leave_sessions cfg st c I) as [(cn&sid&p&SS&Hc&Hcur&HS&Hp&E)|[_ E]]; [|by rewrite E].
  assert (s ≠ sid). { intros ->. apply (Hne p). unfold cur_of. by rewrite Hc. }
  rewrite E. case_decide; [by rewrite lookup_delete_ne|by rewrite lookup_insert_ne].
Qed.

Lemma flat_map_broadcast_recipients SS p (f : N → msg) l d :
  d ∈ flat_map (λ eid, broadcast SS p (f eid)) l → ∃ q, s_parts SS !! q = Some (fst d) ∧ q ≠ p.
Proof.
  intros H. apply elem_of_list_In, in_flat_map in H as (eid&_&H). apply elem_of_list_In in H.
  destruct d as [cq m]. apply broadcast_spec in H as (_&q&Hq&Hne). eauto.
Qed.

Lemma leave_outs_shape cfg st c cn sid p SS :
  conns st !! c = Some cn → c_cur cn = Some (sid, p) → sessions st !! sid = Some SS →
  let S2 := set_store (store_set_subs (fmap (λ s : gset N, s ∖ {[p]}))) (module_disconnect cfg (c_own cn) SS) in
  (leave cfg st c).2 =
    (if flag_on cfg F_ENTITY_DELETE_B then [] else flat_map (λ eid, broadcast SS p (MEntityDeleteB 0 eid)) (doomed S2 (c_own cn))) ++
    (if flag_on cfg F_LEAVE_B then [] else broadcast (left_session cfg c p (c_own cn) SS) p (MLeaveB p)).
Proof.
  intros Hc Hcur HS S2. unfold leave. rewrite Hc, Hcur, HS. fold S2. unfold left_session. fold S2.
  assert (Ho : (remove_doomed cfg p (doomed S2 (c_own cn)) S2).2 =
               if flag_on cfg F_ENTITY_DELETE_B then [] else flat_map (λ eid, broadcast SS p (MEntityDeleteB 0 eid)) (doomed S2 (c_own cn))).
  { destruct (flag_on cfg F_ENTITY_DELETE_B) eqn:Ef; [by apply remove_doomed_outs_flag|].
    rewrite remove_doomed_outs by done. apply flat_map_ext. intros e. apply broadcast_parts_eq.
    unfold S2. simpl. apply module_disconnect_parts. }
  destruct (remove_doomed cfg p (doomed S2 (c_own cn)) S2) as [S3 o1]. simpl in Ho. subst o1. done.
Qed.

Lemma leave_recipients cfg st c d :
  d ∈ (leave cfg st c).2 →
  ∃ cn sid p SS q, conns st !! c = Some cn ∧ c_cur cn = Some (sid, p) ∧ sessions st !! sid = Some SS ∧
                   s_parts SS !! q = Some (fst d) ∧ q ≠ p.
Proof.
  destruct (conns st !! c) as [cn|] eqn:Hc; [|unfold leave; rewrite Hc; by inversion 1].
  destruct (c_cur cn) as [[sid p]|] eqn:Hcur; [|unfold leave; rewrite Hc, Hcur; by inversion 1].
  destruct (sessions st !! sid) as [SS|] eqn:HS; [|unfold leave; rewrite Hc, Hcur, HS; by inversion 1].
  rewrite (leave_outs_shape cfg st c cn sid p SS Hc Hcur HS). cbv zeta.
  intros [H|H]%elem_of_app.
  - destruct (flag_on cfg F_ENTITY_DELETE_B); [by inversion H|].
    apply flat_map_broadcast_recipients in H as (q&Hq&Hne). exists cn, sid, p, SS, q. done.
  - destruct (flag_on cfg F_LEAVE_B); [by inversion H|]. destruct d as [cq m].
    apply broadcast_spec in H as (_&q&Hq&Hne). destruct (left_session_parts cfg c p (c_own cn) SS) as [EL _].
    rewrite EL in Hq. apply lookup_delete_Some in Hq as [_ Hq]. exists cn, sid, p, SS, q. done.
Qed.

(* ---------- joins ---------- *)
Lemma enter_frame cfg st c rid n ots s : s ≠ n → sessions (enter cfg st c rid n ots).1.1 !! s = sessions st !! s.
Proof. intros Hne. unfold enter. destruct (sessions st !! n); [|done]. simpl. by rewrite lookup_insert_ne. Qed.
Lemma enter_recipients cfg st c rid n ots SS d :
  sessions st !! n = Some SS → d ∈ (enter cfg st c rid n ots).1.2 → fst d = c ∨ ∃ q, s_parts SS !! q = Some (fst d).
Proof.
  intros HS. unfold enter. rewrite HS. simpl. unfold module_join_msgs.
  intros H. repeat (apply elem_of_app in H as [H|H] || apply elem_of_cons in H as [H|H]); simplify_eq; try (by left).
  all: repeat case_match; repeat (apply elem_of_app in H as [H|H] || apply elem_of_cons in H as [H|H]); simplify_eq; try (by left);
       try (by inversion H).
  all: try (destruct d as [cq m]; apply broadcast_spec in H as (_&q&Hq&Hne); simpl in Hq;
            rewrite lookup_insert_ne in Hq by done; right; eauto).
Qed.

(* a session created under a recycled id has nothing of its predecessor *)
Lemma recycled_id_fresh hint st n st' :
  create_session hint st = (n, st') → sessions st' !! n = Some (session0 (next_uuid st + 1)).
Proof. unfold create_session. destruct (gen_new hint (sids st)). intros [= <- <-]. simpl. by rewrite lookup_insert. Qed.

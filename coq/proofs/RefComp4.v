(* proofs/RefComp4.v — second consumer of the component refinement: on the model's own traces the predicate
   P_C13 ("notifications follow subscriptions", Preds.v) is silent, all clauses:
     1301 (no component notification outside ComponentAdd / Delete / Update of a member),
     1302 (every notification of the event is the one announcing the request),
     1303 (a refused or suppressed request notifies nobody), 1304 (never the sender), 1305 (nobody without subscribers),
     1306 (every subscribed other member exactly once), 1307 (updates: non-subscribers never),
     1308 (add / delete: anybody at most once), 1309 (only members of the session),
     1310 (subscribing to an unregistered type is refused), 1325 (hook snapshots: the subscriptions of every session),
     1399 (no harness anomaly). *)
From stdpp Require Import relations sorting.
From hagall Require Import Model Spec Obs Preds.
From hagall.proofs Require Import BaseLemmas Relay Inv Session Local Trans WF Mono Reach PC02 PC06 PC07 Own
  Refine Refine2 Refine3 Refine4 Refine5 RefComp RefComp2 RefComp3.
From Coq Require Import Lia.

(* ================= outputs without component notifications ================= *)
Definition quiet (l : list delivery) : Prop := Forall (λ d : delivery, is_notif (snd d) = false) l.

Lemma sel_quiet l : quiet l → sel is_notif l = [].
Proof. unfold sel. induction 1 as [|[c m] l Hm _ IH]; simpl; [done|]. simpl in Hm. by rewrite Hm. Qed.
Lemma quiet_app l1 l2 : quiet l1 → quiet l2 → quiet (l1 ++ l2).
Proof. apply Forall_app_2. Qed.
Lemma quiet_broadcast SS p m : is_notif m = false → quiet (broadcast SS p m).
Proof. apply (Forall_broadcast (λ m, is_notif m = false)). Qed.
Lemma quiet_broadcast_to SS p ids m : is_notif m = false → quiet (broadcast_to SS p ids m).
Proof. apply (Forall_broadcast_to (λ m, is_notif m = false)). Qed.

Ltac qt := repeat first
  [ apply Forall_nil_2
  | apply Forall_cons_2; [reflexivity|]
  | apply quiet_app
  | apply quiet_broadcast; reflexivity
  | apply quiet_broadcast_to; reflexivity ].

Lemma quiet_remove_doomed cfg p l SS : quiet (remove_doomed cfg p l SS).2.
Proof.
  revert SS. induction l as [|eid l IH]; intros SS; simpl; [constructor|].
  specialize (IH (set_ents (delete eid) (set_store (store_delete_entity eid) SS))).
  destruct (remove_doomed cfg p l _) as [S2 o2]. simpl in *. apply quiet_app; [|done].
  destruct (flag_on cfg F_ENTITY_DELETE_B); [constructor|]. by apply quiet_broadcast.
Qed.
Lemma quiet_leave cfg st c : quiet (leave cfg st c).2.
Proof.
  unfold leave. destruct (conns st !! c) as [cn|]; [|constructor]. destruct (c_cur cn) as [[sid p]|]; [|constructor].
  destruct (sessions st !! sid) as [SS|]; [|constructor].
  match goal with |- context [remove_doomed ?a ?b ?l ?S] => pose proof (quiet_remove_doomed a b l S) as H;
    destruct (remove_doomed a b l S) as [S3 o1] end.
  simpl in *. apply quiet_app; [done|]. destruct (flag_on cfg F_LEAVE_B); [constructor|]. by apply quiet_broadcast.
Qed.
Lemma quiet_disconnect cfg st c : quiet (disconnect cfg st c).2.
Proof. unfold disconnect. pose proof (quiet_leave cfg st c). by destruct (leave cfg st c). Qed.
Lemma quiet_module_join cfg c SS : quiet (module_join_msgs cfg c SS).
Proof. unfold module_join_msgs. destruct (cfg_vikja cfg), (cfg_odal cfg); repeat constructor. Qed.
Lemma quiet_enter cfg st c rid n ots : quiet (enter cfg st c rid n ots).1.2.
Proof.
  unfold enter. destruct (sessions st !! n) as [SS|]; [|constructor]. cbn [fst snd].
  constructor; [done|]. apply quiet_app; [destruct (flag_on cfg F_SESSION_STATE); repeat constructor|].
  apply quiet_app; [|apply quiet_module_join]. destruct (flag_on cfg F_JOIN_B); [constructor|]. by apply quiet_broadcast.
Qed.
Lemma quiet_join cfg st c rid s ots hint : quiet (Model.join cfg st c rid s ots hint).1.2.
Proof.
  unfold Model.join. destruct (conns st !! c) as [cn|]; [|constructor].
  destruct (already_joined cn s).
  - cbn [fst snd]. constructor; [done|]. destruct (c_cur cn) as [[cur p0]|]; [|constructor].
    destruct (sessions st !! cur); [apply quiet_module_join|constructor].
  - pose proof (quiet_leave cfg st c) as Q1. destruct (leave cfg st c) as [st1 o1]. simpl in Q1.
    destruct s as [|n|k].
    + destruct (create_session hint st1) as [n st2]. pose proof (quiet_enter cfg st2 c rid n ots) as Q2.
      destruct (enter cfg st2 c rid n ots) as [[st3 o2] v2]. by apply quiet_app.
    + destruct (sessions st1 !! n).
      * pose proof (quiet_enter cfg st1 c rid n ots) as Q2.
        destruct (enter cfg st1 c rid n ots) as [[st3 o2] v2]. by apply quiet_app.
      * apply quiet_app; [done|by repeat constructor].
    + apply quiet_app; [done|by repeat constructor].
Qed.

Definition is_notif_req (r : req) : bool :=
  match r with RCompAdd _ _ _ _ _ | RCompDelete _ _ _ _ | RCompUpdate _ _ _ _ => true | _ => false end.

Lemma on_ping_quiet st c cn rid : quiet (on_ping st c cn rid).1.2.
Proof. unfold on_ping, send_ping. repeat case_match; simplify_eq; cbn [fst snd]; unfold quiet; qt. Qed.

Lemma handle_joined_quiet cfg st c cn sid p SS r hint st' o v :
  is_notif_req r = false → handle_joined cfg st c cn sid p SS r hint = (st', o, v) → quiet o.
Proof.
  intros Hn H. destruct r; try discriminate Hn; simpl in H.
  all: try (unfold send_ping in H; repeat case_match; simplify_eq; unfold quiet; qt; fail).
  - pose proof (on_ping_quiet st c cn rid) as Q. by rewrite H in Q.
  - pose proof (quiet_join cfg st c rid sid0 ots hint) as Q. by rewrite H in Q.
Qed.
Lemma handle_joined_notif_ok cfg st c cn sid p SS r hint st' o v :
  is_notif_req r = true → handle_joined cfg st c cn sid p SS r hint = (st', o, v) → v = VOk.
Proof. intros Hn H. destruct r; try discriminate Hn; simpl in H; repeat case_match; by simplify_eq. Qed.
Lemma handle_unjoined_quiet cfg st c cn r hint st' o v :
  handle_unjoined cfg st c cn r hint = (st', o, v) → quiet o.
Proof.
  intros H. destruct r; simpl in H.
  all: try (repeat case_match; simplify_eq; unfold quiet; qt; fail).
  pose proof (quiet_join cfg st c rid sid ots hint) as Q. by rewrite H in Q.
Qed.
Lemma handle_err_quiet cfg st c r hint st' o :
  handle cfg st c r hint = (st', o, VErr) → quiet o.
Proof.
  unfold handle. destruct (conns st !! c) as [cn|]; [|by intros [= _ <-]; constructor].
  destruct (c_cur cn) as [[sid p]|].
  - destruct (sessions st !! sid) as [SS|]; [|by intros [= _ <-]; constructor].
    intros H. destruct (is_notif_req r) eqn:Hn.
    + by apply handle_joined_notif_ok in H.
    + by eapply handle_joined_quiet.
  - apply handle_unjoined_quiet.
Qed.

(* ================= counting deliveries ================= *)
Lemma count_to_notin cq l : cq ∉ map fst l → count_to cq l = 0%nat.
Proof.
  unfold count_to. induction l as [|[c m] l IH]; simpl; [done|]. intros H.
  apply not_elem_of_cons in H as [H1 H2]. destruct (N.eqb_spec c cq) as [->|]; [done|]. by apply IH.
Qed.
Lemma count_to_NoDup_in cq l : NoDup (map fst l) → cq ∈ map fst l → count_to cq l = 1%nat.
Proof.
  unfold count_to. induction l as [|[c m] l IH]; simpl; [by intros _ ?%elem_of_nil|].
  intros [Hn Hnd]%NoDup_cons Hin. destruct (N.eqb_spec c cq) as [->|Hne]; simpl.
  - f_equal. by apply count_to_notin.
  - apply elem_of_cons in Hin as [->|Hin]; [done|]. by apply IH.
Qed.
Lemma count_to_NoDup_le cq l : NoDup (map fst l) → (count_to cq l ≤ 1)%nat.
Proof.
  intros Hnd. destruct (decide (cq ∈ map fst l)) as [Hin|Hin].
  - by rewrite count_to_NoDup_in.
  - rewrite count_to_notin by done. lia.
Qed.

(* ================= P_C13, clause by clause ================= *)
Definition c13_check (i : nat) (sp : spec) (c sid p : N) (outs : list delivery)
    (tid : N) (accepted suppressed updates_only : bool) (is_mine : msg → bool) : list violation :=
  let notifs := sel is_notif outs in
  let mine := sel is_mine outs in
  let S := subs_at sp sid tid in
  okv i (bool_decide (length mine = length notifs)) 1302 [zn c; zn tid] ++
  if negb accepted || suppressed then okv i (bool_decide (mine = [])) 1303 [zn c; zn tid]
  else
    okv i (count_to c mine =? 0)%nat 1304 [zn c; zn tid] ++
    (if decide (S = ∅) then okv i (bool_decide (mine = [])) 1305 [zn c; zn tid] else []) ++
    flat_map (λ pc : N * N,
      if bool_decide (fst pc ∈ S) then okv i (count_to (snd pc) mine =? 1)%nat 1306 [zn c; zn tid; zn (fst pc)]
      else if updates_only then okv i (count_to (snd pc) mine =? 0)%nat 1307 [zn c; zn tid; zn (fst pc)]
      else okv i (count_to (snd pc) mine <=? 1)%nat 1308 [zn c; zn tid; zn (fst pc)]) (sp_others sp sid p) ++
    okv i (forallb (λ d : delivery, existsb (λ pc : N*N, snd pc =? fst d) (sp_others sp sid p)) mine) 1309 [zn c; zn tid].

Definition c13_req_clauses (cfg : config) (i : nat) (sp : spec) (c sid p : N) (r : req) (outs : list delivery) : list violation :=
  let notifs := sel is_notif outs in
  match r with
  | RCompAdd rid tid eid data ots =>
      c13_check i sp c sid p outs tid (has_msg c outs (λ m, match m with MCompAddResp r' => r' =? rid | _ => false end)) (flag_on cfg F_COMP_ADD_B) false
            (λ m, match m with MCompAddB o x => (o =? ots) && (cp_tid x =? tid) && (cp_eid x =? eid) && (cp_data x =? data) | _ => false end)
  | RCompDelete rid tid eid ots =>
      c13_check i sp c sid p outs tid (has_msg c outs (λ m, match m with MCompDeleteResp r' => r' =? rid | _ => false end)) (flag_on cfg F_COMP_DELETE_B) false
            (λ m, match m with MCompDeleteB o t x => (o =? ots) && (t =? tid) && (x =? eid) | _ => false end)
  | RCompUpdate tid eid data ots =>
      c13_check i sp c sid p outs tid (comp_update_accepted sp sid tid eid) (flag_on cfg F_COMP_UPDATE_B) true
            (λ m, match m with MCompUpdateB o x => (o =? ots) && (cp_tid x =? tid) && (cp_eid x =? eid) && (cp_data x =? data) | _ => false end)
  | RSubscribe rid tid =>
      okv i (bool_decide (notifs = [])) 1301 [zn c] ++
      if (tid =? 0) || memN tid (spec_tids sp sid) then []
      else okv i (has_error c E_NOT_FOUND outs && negb (has_msg c outs (λ m, match m with MSubResp _ => true | _ => false end)))
               1310 [zn c; zn tid]
  | _ => okv i (bool_decide (notifs = [])) 1301 [zn c]
  end.

Definition k13 : snapsel := {| k_parts := false; k_ents := false; k_comps := false; k_acts := false; k_assets := false;
                               k_types := false; k_subs := true; k_reg := false |}.

Lemma P_C13_event_unfold cfg i sp sp' e :
  P_C13_event cfg i sp sp' e =
  match stepped e with
  | Some (c, r) =>
    match sp_mem sp !! c with
    | None => okv i (bool_decide (sel is_notif (ev_outs e) = [])) 1301 [zn c]
    | Some (sid, p) => c13_req_clauses cfg i sp c sid p r (ev_outs e)
    end
  | None => okv i (bool_decide (sel is_notif (ev_outs e) = [])) 1301 []
  end ++
  snap_check cfg k13 1300 i sp e ++ bad_msgs i 1300 e.
Proof.
  reflexivity.
Qed.

Lemma okv_quiet i outs code info : quiet outs → okv i (bool_decide (sel is_notif outs = [])) code info = [].
Proof. intros H. by rewrite (sel_quiet _ H). Qed.

(* the generic check, from what the relayed list [rel] looks like *)
Lemma c13_check_ok i sp c sid p outs tid accepted suppressed uo is_mine SS rel :
  sel is_notif outs = rel → sel is_mine outs = rel →
  (∀ q cq, (q, cq) ∈ sp_others sp sid p ↔ s_parts SS !! q = Some cq ∧ q ≠ p) →
  (negb accepted || suppressed = true → rel = []) →
  (negb accepted || suppressed = false →
     NoDup (map fst rel) ∧ c ∉ map fst rel ∧ (subs_at sp sid tid = ∅ → rel = []) ∧
     (∀ cq, cq ∈ map fst rel → ∃ q, s_parts SS !! q = Some cq ∧ q ≠ p) ∧
     (∀ q cq, s_parts SS !! q = Some cq → q ≠ p → q ∈ subs_at sp sid tid → cq ∈ map fst rel) ∧
     (uo = true → ∀ q cq, s_parts SS !! q = Some cq → q ≠ p → q ∉ subs_at sp sid tid → cq ∉ map fst rel)) →
  c13_check i sp c sid p outs tid accepted suppressed uo is_mine = [].
Proof.
  intros Hn Hm Hoth Hoff Hon. unfold c13_check. rewrite Hn, Hm. rewrite bool_decide_eq_true_2 by done. simpl.
  destruct (negb accepted || suppressed) eqn:Eb.
  - by rewrite (Hoff eq_refl).
  - destruct (Hon eq_refl) as (Hnd&Hc&Hempty&Hmem&Hsub&Hnon).
    rewrite count_to_notin by done. simpl.
    assert (H5 : (if decide (subs_at sp sid tid = ∅) then okv i (bool_decide (rel = [])) 1305 [zn c; zn tid] else []) = []).
    { case_decide as Hd; [|done]. by rewrite (Hempty Hd). }
    rewrite H5. clear H5. simpl. rewrite flat_map_nil_all.
    2:{ intros [q cq] Hin. apply Hoth in Hin as [Hq Hne]. simpl. case_bool_decide as Hs.
        - rewrite count_to_NoDup_in; [done|done|]. by eapply Hsub.
        - destruct uo.
          + rewrite count_to_notin; [done|]. by eapply Hnon.
          + pose proof (count_to_NoDup_le cq rel Hnd) as Hle. apply Nat.leb_le in Hle. by rewrite Hle. }
    simpl. replace (forallb _ rel) with true; [done|]. symmetry. apply forallb_forall. intros [cq m] Hin.
    apply existsb_exists. simpl. destruct (Hmem cq) as (q&Hq&Hne).
    { apply elem_of_list_fmap. exists (cq, m). split; [done|]. by apply elem_of_list_In. }
    exists (q, cq). split; [|apply N.eqb_refl]. apply elem_of_list_In. apply Hoth. done.
Qed.

Lemma c13_check_refused i sp c sid p outs tid accepted suppressed uo is_mine :
  sel is_notif outs = [] → sel is_mine outs = [] → negb accepted || suppressed = true →
  c13_check i sp c sid p outs tid accepted suppressed uo is_mine = [].
Proof. intros Hn Hm Hb. unfold c13_check. by rewrite Hn, Hm, Hb. Qed.

Lemma sel_all f l : Forall (λ d : delivery, f (snd d) = true) l → sel f l = l.
Proof. apply List_filter_all. Qed.
Lemma sel_none f l : Forall (λ d : delivery, f (snd d) = false) l → sel f l = [].
Proof. unfold sel. induction 1 as [|[c m] l Hm _ IH]; simpl; [done|]. simpl in Hm. by rewrite Hm. Qed.
Lemma sel_app f l1 l2 : sel f (l1 ++ l2) = sel f l1 ++ sel f l2.
Proof. unfold sel. apply List.filter_app. Qed.

Lemma exactly_once_all SS p c m rel : exactly_once_to_others SS p c m rel → Forall (λ d : delivery, snd d = m) rel.
Proof. intros (H&_&_). apply Forall_forall. intros [cq m'] Hin. by apply H in Hin as [-> _]. Qed.

Lemma elem_of_sp_others sp sid p q cq : (q, cq) ∈ sp_others sp sid p ↔ sp_mem sp !! cq = Some (sid, q) ∧ q ≠ p.
Proof.
  unfold sp_others. rewrite elem_of_List_filter, elem_of_sp_members. simpl.
  destruct (N.eqb_spec q p); simpl; naive_solver.
Qed.

(* add / delete: the notification [m] goes, if anybody is subscribed, once to every other member *)
Lemma c13_broadcast_ok i sp c sid p tid is_mine SS m pre post rel (suppressed : bool) :
  parts_injective SS → s_parts SS !! p = Some c →
  (∀ q cq, (q, cq) ∈ sp_others sp sid p ↔ s_parts SS !! q = Some cq ∧ q ≠ p) →
  is_mine m = true → is_notif m = true →
  Forall (λ d : delivery, is_mine (snd d) = false ∧ is_notif (snd d) = false) pre →
  Forall (λ d : delivery, is_mine (snd d) = false ∧ is_notif (snd d) = false) post →
  (if suppressed then rel = []
   else if decide (subs_at sp sid tid = ∅) then rel = []
   else exactly_once_to_others SS p c m rel) →
  c13_check i sp c sid p (pre ++ rel ++ post) tid true suppressed false is_mine = [].
Proof.
  intros Hinj Hp Hoth Hmine Hnotif Hpre Hpost Hrel.
  assert (Hall : Forall (λ d : delivery, snd d = m) rel).
  { destruct suppressed; [subst; constructor|]. case_decide; [subst; constructor|]. by eapply exactly_once_all. }
  assert (Hs : ∀ f, f m = true → Forall (λ d : delivery, f (snd d) = false) pre →
                 Forall (λ d : delivery, f (snd d) = false) post → sel f (pre ++ rel ++ post) = rel).
  { intros f Hf H1 H2. rewrite !sel_app, (sel_none f pre H1), (sel_none f post H2), app_nil_r. simpl.
    apply sel_all. eapply Forall_impl; [exact Hall|]. by intros [? ?]; simpl; intros ->. }
  eapply (c13_check_ok _ _ _ _ _ _ _ _ _ _ _ SS rel).
  - apply Hs; [done| |]; (eapply Forall_impl; [eassumption|]); by intros ? [_ ?].
  - apply Hs; [done| |]; (eapply Forall_impl; [eassumption|]); by intros ? [? _].
  - exact Hoth.
  - simpl. intros ->. exact Hrel.
  - simpl. intros ->. case_decide as Hd.
    { subst rel. split; [constructor|]. split; [by intros ?%elem_of_nil|]. split; [done|].
      split; [by intros ? ?%elem_of_nil|]. split; [|done]. intros q cq _ _ Hq. rewrite Hd in Hq. set_solver. }
    destruct Hrel as (H1&H2&H3). split; [done|]. split; [done|]. split; [done|]. split; [|split; [|done]].
    + intros cq ([cq' m']&->&Hin)%elem_of_list_fmap. by apply H1 in Hin as [_ ?].
    + intros q cq Hq Hne _. apply elem_of_list_fmap. exists (cq, m). split; [done|]. apply H1. eauto.
Qed.

(* the component requests of a member, against the model's handler *)
Lemma c13_request_ok cfg i st c cn sid p SS r hint st' o v sp :
  conns st !! c = Some cn → sessions st !! sid = Some SS →
  parts_injective SS → s_parts SS !! p = Some c →
  (∀ q cq, (q, cq) ∈ sp_others sp sid p ↔ s_parts SS !! q = Some cq ∧ q ≠ p) →
  (∀ e, sp_ents sp !! (sid, e) = ent_abs e <$> s_ents SS !! e) →
  store_abs sp sid (s_store SS) → types_bij (s_store SS) →
  handle_joined cfg st c cn sid p SS r hint = (st', o, v) →
  c13_req_clauses cfg i sp c sid p r o = [].
Proof.
  intros Hc HS Hinj Hp Hoth Ee [A1 A2 A3] Hb H.
  assert (HS_at : ∀ t, subs_at sp sid t = subs_of (s_store SS) t) by (intros t; by apply subs_at_store).
  destruct (is_notif_req r) eqn:Hn.
  2:{ pose proof (handle_joined_quiet _ _ _ _ _ _ _ _ _ _ _ _ Hn H) as Q.
      destruct r; try discriminate Hn; unfold c13_req_clauses; cbv zeta; rewrite (sel_quiet _ Q); try reflexivity.
      (* subscribe *)
      simpl in H. cbn [app okv bool_decide]. rewrite bool_decide_eq_true_2 by done. simpl.
      rewrite (memN_spec_tids sp sid (s_store SS) tid Hb A1).
      destruct (tid =? 0) eqn:Et; [done|]. simpl.
      destruct (st_names (s_store SS) !! tid) as [nm|] eqn:Hnm; [done|]. simpl.
      injection H as <- <- <-. unfold has_error, has_msg. simpl. by rewrite N.eqb_refl. }
  assert (Ho : o = (sstep cfg c p (c_own cn) SS r).2).
  { rewrite (handle_joined_sstep cfg st c cn sid p SS r hint) in H by (by destruct r). unfold apply_sstep in H. by injection H as _ <- _. }
  clear H. destruct r; try discriminate Hn; unfold c13_req_clauses; subst o.
  - (* component add *)
    destruct (comp_add_outcome SS tid eid) as [code|] eqn:Eo.
    + rewrite (comp_add_refused cfg c p (c_own cn) SS rid tid eid data ots code Eo). cbn [snd].
      apply c13_check_refused; [done|done|]. by rewrite has_msg_error.
    + destruct (comp_add_accepted cfg c p (c_own cn) SS Hinj Hp rid tid eid data ots Eo) as (S1&rel&->&_&_&_&_&_&Hrel).
      cbn [snd]. rewrite has_msg_cons_hit by apply N.eqb_refl.
      replace ((c, MCompAddResp rid) :: rel) with ([(c, MCompAddResp rid)] ++ rel ++ []) by (by rewrite app_nil_r).
      apply (c13_broadcast_ok i sp c sid p tid _ SS (MCompAddB ots {| cp_tid := tid; cp_eid := eid; cp_data := data |})
               [(c, MCompAddResp rid)] [] rel (flag_on cfg F_COMP_ADD_B));
        [exact Hinj|exact Hp|exact Hoth|simpl; by rewrite !N.eqb_refl|reflexivity|by repeat constructor|by repeat constructor|
         rewrite HS_at; exact Hrel].
  - (* component delete *)
    destruct (comp_delete_outcome SS tid eid) as [code|] eqn:Eo.
    + rewrite (comp_delete_refused cfg c p (c_own cn) SS rid tid eid ots code Eo). cbn [snd].
      apply c13_check_refused; [done|done|]. by rewrite has_msg_error.
    + destruct (comp_delete_accepted cfg c p (c_own cn) SS Hinj Hp rid tid eid ots Eo) as (S1&rel&->&_&_&_&_&_&Hrel).
      cbn [snd]. rewrite has_msg_app, (has_msg_cons_hit c _ []), orb_true_r by apply N.eqb_refl.
      change (rel ++ [(c, MCompDeleteResp rid)]) with ([] ++ rel ++ [(c, MCompDeleteResp rid)]).
      apply (c13_broadcast_ok i sp c sid p tid _ SS (MCompDeleteB ots tid eid)
               [] [(c, MCompDeleteResp rid)] rel (flag_on cfg F_COMP_DELETE_B));
        [exact Hinj|exact Hp|exact Hoth|simpl; by rewrite !N.eqb_refl|reflexivity|by repeat constructor|by repeat constructor|
         rewrite HS_at; exact Hrel].
  - (* component update *)
    assert (Hacc : comp_update_accepted sp sid tid eid =
                   negb (tid =? 0) && negb (eid =? 0) && is_Some_b (s_ents SS !! eid) && is_Some_b (st_comps (s_store SS) !! (tid, eid))).
    { unfold comp_update_accepted. rewrite (Ee eid), A2.
      destruct (tid =? 0), (eid =? 0), (s_ents SS !! eid), (st_comps (s_store SS) !! (tid, eid)); done. }
    rewrite Hacc.
    destruct (decide (tid ≠ 0 ∧ eid ≠ 0 ∧ is_Some (s_ents SS !! eid) ∧ is_Some (st_comps (s_store SS) !! (tid, eid)))) as [(Ht&Hei&[e He]&[d Hd])|Hno].
    + rewrite (proj2 (N.eqb_neq tid 0) Ht), (proj2 (N.eqb_neq eid 0) Hei), He, Hd. cbn [negb andb is_Some_b].
      destruct (flag_on cfg F_COMP_UPDATE_B) eqn:Hf.
      * simpl. rewrite (proj2 (N.eqb_neq tid 0) Ht), (proj2 (N.eqb_neq eid 0) Hei), He, Hd, Hf. cbn [orb snd].
        eapply (c13_check_ok _ _ _ _ _ _ _ _ _ _ _ SS []); try done.
      * destruct (comp_update_present cfg c p (c_own cn) SS Hinj Hp tid eid data ots Ht Hei (mk_is_Some _ _ He) (mk_is_Some _ _ Hd) Hf)
          as (S1&rel&->&_&_&_&_&Hrel&Hnd&Hnc).
        cbn [snd].
        assert (Hall : Forall (λ d : delivery, snd d = MCompUpdateB ots {| cp_tid := tid; cp_eid := eid; cp_data := data |}) rel).
        { apply Forall_forall. intros [cq m'] Hin. by apply Hrel in Hin as [-> _]. }
        eapply (c13_check_ok _ _ _ _ _ _ _ _ _ _ _ SS rel).
        -- apply sel_all. eapply Forall_impl; [exact Hall|]. by intros [? ?]; simpl; intros ->.
        -- apply sel_all. eapply Forall_impl; [exact Hall|]. intros [? ?]; simpl; intros ->. by rewrite !N.eqb_refl.
        -- exact Hoth.
        -- done.
        -- intros _. rewrite HS_at. split; [done|]. split; [done|]. split; [|split; [|split]].
           ++ intros Hempty. destruct rel as [|[cq m'] rel']; [done|]. exfalso.
              destruct (proj1 (Hrel cq m')) as (_&q&Hq&_); [by left|]. rewrite Hempty in Hq. set_solver.
           ++ intros cq ([cq' m']&->&Hin)%elem_of_list_fmap. apply Hrel in Hin as (_&q&_&Hne&Hq). eauto.
           ++ intros q cq Hq Hne Hs. apply elem_of_list_fmap. eexists (cq, _). split; [done|]. apply Hrel. eauto.
           ++ intros _ q cq Hq Hne Hs ([cq' m']&->&Hin)%elem_of_list_fmap. apply Hrel in Hin as (_&q'&Hs'&_&Hq').
              simpl in Hq'. assert (q' = q) as -> by (by eapply Hinj). done.
    + rewrite (comp_update_absent cfg c p (c_own cn) SS tid eid data ots).
      2:{ destruct (decide (tid = 0)) as [?|Ht]; [by left|]. destruct (decide (eid = 0)) as [?|Hei]; [by right; left|].
          destruct (s_ents SS !! eid) as [e|] eqn:He; [|by right; right; left].
          destruct (st_comps (s_store SS) !! (tid, eid)) as [d|] eqn:Hd; [|by right; right; right].
          exfalso. apply Hno. eauto. }
      cbn [snd].
      assert (Hb' : negb (tid =? 0) && negb (eid =? 0) && is_Some_b (s_ents SS !! eid) && is_Some_b (st_comps (s_store SS) !! (tid, eid)) = false).
      { destruct (N.eqb_spec tid 0); [done|]. destruct (N.eqb_spec eid 0); [done|].
        destruct (s_ents SS !! eid) as [e|] eqn:He; [|done].
        destruct (st_comps (s_store SS) !! (tid, eid)) as [d|] eqn:Hd; [|done]. exfalso. apply Hno. eauto. }
      rewrite Hb'. by apply c13_check_refused.
Qed.

(* a hook snapshot against the spec: the subscriptions of every session *)
Lemma dump_check_k13 cfg i sp d0 :
  dump_check cfg k13 1300 i sp d0 =
  okv i (bool_decide (sort_by (λ tp, [zn (fst tp); zn (snd tp)]) (d_subs d0) = spec_subs sp (d_sid d0))) 1325 [zn (d_sid d0)].
Proof.
  unfold dump_check. cbn [k13 k_parts k_ents k_comps k_types k_subs k_acts k_assets k_reg negb orb andb okv app].
  by rewrite app_nil_r.
Qed.

Lemma snap_ok_13 cfg i sp st :
  refines_comps sp st →
  snap_check cfg k13 1300 i sp {| ev_op := OSnap; ev_req := None; ev_outs := [(0, snapshot st)]; ev_verdict := VOk |} = [].
Proof.
  intros RC. unfold snap_check. cbn [ev_op ev_outs flat_map snd snapshot k_reg k13]. rewrite !app_nil_r.
  apply flat_map_nil_all. intros d0 Hd. apply elem_of_list_fmap in Hd as ([sid SS]&->&Hin).
  apply elem_of_map_to_list in Hin. rewrite dump_check_k13. cbn [fst snd dump_session d_subs d_sid].
  rewrite (spec_subs_eq sp st sid SS RC Hin). by rewrite bool_decide_eq_true_2.
Qed.

(* ================= one step ================= *)
Lemma step_not_stepped_quiet cfg st o :
  inv st → stepped (ev_of st o (step cfg st o)) = None → quiet (step cfg st o).1.2.
Proof.
  intros I Hst. destruct o as [c|c r|c hint|sid|c|].
  - simpl. destruct (conns st !! c); constructor.
  - simpl. unfold dispatch. destruct (conns st !! c) as [cn|]; [|constructor].
    destruct (c_open cn); [|constructor]. simpl.
    destruct r; try constructor. destruct (ty =? 14); [|constructor].
    pose proof (quiet_disconnect cfg st c) as P. by destruct (disconnect cfg st c).
  - unfold ev_of, stepped in Hst. cbn [ev_op ev_req ev_verdict consumed step] in *.
    destruct (conns st !! c) as [cn|] eqn:Hc; [|constructor].
    destruct (c_open cn) eqn:Ho; [|constructor]. cbn [negb] in *.
    destruct (c_queue cn) as [|r q] eqn:Hq; [constructor|]. cbn [head] in *.
    destruct (handle cfg (upd_conn c (set_queue q) st) c r hint) as [[st1 o1] v] eqn:Eh.
    destruct v; try discriminate Hst.
    + pose proof (handle_err_quiet _ _ _ _ _ _ _ Eh) as Q1. pose proof (quiet_disconnect cfg st1 c) as Q2.
      destruct (disconnect cfg st1 c) as [st2 o2]. by apply quiet_app.
    + (* VPanic: never produced, but the outputs are those of the handler; quiet whenever it is not a notifying request *)
      exfalso. assert (I0 : inv (upd_conn c (set_queue q) st)) by (eapply inv_same_mem; [|exact I]; apply same_mem_upd_conn; by intros []).
      pose proof (step_verdict cfg st (OStep c hint) I) as Hv. simpl in Hv. rewrite Hc, Ho in Hv. simpl in Hv.
      rewrite Hq, Eh in Hv. done.
  - constructor.
  - simpl. destruct (conns st !! c) as [cn|]; [|constructor]. destruct (c_open cn); [|constructor]. simpl.
    pose proof (quiet_disconnect cfg st c) as P. by destruct (disconnect cfg st c).
  - repeat constructor.
Qed.

Lemma c13_step_ok cfg st o k kw sp i :
  inv st → bounded k st → k + 1 < two32 → reg st → own_inv st → swf cfg kw st →
  refines_mem sp st → refines_ents sp st → refines_comps sp st →
  let e := ev_of st o (step cfg st o) in
  P_C13_event cfg i sp (spec_step sp e) e = [].
Proof.
  intros I B Hk G O Wf R E RC e. pose proof (bounded_nowrap _ _ B Hk) as W.
  rewrite P_C13_event_unfold.
  assert (Hbad : bad_msgs i 1300 e = []).
  { destruct (step_sim cfg st o k sp 0%nat I B Hk G R) as [_ C]. fold e in C. unfold P_C07_event in C.
    apply app_eq_nil in C as [_ C]. apply app_eq_nil in C as [_ C]. by eapply bad_msgs_base. }
  rewrite Hbad, app_nil_r.
  assert (H1 : match stepped e with
               | Some (c, r) =>
                 match sp_mem sp !! c with
                 | None => okv i (bool_decide (sel is_notif (ev_outs e) = [])) 1301 [zn c]
                 | Some (sid, p) => c13_req_clauses cfg i sp c sid p r (ev_outs e)
                 end
               | None => okv i (bool_decide (sel is_notif (ev_outs e) = [])) 1301 []
               end = []).
  { destruct (stepped e) as [[c r]|] eqn:Hst.
    2:{ apply okv_quiet. by apply step_not_stepped_quiet. }
    destruct (sp_mem sp !! c) as [[sid p]|] eqn:Hmem.
    - destruct (step_member cfg st o sp c r sid p I R Hst Hmem) as (hint&cn&q&SS&st1&o1&v&->&Hc&Hcur&HS&Hp&Hinj&Hc0&_&Eh&Es).
      unfold e, ev_of. rewrite Es. cbn [ev_outs fst snd].
      eapply (c13_request_ok cfg i _ c _ sid p SS); [exact Hc0|exact HS|exact Hinj|exact Hp| | | | |exact Eh].
      + intros q0 cq. rewrite elem_of_sp_others, (rm_mem _ _ R cq).
        assert (Hps : parts_of st sid = Some (s_parts SS)) by (unfold parts_of; by rewrite HS).
        by rewrite (inv_parts _ I sid (s_parts SS) q0 cq Hps).
      + intros e0. rewrite (E sid e0). unfold ents_at. by rewrite HS.
      + by eapply refines_comps_at.
      + exact (wf_types _ _ _ (Wf sid SS HS)).
    - destruct (step_nonmember cfg st o sp c r R Hst Hmem) as (hint&cn&q&st1&o1&v&->&Hc&Hcur&Hc0&_&Eh&Es).
      unfold e, ev_of. rewrite Es. cbn [ev_outs fst snd]. apply okv_quiet. by eapply handle_unjoined_quiet. }
  rewrite H1. simpl.
  destruct o as [c|c r|c hint|sid|c|]; try (by apply snap_check_not_snap).
  unfold e, ev_of. cbn [step consumed fst snd]. by eapply snap_ok_13.
Qed.

(* ================= every history ================= *)
(* Deliverable 2b: the model's own trace is never flagged by P_C13 (all clauses) *)
Theorem model_passes_C13 cfg h : short h → P_C13 cfg (run cfg h) = [].
Proof.
  induction h as [|o h IH] using rev_ind; intros Hs; [done|].
  apply short_snoc in Hs as [Hs Hb]. unfold P_C13 in *. rewrite run_snoc, sscan_snoc, IH by done. simpl.
  assert (Hlen : N.of_nat (length h) < two32) by (unfold short in Hs; lia).
  destruct (reachable_inv cfg h state0 0 inv_state0 bounded_state0) as [I B]; [lia|].
  destruct (reachable_reg cfg h Hlen) as [G _].
  apply (c13_step_ok cfg (final cfg h) o (0 + N.of_nat (length h)) (4 * N.of_nat (length h)) (spec_after (run cfg h))); try done.
  - lia.
  - by apply reachable_own.
  - by apply reachable_swf.
  - by apply refinement_mem.
  - by apply refinement_ents.
  - by apply refinement_comps.
Qed.

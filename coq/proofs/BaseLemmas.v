(* proofs/BaseLemmas.v — facts about the small list utilities of Base.v *)
From hagall Require Import Base.
From Coq Require Import Lia.

Section isort.
  Context {A : Type} (leb : A → A → bool).
  Lemma insert_sorted_perm x l : insert_sorted leb x l ≡ₚ x :: l.
  Proof.
    induction l as [|y l IH]; simpl; [done|].
    destruct (leb x y); [done|]. rewrite IH. apply Permutation_swap.
  Qed.
  Lemma isort_perm l : isort leb l ≡ₚ l.
  Proof.
    induction l as [|x l IH]; simpl; [done|]. by rewrite insert_sorted_perm, IH.
  Qed.
  Lemma elem_of_isort x l : x ∈ isort leb l ↔ x ∈ l.
  Proof. by rewrite isort_perm. Qed.
  Lemma isort_length l : length (isort leb l) = length l.
  Proof. by rewrite isort_perm. Qed.
  Lemma NoDup_isort l : NoDup (isort leb l) ↔ NoDup l.
  Proof. by rewrite isort_perm. Qed.
End isort.

Lemma sort_by_perm {A} (key : A → list Z) l : sort_by key l ≡ₚ l.
Proof. apply isort_perm. Qed.
Lemma elem_of_sort_by {A} (key : A → list Z) x l : x ∈ sort_by key l ↔ x ∈ l.
Proof. by rewrite sort_by_perm. Qed.
Lemma sortN_perm l : sortN l ≡ₚ l.
Proof. apply isort_perm. Qed.
Lemma elem_of_sortN x l : x ∈ sortN l ↔ x ∈ l.
Proof. by rewrite sortN_perm. Qed.
Lemma elem_of_set_to_sorted x (s : gset N) : x ∈ set_to_sorted s ↔ x ∈ s.
Proof. unfold set_to_sorted. by rewrite elem_of_sortN, elem_of_elements. Qed.
Lemma NoDup_set_to_sorted (s : gset N) : NoDup (set_to_sorted s).
Proof. unfold set_to_sorted, sortN. apply NoDup_isort, NoDup_elements. Qed.

Lemma min_of_elem l x : min_of l = Some x → x ∈ l.
Proof.
  unfold min_of. destruct (sortN l) as [|y l'] eqn:E; [done|]. intros [= ->].
  apply (elem_of_sortN x l). rewrite E. by left.
Qed.
Lemma min_of_None l : min_of l = None → l = [].
Proof.
  unfold min_of. destruct (sortN l) as [|y l'] eqn:E; [|done]. intros _.
  apply Permutation_nil. by rewrite <- (sortN_perm l), E.
Qed.

Lemma memN_elem x l : memN x l = true ↔ x ∈ l.
Proof.
  unfold memN. rewrite existsb_exists. split.
  - intros (y&Hy&He). apply N.eqb_eq in He as ->. by apply elem_of_list_In.
  - intros H. exists x. split; [by apply elem_of_list_In|apply N.eqb_refl].
Qed.
Lemma memN_false x l : memN x l = false ↔ x ∉ l.
Proof. rewrite <- memN_elem. by destruct (memN x l). Qed.

Lemma u32_succ_small n : n + 1 < two32 → u32_succ n = n + 1.
Proof. intros H. unfold u32_succ. by apply N.mod_small. Qed.

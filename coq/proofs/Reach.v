(* proofs/Reach.v — what is true of every member connection in every reachable state: the bridge
   from the global model to the per-session lemmas of Local.v and WF.v. *)
From stdpp Require Import relations.
From hagall Require Import Model.
From hagall.proofs Require Import BaseLemmas Relay Inv Session Local Trans WF.
From Coq Require Import Lia.

(* histories the theorems speak about: short enough that no uint32 counter wraps *)
Definition short (h : list op) : Prop := 4 * N.of_nat (length h) < two32.

Record member_of (cfg : config) (h : list op) (c : N) (cn : conn) (sid p : N) (SS : session) : Prop := {
  mo_conn : conns (final cfg h) !! c = Some cn;
  mo_cur : c_cur cn = Some (sid, p);
  mo_sess : sessions (final cfg h) !! sid = Some SS
}.

Theorem member_facts cfg h c cn sid p SS :
  short h → member_of cfg h c cn sid p SS →
  s_parts SS !! p = Some c ∧ parts_injective SS ∧ wf cfg (4 * N.of_nat (length h)) SS.
Proof.
  intros Hs [Hc Hcur HS]. assert (Hb : N.of_nat (length h) < two32) by (unfold short in Hs; lia).
  pose proof (final_inv cfg h Hb) as I.
  destruct (inv_member _ c cn sid p SS I Hc Hcur HS) as [Hp Hinj].
  split; [done|]. split; [done|]. by apply (reachable_wf cfg h sid).
Qed.

(* a session-local request of a member is handled inside its own session, by [sstep] *)
Theorem member_step cfg h c cn sid p SS r hint :
  member_of cfg h c cn sid p SS → session_local r = true →
  handle cfg (final cfg h) c r hint = apply_sstep (final cfg h) c sid (sstep cfg c p (c_own cn) SS r).
Proof. intros [Hc Hcur HS] Hl. by apply handle_local. Qed.

(* when the session does not change, neither does the state *)
Lemma apply_sstep_same st c cn sid SS outs :
  conns st !! c = Some cn → sessions st !! sid = Some SS →
  apply_sstep st c sid (SS, c_own cn, outs) = (st, outs, VOk).
Proof.
  intros Hc HS. unfold apply_sstep. simpl. rewrite put_session_id by done. by rewrite upd_conn_own_id.
Qed.

(* proofs/RefFin3.v — the model's own traces pass P_C04 ("every request is answered exactly once with the outcome
   the protocol defines", Preds2.v) on every history: part 1, the per-request clauses.
     401 answers only to the requester, 402 no answer when none is due, 403 the error code is the expected one,
     404 the success response of the right kind, 405 exactly one answer, 406 a refused request is relayed to no one,
     407/408 a session request of a non-member is never executed, 409 no panic.
   Part 2 (proofs/RefFin3b.v): the observer-state invariant for clause 410, the step lemma, every history. *)
From stdpp Require Import relations sorting.
From hagall Require Import Model Spec Obs Preds Preds2.
From hagall.proofs Require Import BaseLemmas Relay Inv Session Local Trans WF Mono Reach PC02 PC04 PC06 PC07 Own
  Refine Refine2 Refine3 Refine4 Refine5 RefComp RefComp2 RefComp3 RefMod RefMod2 RefMod3 RefMod4 RefMod5 RefFin.
From Coq Require Import Lia.

(* ================= P_C04_event for an event that consumed a request, unfolded once ================= *)
Definition is_err (d : delivery) : bool := is_error_msg (snd d).
Definition to_me (c : N) (d : delivery) : bool := fst d =? c.
Definition is_okskip (v : verdict) : bool := match v with VOk | VSkip => true | _ => false end.

Definition c04_refused (sp sp' : spec) (e : event) : bool :=
  existsb is_err (ev_outs e) && negb (is_Some_b (departure sp sp' e)).

(* what is due, against the list of answers (the deliveries that carry the request id) *)
Definition want_clauses (i : nat) (c rid : N) (r : req) (want : option Z) (ans : list delivery) : list violation :=
  match want with
  | Some (-1)%Z => okv i (bool_decide (ans = [])) 402 [zn c; zn rid]
  | _ =>
      match ans with
      | [a] =>
          match snd a, want with
          | MError _ k, Some w => okv i (bool_decide (zn k = w)) 403 [zn c; zn rid; zn k; w]
          | MError _ k, None => okv i (k =? E_TOO_BUSY) 403 [zn c; zn rid; zn k]
          | m, Some w => okv i (success_for r m && bool_decide (w = 0%Z)) 404 [zn c; zn rid; w]
          | m, None => okv i (success_for r m) 404 [zn c; zn rid]
          end
      | _ => [viol i 405 [zn c; zn rid; Z.of_nat (length ans)]]
      end
  end.

Definition member_clauses (cfg : config) (i : nat) (sp : spec) (c sid p rid : N) (r : req) (outs : list delivery)
    (v : verdict) (refused : bool) : list violation :=
  match v with
  | VPanic => [viol i 409 [zn c; zn rid]]
  | _ =>
      okv i (forallb (to_me c) (answers rid outs)) 401 [zn c; zn rid] ++
      want_clauses i c rid r (expected_outcome cfg sp c sid p r) (answers rid outs) ++
      (if refused then okv i (forallb (to_me c) outs) 406 [zn c; zn rid] else [])
  end.

Definition join_want (sp : spec) (s : sidspec) : Z :=
  match s with SId n => if sp_live sp n then 0%Z else zn E_NOT_FOUND | SJunk _ => zn E_NOT_FOUND | SNew => 0%Z end.

Definition nonmember_clauses (i : nat) (sp sp' : spec) (c rid : N) (r : req) (outs : list delivery) : list violation :=
  if needs_session r then
    okv i (forallb (λ d : delivery, (fst d =? c) && is_error_msg (snd d)) outs) 407 [zn c; zn rid] ++
    okv i (bool_decide (sp_mem sp' !! c = None)) 408 [zn c; zn rid]
  else
    match r with
    | RPing _ => okv i (same_lines outs [(c, MPingResp rid)]) 404 [zn c; zn rid]
    | RJoin _ s _ =>
        match answers rid outs with
        | [a] => okv i (fst a =? c) 401 [zn c; zn rid] ++
                 match snd a with
                 | MError _ k => okv i (bool_decide (zn k = join_want sp s)) 403 [zn c; zn rid; zn k; join_want sp s]
                 | m => okv i (success_for r m && bool_decide (join_want sp s = 0%Z)) 404 [zn c; zn rid; join_want sp s]
                 end
        | _ => [viol i 405 [zn c; zn rid; Z.of_nat (length (answers rid outs))]]
        end
    | RReceipt _ a b d =>
        match answers rid outs with
        | [x] => okv i (fst x =? c) 401 [zn c; zn rid] ++
                 match snd x with
                 | MError _ k => okv i (if (a =? 0) || (b =? 0) || (d =? 0) then k =? E_BAD_REQUEST else k =? E_TOO_BUSY)
                                     403 [zn c; zn rid; zn k]
                 | m => okv i (success_for r m && negb ((a =? 0) || (b =? 0) || (d =? 0))) 404 [zn c; zn rid]
                 end
        | _ => [viol i 405 [zn c; zn rid; Z.of_nat (length (answers rid outs))]]
        end
    | _ => []
    end.

Definition c04_req_clauses (cfg : config) (i : nat) (sp sp' : spec) (c : N) (r : req) (e : event) : list violation :=
  match req_rid r with
  | None => []
  | Some rid =>
      match sp_mem sp !! c with
      | Some (sid, p) => member_clauses cfg i sp c sid p rid r (ev_outs e) (ev_verdict e) (c04_refused sp sp' e)
      | None => nonmember_clauses i sp sp' c rid r (ev_outs e)
      end
  end.

Lemma P_C04_event_step cfg i sp sp' s c hint r outs v :
  let e := {| ev_op := OStep c hint; ev_req := Some r; ev_outs := outs; ev_verdict := v |} in
  P_C04_event cfg i sp sp' s e =
    ({| q_snap := q_snap s; q_clean := q_clean s && (c04_refused sp sp' e || mutating_ok r) && is_okskip v |},
     c04_req_clauses cfg i sp sp' c r e ++ bad_msgs i 400 e).
Proof.
  intros e. subst e. unfold P_C04_event. cbn [ev_op ev_req ev_outs ev_verdict]. f_equal.
Qed.

(* ================= the clauses about what is due ================= *)
Lemma zn_nonneg_m1 k : zn k ≠ (-1)%Z.
Proof. unfold zn. lia. Qed.

Lemma want_some i c rid r w ans : w ≠ (-1)%Z →
  want_clauses i c rid r (Some w) ans =
  match ans with
  | [a] => match snd a with
           | MError _ k => okv i (bool_decide (zn k = w)) 403 [zn c; zn rid; zn k; w]
           | m => okv i (success_for r m && bool_decide (w = 0%Z)) 404 [zn c; zn rid; w]
           end
  | _ => [viol i 405 [zn c; zn rid; Z.of_nat (length ans)]]
  end.
Proof.
  intros Hw. unfold want_clauses. destruct w as [|q|q]; [| |destruct q; try done].
  all: destruct ans as [|a [|b l]]; try reflexivity; by destruct (snd a).
Qed.

Lemma want_error i c rid r k c' rid' : want_clauses i c rid r (Some (zn k)) [(c', MError rid' k)] = [].
Proof. rewrite want_some by apply zn_nonneg_m1. cbn [snd]. by rewrite bool_decide_eq_true_2. Qed.

Lemma want_success i c rid r c' m :
  success_for r m = true → want_clauses i c rid r (Some 0%Z) [(c', m)] = [].
Proof.
  intros H. rewrite want_some by done. cbn [snd]. destruct m; try (by rewrite H); by destruct r.
Qed.

Lemma want_silent i c rid r : want_clauses i c rid r (Some (-1)%Z) [] = [].
Proof. reflexivity. Qed.

Lemma want_busy i c rid r c' rid' : want_clauses i c rid r None [(c', MError rid' E_TOO_BUSY)] = [].
Proof. reflexivity. Qed.

Lemma want_maybe i c rid r c' m : success_for r m = true → want_clauses i c rid r None [(c', m)] = [].
Proof. intros H. unfold want_clauses. cbn [snd]. destruct m; try (by rewrite H); by destruct r. Qed.

(* ================= classes of deliveries ================= *)
(* neither an answer to anything nor an error *)
Definition silent_msg (m : msg) : Prop := msg_rid m = None ∧ is_error_msg m = false.
Definition silent (l : list delivery) : Prop := Forall (λ d : delivery, silent_msg (snd d)) l.

Lemma silent_app l1 l2 : silent l1 → silent l2 → silent (l1 ++ l2).
Proof. apply Forall_app_2. Qed.
Lemma silent_nil : silent [].
Proof. constructor. Qed.
Lemma silent_broadcast SS p m : silent_msg m → silent (broadcast SS p m).
Proof. apply (Forall_broadcast silent_msg). Qed.
Lemma silent_broadcast_to SS p ids m : silent_msg m → silent (broadcast_to SS p ids m).
Proof. apply (Forall_broadcast_to silent_msg). Qed.
Lemma silent_leave cfg st c : silent (leave cfg st c).2.
Proof. by apply (Forall_leave silent_msg). Qed.
Lemma silent_disconnect cfg st c : silent (disconnect cfg st c).2.
Proof. by apply (Forall_disconnect silent_msg). Qed.
Lemma silent_module_join cfg c SS : silent (module_join_msgs cfg c SS).
Proof. unfold module_join_msgs. destruct (cfg_vikja cfg), (cfg_odal cfg); repeat constructor. Qed.
Lemma silent_answers rd l : silent l → answers rd l = [].
Proof. intros H. apply answers_all_none. intros d Hd. unfold silent in H. rewrite Forall_forall in H. by destruct (H d Hd). Qed.
Lemma silent_noerr l : silent l → existsb is_err l = false.
Proof.
  intros H. induction H as [|d l [_ Hd] _ IH]; [done|]. simpl. unfold is_err at 1. by rewrite Hd, IH.
Qed.
Lemma existsb_err_app l1 l2 : existsb is_err (l1 ++ l2) = existsb is_err l1 || existsb is_err l2.
Proof. apply existsb_app. Qed.

(* ================= what a member's request (other than a join) must produce ================= *)
Definition member_post (i : nat) (c rd : N) (r : req) (want : option Z) (o : list delivery) (v : verdict) : Prop :=
  v ≠ VPanic ∧
  forallb (to_me c) (answers rd o) = true ∧
  want_clauses i c rd r want (answers rd o) = [] ∧
  (existsb is_err o = true → forallb (to_me c) o = true).

Lemma post_error i c rd r want k v :
  want = Some (zn k) → v ≠ VPanic → member_post i c rd r want [(c, MError rd k)] v.
Proof.
  intros -> Hv. unfold member_post. rewrite answers_cons_yes, answers_nil by done.
  split; [done|]. split; [simpl; unfold to_me; simpl; by rewrite N.eqb_refl|].
  split; [apply want_error|]. intros _. simpl. unfold to_me. simpl. by rewrite N.eqb_refl.
Qed.

Lemma post_success i c rd r want m l1 l2 :
  want = Some 0%Z → success_for r m = true → msg_rid m = Some rd → is_error_msg m = false → silent l1 → silent l2 →
  member_post i c rd r want (l1 ++ (c, m) :: l2) VOk.
Proof.
  intros -> Hs Hm He H1 H2. unfold member_post.
  rewrite answers_app, answers_cons_yes, !silent_answers by done. cbn [app].
  split; [done|]. split; [simpl; unfold to_me; simpl; by rewrite N.eqb_refl|].
  split; [by apply want_success|].
  rewrite existsb_err_app. simpl. unfold is_err at 2. cbn [snd]. rewrite He, !silent_noerr by done. done.
Qed.

Lemma post_silent i c rd r want l :
  want = Some (-1)%Z → silent l → member_post i c rd r want l VOk.
Proof.
  intros -> H. unfold member_post. rewrite silent_answers by done.
  split; [done|]. split; [done|]. split; [done|]. by rewrite silent_noerr.
Qed.

Ltac sil := repeat first
  [ apply silent_nil
  | apply silent_app
  | apply silent_broadcast; split; reflexivity
  | apply silent_broadcast_to; split; reflexivity
  | apply Forall_cons_2; [split; reflexivity|] ].

Lemma member_request_ok cfg i st c cn sid p SS r hint st' o v sp rd :
  is_join r = false → req_rid r = Some rd →
  (∀ e, sp_ents sp !! (sid, e) = ent_abs e <$> s_ents SS !! e) →
  store_abs sp sid (s_store SS) → types_bij (s_store SS) →
  (∀ e n, sp_acts sp !! (sid, e, n) = s_actions SS !! (e, n)) →
  handle_joined cfg st c cn sid p SS r hint = (st', o, v) →
  member_post i c rd r (expected_outcome cfg sp c sid p r) o v.
Proof.
  intros Hj Hr Ee [A1 A2 A3] Hb Ea H.
  assert (Hent : ∀ e, is_Some_b (sp_ents sp !! (sid, e)) = is_Some_b (s_ents SS !! e)).
  { intros e. rewrite Ee. by destruct (s_ents SS !! e). }
  destruct r; try discriminate Hj; try discriminate Hr; simpl in Hr; injection Hr as <-; simpl in H.
  - (* ping *)
    injection H as <- <- <-. by apply (post_success _ _ _ _ _ _ [] []); try sil.
  - (* signed latency *)
    unfold expected_outcome. destruct ((n <? lat_min) || (lat_max <? n)) eqn:En; cbn [orb].
    { injection H as <- <- <-. by apply post_error. }
    destruct (wallet =? 0) eqn:Ew.
    { injection H as <- <- <-. by apply post_error. }
    unfold send_ping in H. injection H as <- <- <-. apply post_silent; [done|sil].
  - (* entity add *)
    injection H as <- <- <-. apply (post_success _ _ _ _ _ _ []); try done; try sil.
    destruct (flag_on cfg F_ENTITY_ADD_B); sil.
  - (* entity delete *)
    unfold expected_outcome. rewrite (Ee eid). destruct (s_ents SS !! eid) as [ent|] eqn:He; cbn [fmap option_fmap option_map ent_abs].
    2:{ injection H as <- <- <-. by apply post_error. }
    cbn [ent_to_pb ep_owner]. destruct (e_owner ent =? p) eqn:Ho; cbn [negb] in H; injection H as <- <- <-.
    + apply (post_success _ _ _ _ _ _ []); try done; try sil. destruct (flag_on cfg F_ENTITY_DELETE_B); sil.
    + by apply post_error.
  - (* type add *)
    unfold expected_outcome. destruct (name =? 0) eqn:En.
    { injection H as <- <- <-. by apply post_error. }
    destruct (store_add_type name (s_store SS)) as [tid s1]. injection H as <- <- <-.
    by apply (post_success _ _ _ _ _ _ [] []); try sil.
  - (* get name *)
    unfold expected_outcome. destruct (tid =? 0) eqn:Et.
    { injection H as <- <- <-. by apply post_error. }
    rewrite (memN_spec_tids sp sid (s_store SS) tid Hb A1).
    destruct (st_names (s_store SS) !! tid) as [nm|] eqn:Hn; injection H as <- <- <-; cbn [is_Some_b].
    + by apply (post_success _ _ _ _ _ _ [] []); try sil.
    + by apply post_error.
  - (* get id *)
    unfold expected_outcome. destruct (name =? 0) eqn:En.
    { injection H as <- <- <-. by apply post_error. }
    rewrite A1. destruct (st_ids (s_store SS) !! name) as [tid|] eqn:Hn; injection H as <- <- <-; cbn [is_Some_b].
    + by apply (post_success _ _ _ _ _ _ [] []); try sil.
    + by apply post_error.
  - (* component add *)
    unfold expected_outcome. rewrite Hent, (memN_spec_tids sp sid (s_store SS) tid Hb A1), A2.
    destruct ((tid =? 0) || (eid =? 0)) eqn:Ez.
    { injection H as <- <- <-. by apply post_error. }
    destruct (s_ents SS !! eid) as [ent|] eqn:He; cbn [is_Some_b negb].
    2:{ injection H as <- <- <-. by apply post_error. }
    destruct (st_names (s_store SS) !! tid) as [nm|] eqn:Hn; cbn [is_Some_b negb].
    2:{ injection H as <- <- <-. by apply post_error. }
    destruct (st_comps (s_store SS) !! (tid, eid)) as [d0|] eqn:Hd; cbn [is_Some_b negb].
    { injection H as <- <- <-. by apply post_error. }
    injection H as <- <- <-. apply (post_success _ _ _ _ _ _ []); try done; try sil.
    destruct (flag_on cfg F_COMP_ADD_B); [sil|]. case_decide; sil.
  - (* component delete *)
    unfold expected_outcome. rewrite Hent, A2.
    destruct ((tid =? 0) || (eid =? 0)) eqn:Ez.
    { injection H as <- <- <-. by apply post_error. }
    destruct (s_ents SS !! eid) as [ent|] eqn:He; cbn [is_Some_b negb].
    2:{ injection H as <- <- <-. by apply post_error. }
    destruct (st_comps (s_store SS) !! (tid, eid)) as [d0|] eqn:Hd; cbn [is_Some_b negb].
    2:{ injection H as <- <- <-. by apply post_error. }
    injection H as <- <- <-. apply post_success; try done; try sil.
    destruct (flag_on cfg F_COMP_DELETE_B); [sil|]. case_decide; sil.
  - (* component list *)
    unfold expected_outcome. destruct (tid =? 0) eqn:Et; injection H as <- <- <-.
    + by apply post_error.
    + by apply (post_success _ _ _ _ _ _ [] []); try sil.
  - (* subscribe *)
    unfold expected_outcome. destruct (tid =? 0) eqn:Et.
    { injection H as <- <- <-. by apply post_error. }
    rewrite (memN_spec_tids sp sid (s_store SS) tid Hb A1).
    destruct (st_names (s_store SS) !! tid) as [nm|] eqn:Hn; injection H as <- <- <-; cbn [is_Some_b].
    + by apply (post_success _ _ _ _ _ _ [] []); try sil.
    + by apply post_error.
  - (* unsubscribe *)
    unfold expected_outcome. destruct (tid =? 0) eqn:Et; injection H as <- <- <-.
    + by apply post_error.
    + by apply (post_success _ _ _ _ _ _ [] []); try sil.
  - (* receipt *)
    unfold expected_outcome. destruct ((receipt =? 0) || (hash =? 0) || (sig =? 0)) eqn:Ez.
    { injection H as <- <- <-. by apply post_error. }
    destruct (N.of_nat (length (receipts st)) <? receipt_cap); injection H as <- <- <-.
    + unfold member_post. rewrite answers_cons_yes, answers_nil by done.
      split; [done|]. split; [simpl; unfold to_me; simpl; by rewrite N.eqb_refl|]. split; [by apply want_maybe|done].
    + unfold member_post. rewrite answers_cons_yes, answers_nil by done.
      split; [done|]. split; [simpl; unfold to_me; simpl; by rewrite N.eqb_refl|]. split; [apply want_busy|].
      intros _. simpl. unfold to_me. simpl. by rewrite N.eqb_refl.
  - (* entity action *)
    unfold expected_outcome. destruct (cfg_vikja cfg) eqn:Ev; cbn [negb] in *.
    2:{ injection H as <- <- <-. apply post_silent; [done|sil]. }
    destruct a as [a|].
    2:{ injection H as <- <- <-. by apply post_error. }
    destruct ((a_name a =? 0) || negb (is_Some_b (a_ts a))) eqn:Ez.
    { injection H as <- <- <-. by apply post_error. }
    rewrite Hent, Ea. destruct (s_ents SS !! a_eid a) as [ent|] eqn:He; cbn [is_Some_b negb].
    2:{ injection H as <- <- <-. by apply post_error. }
    destruct (s_actions SS !! (a_eid a, a_name a)) as [old|] eqn:Hold.
    + destruct (ts_before (a_ts a) (a_ts old)) eqn:Hts; injection H as <- <- <-.
      * by apply post_error.
      * apply (post_success _ _ _ _ _ _ []); try done; sil.
    + injection H as <- <- <-. apply (post_success _ _ _ _ _ _ []); try done; sil.
  - (* asset add *)
    unfold expected_outcome. destruct (cfg_odal cfg) eqn:Ev; cbn [negb] in *.
    2:{ injection H as <- <- <-. apply post_silent; [done|sil]. }
    destruct (asset =? 0) eqn:Ea0.
    { injection H as <- <- <-. by apply post_error. }
    rewrite (Ee eid). destruct (s_ents SS !! eid) as [ent|] eqn:He; cbn [fmap option_fmap option_map ent_abs].
    2:{ injection H as <- <- <-. by apply post_error. }
    cbn [ent_to_pb ep_owner]. destruct (e_owner ent =? p) eqn:Ho; cbn [negb] in H; injection H as <- <- <-.
    + apply (post_success _ _ _ _ _ _ []); try done; sil.
    + by apply post_error.
  - (* dagaz query *)
    unfold expected_outcome. destruct (cfg_dagaz cfg); injection H as <- <- <-.
    + apply (post_success _ _ _ _ _ _ [] []); try done; try sil. simpl. apply N.eqb_refl.
    + apply post_silent; [done|sil].
Qed.

(* ================= a join request: the three possible shapes, with the spec-side condition of each ================= *)
Definition not_current (sp : spec) (c : N) (s : sidspec) : Prop := ∀ n p0, sp_mem sp !! c = Some (n, p0) → s ≠ SId n.

Lemma join_c04 cfg st c cn rid s ots hint sp :
  inv st → refines_mem sp st → conns st !! c = Some cn →
  ∀ st' outs v, Model.join cfg st c rid s ots hint = (st', outs, v) →
  v = VOk ∧
  ((∃ n p0 mo, s = SId n ∧ sp_mem sp !! c = Some (n, p0) ∧ outs = (c, MError rid E_ALREADY_JOINED) :: mo ∧
      silent mo ∧ forallb (to_me c) mo = true ∧ st' = st) ∨
   (not_current sp c s ∧ outs = (leave cfg st c).2 ++ [(c, MError rid E_NOT_FOUND)] ∧ st' = (leave cfg st c).1 ∧
      match s with SId n => sp_live (depart sp c) n = false | SJunk _ => True | SNew => False end) ∨
   (not_current sp c s ∧ (∃ n u p' rest, outs = (leave cfg st c).2 ++ (c, MJoinResp rid n u p') :: rest ∧ silent rest) ∧
      match s with SId n => sp_live (depart sp c) n = true | SJunk _ => False | SNew => True end)).
Proof.
  intros I R Hc st' outs v. unfold Model.join. rewrite Hc.
  assert (Hmem : sp_mem sp !! c = c_cur cn) by (rewrite (rm_mem _ _ R); unfold cur_of; by rewrite Hc).
  destruct (already_joined cn s) eqn:Haj.
  - intros [= <- <- <-]. split; [done|]. left. unfold already_joined in Haj.
    destruct (c_cur cn) as [[cur p0]|] eqn:Hcur; [|done]. destruct s as [|n|k]; try done.
    apply bool_decide_eq_true in Haj as ->.
    exists n, p0, (match sessions st !! n with Some SS => module_join_msgs cfg c SS | None => [] end).
    repeat (split; [done|]). split; [|split; [|done]].
    + destruct (sessions st !! n); [apply silent_module_join|constructor].
    + destruct (sessions st !! n); [|done]. unfold module_join_msgs.
      destruct (cfg_vikja cfg), (cfg_odal cfg); simpl; unfold to_me; simpl; by rewrite ?N.eqb_refl.
  - assert (Hnc : not_current sp c s).
    { intros n p0 Hm ->. rewrite Hmem in Hm. unfold already_joined in Haj. rewrite Hm in Haj.
      by rewrite bool_decide_eq_true_2 in Haj. }
    pose proof (leave_refines cfg sp st c I R) as R1. pose proof (inv_leave cfg st c I) as I1.
    destruct (leave cfg st c) as [st1 o1]. cbn [fst snd] in *.
    assert (Hent : ∀ st2 n SS, sessions st2 !! n = Some SS →
      ∃ n' u p' rest, o1 ++ (enter cfg st2 c rid n ots).1.2 = o1 ++ (c, MJoinResp rid n' u p') :: rest ∧ silent rest).
    { intros st2 n SS HS. rewrite (enter_eq cfg st2 c rid n ots SS HS). cbv zeta. cbn [fst snd].
      eexists _, _, _, _. split; [reflexivity|]. apply silent_app.
      - destruct (flag_on cfg F_SESSION_STATE); repeat constructor.
      - apply silent_app; [|apply silent_module_join]. destruct (flag_on cfg F_JOIN_B); [constructor|].
        by apply silent_broadcast. }
    assert (Hv : ∀ st2 n SS, sessions st2 !! n = Some SS → (enter cfg st2 c rid n ots).2 = VOk).
    { intros st2 n SS HS. by rewrite (enter_eq cfg st2 c rid n ots SS HS). }
    destruct s as [|n|k].
    + destruct (create_session hint st1) as [n st2] eqn:Hcr.
      destruct (c07_created_fresh _ _ _ _ Hcr) as [HS2 _].
      specialize (Hent st2 n _ HS2). specialize (Hv st2 n _ HS2).
      destruct (enter cfg st2 c rid n ots) as [[st3 o2] v2]. cbn [fst snd] in *. intros [= <- <- <-].
      split; [done|]. right. right. done.
    + destruct (sessions st1 !! n) as [SS|] eqn:HS.
      * specialize (Hent st1 n _ HS). specialize (Hv st1 n _ HS).
        destruct (enter cfg st1 c rid n ots) as [[st3 o2] v2]. cbn [fst snd] in *. intros [= <- <- <-].
        split; [done|]. right. right. split; [done|]. split; [done|].
        apply (live_iff (depart sp c) st1 n I1 (rm_mem _ _ R1)). by rewrite HS.
      * intros [= <- <- <-]. split; [done|]. right. left. repeat (split; [done|]).
        by apply (live_false (depart sp c) st1 n I1 (rm_mem _ _ R1)).
    + intros [= <- <- <-]. split; [done|]. right. left. done.
Qed.

(* ================= the event of a consumed join request ================= *)
Lemma depart_mem_none sp c : sp_mem (depart sp c) !! c = None.
Proof. destruct (depart_mproj sp c) as [-> _]. apply lookup_delete. Qed.

Lemma departure_step_changed sp sp' c hint r outs v sid p :
  sp_mem sp !! c = Some (sid, p) → sp_mem sp' !! c = None →
  departure sp sp' {| ev_op := OStep c hint; ev_req := r; ev_outs := outs; ev_verdict := v |} = Some (c, sid, p).
Proof.
  intros H1 H2. unfold departure, mem_changed. cbn [actor ev_op]. rewrite H1, H2.
  by rewrite bool_decide_eq_false_2.
Qed.

Lemma departure_nonmember sp sp' e c : actor e = Some c → sp_mem sp !! c = None → departure sp sp' e = None.
Proof. intros Ha H. unfold departure. by rewrite Ha, H. Qed.

Lemma refused_noerr sp sp' e : existsb is_err (ev_outs e) = false → c04_refused sp sp' e = false.
Proof. intros H. unfold c04_refused. by rewrite H. Qed.

Lemma forallb_to_me_one c m : forallb (to_me c) [(c, m)] = true.
Proof. simpl. unfold to_me. simpl. by rewrite N.eqb_refl. Qed.

Lemma join_event_ok cfg i st c cn rid s ots hint sp st' outs v :
  inv st → refines_mem sp st → conns st !! c = Some cn →
  Model.join cfg st c rid s ots hint = (st', outs, v) →
  let e := {| ev_op := OStep c hint; ev_req := Some (RJoin rid s ots); ev_outs := outs; ev_verdict := v |} in
  v = VOk ∧
  c04_req_clauses cfg i sp (spec_step sp e) c (RJoin rid s ots) e = [] ∧
  (c04_refused sp (spec_step sp e) e = true → sessions st' = sessions st).
Proof.
  intros I R Hc Ej e. destruct (join_c04 cfg st c cn rid s ots hint sp I R Hc _ _ _ Ej) as [-> Hsh].
  split; [done|]. pose proof (silent_leave cfg st c) as SL. pose proof (plains_leave cfg st c) as PL.
  unfold c04_req_clauses. cbn [req_rid]. subst e. cbn [ev_outs ev_verdict].
  set (e := {| ev_op := OStep c hint; ev_req := Some (RJoin rid s ots); ev_outs := outs; ev_verdict := VOk |}).
  destruct (sp_mem sp !! c) as [[sid p]|] eqn:Hmem.
  - (* a member *)
    unfold member_clauses.
    destruct Hsh as [(n&p0&mo&->&Hm&->&Smo&Tmo&->)|[(Hnc&->&->&Hs)|(Hnc&(n&u&p'&rest&->&Srest)&Hs)]].
    + injection Hm as <- <-. split; [|done].
      rewrite answers_cons_yes, silent_answers by done. rewrite forallb_to_me_one. cbn [okv app].
      unfold expected_outcome. rewrite N.eqb_refl, want_error. cbn [app].
      destruct (c04_refused sp (spec_step sp e) e); [|done].
      cbn [forallb]. rewrite Tmo.
      unfold to_me. simpl. by rewrite N.eqb_refl.
    + assert (Hsp : spec_step sp e = depart sp c).
      { unfold e. rewrite spec_step_join. rewrite join_resp_app_plain by done. rewrite join_resp_cons_other by done.
        unfold join_resp at 1. rewrite first_to_none by constructor. rewrite has_error_app.
        unfold has_error at 2. simpl. rewrite N.eqb_refl. simpl. by rewrite orb_true_r. }
      assert (Href : c04_refused sp (spec_step sp e) e = false).
      { unfold c04_refused. rewrite Hsp. unfold e at 2.
        rewrite (departure_step_changed sp (depart sp c) c hint _ _ _ sid p Hmem (depart_mem_none sp c)).
        by rewrite andb_false_r. }
      rewrite Href. split; [|done].
      rewrite answers_app, silent_answers, answers_cons_yes, answers_nil by done. cbn [app].
      rewrite forallb_to_me_one. cbn [okv app]. rewrite app_nil_r.
      assert (Hw : expected_outcome cfg sp c sid p (RJoin rid s ots) = Some (zn E_NOT_FOUND)).
      { unfold expected_outcome. destruct s as [|n|k]; [done| |done].
        destruct (N.eqb_spec sid n) as [->|Hne]; [by destruct (Hnc n p Hmem)|]. by rewrite Hs. }
      rewrite Hw. apply want_error.
    + assert (Href : c04_refused sp (spec_step sp e) e = false).
      { apply refused_noerr. unfold e. cbn [ev_outs]. rewrite existsb_err_app. cbn [existsb].
        rewrite !silent_noerr by done. done. }
      rewrite Href. split; [|done].
      rewrite answers_app, silent_answers, answers_cons_yes, silent_answers by done. cbn [app].
      rewrite forallb_to_me_one. cbn [okv app]. rewrite app_nil_r.
      assert (Hw : expected_outcome cfg sp c sid p (RJoin rid s ots) = Some 0%Z).
      { unfold expected_outcome. destruct s as [|n0|k]; [done| |done].
        destruct (N.eqb_spec sid n0) as [->|Hne]; [by destruct (Hnc n0 p Hmem)|]. by rewrite Hs. }
      rewrite Hw. by apply want_success.
  - (* not a member *)
    assert (Hcur : cur_of st c = None) by (by rewrite <- (rm_mem _ _ R)).
    destruct (leave_not_joined cfg st c Hcur) as [L1 L2].
    unfold nonmember_clauses. cbn [needs_session].
    destruct Hsh as [(n&p0&mo&->&Hm&->&Smo&Tmo&->)|[(Hnc&->&->&Hs)|(Hnc&(n&u&p'&rest&->&Srest)&Hs)]]; [done| |].
    + rewrite L1, L2. cbn [app]. split; [|done].
      rewrite answers_cons_yes, answers_nil by done. cbn [fst snd]. rewrite N.eqb_refl. cbn [okv app].
      assert (Hw : join_want sp s = zn E_NOT_FOUND).
      { unfold join_want. destruct s as [|n|k]; [done| |done]. rewrite (depart_none sp c Hmem) in Hs. by rewrite Hs. }
      rewrite Hw. by rewrite bool_decide_eq_true_2.
    + rewrite L2. cbn [app]. split.
      * rewrite answers_cons_yes, silent_answers by done. cbn [fst snd]. rewrite N.eqb_refl. cbn [okv app].
        assert (Hw : join_want sp s = 0%Z).
        { unfold join_want. destruct s as [|n0|k]; [done| |done]. rewrite (depart_none sp c Hmem) in Hs. by rewrite Hs. }
        rewrite Hw. by rewrite bool_decide_eq_true_2.
      * rewrite refused_noerr; [done|]. unfold e. cbn [ev_outs existsb]. rewrite L2. cbn [app existsb].
        by rewrite silent_noerr.
Qed.

(* ================= a request (other than a join) of a connection that is in no session ================= *)
Lemma nonmember_request_ok cfg i st c cn r hint st' o v sp sp' rd :
  is_join r = false → req_rid r = Some rd → sp_mem sp' !! c = None →
  handle_unjoined cfg st c cn r hint = (st', o, v) →
  nonmember_clauses i sp sp' c rd r o = [] ∧ sessions st' = sessions st ∧ (v = VErr → st' = st) ∧ v ≠ VPanic ∧ v ≠ VSkip.
Proof.
  intros Hj Hr Hm' H. unfold nonmember_clauses. rewrite Hm'. rewrite bool_decide_eq_true_2 by done.
  destruct r; try discriminate Hj; try discriminate Hr; simpl in Hr; injection Hr as <-; simpl in H; cbn [needs_session].
  all: repeat match type of H with context [if ?b then _ else _] => destruct b eqn:? end; injection H as <- <- <-.
  all: rewrite ?answers_cons_yes, ?answers_nil by done.
  all: cbn [forallb fst snd is_error_msg andb okv app success_for]; rewrite ?N.eqb_refl, ?same_lines_refl;
       cbn [forallb fst snd is_error_msg andb okv app negb]; try done.
  all: repeat match goal with H : _ = true |- _ => rewrite H | H : _ = false |- _ => rewrite H end; try done.
Qed.

(* ================= a refused or read-only request of a member leaves every session as it was ================= *)
Definition noerrs (l : list delivery) : Prop := Forall (λ d : delivery, is_error_msg (snd d) = false) l.
Lemma noerrs_existsb l : noerrs l → existsb is_err l = false.
Proof. intros H. induction H as [|d l Hd _ IH]; [done|]. simpl. unfold is_err at 1. by rewrite Hd, IH. Qed.

Ltac ne := unfold noerrs; repeat first
  [ apply Forall_nil_2
  | apply Forall_cons_2; [reflexivity|]
  | apply Forall_app_2
  | apply (Forall_broadcast (λ m, is_error_msg m = false)); reflexivity
  | apply (Forall_broadcast_to (λ m, is_error_msg m = false)); reflexivity ].

Lemma on_ping_sessions st c cn rid : sessions (on_ping st c cn rid).1.1 = sessions st.
Proof. unfold on_ping, send_ping. repeat case_match; simplify_eq; done. Qed.

Lemma member_clean_sessions cfg k st c cn sid p SS r hint st' o v :
  is_join r = false → wf cfg k SS → sessions st !! sid = Some SS →
  handle_joined cfg st c cn sid p SS r hint = (st', o, v) →
  existsb is_err o = true ∨ mutating_ok r = true → sessions st' = sessions st.
Proof.
  intros Hj W HS H. destruct r; try discriminate Hj; cbn [mutating_ok]; simpl in H.
  2:{ (* ping response *) intros _. pose proof (on_ping_sessions st c cn rid) as E. by rewrite H in E. }
  all: unfold send_ping in H; repeat case_match; simplify_eq; intros Hq; try reflexivity.
  all: try (rewrite (cleanup_modules_id cfg k _ SS W) by done; by rewrite put_session_id).
  all: exfalso; destruct Hq as [Hq|Hq]; [|discriminate Hq]; rewrite noerrs_existsb in Hq; [discriminate Hq|ne].
Qed.

(* proofs/RefComp3.v — first consumer of the component refinement: on the model's own traces the predicate
   P_C12 ("components behave as a map", Preds.v) is silent, all clauses:
     1201 / 1202 (outcome tables of ComponentAdd / ComponentDelete against the spec),
     1203 (a refused update has no effect), 1204 / 1205 (ComponentList = the spec's components of that type),
     1206-1208 (type registration / lookup agree with the spec's registry),
     1210-1218 (the SessionState handed to a joiner carries the spec's components),
     1221-1231 (hook snapshots: components and types of every session), 1299 (no harness anomaly). *)
From stdpp Require Import relations sorting.
From hagall Require Import Model Spec Obs Preds.
From hagall.proofs Require Import BaseLemmas Relay Inv Session Local Trans WF Mono Reach PC02 PC06 PC07 Own
  Refine Refine2 Refine3 Refine4 Refine5 RefComp RefComp2.
From Coq Require Import Lia.

(* ================= the shape of an event that consumed a request ================= *)
Lemma step_stepped cfg st o c r :
  stepped (ev_of st o (step cfg st o)) = Some (c, r) →
  ∃ hint cn q st1 o1 v,
    o = OStep c hint ∧ conns st !! c = Some cn ∧ c_open cn = true ∧ c_queue cn = r :: q ∧
    handle cfg (upd_conn c (set_queue q) st) c r hint = (st1, o1, v) ∧ v ≠ VErr ∧
    step cfg st o = (st1, o1, v).
Proof.
  intros Hst. unfold ev_of, stepped in Hst. cbn [ev_op ev_req ev_verdict] in Hst.
  destruct o as [c0|c0 r0|c0 hint|sid0|c0|]; try discriminate Hst.
  cbn [consumed step] in *.
  destruct (conns st !! c0) as [cn|] eqn:Hc; [|discriminate Hst].
  destruct (c_open cn) eqn:Ho; [|discriminate Hst]. cbn [negb] in *.
  destruct (c_queue cn) as [|r1 q] eqn:Hq; [discriminate Hst|]. cbn [head] in *.
  destruct (handle cfg (upd_conn c0 (set_queue q) st) c0 r1 hint) as [[st1 o1] v] eqn:Eh.
  assert (Hcr : c = c0 ∧ r = r1 ∧ v ≠ VErr).
  { destruct v; simpl in Hst; try discriminate Hst; try (by injection Hst as <- <-).
    destruct (disconnect cfg st1 c0). discriminate Hst. }
  destruct Hcr as (->&->&Hv).
  exists hint, cn, q, st1, o1, v. repeat (split; [done|]). by destruct v.
Qed.

Lemma step_not_stepped_outs cfg st o :
  inv st → stepped (ev_of st o (step cfg st o)) = None → plains (step cfg st o).1.2 ∨
  (∃ c hint cn r q st1 o1, o = OStep c hint ∧ conns st !! c = Some cn ∧ c_queue cn = r :: q ∧ is_join r = false ∧
     handle cfg (upd_conn c (set_queue q) st) c r hint = (st1, o1, VErr) ∧
     (step cfg st o).1.2 = o1 ++ (disconnect cfg st1 c).2) ∨
  o = OSnap.
Proof.
  intros I Hst. destruct o as [c|c r|c hint|sid|c|].
  - left. simpl. destruct (conns st !! c); constructor.
  - left. simpl. unfold dispatch. destruct (conns st !! c) as [cn|]; [|constructor].
    destruct (c_open cn); [|constructor]. simpl.
    destruct r; try constructor. destruct (ty =? 14); [|constructor].
    pose proof (plains_disconnect cfg st c) as P. by destruct (disconnect cfg st c).
  - unfold ev_of, stepped in Hst. cbn [ev_op ev_req ev_verdict consumed step] in *.
    destruct (conns st !! c) as [cn|] eqn:Hc; [|left; constructor].
    destruct (c_open cn) eqn:Ho; [|left; constructor]. cbn [negb] in *.
    destruct (c_queue cn) as [|r q] eqn:Hq; [left; constructor|]. cbn [head] in *.
    set (st0 := upd_conn c (set_queue q) st) in *.
    destruct (handle cfg st0 c r hint) as [[st1 o1] v] eqn:Eh.
    assert (I0 : inv st0) by (eapply inv_same_mem; [|exact I]; apply same_mem_upd_conn; by intros []).
    assert (Hc0 : conns st0 !! c = Some (set_queue q cn)).
    { unfold st0, upd_conn. simpl. rewrite Hc. by rewrite lookup_insert. }
    destruct (is_join r) eqn:Hj.
    + exfalso. destruct r; try discriminate Hj.
      assert (Hh : handle cfg st0 c (RJoin rid sid ots) hint = Model.join cfg st0 c rid sid ots hint).
      { unfold handle. rewrite Hc0. destruct (c_cur (set_queue q cn)) as [[s p]|] eqn:Hcur; [|done].
        assert (Hcur0 : cur_of st0 c = Some (s, p)) by (unfold cur_of; by rewrite Hc0).
        destruct (live_session _ _ (inv_live _ I0 _ _ _ Hcur0)) as [SS HS]. by rewrite HS. }
      pose proof (join_verdict cfg st0 c _ rid sid ots hint Hc0) as Hv. rewrite <- Hh, Eh in Hv. simpl in Hv. subst v.
      discriminate Hst.
    + destruct (handle_nonjoin cfg st0 c _ r hint _ _ _ I0 Hc0 Hj Eh) as (_&_&V1&V2).
      destruct v; try done.
      right. left. exists c, hint, cn, r, q, st1, o1. repeat (split; [done|]).
      by destruct (disconnect cfg st1 c).
  - left. constructor.
  - left. simpl. destruct (conns st !! c) as [cn|]; [|constructor]. destruct (c_open cn); [|constructor]. simpl.
    pose proof (plains_disconnect cfg st c) as P. by destruct (disconnect cfg st c).
  - right. by right.
Qed.

Lemma step_member cfg st o sp c r sid p :
  inv st → refines_mem sp st →
  stepped (ev_of st o (step cfg st o)) = Some (c, r) → sp_mem sp !! c = Some (sid, p) →
  ∃ hint cn q SS st1 o1 v,
    o = OStep c hint ∧ conns st !! c = Some cn ∧ c_cur cn = Some (sid, p) ∧ sessions st !! sid = Some SS ∧
    s_parts SS !! p = Some c ∧ parts_injective SS ∧
    conns (upd_conn c (set_queue q) st) !! c = Some (set_queue q cn) ∧
    handle cfg (upd_conn c (set_queue q) st) c r hint = (st1, o1, v) ∧
    handle_joined cfg (upd_conn c (set_queue q) st) c (set_queue q cn) sid p SS r hint = (st1, o1, v) ∧
    step cfg st o = (st1, o1, v).
Proof.
  intros I R Hst Hmem. destruct (step_stepped cfg st o c r Hst) as (hint&cn&q&st1&o1&v&->&Hc&Ho&Hq&Eh&Hv&Es).
  assert (Hcur : c_cur cn = Some (sid, p)).
  { rewrite (rm_mem _ _ R) in Hmem. unfold cur_of in Hmem. by rewrite Hc in Hmem. }
  assert (Hcur0 : cur_of st c = Some (sid, p)) by (unfold cur_of; by rewrite Hc).
  destruct (live_session _ _ (inv_live _ I _ _ _ Hcur0)) as [SS HS].
  destruct (inv_member st c cn sid p SS I Hc Hcur HS) as [Hp Hinj].
  assert (Hc0 : conns (upd_conn c (set_queue q) st) !! c = Some (set_queue q cn)).
  { unfold upd_conn. simpl. rewrite Hc. by rewrite lookup_insert. }
  exists hint, cn, q, SS, st1, o1, v. repeat (split; [done|]). split; [|done].
  unfold handle in Eh. rewrite Hc0 in Eh. change (c_cur (set_queue q cn)) with (c_cur cn) in Eh. rewrite Hcur in Eh.
  change (sessions (upd_conn c (set_queue q) st)) with (sessions st) in Eh. by rewrite HS in Eh.
Qed.

Lemma step_nonmember cfg st o sp c r :
  refines_mem sp st →
  stepped (ev_of st o (step cfg st o)) = Some (c, r) → sp_mem sp !! c = None →
  ∃ hint cn q st1 o1 v,
    o = OStep c hint ∧ conns st !! c = Some cn ∧ c_cur cn = None ∧
    conns (upd_conn c (set_queue q) st) !! c = Some (set_queue q cn) ∧
    handle cfg (upd_conn c (set_queue q) st) c r hint = (st1, o1, v) ∧
    handle_unjoined cfg (upd_conn c (set_queue q) st) c (set_queue q cn) r hint = (st1, o1, v) ∧
    step cfg st o = (st1, o1, v).
Proof.
  intros R Hst Hmem. destruct (step_stepped cfg st o c r Hst) as (hint&cn&q&st1&o1&v&->&Hc&Ho&Hq&Eh&Hv&Es).
  assert (Hcur : c_cur cn = None).
  { rewrite (rm_mem _ _ R) in Hmem. unfold cur_of in Hmem. by rewrite Hc in Hmem. }
  assert (Hc0 : conns (upd_conn c (set_queue q) st) !! c = Some (set_queue q cn)).
  { unfold upd_conn. simpl. rewrite Hc. by rewrite lookup_insert. }
  exists hint, cn, q, st1, o1, v. repeat (split; [done|]). split; [|done].
  unfold handle in Eh. rewrite Hc0 in Eh. change (c_cur (set_queue q cn)) with (c_cur cn) in Eh. by rewrite Hcur in Eh.
Qed.

Lemma step_stepped_join cfg st o c rid s ots :
  inv st → stepped (ev_of st o (step cfg st o)) = Some (c, RJoin rid s ots) →
  ∃ hint cn q st1 o1 v,
    o = OStep c hint ∧ conns st !! c = Some cn ∧
    conns (upd_conn c (set_queue q) st) !! c = Some (set_queue q cn) ∧
    Model.join cfg (upd_conn c (set_queue q) st) c rid s ots hint = (st1, o1, v) ∧
    step cfg st o = (st1, o1, v).
Proof.
  intros I Hst. destruct (step_stepped cfg st o c _ Hst) as (hint&cn&q&st1&o1&v&->&Hc&Ho&Hq&Eh&Hv&Es).
  set (st0 := upd_conn c (set_queue q) st) in *.
  assert (I0 : inv st0) by (eapply inv_same_mem; [|exact I]; apply same_mem_upd_conn; by intros []).
  assert (Hc0 : conns st0 !! c = Some (set_queue q cn)).
  { unfold st0, upd_conn. simpl. rewrite Hc. by rewrite lookup_insert. }
  exists hint, cn, q, st1, o1, v. repeat (split; [done|]). split; [|done]. rewrite <- Eh.
  unfold handle. rewrite Hc0. destruct (c_cur (set_queue q cn)) as [[s0 p]|] eqn:Hcur; [|done].
  assert (Hcur0 : cur_of st0 c = Some (s0, p)) by (unfold cur_of; by rewrite Hc0).
  destruct (live_session _ _ (inv_live _ I0 _ _ _ Hcur0)) as [SS HS]. by rewrite HS.
Qed.

(* ================= what a successful join hands to the joiner ================= *)
Definition state_of (m : msg) : option (list N * list ent_pb * list comp_pb) :=
  match m with MSessionState ps es cs => Some (ps, es, cs) | _ => None end.

Lemma plains_state_silent l : plains l → Forall (λ d : delivery, state_of (snd d) = None) l.
Proof. intros H. eapply Forall_impl; [exact H|]. intros [c m]; simpl. by destruct m. Qed.

Lemma join_shape cfg st c cn rid s ots hint st' outs v :
  inv st → nowrap st → conns st !! c = Some cn →
  Model.join cfg st c rid s ots hint = (st', outs, v) →
  ∀ r' n u p', join_resp c outs = Some (r', n, u, p') →
  ∃ S1, sessions st' !! n = Some S1 ∧
    (flag_on cfg F_SESSION_STATE = false →
     first_to c outs state_of = Some (map fst (map_to_list (s_parts S1)), ents_pb S1, store_list_all (s_store S1))).
Proof.
  intros I W Hc. unfold Model.join. rewrite Hc.
  destruct (already_joined cn s) eqn:Haj.
  - intros [= <- <- <-] r' n u p'. unfold already_joined in Haj.
    destruct (c_cur cn) as [[cur p0]|] eqn:Hcur; [|done]. destruct s as [|n0|k]; try done.
    set (mo := match sessions st !! cur with Some SS => module_join_msgs cfg c SS | None => [] end).
    assert (Hmo : plains mo). { unfold mo. destruct (sessions st !! cur); [apply plains_module_join|constructor]. }
    rewrite join_resp_cons_other by done. by rewrite (join_resp_plain _ _ Hmo).
  - pose proof (inv_leave cfg st c I) as I1.
    pose proof (leave_nowrap cfg st c I W) as W1. pose proof (plains_leave cfg st c) as P1.
    destruct (leave cfg st c) as [st1 o1]. simpl in *.
    assert (Hnotfound : ∀ outs, outs = o1 ++ [(c, MError rid E_NOT_FOUND)] → join_resp c outs = None).
    { intros ? ->. rewrite join_resp_app_plain by done. by rewrite join_resp_cons_other. }
    assert (Hshape : ∀ st2 n0 SS, sessions st2 !! n0 = Some SS →
      ∀ r' n u p', join_resp c (o1 ++ (enter cfg st2 c rid n0 ots).1.2) = Some (r', n, u, p') →
      ∃ S1, sessions (enter cfg st2 c rid n0 ots).1.1 !! n = Some S1 ∧
        (flag_on cfg F_SESSION_STATE = false →
         first_to c (o1 ++ (enter cfg st2 c rid n0 ots).1.2) state_of =
           Some (map fst (map_to_list (s_parts S1)), ents_pb S1, store_list_all (s_store S1)))).
    { intros st2 n0 SS HS r' n u p'. pose proof (enter_sessions cfg st2 c rid n0 ots _ HS) as E3.
      rewrite (enter_eq cfg st2 c rid n0 ots SS HS). cbv zeta. cbn [fst snd].
      rewrite join_resp_app_plain by done. unfold join_resp at 1. erewrite first_to_hit by reflexivity.
      intros [= <- <- <- <-]. exists (entered SS c). rewrite E3, lookup_insert. split; [done|].
      intros Hf. rewrite Hf. rewrite first_to_app_skip by (by apply plains_state_silent).
      unfold first_to. simpl. by rewrite N.eqb_refl. }
    destruct s as [|n0|k].
    + destruct (create_session hint st1) as [n0 st2] eqn:Hcr.
      destruct (c07_created_fresh _ _ _ _ Hcr) as [HS2 _].
      specialize (Hshape st2 n0 _ HS2).
      destruct (enter cfg st2 c rid n0 ots) as [[st3 o2] v2]. intros [= <- <- <-]. exact Hshape.
    + destruct (sessions st1 !! n0) as [SS|] eqn:HS.
      * specialize (Hshape st1 n0 _ HS).
        destruct (enter cfg st1 c rid n0 ots) as [[st3 o2] v2]. intros [= <- <- <-]. exact Hshape.
      * intros [= <- <- <-] r' n u p'. by rewrite (Hnotfound _ eq_refl).
    + intros [= <- <- <-] r' n u p'. by rewrite (Hnotfound _ eq_refl).
Qed.

(* ================= P_C12, clause by clause ================= *)
Definition k12j : snapsel := {| k_parts := false; k_ents := false; k_comps := true; k_acts := false;
  k_assets := false; k_types := false; k_subs := false; k_reg := false |}.
Definition k12s : snapsel := {| k_parts := false; k_ents := false; k_comps := true; k_acts := false; k_assets := false;
  k_types := true; k_subs := false; k_reg := false |}.

Definition c12_req_clauses (i : nat) (sp : spec) (c sid p : N) (r : req) (outs : list delivery) : list violation :=
  match r with
  | RCompAdd rid tid eid data ots =>
      let want := if (tid =? 0) || (eid =? 0) then zn E_BAD_REQUEST
                  else if negb (is_Some_b (sp_ents sp !! (sid, eid))) then zn E_NOT_FOUND
                  else if negb (memN tid (spec_tids sp sid)) then zn E_NOT_FOUND
                  else if is_Some_b (sp_comps sp !! (sid, tid, eid)) then zn E_CONFLICT else 0%Z in
      let got := outcome c rid outs (λ m, match m with MCompAddResp r' => r' =? rid | _ => false end) in
      okv i (bool_decide (got = want)) 1201 [zn c; zn tid; zn eid; got; want]
  | RCompDelete rid tid eid ots =>
      let want := if (tid =? 0) || (eid =? 0) then zn E_BAD_REQUEST
                  else if negb (is_Some_b (sp_ents sp !! (sid, eid))) then zn E_NOT_FOUND
                  else if negb (is_Some_b (sp_comps sp !! (sid, tid, eid))) then zn E_NOT_FOUND else 0%Z in
      let got := outcome c rid outs (λ m, match m with MCompDeleteResp r' => r' =? rid | _ => false end) in
      okv i (bool_decide (got = want)) 1202 [zn c; zn tid; zn eid; got; want]
  | RCompUpdate tid eid data ots =>
      if comp_update_accepted sp sid tid eid then [] else okv i (bool_decide (outs = [])) 1203 [zn c; zn tid; zn eid]
  | RCompList rid tid =>
      if tid =? 0 then [] else
      match first_to c outs (λ m, match m with MCompListResp r' cs => if r' =? rid then Some cs else None | _ => None end) with
      | Some cs => okv i (bool_decide (sort_by eComp cs = List.filter (λ x, cp_tid x =? tid) (spec_comps sp sid)))
                       1204 [zn c; zn tid; Z.of_nat (length cs)]
      | None => [viol i 1205 [zn c; zn tid]]
      end
  | RTypeAdd rid name =>
      match first_to c outs (λ m, match m with MTypeAddResp _ x => Some x | _ => None end), sp_types sp !! (sid, name) with
      | Some tid, Some t0 => okv i (t0 =? tid) 1206 [zn c; zn name; zn tid; zn t0]
      | _, _ => []
      end
  | RGetName rid tid =>
      if tid =? 0 then [] else
      match first_to c outs (λ m, match m with MGetNameResp _ x => Some x | _ => None end) with
      | Some n => okv i (bool_decide (sp_types sp !! (sid, n) = Some tid)) 1207 [zn c; zn tid; zn n]
      | None => okv i (negb (memN tid (spec_tids sp sid))) 1207 [zn c; zn tid]
      end
  | RGetId rid name =>
      if name =? 0 then [] else
      match first_to c outs (λ m, match m with MGetIdResp _ x => Some x | _ => None end) with
      | Some t => okv i (bool_decide (sp_types sp !! (sid, name) = Some t)) 1208 [zn c; zn name; zn t]
      | None => okv i (negb (is_Some_b (sp_types sp !! (sid, name)))) 1208 [zn c; zn name]
      end
  | _ => []
  end.

Lemma P_C12_event_unfold cfg i sp sp' e :
  P_C12_event cfg i sp sp' e =
  match stepped e with
  | Some (c, r) => match sp_mem sp !! c with
                   | None => []
                   | Some (sid, p) => c12_req_clauses i sp c sid p r (ev_outs e)
                   end
  | None => []
  end ++
  match stepped e with
  | Some (c, RJoin _ _ _) =>
      match join_resp c (ev_outs e) with
      | Some (_, sid, _, _) => join_snapshot_check cfg k12j 1200 i sp' c sid (ev_outs e)
      | None => [] end
  | _ => []
  end ++
  snap_check cfg k12s 1200 i sp e ++ bad_msgs i 1200 e.
Proof. reflexivity. Qed.

Lemma outcome_error c rid k (succ : msg → bool) :
  (∀ r k, succ (MError r k) = false) → outcome c rid [(c, MError rid k)] succ = zn k.
Proof.
  intros H. unfold outcome, has_msg. simpl. rewrite H, andb_false_r. simpl.
  unfold first_to. simpl. by rewrite !N.eqb_refl.
Qed.
Lemma outcome_hit c rid outs (succ : msg → bool) : has_msg c outs succ = true → outcome c rid outs succ = 0%Z.
Proof. intros H. unfold outcome. by rewrite H. Qed.

(* the component / registry requests of a member, against the model's handler *)
Lemma c12_request_ok cfg i st c cn sid p SS r hint st' o v sp :
  (∀ e, sp_ents sp !! (sid, e) = ent_abs e <$> s_ents SS !! e) →
  store_abs sp sid (s_store SS) → types_bij (s_store SS) →
  handle_joined cfg st c cn sid p SS r hint = (st', o, v) →
  c12_req_clauses i sp c sid p r o = [].
Proof.
  intros Ee [A1 A2 A3] Hb H.
  assert (Hent : ∀ e, is_Some_b (sp_ents sp !! (sid, e)) = is_Some_b (s_ents SS !! e)).
  { intros e. rewrite Ee. by destruct (s_ents SS !! e). }
  destruct r; try reflexivity; simpl in H; unfold c12_req_clauses.
  - (* type add *)
    destruct (name =? 0) eqn:En.
    { injection H as <- <- <-. rewrite first_to_none; [done|]. by repeat constructor. }
    unfold store_add_type in H. rewrite A1. destruct (st_ids (s_store SS) !! name) as [tid|] eqn:Eid.
    + injection H as <- <- <-. erewrite first_to_hit by reflexivity. by rewrite N.eqb_refl.
    + injection H as <- <- <-. by erewrite first_to_hit by reflexivity.
  - (* get name *)
    destruct (tid =? 0) eqn:Et; [done|].
    rewrite (memN_spec_tids sp sid (s_store SS) tid Hb A1).
    destruct (st_names (s_store SS) !! tid) as [nm|] eqn:Hn; injection H as <- <- <-.
    + erewrite first_to_hit by reflexivity. rewrite bool_decide_eq_true_2; [done|]. rewrite A1. by apply Hb.
    + rewrite first_to_none; [done|]. by repeat constructor.
  - (* get id *)
    destruct (name =? 0) eqn:En; [done|]. rewrite A1.
    destruct (st_ids (s_store SS) !! name) as [tid|] eqn:Hn; injection H as <- <- <-.
    + erewrite first_to_hit by reflexivity. by rewrite bool_decide_eq_true_2.
    + rewrite first_to_none; [done|]. by repeat constructor.
  - (* component add *)
    rewrite Hent, (memN_spec_tids sp sid (s_store SS) tid Hb A1), A2.
    destruct ((tid =? 0) || (eid =? 0)) eqn:Ez.
    { injection H as <- <- <-. by rewrite outcome_error. }
    destruct (s_ents SS !! eid) as [ent|] eqn:He; simpl.
    2:{ injection H as <- <- <-. by rewrite outcome_error. }
    destruct (st_names (s_store SS) !! tid) as [nm|] eqn:Hn; simpl.
    2:{ injection H as <- <- <-. by rewrite outcome_error. }
    destruct (st_comps (s_store SS) !! (tid, eid)) as [d0|] eqn:Hd; simpl.
    { injection H as <- <- <-. by rewrite outcome_error. }
    injection H as <- <- <-. rewrite outcome_hit; [done|]. apply has_msg_cons_hit, N.eqb_refl.
  - (* component delete *)
    rewrite Hent, A2.
    destruct ((tid =? 0) || (eid =? 0)) eqn:Ez.
    { injection H as <- <- <-. by rewrite outcome_error. }
    destruct (s_ents SS !! eid) as [ent|] eqn:He; simpl.
    2:{ injection H as <- <- <-. by rewrite outcome_error. }
    destruct (st_comps (s_store SS) !! (tid, eid)) as [d0|] eqn:Hd; simpl.
    2:{ injection H as <- <- <-. by rewrite outcome_error. }
    injection H as <- <- <-. rewrite outcome_hit; [done|].
    rewrite has_msg_app, (has_msg_cons_hit c _ []) by apply N.eqb_refl. apply orb_true_r.
  - (* component update *)
    unfold comp_update_accepted. rewrite (Ee eid), A2.
    destruct ((tid =? 0) || (eid =? 0)) eqn:Ez.
    { injection H as <- <- <-. apply orb_true_iff in Ez as [->| ->]; simpl; [done|]. by rewrite andb_false_r. }
    apply orb_false_iff in Ez as [-> ->]. simpl.
    destruct (s_ents SS !! eid) as [ent|] eqn:He; simpl.
    2:{ by injection H as <- <- <-. }
    destruct (st_comps (s_store SS) !! (tid, eid)) as [d0|] eqn:Hd; simpl; [done|].
    by injection H as <- <- <-.
  - (* component list *)
    destruct (tid =? 0) eqn:Et; [done|]. injection H as <- <- <-.
    erewrite first_to_hit by (by rewrite N.eqb_refl).
    rewrite bool_decide_eq_true_2; [done|]. by apply spec_comps_list.
Qed.

(* the SessionState of a successful join against the spec after the event *)
Lemma join_snapshot_comps_ok cfg i sp' c sid outs ps es cs :
  (flag_on cfg F_SESSION_STATE = false → first_to c outs state_of = Some (ps, es, cs)) →
  sort_by eComp cs = spec_comps sp' sid →
  join_snapshot_check cfg k12j 1200 i sp' c sid outs = [].
Proof.
  intros Hf Hcs. unfold join_snapshot_check. cbn [k_parts k_ents k_comps k_acts k_assets k12j].
  rewrite !andb_false_r. destruct (flag_on cfg F_SESSION_STATE); [done|].
  change (λ m : msg, match m with MSessionState ps0 es0 cs0 => Some (ps0, es0, cs0) | _ => None end) with state_of.
  rewrite (Hf eq_refl). simpl. by rewrite bool_decide_eq_true_2.
Qed.

(* a hook snapshot against the spec: components and types of every session *)
Lemma dump_check_k12 cfg i sp d0 :
  dump_check cfg k12s 1200 i sp d0 =
  okv i (bool_decide (sort_by eComp (d_comps d0) = spec_comps sp (d_sid d0))) 1223 [zn (d_sid d0)] ++
  okv i (bool_decide (sort_by (λ tn, [zn (fst tn); zn (snd tn)]) (d_types d0) = spec_types sp (d_sid d0))) 1224 [zn (d_sid d0)].
Proof. unfold dump_check. cbn [k12s k_parts k_ents k_comps k_types k_subs k_acts k_assets k_reg negb orb andb okv app]. by rewrite app_nil_r. Qed.

Lemma snap_ok_12 cfg kw i sp st :
  swf cfg kw st → refines_comps sp st →
  snap_check cfg k12s 1200 i sp {| ev_op := OSnap; ev_req := None; ev_outs := [(0, snapshot st)]; ev_verdict := VOk |} = [].
Proof.
  intros Wf RC. unfold snap_check. cbn [ev_op ev_outs flat_map snd snapshot k_reg k12s]. rewrite !app_nil_r.
  apply flat_map_nil_all. intros d0 Hd. apply elem_of_list_fmap in Hd as ([sid SS]&->&Hin).
  apply elem_of_map_to_list in Hin. rewrite dump_check_k12. cbn [fst snd dump_session d_comps d_types d_sid].
  rewrite (spec_comps_eq sp st sid SS RC Hin), (spec_types_eq cfg kw sp st sid SS RC Hin (Wf sid SS Hin)).
  by rewrite !bool_decide_eq_true_2.
Qed.

Lemma snap_check_not_snap cfg k b i sp e : ev_op e ≠ OSnap → snap_check cfg k b i sp e = [].
Proof. intros H. unfold snap_check. by destruct (ev_op e). Qed.

(* ================= one step ================= *)
Lemma c12_step_ok cfg st o k kw sp i :
  inv st → bounded k st → k + 1 < two32 → reg st → own_inv st → swf cfg kw st →
  refines_mem sp st → refines_ents sp st → refines_comps sp st →
  let e := ev_of st o (step cfg st o) in
  P_C12_event cfg i sp (spec_step sp e) e = [].
Proof.
  intros I B Hk G O Wf R E RC e. pose proof (bounded_nowrap _ _ B Hk) as W.
  rewrite P_C12_event_unfold.
  assert (Hbad : bad_msgs i 1200 e = []).
  { destruct (step_sim cfg st o k sp 0%nat I B Hk G R) as [_ C]. fold e in C. unfold P_C07_event in C.
    apply app_eq_nil in C as [_ C]. apply app_eq_nil in C as [_ C]. by eapply bad_msgs_base. }
  rewrite Hbad, app_nil_r.
  pose proof (step_sim_comps cfg st o k sp I B Hk O R E RC) as RC'. fold e in RC'.
  assert (H1 : match stepped e with
               | Some (c, r) => match sp_mem sp !! c with
                                | None => []
                                | Some (sid, p) => c12_req_clauses i sp c sid p r (ev_outs e)
                                end
               | None => []
               end = []).
  { destruct (stepped e) as [[c r]|] eqn:Hst; [|done].
    destruct (sp_mem sp !! c) as [[sid p]|] eqn:Hmem; [|done].
    destruct (step_member cfg st o sp c r sid p I R Hst Hmem) as (hint&cn&q&SS&st1&o1&v&->&Hc&Hcur&HS&Hp&Hinj&Hc0&_&Eh&Es).
    unfold e, ev_of. rewrite Es. cbn [ev_outs fst snd].
    eapply c12_request_ok; [| | |exact Eh].
    - intros e0. rewrite (E sid e0). unfold ents_at. by rewrite HS.
    - by eapply refines_comps_at.
    - exact (wf_types _ _ _ (Wf sid SS HS)). }
  assert (H2 : match stepped e with
               | Some (c, RJoin _ _ _) =>
                   match join_resp c (ev_outs e) with
                   | Some (_, sid, _, _) => join_snapshot_check cfg k12j 1200 i (spec_step sp e) c sid (ev_outs e)
                   | None => [] end
               | _ => []
               end = []).
  { destruct (stepped e) as [[c r]|] eqn:Hst; [|done]. destruct r; try done.
    destruct (step_stepped_join cfg st o c rid sid ots I Hst) as (hint&cn&q&st1&o1&v&->&Hc&Hc0&Ej&Es).
    set (st0 := upd_conn c (set_queue q) st) in *.
    assert (Hs0 : same_mem st st0) by (apply same_mem_upd_conn; by intros []).
    assert (I0 : inv st0) by by eapply inv_same_mem.
    assert (W0 : nowrap st0) by (eapply bounded_nowrap; [by eapply bounded_same_mem|done]).
    revert RC'. generalize (spec_step sp e). intros sp' RC'. unfold e, ev_of in *. rewrite Es in *. cbn [ev_outs fst snd] in *.
    destruct (join_resp c o1) as [[[[r' n] u] p']|] eqn:Hjr; [|done].
    destruct (join_shape cfg st0 c _ rid sid ots hint _ _ _ I0 W0 Hc0 Ej _ _ _ _ Hjr) as (S1&HS1&Hfirst).
    eapply join_snapshot_comps_ok; [exact Hfirst|]. symmetry. by eapply spec_comps_eq. }
  rewrite H1, H2. simpl.
  destruct o as [c|c r|c hint|sid|c|]; try (by apply snap_check_not_snap).
  unfold e, ev_of. cbn [step consumed fst snd]. by eapply snap_ok_12.
Qed.

(* ================= every history ================= *)
Lemma reachable_swf cfg h : short h → swf cfg (4 * N.of_nat (length h)) (final cfg h).
Proof. intros Hs sid SS HS. by apply (reachable_wf cfg h sid). Qed.

(* Deliverable 2a: the model's own trace is never flagged by P_C12 (all clauses) *)
Theorem model_passes_C12 cfg h : short h → P_C12 cfg (run cfg h) = [].
Proof.
  induction h as [|o h IH] using rev_ind; intros Hs; [done|].
  apply short_snoc in Hs as [Hs Hb]. unfold P_C12 in *. rewrite run_snoc, sscan_snoc, IH by done. simpl.
  assert (Hlen : N.of_nat (length h) < two32) by (unfold short in Hs; lia).
  destruct (reachable_inv cfg h state0 0 inv_state0 bounded_state0) as [I B]; [lia|].
  destruct (reachable_reg cfg h Hlen) as [G _].
  apply (c12_step_ok cfg (final cfg h) o (0 + N.of_nat (length h)) (4 * N.of_nat (length h)) (spec_after (run cfg h))); try done.
  - lia.
  - by apply reachable_own.
  - by apply reachable_swf.
  - by apply refinement_mem.
  - by apply refinement_ents.
  - by apply refinement_comps.
Qed.

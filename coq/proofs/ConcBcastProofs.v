(* proofs/ConcBcastProofs.v — invariants of the interleaving semantics of coq/ConcBcast.v, for ANY number of
   connections, ANY programs of the stated shape and EVERY schedule; the witness for the snapshot variant.
   Statements are collected in Properties/ConcBcast.v. *)
From hagall Require Import Base ConcBcast.
From Coq Require Import Lia.

(* ---------- schedules, steps ---------- *)
Lemma sched_run_app st σ1 σ2 : sched_run st (σ1 ++ σ2) = sched_run (sched_run st σ1) σ2.
Proof. apply fold_left_app. Qed.

Lemma step_cases st tid :
  step st tid = st ∨
  ∃ i rest m' cur' push evs,
    b_thr st !! tid = Some (i :: rest) ∧ exec i (b_sess st) (b_cur st) = (m', cur', push, evs) ∧
    step st tid = {| b_sess := m'; b_cur := cur'; b_thr := <[tid := push ++ rest]> (b_thr st);
                     b_log := b_log st ++ evs |}.
Proof.
  unfold step. destruct (b_thr st !! tid) as [[|i rest]|] eqn:HT; [by left| |by left].
  destruct (exec i (b_sess st) (b_cur st)) as [[[m' cur'] push] evs] eqn:Hex.
  right. exists i, rest, m', cur', push, evs. done.
Qed.

Ltac exec_inv Hex :=
  unfold exec in Hex;
  repeat match type of Hex with
         | context [match ?x with Some _ => _ | None => _ end] => destruct x eqn:?
         end;
  simplify_eq.

(* ---------- member sets ---------- *)
Lemma members_insert s X (m : sessions) s2 : members (<[s := X]> m) s2 = if decide (s2 = s) then X else members m s2.
Proof.
  unfold members. destruct (decide (s2 = s)) as [->|Hne]; [by rewrite lookup_insert|by rewrite lookup_insert_ne].
Qed.

Lemma members_add s c m s2 q : q ∈ members (add_member s c m) s2 ↔ (s2 = s ∧ q = c) ∨ q ∈ members m s2.
Proof.
  unfold add_member. rewrite members_insert. destruct (decide (s2 = s)) as [->|Hne]; [set_solver|naive_solver].
Qed.

Lemma members_del s c m s2 q : q ∈ members (del_member s c m) s2 ↔ q ∈ members m s2 ∧ ¬ (s2 = s ∧ q = c).
Proof.
  unfold del_member. rewrite members_insert. destruct (decide (s2 = s)) as [->|Hne]; [set_solver|naive_solver].
Qed.

Lemma members_empty s q : q ∉ members ∅ s.
Proof. unfold members. rewrite lookup_empty. simpl. set_solver. Qed.

Lemma members_after_app l l' : members_after (l ++ l') = fold_left apply_event l' (members_after l).
Proof. apply fold_left_app. Qed.

Lemma fold_delivers m s c tag qs : fold_left apply_event (map (λ q, EvDeliver q s c tag) qs) m = m.
Proof. induction qs as [|q qs IH]; simpl; [done|exact IH]. Qed.

(* a connection that is not a member of s does not become one unless it joins s *)
Lemma not_member_fold q s l : ∀ m, q ∉ members m s → EvJoined q s ∉ l → q ∉ members (fold_left apply_event l m) s.
Proof.
  induction l as [|ev l IH]; intros m Hq Hl; simpl; [done|].
  apply IH; [|intros H; apply Hl; by right].
  destruct ev as [c s'|c s'|? ? ? ?]; simpl; [| |done].
  - rewrite members_add. intros [[-> ->]|H]; [apply Hl; by left|done].
  - rewrite members_del. intros [H _]. done.
Qed.

(* ---------- the recipients ---------- *)
Lemma recipients_spec m s c q : q ∈ recipients m s c ↔ q ∈ members m s ∧ q ≠ c.
Proof. unfold recipients. rewrite elem_of_elements. set_solver. Qed.
Lemma recipients_NoDup m s c : NoDup (recipients m s c).
Proof. apply NoDup_elements. Qed.

Lemma addressed_go_spec m s c qs : ∀ h q,
  q ∈ addressed_go m s c qs h ↔ q ∈ qs ∧ q ∈ members m s ∧ q ≠ c ∧ q ∉ h.
Proof.
  induction qs as [|a qs IH]; intros h q; simpl.
  - split; [by intros ?%elem_of_nil|intros [?%elem_of_nil _]; done].
  - destruct (decide (a ∈ members m s ∧ a ≠ c ∧ a ∉ h)) as [(H1&H2&H3)|Hn].
    + rewrite elem_of_cons, IH, elem_of_cons. split.
      * intros [->|(?&?&?&?)]; [by auto|]. split; [by right|]. split; [done|]. split; [done|]. set_solver.
      * intros ([->|Hq]&?&?&?); [by left|]. destruct (decide (q = a)) as [->|Hne]; [by left|].
        right. split; [done|]. split; [done|]. split; [done|]. set_solver.
    + rewrite IH, elem_of_cons. split; [by intros (?&?&?&?); auto|].
      intros ([->|Hq]&?&?&?); [exfalso; apply Hn; done|done].
Qed.

Lemma addressed_go_NoDup m s c qs : ∀ h, NoDup (addressed_go m s c qs h).
Proof.
  induction qs as [|a qs IH]; intros h; simpl; [constructor|].
  destruct (decide (a ∈ members m s ∧ a ≠ c ∧ a ∉ h)) as [_|_]; [|apply IH].
  constructor; [|apply IH]. rewrite addressed_go_spec. intros (_&_&_&H). set_solver.
Qed.

Lemma addressed_spec m s c qs q : q ∈ addressed m s c qs ↔ q ∈ qs ∧ q ∈ members m s ∧ q ≠ c.
Proof. unfold addressed. rewrite addressed_go_spec. set_solver. Qed.
Lemma addressed_NoDup m s c qs : NoDup (addressed m s c qs).
Proof. apply addressed_go_NoDup. Qed.

(* ---------- predicates over a log, read from given member sets on ---------- *)
Section log_all.
  Context (P : sessions → event → Prop).
  Fixpoint log_all (m : sessions) (l : list event) : Prop :=
    match l with
    | [] => True
    | ev :: r => P m ev ∧ log_all (apply_event m ev) r
    end.
  Lemma log_all_app m l l' : log_all m (l ++ l') ↔ log_all m l ∧ log_all (fold_left apply_event l m) l'.
  Proof. revert m. induction l as [|ev l IH]; intros m; simpl; [tauto|]. rewrite IH. tauto. Qed.
  Lemma log_all_delivers m s c tag qs :
    (∀ q, q ∈ qs → P m (EvDeliver q s c tag)) → log_all m (map (λ q, EvDeliver q s c tag) qs).
  Proof.
    induction qs as [|q qs IH]; intros H; simpl; [done|]. split; [apply H; by left|].
    apply IH. intros q' Hq'. apply H. by right.
  Qed.
  Lemma log_all_at l1 ev l2 : log_all ∅ (l1 ++ [ev] ++ l2) → P (members_after l1) ev.
  Proof. rewrite log_all_app. simpl. intros (_&H&_). exact H. Qed.
End log_all.

(* a delivery goes to a member, from a member, not to the sender *)
Definition ev_del (m : sessions) (ev : event) : Prop :=
  match ev with
  | EvDeliver q s c _ => q ∈ members m s ∧ c ∈ members m s ∧ q ≠ c
  | _ => True
  end.
(* ... and a connection enters a session only while it is in none, and leaves a session it is in *)
Definition ev_ok (m : sessions) (ev : event) : Prop :=
  match ev with
  | EvDeliver q s c _ => q ∈ members m s ∧ c ∈ members m s ∧ q ≠ c
  | EvJoined c s => ∀ s2, c ∉ members m s2
  | EvLeft c s => c ∈ members m s
  end.

(* ---------- what one instruction does ---------- *)
Lemma exec_sess i m cur m' cur' push evs : exec i m cur = (m', cur', push, evs) → m' = fold_left apply_event evs m.
Proof. intros Hex. destruct i; exec_inv Hex; simpl; try done; by rewrite fold_delivers. Qed.

Lemma exec_atomic i m cur m' cur' push evs :
  instr_atomic i = true → exec i m cur = (m', cur', push, evs) → push = [].
Proof. intros Hi Hex. destruct i; simpl in Hi; try done; exec_inv Hex; done. Qed.

Lemma exec_cur_other i m cur m' cur' push evs c :
  exec i m cur = (m', cur', push, evs) → c ≠ conn_of i → cur' !! c = cur !! c.
Proof.
  intros Hex Hne. destruct i; exec_inv Hex; simpl in *; try done.
  - by rewrite lookup_delete_ne.
  - by rewrite lookup_insert_ne.
Qed.

Lemma exec_cur_mem i m cur m' cur' push evs :
  (∀ c s, cur !! c = Some s → c ∈ members m s) → exec i m cur = (m', cur', push, evs) →
  ∀ c s, cur' !! c = Some s → c ∈ members m' s.
Proof.
  intros Hcm Hex c s Hc. destruct i; exec_inv Hex; simpl in *; try (by apply Hcm).
  - apply lookup_delete_Some in Hc as [Hne Hc]. rewrite members_del. split; [by apply Hcm|].
    intros [_ ->]. done.
  - rewrite members_add. apply lookup_insert_Some in Hc as [[<- <-]|[Hne Hc]]; [by left|].
    right. by apply Hcm.
Qed.

Lemma exec_del i m cur m' cur' push evs :
  (∀ c s, cur !! c = Some s → c ∈ members m s) → instr_atomic i = true →
  exec i m cur = (m', cur', push, evs) → log_all ev_del m evs.
Proof.
  intros Hcm Hi Hex. destruct i; simpl in Hi; try done; exec_inv Hex; simpl; try done.
  - apply log_all_delivers. intros q [Hq Hne]%recipients_spec. simpl. split; [done|]. split; [by apply Hcm|done].
  - apply log_all_delivers. intros q (_&Hq&Hne)%addressed_spec. simpl. split; [done|]. split; [by apply Hcm|done].
Qed.

(* ---------- the invariant that holds for ANY programs with the atomic broadcasts ---------- *)
Record inv0 (st : bstate) : Prop := {
  i_sess : b_sess st = members_after (b_log st);
  i_cur_mem : ∀ c s, b_cur st !! c = Some s → c ∈ members (b_sess st) s;
  i_atomic : ∀ tid prog, b_thr st !! tid = Some prog → forallb instr_atomic prog = true;
  i_del : log_all ev_del ∅ (b_log st)
}.

Lemma inv0_step st tid : inv0 st → inv0 (step st tid).
Proof.
  intros [Hs Hcm Hat Hdel].
  destruct (step_cases st tid) as [->|(i&rest&m'&cur'&push&evs&HT&Hex&->)]; [done|].
  pose proof (Hat _ _ HT) as Ha. simpl in Ha. apply andb_true_iff in Ha as [Hai Har].
  pose proof (exec_atomic _ _ _ _ _ _ _ Hai Hex) as ->.
  split; simpl.
  - rewrite members_after_app, <- Hs. by eapply exec_sess.
  - by eapply exec_cur_mem.
  - intros j prog [(->&<-&Hlt)|[Hne Hj]]%list_lookup_insert_Some; [done|by eapply Hat].
  - apply log_all_app. split; [done|]. fold (members_after (b_log st)). rewrite <- Hs. by eapply exec_del.
Qed.

Lemma inv0_run σ : ∀ st, inv0 st → inv0 (sched_run st σ).
Proof. induction σ as [|a σ IH]; intros st H; simpl; [done|]. apply IH. by apply inv0_step. Qed.

Lemma inv0_init progs : uses_atomic_broadcast progs = true → inv0 (binit progs).
Proof.
  intros Hat. split; simpl; try done.
  intros tid prog Hp. unfold uses_atomic_broadcast in Hat. rewrite forallb_forall in Hat.
  apply Hat. rewrite <- elem_of_list_In. by eapply elem_of_list_lookup_2.
Qed.

Lemma inv0_reach progs σ : uses_atomic_broadcast progs = true → inv0 (sched_run (binit progs) σ).
Proof. intros H. apply inv0_run. by apply inv0_init. Qed.

(* ---------- the shape of the programs ---------- *)
(* where a thread stands: about to enter (then its connection is in no session), or anywhere else *)
Definition head_ok (cur : gmap N N) (prog : list instr) : Prop :=
  wf_from (match prog with IEnter c _ :: _ => Some c | _ => None end) prog = true ∧
  ∀ c s r, prog = IEnter c s :: r → cur !! c = None.

Lemma wf_head_None cur prog : wf_from None prog = true → head_ok cur prog.
Proof.
  intros H. destruct prog as [|i r]; [done|].
  destruct i; simpl in *; try (split; [exact H|intros; discriminate]).
  discriminate H.
Qed.

Lemma wf_head_Some cur c prog : wf_from (Some c) prog = true → cur !! c = None → head_ok cur prog.
Proof.
  intros H Hc. destruct prog as [|i r]; [done|].
  destruct i as [c0|c0 s0|c0 t0|c0 t0 qs0|c0 t0|c0 t0 qs0|c0 s0 q0 t0]; simpl in *;
    try (split; [exact H|intros; discriminate]).
  apply andb_true_iff in H as [H1 H2]. apply bool_decide_eq_true in H1. simplify_eq.
  split; simpl.
  - rewrite bool_decide_eq_true_2 by done. exact H2.
  - intros c1 s1 r1 Heq. simplify_eq. done.
Qed.

Lemma head_ok_other cur cur' prog :
  (∀ c, c ∈ parts prog → cur' !! c = cur !! c) → head_ok cur prog → head_ok cur' prog.
Proof.
  intros Hsame [H1 H2]. split; [done|]. intros c s r ->. rewrite Hsame; [by eapply H2|]. simpl. by left.
Qed.

Lemma head_ok_self i rest m cur m' cur' evs :
  instr_atomic i = true → head_ok cur (i :: rest) → exec i m cur = (m', cur', [], evs) → head_ok cur' rest.
Proof.
  intros Hi [Hwf Hhd] Hex.
  destruct i as [c0|c0 s0|c0 t0|c0 t0 qs0|c0 t0|c0 t0 qs0|c0 s0 q0 t0]; simpl in Hi; try done; simpl in Hwf.
  - apply (wf_head_Some _ c0); [done|]. exec_inv Hex; [by rewrite lookup_delete|done].
  - apply andb_true_iff in Hwf as [_ Hwf]. by apply wf_head_None.
  - by apply wf_head_None.
  - by apply wf_head_None.
Qed.

(* ---------- the invariant of well-formed programs ---------- *)
Record inv1 (st : bstate) : Prop := {
  j_mem_cur : ∀ c s, c ∈ members (b_sess st) s → b_cur st !! c = Some s;
  j_thr : ∀ tid prog, b_thr st !! tid = Some prog → head_ok (b_cur st) prog;
  j_disj : ∀ a b pa pb c, a ≠ b → b_thr st !! a = Some pa → b_thr st !! b = Some pb →
             c ∈ parts pa → c ∉ parts pb;
  j_log : log_all ev_ok ∅ (b_log st)
}.

Lemma exec_mem_cur i rest m cur m' cur' push evs :
  (∀ c s, c ∈ members m s → cur !! c = Some s) → head_ok cur (i :: rest) →
  exec i m cur = (m', cur', push, evs) → ∀ c s, c ∈ members m' s → cur' !! c = Some s.
Proof.
  intros Hmc [_ Hhd] Hex c s Hc. destruct i; exec_inv Hex; simpl in *; try (by apply Hmc).
  - apply members_del in Hc as [Hc Hn]. destruct (decide (c = c0)) as [->|Hne].
    + apply Hmc in Hc. exfalso. apply Hn. split; [congruence|done].
    + rewrite lookup_delete_ne by done. by apply Hmc.
  - specialize (Hhd _ _ _ eq_refl). apply members_add in Hc as [[-> ->]|Hc]; [by rewrite lookup_insert|].
    destruct (decide (c = c0)) as [->|Hne]; [apply Hmc in Hc; congruence|].
    rewrite lookup_insert_ne by done. by apply Hmc.
Qed.

Lemma exec_ok i rest m cur m' cur' push evs :
  (∀ c s, cur !! c = Some s → c ∈ members m s) → (∀ c s, c ∈ members m s → cur !! c = Some s) →
  instr_atomic i = true → head_ok cur (i :: rest) →
  exec i m cur = (m', cur', push, evs) → log_all ev_ok m evs.
Proof.
  intros Hcm Hmc Hi [_ Hhd] Hex. destruct i; simpl in Hi; try done; exec_inv Hex; simpl; try done.
  - split; [by apply Hcm|done].
  - split; [|done]. intros s2 Hc. apply Hmc in Hc. specialize (Hhd _ _ _ eq_refl). congruence.
  - apply log_all_delivers. intros q [Hq Hne]%recipients_spec. simpl. split; [done|]. split; [by apply Hcm|done].
  - apply log_all_delivers. intros q (_&Hq&Hne)%addressed_spec. simpl. split; [done|]. split; [by apply Hcm|done].
Qed.

Lemma inv1_step st tid : inv0 st → inv1 st → inv1 (step st tid).
Proof.
  intros [Hs Hcm Hat Hdel] [Hmc Hthr Hdisj Hlog].
  destruct (step_cases st tid) as [->|(i&rest&m'&cur'&push&evs&HT&Hex&->)]; [done|].
  pose proof (Hat _ _ HT) as Ha. simpl in Ha. apply andb_true_iff in Ha as [Hai Har].
  pose proof (exec_atomic _ _ _ _ _ _ _ Hai Hex) as ->.
  pose proof (Hthr _ _ HT) as Hhd.
  split; simpl.
  - by eapply exec_mem_cur.
  - intros j prog [(->&<-&Hlt)|[Hne Hj]]%list_lookup_insert_Some.
    + by eapply head_ok_self.
    + eapply head_ok_other; [|by eapply Hthr]. intros c Hc. eapply exec_cur_other; [exact Hex|].
      intros ->. apply (Hdisj j tid prog (i :: rest) (conn_of i)); [done|done|done|done|]. simpl. by left.
  - assert (Hsub : ∀ j prog c, <[tid := rest]> (b_thr st) !! j = Some prog → c ∈ parts prog →
                     ∃ prog0, b_thr st !! j = Some prog0 ∧ c ∈ parts prog0).
    { intros j prog c [(->&<-&Hlt)|[Hne Hj]]%list_lookup_insert_Some Hc.
      - exists (i :: rest). split; [done|]. simpl. by right.
      - by exists prog. }
    intros a b pa pb c Hab Ha Hb Hpa Hpb.
    destruct (Hsub _ _ _ Ha Hpa) as (pa0&Ha0&Hpa0). destruct (Hsub _ _ _ Hb Hpb) as (pb0&Hb0&Hpb0).
    by eapply (Hdisj a b).
  - apply log_all_app. split; [done|]. fold (members_after (b_log st)). rewrite <- Hs. by eapply exec_ok.
Qed.

Lemma inv01_run σ : ∀ st, inv0 st → inv1 st → inv0 (sched_run st σ) ∧ inv1 (sched_run st σ).
Proof.
  induction σ as [|a σ IH]; intros st H0 H1; simpl; [done|]. apply IH; [by apply inv0_step|by apply inv1_step].
Qed.

Lemma wellformed_disjoint progs i j pi pj p :
  wellformed progs = true → i ≠ j → progs !! i = Some pi → progs !! j = Some pj →
  p ∈ parts pi → p ∉ parts pj.
Proof.
  intros [_ H]%andb_true_iff Hne Hi Hj Hp.
  unfold threads_disjoint in H. rewrite forallb_forall in H.
  specialize (H (i, pi)). rewrite <- elem_of_list_In in H.
  specialize (H (elem_of_lookup_imap_2 pair progs pi i Hi)). rewrite forallb_forall in H.
  specialize (H (j, pj)). rewrite <- elem_of_list_In in H.
  specialize (H (elem_of_lookup_imap_2 pair progs pj j Hj)). simpl in H.
  apply orb_true_iff in H as [H|H]; [by apply Nat.eqb_eq in H|].
  rewrite forallb_forall in H. specialize (H p). rewrite <- elem_of_list_In in H. specialize (H Hp).
  apply negb_true_iff in H. by apply bool_decide_eq_false in H.
Qed.

Lemma inv1_init progs : wellformed progs = true → inv1 (binit progs).
Proof.
  intros Hwf. split; simpl; [| | |done].
  - intros c s Hc. by apply members_empty in Hc.
  - intros tid prog Hp. apply wf_head_None. apply andb_true_iff in Hwf as [H _].
    rewrite forallb_forall in H. apply H. rewrite <- elem_of_list_In. by eapply elem_of_list_lookup_2.
  - intros a b pa pb c. by apply wellformed_disjoint.
Qed.

Lemma reach progs σ :
  wellformed progs = true → uses_atomic_broadcast progs = true →
  inv0 (sched_run (binit progs) σ) ∧ inv1 (sched_run (binit progs) σ).
Proof. intros Hwf Hat. apply inv01_run; [by apply inv0_init|by apply inv1_init]. Qed.

(* ================================================================ the theorems ============================== *)
(* 1. every delivery is logged at a moment when receiver and sender are members of the session it is about,
      membership read off the log before it; that reading IS the state *)
Theorem conc_delivery_to_members_only progs :
  wellformed progs = true → uses_atomic_broadcast progs = true →
  ∀ σ, let st := sched_run (binit progs) σ in
  b_sess st = members_after (b_log st) ∧
  ∀ l1 q s c tag l2, b_log st = l1 ++ [EvDeliver q s c tag] ++ l2 →
    q ∈ members (members_after l1) s ∧ c ∈ members (members_after l1) s ∧ q ≠ c.
Proof.
  intros _ Hat σ st. destruct (inv0_reach progs σ Hat) as [Hs _ _ Hdel]. split; [exact Hs|].
  intros l1 q s c tag l2 Hl. fold st in Hdel. rewrite Hl in Hdel. by apply log_all_at in Hdel.
Qed.

(* the same for ANY programs that use the atomic broadcasts (no shape, connection ids may be shared) *)
Theorem conc_delivery_to_members_only_any progs :
  uses_atomic_broadcast progs = true →
  ∀ σ, let st := sched_run (binit progs) σ in
  b_sess st = members_after (b_log st) ∧
  ∀ l1 q s c tag l2, b_log st = l1 ++ [EvDeliver q s c tag] ++ l2 →
    q ∈ members (members_after l1) s ∧ c ∈ members (members_after l1) s ∧ q ≠ c.
Proof.
  intros Hat σ st. destruct (inv0_reach progs σ Hat) as [Hs _ _ Hdel]. split; [exact Hs|].
  intros l1 q s c tag l2 Hl. fold st in Hdel. rewrite Hl in Hdel. by apply log_all_at in Hdel.
Qed.

(* ... at the step itself: whatever a step delivers goes to members of the sender's current session as the
   state (and the log read so far) has them before AND after that step *)
Theorem conc_delivery_step progs :
  wellformed progs = true → uses_atomic_broadcast progs = true →
  ∀ σ tid, let st := sched_run (binit progs) σ in let st' := step st tid in
  members_after (b_log st) = b_sess st ∧
  ∃ evs, b_log st' = b_log st ++ evs ∧
    ∀ q s c tag, EvDeliver q s c tag ∈ evs →
      b_sess st' = b_sess st ∧ b_cur st' = b_cur st ∧ b_cur st !! c = Some s ∧
      q ∈ members (b_sess st) s ∧ c ∈ members (b_sess st) s ∧ q ≠ c ∧
      (∀ s2, q ∈ members (b_sess st) s2 → s2 = s).
Proof.
  intros Hwf Hat σ tid st st'. destruct (reach progs σ Hwf Hat) as [[Hs Hcm Hatm Hdel] [Hmc Hthr Hdisj Hlog]].
  fold st in Hs, Hcm, Hatm, Hmc. split; [done|]. subst st'.
  destruct (step_cases st tid) as [->|(i&rest&m'&cur'&push&evs&HT&Hex&->)].
  { exists []. split; [by rewrite app_nil_r|]. intros q s c tag H. by apply elem_of_nil in H. }
  exists evs. split; [done|]. intros q s c tag Hev. simpl.
  pose proof (Hatm _ _ HT) as Ha. simpl in Ha. apply andb_true_iff in Ha as [Hai _].
  assert (Hone : ∀ s2, q ∈ members (b_sess st) s → q ∈ members (b_sess st) s2 → s2 = s).
  { intros s2 H1 H2. apply Hmc in H1, H2. congruence. }
  destruct i; simpl in Hai; try done; exec_inv Hex;
    try (by apply elem_of_nil in Hev); try (by apply elem_of_list_singleton in Hev).
  - apply elem_of_list_fmap in Hev as (q'&Heq&[Hq Hne]%recipients_spec). simplify_eq.
    repeat (split; [done|]). split; [by apply Hcm|]. split; [done|]. intros s2. by apply Hone.
  - apply elem_of_list_fmap in Hev as (q'&Heq&(_&Hq&Hne)%addressed_spec). simplify_eq.
    repeat (split; [done|]). split; [by apply Hcm|]. split; [done|]. intros s2. by apply Hone.
Qed.

(* a connection is in at most one session, and that is the one its handler believes *)
Theorem conc_one_session progs :
  wellformed progs = true → uses_atomic_broadcast progs = true →
  ∀ σ, let st := sched_run (binit progs) σ in
  ∀ c s, c ∈ members (b_sess st) s ↔ b_cur st !! c = Some s.
Proof.
  intros Hwf Hat σ st c s. destruct (reach progs σ Hwf Hat) as [[_ Hcm _ _] [Hmc _ _ _]].
  split; [apply Hmc|apply Hcm].
Qed.

(* 2. no delivery to q in s between q's departure from s and its next join of s *)
Theorem conc_no_delivery_after_leave progs :
  wellformed progs = true → uses_atomic_broadcast progs = true →
  ∀ σ, let st := sched_run (binit progs) σ in
  ∀ l1 q s l2 c tag l3, b_log st = l1 ++ [EvLeft q s] ++ l2 ++ [EvDeliver q s c tag] ++ l3 →
    EvJoined q s ∈ l2.
Proof.
  intros Hwf Hat σ st l1 q s l2 c tag l3 Hl.
  destruct (decide (EvJoined q s ∈ l2)) as [Hin|Hnin]; [done|exfalso].
  destruct (conc_delivery_to_members_only progs Hwf Hat σ) as [_ H]. fold st in H.
  destruct (H (l1 ++ [EvLeft q s] ++ l2) q s c tag l3) as (Hq&_).
  { rewrite Hl. by rewrite <- !app_assoc. }
  revert Hq. rewrite app_assoc, members_after_app. apply not_member_fold; [|done].
  rewrite members_after_app. simpl. rewrite members_del. intros [_ Hn]. by apply Hn.
Qed.

(*    ... in particular none after q has joined another session s', until q joins s again *)
Theorem conc_no_delivery_after_move progs :
  wellformed progs = true → uses_atomic_broadcast progs = true →
  ∀ σ, let st := sched_run (binit progs) σ in
  ∀ l1 q s' l2 s c tag l3, b_log st = l1 ++ [EvJoined q s'] ++ l2 ++ [EvDeliver q s c tag] ++ l3 →
    s ≠ s' → EvJoined q s ∈ l2.
Proof.
  intros Hwf Hat σ st l1 q s' l2 s c tag l3 Hl Hne.
  destruct (decide (EvJoined q s ∈ l2)) as [Hin|Hnin]; [done|exfalso].
  destruct (conc_delivery_to_members_only progs Hwf Hat σ) as [_ H]. fold st in H.
  destruct (H (l1 ++ [EvJoined q s'] ++ l2) q s c tag l3) as (Hq&_).
  { rewrite Hl. by rewrite <- !app_assoc. }
  destruct (reach progs σ Hwf Hat) as [_ [_ _ _ Hlog]]. fold st in Hlog. rewrite Hl in Hlog.
  apply log_all_at in Hlog. simpl in Hlog.
  revert Hq. rewrite app_assoc, members_after_app. apply not_member_fold; [|done].
  rewrite members_after_app. simpl. rewrite members_add. intros [[? _]|Hq]; [done|]. by apply Hlog in Hq.
Qed.

(*    the shape of the log the two statements rest on: a connection enters a session only while it is in none
      (every EvJoined q _ but q's first is preceded by the EvLeft of the session q was in) *)
Theorem conc_join_only_when_out progs :
  wellformed progs = true → uses_atomic_broadcast progs = true →
  ∀ σ, let st := sched_run (binit progs) σ in
  ∀ l1 q s l2, b_log st = l1 ++ [EvJoined q s] ++ l2 → ∀ s2, q ∉ members (members_after l1) s2.
Proof.
  intros Hwf Hat σ st l1 q s l2 Hl.
  destruct (reach progs σ Hwf Hat) as [_ [_ _ _ Hlog]]. fold st in Hlog. rewrite Hl in Hlog.
  by apply log_all_at in Hlog.
Qed.

(* 3. exactly once *)
Lemma NoDup_delivers s c tag qs : NoDup qs → NoDup (map (λ q, EvDeliver q s c tag) qs).
Proof.
  intros H. assert (Hinj : Inj (=) (=) (λ q, EvDeliver q s c tag)) by (intros x y Heq; by simplify_eq).
  by apply (NoDup_fmap_2 _).
Qed.

Theorem conc_exactly_once progs :
  wellformed progs = true → uses_atomic_broadcast progs = true →
  ∀ σ tid c tag rest s, let st := sched_run (binit progs) σ in
  b_thr st !! tid = Some (IBroadcast c tag :: rest) → c ∈ members (b_sess st) s →
  ∃ l, b_log (step st tid) = b_log st ++ l ∧ b_sess (step st tid) = b_sess st ∧ NoDup l ∧
    ∀ ev, ev ∈ l ↔ ∃ q, ev = EvDeliver q s c tag ∧ q ∈ members (b_sess st) s ∧ q ≠ c.
Proof.
  intros Hwf Hat σ tid c tag rest s st HT Hc.
  destruct (reach progs σ Hwf Hat) as [_ [Hmc _ _ _]]. fold st in Hmc. apply Hmc in Hc.
  unfold step. rewrite HT. simpl. rewrite Hc. simpl.
  eexists. split; [done|]. split; [done|]. split; [apply NoDup_delivers, recipients_NoDup|].
  intros ev. rewrite elem_of_list_fmap. setoid_rewrite recipients_spec. naive_solver.
Qed.

Theorem conc_exactly_once_to progs :
  wellformed progs = true → uses_atomic_broadcast progs = true →
  ∀ σ tid c tag qs rest s, let st := sched_run (binit progs) σ in
  b_thr st !! tid = Some (IBroadcastTo c tag qs :: rest) → c ∈ members (b_sess st) s →
  ∃ l, b_log (step st tid) = b_log st ++ l ∧ b_sess (step st tid) = b_sess st ∧ NoDup l ∧
    ∀ ev, ev ∈ l ↔ ∃ q, ev = EvDeliver q s c tag ∧ q ∈ qs ∧ q ∈ members (b_sess st) s ∧ q ≠ c.
Proof.
  intros Hwf Hat σ tid c tag qs rest s st HT Hc.
  destruct (reach progs σ Hwf Hat) as [_ [Hmc _ _ _]]. fold st in Hmc. apply Hmc in Hc.
  unfold step. rewrite HT. simpl. rewrite Hc. simpl.
  eexists. split; [done|]. split; [done|]. split; [apply NoDup_delivers, addressed_NoDup|].
  intros ev. rewrite elem_of_list_fmap. setoid_rewrite addressed_spec. naive_solver.
Qed.

(* 4. the snapshot variant.  connection 0 = id 1 joins session 10 and addresses 2 with tag 7 (snapshot, then the
   delivery); connection 1 = id 2 joins session 10, then moves to session 20.  Schedule: both join 10; 1 takes
   its snapshot; 2 leaves 10 and enters 20; 1 delivers. *)
Definition w03_progs : list (list instr) :=
  [ move 1 10 ++ [IBcastToSnapshot 1 7 [2]]; move 2 10 ++ move 2 20 ].
Definition w03_sched : list nat := [0; 0; 1; 1; 0; 1; 1; 0]%nat.

Theorem conc_split_refuted :
  ∃ progs σ q s s' c tag l1 l2 l3, let st := sched_run (binit progs) σ in
    wellformed progs = true ∧ uses_atomic_broadcast progs = false ∧ complete st = true ∧
    b_log st = l1 ++ [EvJoined q s'] ++ l2 ++ [EvDeliver q s c tag] ++ l3 ∧
    s ≠ s' ∧ EvJoined q s ∉ l2 ∧
    is_member (members_after (l1 ++ [EvJoined q s'] ++ l2)) s q = false ∧
    is_member (b_sess st) s' q = true.
Proof.
  exists w03_progs, w03_sched, 2, 10, 20, 1, 7, [EvJoined 1 10; EvJoined 2 10; EvLeft 2 10], [], [].
  cbv zeta. split; [by vm_compute|]. split; [by vm_compute|]. split; [by vm_compute|].
  split; [by vm_compute|]. split; [by intros ?|]. split; [by intros ?%elem_of_nil|].
  split; by vm_compute.
Qed.

(* the atomic broadcast does not suffice if a join does not leave the current session first: connection 1 = id 2
   enters 10 and then 20 without RemoveParticipant on 10; it stays a member of 10 and is served there *)
Definition w03b_progs : list (list instr) :=
  [ move 1 10 ++ [IBroadcast 1 7]; move 2 10 ++ [IEnter 2 20] ].
Definition w03b_sched : list nat := [0; 0; 1; 1; 1; 0]%nat.

Theorem conc_needs_leave_first_refuted :
  ∃ progs σ q s s' c tag l1 l2 l3, let st := sched_run (binit progs) σ in
    uses_atomic_broadcast progs = true ∧ threads_disjoint progs = true ∧ wellformed progs = false ∧
    complete st = true ∧
    b_log st = l1 ++ [EvJoined q s'] ++ l2 ++ [EvDeliver q s c tag] ++ l3 ∧
    s ≠ s' ∧ EvJoined q s ∉ l2 ∧ b_cur st !! q = Some s'.
Proof.
  exists w03b_progs, w03b_sched, 2, 10, 20, 1, 7, [EvJoined 1 10; EvJoined 2 10], [], [].
  cbv zeta. split; [by vm_compute|]. split; [by vm_compute|]. split; [by vm_compute|].
  split; [by vm_compute|]. split; [by vm_compute|]. split; [by intros ?|]. split; [by intros ?%elem_of_nil|].
  by vm_compute.
Qed.

(* proofs/Refine3.v — the refinement extended to entities: the spec's entity table is the abstraction of
   the sessions' entity maps after every history.  The departure case rests on the agreement of a
   connection's own-set with the owner fields ([own_inv], proofs/Own.v). *)
From stdpp Require Import relations sorting.
From hagall Require Import Model Spec Obs Preds.
From hagall.proofs Require Import BaseLemmas Relay Inv Session Local Trans WF Mono Reach PC02 PC06 PC07 Own Refine Refine2.
From Coq Require Import Lia.

Definition ent_abs (eid : N) (e : entity) : ent_pb * bool := (ent_to_pb eid e, e_persist e).
Definition ents_at (st : state) (sid eid : N) : option entity := sessions st !! sid ≫= λ SS, s_ents SS !! eid.
Definition refines_ents (sp : spec) (st : state) : Prop :=
  ∀ sid eid, sp_ents sp !! (sid, eid) = ent_abs eid <$> ents_at st sid eid.

Lemma refines_ents_state0 : refines_ents spec0 state0.
Proof. intros sid eid. unfold ents_at. simpl. by rewrite !lookup_empty. Qed.

Lemma refines_ents_same sp sp' st st' :
  sp_ents sp' = sp_ents sp → (∀ sid eid, ents_at st' sid eid = ents_at st sid eid) →
  refines_ents sp st → refines_ents sp' st'.
Proof. intros H1 H2 R sid eid. by rewrite H1, H2. Qed.

(* ================= the spec side of a departure ================= *)
Lemma ents_remove_entities sid l sp s e :
  sp_ents (fold_right (sp_remove_entity sid) sp l) !! (s, e) =
  if bool_decide (s = sid ∧ e ∈ l) then None else sp_ents sp !! (s, e).
Proof.
  induction l as [|x l IH]; simpl.
  - rewrite bool_decide_eq_false_2; [done|]. intros [_ H]. by apply elem_of_nil in H.
  - change (sp_ents (sp_remove_entity sid x ?q)) with (delete (sid, x) (sp_ents q)).
    destruct (decide ((s, e) = (sid, x))) as [[= -> ->]|Hne].
    + rewrite lookup_delete. rewrite bool_decide_eq_true_2; [done|]. split; [done|by left].
    + rewrite lookup_delete_ne by done. rewrite IH. apply (f_equal (λ b : bool, if b then None else sp_ents sp !! (s, e))).
      apply bool_decide_ext. split; [intros [-> H]; split; [done|by right]|].
      intros [-> H]. split; [done|]. apply elem_of_cons in H as [->|H]; [done|done].
Qed.

Lemma elem_of_sp_gone sp sid p e :
  e ∈ sp_gone sp sid p ↔ ∃ ent, sp_ents sp !! (sid, e) = Some (ent, false) ∧ ep_owner ent = p.
Proof.
  unfold sp_gone. rewrite elem_of_sortN, elem_of_list_omap. split.
  - intros ([[s e'] [ent pe]]&Hin%elem_of_map_to_list&Hf). simpl in Hf.
    destruct (N.eqb_spec s sid) as [->|]; [|done]. destruct (N.eqb_spec (ep_owner ent) p) as [Ho|]; [|done].
    destruct pe; [done|]. simpl in Hf. injection Hf as ->. eauto.
  - intros (ent&H&Ho). exists ((sid, e), (ent, false)). split; [by apply elem_of_map_to_list|].
    simpl. rewrite N.eqb_refl. rewrite (proj2 (N.eqb_eq _ _) Ho). done.
Qed.

Lemma depart_ents sp c s e :
  sp_ents (depart sp c) !! (s, e) =
  match sp_mem sp !! c with
  | None => sp_ents sp !! (s, e)
  | Some (sid, p) =>
      if sp_live (set_mem (delete c) sp) sid then
        if bool_decide (s = sid ∧ e ∈ sp_gone sp sid p) then None else sp_ents sp !! (s, e)
      else if bool_decide (s = sid) then None else sp_ents sp !! (s, e)
  end.
Proof.
  unfold depart. destruct (sp_mem sp !! c) as [[sid p]|] eqn:E; [|done].
  pose proof (mproj_remove_entities sid (sp_gone sp sid p) sp) as Hm.
  pose proof (ents_remove_entities sid (sp_gone sp sid p) sp) as He.
  remember (fold_right (sp_remove_entity sid) sp (sp_gone sp sid p)) as sp1 eqn:E1. clear E1.
  unfold mproj in Hm. injection Hm as H1 _ _ _.
  match goal with |- context [sp_live ?x sid] => rewrite (sp_live_mem x (set_mem (delete c) sp) sid) by (simpl; by rewrite H1) end.
  destruct (sp_live (set_mem (delete c) sp) sid); simpl; [apply He|].
  case_bool_decide as Hs.
  - subst s. apply map_filter_lookup_None. right. intros x _. simpl. rewrite N.eqb_refl. simpl. by intros [].
  - rewrite map_filter_lookup. rewrite He. rewrite bool_decide_eq_false_2 by (by intros [? _]).
    destruct (sp_ents sp !! (s, e)) as [x|]; [|done]. simpl. rewrite option_guard_True; [done|].
    simpl. destruct (N.eqb_spec s sid); [done|done].
Qed.

(* ================= the model side of a departure ================= *)
Lemma ents_at_sessions st st' : sessions st' = sessions st → ∀ sid eid, ents_at st' sid eid = ents_at st sid eid.
Proof. intros H sid eid. unfold ents_at. by rewrite H. Qed.

Lemma leave_refines_ents cfg sp st c :
  inv st → own_inv st → refines_mem sp st → refines_ents sp st →
  refines_ents (depart sp c) (leave cfg st c).1.
Proof.
  intros I O R E. pose proof (inv_leave cfg st c I) as I1.
  destruct (leave_sessions cfg st c I) as [(cn&sid&p&SS&Hc&Hcur&HS&Hp&Es)|[Hnone Es]].
  2:{ rewrite Es. rewrite depart_none; [done|]. by rewrite (rm_mem _ _ R). }
  assert (Hcur0 : cur_of st c = Some (sid, p)) by (unfold cur_of; by rewrite Hc).
  pose proof (lp_cur _ _ _ _ _ (leave_projections cfg st c sid p I Hcur0)) as L1.
  remember (leave cfg st c).1 as st1 eqn:Est1. clear Est1.
  assert (Hm1 : ∀ c', sp_mem (set_mem (delete c) sp) !! c' = cur_of st1 c').
  { intros c'. simpl. rewrite L1. destruct (decide (c' = c)) as [->|Hne];
      [by rewrite lookup_delete|by rewrite lookup_delete_ne, (rm_mem _ _ R)]. }
  intros s e. rewrite depart_ents, (rm_mem _ _ R), Hcur0. unfold ents_at at 1. rewrite Es.
  case_decide as Hd.
  - (* the session ended *)
    rewrite (proj2 (live_false _ _ sid I1 Hm1)) by (by rewrite Es, lookup_delete).
    case_bool_decide as Hs; [subst; by rewrite lookup_delete|].
    rewrite lookup_delete_ne by done. apply E.
  - rewrite (proj2 (live_iff _ _ sid I1 Hm1)) by (rewrite Es, lookup_insert; eauto).
    destruct (decide (s = sid)) as [->|Hs].
    2:{ rewrite bool_decide_eq_false_2 by (by intros [? _]). rewrite lookup_insert_ne by done. apply E. }
    rewrite lookup_insert. simpl.
    destruct (left_fields cfg c p (c_own cn) SS) as (F1&_). rewrite F1.
    pose proof (E sid e) as Ee. unfold ents_at in Ee. rewrite HS in Ee. simpl in Ee.
    assert (Hb : bool_decide (sid = sid ∧ e ∈ sp_gone sp sid p) = bool_decide (removed (c_own cn) SS e)).
    { apply bool_decide_ext. rewrite elem_of_sp_gone, Ee. unfold removed. rewrite (O c cn sid p SS Hc Hcur HS e). split.
      - intros [_ (ent&Hent&Ho)]. destruct (s_ents SS !! e) as [en|]; [|done]. simpl in Hent.
        injection Hent as <- Hpe. simpl in Ho. split; eauto.
      - intros [(en&Hen&Ho) (en'&Hen'&Hpe)]. simplify_eq. split; [done|]. exists (ent_to_pb e en).
        rewrite Hen. simpl. unfold ent_abs. by rewrite Hpe. }
    rewrite Hb. destruct (bool_decide (removed (c_own cn) SS e)); [done|exact Ee].
Qed.

Lemma disconnect_refines_ents cfg sp st c :
  inv st → own_inv st → refines_mem sp st → refines_ents sp st →
  refines_ents (depart sp c) (disconnect cfg st c).1.
Proof.
  intros I O R E. unfold disconnect. pose proof (leave_refines_ents cfg sp st c I O R E) as E1.
  destruct (leave cfg st c) as [st1 o]. simpl in *.
  eapply refines_ents_same; [done| |exact E1]. by apply ents_at_sessions.
Qed.

(* ================= join ================= *)
Lemma join_refines_ents cfg st c cn rid s ots hint sp :
  inv st → nowrap st → own_inv st → refines_mem sp st → refines_ents sp st → conns st !! c = Some cn →
  ∀ st' outs v, Model.join cfg st c rid s ots hint = (st', outs, v) →
  refines_ents (match join_resp c outs with
                | Some (_, sid, uuid, pid) => enter_spec (depart sp c) c sid uuid pid
                | None => if has_error c E_NOT_FOUND outs then depart sp c else sp
                end) st'.
Proof.
  intros I W O R E Hc st' outs v. unfold Model.join. rewrite Hc.
  destruct (already_joined cn s) eqn:Haj.
  - intros [= <- <- <-]. unfold already_joined in Haj.
    destruct (c_cur cn) as [[cur p0]|] eqn:Hcur; [|done]. destruct s as [|n|k]; try done.
    set (mo := match sessions st !! cur with Some SS => module_join_msgs cfg c SS | None => [] end).
    assert (Hmo : plains mo). { unfold mo. destruct (sessions st !! cur); [apply plains_module_join|constructor]. }
    rewrite join_resp_cons_other by done. rewrite (join_resp_plain _ _ Hmo).
    replace (has_error c E_NOT_FOUND ((c, MError rid E_ALREADY_JOINED) :: mo)) with false; [done|].
    unfold has_error. simpl. rewrite N.eqb_refl. simpl. symmetry. by apply has_error_plain.
  - pose proof (leave_refines_ents cfg sp st c I O R E) as E1. pose proof (inv_leave cfg st c I) as I1.
    pose proof (leave_nowrap cfg st c I W) as W1. pose proof (plains_leave cfg st c) as P1.
    destruct (leave cfg st c) as [st1 o1]. simpl in *.
    assert (Hnotfound : ∀ outs, outs = o1 ++ [(c, MError rid E_NOT_FOUND)] →
      join_resp c outs = None ∧ has_error c E_NOT_FOUND outs = true).
    { intros ? ->. split. { rewrite join_resp_app_plain by done. by rewrite join_resp_cons_other. }
      rewrite has_error_app. unfold has_error at 2. simpl. rewrite N.eqb_refl. simpl. apply orb_true_r. }
    destruct s as [|n|k].
    + destruct (create_session hint st1) as [n st2] eqn:Hcr.
      destruct (create_session_proj _ _ _ _ I1 W1 Hcr) as (Hfresh&_).
      destruct (create_sessions _ _ _ _ Hcr) as [E2 _].
      destruct (c07_created_fresh _ _ _ _ Hcr) as [HS2 _].
      assert (Hn1 : sessions st1 !! n = None). { unfold parts_of in Hfresh. by destruct (sessions st1 !! n). }
      pose proof (enter_sessions cfg st2 c rid n ots _ HS2) as E3.
      rewrite (enter_eq cfg st2 c rid n ots _ HS2). cbv zeta. intros [= <- <- <-].
      rewrite join_resp_app_plain by done. unfold join_resp at 1. erewrite first_to_hit by reflexivity.
      eapply refines_ents_same; [reflexivity| |exact E1].
      intros s e. unfold ents_at. rewrite E3, E2. destruct (decide (s = n)) as [->|Hs].
      * rewrite lookup_insert, Hn1. simpl. by rewrite lookup_empty.
      * by rewrite !lookup_insert_ne.
    + destruct (sessions st1 !! n) as [SS|] eqn:HS.
      * pose proof (enter_sessions cfg st1 c rid n ots _ HS) as E3.
        rewrite (enter_eq cfg st1 c rid n ots SS HS). cbv zeta. intros [= <- <- <-].
        rewrite join_resp_app_plain by done. unfold join_resp at 1. erewrite first_to_hit by reflexivity.
        eapply refines_ents_same; [reflexivity| |exact E1].
        intros s e. unfold ents_at. rewrite E3. destruct (decide (s = n)) as [->|Hs].
        -- by rewrite lookup_insert, HS.
        -- by rewrite lookup_insert_ne.
      * intros [= <- <- <-]. destruct (Hnotfound _ eq_refl) as [-> ->]. exact E1.
    + intros [= <- <- <-]. destruct (Hnotfound _ eq_refl) as [-> ->]. exact E1.
Qed.

(* ================= requests other than join ================= *)
Definition is_ent_req (r : req) : bool :=
  match r with REntityAdd _ _ _ _ _ | REntityDelete _ _ _ | RPose _ _ _ => true | _ => false end.

Lemma ents_at_put st sid SS S1 c f :
  sessions st !! sid = Some SS → s_ents S1 = s_ents SS →
  ∀ s e, ents_at (upd_conn c f (put_session st sid S1)) s e = ents_at st s e.
Proof.
  intros HS H1 s e. unfold ents_at. simpl. destruct (decide (s = sid)) as [->|Hne].
  - rewrite lookup_insert, HS. simpl. by rewrite H1.
  - by rewrite lookup_insert_ne.
Qed.
Lemma ents_at_put' st sid SS S1 :
  sessions st !! sid = Some SS → s_ents S1 = s_ents SS →
  ∀ s e, ents_at (put_session st sid S1) s e = ents_at st s e.
Proof.
  intros HS H1 s e. unfold ents_at. simpl. destruct (decide (s = sid)) as [->|Hne].
  - rewrite lookup_insert, HS. simpl. by rewrite H1.
  - by rewrite lookup_insert_ne.
Qed.

Lemma spec_request_ents_other sp c sid p r outs :
  is_ent_req r = false → sp_ents (spec_request sp c sid p r outs) = sp_ents sp.
Proof. intros H. destruct r; try discriminate H; simpl; repeat case_match; reflexivity. Qed.

Lemma handle_joined_ents_other cfg st c cn sid p SS r hint st' o v :
  is_ent_req r = false → is_join r = false → sessions st !! sid = Some SS →
  handle_joined cfg st c cn sid p SS r hint = (st', o, v) →
  ∀ s e, ents_at st' s e = ents_at st s e.
Proof.
  intros He Hj HS H. destruct r; try discriminate He; try discriminate Hj; simpl in H.
  all: try (repeat case_match; simplify_eq; try reflexivity;
            first [by apply (ents_at_put' st sid SS)|by apply (ents_at_put st sid SS)]; fail).
  apply ents_at_sessions. pose proof (on_ping_sessions st c cn rid) as E. by rewrite H in E.
Qed.

Lemma pair_ne_r {A B} (a : A) (b b' : B) : b ≠ b' → (a, b) ≠ (a, b').
Proof. congruence. Qed.
Lemma pair_ne_l {A B} (a a' : A) (b b' : B) : a ≠ a' → (a, b) ≠ (a', b').
Proof. congruence. Qed.

(* one session's entity map replaced: the entity table changes at that session only *)
Lemma refines_ents_update sp sp' st st' sid SS S1 :
  sessions st !! sid = Some SS → sessions st' = <[sid := S1]> (sessions st) →
  refines_ents sp st →
  (∀ s e, s ≠ sid → sp_ents sp' !! (s, e) = sp_ents sp !! (s, e)) →
  (∀ e, sp_ents sp' !! (sid, e) = ent_abs e <$> s_ents S1 !! e) →
  refines_ents sp' st'.
Proof.
  intros HS Es E H1 H2 s e. unfold ents_at. rewrite Es. destruct (decide (s = sid)) as [->|Hne].
  - rewrite lookup_insert. simpl. apply H2.
  - rewrite lookup_insert_ne by done. rewrite H1 by done. apply E.
Qed.

Lemma handle_joined_ents_req cfg st c cn sid p SS r hint st' o v sp :
  is_ent_req r = true → sessions st !! sid = Some SS → refines_ents sp st →
  handle_joined cfg st c cn sid p SS r hint = (st', o, v) →
  refines_ents (spec_request sp c sid p r o) st'.
Proof.
  intros Hr HS E H.
  assert (Ee : ∀ e, sp_ents sp !! (sid, e) = ent_abs e <$> s_ents SS !! e).
  { intros e. rewrite (E sid e). unfold ents_at. by rewrite HS. }
  destruct r; try discriminate Hr; simpl in H.
  - (* entity add *)
    injection H as <- <- <-. unfold spec_request. erewrite first_to_hit by (by rewrite N.eqb_refl).
    eapply (refines_ents_update sp _ st _ sid SS); [exact HS|reflexivity|exact E| |].
    + intros s e Hs. simpl. by rewrite lookup_insert_ne by (by apply pair_ne_l).
    + intros e. simpl. destruct (decide (e = u32_succ (s_egen SS))) as [->|Hne].
      * by rewrite !lookup_insert.
      * rewrite lookup_insert_ne by (by apply pair_ne_r). rewrite lookup_insert_ne by done. apply Ee.
  - (* entity delete *)
    destruct (s_ents SS !! eid) as [ent|] eqn:Hent.
    + destruct (negb (e_owner ent =? p)) eqn:Ho.
      * injection H as <- <- <-. unfold spec_request, has_msg. simpl. rewrite andb_false_r. exact E.
      * injection H as <- <- <-. unfold spec_request, has_msg. cbn [existsb fst snd]. rewrite !N.eqb_refl. simpl.
        set (S1 := set_ents (delete eid) (set_store (store_delete_entity eid) SS)).
        pose proof (cleanup_modules_fields cfg eid S1) as (_&_&_&_&_&F6&_).
        eapply (refines_ents_update sp _ st _ sid SS); [exact HS|reflexivity|exact E| |].
        -- intros s e Hs. simpl. by rewrite lookup_delete_ne by (by apply pair_ne_l).
        -- intros e. rewrite F6. simpl. destruct (decide (e = eid)) as [->|Hne].
           ++ by rewrite !lookup_delete.
           ++ rewrite lookup_delete_ne by (by apply pair_ne_r). rewrite lookup_delete_ne by done. apply Ee.
    + injection H as <- <- <-. unfold spec_request, has_msg. simpl. rewrite andb_false_r.
      pose proof (cleanup_modules_fields cfg eid SS) as (_&_&_&_&_&F6&_).
      eapply refines_ents_same; [reflexivity| |exact E]. by apply (ents_at_put' st sid SS).
  - (* pose *)
    unfold spec_request, pose_accepted. rewrite (Ee eid).
    destruct (s_ents SS !! eid) as [ent|] eqn:Hent; simpl.
    2:{ destruct p0; injection H as <- <- <-; exact E. }
    destruct p0 as [ps|]; [|injection H as <- <- <-; exact E].
    destruct (e_owner ent =? p) eqn:Ho; simpl in H; injection H as <- <- <-; [|exact E].
    eapply (refines_ents_update sp _ st _ sid SS); [exact HS|reflexivity|exact E| |].
    + intros s e Hs. simpl. by rewrite lookup_insert_ne by (by apply pair_ne_l).
    + intros e. simpl. destruct (decide (e = eid)) as [->|Hne].
      * by rewrite !lookup_insert.
      * rewrite lookup_insert_ne by (by apply pair_ne_r). rewrite lookup_insert_ne by done. apply Ee.
Qed.

Lemma handle_err_same cfg st c r hint st' o :
  is_join r = false → handle cfg st c r hint = (st', o, VErr) → sessions st' = sessions st ∧ conns st' = conns st.
Proof.
  intros Hj. unfold handle. destruct (conns st !! c) as [cn|]; [|by intros [= <- _]].
  destruct (c_cur cn) as [[sid p]|].
  - destruct (sessions st !! sid) as [SS|]; [|by intros [= <- _]].
    intros H. destruct r; try discriminate Hj; simpl in H.
    all: try (unfold send_ping in H; repeat case_match; simplify_eq; done).
    by apply on_ping_outs in H as [_ ?].
  - intros H. destruct r; try discriminate Hj; simpl in H; repeat case_match; simplify_eq; done.
Qed.

Lemma own_inv_conns st st' : sessions st' = sessions st → conns st' = conns st → own_inv st → own_inv st'.
Proof. intros H1 H2. apply own_inv_ext; [done|]. intros c. unfold mem_of. by rewrite H2. Qed.

Lemma spec_step_skip sp o :
  (match o with ODisconnect _ => False | _ => True end) →
  spec_step sp {| ev_op := o; ev_req := None; ev_outs := []; ev_verdict := VSkip |} = sp.
Proof. by destruct o. Qed.

Lemma join_verdict cfg st c cn rid s ots hint :
  conns st !! c = Some cn → (Model.join cfg st c rid s ots hint).2 = VOk.
Proof.
  intros Hc. unfold Model.join. rewrite Hc. destruct (already_joined cn s); [done|].
  destruct (leave cfg st c) as [st1 o1]. destruct s as [|n|k]; [| |done].
  - destruct (create_session hint st1) as [n st2] eqn:Hcr.
    destruct (c07_created_fresh _ _ _ _ Hcr) as [HS2 _]. by rewrite (enter_eq cfg st2 c rid n ots _ HS2).
  - destruct (sessions st1 !! n) as [SS|] eqn:HS; [|done]. by rewrite (enter_eq cfg st1 c rid n ots SS HS).
Qed.

Lemma step_sim_ents cfg st o k sp :
  inv st → bounded k st → k + 1 < two32 → own_inv st → refines_mem sp st → refines_ents sp st →
  refines_ents (spec_step sp (ev_of st o (step cfg st o))) (step cfg st o).1.1.
Proof.
  intros I B Hk O R E. pose proof (bounded_nowrap _ _ B Hk) as W.
  destruct o as [c|c r|c hint|sid|c|]; unfold ev_of; cbn [step consumed].
  - (* connect *)
    destruct (conns st !! c) as [cn|] eqn:Hc; [by rewrite spec_step_skip|]. exact E.
  - (* send *)
    unfold dispatch. destruct (conns st !! c) as [cn|] eqn:Hc; [|by rewrite spec_step_skip].
    destruct (c_open cn) eqn:Ho; [|by rewrite spec_step_skip]. cbn [negb].
    destruct r; try exact E.
    cbn match. destruct (ty =? 14); [|exact E].
    pose proof (disconnect_refines_ents cfg sp st c I O R E) as E1.
    destruct (disconnect cfg st c) as [st1 o1]. exact E1.
  - (* step *)
    destruct (conns st !! c) as [cn|] eqn:Hc; [|by rewrite spec_step_skip].
    destruct (c_open cn) eqn:Ho; [|by rewrite spec_step_skip]. cbn [negb].
    destruct (c_queue cn) as [|r q] eqn:Hq; [by rewrite spec_step_skip|]. cbn [head].
    set (st0 := upd_conn c (set_queue q) st).
    assert (Hs0 : same_mem st st0) by (apply same_mem_upd_conn; by intros []).
    assert (I0 : inv st0) by by eapply inv_same_mem.
    assert (B0 : bounded k st0) by by eapply bounded_same_mem.
    assert (W0 : nowrap st0) by by eapply bounded_nowrap.
    assert (R0 : refines_mem sp st0) by (eapply refines_same; [apply same_all_upd_conn; by intros []|exact R]).
    assert (E0 : refines_ents sp st0) by exact E.
    assert (O0 : own_inv st0).
    { eapply own_inv_ext; [| |exact O]; [done|]. intros c'. apply mem_of_upd_conn; by intros []. }
    assert (Hc0 : conns st0 !! c = Some (set_queue q cn)).
    { unfold st0, upd_conn. simpl. rewrite Hc. by rewrite lookup_insert. }
    assert (Ho0 : open_of st0 c = Some true) by (unfold open_of; rewrite Hc0; simpl; by rewrite Ho).
    destruct (is_join r) eqn:Hj.
    + destruct r; try discriminate Hj.
      assert (Hh : handle cfg st0 c (RJoin rid sid ots) hint = Model.join cfg st0 c rid sid ots hint).
      { unfold handle. rewrite Hc0. destruct (c_cur (set_queue q cn)) as [[s p]|] eqn:Hcur; [|done].
        assert (Hcur0 : cur_of st0 c = Some (s, p)) by (unfold cur_of; by rewrite Hc0).
        destruct (live_session _ _ (inv_live _ I0 _ _ _ Hcur0)) as [SS HS]. by rewrite HS. }
      rewrite Hh. destruct (Model.join cfg st0 c rid sid ots hint) as [[st1 o1] v] eqn:Ej.
      pose proof (join_verdict cfg st0 c _ rid sid ots hint Hc0) as Hv. rewrite Ej in Hv. simpl in Hv. subst v.
      cbn [fst snd]. rewrite spec_step_join.
      exact (join_refines_ents cfg st0 c _ rid sid ots hint sp I0 W0 O0 R0 E0 Hc0 _ _ _ Ej).
    + destruct (handle cfg st0 c r hint) as [[st1 o1] v] eqn:Eh.
      destruct (handle_nonjoin cfg st0 c _ r hint _ _ _ I0 Hc0 Hj Eh) as (S1&N1&V1&V2).
      assert (R1 : refines_mem sp st1) by (by eapply refines_same).
      assert (I1 : inv st1).
      { pose proof (handle_inv cfg st0 c r hint k I0 B0 Hk Ho0) as [I1 _]. by rewrite Eh in I1. }
      destruct v; try done.
      * (* answered *)
        cbn [fst snd]. unfold spec_step. cbn [ev_op ev_verdict ev_req ev_outs].
        assert (Hgen : refines_ents (match sp_mem sp !! c with
                                     | Some (s, p) => spec_request sp c s p r o1 | None => sp end) st1).
        { rewrite (rm_mem _ _ R0). unfold cur_of. rewrite Hc0. simpl.
          unfold handle in Eh. rewrite Hc0 in Eh. change (c_cur (set_queue q cn)) with (c_cur cn) in Eh.
          destruct (c_cur cn) as [[s p]|] eqn:Hcur.
          - assert (Hcur0 : cur_of st0 c = Some (s, p)) by (unfold cur_of; rewrite Hc0; exact Hcur).
            destruct (live_session _ _ (inv_live _ I0 _ _ _ Hcur0)) as [SS HS]. rewrite HS in Eh.
            destruct (is_ent_req r) eqn:Her.
            + by eapply handle_joined_ents_req.
            + eapply refines_ents_same; [by apply spec_request_ents_other| |exact E0].
              by eapply handle_joined_ents_other.
          - eapply refines_ents_same; [reflexivity| |exact E0]. apply ents_at_sessions.
            pose proof (handle_unjoined_other cfg st0 c (set_queue q cn) r hint Hj) as Hx. by rewrite Eh in Hx. }
        destruct r; try exact Hgen. discriminate Hj.
      * (* handler error *)
        destruct (handle_err_same cfg st0 c r hint _ _ Hj Eh) as [Hs1 Hc1].
        assert (E1 : refines_ents sp st1) by (eapply refines_ents_same; [reflexivity|by apply ents_at_sessions|exact E0]).
        assert (O1 : own_inv st1) by (by eapply own_inv_conns).
        pose proof (disconnect_refines_ents cfg sp st1 c I1 O1 R1 E1) as E2.
        destruct (disconnect cfg st1 c) as [st2 o2]. exact E2.
  - (* tick *)
    cbn [fst snd]. eapply refines_ents_same; [reflexivity| |exact E]. apply ents_at_sessions, tick_sessions.
  - (* disconnect *)
    assert (Hnone : cur_of st c = None →
      refines_ents (spec_step sp {| ev_op := ODisconnect c; ev_req := None; ev_outs := []; ev_verdict := VSkip |}) st).
    { intros Hcur. unfold spec_step. cbn [ev_op]. rewrite depart_none; [done|]. by rewrite (rm_mem _ _ R). }
    destruct (conns st !! c) as [cn|] eqn:Hc; [|apply Hnone; unfold cur_of; by rewrite Hc].
    destruct (c_open cn) eqn:Ho; cbn [negb].
    2:{ apply Hnone. apply (inv_open _ I). unfold open_of. rewrite Hc. simpl. by rewrite Ho. }
    pose proof (disconnect_refines_ents cfg sp st c I O R E) as E1.
    destruct (disconnect cfg st c) as [st1 o1]. exact E1.
  - (* snapshot *)
    exact E.
Qed.

(* ================= every history ================= *)
Lemma run_snoc cfg h o :
  run cfg (h ++ [o]) = run cfg h ++ [ev_of (final cfg h) o (step cfg (final cfg h) o)].
Proof.
  unfold run, final. rewrite run_from_app. destruct (run_from cfg state0 h) as [t1 st1]. simpl.
  unfold ev_of. by destruct (step cfg st1 o) as [[st2 outs] v].
Qed.
Lemma spec_after_snoc cfg h o :
  spec_after (run cfg (h ++ [o])) = spec_step (spec_after (run cfg h)) (ev_of (final cfg h) o (step cfg (final cfg h) o)).
Proof. unfold spec_after. rewrite run_snoc, fold_left_app. done. Qed.

(* Deliverable 3: the spec's entity table is the abstraction of the sessions' entity maps after every history *)
Theorem refinement_ents cfg h : short h → refines_ents (spec_after (run cfg h)) (final cfg h).
Proof.
  induction h as [|o h IH] using rev_ind; intros Hs; [apply refines_ents_state0|].
  apply short_snoc in Hs as [Hs Hb]. rewrite spec_after_snoc, final_snoc.
  destruct (reachable_inv cfg h state0 0 inv_state0 bounded_state0) as [I B]; [unfold short in Hs; lia|].
  apply (step_sim_ents cfg (final cfg h) o (0 + N.of_nat (length h))); try done.
  - lia.
  - by apply reachable_own.
  - by apply refinement_mem.
  - by apply IH.
Qed.

(* the same with the ownership invariant as an explicit premise on every prefix (independent of proofs/Own.v's theorem) *)
Theorem refinement_ents_premise cfg h :
  short h → (∀ h1 h2, h = h1 ++ h2 → own_inv (final cfg h1)) →
  refines_ents (spec_after (run cfg h)) (final cfg h).
Proof.
  induction h as [|o h IH] using rev_ind; intros Hs HO; [apply refines_ents_state0|].
  apply short_snoc in Hs as [Hs Hb]. rewrite spec_after_snoc, final_snoc.
  destruct (reachable_inv cfg h state0 0 inv_state0 bounded_state0) as [I B]; [unfold short in Hs; lia|].
  apply (step_sim_ents cfg (final cfg h) o (0 + N.of_nat (length h))); try done.
  - lia.
  - by apply (HO h [o]).
  - by apply refinement_mem.
  - apply IH; [done|]. intros h1 h2 ->. apply (HO h1 (h2 ++ [o])). by rewrite app_assoc.
Qed.

(* proofs/Refine5.v — a third consumer of the membership refinement: the model's own traces are never
   flagged by P_C14 (custom messages reach exactly the addressed members; Obs.v), all clauses 1401-1405. *)
From stdpp Require Import relations sorting.
From hagall Require Import Model Spec Obs Preds.
From hagall.proofs Require Import BaseLemmas Relay Inv Session Local Trans WF Mono Reach PC02 PC06 PC07 PC14 Own Refine Refine2 Refine3.
From Coq Require Import Lia.

(* ================= sorted lines are determined by the multiset of lines ================= *)
Definition lle (a b : list Z) : Prop := lex_leb a b = true.

Lemma lex_leb_total a b : lex_leb a b = false → lex_leb b a = true.
Proof.
  revert b. induction a as [|x a IH]; intros [|y b]; simpl; try done.
  destruct (Z.ltb_spec x y) as [H|H]; [done|]. destruct (Z.ltb_spec y x) as [H'|H']; [done|].
  apply IH.
Qed.
Global Instance lle_trans : Transitive lle.
Proof.
  unfold lle. intros a. induction a as [|x a IH]; intros [|y b] [|z c]; simpl; try done.
  destruct (Z.ltb_spec x y) as [H1|H1].
  - intros _. destruct (Z.ltb_spec y z) as [H2|H2].
    + intros _. by rewrite (proj2 (Z.ltb_lt x z)) by lia.
    + destruct (Z.ltb_spec z y) as [H3|H3]; [done|]. intros _. by rewrite (proj2 (Z.ltb_lt x z)) by lia.
  - destruct (Z.ltb_spec y x) as [H1'|H1']; [done|]. assert (x = y) as -> by lia. intros Hab.
    destruct (Z.ltb_spec y z) as [H2|H2]; [done|]. destruct (Z.ltb_spec z y) as [H3|H3]; [done|]. by apply IH.
Qed.
Global Instance lle_antisym : AntiSymm (=) lle.
Proof.
  unfold lle. intros a. induction a as [|x a IH]; intros [|y b]; simpl; try done.
  destruct (Z.ltb_spec x y) as [H1|H1].
  - intros _. by rewrite (proj2 (Z.ltb_ge y x)) by lia.
  - destruct (Z.ltb_spec y x) as [H1'|H1']; [done|]. assert (x = y) as -> by lia.
    intros H1'' H2. f_equal. by apply IH.
Qed.

Lemma insert_sorted_lle x l : Sorted lle l → Sorted lle (insert_sorted lex_leb x l).
Proof.
  induction l as [|y l IH]; intros Hl; simpl; [by repeat constructor|].
  destruct (lex_leb x y) eqn:E.
  - constructor; [done|by constructor].
  - apply lex_leb_total in E. inversion Hl as [|? ? Hl' Hhd]; subst. constructor; [by apply IH|].
    destruct l as [|z l]; simpl; [by constructor|].
    destruct (lex_leb x z); constructor; [done|]. by inversion Hhd.
Qed.
Lemma sort_lines_Sorted l : Sorted lle (sort_lines l).
Proof. induction l as [|x l IH]; simpl; [constructor|]. by apply insert_sorted_lle. Qed.
Lemma sort_lines_perm l1 l2 : l1 ≡ₚ l2 → sort_lines l1 = sort_lines l2.
Proof.
  intros H. apply (Sorted_unique lle); [apply sort_lines_Sorted|apply sort_lines_Sorted|].
  unfold sort_lines. by rewrite !isort_perm.
Qed.

(* ================= the membership observer of Obs.v is the spec's membership table ================= *)
Lemma find_join_resp_eq c outs :
  find_join_resp c outs = (λ x : N * N * N * N, (x.1.1.2, x.2)) <$> join_resp c outs.
Proof.
  unfold find_join_resp, join_resp, first_to. induction outs as [|[c' m] l IH]; simpl; [done|].
  destruct m; simpl; try exact IH; try (destruct (c' =? c); exact IH).
  destruct (c' =? c); [done|exact IH].
Qed.

Lemma sp_mem_spec_request sp c s p r o : sp_mem (spec_request sp c s p r o) = sp_mem sp.
Proof. pose proof (mproj_spec_request sp c s p r o) as Hm. unfold mproj in Hm. by injection Hm. Qed.

Lemma obs_step_spec sp e : ev_verdict e ≠ VPanic → obs_step (sp_mem sp) e = sp_mem (spec_step sp e).
Proof.
  intros Hv. unfold obs_step, spec_step. destruct (ev_op e) as [c|c r|c hint|sid|c|]; try done.
  - destruct (ev_verdict e); try done. by destruct (depart_mproj sp c) as (->&_).
  - destruct (ev_verdict e) eqn:Ev; try done.
    2:{ by destruct (depart_mproj sp c) as (->&_). }
    all: destruct (ev_req e) as [r|]; [|done]; destruct r; try done.
    all: try (destruct (sp_mem sp !! c) as [[? ?]|]; [|done]; by rewrite sp_mem_spec_request).
    all: rewrite find_join_resp_eq; destruct (join_resp c (ev_outs e)) as [[[[? ?] ?] ?]|]; simpl;
      [destruct (depart_mproj sp c) as (->&_); by rewrite insert_delete_insert|];
      destruct (has_error c E_NOT_FOUND (ev_outs e)); [by destruct (depart_mproj sp c) as (->&_)|done].
  - by destruct (depart_mproj sp c) as (->&_).
Qed.

(* ================= one custom message ================= *)
Lemma elem_of_List_filter {A} (f : A → bool) l x : x ∈ List.filter f l ↔ f x = true ∧ x ∈ l.
Proof. rewrite !elem_of_list_In, filter_In. tauto. Qed.
Lemma NoDup_List_filter {A} (f : A → bool) l : NoDup l → NoDup (List.filter f l).
Proof. rewrite !NoDup_ListNoDup. apply List.NoDup_filter. Qed.
Lemma List_filter_all {A} (f : A → bool) l : Forall (λ x, f x = true) l → List.filter f l = l.
Proof. induction 1 as [|x l Hx _ IH]; simpl; [done|]. by rewrite Hx, IH. Qed.

Definition c14_targets (m : members) (sid p : N) (rcpts : list N) : list (N * N) :=
  match rcpts with
  | [] => List.filter (λ pc, negb (fst pc =? p)) (members_of m sid)
  | _ => List.filter (λ pc, negb (fst pc =? p) && memN (fst pc) rcpts) (members_of m sid)
  end.
Lemma c14_expected_eq m sid p rcpts body ots :
  c14_expected m sid p rcpts body ots =
  sort_lines (map enc_delivery (map (λ pc : N * N, (snd pc, MCustomB ots p body)) (c14_targets m sid p rcpts))).
Proof. unfold c14_expected, c14_targets. rewrite map_map. by destruct rcpts. Qed.

Lemma members_of_eq m sid : members_of m sid = sort_by (λ pc, [zn (fst pc)]) (mem_pairs m sid).
Proof. done. Qed.
Lemma elem_of_members_of m sid q cq : (q, cq) ∈ members_of m sid ↔ m !! cq = Some (sid, q).
Proof. rewrite members_of_eq, elem_of_sort_by. apply elem_of_mem_pairs. Qed.
Lemma NoDup_members_of m sid : NoDup (members_of m sid).
Proof. rewrite members_of_eq. unfold sort_by. apply NoDup_isort, NoDup_mem_pairs. Qed.

Lemma elem_of_c14_targets m sid p rcpts q cq :
  (q, cq) ∈ c14_targets m sid p rcpts ↔ m !! cq = Some (sid, q) ∧ q ≠ p ∧ (rcpts = [] ∨ q ∈ rcpts).
Proof.
  unfold c14_targets. destruct rcpts as [|r rs]; rewrite elem_of_List_filter, elem_of_members_of; simpl.
  - destruct (N.eqb_spec q p); simpl; naive_solver.
  - destruct (N.eqb_spec q p); simpl; [naive_solver|]. rewrite <- (memN_elem q (r :: rs)). simpl.
    destruct (q =? r) eqn:Eq; simpl; [naive_solver|]. destruct (existsb (N.eqb q) rs); naive_solver.
Qed.
Lemma NoDup_c14_targets m sid p rcpts : NoDup (c14_targets m sid p rcpts).
Proof. unfold c14_targets. destruct rcpts; apply NoDup_List_filter, NoDup_members_of. Qed.

Lemma c14_event_ok cfg st o k m i :
  inv st → bounded k st → k + 1 < two32 → (∀ c, m !! c = cur_of st c) →
  P_C14_event cfg i m (ev_of st o (step cfg st o)) = [].
Proof.
  intros I B Hk Hm. unfold P_C14_event, ev_of. destruct o as [c|c r|c hint|sid|c|]; try reflexivity.
  cbn [ev_op ev_req consumed step].
  destruct (conns st !! c) as [cn|] eqn:Hc; [|reflexivity].
  destruct (c_open cn) eqn:Ho; [|reflexivity]. cbn [negb].
  destruct (c_queue cn) as [|r q] eqn:Hq; [reflexivity|]. cbn [head].
  destruct r as [| | | | | | |rcpts body ots| | | | | | | | | | | | | | | |]; try reflexivity.
  set (st0 := upd_conn c (set_queue q) st).
  assert (Hs0 : same_mem st st0) by (apply same_mem_upd_conn; by intros []).
  assert (I0 : inv st0) by by eapply inv_same_mem.
  assert (Hc0 : conns st0 !! c = Some (set_queue q cn)).
  { unfold st0, upd_conn. simpl. rewrite Hc. by rewrite lookup_insert. }
  rewrite (Hm c). unfold cur_of. rewrite Hc. simpl.
  destruct (c_cur cn) as [[sid p]|] eqn:Hcur.
  - (* a member *)
    assert (Hcur0 : cur_of st0 c = Some (sid, p)) by (unfold cur_of; rewrite Hc0; exact Hcur).
    destruct (live_session _ _ (inv_live _ I0 _ _ _ Hcur0)) as [SS HS].
    destruct (inv_member st0 c _ sid p SS I0 Hc0 Hcur HS) as [Hp Hinj].
    rewrite (handle_local cfg st0 c _ sid p SS (RCustom rcpts body ots) hint Hc0 Hcur HS eq_refl).
    destruct (custom_max <? N.of_nat (length body)) eqn:Hlen.
    { simpl. rewrite Hlen. unfold apply_sstep. cbn [fst snd ev_outs]. unfold has_error. simpl.
      by rewrite N.eqb_refl. }
    destruct (flag_on cfg F_CUSTOM_B) eqn:Hf; [reflexivity|].
    destruct (custom_session_step cfg c p (c_own (set_queue q cn)) SS rcpts body ots Hf) as (outs&Es&H1&H2&H3).
    { apply N.ltb_ge in Hlen. exact Hlen. }
    rewrite Es. unfold apply_sstep. cbn [fst snd ev_outs].
    assert (Hall : Forall (λ d : delivery, snd d = MCustomB ots p body) outs).
    { apply Forall_forall. intros [cq m'] Hin. by apply H1 in Hin as [-> _]. }
    rewrite List_filter_all by (eapply Forall_impl; [exact Hall|]; by intros [? ?]; simpl; intros ->).
    rewrite has_error_plain by (eapply Forall_impl; [exact Hall|]; by intros [? ?]; simpl; intros ->).
    rewrite bool_decide_eq_true_2; [reflexivity|].
    rewrite c14_expected_eq. apply sort_lines_perm. apply fmap_Permutation. apply NoDup_Permutation.
    + apply (NoDup_fmap_1 fst). by apply H2.
    + apply NoDup_fmap_2_strong; [|apply NoDup_c14_targets].
      intros [q1 c1] [q2 c2] Hin1 Hin2. simpl. intros [= ->].
      apply elem_of_c14_targets in Hin1 as (Hx1&_), Hin2 as (Hx2&_). congruence.
    + intros [cq m']. rewrite H1, elem_of_list_fmap. unfold c14_target.
      assert (Hpc : ∀ q, m !! cq = Some (sid, q) ↔ s_parts SS !! q = Some cq).
      { intros q'. rewrite (Hm cq). destruct Hs0 as (Hsm&_). rewrite <- (Hsm cq). symmetry.
        apply (inv_parts _ I0 sid (s_parts SS)). unfold parts_of. by rewrite HS. }
      split.
      * intros (->&q'&(_&Hne&Hr)&Hq'). exists (q', cq). split; [done|].
        apply elem_of_c14_targets. by rewrite Hpc.
      * intros ([q' cq']&[= -> ->]&Hin). apply elem_of_c14_targets in Hin as (Hx&Hne&Hr).
        split; [done|]. exists q'. apply Hpc in Hx. split; [|done]. split; [eauto|done].
  - (* in no session: never executed; the connection is ended *)
    rewrite (c14_unjoined cfg st0 c _ rcpts body ots hint Hc0 Hcur).
    assert (Hnone : cur_of st0 c = None) by (unfold cur_of; rewrite Hc0; exact Hcur).
    destruct (disconnect_is_leave cfg st0 c) as [Hd _].
    rewrite (proj2 (leave_not_joined cfg st0 c Hnone)) in Hd.
    destruct (disconnect cfg st0 c) as [st2 o2]. simpl in Hd. subst o2. reflexivity.
Qed.

(* ================= every history ================= *)
Lemma step_verdict cfg st o : inv st → (step cfg st o).2 ≠ VPanic.
Proof.
  intros I. destruct o as [c|c r|c hint|sid|c|]; simpl; try done.
  - by destruct (conns st !! c).
  - unfold dispatch. destruct (conns st !! c) as [cn|]; [|done]. destruct (c_open cn); [|done]. simpl.
    destruct r; try done. destruct (ty =? 14); [|done]. by destruct (disconnect cfg st c).
  - destruct (conns st !! c) as [cn|] eqn:Hc; [|done]. destruct (c_open cn); [|done]. simpl.
    destruct (c_queue cn) as [|r q]; [done|].
    set (st0 := upd_conn c (set_queue q) st).
    assert (I0 : inv st0) by (eapply inv_same_mem; [|exact I]; apply same_mem_upd_conn; by intros []).
    assert (Hc0 : conns st0 !! c = Some (set_queue q cn)).
    { unfold st0, upd_conn. simpl. rewrite Hc. by rewrite lookup_insert. }
    destruct (handle cfg st0 c r hint) as [[st1 o1] v] eqn:Eh.
    assert (Hv : v ≠ VPanic).
    { destruct (is_join r) eqn:Hj.
      - destruct r; try discriminate Hj. unfold handle in Eh. rewrite Hc0 in Eh.
        pose proof (join_verdict cfg st0 c _ rid sid ots hint Hc0) as Hjv.
        destruct (c_cur (set_queue q cn)) as [[s p]|];
          [|change (Model.join cfg st0 c rid sid ots hint = (st1, o1, v)) in Eh; rewrite Eh in Hjv; simpl in Hjv; by subst].
        destruct (sessions st0 !! s); [|by injection Eh as _ _ <-].
        change (Model.join cfg st0 c rid sid ots hint = (st1, o1, v)) in Eh. rewrite Eh in Hjv. simpl in Hjv. by subst.
      - by destruct (handle_nonjoin cfg st0 c _ r hint _ _ _ I0 Hc0 Hj Eh) as (_&_&?&_). }
    destruct v; try done. by destruct (disconnect cfg st1 c).
  - destruct (conns st !! c) as [cn|]; [|done]. destruct (c_open cn); [|done]. simpl. by destruct (disconnect cfg st c).
Qed.

Lemma scan_snoc {A} (f : nat → members → event → list A) i m t e :
  scan f i m (t ++ [e]) = scan f i m t ++ f (i + length t)%nat (fold_left obs_step t m) e.
Proof.
  revert i m. induction t as [|e0 t IH]; intros i m; simpl.
  - by rewrite Nat.add_0_r, app_nil_r.
  - rewrite IH. rewrite <- app_assoc. by rewrite Nat.add_succ_r.
Qed.

(* the observer of Obs.v computes the spec's membership table on every model trace *)
Lemma obs_after_run cfg h : short h → fold_left obs_step (run cfg h) ∅ = sp_mem (spec_after (run cfg h)).
Proof.
  induction h as [|o h IH] using rev_ind; intros Hs; [done|].
  apply short_snoc in Hs as [Hs Hb]. rewrite spec_after_snoc, run_snoc, fold_left_app. simpl.
  rewrite IH by done. apply obs_step_spec. unfold ev_of. simpl. apply step_verdict.
  apply final_inv. unfold short in Hs. lia.
Qed.

Theorem model_passes_C14 cfg h : short h → P_C14 cfg (run cfg h) = [].
Proof.
  induction h as [|o h IH] using rev_ind; intros Hs; [done|].
  apply short_snoc in Hs as [Hs Hb]. unfold P_C14 in *. rewrite run_snoc, scan_snoc, IH by done. simpl.
  assert (Hlen : N.of_nat (length h) < two32) by (unfold short in Hs; lia).
  destruct (reachable_inv cfg h state0 0 inv_state0 bounded_state0) as [I B]; [lia|].
  apply (c14_event_ok cfg (final cfg h) o (0 + N.of_nat (length h))); try done; [lia|].
  intros c. rewrite obs_after_run by done. apply (rm_mem _ _ (refinement_mem cfg h Hs)).
Qed.

(* GridProofs.v — proofs about the executable grid model coq/Grid.v (property C20).
   Style: plain Coq standard library (lists, Z, Q), lia / lra. *)
From Coq Require Import ZArith QArith Qround Qabs Qminmax List Bool Lia Lqa Permutation.
From hagall Require Import Grid.
Import ListNotations.
Open Scope Q_scope.

(* ================================================================== 0. booleans over Q *)
Lemma Qlt_bool_iff a b : Qlt_bool a b = true <-> a < b.
Proof.
  unfold Qlt_bool. rewrite negb_true_iff. split; intro H.
  - apply Qnot_le_lt. intro L. apply Qle_bool_iff in L. congruence.
  - destruct (Qle_bool b a) eqn:E; auto. apply Qle_bool_iff in E. exfalso. apply (Qlt_not_le _ _ H E).
Qed.

Lemma Qlt_bool_false a b : Qlt_bool a b = false <-> b <= a.
Proof.
  unfold Qlt_bool. rewrite negb_false_iff. apply Qle_bool_iff.
Qed.

Lemma Qle_bool_false a b : Qle_bool a b = false <-> b < a.
Proof.
  split; intro H.
  - apply Qnot_le_lt. intro L. apply Qle_bool_iff in L. congruence.
  - destruct (Qle_bool a b) eqn:E; auto. apply Qle_bool_iff in E. exfalso. apply (Qlt_not_le _ _ H E).
Qed.

Lemma isz_iff q : isz q = true <-> q == 0.
Proof. unfold isz. apply Qeq_bool_iff. Qed.

(* ================================================================== 1. floor and cell coordinates *)
Lemma Qfloor_ge_iff (k : Z) (x : Q) : (k <= Qfloor x)%Z <-> inject_Z k <= x.
Proof.
  split; intro H.
  - apply Qle_trans with (inject_Z (Qfloor x)). rewrite <- Zle_Qle. exact H. apply Qfloor_le.
  - destruct (Z_le_gt_dec k (Qfloor x)) as [L|G]; auto. exfalso.
    assert (Qfloor x + 1 <= k)%Z by lia.
    pose proof (Qlt_floor x) as F.
    assert (inject_Z (Qfloor x + 1) <= inject_Z k) by (rewrite <- Zle_Qle; lia).
    lra.
Qed.

Lemma Qfloor_lt_iff (k : Z) (x : Q) : (Qfloor x < k)%Z <-> x < inject_Z k.
Proof.
  split; intro H.
  - apply Qnot_le_lt. intro L. apply Qfloor_ge_iff in L. lia.
  - destruct (Z_lt_ge_dec (Qfloor x) k) as [L|G]; auto. exfalso.
    assert (k <= Qfloor x)%Z by lia. apply Qfloor_ge_iff in H0. lra.
Qed.

Lemma Qfloor_add_Z (x : Q) (k : Z) : Qfloor (x + inject_Z k) = (Qfloor x + k)%Z.
Proof.
  apply Z.le_antisymm.
  - assert (Qfloor (x + inject_Z k) < Qfloor x + k + 1)%Z; [|lia].
    apply Qfloor_lt_iff. pose proof (Qlt_floor x).
    rewrite !inject_Z_plus in *. lra.
  - apply Qfloor_ge_iff. pose proof (Qfloor_le x). rewrite inject_Z_plus. lra.
Qed.

Lemma Qfloor_inject_Z (k : Z) : Qfloor (inject_Z k) = k.
Proof. apply Qfloor_Z. Qed.

Section CellCoord.
  Variable res : Z.
  Hypothesis Hres : (0 < res)%Z.

  Let resQ_pos : 0 < inject_Z res.
  Proof. change 0 with (inject_Z 0). rewrite <- Zlt_Qlt. exact Hres. Qed.

  Lemma div_mul_res (w : Q) : w / inject_Z res * inject_Z res == w.
  Proof. field. intro Z0. rewrite Z0 in resQ_pos. apply (Qlt_irrefl _ resQ_pos). Qed.

  Lemma cell_coord_ge (mn k : Z) (v : Q) :
    (k <= cell_coord res mn v)%Z <-> inject_Z mn + inject_Z k * inject_Z res <= v.
  Proof.
    unfold cell_coord. rewrite Qfloor_ge_iff. split; intro H.
    - apply (Qmult_le_r _ _ (inject_Z res)) in H; [|exact resQ_pos].
      rewrite div_mul_res in H. lra.
    - apply Qle_shift_div_l; [exact resQ_pos|]. lra.
  Qed.

  Lemma cell_coord_lt (mn k : Z) (v : Q) :
    (cell_coord res mn v < k)%Z <-> v < inject_Z mn + inject_Z k * inject_Z res.
  Proof.
    unfold cell_coord. rewrite Qfloor_lt_iff. split; intro H.
    - apply (Qmult_lt_r _ _ (inject_Z res)) in H; [|exact resQ_pos].
      rewrite div_mul_res in H. lra.
    - apply Qlt_shift_div_r; [exact resQ_pos|]. lra.
  Qed.

  Lemma cell_coord_mono (mn : Z) (a b : Q) : a <= b -> (cell_coord res mn a <= cell_coord res mn b)%Z.
  Proof.
    intro L. apply cell_coord_ge.
    apply Qle_trans with a; [|exact L]. apply cell_coord_ge. lia.
  Qed.

  (* moving the origin by k cells to the left shifts the coordinate by k *)
  Lemma cell_coord_shift (mn k : Z) (v : Q) :
    cell_coord res (mn - k * res) v = (cell_coord res mn v + k)%Z.
  Proof.
    assert (E : inject_Z (mn - k * res) == inject_Z mn - inject_Z k * inject_Z res).
    { unfold Z.sub. rewrite inject_Z_plus, inject_Z_opp, inject_Z_mult. lra. }
    apply Z.le_antisymm.
    - assert (cell_coord res (mn - k * res) v < cell_coord res mn v + k + 1)%Z; [|lia].
      apply cell_coord_lt.
      assert (L : (cell_coord res mn v < cell_coord res mn v + 1)%Z) by lia.
      apply cell_coord_lt in L.
      rewrite E. rewrite !inject_Z_plus in *. simpl (inject_Z 1) in *. lra.
    - apply cell_coord_ge.
      assert (L : (cell_coord res mn v <= cell_coord res mn v)%Z) by lia.
      apply cell_coord_ge in L.
      rewrite E. rewrite !inject_Z_plus in *. lra.
  Qed.
End CellCoord.

(* ================================================================== 2. nested lists *)
Lemma length_upd_nth {A} (l : list A) n f : length (upd_nth n f l) = length l.
Proof. revert n; induction l; intros [|n]; simpl; auto. Qed.

Lemma upd_nth_oob {A} (l : list A) n f : (length l <= n)%nat -> upd_nth n f l = l.
Proof. revert n; induction l; intros [|n] H; simpl in *; auto; try lia. f_equal. apply IHl. lia. Qed.

Lemma nth_upd_nth_same {A} (l : list A) n f d : (n < length l)%nat -> nth n (upd_nth n f l) d = f (nth n l d).
Proof. revert n; induction l; intros [|n] H; simpl in *; auto; try lia. apply IHl. lia. Qed.

Lemma nth_upd_nth_other {A} (l : list A) n m f d : n <> m -> nth m (upd_nth n f l) d = nth m l d.
Proof. revert n m; induction l; intros [|n] [|m] H; simpl in *; auto; try lia. Qed.

Lemma nth_error_upd_nth_same {A} (l : list A) n f a : nth_error l n = Some a -> nth_error (upd_nth n f l) n = Some (f a).
Proof. revert n; induction l; intros [|n] H; simpl in *; try discriminate; auto. congruence. Qed.

Lemma nth_error_upd_nth_other {A} (l : list A) n m f : n <> m -> nth_error (upd_nth n f l) m = nth_error l m.
Proof. revert n m; induction l; intros [|n] [|m] H; simpl in *; auto; try lia. Qed.

Definition width (cs : cells_t) (y : nat) : nat := length (nth y cs []).

Lemma length_upd_cell cs y x f : length (upd_cell cs y x f) = length cs.
Proof. apply length_upd_nth. Qed.

Lemma width_upd_cell cs y x f y' : width (upd_cell cs y x f) y' = width cs y'.
Proof.
  unfold width, upd_cell. destruct (Nat.eq_dec y y') as [->|N].
  - destruct (Nat.lt_ge_cases y' (length cs)).
    + rewrite nth_upd_nth_same by auto. apply length_upd_nth.
    + rewrite upd_nth_oob by auto. reflexivity.
  - rewrite nth_upd_nth_other by auto. reflexivity.
Qed.

Lemma get_upd_cell_same cs y x f :
  (y < length cs)%nat -> (x < width cs y)%nat -> get_cell (upd_cell cs y x f) y x = f (get_cell cs y x).
Proof.
  unfold get_cell, upd_cell, width. intros Hy Hx.
  rewrite nth_upd_nth_same by auto. apply nth_upd_nth_same. auto.
Qed.

Lemma get_upd_cell_other cs y x f y' x' :
  (y' <> y \/ x' <> x) -> get_cell (upd_cell cs y x f) y' x' = get_cell cs y' x'.
Proof.
  unfold get_cell, upd_cell. intros H.
  destruct (Nat.eq_dec y y') as [<-|N].
  - destruct (Nat.lt_ge_cases y (length cs)).
    + rewrite nth_upd_nth_same by auto. apply nth_upd_nth_other. destruct H; congruence.
    + rewrite upd_nth_oob by auto. reflexivity.
  - rewrite nth_upd_nth_other by auto. reflexivity.
Qed.

(* every update either leaves the content or applies f *)
Lemma get_upd_cell_cases cs y x f y' x' :
  get_cell (upd_cell cs y x f) y' x' = get_cell cs y' x' \/
  (y' = y /\ x' = x /\ (y < length cs)%nat /\ (x < width cs y)%nat /\ get_cell (upd_cell cs y x f) y' x' = f (get_cell cs y' x')).
Proof.
  destruct (Nat.eq_dec y' y) as [->|N]; [destruct (Nat.eq_dec x' x) as [->|M]|].
  - destruct (Nat.lt_ge_cases y (length cs)) as [Hy|Hy].
    + destruct (Nat.lt_ge_cases x (width cs y)) as [Hx|Hx].
      * right. repeat split; auto. apply get_upd_cell_same; auto.
      * left. unfold get_cell, upd_cell. rewrite nth_upd_nth_same by auto.
        rewrite upd_nth_oob by exact Hx. reflexivity.
    + left. unfold upd_cell. rewrite upd_nth_oob by auto. reflexivity.
  - left. apply get_upd_cell_other. auto.
  - left. apply get_upd_cell_other. auto.
Qed.

Definition row_strip (cs : cells_t) (y : nat) (xs : list nat) (f : list nat -> list nat) : cells_t :=
  fold_left (fun cs x => upd_cell cs y x f) xs cs.

Lemma strip_unfold cs ys xs f : strip cs ys xs f = fold_left (fun cs y => row_strip cs y xs f) ys cs.
Proof. reflexivity. Qed.

Lemma row_strip_shape cs y xs f :
  length (row_strip cs y xs f) = length cs /\ forall y', width (row_strip cs y xs f) y' = width cs y'.
Proof.
  unfold row_strip. revert cs. induction xs as [|a xs IH]; intros cs; simpl; auto.
  destruct (IH (upd_cell cs y a f)) as [L W]. split.
  - rewrite L. apply length_upd_cell.
  - intro y'. rewrite W. apply width_upd_cell.
Qed.

Lemma strip_shape cs ys xs f :
  length (strip cs ys xs f) = length cs /\ forall y', width (strip cs ys xs f) y' = width cs y'.
Proof.
  rewrite strip_unfold. revert cs. induction ys as [|a ys IH]; intros cs; simpl; auto.
  destruct (IH (row_strip cs a xs f)) as [L W]. destruct (row_strip_shape cs a xs f) as [L' W']. split.
  - rewrite L. exact L'.
  - intro y'. rewrite W. apply W'.
Qed.

Lemma row_strip_other cs y xs f y' x' :
  ~ (y' = y /\ In x' xs) -> get_cell (row_strip cs y xs f) y' x' = get_cell cs y' x'.
Proof.
  unfold row_strip. revert cs. induction xs as [|a xs IH]; intros cs H; simpl; auto.
  rewrite IH. 
  - apply get_upd_cell_other. destruct (Nat.eq_dec y' y); auto. right. intro E. apply H. split; auto. left; auto.
  - intros [E I]. apply H. split; auto. right; auto.
Qed.

Lemma row_strip_pres (P : list nat -> Prop) cs y xs f y' x' :
  (forall l, P l -> P (f l)) -> P (get_cell cs y' x') -> P (get_cell (row_strip cs y xs f) y' x').
Proof.
  intros St. unfold row_strip. revert cs. induction xs as [|a xs IH]; intros cs H; simpl; auto.
  apply IH. destruct (get_upd_cell_cases cs y a f y' x') as [E|(_ & _ & _ & _ & E)]; rewrite E; auto.
Qed.

Lemma row_strip_hit (P : list nat -> Prop) cs y xs f x :
  (forall l, P l -> P (f l)) -> (forall l, P (f l)) ->
  In x xs -> (y < length cs)%nat -> (x < width cs y)%nat -> P (get_cell (row_strip cs y xs f) y x).
Proof.
  intros St Hit. unfold row_strip. revert cs. induction xs as [|a xs IH]; intros cs I Hy Hx; simpl in *; [tauto|].
  destruct (Nat.eq_dec a x) as [->|N].
  - apply (row_strip_pres P); auto. rewrite get_upd_cell_same; auto.
  - destruct I as [E|I]; [congruence|]. apply IH; auto.
    + rewrite length_upd_cell. auto.
    + rewrite width_upd_cell. auto.
Qed.

Lemma strip_other cs ys xs f y x :
  ~ (In y ys /\ In x xs) -> get_cell (strip cs ys xs f) y x = get_cell cs y x.
Proof.
  rewrite strip_unfold. revert cs. induction ys as [|a ys IH]; intros cs H; simpl; auto.
  rewrite IH.
  - apply row_strip_other. intros [E I]. apply H. split; auto. left; auto.
  - intros [I J]. apply H. split; auto. right; auto.
Qed.

Lemma strip_pres (P : list nat -> Prop) cs ys xs f y x :
  (forall l, P l -> P (f l)) -> P (get_cell cs y x) -> P (get_cell (strip cs ys xs f) y x).
Proof.
  intros St. rewrite strip_unfold. revert cs. induction ys as [|a ys IH]; intros cs H; simpl; auto.
  apply IH. apply row_strip_pres; auto.
Qed.

Lemma strip_hit (P : list nat -> Prop) cs ys xs f y x :
  (forall l, P l -> P (f l)) -> (forall l, P (f l)) ->
  In y ys -> In x xs -> (y < length cs)%nat -> (x < width cs y)%nat -> P (get_cell (strip cs ys xs f) y x).
Proof.
  intros St Hit. rewrite strip_unfold. revert cs. induction ys as [|a ys IH]; intros cs Iy Ix Hy Hx; simpl in *; [tauto|].
  destruct (Nat.eq_dec a y) as [->|N].
  - change (fold_left (fun cs0 y0 => row_strip cs0 y0 xs f) ys (row_strip cs y xs f)) with (strip (row_strip cs y xs f) ys xs f).
    apply (strip_pres P); auto. apply row_strip_hit; auto.
  - destruct Iy as [E|Iy]; [congruence|]. destruct (row_strip_shape cs a xs f) as [L W]. apply IH; auto.
    + rewrite L; auto.
    + rewrite W; auto.
Qed.

(* membership in ranges *)
Lemma in_range_incl a b x : In x (range_incl a b) <-> (a <= x <= b)%nat.
Proof. unfold range_incl. rewrite in_seq. lia. Qed.
Lemma in_range_excl a b x : In x (range_excl a b) <-> (a <= x < b)%nat.
Proof. unfold range_excl. rewrite in_seq. lia. Qed.

(* swap_remove: what it does to the list *)
Lemma find_idx_split id l i :
  find_idx id l = Some i -> exists l1 l2, l = l1 ++ id :: l2 /\ length l1 = i.
Proof.
  revert i. induction l as [|a l IH]; intros i H; simpl in *; [discriminate|].
  destruct (Nat.eqb a id) eqn:E.
  - inversion H; subst. apply Nat.eqb_eq in E. subst. exists [], l. auto.
  - destruct (find_idx id l) as [j|]; simpl in H; [|discriminate]. inversion H; subst.
    destruct (IH j eq_refl) as (l1 & l2 & -> & L). exists (a :: l1), l2. simpl. auto.
Qed.

Lemma upd_nth_app {A} (l1 l2 : list A) a f : upd_nth (length l1) f (l1 ++ a :: l2) = l1 ++ f a :: l2.
Proof. induction l1; simpl; auto. f_equal. auto. Qed.

Lemma swap_remove_spec id l :
  swap_remove id l = l \/
  (exists l1, l = l1 ++ [id] /\ swap_remove id l = l1) \/
  (exists l1 l2 z, l = l1 ++ id :: l2 ++ [z] /\ swap_remove id l = l1 ++ z :: l2).
Proof.
  unfold swap_remove. destruct (find_idx id l) as [i|] eqn:E; auto. right.
  destruct (find_idx_split _ _ _ E) as (l1 & l2 & -> & L). subst i.
  rewrite upd_nth_app.
  destruct l2 as [|b l2] using rev_ind.
  - left. exists l1. split; auto. rewrite removelast_app by congruence. simpl. rewrite app_nil_r. reflexivity.
  - right. clear IHl2. exists l1, l2, b. split; auto.
    replace (last (l1 ++ id :: l2 ++ [b]) O) with b.
    + rewrite removelast_app by congruence.
      change (b :: l2 ++ [b]) with ((b :: l2) ++ [b]). rewrite removelast_last. reflexivity.
    + change (l1 ++ id :: l2 ++ [b]) with (l1 ++ (id :: l2) ++ [b]). rewrite app_assoc. rewrite last_last. reflexivity.
Qed.

Lemma in_swap_remove id l x : In x (swap_remove id l) -> In x l.
Proof.
  destruct (swap_remove_spec id l) as [E|[(l1 & -> & E)|(l1 & l2 & z & -> & E)]]; rewrite E; auto.
  - intro H. apply in_or_app. auto.
  - rewrite !in_app_iff. simpl. rewrite in_app_iff. simpl. intuition.
Qed.

(* an element different from id survives swap_remove id *)
Lemma swap_remove_keeps id l x : x <> id -> In x l -> In x (swap_remove id l).
Proof.
  intros N. destruct (swap_remove_spec id l) as [E|[(l1 & -> & E)|(l1 & l2 & z & -> & E)]]; rewrite E; auto.
  - rewrite in_app_iff. simpl. intuition congruence.
  - rewrite !in_app_iff. simpl. rewrite in_app_iff. simpl. intuition congruence.
Qed.

(* ================================================================== 3. the four edge loops *)
Lemma strip_len cs ys xs f : length (strip cs ys xs f) = length cs.
Proof. apply strip_shape. Qed.
Lemma strip_width cs ys xs f y : width (strip cs ys xs f) y = width cs y.
Proof. apply strip_shape. Qed.

Lemma strip_add_in h cs ys xs y x :
  In h (get_cell cs y x) \/ (In y ys /\ In x xs /\ (y < length cs)%nat /\ (x < width cs y)%nat) ->
  In h (get_cell (strip cs ys xs (fun l => l ++ [h])) y x).
Proof.
  intros [H|(Iy & Ix & Hy & Hx)].
  - apply (strip_pres (fun l => In h l)); auto. intros l Hl. apply in_or_app. auto.
  - apply (strip_hit (fun l => In h l)); auto.
    + intros l Hl. apply in_or_app. auto.
    + intros l. apply in_or_app. right. left. reflexivity.
Qed.

Lemma strip_del_in h cs ys xs y x :
  In h (get_cell cs y x) /\ ~ (In y ys /\ In x xs) ->
  In h (get_cell (strip cs ys xs (swap_remove h)) y x).
Proof. intros [H N]. rewrite strip_other; auto. Qed.

Lemma merge_cells_shape cs h a b c d e f g i :
  length (merge_cells cs h a b c d e f g i) = length cs /\
  forall y, width (merge_cells cs h a b c d e f g i) y = width cs y.
Proof.
  unfold merge_cells. split.
  - rewrite !strip_len. reflexivity.
  - intro y. rewrite !strip_width. reflexivity.
Qed.

Lemma merge_cells_pres (P : list nat -> Prop) cs h a b c d e f g i y x :
  (forall l, P l -> P (l ++ [h])) -> (forall l, P l -> P (swap_remove h l)) ->
  P (get_cell cs y x) -> P (get_cell (merge_cells cs h a b c d e f g i) y x).
Proof.
  intros A D H. unfold merge_cells.
  repeat (apply strip_pres; [intros l Hl; match goal with |- context [if ?b then _ else _] => destruct b end; auto|]).
  exact H.
Qed.

Ltac reg_arith := rewrite ?strip_len, ?strip_width, <- ?in_rev, ?in_range_incl, ?in_range_excl; lia.
Ltac reg :=
  match goal with
  | |- In _ (get_cell (strip _ _ _ (fun l => l ++ [_])) _ _) =>
      apply strip_add_in; first [ left; reg | right; reg_arith ]
  | |- In _ (get_cell (strip _ _ _ (swap_remove _)) _ _) =>
      apply strip_del_in; split; [ reg | reg_arith ]
  | |- In _ (get_cell _ _ _) => assumption
  end.

Lemma merge_cells_complete cs h (x0m y0m x0M y0M x1m y1m x1M y1M : nat) y x :
  (y < length cs)%nat -> (x < width cs y)%nat ->
  (x1m <= x <= x1M)%nat -> (y1m <= y <= y1M)%nat ->
  ((x0m <= x <= x0M)%nat -> (y0m <= y <= y0M)%nat -> In h (get_cell cs y x)) ->
  In h (get_cell (merge_cells cs h x0m y0m x0M y0M x1m y1m x1M y1M) y x).
Proof.
  intros Hy Hx Xr Yr Old. unfold merge_cells.
  assert (OD : ((x0m <= x <= x0M)%nat /\ (y0m <= y <= y0M)%nat) \/ ~ ((x0m <= x <= x0M)%nat /\ (y0m <= y <= y0M)%nat)) by lia.
  destruct (Nat.ltb_spec x1m x0m) as [E1|E1]; destruct (Nat.ltb_spec x1M x0M) as [E2|E2];
  destruct (Nat.ltb_spec y1m y0m) as [E3|E3]; destruct (Nat.ltb_spec y1M y0M) as [E4|E4];
  (destruct OD as [[O1 O2]|NO]; [pose proof (Old O1 O2) as B; clear Old; reg | clear Old]);
  (assert (NO' : (x < x0m)%nat \/ (x0M < x)%nat \/ ((x0m <= x <= x0M)%nat /\ (y < y0m)%nat) \/ ((x0m <= x <= x0M)%nat /\ (y0M < y)%nat)) by lia);
  clear NO; (destruct NO' as [N|[N|[N|N]]]; first [ exfalso; lia | reg ]).
Qed.

(* ================================================================== 4. geometry of a grid state *)
Definition cx0 (g : grid) (q : quad) : Z := cellx g (vx (qmin q)).
Definition cx1 (g : grid) (q : quad) : Z := cellx g (vx (qmax q)).
Definition cz0 (g : grid) (q : quad) : Z := cellz g (vz (qmin q)).
Definition cz1 (g : grid) (q : quad) : Z := cellz g (vz (qmax q)).

Definition in_bounds (g : grid) (q : quad) : Prop :=
  inject_Z (g_minx g) <= vx (qmin q) /\ vx (qmax q) < inject_Z (g_maxx g) /\
  inject_Z (g_minz g) <= vz (qmin q) /\ vz (qmax q) < inject_Z (g_maxz g).

Definition pos_ext (q : quad) : Prop := 0 < vx (qe q) /\ 0 < vz (qe q).
Definition horiz (q : quad) : Prop :=
  vy (qe q) == 0 /\ vx (qn q) == 0 /\ vy (qn q) == 1 /\ vz (qn q) == 0.

Definition rect (g : grid) : Prop :=
  (0 < nrows g)%nat /\ (0 < ncols g)%nat /\ forall y, (y < nrows g)%nat -> width (g_cells g) y = ncols g.

Definition lattice (g : grid) : Prop :=
  (0 < g_res g)%Z /\
  g_maxx g = (g_minx g + Z.of_nat (ncols g) * g_res g)%Z /\
  g_maxz g = (g_minz g + Z.of_nat (nrows g) * g_res g)%Z.

Definition ids_ok (g : grid) : Prop :=
  forall y x id, In id (get_cell (g_cells g) y x) -> (id < length (g_planes g))%nat.

Definition plane_ok (g : grid) (q : quad) : Prop := pos_ext q /\ horiz q /\ in_bounds g q.

(* plane id is registered in every cell of its footprint's cell range *)
Definition registered (g : grid) (id : nat) (q : quad) : Prop :=
  forall y x, (y < nrows g)%nat -> (x < ncols g)%nat ->
    (cx0 g q <= Z.of_nat x <= cx1 g q)%Z -> (cz0 g q <= Z.of_nat y <= cz1 g q)%Z ->
    In id (get_cell (g_cells g) y x).

Record Inv (g : grid) : Prop := mkInv {
  inv_rect : rect g;
  inv_lattice : lattice g;
  inv_ids : ids_ok g;
  inv_planes : forall id q, nth_error (g_planes g) id = Some q -> plane_ok g q /\ registered g id q;
  inv_count : g_planecount g = N.of_nat (length (g_planes g))
}.

Lemma qmin_le_qmax_x q : pos_ext q -> vx (qmin q) <= vx (qmax q).
Proof. intros [H _]. unfold qmin, qmax. simpl. lra. Qed.
Lemma qmin_le_qmax_z q : pos_ext q -> vz (qmin q) <= vz (qmax q).
Proof. intros [_ H]. unfold qmin, qmax. simpl. lra. Qed.

Lemma inject_Z_pos z : (0 < z)%Z -> 0 < inject_Z z.
Proof. intro H. change 0 with (inject_Z 0). rewrite <- Zlt_Qlt. exact H. Qed.

(* a footprint inside the bounds has its cell range inside the grid *)
Lemma range_in_grid g q :
  lattice g -> pos_ext q -> in_bounds g q ->
  (0 <= cx0 g q <= cx1 g q)%Z /\ (cx1 g q < Z.of_nat (ncols g))%Z /\
  (0 <= cz0 g q <= cz1 g q)%Z /\ (cz1 g q < Z.of_nat (nrows g))%Z.
Proof.
  intros (R & MX & MZ) P (B1 & B2 & B3 & B4). unfold cx0, cx1, cz0, cz1, cellx, cellz.
  repeat split.
  - apply cell_coord_ge; auto. change (inject_Z 0) with 0. lra.
  - apply cell_coord_mono; auto. apply qmin_le_qmax_x; auto.
  - apply cell_coord_lt; auto. rewrite MX in B2. rewrite inject_Z_plus, inject_Z_mult in B2. exact B2.
  - apply cell_coord_ge; auto. change (inject_Z 0) with 0. lra.
  - apply cell_coord_mono; auto. apply qmin_le_qmax_z; auto.
  - apply cell_coord_lt; auto. rewrite MZ in B4. rewrite inject_Z_plus, inject_Z_mult in B4. exact B4.
Qed.

(* ================================================================== 5. ExpandToFitPoint *)
Definition padx (left : bool) (k : nat) (cs : cells_t) : cells_t :=
  if left then map (fun row => repeat [] k ++ row) cs else map (fun row => row ++ repeat [] k) cs.
Definition padz (up : bool) (k w : nat) (cs : cells_t) : cells_t :=
  if up then repeat (repeat [] w) k ++ cs else cs ++ repeat (repeat [] w) k.

Lemma nth_repeat_nil (k x : nat) : nth x (repeat ([] : list nat) k) [] = [].
Proof. revert x; induction k; intros [|x]; simpl; auto. Qed.

Lemma nth_map_row (f : list (list nat) -> list (list nat)) cs y :
  (y < length cs)%nat -> nth y (map f cs) [] = f (nth y cs []).
Proof. intro H. rewrite (nth_indep _ [] (f [])) by (rewrite map_length; auto). apply map_nth. Qed.

Lemma get_padx_left k cs y x :
  get_cell (padx true k cs) y x = if (x <? k)%nat then [] else get_cell cs y (x - k).
Proof.
  unfold get_cell, padx. destruct (Nat.lt_ge_cases y (length cs)) as [Hy|Hy].
  - rewrite nth_map_row by auto. destruct (Nat.ltb_spec x k).
    + rewrite app_nth1 by (rewrite repeat_length; auto). apply nth_repeat_nil.
    + rewrite app_nth2 by (rewrite repeat_length; auto). rewrite repeat_length. reflexivity.
  - rewrite (nth_overflow (map _ cs)) by (rewrite map_length; auto).
    rewrite (nth_overflow cs) by auto.
    assert (NN : forall n, nth n ([] : list (list nat)) [] = []) by (intros [|n]; reflexivity).
    rewrite !NN. destruct (x <? k)%nat; reflexivity.
Qed.

Lemma get_padx_right k cs y x : get_cell (padx false k cs) y x = get_cell cs y x.
Proof.
  unfold get_cell, padx. destruct (Nat.lt_ge_cases y (length cs)) as [Hy|Hy].
  - rewrite nth_map_row by auto. destruct (Nat.lt_ge_cases x (length (nth y cs []))).
    + apply app_nth1; auto.
    + rewrite app_nth2 by auto. rewrite nth_repeat_nil. rewrite nth_overflow; auto.
  - rewrite (nth_overflow (map _ cs)) by (rewrite map_length; auto).
    rewrite (nth_overflow cs) by auto. reflexivity.
Qed.

Lemma get_padz_up k w cs y x :
  get_cell (padz true k w cs) y x = if (y <? k)%nat then [] else get_cell cs (y - k) x.
Proof.
  unfold get_cell, padz. destruct (Nat.ltb_spec y k).
  - rewrite app_nth1 by (rewrite repeat_length; auto).
    assert (E : nth y (repeat (repeat ([] : list nat) w) k) [] = repeat [] w \/ nth y (repeat (repeat ([] : list nat) w) k) [] = []).
    { clear. revert y; induction k; intros [|y]; simpl; auto. }
    destruct E as [-> | ->]; [apply nth_repeat_nil | destruct x; reflexivity].
  - rewrite app_nth2 by (rewrite repeat_length; auto). rewrite repeat_length. reflexivity.
Qed.

Lemma get_padz_down k w cs y x : get_cell (padz false k w cs) y x = get_cell cs y x.
Proof.
  unfold get_cell, padz. destruct (Nat.lt_ge_cases y (length cs)) as [Hy|Hy].
  - rewrite app_nth1 by auto. reflexivity.
  - rewrite app_nth2 by auto. rewrite (nth_overflow cs) by auto.
    assert (E : forall n, nth n (repeat (repeat ([] : list nat) w) k) [] = repeat [] w \/ nth n (repeat (repeat ([] : list nat) w) k) [] = []).
    { clear. induction k; intros [|n]; simpl; auto. }
    destruct (E (y - length cs)%nat) as [-> | ->]; [rewrite nth_repeat_nil | ]; destruct x; reflexivity.
Qed.

Lemma length_padx l k cs : length (padx l k cs) = length cs.
Proof. unfold padx. destruct l; apply map_length. Qed.

Lemma width_padx l k cs y : (y < length cs)%nat -> width (padx l k cs) y = (k + width cs y)%nat.
Proof.
  intro H. unfold width, padx. destruct l; rewrite nth_map_row by auto; rewrite app_length, repeat_length; lia.
Qed.

Lemma length_padz u k w cs : length (padz u k w cs) = (k + length cs)%nat.
Proof. unfold padz. destruct u; rewrite app_length, repeat_length; lia. Qed.

Lemma nth_repeat_in {A} (a d : A) k y : (y < k)%nat -> nth y (repeat a k) d = a.
Proof. revert y; induction k; intros [|y] H; simpl; auto; try lia. apply IHk. lia. Qed.

Lemma width_padz u k w cs y :
  (y < k + length cs)%nat ->
  width (padz u k w cs) y =
    if u then (if (y <? k)%nat then w else width cs (y - k))
    else (if (y <? length cs)%nat then width cs y else w).
Proof.
  intro H. unfold width, padz. destruct u.
  - destruct (Nat.ltb_spec y k).
    + rewrite app_nth1 by (rewrite repeat_length; auto). rewrite nth_repeat_in by auto. apply repeat_length.
    + rewrite app_nth2 by (rewrite repeat_length; auto). rewrite repeat_length. reflexivity.
  - destruct (Nat.ltb_spec y (length cs)).
    + rewrite app_nth1 by auto. reflexivity.
    + rewrite app_nth2 by auto. rewrite nth_repeat_in by lia. apply repeat_length.
Qed.

Definition gpadx (g : grid) (left : bool) (k : nat) : grid :=
  mkGrid (g_res g) (g_planecount g) (g_mergecount g)
         (if left then g_minx g - Z.of_nat k * g_res g else g_minx g)%Z (g_minz g)
         (if left then g_maxx g else g_maxx g + Z.of_nat k * g_res g)%Z (g_maxz g)
         (padx left k (g_cells g)) (g_planes g).

Definition gpadz (g : grid) (up : bool) (k : nat) : grid :=
  mkGrid (g_res g) (g_planecount g) (g_mergecount g)
         (g_minx g) (if up then g_minz g - Z.of_nat k * g_res g else g_minz g)%Z
         (g_maxx g) (if up then g_maxz g else g_maxz g + Z.of_nat k * g_res g)%Z
         (padz up k (ncols g) (g_cells g)) (g_planes g).

Lemma ncols_width g : ncols g = width (g_cells g) 0.
Proof. unfold ncols, width. destruct (g_cells g); reflexivity. Qed.

Lemma nrows_gpadx g l k : nrows (gpadx g l k) = nrows g.
Proof. unfold nrows. simpl. apply length_padx. Qed.

Lemma ncols_gpadx g l k : rect g -> ncols (gpadx g l k) = (k + ncols g)%nat.
Proof.
  intros (R & _ & _). rewrite !ncols_width. simpl. apply width_padx. exact R.
Qed.

Lemma nrows_gpadz g u k : nrows (gpadz g u k) = (k + nrows g)%nat.
Proof. unfold nrows. simpl. apply length_padz. Qed.

Lemma ncols_gpadz g u k : rect g -> ncols (gpadz g u k) = ncols g.
Proof.
  intros (R & C & W). rewrite (ncols_width (gpadz g u k)). simpl.
  rewrite width_padz by (unfold nrows in R; lia).
  destruct u.
  - destruct (Nat.ltb_spec 0 k); auto; replace (0 - k)%nat with 0%nat by lia; symmetry; apply ncols_width.
  - destruct (Nat.ltb_spec 0 (length (g_cells g))); [symmetry; apply ncols_width | unfold nrows in R; lia].
Qed.

Lemma cellx_gpadx g l k v :
  (0 < g_res g)%Z -> cellx (gpadx g l k) v = (cellx g v + (if l then Z.of_nat k else 0))%Z.
Proof.
  intro R. unfold cellx. simpl. destruct l.
  - apply cell_coord_shift. auto.
  - lia.
Qed.

Lemma cellz_gpadx g l k v : cellz (gpadx g l k) v = cellz g v.
Proof. reflexivity. Qed.

Lemma cellz_gpadz g u k v :
  (0 < g_res g)%Z -> cellz (gpadz g u k) v = (cellz g v + (if u then Z.of_nat k else 0))%Z.
Proof.
  intro R. unfold cellz. simpl. destruct u.
  - apply cell_coord_shift. auto.
  - lia.
Qed.

Lemma cellx_gpadz g u k v : cellx (gpadz g u k) v = cellx g v.
Proof. reflexivity. Qed.

Lemma in_bounds_gpadx g l k q : (0 < g_res g)%Z -> in_bounds g q -> in_bounds (gpadx g l k) q.
Proof.
  intros R (B1 & B2 & B3 & B4). unfold in_bounds, gpadx, gpadz; cbn [g_minx g_maxx g_minz g_maxz].
  assert (0 <= inject_Z (Z.of_nat k) * inject_Z (g_res g)).
  { apply Qmult_le_0_compat. change 0 with (inject_Z 0). rewrite <- Zle_Qle. lia. apply Qlt_le_weak. apply inject_Z_pos; auto. }
  destruct l; repeat split; auto.
  - unfold Z.sub. rewrite inject_Z_plus, inject_Z_opp, inject_Z_mult.
    set (pp := inject_Z (Z.of_nat k) * inject_Z (g_res g)) in *. clearbody pp. lra.
  - rewrite inject_Z_plus, inject_Z_mult.
    set (pp := inject_Z (Z.of_nat k) * inject_Z (g_res g)) in *. clearbody pp. lra.
Qed.

Lemma in_bounds_gpadz g u k q : (0 < g_res g)%Z -> in_bounds g q -> in_bounds (gpadz g u k) q.
Proof.
  intros R (B1 & B2 & B3 & B4). unfold in_bounds, gpadx, gpadz; cbn [g_minx g_maxx g_minz g_maxz].
  assert (0 <= inject_Z (Z.of_nat k) * inject_Z (g_res g)).
  { apply Qmult_le_0_compat. change 0 with (inject_Z 0). rewrite <- Zle_Qle. lia. apply Qlt_le_weak. apply inject_Z_pos; auto. }
  destruct u; repeat split; auto.
  - unfold Z.sub. rewrite inject_Z_plus, inject_Z_opp, inject_Z_mult.
    set (pp := inject_Z (Z.of_nat k) * inject_Z (g_res g)) in *. clearbody pp. lra.
  - rewrite inject_Z_plus, inject_Z_mult.
    set (pp := inject_Z (Z.of_nat k) * inject_Z (g_res g)) in *. clearbody pp. lra.
Qed.

Lemma Inv_gpadx g l k : Inv g -> Inv (gpadx g l k).
Proof.
  intros [R L I P C]. pose proof R as (R1 & R2 & R3). pose proof L as (L1 & L2 & L3).
  constructor.
  - (* rect *) unfold rect. rewrite nrows_gpadx, ncols_gpadx by auto. repeat split; auto; try lia.
    intros y Hy. simpl. rewrite width_padx by exact Hy. rewrite R3; auto.
  - (* lattice *) unfold lattice. rewrite nrows_gpadx, ncols_gpadx by auto. simpl. repeat split; auto.
    destruct l; rewrite L2, Nat2Z.inj_add; ring.
  - (* ids *) intros y x id. simpl. destruct l.
    + rewrite get_padx_left. destruct (x <? k)%nat; [intros []|]. apply I.
    + rewrite get_padx_right. apply I.
  - (* planes *) intros id q Hq. simpl in Hq. destruct (P id q Hq) as ((PE & HZ & IB) & Reg). split.
    + split; [exact PE|split; [exact HZ|apply in_bounds_gpadx; auto]].
    + intros y x Hy Hx Xr Yr. rewrite nrows_gpadx in Hy. rewrite ncols_gpadx in Hx by auto.
      unfold cx0, cx1, cz0, cz1 in *. rewrite !cellx_gpadx in Xr by auto. rewrite !cellz_gpadx in Yr.
      destruct (range_in_grid g q L PE IB) as (A1 & A2 & A3 & A4). unfold cx0, cx1, cz0, cz1 in *.
      simpl. destruct l.
      * rewrite get_padx_left. destruct (Nat.ltb_spec x k); [lia|].
        apply Reg; auto; unfold cx0, cx1, cz0, cz1; lia.
      * rewrite get_padx_right. apply Reg; auto; unfold cx0, cx1, cz0, cz1; lia.
  - exact C.
Qed.

Lemma Inv_gpadz g u k : Inv g -> Inv (gpadz g u k).
Proof.
  intros [R L I P C]. pose proof R as (R1 & R2 & R3). pose proof L as (L1 & L2 & L3).
  constructor.
  - (* rect *) unfold rect. rewrite nrows_gpadz, ncols_gpadz by auto. repeat split; auto; try lia.
    intros y Hy. simpl. rewrite width_padz by (unfold nrows in *; lia). destruct u.
    + destruct (Nat.ltb_spec y k); auto. apply R3. lia.
    + destruct (Nat.ltb_spec y (length (g_cells g))); auto.
  - (* lattice *) unfold lattice. rewrite nrows_gpadz, ncols_gpadz by auto. simpl. repeat split; auto.
    destruct u; rewrite L3, Nat2Z.inj_add; ring.
  - (* ids *) intros y x id. simpl. destruct u.
    + rewrite get_padz_up. destruct (y <? k)%nat; [intros []|]. apply I.
    + rewrite get_padz_down. apply I.
  - (* planes *) intros id q Hq. simpl in Hq. destruct (P id q Hq) as ((PE & HZ & IB) & Reg). split.
    + split; [exact PE|split; [exact HZ|apply in_bounds_gpadz; auto]].
    + intros y x Hy Hx Xr Yr. rewrite nrows_gpadz in Hy. rewrite ncols_gpadz in Hx by auto.
      unfold cx0, cx1, cz0, cz1 in *. rewrite !cellz_gpadz in Yr by auto. rewrite !cellx_gpadz in Xr.
      destruct (range_in_grid g q L PE IB) as (A1 & A2 & A3 & A4). unfold cx0, cx1, cz0, cz1 in *.
      simpl. destruct u.
      * rewrite get_padz_up. destruct (Nat.ltb_spec y k); [lia|].
        apply Reg; auto; unfold cx0, cx1, cz0, cz1; lia.
      * rewrite get_padz_down. apply Reg; auto; unfold cx0, cx1, cz0, cz1; lia.
  - exact C.
Qed.

(* ---- the amount of growth computed by ExpandToFitPoint is enough (one axis) *)
Lemma ceil_div_ge a b : (0 < b)%Z -> (a <= ceil_div a b * b)%Z.
Proof.
  intro B. unfold ceil_div. pose proof (Z.mul_div_le (- a) b B). nia.
Qed.

Lemma ceil_div_nonneg a b : (0 <= a)%Z -> (0 < b)%Z -> (0 <= ceil_div a b)%Z.
Proof.
  intros A B. unfold ceil_div.
  assert ((- a) / b <= 0)%Z; [|lia].
  apply Z.div_le_upper_bound; auto. lia.
Qed.

Definition grow_count (mn mx res : Z) (v : Q) : Z :=
  let inr := Qle_bool (inject_Z mn) v && Qlt_bool v (inject_Z mx) in
  ceil_div (if inr then 0%Z
            else if Qlt_bool v (inject_Z mn) then Z.abs (Qfloor (v - inject_Z mn))
            else (Qfloor (Qabs (v - inject_Z mx)) + 1)%Z) res.

Lemma fit_1d (mn mx res : Z) (v : Q) :
  (0 < res)%Z -> (mn <= mx)%Z ->
  let k := grow_count mn mx res v in
  let left := Qlt_bool v (inject_Z mn) in
  (0 <= k)%Z /\
  inject_Z (if left then mn - k * res else mn) <= v /\
  v < inject_Z (if left then mx else mx + k * res).
Proof.
  intros R MM. unfold grow_count.
  assert (MMq : inject_Z mn <= inject_Z mx) by (rewrite <- Zle_Qle; auto).
  assert (Rq : 0 < inject_Z res) by (apply inject_Z_pos; auto).
  destruct (Qle_bool (inject_Z mn) v) eqn:E1; destruct (Qlt_bool v (inject_Z mx)) eqn:E2; simpl andb; cbv iota.
  - (* inside *)
    apply Qle_bool_iff in E1. apply Qlt_bool_iff in E2.
    assert (Qlt_bool v (inject_Z mn) = false) as -> by (apply Qlt_bool_false; auto).
    unfold ceil_div. simpl. split; [lia|]. split; auto.
    rewrite Z.add_0_r. auto.
  - (* beyond the maximum *)
    apply Qle_bool_iff in E1. apply Qlt_bool_false in E2.
    assert (Qlt_bool v (inject_Z mn) = false) as -> by (apply Qlt_bool_false; auto).
    set (c := (Qfloor (Qabs (v - inject_Z mx)) + 1)%Z).
    assert (C0 : (0 <= c)%Z).
    { unfold c. assert (0 <= Qfloor (Qabs (v - inject_Z mx)))%Z; [|lia].
      apply Qfloor_ge_iff. change (inject_Z 0) with 0. apply Qabs_nonneg. }
    split; [apply ceil_div_nonneg; auto|]. split; auto.
    pose proof (ceil_div_ge c res R) as G.
    assert (v - inject_Z mx < inject_Z c).
    { unfold c. rewrite Qabs_pos by lra. apply Qlt_floor. }
    rewrite Zle_Qle in G. rewrite inject_Z_plus. rewrite !inject_Z_mult in *.
    set (pp := inject_Z (ceil_div c res) * inject_Z res) in *. clearbody pp. lra.
  - (* below the minimum *)
    apply Qle_bool_false in E1.
    assert (Qlt_bool v (inject_Z mn) = true) as -> by (apply Qlt_bool_iff; auto).
    set (c := Z.abs (Qfloor (v - inject_Z mn))).
    split; [apply ceil_div_nonneg; auto; unfold c; lia|]. split; [|lra].
    pose proof (ceil_div_ge c res R) as G.
    assert (inject_Z mn - v <= inject_Z c).
    { unfold c. pose proof (Qfloor_le (v - inject_Z mn)) as F.
      assert (Qfloor (v - inject_Z mn) < 0)%Z by (apply Qfloor_lt_iff; change (inject_Z 0) with 0; lra).
      rewrite Z.abs_neq by lia. rewrite inject_Z_opp. lra. }
    rewrite Zle_Qle in G. unfold Z.sub. rewrite inject_Z_plus, inject_Z_opp. rewrite !inject_Z_mult in *.
    set (pp := inject_Z (ceil_div c res) * inject_Z res) in *. clearbody pp. lra.
  - (* below the minimum (and, vacuously, not below the maximum) *)
    apply Qle_bool_false in E1. apply Qlt_bool_false in E2. exfalso. lra.
Qed.

Definition expanded (g : grid) (p : vec) : grid :=
  let kx := grow_count (g_minx g) (g_maxx g) (g_res g) (vx p) in
  let kz := grow_count (g_minz g) (g_maxz g) (g_res g) (vz p) in
  let left := Qlt_bool (vx p) (inject_Z (g_minx g)) in
  let up := Qlt_bool (vz p) (inject_Z (g_minz g)) in
  mkGrid (g_res g) (g_planecount g) (g_mergecount g)
      (if left then g_minx g - kx * g_res g else g_minx g)%Z
      (if up then g_minz g - kz * g_res g else g_minz g)%Z
      (if left then g_maxx g else g_maxx g + kx * g_res g)%Z
      (if up then g_maxz g else g_maxz g + kz * g_res g)%Z
      (padz up (Z.to_nat kz) (Z.to_nat kx + ncols g) (padx left (Z.to_nat kx) (g_cells g))) (g_planes g).

Definition inside (g : grid) (p : vec) : bool :=
  (Qle_bool (inject_Z (g_minx g)) (vx p) && Qlt_bool (vx p) (inject_Z (g_maxx g))) &&
  (Qle_bool (inject_Z (g_minz g)) (vz p) && Qlt_bool (vz p) (inject_Z (g_maxz g))).

Lemma expand_unfold g p : expand g p = if inside g p then g else expanded g p.
Proof.
  unfold expand, expanded, inside, grow_count.
  destruct (Qle_bool (inject_Z (g_minx g)) (vx p) && Qlt_bool (vx p) (inject_Z (g_maxx g))) eqn:EX;
  destruct (Qle_bool (inject_Z (g_minz g)) (vz p) && Qlt_bool (vz p) (inject_Z (g_maxz g))) eqn:EZ;
  simpl andb; cbv iota; auto; unfold padz, padx; reflexivity.
Qed.

Definition contains (g : grid) (p : vec) : Prop :=
  inject_Z (g_minx g) <= vx p /\ vx p < inject_Z (g_maxx g) /\
  inject_Z (g_minz g) <= vz p /\ vz p < inject_Z (g_maxz g).

Definition wider (g g' : grid) : Prop :=
  (g_minx g' <= g_minx g)%Z /\ (g_maxx g <= g_maxx g')%Z /\
  (g_minz g' <= g_minz g)%Z /\ (g_maxz g <= g_maxz g')%Z.

Lemma lattice_le g : lattice g -> (g_minx g <= g_maxx g)%Z /\ (g_minz g <= g_maxz g)%Z.
Proof. intros (R & X & Z). rewrite X, Z. nia. Qed.

Lemma expanded_pads g p :
  rect g -> lattice g ->
  let kx := grow_count (g_minx g) (g_maxx g) (g_res g) (vx p) in
  let kz := grow_count (g_minz g) (g_maxz g) (g_res g) (vz p) in
  (0 <= kx)%Z -> (0 <= kz)%Z ->
  expanded g p = gpadz (gpadx g (Qlt_bool (vx p) (inject_Z (g_minx g))) (Z.to_nat kx))
                       (Qlt_bool (vz p) (inject_Z (g_minz g))) (Z.to_nat kz).
Proof.
  intros Rc L kx kz KX KZ. unfold expanded, gpadz. rewrite ncols_gpadx by auto.
  fold kx kz. unfold gpadx. cbn [g_res g_planecount g_mergecount g_minx g_minz g_maxx g_maxz g_cells g_planes].
  rewrite !Z2Nat.id by auto. reflexivity.
Qed.

Lemma expand_spec g p :
  Inv g -> Inv (expand g p) /\ contains (expand g p) p /\ wider g (expand g p) /\
           g_planes (expand g p) = g_planes g /\ g_res (expand g p) = g_res g /\
           g_mergecount (expand g p) = g_mergecount g /\ g_planecount (expand g p) = g_planecount g.
Proof.
  intros I. pose proof (inv_lattice g I) as L. pose proof (inv_rect g I) as Rc.
  destruct (lattice_le g L) as (MX & MZ). pose proof L as (R & LX & LZ).
  pose proof (fit_1d (g_minx g) (g_maxx g) (g_res g) (vx p) R MX) as FX.
  pose proof (fit_1d (g_minz g) (g_maxz g) (g_res g) (vz p) R MZ) as FZ.
  cbv zeta in FX, FZ. destruct FX as (KX & FX1 & FX2). destruct FZ as (KZ & FZ1 & FZ2).
  rewrite expand_unfold. destruct (inside g p) eqn:IN.
  - (* inside: nothing changes *)
    split; auto. split; [|repeat split; lia].
    unfold inside in IN. apply andb_true_iff in IN. destruct IN as (EX & EZ).
    apply andb_true_iff in EX. apply andb_true_iff in EZ. destruct EX as (A & B). destruct EZ as (C & D).
    apply Qle_bool_iff in A. apply Qle_bool_iff in C. apply Qlt_bool_iff in B. apply Qlt_bool_iff in D.
    repeat split; auto.
  - (* grows *)
    split; [|split; [|split]].
    + rewrite expanded_pads by auto. apply Inv_gpadz. apply Inv_gpadx. exact I.
    + unfold contains, expanded. cbn [g_minx g_minz g_maxx g_maxz]. repeat split; auto.
    + unfold wider, expanded. cbn [g_minx g_minz g_maxx g_maxz].
      destruct (Qlt_bool (vx p) (inject_Z (g_minx g))); destruct (Qlt_bool (vz p) (inject_Z (g_minz g))); repeat split; nia.
    + repeat split; reflexivity.
Qed.

(* ================================================================== 6. mergeQuads *)
Lemma vred_x a : vx (vred a) == vx a. Proof. simpl. apply Qred_correct. Qed.
Lemma vred_y a : vy (vred a) == vy a. Proof. simpl. apply Qred_correct. Qed.
Lemma vred_z a : vz (vred a) == vz a. Proof. simpl. apply Qred_correct. Qed.

Lemma blend_geometry (e n : quad) :
  let b := blend_quad e n in
  vx (qmin b) == (1 - merge_blend) * vx (qmin e) + merge_blend * vx (qmin n) /\
  vx (qmax b) == (1 - merge_blend) * vx (qmax e) + merge_blend * vx (qmax n) /\
  vz (qmin b) == (1 - merge_blend) * vz (qmin e) + merge_blend * vz (qmin n) /\
  vz (qmax b) == (1 - merge_blend) * vz (qmax e) + merge_blend * vz (qmax n) /\
  vx (qe b) == (1 - merge_blend) * vx (qe e) + merge_blend * vx (qe n) /\
  vy (qe b) == (1 - merge_blend) * vy (qe e) + merge_blend * vy (qe n) /\
  vz (qe b) == (1 - merge_blend) * vz (qe e) + merge_blend * vz (qe n) /\
  qn b = qn e.
Proof.
  unfold blend_quad, qmin, qmax. cbn [qc qe qn vsub vadd vx vy vz vmul vred].
  rewrite !Qred_correct. repeat split; ring.
Qed.

Lemma blend_ok g e n :
  pos_ext e -> pos_ext n -> vy (qe e) == 0 -> vy (qe n) == 0 -> in_bounds g e -> in_bounds g n ->
  pos_ext (blend_quad e n) /\ vy (qe (blend_quad e n)) == 0 /\ in_bounds g (blend_quad e n).
Proof.
  intros (E1 & E2) (N1 & N2) EY NY (A1 & A2 & A3 & A4) (B1 & B2 & B3 & B4).
  destruct (blend_geometry e n) as (G1 & G2 & G3 & G4 & G5 & G6 & G7 & _).
  unfold pos_ext, in_bounds. rewrite G1, G2, G3, G4, G5, G6, G7. unfold merge_blend.
  repeat split; lra.
Qed.

Lemma set_plane_fields g id q cs mc :
  g_res (set_plane g id q cs mc) = g_res g /\ g_minx (set_plane g id q cs mc) = g_minx g /\
  g_minz (set_plane g id q cs mc) = g_minz g /\ g_maxx (set_plane g id q cs mc) = g_maxx g /\
  g_maxz (set_plane g id q cs mc) = g_maxz g /\ g_planecount (set_plane g id q cs mc) = g_planecount g.
Proof. repeat split. Qed.

Definition same_frame (g g' : grid) : Prop :=
  g_res g' = g_res g /\ g_minx g' = g_minx g /\ g_minz g' = g_minz g /\
  g_maxx g' = g_maxx g /\ g_maxz g' = g_maxz g /\
  g_planecount g' = g_planecount g /\ length (g_planes g') = length (g_planes g).

Lemma same_frame_refl g : same_frame g g.
Proof. repeat split. Qed.

Lemma same_frame_trans a b c : same_frame a b -> same_frame b c -> same_frame a c.
Proof. unfold same_frame. intuition congruence. Qed.

Lemma same_frame_bounds g g' q : same_frame g g' -> in_bounds g q -> in_bounds g' q.
Proof. unfold same_frame, in_bounds. intros (A & B & C & D & E & _). rewrite B, C, D, E. auto. Qed.

(* a plane inside the grid: both corners of its footprint are inside, so fitting the grid to them changes nothing *)
Lemma in_bounds_inside g q : pos_ext q -> in_bounds g q -> inside g (qmin q) = true /\ inside g (qmax q) = true.
Proof.
  intros (E1 & E2) (A1 & A2 & A3 & A4). unfold inside, Qlt_bool.
  assert (X : vx (qmin q) < vx (qmax q)) by (unfold qmin, qmax; cbn [vx vsub vadd]; lra).
  assert (Z : vz (qmin q) < vz (qmax q)) by (unfold qmin, qmax; cbn [vz vsub vadd]; lra).
  assert (T : forall a b, a <= b -> Qle_bool a b = true) by (intros a b Hab; apply Qle_bool_iff; exact Hab).
  assert (F : forall a b, a < b -> negb (Qle_bool b a) = true).
  { intros a b Hab. destruct (Qle_bool b a) eqn:Eb; [|reflexivity]. apply Qle_bool_iff in Eb. lra. }
  split.
  - rewrite (T _ _ A1), (T _ _ A3), (F (vx (qmin q)) (inject_Z (g_maxx g))), (F (vz (qmin q)) (inject_Z (g_maxz g))) by lra. reflexivity.
  - rewrite (T (inject_Z (g_minx g)) (vx (qmax q))), (T (inject_Z (g_minz g)) (vz (qmax q))), (F _ _ A2), (F _ _ A4) by lra. reflexivity.
Qed.

(* finding F14: in exact arithmetic the repaired mergeQuads is the old one *)
Lemma merge_quads_fit_noop g h nq eq :
  Inv g -> nth_error (g_planes g) h = Some eq ->
  pos_ext nq -> vy (qe nq) == 0 -> in_bounds g nq ->
  merge_quads g h nq = merge_quads_cells g h nq.
Proof.
  intros I Hh NP NY NB. unfold merge_quads. rewrite Hh. cbv zeta.
  destruct (inv_planes g I h eq Hh) as ((EP & EH & EB) & _).
  destruct (blend_ok g eq nq EP NP (proj1 EH) NY EB NB) as (BP & _ & BB).
  destruct (in_bounds_inside g (blend_quad eq nq) BP BB) as (I1 & I2).
  rewrite (expand_unfold g), I1. rewrite (expand_unfold g), I2. reflexivity.
Qed.

Lemma merge_quads_spec g h nq eq :
  Inv g -> nth_error (g_planes g) h = Some eq ->
  pos_ext nq -> vy (qe nq) == 0 -> in_bounds g nq ->
  Inv (merge_quads g h nq) /\ same_frame g (merge_quads g h nq) /\
  nth_error (g_planes (merge_quads g h nq)) h = Some (blend_quad eq nq) /\
  (forall id, id <> h -> nth_error (g_planes (merge_quads g h nq)) id = nth_error (g_planes g) id).
Proof.
  intros I0 Hh NP NY NB. rewrite (merge_quads_fit_noop g h nq eq I0 Hh NP NY NB). revert I0 Hh NP NY NB.
  change (Inv g -> nth_error (g_planes g) h = Some eq -> pos_ext nq -> vy (qe nq) == 0 -> in_bounds g nq ->
    Inv (merge_quads_cells g h nq) /\ same_frame g (merge_quads_cells g h nq) /\
    nth_error (g_planes (merge_quads_cells g h nq)) h = Some (blend_quad eq nq) /\
    (forall id, id <> h -> nth_error (g_planes (merge_quads_cells g h nq)) id = nth_error (g_planes g) id)).
  intros [Rc L I P C] Hh NP NY NB.
  destruct (P h eq Hh) as ((EP & EH & EB) & EReg).
  destruct (blend_ok g eq nq EP NP (proj1 EH) NY EB NB) as (BP & BY & BB).
  destruct (blend_geometry eq nq) as (_ & _ & _ & _ & _ & _ & _ & BN).
  assert (Hlt : (h < length (g_planes g))%nat) by (apply nth_error_Some; congruence).
  unfold merge_quads_cells. rewrite Hh. unfold footprint.
  set (cs' := merge_cells _ _ _ _ _ _ _ _ _ _).
  destruct (merge_cells_shape (g_cells g) h
              (Z.to_nat (cellx g (vx (qmin eq)))) (Z.to_nat (cellz g (vz (qmin eq))))
              (Z.to_nat (cellx g (vx (qmax eq)))) (Z.to_nat (cellz g (vz (qmax eq))))
              (Z.to_nat (cellx g (vx (qmin (blend_quad eq nq))))) (Z.to_nat (cellz g (vz (qmin (blend_quad eq nq)))))
              (Z.to_nat (cellx g (vx (qmax (blend_quad eq nq))))) (Z.to_nat (cellz g (vz (qmax (blend_quad eq nq))))))
    as (SL & SW). fold cs' in SL, SW.
  set (g' := set_plane g h (blend_quad eq nq) cs' (g_mergecount g + 1)%N).
  assert (NR : nrows g' = nrows g) by (unfold nrows, g'; simpl; exact SL).
  assert (NC : ncols g' = ncols g) by (rewrite !ncols_width; unfold g'; simpl; apply SW).
  assert (LP : length (g_planes g') = length (g_planes g)) by (unfold g'; simpl; apply length_upd_nth).
  destruct Rc as (R1 & R2 & R3). pose proof L as (L1 & L2 & L3).
  split; [|split; [|split]].
  - constructor.
    + unfold rect. rewrite NR, NC. repeat split; auto. intros y Hy. unfold g'. simpl. rewrite SW. auto.
    + unfold lattice. rewrite NR, NC. unfold g'. simpl. auto.
    + intros y x id. rewrite LP. unfold g'. simpl. unfold cs'.
      apply (merge_cells_pres (fun l => In id l -> (id < length (g_planes g))%nat)).
      * intros l Hl Hi. apply in_app_or in Hi. destruct Hi as [Hi|[<-|[]]]; auto.
      * intros l Hl Hi. apply Hl. eapply in_swap_remove; eauto.
      * apply I.
    + intros id q Hq. unfold g' in Hq. simpl in Hq.
      destruct (Nat.eq_dec id h) as [->|Ne].
      * rewrite (nth_error_upd_nth_same (g_planes g) h (fun _ => blend_quad eq nq) eq Hh) in Hq.
        cbv beta in Hq. inversion Hq; subst q. clear Hq. split.
        { split; [exact BP|split; [|exact BB]]. unfold horiz. rewrite BN. destruct EH as (_ & E2 & E3 & E4). auto. }
        { intros y x Hy Hx Xr Yr. rewrite NR in Hy. rewrite NC in Hx.
          destruct (range_in_grid g (blend_quad eq nq) L BP BB) as (A1 & A2 & A3 & A4).
          destruct (range_in_grid g eq L EP EB) as (O1 & O2 & O3 & O4).
          unfold cx0, cx1, cz0, cz1 in *. unfold g'. simpl. unfold cs'.
          change (cellx g' ?v) with (cellx g v) in *. change (cellz g' ?v) with (cellz g v) in *.
          apply merge_cells_complete.
          - exact Hy.
          - rewrite R3; auto.
          - lia.
          - lia.
          - intros Ox Oy. apply EReg; auto; unfold cx0, cx1, cz0, cz1; lia. }
      * rewrite nth_error_upd_nth_other in Hq by auto. destruct (P id q Hq) as ((QP & QH & QB) & QReg). split.
        { split; [exact QP|split; [exact QH|exact QB]]. }
        { intros y x Hy Hx Xr Yr. rewrite NR in Hy. rewrite NC in Hx. unfold g'. simpl. unfold cs'.
          apply (merge_cells_pres (fun l => In id l)).
          - intros l Hl. apply in_or_app; auto.
          - intros l Hl. apply swap_remove_keeps; auto.
          - apply QReg; auto. }
    + unfold g'. simpl. rewrite length_upd_nth. exact C.
  - unfold same_frame. unfold g' in *. simpl. repeat split. apply length_upd_nth.
  - unfold g'. simpl. apply (nth_error_upd_nth_same (g_planes g) h (fun _ => blend_quad eq nq) eq Hh).
  - intros id Ne. unfold g'. simpl. apply nth_error_upd_nth_other. auto.
Qed.

(* ================================================================== 7. the merge loop *)
Definition qref_ok (g : grid) (r : qref) : Prop :=
  match r with QNew => True | QOld id => (id < length (g_planes g))%nat end.

Lemma merge_loop_spec fuel : forall g q cur,
  Inv g -> pos_ext q -> vy (qe q) == 0 -> in_bounds g q -> qref_ok g cur ->
  Inv (fst (merge_loop fuel g q cur)) /\ same_frame g (fst (merge_loop fuel g q cur)) /\
  (snd (merge_loop fuel g q cur) = Some QNew -> cur = QNew).
Proof.
  induction fuel as [|fuel IH]; intros g q cur I QP QY QB RO.
  - simpl. split; auto. split; [apply same_frame_refl|]. discriminate.
  - assert (Keep : Inv g /\ same_frame g g /\ (Some cur = Some QNew -> cur = QNew)).
    { split; auto. split; [apply same_frame_refl|]. intro E; inversion E; auto. }
    cbn [merge_loop].
    destruct (deref g q cur) as [qm|] eqn:D; [|exact Keep].
    assert (QM : pos_ext qm /\ vy (qe qm) == 0 /\ in_bounds g qm).
    { destruct cur as [|id]; simpl in D.
      - inversion D; subst; auto.
      - destruct (inv_planes g I id qm D) as ((A & (B & _) & C) & _). auto. }
    destruct QM as (MP & MY & MB).
    set (up := grid_intersect g (vertical_ray (qc qm) ray_reach)).
    set (down := grid_intersect g (vertical_ray (qc qm) (- ray_reach))).
    assert (Body : forall hit : option nat,
      let res :=
        match hit with
        | None => (g, Some cur)
        | Some h =>
            match nth_error (g_planes g) h with
            | None => (g, Some cur)
            | Some hq =>
                if equal_eps (vy (qc hq)) (vy (qc qm)) merge_epsilon && overlap hq qm then
                  let g' := merge_quads g h qm in
                  match nth_error (g_planes g') h, deref g' q cur with
                  | Some hq', Some qm' =>
                      if veq_bool (qc hq') (qc qm') then (g', None) else merge_loop fuel g' q (QOld h)
                  | _, _ => (g', None)
                  end
                else (g, Some cur)
            end
        end in
      Inv (fst res) /\ same_frame g (fst res) /\ (snd res = Some QNew -> cur = QNew)).
    { intros [h|]; [|exact Keep]. cbv zeta.
      destruct (nth_error (g_planes g) h) as [hq|] eqn:Hh; [|exact Keep].
      destruct (equal_eps (vy (qc hq)) (vy (qc qm)) merge_epsilon && overlap hq qm); [|exact Keep].
      destruct (merge_quads_spec g h qm hq I Hh MP MY MB) as (I' & SF & Nh & No).
      assert (Done : Inv (merge_quads g h qm) /\ same_frame g (merge_quads g h qm) /\ (@None qref = Some QNew -> cur = QNew)).
      { split; auto. split; auto. discriminate. }
      destruct (nth_error (g_planes (merge_quads g h qm)) h) as [hq'|]; [|exact Done].
      destruct (deref (merge_quads g h qm) q cur) as [qm'|]; [|exact Done].
      destruct (veq_bool (qc hq') (qc qm')); [exact Done|].
      assert (RO' : qref_ok (merge_quads g h qm) (QOld h)).
      { simpl. destruct SF as (_ & _ & _ & _ & _ & _ & LL). rewrite LL. apply nth_error_Some. congruence. }
      destruct (IH (merge_quads g h qm) q (QOld h) I' QP QY (same_frame_bounds _ _ _ SF QB) RO') as (A & B & Cc).
      split; auto. split; [eapply same_frame_trans; eauto|].
      intro E. apply Cc in E. discriminate. }
    destruct (ires_hit up) as [hu|] eqn:HU; destruct (ires_hit down) as [hd|] eqn:HD.
    + apply (Body (if ext_ltb (ires_t down) (ires_t up) then Some hd else Some hu)).
    + apply (Body (if ext_ltb (ires_t down) (ires_t up) then None else Some hu)).
    + apply (Body (if ext_ltb (ires_t down) (ires_t up) then Some hd else None)).
    + exact Keep.
Qed.

(* ================================================================== 8. the append case *)
Lemma append_cells_strip (x0 x1 id : nat) (ys : list nat) : forall cs w,
  (forall y, In y ys -> width cs y = w) ->
  fold_left (fun cs y =>
               fold_left (fun cs x => upd_cell cs y x (fun l => l ++ [id]))
                         (range_incl x0 (Nat.min x1 (length (nth y cs []) - 1))) cs) ys cs
  = strip cs ys (range_incl x0 (Nat.min x1 (w - 1))) (fun l => l ++ [id]).
Proof.
  induction ys as [|a ys IH]; intros cs w W; [reflexivity|].
  rewrite strip_unfold. cbn [fold_left].
  change (length (nth a cs [])) with (width cs a). rewrite (W a) by (left; auto).
  change (fold_left (fun cs0 x => upd_cell cs0 a x (fun l => l ++ [id])) (range_incl x0 (Nat.min x1 (w - 1))) cs)
    with (row_strip cs a (range_incl x0 (Nat.min x1 (w - 1))) (fun l => l ++ [id])).
  rewrite (IH _ w).
  - rewrite strip_unfold. reflexivity.
  - intros y Hy. destruct (row_strip_shape cs a (range_incl x0 (Nat.min x1 (w - 1))) (fun l => l ++ [id])) as (_ & Wd).
    rewrite Wd. apply W. right; auto.
Qed.

Lemma nth_error_app_last {A} (l : list A) a id q :
  nth_error (l ++ [a]) id = Some q -> (id < length l /\ nth_error l id = Some q)%nat \/ (id = length l /\ q = a).
Proof.
  intro H. destruct (Nat.lt_ge_cases id (length l)).
  - left. split; auto. rewrite nth_error_app1 in H; auto.
  - right. rewrite nth_error_app2 in H by auto.
    destruct (id - length l)%nat as [|k] eqn:E.
    + simpl in H. inversion H. split; auto. lia.
    + simpl in H. destruct k; discriminate.
Qed.

Lemma append_plane_spec g q :
  Inv g -> pos_ext q -> horiz q -> in_bounds g q -> Inv (append_plane g q).
Proof.
  intros [Rc L I P C] QP QH QB. pose proof Rc as (R1 & R2 & R3). pose proof L as (L1 & L2 & L3).
  destruct (range_in_grid g q L QP QB) as (A1 & A2 & A3 & A4). unfold cx0, cx1, cz0, cz1 in *.
  unfold append_plane, footprint.
  rewrite (append_cells_strip _ _ _ _ (g_cells g) (ncols g)).
  2:{ intros y Hy. apply in_range_incl in Hy. apply R3. lia. }
  set (ys := range_incl _ _). set (xs := range_incl _ _).
  set (n := length (g_planes g)).
  set (cs' := strip (g_cells g) ys xs (fun l => l ++ [n])).
  destruct (strip_shape (g_cells g) ys xs (fun l => l ++ [n])) as (SL & SW). fold cs' in SL, SW.
  set (g2 := mkGrid _ _ _ _ _ _ _ _ _).
  assert (NR : nrows g2 = nrows g) by (unfold nrows, g2; simpl; exact SL).
  assert (NC : ncols g2 = ncols g) by (rewrite !ncols_width; unfold g2; simpl; apply SW).
  constructor.
  - unfold rect. rewrite NR, NC. repeat split; auto. intros y Hy. unfold g2. simpl. rewrite SW. apply R3. auto.
  - unfold lattice. rewrite NR, NC. unfold g2. simpl. auto.
  - intros y x id. unfold g2. simpl. rewrite app_length. simpl. unfold cs'.
    apply (strip_pres (fun l => In id l -> (id < n + 1)%nat)).
    + intros l Hl Hi. apply in_app_or in Hi. destruct Hi as [Hi|[<-|[]]]; auto. lia.
    + intro Hi. apply I in Hi. fold n in Hi. lia.
  - intros id p Hp. unfold g2 in Hp. simpl in Hp. apply nth_error_app_last in Hp. destruct Hp as [(Hlt & Hp)|(-> & ->)].
    + destruct (P id p Hp) as (PO & Reg). split; [exact PO|].
      intros y x Hy Hx Xr Yr. rewrite NR in Hy. rewrite NC in Hx. unfold g2. simpl. unfold cs'.
      apply (strip_pres (fun l => In id l)).
      * intros l Hl. apply in_or_app; auto.
      * apply Reg; auto.
    + split; [split; [exact QP|split; [exact QH|exact QB]]|].
      intros y x Hy Hx Xr Yr. rewrite NR in Hy. rewrite NC in Hx. unfold g2. simpl. unfold cs'.
      unfold cx0, cx1, cz0, cz1 in Xr, Yr.
      change (cellx g2 ?v) with (cellx g v) in Xr.
      change (cellz g2 ?v) with (cellz g v) in Yr.
      apply (strip_hit (fun l => In n l)).
      * intros l Hl. apply in_or_app; auto.
      * intros l. apply in_or_app. right. left. reflexivity.
      * unfold ys. apply in_range_incl. lia.
      * unfold xs. apply in_range_incl. lia.
      * exact Hy.
      * rewrite R3; auto.
  - unfold g2. simpl. rewrite app_length. simpl. rewrite C. fold n. lia.
Qed.


(* ================================================================== 9. InsertQuad and insertion sequences *)
Lemma Qnum_pos q : 0 < q -> (0 < Qnum q)%Z.
Proof. unfold Qlt. simpl. lia. Qed.

Lemma Qsgn_pos q : 0 < q -> Qsgn q == 1.
Proof.
  intro H. unfold Qsgn. pose proof (Qnum_pos q H). destruct (Qnum q); try lia. reflexivity.
Qed.

Lemma calc_normal_horiz c e :
  0 < vx e -> vy e == 0 -> 0 < vz e ->
  vx (calc_normal c e) == 0 /\ vy (calc_normal c e) == 1 /\ vz (calc_normal c e) == 0.
Proof.
  intros EX EY EZ. unfold calc_normal.
  set (w := cross _ _).
  assert (WX : vx w == 0) by (unfold w; cbn [cross vsub vadd vx vy vz]; rewrite EY; ring).
  assert (WZ : vz w == 0) by (unfold w; cbn [cross vsub vadd vx vy vz]; rewrite EY; ring).
  assert (WY : vy w == vz e * vx e) by (unfold w; cbn [cross vsub vadd vx vy vz]; ring).
  unfold normalize.
  assert (isz (vx w) = true) as -> by (apply isz_iff; auto).
  assert (isz (vz w) = true) as -> by (apply isz_iff; auto).
  cbn [andb vx vy vz]. repeat split; try reflexivity.
  apply Qsgn_pos. rewrite WY. apply Qmult_lt_0_compat; auto.
Qed.

Lemma valid_quad_props q :
  valid_quad q -> pos_ext q /\ horiz q.
Proof.
  intros (EX & EY & EZ & _ & _ & _ & _ & _ & _ & (N1 & N2 & N3)). split; [split; auto|].
  unfold horiz. rewrite N1, N2, N3. split; auto. apply calc_normal_horiz; auto.
Qed.

Lemma insert_with_Inv fuel g q : Inv g -> valid_quad q -> Inv (insert_with fuel g q).
Proof.
  intros I V. destruct (valid_quad_props q V) as (QP & QH).
  unfold insert_with.
  destruct (expand_spec g (qmin q) I) as (I1 & C1 & W1 & _).
  destruct (expand_spec (expand g (qmin q)) (qmax q) I1) as (I2 & C2 & W2 & _).
  set (g1 := expand (expand g (qmin q)) (qmax q)) in *.
  assert (QB : in_bounds g1 q).
  { destruct C1 as (A1 & A2 & A3 & A4). destruct C2 as (B1 & B2 & B3 & B4). destruct W2 as (X1 & X2 & X3 & X4).
    rewrite Zle_Qle in X1, X2, X3, X4. unfold in_bounds. repeat split; auto; lra. }
  destruct (merge_loop_spec fuel g1 q QNew I2 QP (proj1 QH) QB Logic.I) as (I3 & SF & _).
  destruct (merge_loop fuel g1 q QNew) as (g2, r). simpl in I3, SF.
  destruct r as [[|id]|]; auto.
  apply append_plane_spec; auto. eapply same_frame_bounds; eauto.
Qed.

Lemma Inv_new_grid res : (0 < res)%Z -> Inv (new_grid 1 1 res).
Proof.
  intro R. unfold new_grid. assert ((res <=? 0)%Z = false) as -> by (apply Z.leb_gt; auto). simpl repeat.
  constructor.
  - unfold rect, nrows, ncols. simpl. repeat split; try lia. intros y Hy. destruct y; [reflexivity|lia].
  - unfold lattice, nrows, ncols. cbn [g_res g_minx g_maxx g_minz g_maxz g_cells length hd]. repeat split; auto; lia.
  - intros y x id. simpl. destruct y as [|[|y]]; destruct x as [|[|x]]; simpl; tauto.
  - intros id q H. simpl in H. destruct id; discriminate.
  - reflexivity.
Qed.

Definition inserts (fuel : nat) (res : Z) (qs : list quad) : grid :=
  fold_left (insert_with fuel) qs (new_grid 1 1 res).

Lemma fold_insert_Inv fuel qs : forall g, Inv g -> Forall valid_quad qs -> Inv (fold_left (insert_with fuel) qs g).
Proof.
  induction qs as [|q qs IH]; intros g I F; simpl; auto.
  inversion F; subst. apply IH; auto. apply insert_with_Inv; auto.
Qed.

Theorem inserts_Inv fuel res qs : (0 < res)%Z -> Forall valid_quad qs -> Inv (inserts fuel res qs).
Proof. intros R F. apply fold_insert_Inv; auto. apply Inv_new_grid; auto. Qed.

(* ================================================================== 10. the statements of C20 *)
(* the footprint of q meets the half-open cell (row y, column x) of g *)
Definition overlaps_cell (g : grid) (q : quad) (y x : nat) : Prop :=
  let res := inject_Z (g_res g) in
  let lox := inject_Z (g_minx g) + inject_Z (Z.of_nat x) * res in
  let loz := inject_Z (g_minz g) + inject_Z (Z.of_nat y) * res in
  lox <= vx (qmax q) /\ vx (qmin q) < lox + res /\ loz <= vz (qmax q) /\ vz (qmin q) < loz + res.

Definition stored (g : grid) (id : nat) (q : quad) : Prop := nth_error (g_planes g) id = Some q.

Lemma overlaps_cell_range g q y x :
  (0 < g_res g)%Z ->
  overlaps_cell g q y x <->
  (cx0 g q <= Z.of_nat x <= cx1 g q)%Z /\ (cz0 g q <= Z.of_nat y <= cz1 g q)%Z.
Proof.
  intro R. unfold overlaps_cell, cx0, cx1, cz0, cz1, cellx, cellz. cbv zeta.
  rewrite (cell_coord_ge (g_res g) R (g_minx g) (Z.of_nat x) (vx (qmax q))).
  rewrite (cell_coord_ge (g_res g) R (g_minz g) (Z.of_nat y) (vz (qmax q))).
  assert (LX : (cell_coord (g_res g) (g_minx g) (vx (qmin q)) <= Z.of_nat x)%Z <->
               vx (qmin q) < inject_Z (g_minx g) + inject_Z (Z.of_nat x) * inject_Z (g_res g) + inject_Z (g_res g)).
  { rewrite <- Z.lt_succ_r. unfold Z.succ. rewrite (cell_coord_lt (g_res g) R). rewrite inject_Z_plus.
    change (inject_Z 1) with 1. split; intro H; ring_simplify; ring_simplify in H; exact H. }
  assert (LZ : (cell_coord (g_res g) (g_minz g) (vz (qmin q)) <= Z.of_nat y)%Z <->
               vz (qmin q) < inject_Z (g_minz g) + inject_Z (Z.of_nat y) * inject_Z (g_res g) + inject_Z (g_res g)).
  { rewrite <- Z.lt_succ_r. unfold Z.succ. rewrite (cell_coord_lt (g_res g) R). rewrite inject_Z_plus.
    change (inject_Z 1) with 1. split; intro H; ring_simplify; ring_simplify in H; exact H. }
  rewrite LX, LZ. tauto.
Qed.

Section Statements.
  Variable g : grid.
  Hypothesis HI : Inv g.

  (* every stored plane is registered in every cell its footprint overlaps *)
  Lemma Inv_complete id q y x :
    stored g id q -> (y < nrows g)%nat -> (x < ncols g)%nat -> overlaps_cell g q y x ->
    In id (get_cell (g_cells g) y x).
  Proof.
    intros S Hy Hx O. destruct (inv_planes g HI id q S) as (_ & Reg).
    apply overlaps_cell_range in O; [|apply (inv_lattice g HI)]. destruct O. apply Reg; auto.
  Qed.

  (* the bounds contain every stored footprint *)
  Lemma Inv_bounds id q : stored g id q -> in_bounds g q.
  Proof. intro S. destruct (inv_planes g HI id q S) as ((_ & _ & B) & _). exact B. Qed.

  (* every stored plane occupies at least the cell of its centre *)
  Lemma Inv_centre_cell id q :
    stored g id q ->
    let y := Z.to_nat (cellz g (vz (qc q))) in let x := Z.to_nat (cellx g (vx (qc q))) in
    (y < nrows g)%nat /\ (x < ncols g)%nat /\ In id (get_cell (g_cells g) y x) /\
    (0 <= cellz g (vz (qc q)))%Z /\ (0 <= cellx g (vx (qc q)))%Z.
  Proof.
    intros S. destruct (inv_planes g HI id q S) as ((PE & _ & B) & Reg).
    pose proof (inv_lattice g HI) as L. pose proof L as (R & _ & _).
    destruct (range_in_grid g q L PE B) as (A1 & A2 & A3 & A4).
    assert (MX : (cx0 g q <= cellx g (vx (qc q)) <= cx1 g q)%Z).
    { destruct PE as (E1 & E2). unfold cx0, cx1, cellx. split; apply cell_coord_mono; auto; unfold qmin, qmax; simpl; lra. }
    assert (MZ : (cz0 g q <= cellz g (vz (qc q)) <= cz1 g q)%Z).
    { destruct PE as (E1 & E2). unfold cz0, cz1, cellz. split; apply cell_coord_mono; auto; unfold qmin, qmax; simpl; lra. }
    cbv zeta. repeat split; try lia.
    apply Reg; try lia; rewrite Z2Nat.id by lia; lia.
  Qed.
End Statements.

(* ---- dedup *)
Lemma mem_in id l : mem id l = true <-> In id l.
Proof.
  unfold mem. rewrite existsb_exists. split.
  - intros (x & I & E). apply Nat.eqb_eq in E. subst. auto.
  - intro I. exists id. split; auto. apply Nat.eqb_refl.
Qed.

Lemma dedup_spec l : forall seen,
  NoDup (dedup seen l) /\ forall x, In x (dedup seen l) <-> (In x l /\ ~ In x seen).
Proof.
  induction l as [|a l IH]; intro seen; simpl.
  - split; [constructor|]. intro x. tauto.
  - destruct (existsb (Nat.eqb a) seen) eqn:E.
    + fold (mem a seen) in E. apply mem_in in E. destruct (IH seen) as (N & S). split; auto.
      intro x. rewrite S. split; [tauto|]. intros ([->|H] & NS); tauto.
    + fold (mem a seen) in E. assert (NA : ~ In a seen) by (intro H; apply mem_in in H; congruence).
      destruct (IH (a :: seen)) as (N & S). split.
      * constructor; auto. intro H. apply S in H. destruct H as (_ & H). apply H. left; auto.
      * intro x. simpl. rewrite S. simpl. split.
        -- intros [<-|(H1 & H2)]; [tauto|]. split; [tauto|]. intro H3. apply H2. right; auto.
        -- intros ([<-|H1] & H2); [tauto|]. destruct (Nat.eq_dec a x); [tauto|]. right. split; auto. intros [H3|H3]; tauto.
Qed.

Lemma in_cells_iff (cs : cells_t) id :
  In id (concat (concat cs)) <-> exists y x, In id (get_cell cs y x).
Proof.
  split.
  - intro H. apply in_concat in H. destruct H as (cell & H1 & H2).
    apply in_concat in H1. destruct H1 as (row & H3 & H4).
    destruct (In_nth _ _ [] H3) as (y & Hy & Ey). destruct (In_nth _ _ [] H4) as (x & Hx & Ex).
    exists y, x. unfold get_cell. rewrite Ey, Ex. exact H2.
  - intros (y & x & H). unfold get_cell in H.
    destruct (Nat.lt_ge_cases y (length cs)) as [Hy|Hy].
    + destruct (Nat.lt_ge_cases x (length (nth y cs []))) as [Hx|Hx].
      * apply in_concat. exists (nth x (nth y cs []) []). split; auto.
        apply in_concat. exists (nth y cs []). split; apply nth_In; auto.
      * rewrite (nth_overflow (nth y cs [])) in H by auto. destruct H.
    + rewrite (nth_overflow cs) in H by auto. destruct x; destruct H.
Qed.

Lemma NoDup_range_length (l : list nat) n :
  NoDup l -> (forall x, In x l <-> (x < n)%nat) -> length l = n.
Proof.
  intros N S. rewrite <- (seq_length n 0). apply Permutation_length.
  apply NoDup_Permutation; auto. apply seq_NoDup.
  intro x. rewrite S, in_seq. lia.
Qed.

Section Statements2.
  Variable g : grid.
  Hypothesis HI : Inv g.

  Lemma stored_some id : (id < length (g_planes g))%nat -> exists q, stored g id q.
  Proof. intro H. destruct (nth_error (g_planes g) id) eqn:E; [eauto|]. apply nth_error_None in E. lia. Qed.

  Lemma in_some_cell_iff id : (exists y x, In id (get_cell (g_cells g) y x)) <-> (id < length (g_planes g))%nat.
  Proof.
    split.
    - intros (y & x & H). eapply (inv_ids g HI); eauto.
    - intro H. destruct (stored_some id H) as (q & S).
      destruct (Inv_centre_cell g HI id q S) as (_ & _ & I & _). eauto.
  Qed.

  (* plane count = number of distinct stored planes (distinct plane indices occurring in the cells) *)
  Lemma Inv_plane_count :
    g_planecount g = N.of_nat (length (all_ids g)) /\ g_planecount g = N.of_nat (length (g_planes g)).
  Proof.
    split; [|apply (inv_count g HI)]. rewrite (inv_count g HI). f_equal. symmetry.
    unfold all_ids. destruct (dedup_spec (concat (concat (g_cells g))) []) as (N & S).
    apply NoDup_range_length; auto.
    intro x. rewrite S. rewrite in_cells_iff. rewrite in_some_cell_iff. simpl. tauto.
  Qed.
End Statements2.

(* ================================================================== 11. region query and vertical ray *)
Definition covers (g : grid) (lo hi : vec) : Prop :=
  vx lo <= inject_Z (g_minx g) /\ vz lo <= inject_Z (g_minz g) /\
  inject_Z (g_maxx g) <= vx hi /\ inject_Z (g_maxz g) <= vz hi.

Lemma cell_coord_unique res mn k v :
  (0 < res)%Z ->
  inject_Z mn + inject_Z k * inject_Z res <= v ->
  v < inject_Z mn + inject_Z (k + 1) * inject_Z res ->
  cell_coord res mn v = k.
Proof.
  intros R A B. apply (cell_coord_ge res R) in A. apply (cell_coord_lt res R) in B. lia.
Qed.

Lemma cell_coord_ext res mn a b : (0 < res)%Z -> a == b -> cell_coord res mn a = cell_coord res mn b.
Proof.
  intros R E. apply Z.le_antisymm; apply cell_coord_mono; auto; rewrite E; apply Qle_refl.
Qed.

Section Queries.
  Variable g : grid.
  Hypothesis HI : Inv g.

  Lemma Inv_region lo hi :
    covers g lo hi ->
    NoDup (get_region g lo hi) /\
    forall id, In id (get_region g lo hi) <-> (id < length (g_planes g))%nat.
  Proof.
    intros (C1 & C2 & C3 & C4). pose proof (inv_lattice g HI) as (R & LX & LZ).
    pose proof (inv_rect g HI) as (R1 & R2 & R3).
    assert (Rq : 0 < inject_Z (g_res g)) by (apply inject_Z_pos; auto).
    unfold get_region.
    assert (Meets : Qle_bool (Qmax (vx lo) (inject_Z (g_minx g))) (Qmin (vx hi) (inject_Z (g_maxx g))) &&
                    Qle_bool (Qmax (vz lo) (inject_Z (g_minz g))) (Qmin (vz hi) (inject_Z (g_maxz g))) = true).
    { apply andb_true_intro. split; apply Qle_bool_iff.
      - rewrite (Q.max_r _ _ C1), (Q.min_r _ _ C3), LX, inject_Z_plus, inject_Z_mult.
        assert (0 <= inject_Z (Z.of_nat (ncols g))) by (change 0 with (inject_Z 0); rewrite <- Zle_Qle; lia).
        pose proof (Qmult_le_0_compat _ _ H (Qlt_le_weak _ _ Rq)). lra.
      - rewrite (Q.max_r _ _ C2), (Q.min_r _ _ C4), LZ, inject_Z_plus, inject_Z_mult.
        assert (0 <= inject_Z (Z.of_nat (nrows g))) by (change 0 with (inject_Z 0); rewrite <- Zle_Qle; lia).
        pose proof (Qmult_le_0_compat _ _ H (Qlt_le_weak _ _ Rq)). lra. }
    rewrite Meets. cbn [negb].
    assert (X0 : cellx g (Qmax (vx lo) (inject_Z (g_minx g))) = 0%Z).
    { unfold cellx. apply cell_coord_unique; auto.
      - change (inject_Z 0) with 0. pose proof (Q.le_max_r (vx lo) (inject_Z (g_minx g))). lra.
      - change (inject_Z (0 + 1)) with 1. rewrite (Q.max_r _ _ C1). lra. }
    assert (Y0 : cellz g (Qmax (vz lo) (inject_Z (g_minz g))) = 0%Z).
    { unfold cellz. apply cell_coord_unique; auto.
      - change (inject_Z 0) with 0. pose proof (Q.le_max_r (vz lo) (inject_Z (g_minz g))). lra.
      - change (inject_Z (0 + 1)) with 1. rewrite (Q.max_r _ _ C2). lra. }
    assert (X1 : cellx g (Qmin (vx hi) (inject_Z (g_maxx g))) = Z.of_nat (ncols g)).
    { unfold cellx. apply cell_coord_unique; auto; rewrite (Q.min_r _ _ C3); rewrite LX;
        rewrite !inject_Z_plus, !inject_Z_mult; [apply Qle_refl|].
      change (inject_Z 1) with 1. set (a := inject_Z (Z.of_nat (ncols g))). ring_simplify. lra. }
    assert (Y1 : cellz g (Qmin (vz hi) (inject_Z (g_maxz g))) = Z.of_nat (nrows g)).
    { unfold cellz. apply cell_coord_unique; auto; rewrite (Q.min_r _ _ C4); rewrite LZ;
        rewrite !inject_Z_plus, !inject_Z_mult; [apply Qle_refl|].
      change (inject_Z 1) with 1. set (a := inject_Z (Z.of_nat (nrows g))). ring_simplify. lra. }
    rewrite X0, Y0, X1, Y1. rewrite !Nat2Z.id. change (Z.to_nat 0) with 0%nat.
    destruct (dedup_spec (flat_map (fun y => flat_map (fun x => get_cell (g_cells g) y x) (range_excl 0 (ncols g))) (range_excl 0 (nrows g))) [])
      as (N & S).
    split; auto. intro id. rewrite S. rewrite in_flat_map. split.
    - intros ((y & Hy & H) & _). apply in_flat_map in H. destruct H as (x & Hx & H).
      eapply (inv_ids g HI); eauto.
    - intro H. destruct (stored_some g id H) as (q & St).
      destruct (Inv_centre_cell g HI id q St) as (A & B & C & _).
      split; [|simpl; tauto].
      eexists. split; [apply in_range_excl; split; [apply Nat.le_0_l|exact A]|].
      apply in_flat_map. eexists. split; [apply in_range_excl; split; [apply Nat.le_0_l|exact B]|]. exact C.
  Qed.

End Queries.

(* the scan of a cell returns a plane as soon as one plane of the cell is hit *)
Definition scan_good (st : option nat * ext) : Prop := exists b t, st = (Some b, Fin t).

Lemma scan_cell_good r planes ids : forall best tmin,
  scan_good (best, tmin) -> scan_good (scan_cell r planes ids best tmin).
Proof.
  induction ids as [|a ids IH]; intros best tmin G; cbn [scan_cell]; auto.
  destruct (nth_error planes a) as [q|]; auto.
  destruct (ray_quad r q) as [t|]; auto.
  destruct (ext_ltb (Fin t) tmin); auto. apply IH. exists a, t. reflexivity.
Qed.

Lemma scan_cell_some r planes ids : forall best tmin id q t,
  scan_good (best, tmin) \/ (best = None /\ tmin = PInf) ->
  In id ids -> nth_error planes id = Some q -> ray_quad r q = Some t ->
  scan_good (scan_cell r planes ids best tmin).
Proof.
  induction ids as [|a ids IH]; intros best tmin id q t J I Hq Hr; [destruct I|].
  cbn [scan_cell]. destruct (Nat.eq_dec a id) as [->|Ne].
  - rewrite Hq, Hr. destruct (ext_ltb (Fin t) tmin) eqn:E.
    + apply scan_cell_good. exists id, t. reflexivity.
    + apply scan_cell_good. destruct J as [G|(_ & ->)]; auto. simpl in E. discriminate.
  - destruct I as [E|I]; [congruence|].
    destruct (nth_error planes a) as [qa|]; [|eapply IH; eauto].
    destruct (ray_quad r qa) as [ta|]; [|eapply IH; eauto].
    destruct (ext_ltb (Fin ta) tmin); [|eapply IH; eauto].
    eapply IH; eauto. left. exists a, ta. reflexivity.
Qed.

(* a vertical ray through the centre of q whose end points lie on either side of (or on) the plane *)
Definition spans (r : ray) (q : quad) : Prop :=
  vx (rfrom r) == vx (qc q) /\ vx (rto r) == vx (qc q) /\
  vz (rfrom r) == vz (qc q) /\ vz (rto r) == vz (qc q) /\
  ((vy (rfrom r) <= vy (qc q) /\ vy (qc q) <= vy (rto r) /\ vy (rfrom r) < vy (rto r)) \/
   (vy (rto r) <= vy (qc q) /\ vy (qc q) <= vy (rfrom r) /\ vy (rto r) < vy (rfrom r))).

Lemma range_epsilon_pos : 0 < range_epsilon.
Proof. reflexivity. Qed.

Lemma ray_quad_spans r q :
  pos_ext q -> horiz q -> spans r q -> exists t, ray_quad r q = Some t.
Proof.
  intros (EX & EZ) (EY & NX & NY & NZ) (FX & TX & FZ & TZ & SP).
  unfold ray_quad.
  set (dir := vsub (rto r) (rfrom r)).
  set (den := dot (qn q) dir).
  set (t := (dot (qn q) (qc q) - dot (qn q) (rfrom r)) / den).
  assert (DEN : den == vy (rto r) - vy (rfrom r)).
  { unfold den, dir, dot. cbn [vsub vx vy vz]. rewrite NX, NY, NZ. ring. }
  assert (DNZ : ~ den == 0) by (rewrite DEN; destruct SP as [(_ & _ & L)|(_ & _ & L)]; intro Z; lra).
  assert (NUM : dot (qn q) (qc q) - dot (qn q) (rfrom r) == vy (qc q) - vy (rfrom r)).
  { unfold dot. rewrite NX, NY, NZ. ring. }
  assert (TD : t * den == vy (qc q) - vy (rfrom r)).
  { unfold t. rewrite NUM. field. exact DNZ. }
  assert (T01 : 0 <= t /\ t <= 1).
  { destruct SP as [(A & B & L)|(A & B & L)].
    - assert (0 < den) by (rewrite DEN; lra).
      split.
      + unfold t. apply Qle_shift_div_l; auto. rewrite NUM. lra.
      + unfold t. apply Qle_shift_div_r; auto. rewrite NUM, DEN. lra.
    - assert (den < 0) by (rewrite DEN; lra).
      assert (E : t == (- (dot (qn q) (qc q) - dot (qn q) (rfrom r))) / (- den)) by (unfold t; field; exact DNZ).
      rewrite E. split.
      + apply Qle_shift_div_l; [lra|]. rewrite NUM. lra.
      + apply Qle_shift_div_r; [lra|]. rewrite NUM, DEN. lra. }
  assert (isz den = false) as ->.
  { destruct (isz den) eqn:E; auto. apply isz_iff in E. contradiction. }
  assert (Qle_bool 0 t && Qle_bool t 1 = true) as ->.
  { apply andb_true_iff. split; apply Qle_bool_iff; tauto. }
  pose proof range_epsilon_pos as EP.
  assert (HX : vx (vadd (rfrom r) (vmul dir t)) == vx (qc q)).
  { unfold dir. cbn [vadd vmul vsub vx vy vz]. rewrite FX, TX. ring. }
  assert (HZ : vz (vadd (rfrom r) (vmul dir t)) == vz (qc q)).
  { unfold dir. cbn [vadd vmul vsub vx vy vz]. rewrite FZ, TZ. ring. }
  assert (HY : vy (vadd (rfrom r) (vmul dir t)) == vy (qc q)).
  { unfold dir. cbn [vadd vmul vsub vx vy vz].
    assert (E : (vy (rto r) - vy (rfrom r)) * t == t * den) by (rewrite DEN; ring).
    rewrite E, TD. ring. }
  assert (in_range (vx (vadd (rfrom r) (vmul dir t))) (vx (qmin q)) (vx (qmax q)) range_epsilon = true) as ->.
  { unfold in_range. apply andb_true_iff. split; apply Qle_bool_iff; rewrite HX; unfold qmin, qmax; cbn [vsub vadd vx]; lra. }
  assert (in_range (vy (vadd (rfrom r) (vmul dir t))) (vy (qmin q)) (vy (qmax q)) range_epsilon = true) as ->.
  { unfold in_range. apply andb_true_iff. split; apply Qle_bool_iff; rewrite HY; unfold qmin, qmax; cbn [vsub vadd vy]; rewrite EY; lra. }
  assert (in_range (vz (vadd (rfrom r) (vmul dir t))) (vz (qmin q)) (vz (qmax q)) range_epsilon = true) as ->.
  { unfold in_range. apply andb_true_iff. split; apply Qle_bool_iff; rewrite HZ; unfold qmin, qmax; cbn [vsub vadd vz]; lra. }
  simpl. eauto.
Qed.

Section Queries2.
  Variable g : grid.
  Hypothesis HI : Inv g.

  (* a vertical ray through the centre of a stored plane hits a plane *)
  Lemma Inv_ray id q r :
    stored g id q -> spans r q -> exists id' t, grid_intersect g r = IRes (Some id') (Fin t).
  Proof.
    intros S SP. destruct (inv_planes g HI id q S) as ((PE & HZ & B) & Reg).
    destruct (ray_quad_spans r q PE HZ SP) as (t & RQ).
    destruct SP as (FX & TX & FZ & TZ & _).
    pose proof (inv_lattice g HI) as (R & _ & _).
    destruct (Inv_centre_cell g HI id q S) as (Hy & Hx & Hin & Z0 & X0).
    unfold grid_intersect.
    assert (isz (vx (rto r) - vx (rfrom r)) = true) as -> by (apply isz_iff; rewrite FX, TX; ring).
    assert (isz (vz (rto r) - vz (rfrom r)) = true) as -> by (apply isz_iff; rewrite FZ, TZ; ring).
    cbn [andb]. unfold intersect_cell.
    assert (CX : cellx g (vx (rfrom r)) = cellx g (vx (qc q))) by (apply cell_coord_ext; auto).
    assert (CZ : cellz g (vz (rfrom r)) = cellz g (vz (qc q))) by (apply cell_coord_ext; auto).
    rewrite CX, CZ.
    assert ((cellx g (vx (qc q)) <? 0)%Z = false) as -> by (apply Z.ltb_ge; lia).
    assert ((Z.of_nat (ncols g) <=? cellx g (vx (qc q)))%Z = false) as -> by (apply Z.leb_gt; lia).
    assert ((cellz g (vz (qc q)) <? 0)%Z = false) as -> by (apply Z.ltb_ge; lia).
    assert ((Z.of_nat (nrows g) <=? cellz g (vz (qc q)))%Z = false) as -> by (apply Z.leb_gt; lia).
    cbn [orb].
    destruct (scan_cell_some r (g_planes g) _ None PInf id q t (or_intror (conj eq_refl eq_refl)) Hin S RQ) as (b & t' & E).
    rewrite E. eauto.
  Qed.
End Queries2.

(* ================================================================== 12. C20 for every insertion sequence *)
Section Top.
  Variable fuel : nat.            (* the bound on the merge loop: the statements hold for every value *)
  Variable res : Z.               (* the resolution of the grid *)
  Hypothesis Hres : (0 < res)%Z.
  Variable qs : list quad.
  Hypothesis Hqs : Forall valid_quad qs.

  Let g := inserts fuel res qs.
  Let HI : Inv g := inserts_Inv fuel res qs Hres Hqs.

  Theorem complete_all id q y x :
    stored g id q -> (y < nrows g)%nat -> (x < ncols g)%nat -> overlaps_cell g q y x ->
    In id (get_cell (g_cells g) y x).
  Proof. apply Inv_complete. exact HI. Qed.

  Theorem region_once_all lo hi :
    covers g lo hi ->
    NoDup (get_region g lo hi) /\ forall id, (exists q, stored g id q) <-> In id (get_region g lo hi).
  Proof.
    intro C. destruct (Inv_region g HI lo hi C) as (N & S). split; auto.
    intro id. rewrite S. split.
    - intros (q & St). apply nth_error_Some. unfold stored in St. congruence.
    - apply stored_some.
  Qed.

  Theorem vertical_ray_hits_all id q r :
    stored g id q -> spans r q -> exists id' t, grid_intersect g r = IRes (Some id') (Fin t).
  Proof. apply Inv_ray. exact HI. Qed.

  Theorem bounds_all id q : stored g id q -> in_bounds g q.
  Proof. apply Inv_bounds. exact HI. Qed.

  Theorem plane_count_all :
    g_planecount g = N.of_nat (length (all_ids g)) /\
    d_planes (get_debug_info g) = N.of_nat (length (all_ids g)) /\
    (forall id, In id (all_ids g) <-> exists q, stored g id q).
  Proof.
    destruct (Inv_plane_count g HI) as (A & B). split; auto. split; auto.
    intro id. unfold all_ids. destruct (dedup_spec (concat (concat (g_cells g))) []) as (_ & S).
    rewrite S, in_cells_iff, (in_some_cell_iff g HI). simpl. split.
    - intros (H & _). apply stored_some; auto.
    - intros (q & St). split; auto. apply nth_error_Some. unfold stored in St. congruence.
  Qed.
End Top.

(* the Go loop is [insert] = [insert_with merge_fuel] *)
Lemma inserts_fold res qs : inserts merge_fuel res qs = fold_left insert qs (new_grid 1 1 res).
Proof. unfold inserts, insert. reflexivity. Qed.

(* ================================================================== 13. the executable predicate is empty on the model *)
Lemma combine_seq_in {A} (l : list A) : forall s id q, In (id, q) (combine (seq s (length l)) l) -> nth_error l (id - s) = Some q /\ (s <= id)%nat.
Proof.
  induction l as [|a l IH]; intros s id q H; simpl in H; [destruct H|].
  destruct H as [E|H].
  - inversion E; subst. rewrite Nat.sub_diag. split; auto.
  - apply IH in H. destruct H as (H & L). split; [|lia].
    replace (id - s)%nat with (S (id - S s)) by lia. exact H.
Qed.

Lemma flat_map_nil {A B} (f : A -> list B) l : (forall a, In a l -> f a = []) -> flat_map f l = [].
Proof. induction l; simpl; auto. intro H. rewrite H by (left; auto). apply IHl. intros; apply H; right; auto. Qed.

Lemma overlaps_b_cell g q y x :
  overlaps_row_b 0 g q y = true -> overlaps_col_b 0 g q x = true -> overlaps_cell g q y x.
Proof.
  unfold overlaps_row_b, overlaps_col_b, overlaps_cell. cbv zeta. rewrite !andb_true_iff.
  rewrite !Qle_bool_iff, !Qlt_bool_iff. intros (A & B) (C & D). repeat split; lra.
Qed.

Theorem P_model_empty g :
  Inv g -> incomplete 0 g = [] /\ out_of_bounds 0 g = [] /\ count_ok g = true.
Proof.
  intro HI. split; [|split].
  - unfold incomplete. apply flat_map_nil. intros (id, q) Hin. apply combine_seq_in in Hin.
    rewrite Nat.sub_0_r in Hin. destruct Hin as (St & _). cbn [fst snd].
    apply flat_map_nil. intros y Hy. apply in_seq in Hy.
    destruct (overlaps_row_b 0 g q y) eqn:ER; auto.
    apply flat_map_nil. intros x Hx. apply in_seq in Hx.
    destruct (overlaps_col_b 0 g q x) eqn:EC; auto. cbn [andb].
    assert (W : length (nth y (g_cells g) []) = ncols g).
    { destruct (inv_rect g HI) as (_ & _ & R3). apply R3. lia. }
    rewrite W in Hx.
    assert (M : mem id (get_cell (g_cells g) y x) = true).
    { apply mem_in. apply (Inv_complete g HI id q y x St); try lia. apply overlaps_b_cell; auto. }
    rewrite M. reflexivity.
  - unfold out_of_bounds. apply flat_map_nil. intros (id, q) Hin. apply combine_seq_in in Hin.
    rewrite Nat.sub_0_r in Hin. destruct Hin as (St & _). cbn [fst snd].
    destruct (Inv_bounds g HI id q St) as (B1 & B2 & B3 & B4).
    assert (Qle_bool (inject_Z (g_minx g) - 0) (vx (qmin q)) = true) as -> by (apply Qle_bool_iff; lra).
    assert (Qle_bool (vx (qmax q)) (inject_Z (g_maxx g) + 0) = true) as -> by (apply Qle_bool_iff; lra).
    assert (Qle_bool (inject_Z (g_minz g) - 0) (vz (qmin q)) = true) as -> by (apply Qle_bool_iff; lra).
    assert (Qle_bool (vz (qmax q)) (inject_Z (g_maxz g) + 0) = true) as -> by (apply Qle_bool_iff; lra).
    reflexivity.
  - unfold count_ok. apply N.eqb_eq. symmetry. apply (Inv_plane_count g HI).
Qed.

(* ================================================================== 14. the session's grid *)
Lemma session_retention_gen (ins : grid -> quad -> grid) ops : forall g,
  fold_left (sess_step_with ins false) ops g = fold_left ins (inserted ops) g.
Proof.
  induction ops as [|o ops IH]; intro g; [reflexivity|].
  destruct o; cbn [fold_left sess_step_with inserted]; apply IH.
Qed.

Theorem session_retention ops :
  sess_run false ops = fold_left insert (inserted ops) (new_grid 1 1 module_resolution).
Proof. unfold sess_run, sess_run_with. apply session_retention_gen. Qed.

(* with an Init that replaces the grid at every join the stored planes are lost (finding F3) *)
Definition f3_quad : quad := new_quad (mkVec 1 0 1) (mkVec (1 # 2) 0 (1 # 2)) 0.
Theorem session_retention_refuted :
  exists ops, g_planecount (sess_run true ops) <>
              g_planecount (fold_left insert (inserted ops) (new_grid 1 1 module_resolution)).
Proof. exists [SInsert f3_quad; SJoin]. vm_compute. discriminate. Qed.

(* ================================================================== 15. deciding validity *)
Lemma valid_quad_b_correct q : valid_quad_b q = true -> valid_quad q.
Proof.
  unfold valid_quad_b, valid_quad, veq_bool, veq. rewrite !andb_true_iff.
  rewrite !Qlt_bool_iff, !Qle_bool_iff, !Qeq_bool_iff, isz_iff. tauto.
Qed.

(* ================================================================== 16. satisfiability of the hypotheses *)
Lemma covers_cover g : covers g (cover_lo g) (cover_hi g).
Proof. unfold covers, cover_lo, cover_hi. cbn [vx vz]. repeat split; lra. Qed.

Lemma centre_ray_spans q : spans (centre_ray q) q.
Proof.
  unfold spans, centre_ray. cbn [rfrom rto vx vy vz]. repeat split; try reflexivity.
  right. repeat split; lra.
Qed.

(* three quads: an append, a second append that grows the grid to the right, a sample that merges into the first *)
Definition ex_qs : list quad :=
  [ new_quad (mkVec 0 0 0) (mkVec 1 0 1) 0;
    new_quad (mkVec 3 0 (1 # 2)) (mkVec (1 # 2) 0 (1 # 4)) 0;
    new_quad (mkVec (1 # 4) (1 # 4) (-1 # 2)) (mkVec 2 0 1) 0 ].

Lemma ex_qs_valid : Forall valid_quad ex_qs.
Proof. repeat constructor; apply valid_quad_b_correct; vm_compute; reflexivity. Qed.

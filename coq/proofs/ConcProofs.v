(* proofs/ConcProofs.v — the concurrent clause of C07 (and the session-id part of C10) over coq/Conc.v:
   refutation witnesses for the code as it is (fixed = false), and for the repaired micro-programs (fixed = true)
   an invariant that accounts for the threads in flight, preserved by every critical section of every thread,
   which gives [registry_ok] at the end of EVERY schedule of ANY number of threads and requests. *)
From hagall Require Import Model Conc.
From hagall.proofs Require Import BaseLemmas Inv.
From Coq Require Import Lia.

(* ---------- decidability of the property (used by the refutations, which are computations) ---------- *)
Global Instance pc_eq_dec : EqDecision pc.
Proof. solve_decision. Defined.
Global Instance idle_dec T : Decision (idle T).
Proof. unfold idle. apply _. Defined.
Global Instance reg_entry_ok_dec st id inc : Decision (reg_entry_ok st id inc).
Proof. unfold reg_entry_ok. destruct (k_heap st !! inc); apply _. Defined.
Global Instance obj_ok_dec st inc R : Decision (obj_ok st inc R).
Proof. unfold obj_ok. apply _. Defined.
Global Instance member_ok_dec st T : Decision (member_ok st T).
Proof.
  unfold member_ok. destruct (t_cur T) as [[[sid inc] p]|]; [|apply _].
  destruct (k_heap st !! inc); apply _.
Defined.
Global Instance registry_ok_dec st : Decision (registry_ok st).
Proof. unfold registry_ok. apply _. Defined.
Global Instance complete_dec st : Decision (complete st).
Proof. unfold complete. apply _. Defined.

(* ---------- the code as it is: witnesses ---------- *)
(* join of an existing session against the last departure: thread 1 creates session 1 (5 critical sections);
   thread 2 looks it up; thread 1 leaves (RemoveParticipant, ParticipantCount = 0, Remove); thread 2 goes on
   (NewParticipantID, AddParticipant) and is answered with success for a session that is no longer registered *)
Definition w_orphan_progs : list (list cop) := [[KCreate; KLeave]; [KJoin 1]].
Definition w_orphan : list (N * N) := plain [1;1;1;1;1; 2; 1;1;1; 2;2].
(* two last departures: both remove their participant, both count 0, both Remove: gauge -1 *)
Definition w_double_progs : list (list cop) := [[KCreate; KLeave]; [KJoin 1; KLeave]].
Definition w_double : list (N * N) := plain [1;1;1;1;1; 2;2;2; 1;2; 1;2; 1; 2].
(* ... and when a third connection creates a session between the two Removes (it is handed the recycled id 1),
   the second Remove unregisters that NEW session and recycles its id a second time *)
Definition w_reissue_progs : list (list cop) := [[KCreate; KLeave]; [KJoin 1; KLeave]; [KCreate]].
Definition w_reissue : list (N * N) := plain [1;1;1;1;1; 2;2;2; 1;2; 1;2; 1; 3] ++ [(3, 1)] ++ plain [3; 2; 3;3].

Lemma refute (st : cstate) : bool_decide (complete st) = true → bool_decide (registry_ok st) = false →
  complete st ∧ ¬ registry_ok st.
Proof. intros H1 H2. split; [by apply bool_decide_eq_true in H1|by apply bool_decide_eq_false in H2]. Qed.

Lemma conc_refuted_orphan_join :
  ∃ progs σ, let st := sched_run false (cinit progs) σ in complete st ∧ ¬ registry_ok st.
Proof. exists w_orphan_progs, w_orphan. apply refute; vm_compute; reflexivity. Qed.
Lemma conc_refuted_double_remove :
  ∃ progs σ, let st := sched_run false (cinit progs) σ in complete st ∧ ¬ registry_ok st ∧ k_gauge st = (-1)%Z ∧ size (k_reg st) = 0%nat.
Proof.
  exists w_double_progs, w_double. cbn zeta.
  destruct (refute (sched_run false (cinit w_double_progs) w_double)) as [H1 H2]; [vm_compute; reflexivity..|].
  split; [exact H1|]. split; [exact H2|]. split; vm_compute; reflexivity.
Qed.
(* the session-id clause of C10 under this race: id 1 is recyclable while a session answered under id 1 has a member *)
Lemma conc_refuted_reissue :
  ∃ progs σ tid T, let st := sched_run false (cinit progs) σ in
    complete st ∧ ¬ registry_ok st ∧ k_thr st !! tid = Some T ∧ t_cur T = Some (1, 2, 1) ∧
    1 ∈ g_reuse (k_ids st) ∧ k_reg st !! 1 = None.
Proof.
  exists w_reissue_progs, w_reissue, 3.
  destruct (refute (sched_run false (cinit w_reissue_progs) w_reissue)) as [H1 H2]; [vm_compute; reflexivity..|].
  assert (H3 : bool_decide (1 ∈ g_reuse (k_ids (sched_run false (cinit w_reissue_progs) w_reissue))) = true)
    by (vm_compute; reflexivity).
  apply bool_decide_eq_true in H3.
  assert (H5 : k_reg (sched_run false (cinit w_reissue_progs) w_reissue) !! 1 = None) by (vm_compute; reflexivity).
  assert (H4 : k_thr (sched_run false (cinit w_reissue_progs) w_reissue) !! 3 =
               Some (mk_thread PIdle [] (Some (1, 2, 1)) [AOk 1 2 1])) by (vm_compute; reflexivity).
  exists (mk_thread PIdle [] (Some (1, 2, 1)) [AOk 1 2 1]). cbn zeta.
  exact (conj H1 (conj H2 (conj H4 (conj eq_refl (conj H3 H5))))).
Qed.
(* the same schedules, shortened by the instructions that no longer exist, are harmless for the repaired programs *)
Example conc_fixed_on_witnesses :
  registry_ok (sched_run true (cinit w_orphan_progs) (plain [1;1;1;1;1; 2; 1;1; 2;2])) ∧
  registry_ok (sched_run true (cinit w_double_progs) (plain [1;1;1;1;1; 2;2;2; 1;2; 2])) ∧
  registry_ok (sched_run true (cinit w_reissue_progs) (plain [1;1;1;1;1; 2;2;2; 1;2; 2; 3;3;3;3;3])).
Proof. repeat split; apply bool_decide_eq_true; vm_compute; reflexivity. Qed.

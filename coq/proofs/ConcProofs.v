(* proofs/ConcProofs.v — the concurrent clause of C07 (and the session-id part of C10) over coq/Conc.v:
   refutation witnesses for the code as it is (fixed = false), and for the repaired micro-programs (fixed = true)
   an invariant that accounts for the threads in flight, preserved by every critical section of every thread,
   which gives [registry_ok] at the end of EVERY schedule of ANY number of threads and requests. *)
From hagall Require Import Model Conc.
From hagall.proofs Require Import BaseLemmas Inv.
From Coq Require Import Lia.

(* ---------- completion is computable ---------- *)
Lemma all_idle_complete st : all_idle st = true → complete st.
Proof.
  unfold all_idle, complete. intros H tid T HT. apply elem_of_map_to_list in HT.
  rewrite forallb_forall in H. specialize (H (tid, T)). simpl in H. unfold idle.
  apply elem_of_list_In in HT. specialize (H HT). by destruct (t_pc T).
Qed.

(* ---------- the code as it is: witnesses ---------- *)
(* join of an existing session against the last departure: thread 1 creates session 1 (5 critical sections);
   thread 2 looks it up; thread 1 leaves (RemoveParticipant, ParticipantCount = 0, Remove); thread 2 goes on
   (NewParticipantID, AddParticipant) and is answered with success for a session that is no longer registered *)
Definition w_orphan_progs : list (list cop) := [[KCreate; KLeave]; [KJoin 1]].
Definition w_orphan : list (N * N) := plain [1;1;1;1;1; 2; 1;1;1; 2;2].
(* two last departures: both remove their participant, both count 0, both Remove: gauge -1 *)
Definition w_double_progs : list (list cop) := [[KCreate; KLeave]; [KJoin 1; KLeave]].
Definition w_double : list (N * N) := plain [1;1;1;1;1; 2;2;2; 1;2; 1;2; 1; 2].
(* ... and when a third connection creates a session between the two Removes (it is handed the recycled id 1),
   the second Remove unregisters that NEW session and recycles its id a second time *)
Definition w_reissue_progs : list (list cop) := [[KCreate; KLeave]; [KJoin 1; KLeave]; [KCreate]].
Definition w_reissue : list (N * N) := plain [1;1;1;1;1; 2;2;2; 1;2; 1;2; 1; 3] ++ [(3, 1)] ++ plain [3; 2; 3;3].

(* a thread whose success answer names a session that its id does not resolve to *)
Lemma refute_member st tid T sid inc p :
  k_thr st !! tid = Some T → t_cur T = Some (sid, inc, p) → k_reg st !! sid ≠ Some inc → ¬ registry_ok st.
Proof.
  intros HT Hc Hr (_&_&Hm&_). specialize (Hm tid T HT). unfold member_ok in Hm. rewrite Hc in Hm. by destruct Hm.
Qed.

Lemma conc_refuted_orphan_join :
  ∃ progs σ, let st := sched_run false (cinit progs) σ in complete st ∧ ¬ registry_ok st.
Proof.
  exists w_orphan_progs, w_orphan. cbn zeta. split; [apply all_idle_complete; vm_compute; reflexivity|].
  apply (refute_member _ 2 (mk_thread PIdle [] (Some (1, 1, 2)) [AOk 1 1 2]) 1 1 2); [vm_compute; reflexivity|reflexivity|].
  vm_compute. discriminate.
Qed.
Lemma conc_refuted_double_remove :
  ∃ progs σ, let st := sched_run false (cinit progs) σ in complete st ∧ ¬ registry_ok st ∧ k_gauge st = (-1)%Z ∧ size (k_reg st) = 0%nat.
Proof.
  exists w_double_progs, w_double. cbn zeta.
  assert (Hg : k_gauge (sched_run false (cinit w_double_progs) w_double) = (-1)%Z) by (vm_compute; reflexivity).
  assert (Hs : size (k_reg (sched_run false (cinit w_double_progs) w_double)) = 0%nat) by (vm_compute; reflexivity).
  split; [apply all_idle_complete; vm_compute; reflexivity|]. split; [|exact (conj Hg Hs)].
  intros (_&_&_&Hgg). rewrite Hg, Hs in Hgg. discriminate.
Qed.
(* the session-id clause of C10 under this race: id 1 is recyclable while a session answered under id 1 has a member *)
Lemma conc_refuted_reissue :
  ∃ progs σ tid T, let st := sched_run false (cinit progs) σ in
    complete st ∧ ¬ registry_ok st ∧ k_thr st !! tid = Some T ∧ t_cur T = Some (1, 2, 1) ∧
    1 ∈ g_reuse (k_ids st) ∧ k_reg st !! 1 = None.
Proof.
  exists w_reissue_progs, w_reissue, 3, (mk_thread PIdle [] (Some (1, 2, 1)) [AOk 1 2 1]). cbn zeta.
  assert (H4 : k_thr (sched_run false (cinit w_reissue_progs) w_reissue) !! 3 =
               Some (mk_thread PIdle [] (Some (1, 2, 1)) [AOk 1 2 1])) by (vm_compute; reflexivity).
  assert (H5 : k_reg (sched_run false (cinit w_reissue_progs) w_reissue) !! 1 = None) by (vm_compute; reflexivity).
  assert (H3 : bool_decide (1 ∈ g_reuse (k_ids (sched_run false (cinit w_reissue_progs) w_reissue))) = true)
    by (vm_compute; reflexivity).
  apply bool_decide_eq_true in H3.
  split; [apply all_idle_complete; vm_compute; reflexivity|].
  split; [apply (refute_member _ 3 _ 1 2 1 H4 eq_refl); rewrite H5; discriminate|].
  split; [exact H4|]. split; [reflexivity|]. split; [exact H3|exact H5].
Qed.
(* the same schedules, shortened by the instructions that no longer exist, are harmless for the repaired programs:
   instances of the general theorem proofs/ConcInv.v conc_registry_ok, kept as a sanity check of its hypotheses *)
Example conc_fixed_on_witnesses :
  all_idle (sched_run true (cinit w_orphan_progs) (plain [1;1;1;1;1; 2; 1;1; 2;2])) = true ∧
  all_idle (sched_run true (cinit w_double_progs) (plain [1;1;1;1;1; 2;2;2; 1;2; 2])) = true ∧
  all_idle (sched_run true (cinit w_reissue_progs) (plain [1;1;1;1;1; 2;2;2; 1;2; 2; 3;3;3;3;3])) = true.
Proof. repeat split; vm_compute; reflexivity. Qed.

(* proofs/PC07.v — the session registry: discoverable sessions are exactly the non-empty ones, the gauge
   counts them, incarnations (UUIDs) are never repeated (C07, sequential clause). *)
From stdpp Require Import relations.
From hagall Require Import Model.
From hagall.proofs Require Import BaseLemmas Relay Inv Session Local Trans WF Mono Reach.
From Coq Require Import Lia.

Record reg (st : state) : Prop := {
  reg_gauge : gauge st = Z.of_nat (size (sessions st));
  reg_uuid_le : ∀ sid SS, sessions st !! sid = Some SS → 1 ≤ s_uuid SS ≤ next_uuid st;
  reg_uuid_inj : ∀ s1 s2 S1 S2, sessions st !! s1 = Some S1 → sessions st !! s2 = Some S2 →
      s_uuid S1 = s_uuid S2 → s1 = s2
}.

Lemma reg_state0 : reg state0.
Proof. split; simpl; [by rewrite map_size_empty|intros *; by rewrite lookup_empty|intros *; by rewrite lookup_empty]. Qed.

(* the three fields [reg] looks at *)
Definition reg_same (st st' : state) : Prop :=
  sessions st' = sessions st ∧ gauge st' = gauge st ∧ next_uuid st' = next_uuid st.
Lemma reg_same_reg st st' : reg_same st st' → reg st → reg st'.
Proof. intros (E1&E2&E3) [R1 R2 R3]. split; rewrite ?E1, ?E2, ?E3; done. Qed.

(* replacing a registered session by one of the same incarnation *)
Lemma reg_update st sid SS SS' :
  sessions st !! sid = Some SS → s_uuid SS' = s_uuid SS → reg st → reg (set_sessions (<[sid := SS']>) st).
Proof.
  intros HS Hu [R1 R2 R3]. split; simpl.
  - rewrite R1. f_equal. rewrite map_size_insert_Some; [done|eauto].
  - intros s S0. destruct (decide (s = sid)) as [->|Hne].
    + rewrite lookup_insert. intros [= <-]. rewrite Hu. by eapply R2.
    + rewrite lookup_insert_ne by done. apply R2.
  - intros s1 s2 S1 S2. destruct (decide (s1 = sid)) as [->|H1], (decide (s2 = sid)) as [->|H2];
      rewrite ?lookup_insert, ?lookup_insert_ne by done; try done.
    + intros [= <-] H Hx. rewrite Hu in Hx. by eapply R3.
    + intros H [= <-] Hx. rewrite Hu in Hx. by eapply R3.
    + apply R3.
Qed.

Lemma left_session_uuid cfg c p own SS : s_uuid (left_session cfg c p own SS) = s_uuid SS.
Proof.
  unfold left_session. cbv zeta. simpl.
  pose proof (remove_doomed_spec cfg p
    (doomed (set_store (store_set_subs (fmap (λ s : gset N, s ∖ {[p]}))) (module_disconnect cfg own SS)) own)
    (set_store (store_set_subs (fmap (λ s : gset N, s ∖ {[p]}))) (module_disconnect cfg own SS))) as (_&_&_&_&_&_&_&_&_&_&R).
  rewrite R. simpl. unfold module_disconnect. by repeat case_match.
Qed.

Lemma reg_leave cfg st c : inv st → reg st → reg (leave cfg st c).1.
Proof.
  intros I R. destruct (cur_of st c) as [[sid p]|] eqn:Hcur; [|by rewrite (proj1 (leave_not_joined _ _ _ Hcur))].
  unfold cur_of in Hcur. destruct (conns st !! c) as [cn|] eqn:Hc; [|done]. simpl in Hcur.
  assert (Hcur0 : cur_of st c = Some (sid, p)) by (unfold cur_of; by rewrite Hc).
  destruct (live_session _ _ (inv_live _ I _ _ _ Hcur0)) as [SS HS].
  rewrite (leave_unfold _ _ _ _ _ _ _ Hc Hcur HS). cbv zeta. case_decide.
  - destruct R as [R1 R2 R3]. split; simpl.
    + rewrite R1. rewrite map_size_delete, HS. assert (size (sessions st) ≠ 0%nat); [|lia].
      intros H0. apply map_size_empty_inv in H0. by rewrite H0, lookup_empty in HS.
    + intros s S0 [_ H0]%lookup_delete_Some. by eapply R2.
    + intros s1 s2 S1 S2 [_ H1]%lookup_delete_Some [_ H2]%lookup_delete_Some. by eapply R3.
  - apply (reg_update (upd_conn c (λ cn0, set_own (λ _, ∅) (set_cur None cn0)) st) sid SS); [done|apply left_session_uuid|].
    eapply reg_same_reg; [|exact R]. done.
Qed.

Lemma reg_create hint st n st' :
  inv st → nowrap st → reg st → create_session hint st = (n, st') → reg st'.
Proof.
  intros I W [R1 R2 R3] Hcr. destruct (create_session_proj _ _ _ _ I W Hcr) as (Hfresh&_).
  assert (Hn : sessions st !! n = None). { unfold parts_of in Hfresh. by destruct (sessions st !! n). }
  unfold create_session in Hcr. destruct (gen_new hint (sids st)) as [n' g]. injection Hcr as <- <-.
  split; simpl.
  - rewrite R1, map_size_insert_None by done. lia.
  - intros s S0. destruct (decide (s = n')) as [->|Hne].
    + rewrite lookup_insert. intros [= <-]. simpl. lia.
    + rewrite lookup_insert_ne by done. intros H. specialize (R2 _ _ H). lia.
  - intros s1 s2 S1 S2. destruct (decide (s1 = n')) as [->|H1], (decide (s2 = n')) as [->|H2];
      rewrite ?lookup_insert, ?lookup_insert_ne by done; try done.
    + intros [= <-] H Hx. simpl in Hx. specialize (R2 _ _ H). lia.
    + intros H [= <-] Hx. simpl in Hx. specialize (R2 _ _ H). lia.
    + apply R3.
Qed.

Lemma reg_enter cfg st c rid n ots : reg st → reg (enter cfg st c rid n ots).1.1.
Proof.
  intros R. unfold enter. destruct (sessions st !! n) as [SS|] eqn:HS; [|done]. simpl.
  eapply reg_same_reg; [|apply (reg_update st n SS (entered SS c) HS eq_refl R)]. done.
Qed.

Lemma reg_join cfg st c rid s ots hint : inv st → nowrap st → reg st → reg (join cfg st c rid s ots hint).1.1.
Proof.
  intros I W R. unfold join. destruct (conns st !! c) as [cn|]; [|done].
  destruct (already_joined cn s); [done|].
  pose proof (reg_leave cfg st c I R) as R1. pose proof (inv_leave cfg st c I) as I1.
  pose proof (leave_nowrap cfg st c I W) as W1.
  destruct (leave cfg st c) as [st1 o1]. simpl in *.
  destruct s as [|n|k]; [| |done].
  - destruct (create_session hint st1) as [n st2] eqn:Hcr.
    pose proof (reg_create _ _ _ _ I1 W1 R1 Hcr) as R2.
    pose proof (reg_enter cfg st2 c rid n ots R2). by destruct (enter cfg st2 c rid n ots) as [[? ?] ?].
  - destruct (sessions st1 !! n); [|done].
    pose proof (reg_enter cfg st1 c rid n ots R1). by destruct (enter cfg st1 c rid n ots) as [[? ?] ?].
Qed.

Lemma on_ping_reg_same st c cn rid : reg_same st (on_ping st c cn rid).1.1.
Proof. unfold on_ping, send_ping. repeat case_match; simplify_eq; simpl; done. Qed.
Lemma handle_joined_other_reg cfg st c cn sid p SS r hint :
  session_local r = false → is_join r = false → reg_same st (handle_joined cfg st c cn sid p SS r hint).1.1.
Proof.
  intros Hl Hj. destruct r; try discriminate Hl; try discriminate Hj; simpl.
  all: try (repeat case_match; simplify_eq; simpl; done).
  all: try apply on_ping_reg_same.
  all: try (unfold send_ping; repeat case_match; simplify_eq; simpl; done).
Qed.
Lemma handle_unjoined_reg cfg st c cn r hint :
  is_join r = false → reg_same st (handle_unjoined cfg st c cn r hint).1.1.
Proof. intros Hj. destruct r; try discriminate Hj; simpl; repeat case_match; simplify_eq; simpl; done. Qed.

Lemma reg_handle cfg st c r hint : inv st → nowrap st → reg st → reg (handle cfg st c r hint).1.1.
Proof.
  intros I W R. unfold handle. destruct (conns st !! c) as [cn|] eqn:Hc; [|done].
  destruct (c_cur cn) as [[s p]|] eqn:Hcur.
  - destruct (sessions st !! s) as [SS|] eqn:HS; [|done].
    destruct (is_join r) eqn:Hj. { destruct r; try discriminate Hj. simpl. by apply reg_join. }
    destruct (session_local r) eqn:Hl.
    + rewrite (handle_joined_sstep cfg st c cn s p SS r hint Hl Hc HS). unfold apply_sstep. simpl.
      eapply reg_same_reg; [|apply (reg_update st s SS _ HS (sstep_uuid cfg c p (c_own cn) SS r) R)]. done.
    + eapply reg_same_reg; [|exact R]. by apply handle_joined_other_reg.
  - destruct (is_join r) eqn:Hj. { destruct r; try discriminate Hj. simpl. by apply reg_join. }
    eapply reg_same_reg; [|exact R]. by apply handle_unjoined_reg.
Qed.

Lemma reg_disconnect cfg st c : inv st → reg st → reg (disconnect cfg st c).1.
Proof.
  intros I R. unfold disconnect. pose proof (reg_leave cfg st c I R). destruct (leave cfg st c). simpl in *.
  eapply reg_same_reg; [|done]. done.
Qed.

Theorem step_reg cfg st o k :
  inv st → bounded k st → k + 1 < two32 → reg st → reg (step cfg st o).1.1.
Proof.
  intros I B Hk R. pose proof (bounded_nowrap _ _ B Hk) as W.
  destruct o as [c|c r|c hint|s|c|]; simpl; try done.
  - destruct (conns st !! c); [done|]. eapply reg_same_reg; [|done]. done.
  - unfold dispatch. destruct (conns st !! c) as [cn|] eqn:Hc; [|done].
    destruct (c_open cn); [|done]. simpl.
    destruct r; simpl; try (eapply reg_same_reg; [|done]; done).
    destruct (ty =? 14); [|eapply reg_same_reg; [|done]; done].
    pose proof (reg_disconnect cfg st c I R). by destruct (disconnect cfg st c).
  - destruct (conns st !! c) as [cn|] eqn:Hc; [|done].
    destruct (c_open cn) eqn:Ho; [|done]. simpl.
    destruct (c_queue cn) as [|r q] eqn:Hq; [done|].
    set (st0 := upd_conn c (set_queue q) st).
    assert (Hs0 : same_mem st st0) by (apply same_mem_upd_conn; by intros []).
    assert (I0 : inv st0) by by eapply inv_same_mem.
    assert (B0 : bounded k st0) by by eapply bounded_same_mem.
    assert (W0 : nowrap st0) by by eapply bounded_nowrap.
    assert (R0 : reg st0) by (eapply reg_same_reg; [|exact R]; done).
    assert (Ho0 : open_of st0 c = Some true).
    { destruct Hs0 as (_&H2&_). rewrite H2. unfold open_of. by rewrite Hc; simpl; rewrite Ho. }
    pose proof (reg_handle cfg st0 c r hint I0 W0 R0) as R1.
    destruct (handle_inv cfg st0 c r hint k I0 B0 Hk Ho0) as [I1 _].
    destruct (handle cfg st0 c r hint) as [[st1 o1] v]. simpl in *.
    destruct v; try done.
    pose proof (reg_disconnect cfg st1 c I1 R1). by destruct (disconnect cfg st1 c).
  - eapply reg_same_reg; [|done]. split; [apply tick_sessions|]. unfold tick. by destruct (sessions st !! s).
  - destruct (conns st !! c) as [cn|] eqn:Hc; [|done].
    destruct (c_open cn); [|done]. simpl.
    pose proof (reg_disconnect cfg st c I R). by destruct (disconnect cfg st c).
Qed.

Theorem reachable_reg cfg h : N.of_nat (length h) < two32 → reg (final cfg h) ∧ inv (final cfg h).
Proof.
  intros Hb. unfold final. rewrite run_from_final.
  assert (G : ∀ h st k, inv st → bounded k st → k + N.of_nat (length h) < two32 → reg st →
            reg (fold_left (λ s o, (step cfg s o).1.1) h st) ∧ inv (fold_left (λ s o, (step cfg s o).1.1) h st)).
  { clear. induction h as [|o h IH]; intros st k I B Hk R; [done|]. cbn [fold_left length] in *.
    rewrite Nat2N.inj_succ in Hk. destruct (step_inv cfg st o k I B) as [I1 B1]; [lia|].
    apply (IH _ (k + 1) I1 B1); [lia|]. apply (step_reg cfg st o k); try done. lia. }
  apply (G h state0 0 inv_state0 bounded_state0); [lia|apply reg_state0].
Qed.

(* consequences, for every reachable state *)
Section c07.
  Context (cfg : config) (h : list op).
  Hypothesis Hb : N.of_nat (length h) < two32.
  Let st := final cfg h.

  (* discoverable = non-empty; membership and registry agree *)
  Lemma c07_registered_nonempty sid SS : sessions st !! sid = Some SS → s_parts SS ≠ ∅.
  Proof.
    intros HS. unfold st in *. destruct (reachable_reg cfg h Hb) as [_ I]. apply (inv_nonempty _ I sid). unfold parts_of. by rewrite HS.
  Qed.
  Lemma c07_member_findable c cn sid p :
    conns st !! c = Some cn → c_cur cn = Some (sid, p) → ∃ SS, sessions st !! sid = Some SS ∧ s_parts SS !! p = Some c.
  Proof.
    intros Hc Hcur. unfold st in *. destruct (reachable_reg cfg h Hb) as [_ I].
    assert (Hcur0 : cur_of (final cfg h) c = Some (sid, p)) by (unfold cur_of; by rewrite Hc).
    destruct (live_session _ _ (inv_live _ I _ _ _ Hcur0)) as [SS HS]. exists SS. split; [done|].
    apply (inv_parts _ I sid (s_parts SS)); [unfold parts_of; by rewrite HS|done].
  Qed.
  Lemma c07_gauge : gauge st = Z.of_nat (size (sessions st)).
  Proof. destruct (reachable_reg cfg h Hb) as [[R _ _] _]. done. Qed.
  Lemma c07_uuid_distinct s1 s2 S1 S2 :
    sessions st !! s1 = Some S1 → sessions st !! s2 = Some S2 → s_uuid S1 = s_uuid S2 → s1 = s2.
  Proof. destruct (reachable_reg cfg h Hb) as [[_ _ R] _]. apply R. Qed.
  Lemma c07_uuid_fresh sid SS : sessions st !! sid = Some SS → 1 ≤ s_uuid SS ≤ next_uuid st.
  Proof. destruct (reachable_reg cfg h Hb) as [[_ R _] _]. apply R. Qed.
End c07.

(* the last departure unregisters the session and recycles its id; any other departure keeps it *)
Lemma c07_last_leave cfg st c cn sid p SS :
  conns st !! c = Some cn → c_cur cn = Some (sid, p) → sessions st !! sid = Some SS →
  sessions (leave cfg st c).1 !! sid =
    if decide (s_parts (left_session cfg c p (c_own cn) SS) = ∅) then None else Some (left_session cfg c p (c_own cn) SS).
Proof.
  intros Hc Hcur HS. rewrite (leave_unfold _ _ _ _ _ _ _ Hc Hcur HS). cbv zeta. case_decide; simpl.
  - by rewrite lookup_delete.
  - by rewrite lookup_insert.
Qed.
(* a session created under a (possibly recycled) id starts empty, under an incarnation number never used before *)
Lemma c07_created_fresh hint st n st' :
  create_session hint st = (n, st') → sessions st' !! n = Some (session0 (next_uuid st + 1)) ∧ next_uuid st' = next_uuid st + 1.
Proof. unfold create_session. destruct (gen_new hint (sids st)). intros [= <- <-]. simpl. by rewrite lookup_insert. Qed.

(* proofs/Purge2.v — noninterference experiment of C03 (Purge.v), part 2: the judge's side.
   What the boolean tests of [purge_scan] mean ([live_in], [foreign_in], [separated], [rho], [rho_ok]),
   and the comparison of the deliveries: related outputs stay related through [outs_to]
   (filter, canonical order) and are accepted by [outs_match]. *)
From stdpp Require Import relations sorting.
From hagall Require Import Model Spec Obs Preds Purge.
From hagall.proofs Require Import BaseLemmas Relay Inv Session Local Trans WF Mono Reach PC03 PC06 PC07
  Refine Refine2 Refine3 Refine5 RefSched RefSched2 Purge1.
From Coq Require Import Lia.

(* ================= membership tests ================= *)
Lemma grp_true A c : grp A c = true ↔ c ∈ A.
Proof. apply memN_elem. Qed.
Lemma grp_false A c : grp A c = false ↔ c ∉ A.
Proof. apply memN_false. Qed.

Lemma existsb_elem {X} (f : X → bool) l : existsb f l = true ↔ ∃ x, x ∈ l ∧ f x = true.
Proof.
  rewrite existsb_exists. split; intros (x&H1&H2); exists x; (split; [|done]); by apply elem_of_list_In.
Qed.
Lemma existsb_false {X} (f : X → bool) l : existsb f l = false ↔ ∀ x, x ∈ l → f x = false.
Proof.
  split.
  - intros H x Hx. destruct (f x) eqn:E; [|done]. rewrite <- H. symmetry. apply existsb_elem. eauto.
  - intros H. destruct (existsb f l) eqn:E; [|done]. apply existsb_elem in E as (x&Hx&Hf). by rewrite (H x Hx) in Hf.
Qed.
Lemma forallb_elem {X} (f : X → bool) l : forallb f l = true ↔ ∀ x, x ∈ l → f x = true.
Proof. rewrite forallb_forall. split; intros H x Hx; apply H; by apply elem_of_list_In. Qed.

Lemma live_in_true A m s : live_in A m s = true ↔ ∃ c, c ∈ A ∧ Purge.cur_of m c = Some s.
Proof.
  unfold live_in. rewrite existsb_elem. split; intros (c&Hc&H); exists c; (split; [done|]).
  - by apply bool_decide_eq_true in H.
  - by apply bool_decide_eq_true.
Qed.
Lemma live_in_false A m s : live_in A m s = false ↔ ∀ c, c ∈ A → Purge.cur_of m c ≠ Some s.
Proof.
  unfold live_in. rewrite existsb_false. split; intros H c Hc.
  - specialize (H c Hc). by apply bool_decide_eq_false in H.
  - apply bool_decide_eq_false. by apply H.
Qed.

Lemma foreign_in_true A m s : foreign_in A m s = true ↔ ∃ c p, m !! c = Some (s, p) ∧ grp A c = false.
Proof.
  unfold foreign_in. rewrite existsb_elem. split.
  - intros ([c [s0 p]]&Hin&H). apply elem_of_map_to_list in Hin. simpl in H.
    apply andb_true_iff in H as [H1 H2]. apply N.eqb_eq in H2. subst s0.
    exists c, p. split; [done|]. by destruct (grp A c).
  - intros (c&p&Hm&Hg). exists (c, (s, p)). split; [by apply elem_of_map_to_list|]. simpl.
    by rewrite Hg, N.eqb_refl.
Qed.
Lemma foreign_in_false A m s : foreign_in A m s = false ↔ ∀ c p, m !! c = Some (s, p) → grp A c = true.
Proof.
  split.
  - intros H c p Hm. destruct (grp A c) eqn:Hg; [done|]. rewrite <- H. apply foreign_in_true. eauto.
  - intros H. destruct (foreign_in A m s) eqn:E; [|done]. apply foreign_in_true in E as (c&p&Hm&Hg).
    by rewrite (H c p Hm) in Hg.
Qed.

Lemma separated_true A m :
  separated A m = true ↔ ∀ c s, c ∈ A → Purge.cur_of m c = Some s → foreign_in A m s = false.
Proof.
  unfold separated. rewrite forallb_elem. split.
  - intros H c s Hc Hs. specialize (H c Hc). rewrite Hs in H. by apply negb_true_iff in H.
  - intros H c Hc. destruct (Purge.cur_of m c) as [s|] eqn:Hs; [|done]. apply negb_true_iff. by eapply H.
Qed.

(* ================= the renaming of session ids ================= *)
(* the two membership tables, restricted to the group, differ by a renaming of session ids *)
Definition mrel (A : list N) (m1 m2 : members) : Prop :=
  (∀ c, c ∈ A → snd <$> m1 !! c = snd <$> m2 !! c) ∧
  (∀ c d s t s' t', c ∈ A → d ∈ A →
     Purge.cur_of m1 c = Some s → Purge.cur_of m1 d = Some t →
     Purge.cur_of m2 c = Some s' → Purge.cur_of m2 d = Some t' → (s = t ↔ s' = t')).

Lemma mrel_cur_Some A m1 m2 c s :
  mrel A m1 m2 → c ∈ A → Purge.cur_of m1 c = Some s → ∃ s', Purge.cur_of m2 c = Some s'.
Proof.
  intros [H _] Hc. specialize (H c Hc). unfold Purge.cur_of.
  destruct (m1 !! c) as [[s0 p]|]; [|done]. destruct (m2 !! c) as [[s' p']|]; [|done]. simpl. eauto.
Qed.

Lemma rho_ok_true A m1 m2 : mrel A m1 m2 → rho_ok A m1 m2 = true.
Proof.
  intros [H1 H2]. unfold rho_ok. apply forallb_elem. intros c Hc. apply andb_true_iff. split.
  - apply bool_decide_eq_true. by apply H1.
  - apply forallb_elem. intros d Hd. apply bool_decide_eq_true.
    pose proof (H1 c Hc) as Ec. pose proof (H1 d Hd) as Ed. unfold Purge.cur_of in *.
    destruct (m1 !! c) as [[s p]|] eqn:E1, (m2 !! c) as [[s' p']|] eqn:E2; try done;
    destruct (m1 !! d) as [[t q]|] eqn:E3, (m2 !! d) as [[t' q']|] eqn:E4; try done; simpl.
    specialize (H2 c d s t s' t' Hc Hd). unfold Purge.cur_of in H2. rewrite E1, E2, E3, E4 in H2.
    specialize (H2 eq_refl eq_refl eq_refl eq_refl). split; intros [= ?]; f_equal; tauto.
Qed.

Lemma head_omap_Some {X Y} (f : X → option Y) l y :
  head (omap f l) = Some y → ∃ x, x ∈ l ∧ f x = Some y.
Proof.
  induction l as [|x l IH]; simpl; [done|]. destruct (f x) as [y'|] eqn:E; simpl.
  - intros [= <-]. exists x. split; [left|done].
  - intros H. destruct (IH H) as (x'&Hx&Hf). exists x'. split; [by right|done].
Qed.
Lemma head_omap_None {X Y} (f : X → option Y) l :
  head (omap f l) = None ↔ ∀ x, x ∈ l → f x = None.
Proof.
  induction l as [|x l IH]; simpl.
  - split; [by inversion 2|done].
  - destruct (f x) as [y'|] eqn:E; simpl.
    + split; [done|]. intros H. specialize (H x ltac:(left)). congruence.
    + rewrite IH. split; [|by intros H x' Hx'; apply H; right].
      intros H x' [->|Hx']%elem_of_cons; [done|by apply H].
Qed.

Lemma rho_Some A m1 m2 s s' :
  rho A m1 m2 s = Some s' → ∃ c, c ∈ A ∧ Purge.cur_of m1 c = Some s ∧ Purge.cur_of m2 c = Some s'.
Proof.
  unfold rho. intros (c&Hc&H)%head_omap_Some. exists c. split; [done|].
  case_bool_decide; [done|done].
Qed.
Lemma rho_intro A m1 m2 c s s' :
  mrel A m1 m2 → c ∈ A → Purge.cur_of m1 c = Some s → Purge.cur_of m2 c = Some s' → rho A m1 m2 s = Some s'.
Proof.
  intros M Hc H1 H2. destruct (rho A m1 m2 s) as [s''|] eqn:E.
  - apply rho_Some in E as (d&Hd&D1&D2). f_equal.
    destruct M as [_ M]. symmetry. by apply (M c d s s s' s'' Hc Hd H1 D1 H2 D2).
  - unfold rho in E. rewrite head_omap_None in E. specialize (E c Hc).
    rewrite bool_decide_true in E by done. congruence.
Qed.
Lemma rho_None A m1 m2 s : mrel A m1 m2 → rho A m1 m2 s = None → live_in A m1 s = false.
Proof.
  intros M E. apply live_in_false. intros c Hc H1.
  destruct (mrel_cur_Some _ _ _ c s M Hc H1) as [s' H2].
  by rewrite (rho_intro _ _ _ c s s' M Hc H1 H2) in E.
Qed.
Lemma rho_live A m1 m2 s : mrel A m1 m2 → live_in A m1 s = true → ∃ s', rho A m1 m2 s = Some s'.
Proof.
  intros M (c&Hc&H1)%live_in_true. destruct (mrel_cur_Some _ _ _ c s M Hc H1) as [s' H2].
  exists s'. by eapply rho_intro.
Qed.

(* ================= related deliveries ================= *)
Definition njr (m : msg) : bool := match m with MJoinResp _ _ _ _ => false | _ => true end.

(* [j]: whether a join response (with the incarnation numbers u1 / u2) may occur *)
Definition mrl (j : bool) (u1 u2 : N) (m1 m2 : msg) : Prop :=
  (m1 = m2 ∧ njr m1 = true) ∨
  (j = true ∧ ∃ rid s1 s2 p, m1 = MJoinResp rid s1 u1 p ∧ m2 = MJoinResp rid s2 u2 p).
Definition drl (j : bool) (u1 u2 : N) (d1 d2 : delivery) : Prop :=
  fst d1 = fst d2 ∧ mrl j u1 u2 (snd d1) (snd d2).
Definition orl (j : bool) (u1 u2 : N) (l1 l2 : list delivery) : Prop := Forall2 (drl j u1 u2) l1 l2.

Lemma drl_refl j u1 u2 d : njr (snd d) = true → drl j u1 u2 d d.
Proof. intros H. split; [done|]. by left. Qed.
Lemma orl_refl j u1 u2 l : Forall (λ d : delivery, njr (snd d) = true) l → orl j u1 u2 l l.
Proof. induction 1; constructor; [by apply drl_refl|done]. Qed.
Lemma orl_app j u1 u2 l1 l2 k1 k2 : orl j u1 u2 l1 l2 → orl j u1 u2 k1 k2 → orl j u1 u2 (l1 ++ k1) (l2 ++ k2).
Proof. apply Forall2_app. Qed.
Lemma orl_weaken u1 u2 l1 l2 j : orl false 0 0 l1 l2 → orl j u1 u2 l1 l2.
Proof.
  intros H. eapply Forall2_impl; [exact H|]. intros d1 d2 [E [M|(?&_)]]; [|done]. split; [done|by left].
Qed.
Lemma plain_njr m : plain m = true → njr m = true.
Proof. by destruct m. Qed.
Lemma plains_njr l : plains l → Forall (λ d : delivery, njr (snd d) = true) l.
Proof. intros H. eapply Forall_impl; [exact H|]. intros d. apply plain_njr. Qed.

Lemma mrl_canon j u1 u2 m1 m2 : mrl j u1 u2 m1 m2 → mrl j u1 u2 (canon_msg m1) (canon_msg m2).
Proof.
  intros [[-> H]|(Hj&rid&s1&s2&p&->&->)]; [|right; split; [done|]; by exists rid, s1, s2, p].
  left. split; [done|]. by destruct m2.
Qed.
Lemma mrl_snap j u1 u2 m1 m2 :
  mrl j u1 u2 m1 m2 →
  match m1 with MSnap _ _ _ => true | _ => false end = match m2 with MSnap _ _ _ => true | _ => false end.
Proof. by intros [[-> H]|(Hj&rid&s1&s2&p&->&->)]. Qed.

Lemma orl_filter_keep A j u1 u2 l1 l2 :
  orl j u1 u2 l1 l2 → orl j u1 u2 (List.filter (keep A) l1) (List.filter (keep A) l2).
Proof.
  induction 1 as [|d1 d2 l1 l2 [E M] _ IH]; simpl; [constructor|].
  assert (Hk : keep A d1 = keep A d2).
  { unfold keep. rewrite E. f_equal. f_equal. by eapply mrl_snap. }
  rewrite Hk. destruct (keep A d2); [constructor; [by split|done]|done].
Qed.

Lemma orl_insert_sorted j u1 u2 x y l1 l2 :
  drl j u1 u2 x y → orl j u1 u2 l1 l2 →
  orl j u1 u2 (insert_sorted (λ a b : delivery, fst a <=? fst b) x l1)
              (insert_sorted (λ a b : delivery, fst a <=? fst b) y l2).
Proof.
  intros Hxy H. induction H as [|a b l1 l2 Hab H IH]; simpl; [constructor; [done|constructor]|].
  rewrite (proj1 Hxy), (proj1 Hab). destruct (fst y <=? fst b).
  - constructor; [done|]. by constructor.
  - by constructor.
Qed.
Lemma orl_isort j u1 u2 l1 l2 :
  orl j u1 u2 l1 l2 →
  orl j u1 u2 (isort (λ a b : delivery, fst a <=? fst b) l1) (isort (λ a b : delivery, fst a <=? fst b) l2).
Proof. induction 1; simpl; [constructor|]. by apply orl_insert_sorted. Qed.

Lemma drl_leave_delete j u1 u2 c d1 d2 : drl j u1 u2 d1 d2 → is_leave_delete c d1 = is_leave_delete c d2.
Proof.
  destruct d1 as [c1 m1], d2 as [c2 m2]. intros [E M]. simpl in *. subst c2.
  destruct M as [[-> H]|(Hj&rid&s1&s2&p&->&->)]; done.
Qed.
Lemma orl_span_deletes j u1 u2 c l1 l2 :
  orl j u1 u2 l1 l2 →
  (span_deletes c l1).1 = (span_deletes c l2).1 ∧ orl j u1 u2 (span_deletes c l1).2 (span_deletes c l2).2.
Proof.
  induction 1 as [|d1 d2 l1 l2 Hd H IH]; simpl; [split; [done|constructor]|].
  rewrite (drl_leave_delete _ _ _ c _ _ Hd). destruct (is_leave_delete c d2) as [e|].
  - destruct IH as [IH1 IH2]. destruct (span_deletes c l1) as [es1 r1], (span_deletes c l2) as [es2 r2].
    simpl in *. by subst.
  - simpl. split; [done|]. by constructor.
Qed.

Lemma canon_runs_del fuel c e l :
  canon_runs (S fuel) ((c, MEntityDeleteB 0 e) :: l) =
  (let '(es, rest) := span_deletes c ((c, MEntityDeleteB 0 e) :: l) in
   map (λ e, (c, MEntityDeleteB 0 e)) (sortN es) ++ canon_runs fuel rest).
Proof. reflexivity. Qed.

Lemma orl_canon_runs j u1 u2 fuel l1 l2 :
  orl j u1 u2 l1 l2 → orl j u1 u2 (canon_runs fuel l1) (canon_runs fuel l2).
Proof.
  revert l1 l2. induction fuel as [|fuel IH]; intros l1 l2 H; [done|].
  destruct H as [|d1 d2 l1 l2 Hd H]; [constructor|].
  assert (Hdef : orl j u1 u2 (d1 :: canon_runs fuel l1) (d2 :: canon_runs fuel l2)) by (constructor; [done|by apply IH]).
  destruct d1 as [c1 m1], d2 as [c2 m2]. destruct Hd as [E M]. simpl in E, M. subst c2.
  destruct M as [[<- Hn]|(Hj&rid&s1&s2&p&->&->)]; [|exact Hdef].
  destruct m1; try exact Hdef. destruct ots; [|exact Hdef].
  assert (Hfull : orl j u1 u2 ((c1, MEntityDeleteB 0 eid) :: l1) ((c1, MEntityDeleteB 0 eid) :: l2)).
  { constructor; [by apply drl_refl|done]. }
  destruct (orl_span_deletes j u1 u2 c1 _ _ Hfull) as [E1 E2].
  rewrite !canon_runs_del.
  destruct (span_deletes c1 ((c1, MEntityDeleteB 0 eid) :: l1)) as [es1 r1],
           (span_deletes c1 ((c1, MEntityDeleteB 0 eid) :: l2)) as [es2 r2]. cbn [fst snd] in *. subst es2.
  apply orl_app; [|by apply IH]. apply orl_refl. apply Forall_fmap, Forall_forall. by intros.
Qed.

Lemma orl_canon_outs j u1 u2 l1 l2 : orl j u1 u2 l1 l2 → orl j u1 u2 (canon_outs l1) (canon_outs l2).
Proof.
  intros H. unfold canon_outs. cbv zeta.
  assert (H1 : orl j u1 u2 (map (λ d : N * msg, (fst d, canon_msg (snd d))) l1)
                          (map (λ d : N * msg, (fst d, canon_msg (snd d))) l2)).
  { apply Forall2_fmap. eapply Forall2_impl; [exact H|]. intros d1 d2 [E M]. split; [done|]. by apply mrl_canon. }
  apply orl_isort in H1. rewrite (Forall2_length _ _ _ H1). by apply orl_canon_runs.
Qed.

Lemma orl_outs_to A j u1 u2 l1 l2 : orl j u1 u2 l1 l2 → orl j u1 u2 (outs_to A l1) (outs_to A l2).
Proof. intros H. unfold outs_to. by apply orl_canon_outs, orl_filter_keep. Qed.

(* ---------- the comparison accepts related deliveries ---------- *)
Lemma uu_ok_add uu a b : uu_ok uu a b = true → uu_ok (uu_add uu a b) a b = true.
Proof.
  intros H. unfold uu_add. destruct (existsb _ uu); [done|]. simpl. rewrite H.
  rewrite bool_decide_true by (split; done). done.
Qed.
Lemma uu_add_idem uu a b : uu_add (uu_add uu a b) a b = uu_add uu a b.
Proof.
  unfold uu_add. destruct (existsb (λ p : N * N, fst p =? a) uu) eqn:E; [by rewrite E|].
  simpl. by rewrite N.eqb_refl.
Qed.

Lemma outs_match_related i j u1 u2 l1 l2 : ∀ uu,
  orl j u1 u2 l1 l2 → (j = true → uu_ok uu u1 u2 = true) →
  ∃ uu', outs_match i uu l1 l2 = (uu', []) ∧ (uu' = uu ∨ (j = true ∧ uu' = uu_add uu u1 u2)).
Proof.
  intros uu H. revert uu. induction H as [|d1 d2 l1 l2 [E M] H IH]; intros uu Hok.
  - exists uu. split; [done|by left].
  - destruct d1 as [c1 m1], d2 as [c2 m2]. simpl in E, M. subst c2.
    destruct M as [[<- Hn]|(Hj&rid&s1&s2&p&->&->)].
    + destruct m1; try discriminate Hn; cbn [outs_match fst snd]; rewrite N.eqb_refl; cbn [negb];
        rewrite bool_decide_true by reflexivity; cbn [negb]; by apply IH.
    + cbn [outs_match fst snd]. rewrite !N.eqb_refl, (Hok Hj). cbn [negb andb].
      destruct (IH (uu_add uu u1 u2)) as (uu'&Hm&Hu); [intros _; by apply uu_ok_add, Hok|].
      exists uu'. split; [done|]. right. split; [done|].
      destruct Hu as [->|[_ ->]]; [done|apply uu_add_idem].
Qed.

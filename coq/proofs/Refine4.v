(* proofs/Refine4.v — a consumer of the entity refinement: on the model's own traces P_C05 ("only the creator
   may delete or move an entity, or attach an asset to it; ownership is never acquired later") never reports
   one of its request-outcome clauses 501-508 nor 599; what it could still report are only the clauses that
   compare a whole snapshot / session state with the spec (510-518, 521-531), which are not covered here. *)
From stdpp Require Import relations sorting.
From hagall Require Import Model Spec Obs Preds.
From hagall.proofs Require Import BaseLemmas Relay Inv Session Local Trans WF Mono Reach PC02 PC06 PC07 Own Refine Refine2 Refine3.
From Coq Require Import Lia.

(* the clauses not covered *)
Definition snapshot_code (v : violation) : Prop := (510 ≤ v_code v ≤ 531)%Z.

Lemma Forall_okv (P : violation → Prop) i b code info : P (viol i code info) → Forall P (okv i b code info).
Proof. intros H. unfold okv. destruct b; by repeat constructor. Qed.
Lemma Forall_flat_map {A B} (P : B → Prop) (f : A → list B) l : (∀ x, Forall P (f x)) → Forall P (flat_map f l).
Proof. intros H. induction l as [|x l IH]; simpl; [constructor|]. by apply Forall_app_2. Qed.

Ltac codes := repeat first
  [ apply Forall_nil_2
  | apply Forall_app_2
  | apply Forall_okv; unfold snapshot_code; simpl; lia
  | apply Forall_cons_2; [unfold snapshot_code; simpl; lia|]
  | apply Forall_flat_map; intros ?
  | case_match ].

Lemma join_snapshot_codes cfg k i sp c sid outs :
  Forall snapshot_code (join_snapshot_check cfg k 500 i sp c sid outs).
Proof. unfold join_snapshot_check. codes. Qed.
Lemma snap_check_codes cfg k i sp e : Forall snapshot_code (snap_check cfg k 500 i sp e).
Proof. unfold snap_check, dump_check. codes. Qed.

(* ---------- the request-outcome clauses of P_C05 for a member (sid, p) on connection c ---------- *)
Definition c05_req_clauses (cfg : config) (i : nat) (sp sp' : spec) (c sid p : N) (r : req) (outs : list delivery) : list violation :=
  match r with
  | REntityDelete rid eid ots =>
      match sp_ents sp !! (sid, eid) with
      | None => okv i (same_lines outs [(c, MError rid E_NOT_FOUND)]) 501 [zn c; zn eid]
      | Some (ent, _) =>
          if ep_owner ent =? p
          then okv i (has_msg c outs (λ m, match m with MEntityDeleteResp r' => r' =? rid | _ => false end)) 502 [zn c; zn eid]
          else okv i (same_lines outs [(c, MError rid E_UNAUTHORIZED)]) 503 [zn c; zn eid; zn p; zn (ep_owner ent)]
      end
  | RPose eid po ots =>
      match pose_accepted sp sid p eid po with
      | Some _ => []
      | None => okv i (bool_decide (outs = [])) 504 [zn c; zn eid; zn p]
      end
  | RAssetAdd rid eid aid ots =>
      if negb (cfg_odal cfg) then [] else
      if aid =? 0 then [] else
      match sp_ents sp !! (sid, eid) with
      | None => okv i (same_lines outs [(c, MError rid E_NOT_FOUND)]) 505 [zn c; zn eid]
      | Some (ent, _) =>
          if ep_owner ent =? p
          then okv i (has_msg c outs (λ m, match m with MAssetAddResp r' _ => r' =? rid | _ => false end)) 506 [zn c; zn eid]
          else okv i (same_lines outs [(c, MError rid E_UNAUTHORIZED)]) 507 [zn c; zn eid; zn p; zn (ep_owner ent)]
      end
  | RJoin rid s ots =>
      match join_resp c outs with
      | Some (_, sid', uuid, pid) =>
          okv i (bool_decide (pid ∉ issued (sp_pids (depart sp c)) uuid)) 508 [zn c; zn sid'; zn pid] ++
          join_snapshot_check cfg {| k_parts := false; k_ents := true; k_comps := false; k_acts := false; k_assets := true;
                                     k_types := false; k_subs := false; k_reg := false |} 500 i sp' c sid' outs
      | None => []
      end
  | _ => []
  end.

Lemma P_C05_event_unfold cfg i sp sp' e :
  P_C05_event cfg i sp sp' e =
  match stepped e with
  | Some (c, r) => match sp_mem sp !! c with
                   | None => []
                   | Some (sid, p) => c05_req_clauses cfg i sp sp' c sid p r (ev_outs e)
                   end
  | None => []
  end ++
  match stepped e with
  | Some (c, RJoin rid s ots) =>
      match sp_mem sp !! c, join_resp c (ev_outs e) with
      | None, Some (_, sid', uuid, pid) =>
          okv i (bool_decide (pid ∉ issued (sp_pids sp) uuid)) 508 [zn c; zn sid'; zn pid] ++
          join_snapshot_check cfg {| k_parts := false; k_ents := true; k_comps := false; k_acts := false; k_assets := true;
                                     k_types := false; k_subs := false; k_reg := false |} 500 i sp' c sid' (ev_outs e)
      | _, _ => []
      end
  | _ => []
  end ++
  snap_check cfg {| k_parts := false; k_ents := true; k_comps := false; k_acts := false; k_assets := true;
                    k_types := false; k_subs := false; k_reg := false |} 500 i sp e ++ bad_msgs i 500 e.
Proof. reflexivity. Qed.

Lemma same_lines_refl l : same_lines l l = true.
Proof. unfold same_lines. by rewrite bool_decide_eq_true_2. Qed.

(* the three requests whose outcome depends on the owner, against the model's handler *)
Lemma c05_request_ok cfg i st c cn sid p SS r hint st' o v sp sp' :
  is_join r = false → (∀ e, sp_ents sp !! (sid, e) = ent_abs e <$> s_ents SS !! e) →
  handle_joined cfg st c cn sid p SS r hint = (st', o, v) →
  c05_req_clauses cfg i sp sp' c sid p r o = [].
Proof.
  intros Hj Ee H. destruct r; try discriminate Hj; try reflexivity; simpl in H; unfold c05_req_clauses.
  - (* entity delete *)
    rewrite (Ee eid). destruct (s_ents SS !! eid) as [ent|] eqn:Hent; simpl.
    + destruct (e_owner ent =? p) eqn:Ho; simpl in H; injection H as <- <- <-.
      * unfold has_msg. simpl. by rewrite !N.eqb_refl.
      * by rewrite same_lines_refl.
    + injection H as <- <- <-. by rewrite same_lines_refl.
  - (* pose *)
    unfold pose_accepted. rewrite (Ee eid). destruct (s_ents SS !! eid) as [ent|] eqn:Hent; simpl.
    + destruct p0 as [ps|]; [|by injection H as <- <- <-].
      destruct (e_owner ent =? p) eqn:Ho; simpl in H; [done|]. by injection H as <- <- <-.
    + destruct p0; by injection H as <- <- <-.
  - (* asset add *)
    destruct (cfg_odal cfg); simpl in *; [|done].
    destruct (asset =? 0); [done|]. rewrite (Ee eid).
    destruct (s_ents SS !! eid) as [ent|] eqn:Hent; simpl.
    + destruct (e_owner ent =? p) eqn:Ho; simpl in H; injection H as <- <- <-.
      * unfold has_msg. simpl. by rewrite !N.eqb_refl.
      * by rewrite same_lines_refl.
    + injection H as <- <- <-. by rewrite same_lines_refl.
Qed.

(* the participant id a join hands out was never issued before under that incarnation *)
Lemma join_pid_fresh cfg st c cn rid s ots hint sp :
  inv st → nowrap st → refines_mem sp st → conns st !! c = Some cn →
  ∀ st' outs v, Model.join cfg st c rid s ots hint = (st', outs, v) →
  ∀ r' n u p, join_resp c outs = Some (r', n, u, p) → p ∉ issued (sp_pids (depart sp c)) u.
Proof.
  intros I W R Hc st' outs v. unfold Model.join. rewrite Hc.
  destruct (already_joined cn s) eqn:Haj.
  - intros [= <- <- <-] r' n u p. unfold already_joined in Haj.
    destruct (c_cur cn) as [[cur p0]|] eqn:Hcur; [|done]. destruct s as [|n0|k]; try done.
    set (mo := match sessions st !! cur with Some SS => module_join_msgs cfg c SS | None => [] end).
    assert (Hmo : plains mo). { unfold mo. destruct (sessions st !! cur); [apply plains_module_join|constructor]. }
    rewrite join_resp_cons_other by done. by rewrite (join_resp_plain _ _ Hmo).
  - pose proof (leave_refines cfg sp st c I R) as R1. pose proof (inv_leave cfg st c I) as I1.
    pose proof (leave_nowrap cfg st c I W) as W1. pose proof (plains_leave cfg st c) as P1.
    destruct (leave cfg st c) as [st1 o1]. simpl in *.
    assert (Hnotfound : ∀ outs, outs = o1 ++ [(c, MError rid E_NOT_FOUND)] → join_resp c outs = None).
    { intros ? ->. rewrite join_resp_app_plain by done. by rewrite join_resp_cons_other. }
    destruct s as [|n0|k].
    + destruct (create_session hint st1) as [n0 st2] eqn:Hcr.
      destruct (c07_created_fresh _ _ _ _ Hcr) as [HS2 _].
      rewrite (enter_eq cfg st2 c rid n0 ots _ HS2). cbv zeta. intros [= <- <- <-] r' n u p.
      rewrite join_resp_app_plain by done. unfold join_resp at 1. erewrite first_to_hit by reflexivity.
      intros [= <- <- <- <-]. simpl. rewrite (rm_fresh _ _ R1) by lia. set_solver.
    + destruct (sessions st1 !! n0) as [SS|] eqn:HS.
      * rewrite (enter_eq cfg st1 c rid n0 ots SS HS). cbv zeta. intros [= <- <- <-] r' n u p.
        rewrite join_resp_app_plain by done. unfold join_resp at 1. erewrite first_to_hit by reflexivity.
        intros [= <- <- <- <-].
        assert (Hg : pgen_of st1 n0 = Some (s_pgen SS)) by (unfold pgen_of; by rewrite HS).
        assert (Hun : uuid_at st1 n0 = Some (s_uuid SS)) by (unfold uuid_at; by rewrite HS).
        rewrite (rm_pids _ _ R1 n0 _ _ Hun Hg). rewrite u32_succ_small by (by apply (proj2 W1 n0)). lia.
      * intros [= <- <- <-] r' n u p. by rewrite (Hnotfound _ eq_refl).
    + intros [= <- <- <-] r' n u p. by rewrite (Hnotfound _ eq_refl).
Qed.

Lemma bad_msgs_base i i' b b' e : bad_msgs i b e = [] → bad_msgs i' b' e = [].
Proof.
  unfold bad_msgs. induction (ev_outs e) as [|[c m] l IH]; simpl; [done|].
  destruct m; simpl; try exact IH. done.
Qed.

(* ---------- one step ---------- *)
Lemma c05_step_ok cfg st o k sp i :
  inv st → bounded k st → k + 1 < two32 → reg st → own_inv st → refines_mem sp st → refines_ents sp st →
  let e := ev_of st o (step cfg st o) in
  Forall snapshot_code (P_C05_event cfg i sp (spec_step sp e) e).
Proof.
  intros I B Hk G O R E e. pose proof (bounded_nowrap _ _ B Hk) as W.
  rewrite P_C05_event_unfold.
  assert (Hbad : bad_msgs i 500 e = []).
  { destruct (step_sim cfg st o k sp 0%nat I B Hk G R) as [_ C]. fold e in C. unfold P_C07_event in C.
    apply app_eq_nil in C as [_ C]. apply app_eq_nil in C as [_ C]. by eapply bad_msgs_base. }
  rewrite Hbad, app_nil_r.
  apply Forall_app_2; [|apply Forall_app_2; [|apply snap_check_codes]].
  - (* the request of a member *)
    destruct (stepped e) as [[c r]|] eqn:Hst; [|constructor].
    destruct (sp_mem sp !! c) as [[sid p]|] eqn:Hmem; [|constructor].
    unfold e, ev_of, stepped in Hst. cbn [ev_op ev_req ev_verdict] in Hst.
    destruct o as [c0|c0 r0|c0 hint|sid0|c0|]; try discriminate Hst.
    cbn [consumed step] in Hst. unfold e, ev_of. cbn [consumed step].
    destruct (conns st !! c0) as [cn|] eqn:Hc; [|discriminate Hst].
    destruct (c_open cn) eqn:Ho; [|discriminate Hst]. cbn [negb] in *.
    destruct (c_queue cn) as [|r1 q] eqn:Hq; [discriminate Hst|]. cbn [head] in *.
    set (st0 := upd_conn c0 (set_queue q) st) in *.
    assert (Hs0 : same_mem st st0) by (apply same_mem_upd_conn; by intros []).
    assert (I0 : inv st0) by by eapply inv_same_mem.
    assert (W0 : nowrap st0) by (eapply bounded_nowrap; [by eapply bounded_same_mem|done]).
    assert (R0 : refines_mem sp st0) by (eapply refines_same; [apply same_all_upd_conn; by intros []|exact R]).
    assert (Hc0 : conns st0 !! c0 = Some (set_queue q cn)).
    { unfold st0, upd_conn. simpl. rewrite Hc. by rewrite lookup_insert. }
    destruct (handle cfg st0 c0 r1 hint) as [[st1 o1] v] eqn:Eh.
    assert (Hcr : c = c0 ∧ r = r1 ∧ v ≠ VErr).
    { destruct v; simpl in Hst; try discriminate Hst; try (by injection Hst as <- <-).
      destruct (disconnect cfg st1 c0). discriminate Hst. }
    destruct Hcr as (->&->&Hv).
    cbn [ev_outs].
    cut (∀ sp'', Forall snapshot_code (c05_req_clauses cfg i sp sp'' c0 sid p r1 o1)).
    { intros Hmain. destruct v; try apply Hmain. exfalso; by apply Hv. }
    intros sp''.
    assert (Hcur : c_cur cn = Some (sid, p)).
    { rewrite (rm_mem _ _ R) in Hmem. unfold cur_of in Hmem. by rewrite Hc in Hmem. }
    destruct (is_join r1) eqn:Hj.
    + destruct r1 as [| | |rid sid1 ots| | | | | | | | | | | | | | | | | | | |]; try discriminate Hj. unfold c05_req_clauses.
      destruct (join_resp c0 o1) as [[[[r' n] u] p']|] eqn:Hjr; [|constructor].
      apply Forall_app_2; [|apply join_snapshot_codes].
      assert (Hh : handle cfg st0 c0 (RJoin rid sid1 ots) hint = Model.join cfg st0 c0 rid sid1 ots hint).
      { unfold handle. rewrite Hc0. change (c_cur (set_queue q cn)) with (c_cur cn). rewrite Hcur.
        assert (Hcur0 : cur_of st0 c0 = Some (sid, p)) by (unfold cur_of; rewrite Hc0; exact Hcur).
        destruct (live_session _ _ (inv_live _ I0 _ _ _ Hcur0)) as [SS HS]. by rewrite HS. }
      rewrite Hh in Eh.
      rewrite bool_decide_eq_true_2 by (by eapply (join_pid_fresh cfg st0 c0 _ rid sid1 ots hint sp I0 W0 R0 Hc0 _ _ _ Eh)).
      constructor.
    + unfold handle in Eh. rewrite Hc0 in Eh. change (c_cur (set_queue q cn)) with (c_cur cn) in Eh. rewrite Hcur in Eh.
      assert (Hcur0 : cur_of st0 c0 = Some (sid, p)) by (unfold cur_of; rewrite Hc0; exact Hcur).
      destruct (live_session _ _ (inv_live _ I0 _ _ _ Hcur0)) as [SS HS]. rewrite HS in Eh.
      erewrite c05_request_ok; [constructor|exact Hj| |exact Eh].
      intros e0. rewrite (E sid e0). unfold ents_at. change (sessions st) with (sessions st0). by rewrite HS.
  - (* the join of a connection that was in no session *)
    destruct (stepped e) as [[c r]|] eqn:Hst; [|constructor].
    destruct r; try constructor.
    destruct (sp_mem sp !! c) as [[sid0 p]|] eqn:Hmem; [constructor|].
    destruct (join_resp c (ev_outs e)) as [[[[r' n] u] p']|] eqn:Hjr; [|constructor].
    apply Forall_app_2; [|apply join_snapshot_codes].
    unfold e, ev_of, stepped in Hst, Hjr. cbn [ev_op ev_req ev_verdict ev_outs] in Hst, Hjr.
    destruct o as [c0|c0 r0|c0 hint|sid0|c0|]; try discriminate Hst.
    cbn [consumed step] in Hst, Hjr.
    destruct (conns st !! c0) as [cn|] eqn:Hc; [|discriminate Hst].
    destruct (c_open cn) eqn:Ho; [|discriminate Hst]. cbn [negb] in *.
    destruct (c_queue cn) as [|r1 q] eqn:Hq; [discriminate Hst|]. cbn [head] in *.
    set (st0 := upd_conn c0 (set_queue q) st) in *.
    assert (Hs0 : same_mem st st0) by (apply same_mem_upd_conn; by intros []).
    assert (I0 : inv st0) by by eapply inv_same_mem.
    assert (W0 : nowrap st0) by (eapply bounded_nowrap; [by eapply bounded_same_mem|done]).
    assert (R0 : refines_mem sp st0) by (eapply refines_same; [apply same_all_upd_conn; by intros []|exact R]).
    assert (Hc0 : conns st0 !! c0 = Some (set_queue q cn)).
    { unfold st0, upd_conn. simpl. rewrite Hc. by rewrite lookup_insert. }
    destruct (handle cfg st0 c0 r1 hint) as [[st1 o1] v] eqn:Eh.
    assert (Hcr : c = c0 ∧ RJoin rid sid ots = r1 ∧ v ≠ VErr).
    { destruct v; simpl in Hst; try discriminate Hst; try (by injection Hst as <- <-).
      destruct (disconnect cfg st1 c0). discriminate Hst. }
    destruct Hcr as (->&<-&Hv).
    assert (Hjr' : join_resp c0 o1 = Some (r', n, u, p')).
    { destruct v; try exact Hjr. exfalso; by apply Hv. }
    clear Hjr. rename Hjr' into Hjr.
    assert (Hcur : c_cur cn = None).
    { rewrite (rm_mem _ _ R) in Hmem. unfold cur_of in Hmem. by rewrite Hc in Hmem. }
    assert (Hh : handle cfg st0 c0 (RJoin rid sid ots) hint = Model.join cfg st0 c0 rid sid ots hint).
    { unfold handle. rewrite Hc0. change (c_cur (set_queue q cn)) with (c_cur cn). by rewrite Hcur. }
    rewrite Hh in Eh.
    pose proof (join_pid_fresh cfg st0 c0 _ rid sid ots hint sp I0 W0 R0 Hc0 _ _ _ Eh _ _ _ _ Hjr) as Hf.
    rewrite depart_none in Hf by done. rewrite bool_decide_eq_true_2 by done. constructor.
Qed.

(* ---------- every history ---------- *)
Lemma sscan_snoc {A} (f : nat → spec → spec → event → list A) i sp t e :
  sscan f i sp (t ++ [e]) =
  sscan f i sp t ++ f (i + length t)%nat (fold_left spec_step t sp) (spec_step (fold_left spec_step t sp) e) e.
Proof.
  revert i sp. induction t as [|e0 t IH]; intros i sp; simpl.
  - by rewrite Nat.add_0_r, app_nil_r.
  - rewrite IH. rewrite <- app_assoc. by rewrite Nat.add_succ_r.
Qed.

(* on the model's own traces P_C05 reports none of its clauses 501-508, 599: whatever it reports is one of the
   snapshot-comparison clauses 510-518 / 521-531 (not covered here) *)
Theorem model_C05_partial cfg h : short h → Forall snapshot_code (P_C05 cfg (run cfg h)).
Proof.
  induction h as [|o h IH] using rev_ind; intros Hs; [constructor|].
  apply short_snoc in Hs as [Hs Hb]. unfold P_C05. rewrite run_snoc, sscan_snoc.
  apply Forall_app_2; [by apply IH|].
  assert (Hlen : N.of_nat (length h) < two32) by (unfold short in Hs; lia).
  destruct (reachable_inv cfg h state0 0 inv_state0 bounded_state0) as [I B]; [lia|].
  destruct (reachable_reg cfg h Hlen) as [G _].
  apply (c05_step_ok cfg (final cfg h) o (0 + N.of_nat (length h)) (spec_after (run cfg h))); try done.
  - lia.
  - by apply reachable_own.
  - by apply refinement_mem.
  - by apply refinement_ents.
Qed.

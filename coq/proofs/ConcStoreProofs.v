(* proofs/ConcStoreProofs.v — invariants of the interleaving semantics of coq/ConcStore.v, for ANY number of
   threads, ANY programs (within the stated instruction fragments) and EVERY schedule; witnesses for the split
   variants.  Statements are collected in Properties/ConcStore.v. *)
From hagall Require Import Base ConcStore.
From Coq Require Import Lia.

Local Instance instr_eq_dec : EqDecision instr.
Proof. solve_decision. Defined.

(* ---------- schedules, steps ---------- *)
Lemma sched_run_app st σ1 σ2 : sched_run st (σ1 ++ σ2) = sched_run (sched_run st σ1) σ2.
Proof. apply fold_left_app. Qed.

Lemma run_inv (P : cstate → Prop) :
  (∀ st tid, P st → P (step st tid)) → ∀ σ st, P st → P (sched_run st σ).
Proof.
  intros Hs σ. induction σ as [|a σ IH]; intros st HP; simpl; [exact HP|]. apply IH, Hs, HP.
Qed.

Lemma step_cases st tid :
  step st tid = st ∨
  ∃ T i rest s' l' evs,
    c_thr st !! tid = Some T ∧ th_prog T = i :: rest ∧
    exec tid i (c_store st) (th_loc T) = (s', l', evs) ∧
    step st tid = {| c_store := s';
                     c_thr := <[tid := {| th_prog := rest; th_loc := l' |}]> (c_thr st);
                     c_log := c_log st ++ evs |}.
Proof.
  unfold step. destruct (c_thr st !! tid) as [T|] eqn:HT; [|left; reflexivity].
  destruct (th_prog T) as [|i rest] eqn:HP; [left; reflexivity|].
  destruct (exec tid i (c_store st) (th_loc T)) as [[s' l'] evs] eqn:Hex.
  right. exists T, i, rest, s', l', evs. repeat split; reflexivity || assumption.
Qed.

(* the program of a thread after a step is the old one or its tail *)
Lemma step_thr st tid j T' :
  c_thr (step st tid) !! j = Some T' →
  c_thr st !! j = Some T' ∨
  (j = tid ∧ ∃ T i, c_thr st !! tid = Some T ∧ th_prog T = i :: th_prog T').
Proof.
  destruct (step_cases st tid) as [->|(T&i&rest&s'&l'&evs&HT&HP&Hex&->)]; [by left|].
  simpl. intros [(->&<-&Hlt)|[Hne Hj]]%list_lookup_insert_Some; [|by left].
  right. split; [done|]. exists T, i. by rewrite HP.
Qed.

Definition thr_all (Q : list instr → Prop) (st : cstate) : Prop :=
  ∀ j T, c_thr st !! j = Some T → Q (th_prog T).

Lemma thr_all_step (Q : list instr → Prop) st tid :
  (∀ i r, Q (i :: r) → Q r) → thr_all Q st → thr_all Q (step st tid).
Proof.
  intros Htl H j T' [Hj|(->&T&i&HT&HP)]%step_thr; [by eapply H|].
  apply (Htl i). rewrite <- HP. by eapply H.
Qed.

Lemma thr_all_init (f : instr → bool) s0 progs :
  forallb (forallb f) progs = true → thr_all (λ pr, forallb f pr = true) (cinit s0 progs).
Proof.
  intros H j T. simpl. rewrite list_lookup_fmap. destruct (progs !! j) as [pr|] eqn:Hpr; [|done].
  intros [= <-]. simpl. rewrite forallb_forall in H. apply H, elem_of_list_In. by eapply elem_of_list_lookup_2.
Qed.

Lemma forallb_tail (f : instr → bool) i r : forallb f (i :: r) = true → forallb f r = true.
Proof. simpl. by intros [_ ?]%andb_true_iff. Qed.

(* ---------- what one instruction does to the subscriptions and to the log ---------- *)
Lemma subs_of_set_insert s t' X t :
  subs_of (set_subs (<[t' := X]> (s_subs s)) s) t = if decide (t' = t) then X else subs_of s t.
Proof.
  unfold subs_of, set_subs; simpl. destruct (decide (t' = t)) as [->|Hne].
  - by rewrite lookup_insert.
  - by rewrite lookup_insert_ne.
Qed.

Lemma elem_of_relay_to q t src L t' src' :
  EvRelay q t src ∈ relay_to L t' src' ↔ q ∈ L ∧ q ≠ src' ∧ t = t' ∧ src = src'.
Proof.
  unfold relay_to. rewrite elem_of_list_fmap. split.
  - intros (q0 & Heq & Hin). injection Heq as -> -> ->. apply elem_of_list_filter in Hin. naive_solver.
  - intros (Hin&Hne&->&->). exists q. split; [done|]. by apply elem_of_list_filter.
Qed.

Lemma relay_to_all_relays e L t src : e ∈ relay_to L t src → ∃ q, e = EvRelay q t src.
Proof. unfold relay_to. intros (q&->&_)%elem_of_list_fmap. by exists q. Qed.

Ltac exec_inv H :=
  simpl in H; unfold alloc_type in H; simpl in H; repeat case_match; simplify_eq.

(* a participant is in a subscriber set after the instruction only if it was before or the instruction
   subscribed it *)
Lemma exec_subs_grow tid i s l s' l' evs p t :
  exec tid i s l = (s', l', evs) → p ∈ subs_of s' t → p ∈ subs_of s t ∨ EvSub p t ∈ evs.
Proof.
  intros Hex. destruct i; exec_inv Hex; try (by left).
  - rewrite subs_of_set_insert. destruct (decide (t0 = t)) as [->|]; [|by left].
    intros [?|Hp]%elem_of_union; [by left|]. apply elem_of_singleton in Hp as ->. right. set_solver.
  - rewrite subs_of_set_insert. destruct (decide (t0 = t)) as [->|]; [|by left].
    intros [Hin _]%elem_of_difference. left. unfold subs_of. by rewrite H.
  - unfold subs_of, set_subs; simpl. rewrite lookup_fmap.
    destruct (s_subs s !! t) as [ps|] eqn:Hps; simpl; [|set_solver].
    intros [Hin _]%elem_of_difference. by left.
Qed.

Lemma exec_unsub_removes tid i s l s' l' evs p t :
  exec tid i s l = (s', l', evs) → EvUnsub p t ∈ evs ∨ EvUnsubAll p ∈ evs → p ∉ subs_of s' t.
Proof.
  intros Hex Hev. destruct i; exec_inv Hex;
    try (destruct Hev as [Hev|Hev]; apply elem_of_list_singleton in Hev; discriminate);
    try (destruct Hev as [Hev|Hev]; apply elem_of_nil in Hev; contradiction);
    try (destruct Hev as [Hev|Hev]; apply relay_to_all_relays in Hev as [? ?]; discriminate).
  - destruct Hev as [Hev|Hev]; apply elem_of_list_singleton in Hev; [|discriminate].
    injection Hev as -> ->. rewrite subs_of_set_insert, decide_True by done. set_solver.
  - destruct Hev as [Hev|Hev]; apply elem_of_list_singleton in Hev; [|discriminate].
    injection Hev as -> ->. unfold subs_of. rewrite H. set_solver.
  - destruct Hev as [Hev|Hev]; apply elem_of_list_singleton in Hev; [discriminate|].
    injection Hev as ->. unfold subs_of, set_subs; simpl. rewrite lookup_fmap.
    destruct (s_subs s !! t) as [ps|]; simpl; set_solver.
Qed.

Lemma exec_resp_inv tid i s l s' l' evs p t :
  exec tid i s l = (s', l', evs) → EvUnsubResp p t ∈ evs → i = IRespondUnsub p t ∧ s' = s.
Proof.
  intros Hex Hev. destruct i; exec_inv Hex;
    try (apply elem_of_list_singleton in Hev; discriminate);
    try (apply elem_of_nil in Hev; contradiction);
    try (apply relay_to_all_relays in Hev as [? ?]; discriminate).
  apply elem_of_list_singleton in Hev. by injection Hev as -> ->.
Qed.

Lemma exec_sub_inv tid i s l s' l' evs p t :
  exec tid i s l = (s', l', evs) → EvSub p t ∈ evs → i = ISubscribe p t.
Proof.
  intros Hex Hev. destruct i; exec_inv Hex;
    try (apply elem_of_list_singleton in Hev; discriminate);
    try (apply elem_of_nil in Hev; contradiction);
    try (apply relay_to_all_relays in Hev as [? ?]; discriminate).
  apply elem_of_list_singleton in Hev. by injection Hev as -> ->.
Qed.

(* ---------- a flag over the log: "closed by an event of class [cl] and not reopened by EvSub p t" ---------- *)
Definition is_sub (p t : N) (e : event) : bool :=
  match e with EvSub p' t' => bool_decide (p' = p ∧ t' = t) | _ => false end.
Definition is_resp (p t : N) (e : event) : bool :=
  match e with EvUnsubResp p' t' => bool_decide (p' = p ∧ t' = t) | _ => false end.
Definition is_unsub (p t : N) (e : event) : bool :=
  match e with
  | EvUnsub p' t' => bool_decide (p' = p ∧ t' = t)
  | EvUnsubAll p' => bool_decide (p' = p)
  | _ => false
  end.

Lemma is_sub_true p t e : is_sub p t e = true → e = EvSub p t.
Proof. destruct e; simpl; try discriminate. by intros [-> ->]%bool_decide_eq_true. Qed.
Lemma is_resp_true p t e : is_resp p t e = true → e = EvUnsubResp p t.
Proof. destruct e; simpl; try discriminate. by intros [-> ->]%bool_decide_eq_true. Qed.
Lemma is_unsub_true p t e : is_unsub p t e = true → e = EvUnsub p t ∨ e = EvUnsubAll p.
Proof.
  destruct e; simpl; try discriminate.
  - intros [-> ->]%bool_decide_eq_true. by left.
  - intros ->%bool_decide_eq_true. by right.
Qed.

Section flags.
  Context (cl : event → bool) (p t : N).

  Definition flag_upd (b : bool) (e : event) : bool :=
    if cl e then true else if is_sub p t e then false else b.
  Definition flag (log : list event) : bool := fold_left flag_upd log false.

  (* no relay to p for t is logged while the flag is up *)
  Fixpoint relays_ok (b : bool) (log : list event) : Prop :=
    match log with
    | [] => True
    | e :: r =>
        match e with EvRelay q t' _ => ¬ (q = p ∧ t' = t ∧ b = true) | _ => True end ∧
        relays_ok (flag_upd b e) r
    end.

  Lemma relays_ok_app b l1 l2 :
    relays_ok b (l1 ++ l2) ↔ relays_ok b l1 ∧ relays_ok (fold_left flag_upd l1 b) l2.
  Proof.
    revert b. induction l1 as [|e l1 IH]; intros b; simpl; [tauto|]. rewrite IH. tauto.
  Qed.

  Lemma fold_flag_true evs b :
    fold_left flag_upd evs b = true → (∃ e, e ∈ evs ∧ cl e = true) ∨ (b = true ∧ EvSub p t ∉ evs).
  Proof.
    revert b. induction evs as [|e evs IH]; intros b; simpl.
    - intros ->. right. split; [done|]. apply not_elem_of_nil.
    - intros [(e'&Hin&Hcl)|[Hb Hns]]%IH.
      + left. exists e'. split; [by right|done].
      + unfold flag_upd in Hb. destruct (cl e) eqn:Hcl.
        * left. exists e. split; [by left|done].
        * destruct (is_sub p t e) eqn:Hsub; [discriminate|]. right. split; [done|].
          intros [<-|Hin]%elem_of_cons; [|done]. simpl in Hsub.
          rewrite bool_decide_eq_false in Hsub. naive_solver.
  Qed.

  Lemma fold_flag_false evs : fold_left flag_upd evs true = false → EvSub p t ∈ evs.
  Proof.
    induction evs as [|e evs IH]; simpl; [discriminate|]. unfold flag_upd at 2.
    destruct (cl e); [intros ?; right; by apply IH|].
    destruct (is_sub p t e) eqn:Hsub; [|intros ?; right; by apply IH].
    intros _. apply is_sub_true in Hsub as ->. by left.
  Qed.

  Lemma relays_ok_split l2 s l3 : relays_ok true (l2 ++ EvRelay p t s :: l3) → EvSub p t ∈ l2.
  Proof.
    induction l2 as [|e l2 IH]; simpl.
    - intros [H _]. by destruct H.
    - intros [_ H]. unfold flag_upd in H. destruct (cl e); [right; by apply IH|].
      destruct (is_sub p t e) eqn:Hsub; [|right; by apply IH].
      apply is_sub_true in Hsub as ->. by left.
  Qed.

  Lemma relays_ok_split_full b l1 e l2 s l3 :
    cl e = true → relays_ok b (l1 ++ [e] ++ l2 ++ [EvRelay p t s] ++ l3) → EvSub p t ∈ l2.
  Proof.
    intros Hcl [_ H]%relays_ok_app. simpl in H. destruct H as [_ H].
    unfold flag_upd in H at 1. rewrite Hcl in H. by eapply relays_ok_split.
  Qed.

  Lemma fold_flag_relays (cl_relay : ∀ q t' s, cl (EvRelay q t' s) = false) L t' src b :
    fold_left flag_upd (relay_to L t' src) b = b.
  Proof.
    unfold relay_to. induction (filter (λ q, q ≠ src) L) as [|q L' IH]; simpl; [done|].
    unfold flag_upd at 2. by rewrite cl_relay.
  Qed.

  Lemma relays_ok_relay_to (cl_relay : ∀ q t' s, cl (EvRelay q t' s) = false) b L t' src :
    (b = true → t' = t → p ∉ L) → relays_ok b (relay_to L t' src).
  Proof.
    intros H. unfold relay_to.
    assert (Hsub : ∀ q, q ∈ filter (λ q, q ≠ src) L → q ∈ L) by (intros q [_ ?]%elem_of_list_filter; done).
    induction (filter (λ q, q ≠ src) L) as [|q L' IH]; simpl; [done|]. split.
    - intros (->&->&->). apply H; [done..|]. apply Hsub. by left.
    - unfold flag_upd. rewrite cl_relay. simpl. apply IH. intros q' ?. apply Hsub. by right.
  Qed.
End flags.

Lemma is_unsub_relay p t q t' s : is_unsub p t (EvRelay q t' s) = false.
Proof. done. Qed.
Lemma is_resp_relay p t q t' s : is_resp p t (EvRelay q t' s) = false.
Proof. done. Qed.

(* ---------- the store follows the flag: closed pairs are not subscribed ---------- *)
Definition closed_inv (cl : N → N → event → bool) (st : cstate) : Prop :=
  ∀ p t, flag (cl p t) p t (c_log st) = true → p ∉ subs_of (c_store st) t.

Lemma closed_init cl s0 progs : closed_inv cl (cinit s0 progs).
Proof. intros p t. simpl. unfold flag. simpl. discriminate. Qed.

Lemma closed_step cl st tid :
  closed_inv cl st →
  (∀ T i rest s' l' evs p t e,
     c_thr st !! tid = Some T → th_prog T = i :: rest →
     exec tid i (c_store st) (th_loc T) = (s', l', evs) →
     e ∈ evs → cl p t e = true → p ∉ subs_of s' t) →
  closed_inv cl (step st tid).
Proof.
  intros Hinv Hcl.
  destruct (step_cases st tid) as [->|(T&i&rest&s'&l'&evs&HT&HP&Hex&->)]; [exact Hinv|].
  intros p t. simpl. unfold flag. rewrite fold_left_app.
  intros [(e&He&Hce)|[Hb Hns]]%fold_flag_true.
  - eapply Hcl; eauto.
  - intros Hin. eapply exec_subs_grow in Hin as [Hin|Hin]; [|done|exact Hex].
    by apply Hinv in Hb.
Qed.

(* after Unsubscribe / UnsubscribeByParticipant returned and until the next Subscribe, p is not a subscriber:
   every program, every schedule *)
Definition unsub_inv := closed_inv is_unsub.

Lemma unsub_step st tid : unsub_inv st → unsub_inv (step st tid).
Proof.
  intros H. apply closed_step; [exact H|].
  intros T i rest s' l' evs p t e HT HP Hex He [-> | ->]%is_unsub_true;
    eapply exec_unsub_removes; eauto.
Qed.

(* relays are only made while the flag is down *)
Definition relays_inv (cl : N → N → event → bool) (st : cstate) : Prop :=
  ∀ p t, relays_ok (cl p t) p t false (c_log st).

Definition atomic_notify_thr := thr_all (λ pr, forallb instr_atomic_notify pr = true).

Lemma relays_step cl st tid :
  (∀ p t q t' s, cl p t (EvRelay q t' s) = false) →
  atomic_notify_thr st → closed_inv cl st → relays_inv cl st → relays_inv cl (step st tid).
Proof.
  intros Hrel Hat Hcl Hinv.
  destruct (step_cases st tid) as [->|(T&i&rest&s'&l'&evs&HT&HP&Hex&->)]; [exact Hinv|].
  intros p t. simpl. apply relays_ok_app. split; [apply Hinv|]. fold (flag (cl p t) p t (c_log st)).
  specialize (Hat _ _ HT). rewrite HP in Hat. simpl in Hat. apply andb_true_iff in Hat as [Hat _].
  destruct i; try discriminate Hat; exec_inv Hex; simpl; try tauto.
  apply relays_ok_relay_to; [apply Hrel|]. intros Hb -> Hin. apply elem_of_elements in Hin.
  by apply Hcl in Hb.
Qed.

(* ---------- C13, first reading: no relay after Unsubscribe returned (no hypothesis on who subscribes) ---------- *)
Record inv13u (st : cstate) : Prop := {
  u_atomic : atomic_notify_thr st;
  u_unsub : unsub_inv st;
  u_relays : relays_inv is_unsub st
}.

Lemma inv13u_step st tid : inv13u st → inv13u (step st tid).
Proof.
  intros [H1 H2 H3]. split.
  - apply thr_all_step; [apply forallb_tail|exact H1].
  - by apply unsub_step.
  - apply relays_step; [done|exact H1|exact H2|exact H3].
Qed.

Lemma inv13u_init s0 progs : uses_atomic_notify progs = true → inv13u (cinit s0 progs).
Proof.
  intros H. split.
  - by apply thr_all_init.
  - apply closed_init.
  - intros p t. simpl. done.
Qed.

Theorem conc_no_relay_after_unsubscribe :
  ∀ progs, uses_atomic_notify progs = true →
  ∀ σ s0 p t s e l1 l2 l3, e = EvUnsub p t ∨ e = EvUnsubAll p →
    c_log (sched_run (cinit s0 progs) σ) = l1 ++ [e] ++ l2 ++ [EvRelay p t s] ++ l3 →
    EvSub p t ∈ l2.
Proof.
  intros progs Hat σ s0 p t s e l1 l2 l3 He Hlog.
  pose proof (run_inv inv13u inv13u_step σ _ (inv13u_init s0 progs Hat)) as [_ _ H].
  specialize (H p t). rewrite Hlog in H.
  eapply (relays_ok_split_full (is_unsub p t)); [|exact H].
  destruct He as [-> | ->]; simpl; by rewrite bool_decide_eq_true.
Qed.

(* ---------- C13, the response: threads answer after their own unsubscription ---------- *)
Lemma resp_covered_mono p t b b' prog :
  (b = true → b' = true) → resp_covered p t b prog = true → resp_covered p t b' prog = true.
Proof.
  revert b b'. induction prog as [|i r IH]; intros b b' Hb; simpl; [done|].
  destruct i; try (by apply IH).
  - apply IH. destruct b, b'; simpl; naive_solver.
  - apply IH. destruct b, b'; simpl; naive_solver.
  - apply IH. destruct b, b'; simpl; naive_solver.
  - intros [H1 H2]%andb_true_iff. apply andb_true_iff. split; [|by eapply IH].
    destruct (bool_decide (p0 = p ∧ t0 = t)), b, b'; simpl in *; auto.
Qed.

Lemma resp_covered_no_resp p t b prog :
  IRespondUnsub p t ∉ prog → resp_covered p t b prog = true.
Proof.
  revert b. induction prog as [|i r IH]; intros b Hn; simpl; [done|].
  assert (Hr : IRespondUnsub p t ∉ r) by (intros ?; apply Hn; by right).
  destruct i; try (by apply IH).
  rewrite IH by done. rewrite andb_true_r. apply orb_true_iff. left. apply negb_true_iff.
  apply bool_decide_eq_false. intros [-> ->]. apply Hn. by left.
Qed.

Lemma resp_covered_step tid i s l s' l' evs p t b rest :
  exec tid i s l = (s', l', evs) → resp_covered p t b (i :: rest) = true →
  resp_covered p t (fold_left (flag_upd (is_unsub p t) p t) evs b) rest = true.
Proof.
  intros Hex. destruct i; exec_inv Hex; simpl; try done;
    try (rewrite fold_flag_relays by apply is_unsub_relay; done).
  - (* subscribe, accepted *)
    unfold flag_upd; simpl. destruct (bool_decide (p0 = p ∧ t0 = t)), b; simpl; done.
  - (* subscribe, refused *)
    unfold flag_upd; simpl. apply resp_covered_mono. destruct b; simpl; [done|discriminate].
  - unfold flag_upd; simpl. destruct (bool_decide (p0 = p ∧ t0 = t)), b; simpl; done.
  - unfold flag_upd; simpl. destruct (bool_decide (p0 = p ∧ t0 = t)), b; simpl; done.
  - unfold flag_upd; simpl. destruct (bool_decide (p0 = p)), b; simpl; done.
  - unfold flag_upd; simpl. by intros [_ ?]%andb_true_iff.
Qed.

Definition own_inv (st : cstate) : Prop :=
  ∀ i j Ti Tj p t, i ≠ j → c_thr st !! i = Some Ti → c_thr st !! j = Some Tj →
    ISubscribe p t ∈ th_prog Ti → IRespondUnsub p t ∉ th_prog Tj.

Lemma own_step st tid : own_inv st → own_inv (step st tid).
Proof.
  intros H i j Ti Tj p t Hne Hi Hj Hs Hr.
  assert (∃ Ti0, c_thr st !! i = Some Ti0 ∧ ISubscribe p t ∈ th_prog Ti0) as (Ti0&Hi0&Hs0).
  { apply step_thr in Hi as [Hi|(->&T&x&HT&HP)]; [by eauto|]. exists T. split; [done|]. rewrite HP. by right. }
  assert (∃ Tj0, c_thr st !! j = Some Tj0 ∧ IRespondUnsub p t ∈ th_prog Tj0) as (Tj0&Hj0&Hr0).
  { apply step_thr in Hj as [Hj|(->&T&x&HT&HP)]; [by eauto|]. exists T. split; [done|]. rewrite HP. by right. }
  by eapply (H i j).
Qed.

Lemma has_resp_false p t prog : has_resp p t prog = false → IRespondUnsub p t ∉ prog.
Proof.
  intros H Hin. assert (has_resp p t prog = true); [|congruence].
  apply existsb_exists. exists (IRespondUnsub p t). split; [by apply elem_of_list_In|].
  by apply bool_decide_eq_true.
Qed.

Lemma own_init s0 progs : subscribes_in_own_thread progs = true → own_inv (cinit s0 progs).
Proof.
  intros H i j Ti Tj p t Hne. simpl. rewrite !list_lookup_fmap.
  destruct (progs !! i) as [pi|] eqn:Hpi; [|done]. destruct (progs !! j) as [pj|] eqn:Hpj; [|done].
  intros [= <-] [= <-]; simpl. intros Hs.
  unfold subscribes_in_own_thread in H. rewrite forallb_forall in H.
  specialize (H (i, pi)). rewrite <- elem_of_list_In in H.
  specialize (H (elem_of_lookup_imap_2 pair progs pi i Hpi)). rewrite forallb_forall in H.
  specialize (H (j, pj)). rewrite <- elem_of_list_In in H.
  specialize (H (elem_of_lookup_imap_2 pair progs pj j Hpj)). simpl in H.
  apply orb_true_iff in H as [H|H]; [by apply Nat.eqb_eq in H|].
  rewrite forallb_forall in H. specialize (H (ISubscribe p t)). rewrite <- elem_of_list_In in H.
  specialize (H Hs). simpl in H. apply negb_true_iff in H. by apply has_resp_false.
Qed.

Definition resp_thr (st : cstate) : Prop :=
  ∀ j T p t, c_thr st !! j = Some T →
    resp_covered p t (flag (is_unsub p t) p t (c_log st)) (th_prog T) = true.

Lemma resp_thr_step st tid : own_inv st → resp_thr st → resp_thr (step st tid).
Proof.
  intros Hown Hinv.
  destruct (step_cases st tid) as [->|(T&i&rest&s'&l'&evs&HT&HP&Hex&->)]; [exact Hinv|].
  intros j T' p t. simpl. unfold flag. rewrite fold_left_app. fold (flag (is_unsub p t) p t (c_log st)).
  intros [(->&<-&Hlt)|[Hne Hj]]%list_lookup_insert_Some; simpl.
  - eapply resp_covered_step; [exact Hex|]. rewrite <- HP. exact (Hinv _ _ p t HT).
  - pose proof (Hinv _ _ p t Hj) as Hc.
    destruct (flag (is_unsub p t) p t (c_log st)) eqn:Hb.
    + destruct (fold_left (flag_upd (is_unsub p t) p t) evs true) eqn:Hb'; [exact Hc|].
      apply fold_flag_false in Hb'. pose proof (exec_sub_inv _ _ _ _ _ _ _ _ _ Hex Hb') as Hi. subst i.
      apply resp_covered_no_resp. eapply (Hown tid j); [done|exact HT|exact Hj|]. rewrite HP. by left.
    + eapply resp_covered_mono; [|exact Hc]. discriminate.
Qed.

Lemma resp_thr_init s0 progs : responds_after_unsub progs = true → resp_thr (cinit s0 progs).
Proof.
  intros H j T p t. simpl. rewrite list_lookup_fmap. destruct (progs !! j) as [pr|] eqn:Hpr; [|done].
  intros [= <-]. simpl. unfold flag; simpl.
  unfold responds_after_unsub in H. rewrite forallb_forall in H.
  specialize (H pr). rewrite <- elem_of_list_In in H. specialize (H (elem_of_list_lookup_2 _ _ _ Hpr)).
  destruct (decide (IRespondUnsub p t ∈ pr)) as [Hin|Hn]; [|by apply resp_covered_no_resp].
  unfold prog_responds_after_unsub in H. rewrite forallb_forall in H.
  apply (H (IRespondUnsub p t)). by apply elem_of_list_In.
Qed.

Definition resp_inv := closed_inv is_resp.

Lemma resp_step st tid : unsub_inv st → resp_thr st → resp_inv st → resp_inv (step st tid).
Proof.
  intros Hu Hthr H. apply closed_step; [exact H|].
  intros T i rest s' l' evs p t e HT HP Hex He ->%is_resp_true.
  destruct (exec_resp_inv _ _ _ _ _ _ _ _ _ Hex He) as [Hi Hs]. subst i s'.
  specialize (Hthr _ _ p t HT). rewrite HP in Hthr. simpl in Hthr.
  apply andb_true_iff in Hthr as [Hb _]. rewrite bool_decide_eq_true_2 in Hb by done. simpl in Hb.
  by apply Hu.
Qed.

Record inv13 (st : cstate) : Prop := {
  i_atomic : atomic_notify_thr st;
  i_own : own_inv st;
  i_unsub : unsub_inv st;
  i_thr : resp_thr st;
  i_resp : resp_inv st;
  i_relays : relays_inv is_resp st
}.

Lemma inv13_step st tid : inv13 st → inv13 (step st tid).
Proof.
  intros [H1 H2 H3 H4 H5 H6]. split.
  - apply thr_all_step; [apply forallb_tail|exact H1].
  - by apply own_step.
  - by apply unsub_step.
  - by apply resp_thr_step.
  - by apply resp_step.
  - apply relays_step; [done|exact H1|exact H5|exact H6].
Qed.

Lemma inv13_init s0 progs :
  uses_atomic_notify progs = true → responds_after_unsub progs = true →
  subscribes_in_own_thread progs = true → inv13 (cinit s0 progs).
Proof.
  intros Ha Hr Ho. split.
  - by apply thr_all_init.
  - by apply own_init.
  - apply closed_init.
  - by apply resp_thr_init.
  - apply closed_init.
  - intros p t. simpl. done.
Qed.

Theorem conc_no_relay_after_unsub_response :
  ∀ progs, uses_atomic_notify progs = true → responds_after_unsub progs = true →
    subscribes_in_own_thread progs = true →
  ∀ σ s0 p t s l1 l2 l3,
    c_log (sched_run (cinit s0 progs) σ) = l1 ++ [EvUnsubResp p t] ++ l2 ++ [EvRelay p t s] ++ l3 →
    EvSub p t ∈ l2.
Proof.
  intros progs Ha Hr Ho σ s0 p t s l1 l2 l3 Hlog.
  pose proof (run_inv inv13 inv13_step σ _ (inv13_init s0 progs Ha Hr Ho)) as [_ _ _ _ _ H].
  specialize (H p t). rewrite Hlog in H.
  eapply (relays_ok_split_full (is_resp p t)); [|exact H].
  simpl. by rewrite bool_decide_eq_true.
Qed.

(* at every moment: a participant whose unsubscribe response is out (and that has not subscribed since) is not
   in the subscriber set *)
Theorem conc_responded_not_subscribed :
  ∀ progs, uses_atomic_notify progs = true → responds_after_unsub progs = true →
    subscribes_in_own_thread progs = true →
  ∀ σ s0 p t l1 l2, let st := sched_run (cinit s0 progs) σ in
    c_log st = l1 ++ [EvUnsubResp p t] ++ l2 → EvSub p t ∉ l2 → p ∉ subs_of (c_store st) t.
Proof.
  intros progs Ha Hr Ho σ s0 p t l1 l2 st Hlog Hns.
  pose proof (run_inv inv13 inv13_step σ _ (inv13_init s0 progs Ha Hr Ho)) as [_ _ _ _ H _].
  apply H. fold st. rewrite Hlog. unfold flag. rewrite fold_left_app. simpl.
  unfold flag_upd at 2. simpl. rewrite bool_decide_eq_true_2 by done.
  destruct (fold_left (flag_upd (is_resp p t) p t) l2 true) eqn:Hf; [done|].
  by apply fold_flag_false in Hf.
Qed.

(* ---------- C10: component type ids under concurrent AddType ---------- *)
Definition atomic_addtype_thr := thr_all (λ pr, forallb instr_atomic_addtype pr = true).

Lemma u32_succ_small x : x + 1 < two32 → u32_succ x = x + 1.
Proof. intros. unfold u32_succ. by rewrite N.mod_small. Qed.

(* an instruction of the atomic fragment leaves the type index alone and answers from it, or registers a name
   that was absent under the next id *)
Lemma exec_type tid i s l s' l' evs :
  instr_atomic_addtype i = true → exec tid i s l = (s', l', evs) →
  (s_ids s' = s_ids s ∧ s_names s' = s_names s ∧ s_next s' = s_next s ∧
   ∀ tid' n id, EvTypeId tid' n id ∈ evs → s_ids s !! n = Some id) ∨
  (∃ n, s_ids s !! n = None ∧
     s_ids s' = <[n := u32_succ (s_next s)]> (s_ids s) ∧
     s_names s' = <[u32_succ (s_next s) := n]> (s_names s) ∧
     s_next s' = u32_succ (s_next s) ∧
     ∀ tid' n' id', EvTypeId tid' n' id' ∈ evs → n' = n ∧ id' = u32_succ (s_next s)).
Proof.
  intros Hat Hex. destruct i; try discriminate Hat; exec_inv Hex; simpl;
    try (left; repeat split; try reflexivity; intros tid' n' id' Hin;
         first [ apply elem_of_list_singleton in Hin; by simplify_eq
               | apply elem_of_nil in Hin; contradiction
               | apply relay_to_all_relays in Hin as [? ?]; discriminate ]).
  right. exists name. repeat split; try done.
  all: apply elem_of_list_singleton in H0; by simplify_eq.
Qed.

Record inv10 (k : nat) (st : cstate) : Prop := {
  t_atomic : atomic_addtype_thr st;
  t_wf : store_wf (c_store st);
  t_log : ∀ tid n i, EvTypeId tid n i ∈ c_log st → s_ids (c_store st) !! n = Some i;
  t_budget : s_next (c_store st) + N.of_nat k < two32
}.

(* what grows and never shrinks from one moment of a schedule to a later one *)
Definition grows (st1 st2 : cstate) : Prop :=
  s_next (c_store st1) ≤ s_next (c_store st2) ∧
  s_ids (c_store st1) ⊆ s_ids (c_store st2) ∧
  s_names (c_store st1) ⊆ s_names (c_store st2) ∧
  c_log st1 `prefix_of` c_log st2 ∧
  ∀ n i, s_ids (c_store st2) !! n = Some i → s_ids (c_store st1) !! n = None → s_next (c_store st1) < i.

Lemma grows_refl st : grows st st.
Proof.
  unfold grows. split; [lia|]. split; [done|]. split; [done|]. split; [done|].
  intros n i H1 H2. congruence.
Qed.

Lemma inv10_step k st tid st1 :
  inv10 (S k) st → grows st1 st → inv10 k (step st tid) ∧ grows st1 (step st tid).
Proof.
  intros [Hat [Hbij Hle] Hlog Hbud] (G1&G2&G3&G4&G5).
  destruct (step_cases st tid) as [->|(T&i&rest&s'&l'&evs&HT&HP&Hex&Hst)].
  { split; [|done]. split; try done. lia. }
  assert (Hat' : atomic_addtype_thr (step st tid)) by (apply thr_all_step; [apply forallb_tail|exact Hat]).
  rewrite Hst in *. clear Hst.
  pose proof (Hat _ _ HT) as Hi. rewrite HP in Hi. simpl in Hi. apply andb_true_iff in Hi as [Hi _].
  destruct (exec_type _ _ _ _ _ _ _ Hi Hex) as [(E1&E2&E3&Hev)|(n&Hn&E1&E2&E3&Hev)].
  - split.
    + split; simpl; [exact Hat'| |  |].
      * unfold store_wf. rewrite E1, E2, E3. done.
      * intros tid' n i' [Hin|Hin]%elem_of_app; rewrite E1; eauto.
      * rewrite E3. lia.
    + unfold grows; simpl. rewrite E1, E2, E3. repeat split; try done. by apply prefix_app_r.
  - rewrite u32_succ_small in * by lia.
    assert (Hfresh : s_names (c_store st) !! (s_next (c_store st) + 1) = None).
    { destruct (s_names (c_store st) !! (s_next (c_store st) + 1)) as [m|] eqn:Hm; [|done].
      apply Hbij, Hle in Hm. lia. }
    split.
    + split; simpl; [exact Hat'| |  |].
      * unfold store_wf. rewrite E1, E2, E3. split.
        -- intros n' i'. rewrite !lookup_insert_Some. split.
           ++ intros [[<- <-]|[Hne Hl]]; [by left|]. right. split; [|by apply Hbij].
              apply Hle in Hl. lia.
           ++ intros [[<- <-]|[Hne Hl]]; [by left|]. right. split; [|by apply Hbij].
              intros <-. apply Hbij in Hl. congruence.
        -- intros n' i'. rewrite lookup_insert_Some. intros [[<- <-]|[Hne Hl]]; [lia|].
           apply Hle in Hl. lia.
      * intros tid' n' i' [Hin|Hin]%elem_of_app; rewrite E1.
        -- pose proof (Hlog _ _ _ Hin) as Hl. rewrite lookup_insert_ne; [done|]. intros <-. congruence.
        -- apply Hev in Hin as [-> ->]. by rewrite lookup_insert.
      * rewrite E3. lia.
    + unfold grows; simpl. rewrite E1, E2, E3. repeat split.
      * lia.
      * etrans; [exact G2|]. by apply insert_subseteq.
      * etrans; [exact G3|]. by apply insert_subseteq.
      * by apply prefix_app_r.
      * intros n' i'. rewrite lookup_insert_Some. intros [[<- <-]|[Hne Hl]] Hnone; [lia|].
        specialize (G5 _ _ Hl Hnone). lia.
Qed.

Lemma inv10_run σ : ∀ k st st1,
  inv10 (length σ + k) st → grows st1 st → inv10 k (sched_run st σ) ∧ grows st1 (sched_run st σ).
Proof.
  induction σ as [|a σ IH]; intros k st st1 Hinv Hg; simpl; [done|].
  simpl in Hinv. destruct (inv10_step _ _ a _ Hinv Hg) as [H1 H2]. by apply IH.
Qed.

Lemma inv10_weaken k k' st : (k' ≤ k)%nat → inv10 k st → inv10 k' st.
Proof. intros Hle [H1 H2 H3 H4]. split; try done. lia. Qed.

Lemma inv10_init k s0 progs :
  uses_atomic_addtype progs = true → store_wf s0 → s_next s0 + N.of_nat k < two32 → inv10 k (cinit s0 progs).
Proof.
  intros Ha Hwf Hb. split; simpl; [by apply thr_all_init|done| |done].
  intros tid n i Hin. by apply elem_of_nil in Hin.
Qed.

Lemma store0_wf : store_wf store0.
Proof. split; intros n i; simpl; rewrite ?lookup_empty; [split; discriminate|discriminate]. Qed.

Lemma store_wf_inj s n1 n2 i : store_wf s → s_ids s !! n1 = Some i → s_ids s !! n2 = Some i → n1 = n2.
Proof. intros [Hb _] H1%Hb H2%Hb. congruence. Qed.

Theorem conc_addtype :
  ∀ progs, uses_atomic_addtype progs = true →
  ∀ σ s0, store_wf s0 → s_next s0 + N.of_nat (length σ) < two32 →
  let st := sched_run (cinit s0 progs) σ in
  (∀ t1 t2 n i1 i2, EvTypeId t1 n i1 ∈ c_log st → EvTypeId t2 n i2 ∈ c_log st → i1 = i2) ∧
  (∀ t1 t2 n1 n2 i1 i2, EvTypeId t1 n1 i1 ∈ c_log st → EvTypeId t2 n2 i2 ∈ c_log st → n1 ≠ n2 → i1 ≠ i2) ∧
  ((∀ n1 n2 i, s_ids (c_store st) !! n1 = Some i → s_ids (c_store st) !! n2 = Some i → n1 = n2) ∧
   (∀ n i, s_ids (c_store st) !! n = Some i → i ≤ s_next (c_store st)) ∧
   store_wf (c_store st) ∧
   s_next s0 ≤ s_next (c_store st) ∧ s_ids s0 ⊆ s_ids (c_store st) ∧ s_names s0 ⊆ s_names (c_store st)) ∧
  (∀ tid n i, EvTypeId tid n i ∈ c_log st → s_ids (c_store st) !! n = Some i).
Proof.
  intros progs Ha σ s0 Hwf Hb st.
  destruct (inv10_run σ 0 (cinit s0 progs) (cinit s0 progs)) as [[_ Hwf' Hlog _] (G1&G2&G3&_&_)].
  { apply inv10_init; [done..|]. by rewrite Nat.add_0_r. }
  { apply grows_refl. }
  fold st in Hwf', Hlog, G1, G2, G3. simpl in G1, G2, G3.
  split; [|split; [|split]].
  - intros t1 t2 n i1 i2 H1%Hlog H2%Hlog. congruence.
  - intros t1 t2 n1 n2 i1 i2 H1%Hlog H2%Hlog Hne ->. apply Hne. by eapply store_wf_inj.
  - split; [|split; [|split; [|split; [|split]]]].
    + intros n1 n2 i. by apply store_wf_inj.
    + apply Hwf'.
    + exact Hwf'.
    + exact G1.
    + exact G2.
    + exact G3.
  - exact Hlog.
Qed.

(* between any two moments of a schedule: the counter does not decrease, no index entry is dropped or changed,
   the log is extended, and a name registered in between gets an id above the earlier counter (hence above every
   id issued before): ids are never reissued *)
Theorem conc_addtype_never_reissued :
  ∀ progs, uses_atomic_addtype progs = true →
  ∀ σ1 σ2 s0, store_wf s0 → s_next s0 + N.of_nat (length (σ1 ++ σ2)) < two32 →
  let st1 := sched_run (cinit s0 progs) σ1 in
  let st2 := sched_run (cinit s0 progs) (σ1 ++ σ2) in
  grows st1 st2.
Proof.
  intros progs Ha σ1 σ2 s0 Hwf Hb st1 st2. unfold st2. rewrite sched_run_app. fold st1.
  rewrite app_length in Hb.
  destruct (inv10_run σ1 (length σ2) (cinit s0 progs) (cinit s0 progs)) as [Hinv _].
  { apply inv10_init; [done..|]. lia. }
  { apply grows_refl. }
  fold st1 in Hinv.
  destruct (inv10_run σ2 0 st1 st1) as [_ Hg]; [|apply grows_refl|exact Hg].
  by rewrite Nat.add_0_r.
Qed.

(* ---------- witnesses ---------- *)
(* C13 with the split Notify: participant 1 (thread 0) adds a type, subscribes, unsubscribes and is answered;
   participant 2 (thread 1) updates a component: Notify copies the subscribers before the unsubscription and
   relays after the response *)
Definition w13_progs : list (list instr) :=
  [ [IAddType 9; ISubscribe 1 1; IUnsub 1 1; IRespondUnsub 1 1]; [INotifyRead 1; INotifyRelay 1 2] ].
Definition w13_sched : list nat := [0; 0; 1; 0; 0; 1]%nat.

Theorem conc_split_notify_refuted :
  ∃ progs σ,
    responds_after_unsub progs = true ∧ subscribes_in_own_thread progs = true ∧
    uses_atomic_notify progs = false ∧
    ∃ l1 l2 l3 p t s,
      c_log (sched_run (cinit store0 progs) σ) = l1 ++ [EvUnsubResp p t] ++ l2 ++ [EvRelay p t s] ++ l3 ∧
      EvSub p t ∉ l2 ∧ p ∉ subs_of (c_store (sched_run (cinit store0 progs) σ)) t.
Proof.
  exists w13_progs, w13_sched. repeat split; try (vm_compute; reflexivity).
  exists [EvTypeId 0 9 1; EvSub 1 1; EvUnsub 1 1], [], [], 1, 1, 2. split; [vm_compute; reflexivity|].
  split; [apply not_elem_of_nil|].
  apply (bool_decide_eq_false_1 (1 ∈ subs_of (c_store (sched_run (cinit store0 w13_progs) w13_sched)) 1)).
  vm_compute. reflexivity.
Qed.

(* the atomic Notify alone is not enough: if a subscribe of (p, t) may come from another thread than the one
   that answers p's unsubscription (thread 1 here), the response can follow a re-subscription *)
Definition w13own_progs : list (list instr) :=
  [ [IAddType 9; ISubscribe 1 1; IUnsub 1 1; IRespondUnsub 1 1]; [ISubscribe 1 1]; [INotify 1 2] ].
Definition w13own_sched : list nat := [0; 0; 0; 1; 0; 2]%nat.

Theorem conc_needs_own_thread_refuted :
  ∃ progs σ,
    uses_atomic_notify progs = true ∧ responds_after_unsub progs = true ∧
    subscribes_in_own_thread progs = false ∧
    ∃ l1 l2 l3 p t s,
      c_log (sched_run (cinit store0 progs) σ) = l1 ++ [EvUnsubResp p t] ++ l2 ++ [EvRelay p t s] ++ l3 ∧
      EvSub p t ∉ l2.
Proof.
  exists w13own_progs, w13own_sched. repeat split; try (vm_compute; reflexivity).
  exists [EvTypeId 0 9 1; EvSub 1 1; EvUnsub 1 1; EvSub 1 1], [], [], 1, 1, 2.
  split; [vm_compute; reflexivity|apply not_elem_of_nil].
Qed.

(* ... nor is "the response comes somewhere after an unsubscription of the same thread": the thread may have
   subscribed again in between *)
Definition w13weak_progs : list (list instr) :=
  [ [IAddType 9; ISubscribe 1 1; IUnsub 1 1; ISubscribe 1 1; IRespondUnsub 1 1]; [INotify 1 2] ].
Definition w13weak_sched : list nat := [0; 0; 0; 0; 0; 1]%nat.

Theorem conc_needs_no_subscribe_between_refuted :
  ∃ progs σ,
    uses_atomic_notify progs = true ∧ responds_after_unsub_weak progs = true ∧
    subscribes_in_own_thread progs = true ∧ responds_after_unsub progs = false ∧
    ∃ l1 l2 l3 p t s,
      c_log (sched_run (cinit store0 progs) σ) = l1 ++ [EvUnsubResp p t] ++ l2 ++ [EvRelay p t s] ++ l3 ∧
      EvSub p t ∉ l2.
Proof.
  exists w13weak_progs, w13weak_sched. repeat split; try (vm_compute; reflexivity).
  exists [EvTypeId 0 9 1; EvSub 1 1; EvUnsub 1 1; EvSub 1 1], [], [], 1, 1, 2.
  split; [vm_compute; reflexivity|apply not_elem_of_nil].
Qed.

(* C10 with the split AddType: both threads miss, both allocate *)
Definition w10_progs : list (list instr) :=
  [ [IAddTypeLookup 7; IAddTypeAlloc 7]; [IAddTypeLookup 7; IAddTypeAlloc 7] ].
Definition w10_sched : list nat := [0; 1; 0; 1]%nat.

Theorem conc_split_addtype_refuted :
  ∃ progs σ, let st := sched_run (cinit store0 progs) σ in
    uses_atomic_addtype progs = false ∧
    EvTypeId 0 7 1 ∈ c_log st ∧ EvTypeId 1 7 2 ∈ c_log st ∧
    s_ids (c_store st) !! 7 = Some 2 ∧
    s_names (c_store st) !! 1 = Some 7 ∧ s_names (c_store st) !! 2 = Some 7 ∧
    ¬ store_wf (c_store st).
Proof.
  exists w10_progs, w10_sched.
  assert (Hlog : c_log (sched_run (cinit store0 w10_progs) w10_sched) = [EvTypeId 0 7 1; EvTypeId 1 7 2])
    by (vm_compute; reflexivity).
  assert (H7 : s_ids (c_store (sched_run (cinit store0 w10_progs) w10_sched)) !! 7 = Some 2)
    by (vm_compute; reflexivity).
  assert (H1 : s_names (c_store (sched_run (cinit store0 w10_progs) w10_sched)) !! 1 = Some 7)
    by (vm_compute; reflexivity).
  assert (H2 : s_names (c_store (sched_run (cinit store0 w10_progs) w10_sched)) !! 2 = Some 7)
    by (vm_compute; reflexivity).
  cbv zeta. split; [vm_compute; reflexivity|]. repeat split; try assumption.
  - rewrite Hlog. set_solver.
  - rewrite Hlog. set_solver.
  - intros [Hb _]. apply Hb in H1. rewrite H7 in H1. discriminate.
Qed.

(* ---------- C13 under the literal hypothesis "the response follows an unsubscription of the same thread" ---------- *)
Lemma resp_preceded_mono p t b b' prog :
  (b = true → b' = true) → resp_preceded p t b prog = true → resp_preceded p t b' prog = true.
Proof.
  revert b b'. induction prog as [|i r IH]; intros b b' Hb; simpl; [done|].
  destruct i; try (by apply IH).
  - apply IH. destruct b, b'; simpl; naive_solver.
  - apply IH. destruct b, b'; simpl; naive_solver.
  - intros [H1 H2]%andb_true_iff. apply andb_true_iff. split; [|by eapply IH].
    destruct (bool_decide (p0 = p ∧ t0 = t)), b, b'; simpl in *; auto.
Qed.

Lemma resp_preceded_no_resp p t b prog :
  IRespondUnsub p t ∉ prog → resp_preceded p t b prog = true.
Proof.
  revert b. induction prog as [|i r IH]; intros b Hn; simpl; [done|].
  assert (Hr : IRespondUnsub p t ∉ r) by (intros ?; apply Hn; by right).
  destruct i; try (by apply IH).
  rewrite IH by done. rewrite andb_true_r. apply orb_true_iff. left. apply negb_true_iff.
  apply bool_decide_eq_false. intros [-> ->]. apply Hn. by left.
Qed.

Lemma resp_preceded_step tid i s l s' l' evs p t b rest :
  exec tid i s l = (s', l', evs) → resp_preceded p t b (i :: rest) = true →
  resp_preceded p t (b || existsb (is_unsub p t) evs) rest = true.
Proof.
  intros Hex. destruct i; exec_inv Hex; simpl;
    try (apply resp_preceded_mono; intros ->; reflexivity).
  - by rewrite orb_false_r.
  - by rewrite orb_false_r.
  - by rewrite orb_false_r.
  - intros [_ H]%andb_true_iff. revert H. apply resp_preceded_mono. intros ->. reflexivity.
Qed.

Definition weak_thr (st : cstate) : Prop :=
  ∀ j T p t, c_thr st !! j = Some T →
    resp_preceded p t (existsb (is_unsub p t) (c_log st)) (th_prog T) = true.
(* every response in the log has an unsubscription of the same pair before it *)
Definition weak_log (st : cstate) : Prop :=
  ∀ p t k, c_log st !! k = Some (EvUnsubResp p t) →
    ∃ j e, (j < k)%nat ∧ c_log st !! j = Some e ∧ is_unsub p t e = true.

Lemma exec_resp_evs tid i s l s' l' evs p t :
  exec tid i s l = (s', l', evs) → EvUnsubResp p t ∈ evs → evs = [EvUnsubResp p t].
Proof.
  intros Hex Hev. destruct (exec_resp_inv _ _ _ _ _ _ _ _ _ Hex Hev) as [-> _]. by exec_inv Hex.
Qed.

Lemma weak_step st tid : weak_thr st ∧ weak_log st → weak_thr (step st tid) ∧ weak_log (step st tid).
Proof.
  intros [Hthr Hlog].
  destruct (step_cases st tid) as [->|(T&i&rest&s'&l'&evs&HT&HP&Hex&->)]; [done|]. split.
  - intros j T' p t. simpl. rewrite existsb_app.
    intros [(->&<-&Hlt)|[Hne Hj]]%list_lookup_insert_Some; simpl.
    + eapply resp_preceded_step; [exact Hex|]. rewrite <- HP. exact (Hthr _ _ p t HT).
    + eapply resp_preceded_mono; [|exact (Hthr _ _ p t Hj)]. intros ->. reflexivity.
  - intros p t k. simpl. intros [Hk|[Hle Hk]]%lookup_app_Some.
    + destruct (Hlog _ _ _ Hk) as (j&e&Hjk&Hj&He). exists j, e. split; [done|]. split; [|done].
      by apply lookup_app_l_Some.
    + pose proof (elem_of_list_lookup_2 _ _ _ Hk) as Hin.
      pose proof (exec_resp_inv _ _ _ _ _ _ _ _ _ Hex Hin) as [-> _].
      specialize (Hthr _ _ p t HT). rewrite HP in Hthr. simpl in Hthr.
      apply andb_true_iff in Hthr as [Hb _]. rewrite bool_decide_eq_true_2 in Hb by done. simpl in Hb.
      apply existsb_exists in Hb as (e&Hine&He). apply elem_of_list_In, elem_of_list_lookup in Hine as [j Hj].
      exists j, e. split; [|split; [by apply lookup_app_l_Some|done]].
      apply lookup_lt_Some in Hj. lia.
Qed.

Lemma weak_init s0 progs :
  responds_after_unsub_weak progs = true → weak_thr (cinit s0 progs) ∧ weak_log (cinit s0 progs).
Proof.
  intros H. split.
  - intros j T p t. simpl. rewrite list_lookup_fmap. destruct (progs !! j) as [pr|] eqn:Hpr; [|done].
    intros [= <-]. simpl.
    unfold responds_after_unsub_weak in H. rewrite forallb_forall in H.
    specialize (H pr). rewrite <- elem_of_list_In in H. specialize (H (elem_of_list_lookup_2 _ _ _ Hpr)).
    destruct (decide (IRespondUnsub p t ∈ pr)) as [Hin|Hn]; [|by apply resp_preceded_no_resp].
    rewrite forallb_forall in H. apply (H (IRespondUnsub p t)). by apply elem_of_list_In.
  - intros p t k. simpl. by rewrite lookup_nil.
Qed.

Theorem conc_no_relay_after_unsub_response_weak :
  ∀ progs, uses_atomic_notify progs = true → responds_after_unsub_weak progs = true →
  ∀ σ s0 p t s l1 l2 l3,
    c_log (sched_run (cinit s0 progs) σ) = l1 ++ [EvUnsubResp p t] ++ l2 ++ [EvRelay p t s] ++ l3 →
    ∃ la e lb, l1 = la ++ [e] ++ lb ∧ (e = EvUnsub p t ∨ e = EvUnsubAll p) ∧ EvSub p t ∈ lb ++ l2.
Proof.
  intros progs Ha Hw σ s0 p t s l1 l2 l3 Hlog.
  pose proof (run_inv _ weak_step σ _ (weak_init s0 progs Hw)) as [_ H].
  destruct (H p t (length l1)) as (j&e&Hj&Hje&He).
  { rewrite Hlog. rewrite lookup_app_r by done. by rewrite Nat.sub_diag. }
  rewrite Hlog in Hje. rewrite lookup_app_l in Hje by done.
  exists (take j l1), e, (drop (S j) l1). split; [symmetry; exact (take_drop_middle _ _ _ Hje)|].
  apply is_unsub_true in He. split; [exact He|].
  assert (Hin : EvSub p t ∈ drop (S j) l1 ++ [EvUnsubResp p t] ++ l2).
  { eapply (conc_no_relay_after_unsubscribe progs Ha σ s0 p t s e (take j l1)); [exact He|].
    rewrite Hlog. rewrite <- (take_drop_middle _ _ _ Hje) at 1. by rewrite <- !app_assoc. }
  apply elem_of_app in Hin as [Hin|Hin]; [apply elem_of_app; by left|].
  apply elem_of_app in Hin as [Hin|Hin]; [|apply elem_of_app; by right].
  apply elem_of_list_singleton in Hin. discriminate.
Qed.

(* ---------- the atomic fragment is sequential at the granularity of store calls ---------- *)
Lemma exec_atomic_locals tid i s l s' l' evs :
  instr_atomic_notify i = true → instr_atomic_addtype i = true →
  exec tid i s l = (s', l', evs) → exec tid i s locals0 = (s', locals0, evs).
Proof.
  intros H1 H2 Hex. destruct i; try discriminate H1; try discriminate H2; exec_inv Hex; simpl;
    unfold alloc_type; simpl; repeat case_match; simplify_eq; reflexivity.
Qed.

Lemma trace_run st σ :
  thr_all (λ pr, forallb instr_atomic_notify pr = true) st →
  thr_all (λ pr, forallb instr_atomic_addtype pr = true) st →
  (c_store (sched_run st σ), c_log (sched_run st σ)) = fold_left seq_step (trace st σ) (c_store st, c_log st).
Proof.
  revert st. induction σ as [|tid σ IH]; intros st H1 H2; simpl; [done|].
  rewrite fold_left_app.
  rewrite IH by (apply thr_all_step; [apply forallb_tail|assumption]). f_equal.
  unfold step. destruct (c_thr st !! tid) as [T|] eqn:HT; [|done].
  destruct (th_prog T) as [|i rest] eqn:HP; [done|].
  destruct (exec tid i (c_store st) (th_loc T)) as [[s' l'] evs] eqn:Hex. simpl.
  specialize (H1 _ _ HT). specialize (H2 _ _ HT). rewrite HP in H1, H2. simpl in H1, H2.
  apply andb_true_iff in H1 as [H1 _]. apply andb_true_iff in H2 as [H2 _].
  unfold seq_step; simpl. by rewrite (exec_atomic_locals _ _ _ _ _ _ _ H1 H2 Hex).
Qed.

Theorem conc_atomic_sequential :
  ∀ progs, uses_atomic_notify progs = true → uses_atomic_addtype progs = true →
  ∀ σ s0, let st := sched_run (cinit s0 progs) σ in
    (c_store st, c_log st) = seq_run s0 (trace (cinit s0 progs) σ).
Proof.
  intros progs H1 H2 σ s0 st. unfold st, seq_run.
  rewrite trace_run; [done|by apply thr_all_init..].
Qed.

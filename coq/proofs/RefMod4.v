(* proofs/RefMod4.v — third consumer: on the model's own traces the predicate P_C02 ("each accepted change is
   relayed exactly once to every other member", Preds.v) is silent: clause 201 (the relay-class deliveries of every
   event, as sorted lines, are exactly what the spec expects: the departure's deletes and leave, the join broadcast,
   the entity add / delete / pose / untargeted custom / action / asset relays) and 299. *)
From stdpp Require Import relations sorting.
From hagall Require Import Model Spec Obs Preds.
From hagall.proofs Require Import BaseLemmas Relay Inv Session Local Trans WF Mono Reach PC02 PC06 PC07 Own
  Refine Refine2 Refine3 Refine4 Refine5 RefComp RefComp2 RefComp3 RefMod RefMod2 RefMod3.
From Coq Require Import Lia.

(* ================= permutations ================= *)
Lemma flat_map_perm {A B} (f g : A → list B) l1 l2 :
  l1 ≡ₚ l2 → (∀ x, f x ≡ₚ g x) → flat_map f l1 ≡ₚ flat_map g l2.
Proof.
  intros Hp Hfg.
  assert (Hsame : ∀ l, flat_map f l ≡ₚ flat_map g l).
  { induction l as [|z l IH]; simpl; [done|]. by rewrite IH, (Hfg z). }
  induction Hp as [|x l1 l2 _ IH|x y l0|l1 l2 l3 _ IH1 _ IH2]; simpl.
  - done.
  - by rewrite IH, (Hfg x).
  - rewrite !app_assoc. rewrite (Hfg x), (Hfg y). rewrite (Permutation_app_comm (g y) (g x)).
    apply Permutation_app; [done|]. apply Hsame.
  - etrans; [exact IH1|]. etrans; [|exact IH2]. symmetry. apply Hsame.
Qed.

(* ================= what a departure relays, against the spec ================= *)
Lemma NoDup_sp_gone sp sid p : NoDup (sp_gone sp sid p).
Proof.
  unfold sp_gone, sortN. apply NoDup_isort. apply NoDup_omap_inj; [apply NoDup_map_to_list|].
  intros [[s1 e1] [n1 b1]] [[s2 e2] [n2 b2]] b H1%elem_of_map_to_list H2%elem_of_map_to_list. simpl.
  destruct (N.eqb_spec s1 sid) as [->|]; [|done]. destruct (N.eqb_spec s2 sid) as [->|]; [|done]. simpl.
  destruct (ep_owner n1 =? p); [|done]. destruct (ep_owner n2 =? p); [|done]. simpl.
  destruct b1; [done|]. destruct b2; [done|]. simpl. intros [= ->] [= ->]. congruence.
Qed.

Lemma others_delete_perm SS L p : s_parts L = delete p (s_parts SS) → others L p ≡ₚ others SS p.
Proof.
  intros HL. apply NoDup_Permutation; [apply NoDup_others|apply NoDup_others|].
  intros [q cq]. rewrite !elem_of_others, HL, lookup_delete_Some. naive_solver.
Qed.

Lemma leave_relays cfg sp st c cn sid p SS :
  inv st → own_inv st → refines_mem sp st → refines_ents sp st →
  conns st !! c = Some cn → c_cur cn = Some (sid, p) → sessions st !! sid = Some SS →
  (leave cfg st c).2 ≡ₚ departure_expected cfg sp sid p.
Proof.
  intros I O R E Hc Hcur HS. unfold leave. rewrite Hc, Hcur, HS.
  set (S2 := set_store (store_set_subs (fmap (λ s : gset N, s ∖ {[p]}))) (module_disconnect cfg (c_own cn) SS)).
  pose proof (remove_doomed_parts cfg p (doomed S2 (c_own cn)) S2) as (P1&_).
  assert (Ho1 : (remove_doomed cfg p (doomed S2 (c_own cn)) S2).2 =
    if flag_on cfg F_ENTITY_DELETE_B then [] else flat_map (λ eid, broadcast S2 p (MEntityDeleteB 0 eid)) (doomed S2 (c_own cn))).
  { destruct (flag_on cfg F_ENTITY_DELETE_B) eqn:Hf; [by apply remove_doomed_outs_flag|by apply remove_doomed_outs]. }
  destruct (remove_doomed cfg p (doomed S2 (c_own cn)) S2) as [S3 o1]. simpl in *. subst o1.
  assert (Hp2 : s_parts S2 = s_parts SS) by apply module_disconnect_parts.
  unfold departure_expected. apply Permutation_app.
  - destruct (flag_on cfg F_ENTITY_DELETE_B); [done|]. apply flat_map_perm.
    + apply NoDup_Permutation; [apply doomed_NoDup|apply NoDup_sp_gone|]. intros e.
      rewrite (gone_removed sp st c cn sid p SS O E Hc Hcur HS e). symmetry. apply removed_doomed.
    + intros eid. by apply (to_all_broadcast sp st sid p SS S2 _ I (rm_mem _ _ R) HS).
  - destruct (flag_on cfg F_LEAVE_B); [done|]. unfold broadcast, to_all. apply fmap_Permutation.
    etrans; [apply (others_delete_perm SS); simpl; rewrite P1; f_equal; apply module_disconnect_parts|].
    symmetry. by apply (sp_others_perm sp st sid p SS I (rm_mem _ _ R) HS).
Qed.

Lemma leave_relays_none cfg sp st c :
  refines_mem sp st → sp_mem sp !! c = None → (leave cfg st c).2 = [].
Proof. intros R Hm. apply leave_not_joined. by rewrite <- (rm_mem _ _ R). Qed.

(* every message of a departure is a relay *)
Lemma leave_all_relay b cfg st c : sel (is_relay b) (leave cfg st c).2 = (leave cfg st c).2.
Proof. apply sel_all. by apply (Forall_leave (λ m, is_relay b m = true)). Qed.
Lemma disconnect_outs cfg st c : (disconnect cfg st c).2 = (leave cfg st c).2.
Proof. apply disconnect_is_leave. Qed.

(* ================= the departure the spec reads off an event ================= *)
Lemma departure_nonmember sp sp' e c : actor e = Some c → sp_mem sp !! c = None → departure sp sp' e = None.
Proof. intros Ha Hm. unfold departure. rewrite Ha. cbv iota beta. by rewrite Hm. Qed.
Lemma departure_no_actor sp sp' e : actor e = None → departure sp sp' e = None.
Proof. intros Ha. unfold departure. by rewrite Ha. Qed.
Lemma departure_same sp sp' e c :
  actor e = Some c → sp_mem sp' !! c = sp_mem sp !! c → rejoined e c = false → departure sp sp' e = None.
Proof.
  intros Ha Hm Hr. unfold departure, mem_changed. rewrite Ha. cbv iota beta. rewrite Hr. destruct (sp_mem sp !! c) as [[sid p]|] eqn:E; [|done].
  rewrite Hm. by rewrite bool_decide_eq_true_2.
Qed.
Lemma departure_left sp sp' e c sid p :
  actor e = Some c → sp_mem sp !! c = Some (sid, p) → sp_mem sp' !! c = None ∨ rejoined e c = true →
  departure sp sp' e = Some (c, sid, p).
Proof.
  intros Ha Hm Hr. unfold departure, mem_changed. rewrite Ha. cbv iota beta. rewrite Hm. destruct Hr as [Hr| ->]; [|by rewrite orb_true_r].
  rewrite Hr. by rewrite bool_decide_eq_false_2.
Qed.
Lemma depart_mem_c sp c : sp_mem (depart sp c) !! c = None.
Proof. destruct (depart_mproj sp c) as (->&_). apply lookup_delete. Qed.

(* ================= handlers that relay nothing ================= *)
Definition quiet (b : bool) (l : list delivery) : Prop := Forall (λ d : delivery, is_relay b (snd d) = false) l.
Lemma sel_quiet b l : quiet b l → sel (is_relay b) l = [].
Proof. apply sel_none. Qed.

Ltac qt b := unfold quiet; repeat first
  [ apply Forall_nil_2
  | apply Forall_cons_2; [reflexivity|]
  | apply Forall_app_2
  | apply (Forall_broadcast (λ m, is_relay b m = false)); reflexivity
  | apply (Forall_broadcast_to (λ m, is_relay b m = false)); reflexivity ].

Lemma on_ping_quiet b st c cn rid st' o v : on_ping st c cn rid = (st', o, v) → quiet b o.
Proof. unfold on_ping, send_ping. intros H. repeat case_match; simplify_eq; qt b. Qed.

Definition other_req (r : req) : bool :=
  match r with
  | REntityAdd _ _ _ _ _ | REntityDelete _ _ _ | RPose _ _ _ | RCustom _ _ _ | RAction _ _ _ | RAssetAdd _ _ _ _
  | RJoin _ _ _ => false
  | _ => true
  end.

Lemma handle_joined_other_quiet b cfg st c cn sid p SS r hint st' o v :
  other_req r = true → handle_joined cfg st c cn sid p SS r hint = (st', o, v) → quiet b o.
Proof.
  intros Ho H. destruct r; try discriminate Ho; simpl in H.
  all: try (unfold send_ping in H; repeat case_match; simplify_eq; qt b; fail).
  by apply (on_ping_quiet b) in H.
Qed.
Lemma handle_unjoined_quiet b cfg st c cn r hint st' o v :
  is_join r = false → handle_unjoined cfg st c cn r hint = (st', o, v) → quiet b o.
Proof.
  intros Hj H. destruct r; try discriminate Hj; simpl in H.
  all: repeat case_match; simplify_eq; qt b.
Qed.
Lemma handle_joined_err_quiet b cfg st c cn sid p SS r hint st' o :
  is_join r = false → handle_joined cfg st c cn sid p SS r hint = (st', o, VErr) → quiet b o.
Proof.
  intros Hj H. destruct r; try discriminate Hj; simpl in H.
  all: try (unfold send_ping in H; repeat case_match; simplify_eq; qt b; fail).
  by apply (on_ping_quiet b) in H.
Qed.
Lemma handle_err_quiet b cfg st c r hint st' o :
  is_join r = false → handle cfg st c r hint = (st', o, VErr) → quiet b o.
Proof.
  intros Hj. unfold handle. destruct (conns st !! c) as [cn|]; [|intros [= _ <- _]; constructor].
  destruct (c_cur cn) as [[sid p]|].
  - destruct (sessions st !! sid) as [SS|]; [|intros [= _ <- _]; constructor]. by apply handle_joined_err_quiet.
  - by apply handle_unjoined_quiet.
Qed.

(* ================= the relays of a member's request, against the spec ================= *)
Definition untargeted (r : req) : bool := match r with RCustom (_ :: _) _ _ => false | _ => true end.

Lemma sel_flag_broadcast f (fl : bool) SS p m :
  f m = true → sel f (if fl then [] else broadcast SS p m) = if fl then [] else broadcast SS p m.
Proof. intros H. destruct fl; [done|]. by apply sel_broadcast_true. Qed.

Lemma c02_request_ok cfg st c cn sid p SS r hint st' o v sp :
  is_join r = false →
  (∀ e, sp_ents sp !! (sid, e) = ent_abs e <$> s_ents SS !! e) →
  (∀ S1 m, s_parts S1 = s_parts SS → broadcast S1 p m ≡ₚ to_all (sp_others sp sid p) m) →
  handle_joined cfg st c cn sid p SS r hint = (st', o, v) →
  sel (is_relay (untargeted r)) o ≡ₚ request_expected cfg sp (spec_request sp c sid p r o) c sid p r o.
Proof.
  intros Hj Ee Hb H.
  destruct (other_req r) eqn:Hoth.
  { rewrite (sel_quiet _ _ (handle_joined_other_quiet _ cfg st c cn sid p SS r hint _ _ _ Hoth H)).
    destruct r; try discriminate Hoth; reflexivity. }
  destruct r; try discriminate Hoth; try discriminate Hj; simpl in H.
  - (* entity add *)
    injection H as <- <- <-. rewrite sel_cons_false by done. unfold request_expected.
    erewrite first_to_hit by (by rewrite N.eqb_refl). unfold spec_request.
    erewrite first_to_hit by (by rewrite N.eqb_refl). simpl. rewrite lookup_insert.
    destruct (flag_on cfg F_ENTITY_ADD_B); [done|]. rewrite sel_broadcast_true by done. by apply Hb.
  - (* entity delete *)
    unfold request_expected.
    destruct (s_ents SS !! eid) as [ent|] eqn:Hent.
    + destruct (negb (e_owner ent =? p)) eqn:Ho; injection H as <- <- <-.
      * unfold has_msg. simpl. by rewrite andb_false_r.
      * rewrite sel_cons_false by done. unfold has_msg. cbn [existsb fst snd]. rewrite !N.eqb_refl. cbn [andb orb].
        destruct (flag_on cfg F_ENTITY_DELETE_B); [done|]. rewrite sel_broadcast_true by done. by apply Hb.
    + injection H as <- <- <-. unfold has_msg. simpl. by rewrite andb_false_r.
  - (* pose *)
    unfold request_expected, pose_accepted. rewrite (Ee eid).
    destruct (s_ents SS !! eid) as [ent|] eqn:Hent; simpl.
    2:{ destruct p0; by injection H as <- <- <-. }
    destruct p0 as [ps|]; [|by injection H as <- <- <-].
    destruct (e_owner ent =? p) eqn:Ho; simpl in H; injection H as <- <- <-; [|done].
    destruct (flag_on cfg F_POSE_B); [done|]. rewrite sel_broadcast_true by done. by apply Hb.
  - (* custom *)
    unfold request_expected.
    destruct (custom_max <? N.of_nat (length body)) eqn:Hlen.
    { injection H as <- <- <-. destruct rcpts; [|done]. unfold has_error. simpl. by rewrite N.eqb_refl. }
    destruct (flag_on cfg F_CUSTOM_B) eqn:Hf.
    { injection H as <- <- <-. destruct rcpts; [|done]. by rewrite orb_true_r. }
    injection H as <- <- <-. destruct rcpts as [|q0 rs].
    + rewrite sel_broadcast_true by done.
      rewrite has_error_plain by (by apply plains_broadcast). simpl. by apply Hb.
    + simpl. apply Permutation_nil_r. apply sel_none. by apply (Forall_broadcast_to (λ m, is_relay false m = false)).
  - (* action *)
    unfold request_expected.
    destruct (cfg_vikja cfg) eqn:Ev; simpl in H.
    2:{ injection H as <- <- <-. by destruct a. }
    destruct a as [a|]; [|by injection H as <- <- <-].
    assert (Hrefuse : ∀ rid', has_msg c [(c, MError rid' E_BAD_REQUEST)] (λ m, match m with MActionResp r' => r' =? rid | _ => false end) = false).
    { intros rid'. unfold has_msg. simpl. by rewrite andb_false_r. }
    destruct ((a_name a =? 0) || negb (is_Some_b (a_ts a))); [injection H as <- <- <-; by rewrite Hrefuse|].
    destruct (s_ents SS !! a_eid a) as [ent|]; [|injection H as <- <- <-; by rewrite Hrefuse].
    destruct (match s_actions SS !! (a_eid a, a_name a) with Some o0 => ts_before (a_ts a) (a_ts o0) | None => false end);
      [injection H as <- <- <-; by rewrite Hrefuse|].
    injection H as <- <- <-. rewrite sel_cons_false by done. rewrite sel_broadcast_true by done.
    rewrite has_msg_cons_hit by apply N.eqb_refl. by apply Hb.
  - (* asset add *)
    unfold request_expected.
    destruct (cfg_odal cfg) eqn:Eo; simpl in H.
    2:{ by injection H as <- <- <-. }
    set (f := λ m : msg, match m with MAssetAddResp r' x => if r' =? rid then Some x else None | _ => None end).
    assert (Hrefuse : ∀ rid' k', first_to c [(c, MError rid' k')] f = None).
    { intros rid' k'. apply first_to_none. by repeat constructor. }
    destruct (asset =? 0); [injection H as <- <- <-; by rewrite Hrefuse|].
    destruct (s_ents SS !! eid) as [ent|]; [|injection H as <- <- <-; by rewrite Hrefuse].
    destruct (negb (e_owner ent =? p)); [injection H as <- <- <-; by rewrite Hrefuse|].
    injection H as <- <- <-. rewrite sel_cons_false by done. rewrite sel_broadcast_true by done.
    erewrite first_to_hit by (unfold f; by rewrite N.eqb_refl). unfold spec_request.
    fold f. erewrite first_to_hit by (unfold f; by rewrite N.eqb_refl). simpl. rewrite lookup_insert. by apply Hb.
Qed.

(* ================= the relays of a join ================= *)
Lemma quiet_module_join b cfg c SS : quiet b (module_join_msgs cfg c SS).
Proof. unfold module_join_msgs. destruct (cfg_vikja cfg), (cfg_odal cfg); qt b. Qed.

Lemma join_relay_shape b cfg st c cn rid s ots hint st' outs v :
  conns st !! c = Some cn → Model.join cfg st c rid s ots hint = (st', outs, v) →
  (sel (is_relay b) outs = [] ∧ join_resp c outs = None ∧ has_error c E_NOT_FOUND outs = false) ∨
  (join_resp c outs = None ∧ has_error c E_NOT_FOUND outs = true ∧ sel (is_relay b) outs = (leave cfg st c).2) ∨
  (∃ r' n u p' S1, join_resp c outs = Some (r', n, u, p') ∧ sessions st' !! n = Some S1 ∧
     sel (is_relay b) outs = (leave cfg st c).2 ++ (if flag_on cfg F_JOIN_B then [] else broadcast S1 p' (MJoinB ots p'))).
Proof.
  intros Hc. unfold Model.join. rewrite Hc.
  destruct (already_joined cn s) eqn:Haj.
  - intros [= <- <- <-]. left.
    set (mo := match c_cur cn with Some (cur, _) => match sessions st !! cur with Some SS => module_join_msgs cfg c SS | None => [] end | None => [] end).
    assert (Hmo : plains mo ∧ quiet b mo).
    { unfold mo. destruct (c_cur cn) as [[cur p0]|]; [|split; constructor].
      destruct (sessions st !! cur); [split; [apply plains_module_join|apply quiet_module_join]|split; constructor]. }
    destruct Hmo as [Hm1 Hm2]. split; [|split].
    + rewrite sel_cons_false by done. by apply sel_quiet.
    + rewrite join_resp_cons_other by done. by apply join_resp_plain.
    + unfold has_error. simpl. rewrite N.eqb_refl. simpl. by apply has_error_plain.
  - pose proof (plains_leave cfg st c) as P1. pose proof (leave_all_relay b cfg st c) as L1.
    destruct (leave cfg st c) as [st1 o1]. simpl in *.
    assert (Hnotfound : ∀ outs, outs = o1 ++ [(c, MError rid E_NOT_FOUND)] →
      join_resp c outs = None ∧ has_error c E_NOT_FOUND outs = true ∧ sel (is_relay b) outs = o1).
    { intros ? ->. split. { rewrite join_resp_app_plain by done. by rewrite join_resp_cons_other. }
      split. { rewrite has_error_app. unfold has_error at 2. simpl. rewrite N.eqb_refl. simpl. apply orb_true_r. }
      rewrite sel_app, L1. rewrite sel_cons_false by done. apply app_nil_r. }
    assert (Henter : ∀ st2 n SS, sessions st2 !! n = Some SS →
      ∃ r' n' u p' S1, join_resp c (o1 ++ (enter cfg st2 c rid n ots).1.2) = Some (r', n', u, p') ∧
        sessions (enter cfg st2 c rid n ots).1.1 !! n' = Some S1 ∧
        sel (is_relay b) (o1 ++ (enter cfg st2 c rid n ots).1.2) =
          o1 ++ (if flag_on cfg F_JOIN_B then [] else broadcast S1 p' (MJoinB ots p'))).
    { intros st2 n SS HS. pose proof (enter_sessions cfg st2 c rid n ots _ HS) as E3.
      exists rid, n, (s_uuid SS), (u32_succ (s_pgen SS)), (entered SS c).
      rewrite E3, lookup_insert. rewrite (enter_eq cfg st2 c rid n ots SS HS). cbv zeta. cbn [fst snd].
      split. { rewrite join_resp_app_plain by done. unfold join_resp. by apply first_to_hit. }
      split; [done|]. rewrite sel_app, L1. f_equal. rewrite sel_cons_false by done.
      rewrite sel_app. replace (sel (is_relay b) (if flag_on cfg F_SESSION_STATE then [] else _)) with (@nil delivery)
        by (by destruct (flag_on cfg F_SESSION_STATE)).
      rewrite sel_app, (sel_quiet _ _ (quiet_module_join b cfg c _)), app_nil_r. cbn [app].
      by apply sel_flag_broadcast. }
    destruct s as [|n|k].
    + destruct (create_session hint st1) as [n st2] eqn:Hcr.
      destruct (c07_created_fresh _ _ _ _ Hcr) as [HS2 _]. specialize (Henter st2 n _ HS2).
      destruct (enter cfg st2 c rid n ots) as [[st3 o2] v2]. intros [= <- <- <-]. right; right. exact Henter.
    + destruct (sessions st1 !! n) as [SS|] eqn:HS.
      * specialize (Henter st1 n _ HS). destruct (enter cfg st1 c rid n ots) as [[st3 o2] v2]. intros [= <- <- <-].
        right; right. exact Henter.
      * intros [= <- <- <-]. right; left. by apply Hnotfound.
    + intros [= <- <- <-]. right; left. by apply Hnotfound.
Qed.

(* ================= what the spec expects of an event, by kind of event ================= *)
Lemma relay_expected_same cfg sp e c :
  actor e = Some c → stepped e = None → rejoined e c = false → relay_expected cfg sp sp e = [].
Proof. intros Ha Hst Hr. unfold relay_expected. by rewrite (departure_same sp sp e c Ha eq_refl Hr), Hst. Qed.

Definition departure_of (cfg : config) (sp : spec) (c : N) : list delivery :=
  match sp_mem sp !! c with Some (sid, p) => departure_expected cfg sp sid p | None => [] end.

Lemma relay_expected_depart cfg sp e c :
  actor e = Some c → stepped e = None → relay_expected cfg sp (depart sp c) e = departure_of cfg sp c.
Proof.
  intros Ha Hst. unfold relay_expected, departure_of. rewrite Hst, app_nil_r.
  destruct (sp_mem sp !! c) as [[sid p]|] eqn:Hm.
  - by rewrite (departure_left sp _ e c sid p Ha Hm (or_introl (depart_mem_c sp c))).
  - by rewrite (departure_nonmember sp _ e c Ha Hm).
Qed.

Lemma leave_departure cfg sp st c :
  inv st → own_inv st → refines_mem sp st → refines_ents sp st → (leave cfg st c).2 ≡ₚ departure_of cfg sp c.
Proof.
  intros I O R E. unfold departure_of. destruct (sp_mem sp !! c) as [[sid p]|] eqn:Hm.
  - pose proof Hm as Hcur0. rewrite (rm_mem _ _ R) in Hcur0. unfold cur_of in Hcur0.
    destruct (conns st !! c) as [cn|] eqn:Hc; [|done]. simpl in Hcur0.
    assert (Hcur1 : cur_of st c = Some (sid, p)) by (unfold cur_of; by rewrite Hc).
    destruct (live_session _ _ (inv_live _ I _ _ _ Hcur1)) as [SS HS].
    by apply (leave_relays cfg sp st c cn sid p SS).
  - by rewrite (leave_relays_none cfg sp st c R Hm).
Qed.
Lemma disconnect_departure b cfg sp st c :
  inv st → own_inv st → refines_mem sp st → refines_ents sp st →
  sel (is_relay b) (disconnect cfg st c).2 ≡ₚ departure_of cfg sp c.
Proof. intros I O R E. rewrite disconnect_outs, leave_all_relay. by apply leave_departure. Qed.

Lemma stepped_nonjoin {A} (e : event) c r (a : N → N → sidspec → N → A) (b0 : N → req → A) (d : A) :
  is_join r = false → stepped e = Some (c, r) →
  match stepped e with Some (c, RJoin rid s ots) => a c rid s ots | Some (c, r) => b0 c r | None => d end = b0 c r.
Proof. intros Hj ->. by destruct r. Qed.

(* ================= one step ================= *)
Lemma c02_perm cfg st o k kw sp :
  inv st → bounded k st → k + 1 < two32 → kw + 1 < two32 → good cfg kw sp st →
  let e := ev_of st o (step cfg st o) in
  sel (is_relay (untargeted_req e)) (ev_outs e) ≡ₚ relay_expected cfg sp (spec_step sp e) e.
Proof.
  intros I B Hk Hkw [_ G O Wf R E D]. pose proof (bounded_nowrap _ _ B Hk) as W.
  destruct (step_inv cfg st o k I B Hk) as [I' _].
  pose proof (step_sim cfg st o k sp 0%nat I B Hk G R) as [R' _].
  revert I' R'. unfold ev_of.
  assert (Hskip : ∀ o' c', actor {| ev_op := o'; ev_req := None; ev_outs := []; ev_verdict := VSkip |} = Some c' →
    (match o' with ODisconnect _ => False | _ => True end) →
    let e := {| ev_op := o'; ev_req := None; ev_outs := []; ev_verdict := VSkip |} in
    sel (is_relay (untargeted_req e)) (ev_outs e) ≡ₚ relay_expected cfg sp (spec_step sp e) e).
  { intros o' c' Ha Ho'. cbv zeta. rewrite spec_step_skip by done. rewrite (relay_expected_same cfg sp _ c' Ha); [reflexivity|by destruct o'|by destruct o']. }
  destruct o as [c|c r|c hint|sid|c|]; cbn [step consumed].
  - (* connect *) destruct (conns st !! c); intros _ _; reflexivity.
  - (* send *)
    unfold dispatch. destruct (conns st !! c) as [cn|] eqn:Hc; [|intros _ _; by apply (Hskip (OSend c r) c)].
    destruct (c_open cn) eqn:Ho; [|intros _ _; by apply (Hskip (OSend c r) c)]. cbn [negb].
    assert (Hq : ∀ st' : state, let e := {| ev_op := OSend c r; ev_req := None; ev_outs := (st', @nil delivery, VOk).1.2; ev_verdict := (st', @nil delivery, VOk).2 |} in
      sel (is_relay (untargeted_req e)) (ev_outs e) ≡ₚ relay_expected cfg sp (spec_step sp e) e).
    { intros st'. cbv zeta. cbn [fst snd]. change (spec_step sp _) with sp. by rewrite (relay_expected_same cfg sp _ c). }
    destruct r; try (intros _ _; apply Hq).
    cbn match. destruct (ty =? 14); [|intros _ _; apply Hq].
    pose proof (disconnect_departure true cfg sp st c I O R E) as Hd.
    destruct (disconnect cfg st c) as [st1 o1]. intros _ _. cbn [fst snd ev_outs].
    change (spec_step sp _) with (depart sp c). by rewrite (relay_expected_depart cfg sp _ c).
  - (* step *)
    destruct (conns st !! c) as [cn|] eqn:Hc; [|intros _ _; by apply (Hskip (OStep c hint) c)].
    destruct (c_open cn) eqn:Ho; [|intros _ _; by apply (Hskip (OStep c hint) c)]. cbn [negb].
    destruct (c_queue cn) as [|r q] eqn:Hq; [intros _ _; by apply (Hskip (OStep c hint) c)|]. cbn [head].
    set (st0 := upd_conn c (set_queue q) st).
    assert (Hs0 : same_mem st st0) by (apply same_mem_upd_conn; by intros []).
    assert (I0 : inv st0) by by eapply inv_same_mem.
    assert (B0 : bounded k st0) by by eapply bounded_same_mem.
    assert (W0 : nowrap st0) by by eapply bounded_nowrap.
    assert (R0 : refines_mem sp st0) by (eapply refines_same; [apply same_all_upd_conn; by intros []|exact R]).
    assert (E0 : refines_ents sp st0) by exact E.
    assert (O0 : own_inv st0).
    { eapply own_inv_ext; [| |exact O]; [done|]. intros c'. apply mem_of_upd_conn; by intros []. }
    assert (Hc0 : conns st0 !! c = Some (set_queue q cn)).
    { unfold st0, upd_conn. simpl. rewrite Hc. by rewrite lookup_insert. }
    assert (Ho0 : open_of st0 c = Some true) by (unfold open_of; rewrite Hc0; simpl; by rewrite Ho).
    destruct (is_join r) eqn:Hj.
    + (* a join *)
      destruct r; try discriminate Hj.
      assert (Hh : handle cfg st0 c (RJoin rid sid ots) hint = Model.join cfg st0 c rid sid ots hint).
      { unfold handle. rewrite Hc0. destruct (c_cur (set_queue q cn)) as [[s p]|] eqn:Hcur; [|done].
        assert (Hcur0 : cur_of st0 c = Some (s, p)) by (unfold cur_of; by rewrite Hc0).
        destruct (live_session _ _ (inv_live _ I0 _ _ _ Hcur0)) as [SS HS]. by rewrite HS. }
      rewrite Hh. destruct (Model.join cfg st0 c rid sid ots hint) as [[st1 o1] v] eqn:Ej.
      pose proof (join_verdict cfg st0 c _ rid sid ots hint Hc0) as Hv. rewrite Ej in Hv. simpl in Hv. subst v.
      cbn [fst snd]. rewrite spec_step_join. intros I1 R1.
      set (e := {| ev_op := OStep c hint; ev_req := Some (RJoin rid sid ots); ev_outs := o1; ev_verdict := VOk |}).
      assert (Ha : actor e = Some c) by done. assert (Hst : stepped e = Some (c, RJoin rid sid ots)) by done.
      pose proof (leave_departure cfg sp st0 c I0 O0 R0 E0) as Hld.
      change (untargeted_req e) with true. cbn [ev_outs e].
      destruct (join_relay_shape true cfg st0 c _ rid sid ots hint _ _ _ Hc0 Ej) as
        [(J1&J2&J3)|[(J2&J3&J1)|(r'&n&u&p'&S1&J2&HS1&J1)]]; rewrite J1.
      * rewrite J2, J3 in R1 |- *. unfold relay_expected. rewrite Hst. cbn [ev_outs e]. rewrite J2.
        rewrite (departure_same sp sp e c Ha eq_refl); [done|]. unfold rejoined, e. simpl. rewrite J2. by rewrite andb_false_r.
      * rewrite J2, J3 in R1 |- *. unfold relay_expected. rewrite Hst. cbn [ev_outs e]. rewrite J2, app_nil_r.
        fold (departure_of cfg sp c) in Hld. unfold departure_of in Hld.
        destruct (sp_mem sp !! c) as [[s0 p0]|] eqn:Hm.
        -- by rewrite (departure_left sp _ e c s0 p0 Ha Hm (or_introl (depart_mem_c sp c))).
        -- by rewrite (departure_nonmember sp _ e c Ha Hm).
      * rewrite J2 in R1 |- *. unfold relay_expected. rewrite Hst. cbn [ev_outs e]. rewrite J2.
        apply Permutation_app.
        -- unfold departure_of in Hld. destruct (sp_mem sp !! c) as [[s0 p0]|] eqn:Hm.
           ++ rewrite (departure_left sp _ e c s0 p0 Ha Hm); [done|]. right. unfold rejoined, e. simpl. by rewrite J2, N.eqb_refl.
           ++ by rewrite (departure_nonmember sp _ e c Ha Hm).
        -- destruct (flag_on cfg F_JOIN_B); [done|].
           by apply (to_all_broadcast _ st1 n p' S1 S1 _ I1 (rm_mem _ _ R1) HS1).
    + (* any other request *)
      destruct (handle cfg st0 c r hint) as [[st1 o1] v] eqn:Eh.
      destruct (handle_nonjoin cfg st0 c _ r hint _ _ _ I0 Hc0 Hj Eh) as (S1&N1&V1&V2).
      assert (R1 : refines_mem sp st1) by (by eapply refines_same).
      assert (I1 : inv st1).
      { pose proof (handle_inv cfg st0 c r hint k I0 B0 Hk Ho0) as [I1 _]. by rewrite Eh in I1. }
      destruct v; try done.
      * (* answered *)
        cbn [fst snd]. intros _ _.
        set (e := {| ev_op := OStep c hint; ev_req := Some r; ev_outs := o1; ev_verdict := VOk |}).
        assert (Ha : actor e = Some c) by done. assert (Hst : stepped e = Some (c, r)) by done.
        assert (Hrj : rejoined e c = false) by (unfold rejoined, e; simpl; by destruct r).
        assert (Hsp : spec_step sp e = match sp_mem sp !! c with Some (s, p) => spec_request sp c s p r o1 | None => sp end).
        { unfold spec_step, e. cbn [ev_op ev_verdict ev_req ev_outs]. destruct r; try reflexivity. discriminate Hj. }
        rewrite Hsp. change (untargeted_req e) with (untargeted r). cbn [ev_outs e].
        unfold relay_expected. rewrite (stepped_nonjoin e c r _ _ _ Hj Hst). cbn [ev_outs e].
        unfold handle in Eh. rewrite Hc0 in Eh. change (c_cur (set_queue q cn)) with (c_cur cn) in Eh.
        pose proof (rm_mem _ _ R0 c) as Hmem. unfold cur_of in Hmem. rewrite Hc0 in Hmem. simpl in Hmem.
        destruct (c_cur cn) as [[s p]|] eqn:Hcur; rewrite Hmem.
        -- assert (Hcur0 : cur_of st0 c = Some (s, p)) by (unfold cur_of; rewrite Hc0; exact Hcur).
           destruct (live_session _ _ (inv_live _ I0 _ _ _ Hcur0)) as [SS HS]. rewrite HS in Eh.
           rewrite (departure_same sp _ e c Ha); [|by rewrite sp_mem_spec_request|done]. cbn [app].
           eapply c02_request_ok; [exact Hj| | |exact Eh].
           ++ intros e0. rewrite (E0 s e0). unfold ents_at. by rewrite HS.
           ++ intros S2 m Hpe. by apply (to_all_broadcast sp st0 s p SS S2 m I0 (rm_mem _ _ R0) HS).
        -- rewrite (departure_nonmember sp _ e c Ha Hmem). cbn [app].
           by rewrite (sel_quiet _ _ (handle_unjoined_quiet _ cfg st0 c _ r hint _ _ _ Hj Eh)).
      * (* handler error: the connection is ended *)
        destruct (handle_err_same cfg st0 c r hint _ _ Hj Eh) as [Hs1 Hc1].
        assert (E1 : refines_ents sp st1) by (eapply refines_ents_same; [reflexivity|by apply ents_at_sessions|exact E0]).
        assert (O1 : own_inv st1) by (by eapply own_inv_conns).
        pose proof (disconnect_departure (untargeted r) cfg sp st1 c I1 O1 R1 E1) as Hd.
        destruct (disconnect cfg st1 c) as [st2 o2]. cbn [fst snd]. intros _ _.
        set (e := {| ev_op := OStep c hint; ev_req := Some r; ev_outs := o1 ++ o2; ev_verdict := VErr |}).
        change (spec_step sp e) with (depart sp c). change (untargeted_req e) with (untargeted r). cbn [ev_outs e].
        rewrite (relay_expected_depart cfg sp e c) by done.
        rewrite sel_app, (sel_quiet _ _ (handle_err_quiet _ cfg st0 c r hint _ _ Hj Eh)). exact Hd.
  - (* tick *) intros _ _. reflexivity.
  - (* disconnect *)
    assert (Hnone : cur_of st c = None →
      let e := {| ev_op := ODisconnect c; ev_req := None; ev_outs := []; ev_verdict := VSkip |} in
      sel (is_relay (untargeted_req e)) (ev_outs e) ≡ₚ relay_expected cfg sp (spec_step sp e) e).
    { intros Hcur. cbv zeta. change (spec_step sp _) with (depart sp c). rewrite (relay_expected_depart cfg sp _ c) by done.
      unfold departure_of. by rewrite (rm_mem _ _ R), Hcur. }
    destruct (conns st !! c) as [cn|] eqn:Hc; [|intros _ _; apply Hnone; unfold cur_of; by rewrite Hc].
    destruct (c_open cn) eqn:Ho; cbn [negb].
    2:{ intros _ _. apply Hnone. apply (inv_open _ I). unfold open_of. rewrite Hc. simpl. by rewrite Ho. }
    pose proof (disconnect_departure true cfg sp st c I O R E) as Hd.
    destruct (disconnect cfg st c) as [st1 o1]. intros _ _. cbn [fst snd ev_outs].
    change (spec_step sp _) with (depart sp c). by rewrite (relay_expected_depart cfg sp _ c).
  - (* snapshot *) intros _ _. reflexivity.
Qed.

Lemma c02_step_ok cfg st o k kw sp i :
  inv st → bounded k st → k + 1 < two32 → kw + 1 < two32 → good cfg kw sp st →
  let e := ev_of st o (step cfg st o) in
  P_C02_event cfg i sp (spec_step sp e) e = [].
Proof.
  intros I B Hk Hkw Gd e. unfold P_C02_event.
  pose proof (step_bad_msgs cfg st o k sp i 200 I B Hk (g_reg _ _ _ _ Gd) (g_mem _ _ _ _ Gd)) as Hbad. fold e in Hbad.
  rewrite Hbad, app_nil_r. rewrite same_lines_perm; [done|]. by apply (c02_perm cfg st o k kw sp).
Qed.

(* ================= every history ================= *)
(* Deliverable 2c: the model's own trace is never flagged by P_C02 (clauses 201, 299) *)
Theorem model_passes_C02 cfg h : short h → P_C02 cfg (run cfg h) = [].
Proof.
  induction h as [|o h IH] using rev_ind; intros Hs; [done|].
  apply short_snoc in Hs as [Hs Hb]. unfold P_C02 in *. rewrite run_snoc, sscan_snoc, IH by done. simpl.
  assert (Hlen : N.of_nat (length h) < two32) by (unfold short in Hs; lia).
  destruct (reachable_inv cfg h state0 0 inv_state0 bounded_state0) as [I B]; [lia|].
  apply (c02_step_ok cfg (final cfg h) o (0 + N.of_nat (length h)) (4 * N.of_nat (length h)));
    [exact I|exact B|lia|lia|by apply reachable_good].
Qed.

(* proofs/Purge3.v — noninterference experiment of C03 (Purge.v), part 3: the building blocks of a step,
   executed in the full run and in the purged run from related states, end in related states and
   deliver related messages: frame lemmas for the simulation relation, updates of one connection record,
   session-local requests, departures, entering a session. *)
From stdpp Require Import relations sorting.
From hagall Require Import Model Spec Obs Preds Purge.
From hagall.proofs Require Import BaseLemmas Relay Inv Session Local Trans WF Mono Reach PC03 PC06 PC07
  Refine Refine2 Refine3 Refine5 RefSched RefSched2 Purge1 Purge2.
From Coq Require Import Lia.

Lemma cur_of_conn st c cn : conns st !! c = Some cn → cur_of st c = c_cur cn.
Proof. intros H. unfold cur_of. by rewrite H. Qed.
Lemma cur_of_same st st' c : conns st' !! c = conns st !! c → cur_of st' c = cur_of st c.
Proof. intros H. unfold cur_of. by rewrite H. Qed.

(* ================= a frame lemma in which one connection may change its membership ================= *)
Lemma sim_change A uu st1 st2 st1' st2' c :
  sim A st1 st2 → uuc A uu st1 st2 → grp A c = true →
  (∀ d, d ≠ c → cur_of st1' d = cur_of st1 d) →
  (∀ d, d ≠ c → cur_of st2' d = cur_of st2 d) →
  (∀ d, grp A d = true → option_Forall2 crel (conns st1' !! d) (conns st2' !! d)) →
  (∀ d, grp A d = false → conns st2' !! d = None) →
  (∀ d s p s' p' S1 S2, d ≠ c → grp A d = true → cur_of st1 d = Some (s, p) → cur_of st2 d = Some (s', p') →
     sessions st1 !! s = Some S1 → sessions st2 !! s' = Some S2 → srel S1 S2 →
     ∃ S1' S2', sessions st1' !! s = Some S1' ∧ sessions st2' !! s' = Some S2' ∧ srel S1' S2' ∧
                s_uuid S1' = s_uuid S1 ∧ s_uuid S2' = s_uuid S2) →
  (∀ n1 p n2 p', cur_of st1' c = Some (n1, p) → cur_of st2' c = Some (n2, p') →
     (∃ T1 T2, sessions st1' !! n1 = Some T1 ∧ sessions st2' !! n2 = Some T2 ∧ srel T1 T2 ∧
               ∀ a b, (a, b) ∈ uu → (a = s_uuid T1 ↔ b = s_uuid T2)) ∧
     (∀ d s q s' q', d ≠ c → grp A d = true → cur_of st1 d = Some (s, q) → cur_of st2 d = Some (s', q') →
        (s = n1 ↔ s' = n2))) →
  sim A st1' st2' ∧ uuc A uu st1' st2'.
Proof.
  intros S U Hc C1 C2 Hcn Ho Hs Hnew. split.
  - split; [done|done| |].
    + intros d e s p t q s' p' t' q' Hd He H1 H2 H3 H4.
      destruct (decide (d = c)) as [->|Nd], (decide (e = c)) as [->|Ne].
      * simplify_eq. done.
      * rewrite (C1 e Ne) in H2. rewrite (C2 e Ne) in H4.
        destruct (Hnew s p s' p' H1 H3) as [_ Hx]. specialize (Hx e t q t' q' Ne He H2 H4).
        destruct Hx as [Hx1 Hx2]. split; intros Eq; symmetry; [apply Hx1|apply Hx2]; done.
      * rewrite (C1 d Nd) in H1. rewrite (C2 d Nd) in H3.
        destruct (Hnew t q t' q' H2 H4) as [_ Hx]. by apply (Hx d s p s' p' Nd Hd H1 H3).
      * rewrite (C1 d Nd) in H1. rewrite (C2 d Nd) in H3. rewrite (C1 e Ne) in H2. rewrite (C2 e Ne) in H4.
        by apply (sim_part _ _ _ S d e s p t q s' p' t' q').
    + intros d s p s' p' Hd H1 H2. destruct (decide (d = c)) as [->|Nd].
      * destruct (Hnew s p s' p' H1 H2) as [(T1&T2&E1&E2&R&_) _]. eauto.
      * rewrite (C1 d Nd) in H1. rewrite (C2 d Nd) in H2.
        destruct (sim_sess _ _ _ S d s p s' p' Hd H1 H2) as (S1&S2&E1&E2&R).
        destruct (Hs d s p s' p' S1 S2 Nd Hd H1 H2 E1 E2 R) as (S1'&S2'&E1'&E2'&R'&_). eauto.
  - intros a b d s p s' p' S1' S2' Hab Hd H1 H2 E1' E2'. destruct (decide (d = c)) as [->|Nd].
    + destruct (Hnew s p s' p' H1 H2) as [(T1&T2&E1&E2&R&Hu) _]. simplify_eq. by apply Hu.
    + rewrite (C1 d Nd) in H1. rewrite (C2 d Nd) in H2.
      destruct (sim_sess _ _ _ S d s p s' p' Hd H1 H2) as (S1&S2&E1&E2&R).
      destruct (Hs d s p s' p' S1 S2 Nd Hd H1 H2 E1 E2 R) as (T1&T2&F1&F2&_&V1&V2).
      simplify_eq. rewrite V1, V2. by eapply (U a b d).
Qed.

(* ================= updating the record of one connection of the group ================= *)
Lemma sim_upd_conn A uu st1 st2 c f1 f2 :
  sim A st1 st2 → uuc A uu st1 st2 → grp A c = true →
  (∀ cn1 cn2, conns st1 !! c = Some cn1 → conns st2 !! c = Some cn2 → crel cn1 cn2 → crel (f1 cn1) (f2 cn2)) →
  (∀ cn, c_cur (f1 cn) = c_cur cn) → (∀ cn, c_cur (f2 cn) = c_cur cn) →
  sim A (upd_conn c f1 st1) (upd_conn c f2 st2) ∧ uuc A uu (upd_conn c f1 st1) (upd_conn c f2 st2).
Proof.
  intros S U Hc Hf H1 H2. apply (sim_frame A uu st1 st2); try done.
  - intros d _. by apply cur_of_upd_conn.
  - intros d _. by apply cur_of_upd_conn.
  - intros d Hd. rewrite !conns_upd_conn. case_decide as E; [subst d|by apply (sim_conn _ _ _ S)].
    pose proof (sim_conn _ _ _ S c Hc) as X. destruct X as [cn1 cn2 X|]; simpl; constructor.
    by apply Hf.
  - intros d Hd. rewrite conns_upd_conn. case_decide as E; [subst d; congruence|by apply (sim_only _ _ _ S)].
  - intros d s p s' p' S1 S2 _ _ _ E1 E2 R. exists S1, S2. done.
Qed.

(* replacing the sessions a connection of the group is in, by related sessions of the same incarnations *)
Lemma sim_put_session A uu st1 st2 c s1 p s2 p' S1 S2 S1' S2' :
  sim A st1 st2 → uuc A uu st1 st2 → grp A c = true →
  cur_of st1 c = Some (s1, p) → cur_of st2 c = Some (s2, p') →
  sessions st1 !! s1 = Some S1 → sessions st2 !! s2 = Some S2 →
  srel S1' S2' → s_uuid S1' = s_uuid S1 → s_uuid S2' = s_uuid S2 →
  sim A (put_session st1 s1 S1') (put_session st2 s2 S2') ∧ uuc A uu (put_session st1 s1 S1') (put_session st2 s2 S2').
Proof.
  intros S U Hc C1 C2 E1 E2 R V1 V2. apply (sim_frame A uu st1 st2); try done.
  - intros d Hd. apply (sim_conn _ _ _ S d Hd).
  - intros d Hd. apply (sim_only _ _ _ S d Hd).
  - intros d s q s' q' T1 T2 Hd D1 D2 F1 F2 RT. simpl.
    pose proof (sim_part _ _ _ S c d s1 p s q s2 p' s' q' Hc Hd C1 D1 C2 D2) as Hiff.
    destruct (decide (s = s1)) as [->|Ne].
    + assert (s' = s2) as -> by (symmetry; by apply Hiff). rewrite !lookup_insert. simplify_eq. eauto 10.
    + assert (s' ≠ s2) by (intros ->; apply Ne; symmetry; by apply Hiff).
      rewrite !lookup_insert_ne by done. eauto 10.
Qed.

(* ================= departures ================= *)
Lemma crel_left cn1 cn2 :
  crel cn1 cn2 → crel (set_own (λ _, ∅) (set_cur None cn1)) (set_own (λ _, ∅) (set_cur None cn2)).
Proof. intros [H1 H2 H3 H4 H5 H6 H7 H8]. split; simpl; done. Qed.

Lemma leave_cur_self cfg st c : inv st → cur_of (leave cfg st c).1 c = None.
Proof. apply leave_cur. Qed.

Lemma leave_sim cfg A uu st1 st2 c :
  sim A st1 st2 → uuc A uu st1 st2 → inv st1 → inv st2 → grp A c = true →
  sim A (leave cfg st1 c).1 (leave cfg st2 c).1 ∧ uuc A uu (leave cfg st1 c).1 (leave cfg st2 c).1 ∧
  (leave cfg st1 c).2 = (leave cfg st2 c).2.
Proof.
  intros S U I1 I2 Hc. destruct (cur_of st1 c) as [[s1 p]|] eqn:C1.
  2:{ pose proof (sim_cur_None _ _ _ c S Hc C1) as C2.
      destruct (leave_not_joined cfg st1 c C1) as [-> ->]. destruct (leave_not_joined cfg st2 c C2) as [-> ->]. done. }
  destruct (sim_cur_Some _ _ _ c s1 p S Hc C1) as [s2 C2].
  destruct (sim_sess _ _ _ S c s1 p s2 p Hc C1 C2) as (S1&S2&E1&E2&R).
  pose proof (sim_conn _ _ _ S c Hc) as X.
  destruct (conns st1 !! c) as [cn1|] eqn:Hc1; [|by unfold cur_of in C1; rewrite Hc1 in C1].
  destruct (conns st2 !! c) as [cn2|] eqn:Hc2; [|by unfold cur_of in C2; rewrite Hc2 in C2].
  inversion X as [? ? CR|]; subst. clear X.
  assert (K1 : c_cur cn1 = Some (s1, p)) by (rewrite <- (cur_of_conn st1 c cn1 Hc1); done).
  assert (K2 : c_cur cn2 = Some (s2, p)) by (rewrite <- (cur_of_conn st2 c cn2 Hc2); done).
  destruct (leave_joined cfg st1 c cn1 s1 p S1 Hc1 K1 E1) as (A1&A2&A3&_).
  destruct (leave_joined cfg st2 c cn2 s2 p S2 Hc2 K2 E2) as (B1&B2&B3&_).
  rewrite <- (cr_own _ _ CR) in B2, B3. rewrite R in B2, B3.
  rewrite left_session_set_uuid in B2. rewrite leave_outs_set_uuid in B3.
  set (L1 := left_session cfg c p (c_own cn1) S1) in *.
  assert (HL : s_parts L1 = delete p (s_parts S1)) by apply left_session_parts.
  assert (Hpc : s_parts S1 !! p = Some c).
  { destruct (inv_cur_session _ _ _ _ I1 C1) as (SS&ES&HP). by simplify_eq. }
  cut (sim A (leave cfg st1 c).1 (leave cfg st2 c).1 ∧ uuc A uu (leave cfg st1 c).1 (leave cfg st2 c).1).
  { intros [? ?]. split; [done|]. split; [done|]. by rewrite A3, B3. }
  apply (sim_change A uu st1 st2 _ _ c); try done.
  - intros d Nd. apply cur_of_same. rewrite A1. by rewrite lookup_insert_ne.
  - intros d Nd. apply cur_of_same. rewrite B1. by rewrite lookup_insert_ne.
  - intros d Hd. rewrite A1, B1. destruct (decide (d = c)) as [->|Nd].
    + rewrite !lookup_insert. constructor. by apply crel_left.
    + rewrite !lookup_insert_ne by done. apply (sim_conn _ _ _ S d Hd).
  - intros d Hd. rewrite B1. rewrite lookup_insert_ne by congruence. apply (sim_only _ _ _ S d Hd).
  - intros d s q s' q' T1 T2 Nd Hd D1 D2 F1 F2 RT.
    pose proof (sim_part _ _ _ S c d s1 p s q s2 p s' q' Hc Hd C1 D1 C2 D2) as Hiff.
    rewrite A2, B2. change (s_parts (set_uuid (s_uuid S2) L1)) with (s_parts L1). destruct (decide (s = s1)) as [->|Ne].
    + assert (s' = s2) as -> by (symmetry; by apply Hiff).
      assert (T1 = S1) as -> by congruence. assert (T2 = S2) as -> by congruence.
      assert (Hq : s_parts S1 !! q = Some d).
      { destruct (inv_cur_session _ _ _ _ I1 D1) as (SS&ES&HP). by simplify_eq. }
      assert (Hqp : q ≠ p) by (intros ->; congruence).
      assert (Hne : s_parts L1 ≠ ∅).
      { rewrite HL. intros He. assert (delete p (s_parts S1) !! q = Some d) as Hx by (by rewrite lookup_delete_ne).
        rewrite He in Hx. by rewrite lookup_empty in Hx. }
      rewrite !decide_False by done. rewrite !lookup_insert.
      exists L1, (set_uuid (s_uuid S2) L1). split; [done|]. split; [done|]. split; [apply srel_set_uuid|].
      split; [apply left_session_uuid|done].
    + assert (s' ≠ s2) by (intros ->; apply Ne; symmetry; by apply Hiff).
      exists T1, T2. destruct (decide (s_parts L1 = ∅)); rewrite ?lookup_delete_ne, ?lookup_insert_ne by done; done.
  - intros n1 q n2 q' D1. exfalso. revert D1. erewrite cur_of_conn by (rewrite A1; apply lookup_insert). done.
Qed.

(* ================= entering a session ================= *)
Lemma crel_entered cn1 cn2 n1 n2 p :
  crel cn1 cn2 →
  crel (set_lat None (set_own (λ _, ∅) (set_cur (Some (n1, p)) cn1)))
       (set_lat None (set_own (λ _, ∅) (set_cur (Some (n2, p)) cn2))).
Proof. intros [H1 H2 H3 H4 H5 H6 H7 H8]. split; simpl; done. Qed.

Definition njrs (l : list delivery) : Prop := Forall (λ d : delivery, njr (snd d) = true) l.
Lemma njrs_app l1 l2 : njrs l1 → njrs l2 → njrs (l1 ++ l2).
Proof. apply Forall_app_2. Qed.
Lemma njrs_broadcast SS p m : njr m = true → njrs (broadcast SS p m).
Proof. apply (Forall_broadcast (λ m, njr m = true)). Qed.
Lemma njrs_broadcast_to SS p ids m : njr m = true → njrs (broadcast_to SS p ids m).
Proof. apply (Forall_broadcast_to (λ m, njr m = true)). Qed.
Lemma njrs_module_join cfg c SS : njrs (module_join_msgs cfg c SS).
Proof. apply plains_njr, plains_module_join. Qed.

Lemma enter_rest_njrs cfg c ots SS : njrs (enter_rest cfg c ots SS).
Proof.
  unfold enter_rest. apply njrs_app; [destruct (flag_on cfg F_SESSION_STATE); repeat constructor|].
  apply njrs_app; [|apply njrs_module_join].
  destruct (flag_on cfg F_JOIN_B); [constructor|]. by apply njrs_broadcast.
Qed.

Lemma enter_sim cfg A uu st1 st2 c rid n1 n2 ots T1 T2 :
  sim A st1 st2 → uuc A uu st1 st2 → grp A c = true → is_Some (conns st1 !! c) →
  sessions st1 !! n1 = Some T1 → sessions st2 !! n2 = Some T2 → srel T1 T2 →
  (∀ a b, (a, b) ∈ uu → (a = s_uuid T1 ↔ b = s_uuid T2)) →
  (∀ d s q s' q', d ≠ c → grp A d = true → cur_of st1 d = Some (s, q) → cur_of st2 d = Some (s', q') →
     (s = n1 ↔ s' = n2)) →
  let r1 := enter cfg st1 c rid n1 ots in
  let r2 := enter cfg st2 c rid n2 ots in
  sim A r1.1.1 r2.1.1 ∧ uuc A uu r1.1.1 r2.1.1 ∧ orl true (s_uuid T1) (s_uuid T2) r1.1.2 r2.1.2 ∧
  r1.2 = VOk ∧ r2.2 = VOk ∧
  cur_of r1.1.1 c = Some (n1, u32_succ (s_pgen T1)) ∧ cur_of r2.1.1 c = Some (n2, u32_succ (s_pgen T1)) ∧
  sessions r1.1.1 !! n1 = Some (entered T1 c) ∧ sessions r2.1.1 !! n2 = Some (entered T2 c).
Proof.
  intros S U Hc [cn1 Hc1] E1 E2 R Hok Hpart r1 r2.
  pose proof (sim_conn _ _ _ S c Hc) as X. rewrite Hc1 in X.
  inversion X as [? cn2 CR Hx Hc2|]; subst. symmetry in Hc2. clear X.
  destruct (enter_joined cfg st1 c cn1 rid n1 ots T1 Hc1 E1) as (A1&A2&A3&A4&_).
  destruct (enter_joined cfg st2 c cn2 rid n2 ots T2 Hc2 E2) as (B1&B2&B3&B4&_).
  fold r1 in A1, A2, A3, A4. fold r2 in B1, B2, B3, B4.
  rewrite (srel_pgen _ _ R) in B1, B3.
  set (p := u32_succ (s_pgen T1)) in *.
  assert (K1 : cur_of r1.1.1 c = Some (n1, p)) by (erewrite cur_of_conn by (rewrite A1; apply lookup_insert); done).
  assert (K2 : cur_of r2.1.1 c = Some (n2, p)) by (erewrite cur_of_conn by (rewrite B1; apply lookup_insert); done).
  assert (L1 : sessions r1.1.1 !! n1 = Some (entered T1 c)) by (rewrite A2; apply lookup_insert).
  assert (L2 : sessions r2.1.1 !! n2 = Some (entered T2 c)) by (rewrite B2; apply lookup_insert).
  cut (sim A r1.1.1 r2.1.1 ∧ uuc A uu r1.1.1 r2.1.1).
  { intros [? ?]. split; [done|]. split; [done|]. split; [|done].
    rewrite A3, B3. constructor.
    - split; [done|]. right. split; [done|]. by exists rid, n1, n2, p.
    - rewrite R, enter_rest_set_uuid. apply orl_refl, enter_rest_njrs. }
  apply (sim_change A uu st1 st2 _ _ c); try done.
  - intros d Nd. apply cur_of_same. rewrite A1. by rewrite lookup_insert_ne.
  - intros d Nd. apply cur_of_same. rewrite B1. by rewrite lookup_insert_ne.
  - intros d Hd. rewrite A1, B1. destruct (decide (d = c)) as [->|Nd].
    + rewrite !lookup_insert. constructor. by apply crel_entered.
    + rewrite !lookup_insert_ne by done. apply (sim_conn _ _ _ S d Hd).
  - intros d Hd. rewrite B1. rewrite lookup_insert_ne by congruence. apply (sim_only _ _ _ S d Hd).
  - intros d s q s' q' X1 X2 Nd Hd D1 D2 F1 F2 RX.
    pose proof (Hpart d s q s' q' Nd Hd D1 D2) as Hiff. rewrite A2, B2.
    destruct (decide (s = n1)) as [->|Ne].
    + assert (s' = n2) as -> by (by apply Hiff).
      assert (X1 = T1) as -> by congruence. assert (X2 = T2) as -> by congruence.
      rewrite !lookup_insert. exists (entered T1 c), (entered T2 c). split; [done|]. split; [done|].
      split; [|done]. rewrite R. rewrite entered_set_uuid. apply srel_set_uuid.
    + assert (s' ≠ n2) by (intros ->; apply Ne; by apply Hiff).
      rewrite !lookup_insert_ne by done. eauto 10.
  - intros m1 q m2 q' D1 D2. rewrite K1 in D1. rewrite K2 in D2. simplify_eq. split.
    + exists (entered T1 c), (entered T2 c). split; [done|]. split; [done|]. split; [|done].
      rewrite R. rewrite entered_set_uuid. apply srel_set_uuid.
    + done.
Qed.

(* ================= join ================= *)
(* how the two join requests name their session *)
Inductive sidrel (A : list N) (st1 st2 : state) : sidspec → sidspec → Prop :=
| sr_new : sidrel A st1 st2 SNew SNew
| sr_junk k : sidrel A st1 st2 (SJunk k) (SJunk k)
| sr_live n n' d p p' : grp A d = true → cur_of st1 d = Some (n, p) → cur_of st2 d = Some (n', p') →
    sidrel A st1 st2 (SId n) (SId n')
| sr_dead n n' : sessions st1 !! n = None → sessions st2 !! n' = None → sidrel A st1 st2 (SId n) (SId n').

(* what is known of a join response among the deliveries *)
Definition jinfo (A : list N) (uu : list (N * N)) (st1' st2' : state) (j : bool) (u1 u2 : N) : Prop :=
  j = true →
  (∀ a b, (a, b) ∈ uu → (a = u1 ↔ b = u2)) ∧
  ∃ c n1 p n2 p' S1 S2, grp A c = true ∧ cur_of st1' c = Some (n1, p) ∧ cur_of st2' c = Some (n2, p') ∧
    sessions st1' !! n1 = Some S1 ∧ sessions st2' !! n2 = Some S2 ∧ u1 = s_uuid S1 ∧ u2 = s_uuid S2.

Definition step_ok (A : list N) (uu : list (N * N)) (st1' st2' : state) (o1 o2 : list delivery) : Prop :=
  sim A st1' st2' ∧ uuc A uu st1' st2' ∧ ∃ j u1 u2, orl j u1 u2 o1 o2 ∧ jinfo A uu st1' st2' j u1 u2.

Lemma step_ok_plain A uu st1' st2' o :
  sim A st1' st2' → uuc A uu st1' st2' → njrs o → step_ok A uu st1' st2' o o.
Proof. intros S U Ho. split; [done|]. split; [done|]. exists false, 0, 0. split; [by apply orl_refl|]. by intros ?. Qed.

Lemma join_eq cfg st c cn rid sid ots hint :
  conns st !! c = Some cn → already_joined cn sid = false →
  Model.join cfg st c rid sid ots hint =
    let sl := (leave cfg st c).1 in
    let o := (leave cfg st c).2 in
    match sid with
    | SJunk _ => (sl, o ++ [(c, MError rid E_NOT_FOUND)], VOk)
    | SId n => match sessions sl !! n with
               | None => (sl, o ++ [(c, MError rid E_NOT_FOUND)], VOk)
               | Some _ => let e := enter cfg sl c rid n ots in (e.1.1, o ++ e.1.2, e.2)
               end
    | SNew => let cs := create_session hint sl in
              let e := enter cfg cs.2 c rid cs.1 ots in (e.1.1, o ++ e.1.2, e.2)
    end.
Proof.
  intros Hc Ha. unfold Model.join. rewrite Hc, Ha. destruct (leave cfg st c) as [sl o]. cbn [fst snd].
  destruct sid as [|n|k]; [| |done].
  - destruct (create_session hint sl) as [n sc]. cbn [fst snd]. by destruct (enter cfg sc c rid n ots) as [[? ?] ?].
  - destruct (sessions sl !! n); [|done]. by destruct (enter cfg sl c rid n ots) as [[? ?] ?].
Qed.

Lemma leave_cur_other cfg st c d : d ≠ c → cur_of (leave cfg st c).1 d = cur_of st d.
Proof.
  intros Nd. pose proof (leave_ctrans cfg st c d) as T. unfold at_conn in T.
  assert (T' : cv <$> conns (leave cfg st c).1 !! d = cv <$> conns st !! d).
  { rewrite T. destruct (conns st !! d); [|done]. simpl. by rewrite decide_False. }
  clear T. rename T' into T.
  unfold cur_of. destruct (conns (leave cfg st c).1 !! d) as [a|], (conns st !! d) as [b|]; simpl in *; try done.
  assert (X : cv a = cv b) by congruence. by apply cv_eq in X as (_&X&_).
Qed.
Lemma leave_conn_Some cfg st c : is_Some (conns st !! c) → is_Some (conns (leave cfg st c).1 !! c).
Proof.
  intros [cn Hc]. destruct (ctrans_fwd _ _ _ _ _ (leave_ctrans cfg st c) Hc) as (cn'&H&_). eauto.
Qed.

Lemma srel_session0 u1 u2 : srel (session0 u1) (session0 u2).
Proof. done. Qed.

Lemma already_joined_rel A st1 st2 c cn1 cn2 sd1 sd2 :
  sim A st1 st2 → inv st1 → inv st2 → grp A c = true →
  conns st1 !! c = Some cn1 → conns st2 !! c = Some cn2 → sidrel A st1 st2 sd1 sd2 →
  already_joined cn1 sd1 = already_joined cn2 sd2.
Proof.
  intros S I1 I2 Hc Hc1 Hc2 Hsd.
  pose proof (cur_of_conn _ _ _ Hc1) as K1. pose proof (cur_of_conn _ _ _ Hc2) as K2.
  unfold already_joined.
  destruct (c_cur cn1) as [[s1 p]|] eqn:C1.
  2:{ rewrite <- K2, (sim_cur_None _ _ _ c S Hc K1). done. }
  destruct (sim_cur_Some _ _ _ c s1 p S Hc K1) as [s2 K2']. rewrite K2' in K2. rewrite <- K2.
  destruct Hsd as [|k|n n' d q q' Hd D1 D2|n n' N1 N2]; try done.
  - apply bool_decide_ext. by apply (sim_part _ _ _ S c d s1 p n q s2 p n' q').
  - rewrite !bool_decide_false; [done| |].
    + intros <-. destruct (inv_cur_session _ _ _ _ I2 K2') as (SS&ES&_). congruence.
    + intros <-. destruct (inv_cur_session _ _ _ _ I1 K1) as (SS&ES&_). congruence.
Qed.

Lemma uub_same uu st1 st2 st1' st2' :
  next_uuid st1 ≤ next_uuid st1' → next_uuid st2 ≤ next_uuid st2' → uub uu st1 st2 → uub uu st1' st2'.
Proof. intros H1 H2 U a b Hab. destruct (U a b Hab). lia. Qed.

Lemma join_sim cfg A uu st1 st2 c rid sd1 sd2 ots hint :
  sim A st1 st2 → uuc A uu st1 st2 → uub uu st1 st2 → inv st1 → inv st2 → nowrap st1 → nowrap st2 →
  grp A c = true → is_Some (conns st1 !! c) → sidrel A st1 st2 sd1 sd2 →
  let r1 := Model.join cfg st1 c rid sd1 ots hint in
  let r2 := Model.join cfg st2 c rid sd2 ots hint in
  r1.2 = r2.2 ∧ step_ok A uu r1.1.1 r2.1.1 r1.1.2 r2.1.2.
Proof.
  intros S U B I1 I2 W1 W2 Hc [cn1 Hc1] Hsd r1 r2.
  pose proof (sim_conn _ _ _ S c Hc) as X. rewrite Hc1 in X.
  inversion X as [? cn2 CR Hx Hc2|]; subst. symmetry in Hc2. clear X.
  pose proof (already_joined_rel A st1 st2 c cn1 cn2 sd1 sd2 S I1 I2 Hc Hc1 Hc2 Hsd) as Haj.
  pose proof (cur_of_conn _ _ _ Hc1) as K1. pose proof (cur_of_conn _ _ _ Hc2) as K2.
  destruct (already_joined cn1 sd1) eqn:Ha1.
  - (* still joined *)
    symmetry in Haj. unfold r1, r2, Model.join. rewrite Hc1, Hc2, Ha1, Haj. cbn [fst snd]. split; [done|].
    unfold already_joined in Ha1. destruct (c_cur cn1) as [[s1 p]|] eqn:C1; [|done].
    destruct (sim_cur_Some _ _ _ c s1 p S Hc K1) as [s2 K2']. rewrite K2' in K2. rewrite <- K2.
    destruct (sim_sess _ _ _ S c s1 p s2 p Hc K1 K2') as (S1&S2&E1&E2&R). rewrite E1, E2.
    rewrite R, module_join_msgs_set_uuid. apply step_ok_plain; [done|done|].
    constructor; [done|apply njrs_module_join].
  - symmetry in Haj. unfold r1, r2.
    rewrite (join_eq cfg st1 c cn1 rid sd1 ots hint Hc1 Ha1), (join_eq cfg st2 c cn2 rid sd2 ots hint Hc2 Haj).
    cbv zeta.
    destruct (leave_sim cfg A uu st1 st2 c S U I1 I2 Hc) as (SL&UL&EO).
    pose proof (inv_leave cfg st1 c I1) as J1. pose proof (inv_leave cfg st2 c I2) as J2.
    pose proof (leave_nowrap cfg st1 c I1 W1) as V1. pose proof (leave_nowrap cfg st2 c I2 W2) as V2.
    pose proof (leave_conn_Some cfg st1 c ltac:(eauto)) as HcL.
    pose proof (plains_njr _ (plains_leave cfg st1 c)) as Po.
    assert (BL : uub uu (leave cfg st1 c).1 (leave cfg st2 c).1).
    { eapply uub_same; [| |exact B]; by rewrite leave_next_uuid. }
    rewrite <- EO.
    set (sl1 := (leave cfg st1 c).1) in *. set (sl2 := (leave cfg st2 c).1) in *. set (o := (leave cfg st1 c).2) in *.
    assert (Hnf : step_ok A uu sl1 sl2 (o ++ [(c, MError rid E_NOT_FOUND)]) (o ++ [(c, MError rid E_NOT_FOUND)])).
    { apply step_ok_plain; [done|done|]. apply njrs_app; [done|]. by repeat constructor. }
    assert (Hent : ∀ st1' st2' n1 n2 T1 T2, sim A st1' st2' → uuc A uu st1' st2' → is_Some (conns st1' !! c) →
      sessions st1' !! n1 = Some T1 → sessions st2' !! n2 = Some T2 → srel T1 T2 →
      (∀ a b, (a, b) ∈ uu → (a = s_uuid T1 ↔ b = s_uuid T2)) →
      (∀ d s q s' q', d ≠ c → grp A d = true → cur_of st1' d = Some (s, q) → cur_of st2' d = Some (s', q') →
         (s = n1 ↔ s' = n2)) →
      let e1 := enter cfg st1' c rid n1 ots in let e2 := enter cfg st2' c rid n2 ots in
      e1.2 = e2.2 ∧ step_ok A uu e1.1.1 e2.1.1 (o ++ e1.1.2) (o ++ e2.1.2)).
    { intros st1' st2' n1 n2 T1 T2 S' U' Hc' E1 E2 R Hok Hpart e1 e2.
      destruct (enter_sim cfg A uu st1' st2' c rid n1 n2 ots T1 T2 S' U' Hc Hc' E1 E2 R Hok Hpart)
        as (Q1&Q2&Q3&Q4&Q5&Q6&Q7&Q8&Q9).
      fold e1 in Q1, Q2, Q3, Q4, Q6, Q8. fold e2 in Q1, Q2, Q3, Q5, Q7, Q9.
      split; [by rewrite Q4, Q5|]. split; [done|]. split; [done|].
      exists true, (s_uuid T1), (s_uuid T2). split; [apply orl_app; [by apply orl_refl|done]|].
      intros _. split; [done|].
      exists c, n1, (u32_succ (s_pgen T1)), n2, (u32_succ (s_pgen T1)), (entered T1 c), (entered T2 c). done. }
    destruct Hsd as [|k|n n' d q q' Hd D1 D2|n n' N1 N2].
    + (* a new session *)
      destruct (create_session hint sl1) as [n1 sc1] eqn:Hcr1. destruct (create_session hint sl2) as [n2 sc2] eqn:Hcr2.
      cbn [fst snd].
      destruct (create_session_char _ _ _ _ Hcr1) as (G1&G2&G3). destruct (create_session_char _ _ _ _ Hcr2) as (H1&H2&H3).
      destruct (create_session_proj _ _ _ _ J1 V1 Hcr1) as (F1&_). destruct (create_session_proj _ _ _ _ J2 V2 Hcr2) as (F2&_).
      assert (N1 : sessions sl1 !! n1 = None) by (unfold parts_of in F1; by destruct (sessions sl1 !! n1)).
      assert (N2 : sessions sl2 !! n2 = None) by (unfold parts_of in F2; by destruct (sessions sl2 !! n2)).
      assert (Cc1 : ∀ d, cur_of sc1 d = cur_of sl1 d) by (intros d; apply cur_of_same; by rewrite G1).
      assert (Cc2 : ∀ d, cur_of sc2 d = cur_of sl2 d) by (intros d; apply cur_of_same; by rewrite H1).
      assert (SC : sim A sc1 sc2 ∧ uuc A uu sc1 sc2).
      { apply (sim_frame A uu sl1 sl2); try done.
        - intros d Hd. rewrite G1, H1. apply (sim_conn _ _ _ SL d Hd).
        - intros d Hd. rewrite H1. apply (sim_only _ _ _ SL d Hd).
        - intros d s p s' p' X1 X2 Hd D1 D2 E1 E2 R. exists X1, X2. rewrite G2, H2.
          rewrite !lookup_insert_ne by congruence. done. }
      destruct SC as [SC UC].
      apply (Hent sc1 sc2 n1 n2 (session0 (next_uuid sl1 + 1)) (session0 (next_uuid sl2 + 1))); try done.
      * by rewrite G1.
      * rewrite G2. apply lookup_insert.
      * rewrite H2. apply lookup_insert.
      * intros a b Hab. destruct (BL a b Hab) as [Ba Bb]. simpl. split; intros ->; lia.
      * intros d s p s' p' Nd Hd D1 D2. rewrite Cc1 in D1. rewrite Cc2 in D2.
        destruct (inv_cur_session _ _ _ _ J1 D1) as (X1&EX1&_). destruct (inv_cur_session _ _ _ _ J2 D2) as (X2&EX2&_).
        split; intros ->; congruence.
    + (* junk *) done.
    + (* a session of the group *)
      assert (Nd : d ≠ c).
      { intros ->. unfold already_joined in Ha1. rewrite <- K1, D1 in Ha1. by rewrite bool_decide_true in Ha1. }
      assert (D1' : cur_of sl1 d = Some (n, q)) by (unfold sl1; by rewrite leave_cur_other).
      assert (D2' : cur_of sl2 d = Some (n', q')) by (unfold sl2; by rewrite leave_cur_other).
      destruct (sim_sess _ _ _ SL d n q n' q' Hd D1' D2') as (T1&T2&E1&E2&R). rewrite E1, E2.
      apply (Hent sl1 sl2 n n' T1 T2); try done.
      * intros a b Hab. by apply (UL a b d n q n' q' T1 T2).
      * intros e s p s' p' Ne He F1 F2. by apply (sim_part _ _ _ SL e d s p n q s' p' n' q').
    + (* no such session *)
      assert (M1 : sessions sl1 !! n = None).
      { unfold sl1. rewrite leave_frame; [done|done|]. intros p Hp.
        destruct (inv_cur_session _ _ _ _ I1 Hp) as (X&EX&_). congruence. }
      assert (M2 : sessions sl2 !! n' = None).
      { unfold sl2. rewrite leave_frame; [done|done|]. intros p Hp.
        destruct (inv_cur_session _ _ _ _ I2 Hp) as (X&EX&_). congruence. }
      rewrite M1, M2. done.
Qed.

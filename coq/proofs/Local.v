(* proofs/Local.v — what each session-local request does, as equations and characterisations of
   [sstep] on one session record.  Used by the property files C02, C04, C05, C12, C13, C16. *)
From hagall Require Import Model.
From hagall.proofs Require Import BaseLemmas Relay Inv Session.
From Coq Require Import Lia.

(* "relayed exactly once to every other member, never to the sender (connection c), to nobody else" *)
Definition exactly_once_to_others (SS : session) (p c : N) (m : msg) (l : list delivery) : Prop :=
  (∀ cq m', (cq, m') ∈ l ↔ m' = m ∧ ∃ q, s_parts SS !! q = Some cq ∧ q ≠ p) ∧
  NoDup (map fst l) ∧ c ∉ map fst l.

Lemma broadcast_exactly_once SS p c m :
  parts_injective SS → s_parts SS !! p = Some c → exactly_once_to_others SS p c m (broadcast SS p m).
Proof.
  intros Hi Hp. split; [|split].
  - intros cq m'. apply broadcast_spec.
  - by apply broadcast_recipients_NoDup.
  - by apply broadcast_not_sender.
Qed.
Lemma exactly_once_same_parts SS SS' p c m l :
  s_parts SS' = s_parts SS → exactly_once_to_others SS' p c m l → exactly_once_to_others SS p c m l.
Proof. intros E (H1&H2&H3). split; [|done]. intros cq m'. rewrite H1, E. done. Qed.
Lemma parts_injective_same SS SS' : s_parts SS' = s_parts SS → parts_injective SS → parts_injective SS'.
Proof. unfold parts_injective. intros ->. done. Qed.

Section local.
  Context (cfg : config) (c p : N) (own : gset N) (SS : session).
  Hypothesis Hinj : parts_injective SS.
  Hypothesis Hp : s_parts SS !! p = Some c.

  (* ---------- entity add ---------- *)
  Lemma entity_add_step rid persist flag po ots :
    flag_on cfg F_ENTITY_ADD_B = false →
    let eid := u32_succ (s_egen SS) in
    let e := {| e_owner := p; e_persist := persist; e_flag := flag; e_pose := default zero_pose po |} in
    ∃ S1 rel, sstep cfg c p own SS (REntityAdd rid persist flag po ots) = (S1, own ∪ {[eid]}, (c, MEntityAddResp rid eid) :: rel) ∧
      s_ents S1 = <[eid := e]> (s_ents SS) ∧ s_egen S1 = eid ∧ s_parts S1 = s_parts SS ∧
      exactly_once_to_others SS p c (MEntityAddB ots (ent_to_pb eid e)) rel.
  Proof.
    intros Hf eid e. simpl. rewrite Hf. eexists _, _. split; [reflexivity|]. simpl.
    split; [done|]. split; [done|]. split; [done|].
    eapply exactly_once_same_parts; [|apply broadcast_exactly_once]; [done|eapply parts_injective_same; [|done]; done|done].
  Qed.

  (* ---------- entity delete ---------- *)
  Lemma entity_delete_foreign rid eid ots e :
    s_ents SS !! eid = Some e → e_owner e ≠ p →
    sstep cfg c p own SS (REntityDelete rid eid ots) = (SS, own, [(c, MError rid E_UNAUTHORIZED)]).
  Proof. intros He Ho. simpl. rewrite He. apply N.eqb_neq in Ho. by rewrite Ho. Qed.
  Lemma entity_delete_unknown rid eid ots :
    s_ents SS !! eid = None →
    ∃ S1, sstep cfg c p own SS (REntityDelete rid eid ots) = (S1, own, [(c, MError rid E_NOT_FOUND)]) ∧
          s_ents S1 = s_ents SS ∧ s_parts S1 = s_parts SS ∧ s_store S1 = s_store SS.
  Proof.
    intros He. simpl. rewrite He. eexists. split; [done|]. unfold cleanup_modules. rewrite He.
    by repeat case_match.
  Qed.
  Lemma entity_delete_own rid eid ots e :
    s_ents SS !! eid = Some e → e_owner e = p → flag_on cfg F_ENTITY_DELETE_B = false →
    ∃ S1 rel, sstep cfg c p own SS (REntityDelete rid eid ots) = (S1, own ∖ {[eid]}, (c, MEntityDeleteResp rid) :: rel) ∧
      s_ents S1 = delete eid (s_ents SS) ∧ s_parts S1 = s_parts SS ∧
      st_comps (s_store S1) = filter (λ kv, snd (fst kv) ≠ eid) (st_comps (s_store SS)) ∧
      exactly_once_to_others SS p c (MEntityDeleteB ots eid) rel.
  Proof.
    intros He Ho Hf. simpl. rewrite He, Ho, N.eqb_refl, Hf. simpl. eexists _, _. split; [reflexivity|].
    unfold cleanup_modules. simpl. rewrite lookup_delete.
    split; [by repeat case_match|]. split; [by repeat case_match|]. split; [by repeat case_match|].
    eapply exactly_once_same_parts; [|apply broadcast_exactly_once]; [done|eapply parts_injective_same; [|done]; done|done].
  Qed.

  (* ---------- pose update ---------- *)
  Lemma pose_dropped eid po ots :
    (s_ents SS !! eid = None ∨ po = None ∨ ∃ e, s_ents SS !! eid = Some e ∧ e_owner e ≠ p) →
    sstep cfg c p own SS (RPose eid po ots) = (SS, own, []).
  Proof.
    intros [H|[H|(e&H&Ho)]]; simpl.
    - by rewrite H.
    - rewrite H. by destruct (s_ents SS !! eid).
    - rewrite H. apply N.eqb_neq in Ho. rewrite Ho. by destruct po.
  Qed.
  Lemma pose_accepted_step eid ps ots e :
    s_ents SS !! eid = Some e → e_owner e = p → flag_on cfg F_POSE_B = false →
    ∃ S1 rel, sstep cfg c p own SS (RPose eid (Some ps) ots) = (S1, own, rel) ∧
      s_ents S1 = <[eid := {| e_owner := e_owner e; e_persist := e_persist e; e_flag := e_flag e; e_pose := ps |}]> (s_ents SS) ∧
      s_parts S1 = s_parts SS ∧ exactly_once_to_others SS p c (MPoseB ots eid ps) rel.
  Proof.
    intros He Ho Hf. simpl. rewrite He, Ho, N.eqb_refl, Hf. simpl. eexists _, _. split; [reflexivity|].
    split; [done|]. split; [done|].
    eapply exactly_once_same_parts; [|apply broadcast_exactly_once]; [done|eapply parts_injective_same; [|done]; done|done].
  Qed.

  (* ---------- asset instance add (odal) ---------- *)
  Lemma asset_foreign rid eid aid ots e :
    cfg_odal cfg = true → aid ≠ 0 → s_ents SS !! eid = Some e → e_owner e ≠ p →
    sstep cfg c p own SS (RAssetAdd rid eid aid ots) = (SS, own, [(c, MError rid E_UNAUTHORIZED)]).
  Proof.
    intros Ho Ha He Hne. simpl. rewrite Ho. simpl. apply N.eqb_neq in Ha, Hne. by rewrite Ha, He, Hne.
  Qed.
  Lemma asset_unknown rid eid aid ots :
    cfg_odal cfg = true → aid ≠ 0 → s_ents SS !! eid = None →
    sstep cfg c p own SS (RAssetAdd rid eid aid ots) = (SS, own, [(c, MError rid E_NOT_FOUND)]).
  Proof. intros Ho Ha He. simpl. rewrite Ho. simpl. apply N.eqb_neq in Ha. by rewrite Ha, He. Qed.
  Lemma asset_own rid eid aid ots e :
    cfg_odal cfg = true → aid ≠ 0 → s_ents SS !! eid = Some e → e_owner e = p →
    let iid := u32_succ (s_agen SS) in
    let a := {| as_id := iid; as_asset := aid; as_pid := p; as_eid := eid |} in
    ∃ S1 rel, sstep cfg c p own SS (RAssetAdd rid eid aid ots) = (S1, own, (c, MAssetAddResp rid iid) :: rel) ∧
      s_assets S1 = <[eid := a]> (s_assets SS) ∧ s_agen S1 = iid ∧ s_ents S1 = s_ents SS ∧ s_parts S1 = s_parts SS ∧
      exactly_once_to_others SS p c (MAssetAddB ots a) rel.
  Proof.
    intros Ho Ha He Hown iid a. simpl. rewrite Ho. simpl. apply N.eqb_neq in Ha. rewrite Ha, He, Hown, N.eqb_refl. simpl.
    eexists _, _. split; [reflexivity|]. repeat (split; [done|]).
    eapply exactly_once_same_parts; [|apply broadcast_exactly_once]; [done|eapply parts_injective_same; [|done]; done|done].
  Qed.

  (* ---------- entity action (vikja) ---------- *)
  Definition action_valid (a : action) : Prop := a_name a ≠ 0 ∧ is_Some (a_ts a).
  Definition action_older (a old : action) : Prop :=
    ∃ x y, a_ts a = Some x ∧ a_ts old = Some y ∧ (x < y)%Z.
  Lemma ts_before_spec a old : ts_before (a_ts a) (a_ts old) = true ↔ action_older a old.
  Proof.
    unfold ts_before, action_older. destruct (a_ts a) as [x|], (a_ts old) as [y|]; split; try done.
    - intros H. apply Z.ltb_lt in H. by exists x, y.
    - intros (x'&y'&[= <-]&[= <-]&H). by apply Z.ltb_lt.
    - intros (?&?&?&?&_); done.
    - intros (?&?&?&?&_); done.
    - intros (?&?&?&?&_); done.
  Qed.
  Lemma action_refused rid ao ots :
    cfg_vikja cfg = true →
    (ao = None ∨ ∃ a, ao = Some a ∧
       (¬ action_valid a ∨ s_ents SS !! a_eid a = None ∨
        ∃ old, s_actions SS !! (a_eid a, a_name a) = Some old ∧ action_older a old)) →
    sstep cfg c p own SS (RAction rid ao ots) = (SS, own, [(c, MError rid E_BAD_REQUEST)]).
  Proof.
    intros Hv H. simpl. rewrite Hv. simpl. destruct H as [->|(a&->&H)]; [done|].
    destruct (a_name a =? 0) eqn:En; [done|]. destruct (a_ts a) as [t|] eqn:Et; simpl; [|done].
    destruct H as [H|[H|(old&H1&H2)]].
    - destruct H. split; [by apply N.eqb_neq|by rewrite Et].
    - by rewrite H.
    - destruct (s_ents SS !! a_eid a); [|done]. rewrite H1. apply ts_before_spec in H2. rewrite Et in H2. simpl in *. by rewrite H2.
  Qed.
  Lemma action_accepted rid a ots :
    cfg_vikja cfg = true → action_valid a → is_Some (s_ents SS !! a_eid a) →
    (∀ old, s_actions SS !! (a_eid a, a_name a) = Some old → ¬ action_older a old) →
    ∃ S1 rel, sstep cfg c p own SS (RAction rid (Some a) ots) = (S1, own, (c, MActionResp rid) :: rel) ∧
      s_actions S1 = <[(a_eid a, a_name a) := a]> (s_actions SS) ∧ s_ents S1 = s_ents SS ∧ s_parts S1 = s_parts SS ∧
      exactly_once_to_others SS p c (MActionB ots a) rel.
  Proof.
    intros Hv [Hn [t Ht]] [e He] Hold. simpl. rewrite Hv. simpl. apply N.eqb_neq in Hn. rewrite Hn, Ht, He. simpl.
    destruct (s_actions SS !! (a_eid a, a_name a)) as [old|] eqn:Eo.
    - destruct (ts_before (Some t) (a_ts old)) eqn:Eb.
      + exfalso. apply (Hold old eq_refl). apply ts_before_spec. by rewrite Ht.
      + unfold ts_before in Eb. rewrite Eb.
        eexists _, _. split; [reflexivity|]. repeat (split; [done|]).
        eapply exactly_once_same_parts; [|apply broadcast_exactly_once]; [done|eapply parts_injective_same; [|done]; done|done].
    - eexists _, _. split; [reflexivity|]. repeat (split; [done|]).
      eapply exactly_once_same_parts; [|apply broadcast_exactly_once]; [done|eapply parts_injective_same; [|done]; done|done].
  Qed.

  (* ---------- components ---------- *)
  Definition comp_add_outcome (tid eid : N) : option N :=   (* None = accepted *)
    if (tid =? 0) || (eid =? 0) then Some E_BAD_REQUEST
    else match s_ents SS !! eid with
         | None => Some E_NOT_FOUND
         | Some _ => match st_names (s_store SS) !! tid with
                     | None => Some E_NOT_FOUND
                     | Some _ => match st_comps (s_store SS) !! (tid, eid) with
                                 | Some _ => Some E_CONFLICT | None => None end end end.
  Lemma comp_add_refused rid tid eid data ots code :
    comp_add_outcome tid eid = Some code →
    sstep cfg c p own SS (RCompAdd rid tid eid data ots) = (SS, own, [(c, MError rid code)]).
  Proof. unfold comp_add_outcome. simpl. intros H. repeat case_match; by simplify_eq. Qed.
  Lemma comp_add_accepted rid tid eid data ots :
    comp_add_outcome tid eid = None →
    ∃ S1 rel, sstep cfg c p own SS (RCompAdd rid tid eid data ots) = (S1, own, (c, MCompAddResp rid) :: rel) ∧
      st_comps (s_store S1) = <[(tid, eid) := data]> (st_comps (s_store SS)) ∧
      st_names (s_store S1) = st_names (s_store SS) ∧ st_subs (s_store S1) = st_subs (s_store SS) ∧
      s_ents S1 = s_ents SS ∧ s_parts S1 = s_parts SS ∧
      (if flag_on cfg F_COMP_ADD_B then rel = []
       else if decide (subs_of (s_store SS) tid = ∅) then rel = []
       else exactly_once_to_others SS p c (MCompAddB ots {| cp_tid := tid; cp_eid := eid; cp_data := data |}) rel).
  Proof.
    unfold comp_add_outcome. simpl. intros H. repeat case_match; simplify_eq.
    all: eexists _, _; split; [reflexivity|]; repeat (split; [done|]); try done.
    eapply exactly_once_same_parts; [|apply broadcast_exactly_once]; [done|eapply parts_injective_same; [|done]; done|done].
  Qed.

  Definition comp_delete_outcome (tid eid : N) : option N :=
    if (tid =? 0) || (eid =? 0) then Some E_BAD_REQUEST
    else match s_ents SS !! eid with
         | None => Some E_NOT_FOUND
         | Some _ => match st_comps (s_store SS) !! (tid, eid) with
                     | None => Some E_NOT_FOUND | Some _ => None end end.
  Lemma comp_delete_refused rid tid eid ots code :
    comp_delete_outcome tid eid = Some code →
    sstep cfg c p own SS (RCompDelete rid tid eid ots) = (SS, own, [(c, MError rid code)]).
  Proof. unfold comp_delete_outcome. simpl. intros H. repeat case_match; by simplify_eq. Qed.
  Lemma comp_delete_accepted rid tid eid ots :
    comp_delete_outcome tid eid = None →
    ∃ S1 rel, sstep cfg c p own SS (RCompDelete rid tid eid ots) = (S1, own, rel ++ [(c, MCompDeleteResp rid)]) ∧
      st_comps (s_store S1) = delete (tid, eid) (st_comps (s_store SS)) ∧
      st_names (s_store S1) = st_names (s_store SS) ∧ st_subs (s_store S1) = st_subs (s_store SS) ∧
      s_ents S1 = s_ents SS ∧ s_parts S1 = s_parts SS ∧
      (if flag_on cfg F_COMP_DELETE_B then rel = []
       else if decide (subs_of (s_store SS) tid = ∅) then rel = []
       else exactly_once_to_others SS p c (MCompDeleteB ots tid eid) rel).
  Proof.
    unfold comp_delete_outcome. simpl. intros H. repeat case_match; simplify_eq.
    all: eexists _, _; split; [reflexivity|]; repeat (split; [done|]); try done.
    eapply exactly_once_same_parts; [|apply broadcast_exactly_once]; [done|eapply parts_injective_same; [|done]; done|done].
  Qed.

  (* an update of a component that does not exist (or of a missing entity, or with a zero id)
     changes nothing and is relayed to no one *)
  Lemma comp_update_absent tid eid data ots :
    (tid = 0 ∨ eid = 0 ∨ s_ents SS !! eid = None ∨ st_comps (s_store SS) !! (tid, eid) = None) →
    sstep cfg c p own SS (RCompUpdate tid eid data ots) = (SS, own, []).
  Proof.
    intros H. simpl. destruct (tid =? 0) eqn:Et; [done|]. destruct (eid =? 0) eqn:Ee; [done|]. simpl.
    apply N.eqb_neq in Et, Ee. destruct H as [H|[H|[H|H]]]; try done.
    - by rewrite H.
    - rewrite H. by destruct (s_ents SS !! eid).
  Qed.
  (* an update of an existing component replaces its data and reaches exactly the subscribers of the
     type that are members, other than the sender *)
  Lemma comp_update_present tid eid data ots :
    tid ≠ 0 → eid ≠ 0 → is_Some (s_ents SS !! eid) → is_Some (st_comps (s_store SS) !! (tid, eid)) →
    flag_on cfg F_COMP_UPDATE_B = false →
    ∃ S1 rel, sstep cfg c p own SS (RCompUpdate tid eid data ots) = (S1, own, rel) ∧
      st_comps (s_store S1) = <[(tid, eid) := data]> (st_comps (s_store SS)) ∧
      st_subs (s_store S1) = st_subs (s_store SS) ∧ s_ents S1 = s_ents SS ∧ s_parts S1 = s_parts SS ∧
      (∀ cq m, (cq, m) ∈ rel ↔ m = MCompUpdateB ots {| cp_tid := tid; cp_eid := eid; cp_data := data |} ∧
                 ∃ q, q ∈ subs_of (s_store SS) tid ∧ q ≠ p ∧ s_parts SS !! q = Some cq) ∧
      NoDup (map fst rel) ∧ c ∉ map fst rel.
  Proof.
    intros Ht Hei [e He] [d Hd] Hf. simpl. apply N.eqb_neq in Ht, Hei. rewrite Ht, Hei, He, Hd, Hf. simpl.
    eexists _, _. split; [reflexivity|]. repeat (split; [done|]).
    destruct (decide (subs_of (s_store SS) tid = ∅)) as [E|E].
    - split; [|split; [constructor|inversion 1]]. intros cq m. split; [inversion 1|]. intros (_&q&Hq&_). rewrite E in Hq. set_solver.
    - split; [|split].
      + intros cq m. rewrite broadcast_to_spec. simpl. setoid_rewrite elem_of_set_to_sorted. done.
      + apply broadcast_to_recipients_NoDup. done.
      + apply broadcast_to_not_sender; done.
  Qed.

  (* listing a type returns exactly its current components *)
  Lemma comp_list_exact rid tid :
    tid ≠ 0 →
    ∃ l, sstep cfg c p own SS (RCompList rid tid) = (SS, own, [(c, MCompListResp rid l)]) ∧
      ∀ x, x ∈ l ↔ cp_tid x = tid ∧ st_comps (s_store SS) !! (cp_tid x, cp_eid x) = Some (cp_data x).
  Proof.
    intros Ht. simpl. apply N.eqb_neq in Ht. rewrite Ht. eexists. split; [reflexivity|].
    intros x. unfold store_list, comp_list. rewrite elem_of_list_fmap. split.
    - intros ([[t e] d]&->&H). simpl. apply elem_of_map_to_list in H. apply map_filter_lookup_Some in H as [H1 H2]. done.
    - intros [H1 H2]. exists ((cp_tid x, cp_eid x), cp_data x). split; [by destruct x|].
      apply elem_of_map_to_list. apply map_filter_lookup_Some. done.
  Qed.

  (* ---------- subscriptions ---------- *)
  Lemma subscribe_unregistered rid tid :
    tid ≠ 0 → st_names (s_store SS) !! tid = None →
    sstep cfg c p own SS (RSubscribe rid tid) = (SS, own, [(c, MError rid E_NOT_FOUND)]).
  Proof. intros Ht Hn. simpl. apply N.eqb_neq in Ht. by rewrite Ht, Hn. Qed.
  Lemma subscribe_registered rid tid :
    tid ≠ 0 → is_Some (st_names (s_store SS) !! tid) →
    ∃ S1, sstep cfg c p own SS (RSubscribe rid tid) = (S1, own, [(c, MSubResp rid)]) ∧
      subs_of (s_store S1) tid = subs_of (s_store SS) tid ∪ {[p]} ∧
      (∀ t, t ≠ tid → subs_of (s_store S1) t = subs_of (s_store SS) t) ∧
      st_comps (s_store S1) = st_comps (s_store SS) ∧ s_parts S1 = s_parts SS.
  Proof.
    intros Ht [n Hn]. simpl. apply N.eqb_neq in Ht. rewrite Ht, Hn. eexists. split; [reflexivity|].
    unfold subs_of. simpl. split; [by rewrite lookup_insert|]. split; [|done].
    intros t Hne. by rewrite lookup_insert_ne.
  Qed.
  Lemma unsubscribe_step rid tid :
    tid ≠ 0 →
    ∃ S1, sstep cfg c p own SS (RUnsubscribe rid tid) = (S1, own, [(c, MUnsubResp rid)]) ∧
      subs_of (s_store S1) tid = subs_of (s_store SS) tid ∖ {[p]} ∧
      (∀ t, t ≠ tid → subs_of (s_store S1) t = subs_of (s_store SS) t) ∧
      st_comps (s_store S1) = st_comps (s_store SS) ∧ s_parts S1 = s_parts SS.
  Proof.
    intros Ht. simpl. apply N.eqb_neq in Ht. rewrite Ht. eexists. split; [reflexivity|].
    unfold subs_of. simpl. destruct (st_subs (s_store SS) !! tid) as [s|] eqn:E; simpl.
    - split; [by rewrite lookup_insert|]. split; [|done]. intros t Hne. by rewrite lookup_insert_ne.
    - rewrite E. simpl. split; [set_solver|]. done.
  Qed.

  (* ---------- component type registry ---------- *)
  Lemma type_add_known rid name tid :
    name ≠ 0 → st_ids (s_store SS) !! name = Some tid →
    sstep cfg c p own SS (RTypeAdd rid name) = (set_store (λ _, s_store SS) SS, own, [(c, MTypeAddResp rid tid)]).
  Proof. intros Hn H. simpl. apply N.eqb_neq in Hn. rewrite Hn. unfold store_add_type. by rewrite H. Qed.
  Lemma type_add_new rid name :
    name ≠ 0 → st_ids (s_store SS) !! name = None →
    let tid := u32_succ (st_gen (s_store SS)) in
    ∃ S1, sstep cfg c p own SS (RTypeAdd rid name) = (S1, own, [(c, MTypeAddResp rid tid)]) ∧
      st_names (s_store S1) = <[tid := name]> (st_names (s_store SS)) ∧
      st_ids (s_store S1) = <[name := tid]> (st_ids (s_store SS)) ∧ st_gen (s_store S1) = tid ∧
      st_comps (s_store S1) = st_comps (s_store SS).
  Proof.
    intros Hn H tid. simpl. apply N.eqb_neq in Hn. rewrite Hn. unfold store_add_type. rewrite H.
    eexists. split; [reflexivity|]. done.
  Qed.
End local.

(* removing an entity removes every component of it and nothing else *)
Lemma store_delete_entity_lookup eid s t e :
  st_comps (store_delete_entity eid s) !! (t, e) = if decide (e = eid) then None else st_comps s !! (t, e).
Proof.
  unfold store_delete_entity. simpl. destruct (decide (e = eid)) as [->|Hne].
  - apply map_filter_lookup_None. right. intros d _ H. by apply H.
  - destruct (st_comps s !! (t, e)) as [d|] eqn:E.
    + apply map_filter_lookup_Some. done.
    + apply map_filter_lookup_None. by left.
Qed.

(* a refused session-local request tells nobody but the requester *)
Lemma sstep_error_only cfg c p own SS r rid code :
  parts_injective SS → s_parts SS !! p = Some c → session_local r = true →
  (c, MError rid code) ∈ (sstep cfg c p own SS r).2 →
  (sstep cfg c p own SS r).2 = [(c, MError rid code)] ∧ s_parts (sstep cfg c p own SS r).1.1 = s_parts SS.
Proof.
  intros Hi Hp Hl. split; [|apply sstep_parts].
  destruct r; try discriminate Hl; simpl in *.
  all: repeat case_match; simpl in *; simplify_eq.
  all: repeat match goal with
       | H : _ ∈ [] |- _ => inversion H
       | H : _ ∈ [_] |- _ => apply elem_of_list_singleton in H; simplify_eq
       | H : _ ∈ _ :: _ |- _ => apply elem_of_cons in H as [H|H]; simplify_eq
       | H : _ ∈ _ ++ _ |- _ => apply elem_of_app in H as [H|H]
       | H : _ ∈ broadcast _ _ _ |- _ => apply broadcast_spec in H as [? _]; simplify_eq
       | H : _ ∈ broadcast_to _ _ _ _ |- _ => apply broadcast_to_spec in H as [? _]; simplify_eq
       end; try done.
Qed.

(* proofs/RefMod2.v — first consumer of the module refinement: on the model's own traces the predicate P_C16
   ("actions keep the latest timestamp; one asset per entity", Preds.v) is silent, all clauses:
     1601 / 1604 (module not loaded: nothing happens), 1602 (outcome table of an entity action against the spec:
     malformed / unknown entity / older than the stored one -> BAD_REQUEST, otherwise accepted),
     1603 (accepted => relayed exactly to the other members, refused => to nobody),
     1605 (outcome table of AssetAdd), 1606 (the instance id handed out was never issued in this incarnation),
     1614-1618 (the VIKJA_STATE / ODAL_STATE handed to a joiner are the spec's tables), 1626 / 1627 (hook
     snapshots), 1699 (no harness anomaly).
   Also here: the canonical lists [spec_acts] / [spec_assets] computed from the model state, who a broadcast
   reaches in terms of the spec's membership table, the shape of a join's module answers. *)
From stdpp Require Import relations sorting.
From hagall Require Import Model Spec Obs Preds.
From hagall.proofs Require Import BaseLemmas Relay Inv Session Local Trans WF Mono Reach PC02 PC06 PC07 Own
  Refine Refine2 Refine3 Refine4 Refine5 RefComp RefComp2 RefComp3 RefMod.
From Coq Require Import Lia.

(* ================= the encodings used as sort keys are injective ================= *)
Lemma eAction_inj x y : eAction x = eAction y → x = y.
Proof.
  destruct x as [e n [t|] d], y as [e' n' [t'|] d']; unfold eAction; simpl; intros H; simplify_eq;
    repeat match goal with H : zn _ = zn _ |- _ => apply zn_inj in H end; by subst.
Qed.
Lemma eAsset_inj x y : eAsset x = eAsset y → x = y.
Proof.
  destruct x, y; unfold eAsset; simpl; intros H; simplify_eq;
    repeat match goal with H : zn _ = zn _ |- _ => apply zn_inj in H end; by subst.
Qed.
Lemma ePose_inj (p q : pose) : ePose p = ePose q → p = q.
Proof.
  unfold ePose. revert q. induction p as [|a p IH]; intros [|b q]; simpl; try done.
  intros [= H1%zn_inj H2]. f_equal; [done|by apply IH].
Qed.

(* ================= the canonical lists of the module tables ================= *)
Definition act_items (sp : spec) (sid : N) : list action :=
  omap (λ kv : (N*N*N) * action, if fst (fst (fst kv)) =? sid then Some (snd kv) else None) (map_to_list (sp_acts sp)).
Definition asset_items (sp : spec) (sid : N) : list asset :=
  omap (λ kv : (N*N) * asset, if fst (fst kv) =? sid then Some (snd kv) else None) (map_to_list (sp_assets sp)).
Lemma spec_acts_items sp sid : spec_acts sp sid = sort_by eAction (act_items sp sid).
Proof. reflexivity. Qed.
Lemma spec_assets_items sp sid : spec_assets sp sid = sort_by eAsset (asset_items sp sid).
Proof. reflexivity. Qed.

Lemma elem_of_act_items sp sid a : a ∈ act_items sp sid ↔ ∃ e n, sp_acts sp !! (sid, e, n) = Some a.
Proof.
  unfold act_items. rewrite elem_of_list_omap. split.
  - intros ([[[s e] n] a']&Hin&Hf). simpl in Hf. apply elem_of_map_to_list in Hin.
    destruct (N.eqb_spec s sid) as [->|]; [|done]. simplify_eq. eauto.
  - intros (e&n&H). exists ((sid, e, n), a). split; [by apply elem_of_map_to_list|]. simpl. by rewrite N.eqb_refl.
Qed.
Lemma elem_of_asset_items sp sid a : a ∈ asset_items sp sid ↔ ∃ e, sp_assets sp !! (sid, e) = Some a.
Proof.
  unfold asset_items. rewrite elem_of_list_omap. split.
  - intros ([[s e] a']&Hin&Hf). simpl in Hf. apply elem_of_map_to_list in Hin.
    destruct (N.eqb_spec s sid) as [->|]; [|done]. simplify_eq. eauto.
  - intros (e&H). exists ((sid, e), a). split; [by apply elem_of_map_to_list|]. simpl. by rewrite N.eqb_refl.
Qed.

Lemma elem_of_map_snd `{Countable K} {A} (m : gmap K A) a : a ∈ map snd (map_to_list m) ↔ ∃ k, m !! k = Some a.
Proof.
  rewrite elem_of_list_fmap. split.
  - intros ([k a']&->&Hin). apply elem_of_map_to_list in Hin. eauto.
  - intros (k&Hk). exists (k, a). split; [done|]. by apply elem_of_map_to_list.
Qed.
(* the values of a map whose values determine their keys are pairwise distinct *)
Lemma NoDup_map_snd `{Countable K} {A} (m : gmap K A) (key : A → K) :
  (∀ k a, m !! k = Some a → key a = k) → NoDup (map snd (map_to_list m)).
Proof.
  intros Hk. apply NoDup_fmap_2_strong; [|apply NoDup_map_to_list].
  intros [k1 a1] [k2 a2] H1%elem_of_map_to_list H2%elem_of_map_to_list. simpl. intros <-.
  apply Hk in H1, H2. congruence.
Qed.

Section tables.
  Context (cfg : config) (k : N) (sp : spec) (sid : N) (SS : session).
  Hypothesis W : wf cfg k SS.
  Hypothesis Ea : ∀ e n, sp_acts sp !! (sid, e, n) = s_actions SS !! (e, n).
  Hypothesis Eb : ∀ e, sp_assets sp !! (sid, e) = s_assets SS !! e.

  Lemma NoDup_act_items : NoDup (act_items sp sid).
  Proof.
    unfold act_items. apply NoDup_omap_inj; [apply NoDup_map_to_list|].
    intros [[[s1 e1] n1] a1] [[[s2 e2] n2] a2] b H1%elem_of_map_to_list H2%elem_of_map_to_list. simpl.
    destruct (N.eqb_spec s1 sid) as [->|]; [|done]. destruct (N.eqb_spec s2 sid) as [->|]; [|done].
    intros [= ->] [= ->]. rewrite Ea in H1, H2.
    destruct (wf_acts _ _ _ W _ _ _ H1) as (X1&X2&_). destruct (wf_acts _ _ _ W _ _ _ H2) as (Y1&Y2&_). congruence.
  Qed.
  Lemma NoDup_actions : NoDup (map snd (map_to_list (s_actions SS))).
  Proof.
    apply (NoDup_map_snd _ (λ a, (a_eid a, a_name a))). intros [e n] a H.
    destruct (wf_acts _ _ _ W _ _ _ H) as (X1&X2&_). by rewrite X1, X2.
  Qed.
  Lemma spec_acts_session : spec_acts sp sid = sort_by eAction (map snd (map_to_list (s_actions SS))).
  Proof.
    rewrite spec_acts_items. apply (sort_by_perm_eq _ eAction_inj).
    apply NoDup_Permutation; [apply NoDup_act_items|apply NoDup_actions|].
    intros a. rewrite elem_of_act_items, elem_of_map_snd. split.
    - intros (e&n&H). exists (e, n). by rewrite <- Ea.
    - intros ([e n]&H). exists e, n. by rewrite Ea.
  Qed.

  Lemma NoDup_asset_items : NoDup (asset_items sp sid).
  Proof.
    unfold asset_items. apply NoDup_omap_inj; [apply NoDup_map_to_list|].
    intros [[s1 e1] a1] [[s2 e2] a2] b H1%elem_of_map_to_list H2%elem_of_map_to_list. simpl.
    destruct (N.eqb_spec s1 sid) as [->|]; [|done]. destruct (N.eqb_spec s2 sid) as [->|]; [|done].
    intros [= ->] [= ->]. rewrite Eb in H1, H2.
    destruct (wf_assets _ _ _ W _ _ H1) as (X1&_). destruct (wf_assets _ _ _ W _ _ H2) as (Y1&_). congruence.
  Qed.
  Lemma NoDup_assets : NoDup (map snd (map_to_list (s_assets SS))).
  Proof. apply (NoDup_map_snd _ as_eid). intros e a H. by destruct (wf_assets _ _ _ W _ _ H) as (X1&_). Qed.
  Lemma spec_assets_session : spec_assets sp sid = sort_by eAsset (map snd (map_to_list (s_assets SS))).
  Proof.
    rewrite spec_assets_items. apply (sort_by_perm_eq _ eAsset_inj).
    apply NoDup_Permutation; [apply NoDup_asset_items|apply NoDup_assets|].
    intros a. rewrite elem_of_asset_items, elem_of_map_snd. split.
    - intros (e&H). exists e. by rewrite <- Eb.
    - intros (e&H). exists e. by rewrite Eb.
  Qed.
  (* one asset per entity, asset-instance ids pairwise distinct *)
  Lemma NoDup_asset_eids : NoDup (map as_eid (map snd (map_to_list (s_assets SS)))).
  Proof.
    replace (map as_eid (map snd (map_to_list (s_assets SS)))) with (map fst (map_to_list (s_assets SS)));
      [apply NoDup_fst_map_to_list|].
    rewrite map_map. apply map_ext_in. intros [e a] Hin%elem_of_list_In%elem_of_map_to_list. simpl.
    by destruct (wf_assets _ _ _ W _ _ Hin) as (X1&_).
  Qed.
  Lemma NoDup_asset_iids : NoDup (map as_id (map snd (map_to_list (s_assets SS)))).
  Proof.
    rewrite map_map. apply NoDup_fmap_2_strong; [|apply NoDup_map_to_list].
    intros [e1 a1] [e2 a2] H1%elem_of_map_to_list H2%elem_of_map_to_list. simpl. intros Hid.
    pose proof (wf_asset_inj _ _ _ W _ _ _ _ H1 H2 Hid) as ->. congruence.
  Qed.
End tables.

Lemma spec_acts_eq cfg k sp st sid SS :
  refines_mod sp st → sessions st !! sid = Some SS → wf cfg k SS →
  spec_acts sp sid = sort_by eAction (map snd (map_to_list (s_actions SS))).
Proof.
  intros D HS W. apply (spec_acts_session cfg k); [done|]. intros e n. rewrite (rd_acts _ _ D). unfold acts_at. by rewrite HS.
Qed.
Lemma spec_assets_eq cfg k sp st sid SS :
  refines_mod sp st → sessions st !! sid = Some SS → wf cfg k SS →
  spec_assets sp sid = sort_by eAsset (map snd (map_to_list (s_assets SS))).
Proof.
  intros D HS W. apply (spec_assets_session cfg k); [done|]. intros e. rewrite (rd_assets _ _ D). unfold assets_at. by rewrite HS.
Qed.

(* ================= who a broadcast reaches, in terms of the spec's membership table ================= *)
Lemma NoDup_sp_members sp sid : NoDup (sp_members sp sid).
Proof. rewrite sp_members_eq. unfold sort_by. apply NoDup_isort, NoDup_mem_pairs. Qed.
Lemma elem_of_sp_others sp sid p q cq : (q, cq) ∈ sp_others sp sid p ↔ sp_mem sp !! cq = Some (sid, q) ∧ q ≠ p.
Proof.
  unfold sp_others. rewrite elem_of_List_filter, elem_of_sp_members. simpl.
  destruct (N.eqb_spec q p); simpl; naive_solver.
Qed.
Lemma NoDup_sp_others sp sid p : NoDup (sp_others sp sid p).
Proof. apply NoDup_List_filter, NoDup_sp_members. Qed.

Lemma NoDup_others SS p : NoDup (others SS p).
Proof. apply (NoDup_fmap_1 fst), NoDup_others_fst. Qed.

Lemma sp_others_perm sp st sid p SS :
  inv st → (∀ c, sp_mem sp !! c = cur_of st c) → sessions st !! sid = Some SS →
  sp_others sp sid p ≡ₚ others SS p.
Proof.
  intros I Hm HS. assert (Hps : parts_of st sid = Some (s_parts SS)) by (unfold parts_of; by rewrite HS).
  apply NoDup_Permutation; [apply NoDup_sp_others|apply NoDup_others|].
  intros [q cq]. rewrite elem_of_sp_others, elem_of_others, Hm. by rewrite (inv_parts _ I sid _ q cq Hps).
Qed.

Lemma lines_perm l1 l2 : l1 ≡ₚ l2 → lines l1 = lines l2.
Proof. intros H. unfold lines. apply sort_lines_perm. by apply fmap_Permutation. Qed.
Lemma same_lines_perm l1 l2 : l1 ≡ₚ l2 → same_lines l1 l2 = true.
Proof. intros H. unfold same_lines. apply bool_decide_eq_true. by apply lines_perm. Qed.

Lemma to_all_broadcast sp st sid p SS S1 m :
  inv st → (∀ c, sp_mem sp !! c = cur_of st c) → sessions st !! sid = Some SS → s_parts S1 = s_parts SS →
  broadcast S1 p m ≡ₚ to_all (sp_others sp sid p) m.
Proof.
  intros I Hm HS Hp. unfold broadcast, to_all. rewrite (others_parts_eq S1 SS p Hp).
  apply fmap_Permutation. symmetry. by eapply sp_others_perm.
Qed.

(* ================= selecting a class of messages ================= *)
Lemma sel_app f l1 l2 : sel f (l1 ++ l2) = sel f l1 ++ sel f l2.
Proof. unfold sel. apply List.filter_app. Qed.
Lemma sel_cons_true f c m l : f m = true → sel f ((c, m) :: l) = (c, m) :: sel f l.
Proof. intros H. unfold sel. simpl. by rewrite H. Qed.
Lemma sel_cons_false f c m l : f m = false → sel f ((c, m) :: l) = sel f l.
Proof. intros H. unfold sel. simpl. by rewrite H. Qed.
Lemma sel_all f l : Forall (λ d : delivery, f (snd d) = true) l → sel f l = l.
Proof. intros H. unfold sel. by apply List_filter_all. Qed.
Lemma sel_none f l : Forall (λ d : delivery, f (snd d) = false) l → sel f l = [].
Proof. induction 1 as [|[c m] l Hm _ IH]; [done|]. simpl in Hm. by rewrite sel_cons_false. Qed.
Lemma sel_broadcast_true f SS p m : f m = true → sel f (broadcast SS p m) = broadcast SS p m.
Proof. intros H. apply sel_all. by apply (Forall_broadcast (λ m, f m = true)). Qed.
Lemma sel_broadcast_false f SS p m : f m = false → sel f (broadcast SS p m) = [].
Proof. intros H. apply sel_none. by apply (Forall_broadcast (λ m, f m = false)). Qed.

(* ================= what a departure sends ================= *)
Lemma Forall_remove_doomed (Q : msg → Prop) cfg p l SS :
  (∀ o e, Q (MEntityDeleteB o e)) → Forall (λ d : delivery, Q (snd d)) (remove_doomed cfg p l SS).2.
Proof.
  intros HQ. revert SS. induction l as [|eid l IH]; intros SS; simpl; [constructor|].
  specialize (IH (set_ents (delete eid) (set_store (store_delete_entity eid) SS))).
  destruct (remove_doomed cfg p l _) as [S2 o2]. simpl in *. apply Forall_app_2; [|done].
  destruct (flag_on cfg F_ENTITY_DELETE_B); [constructor|]. by apply Forall_broadcast.
Qed.
Lemma Forall_leave (Q : msg → Prop) cfg st c :
  (∀ o e, Q (MEntityDeleteB o e)) → (∀ p, Q (MLeaveB p)) → Forall (λ d : delivery, Q (snd d)) (leave cfg st c).2.
Proof.
  intros H1 H2. unfold leave. destruct (conns st !! c) as [cn|]; [|constructor]. destruct (c_cur cn) as [[sid p]|]; [|constructor].
  destruct (sessions st !! sid) as [SS|]; [|constructor].
  match goal with |- context [remove_doomed ?a ?b ?l ?S] => pose proof (Forall_remove_doomed Q a b l S H1) as H;
    destruct (remove_doomed a b l S) as [S3 o1] end.
  simpl in *. apply Forall_app_2; [done|]. destruct (flag_on cfg F_LEAVE_B); [constructor|]. by apply Forall_broadcast.
Qed.
Lemma Forall_disconnect (Q : msg → Prop) cfg st c :
  (∀ o e, Q (MEntityDeleteB o e)) → (∀ p, Q (MLeaveB p)) → Forall (λ d : delivery, Q (snd d)) (disconnect cfg st c).2.
Proof. intros H1 H2. unfold disconnect. pose proof (Forall_leave Q cfg st c H1 H2). by destruct (leave cfg st c). Qed.

(* ================= the module answers of a successful join ================= *)
Definition vikja_of (m : msg) : option (list action) := match m with MVikjaState a => Some a | _ => None end.
Definition odal_of (m : msg) : option (list asset) := match m with MOdalState a => Some a | _ => None end.

Lemma first_to_cons_skip {A} c c' m l (f : msg → option A) : f m = None → first_to c ((c', m) :: l) f = first_to c l f.
Proof. intros H. unfold first_to. simpl. rewrite H. by destruct (c' =? c). Qed.

Lemma module_join_first cfg c S1 :
  (cfg_vikja cfg = true → first_to c (module_join_msgs cfg c S1) vikja_of = Some (map snd (map_to_list (s_actions S1)))) ∧
  (cfg_odal cfg = true → first_to c (module_join_msgs cfg c S1) odal_of = Some (map snd (map_to_list (s_assets S1)))).
Proof.
  unfold module_join_msgs. split; intros ->.
  - simpl. by apply first_to_hit.
  - destruct (cfg_vikja cfg); simpl; [rewrite first_to_cons_skip by done|]; by apply first_to_hit.
Qed.

Lemma join_shape_mod cfg st c cn rid s ots hint st' outs v :
  inv st → nowrap st → conns st !! c = Some cn →
  Model.join cfg st c rid s ots hint = (st', outs, v) →
  ∀ r' n u p', join_resp c outs = Some (r', n, u, p') →
  ∃ S1, sessions st' !! n = Some S1 ∧
    (cfg_vikja cfg = true → first_to c outs vikja_of = Some (map snd (map_to_list (s_actions S1)))) ∧
    (cfg_odal cfg = true → first_to c outs odal_of = Some (map snd (map_to_list (s_assets S1)))).
Proof.
  intros I W Hc. unfold Model.join. rewrite Hc.
  destruct (already_joined cn s) eqn:Haj.
  - intros [= <- <- <-] r' n u p'. unfold already_joined in Haj.
    destruct (c_cur cn) as [[cur p0]|] eqn:Hcur; [|done]. destruct s as [|n0|k]; try done.
    set (mo := match sessions st !! cur with Some SS => module_join_msgs cfg c SS | None => [] end).
    assert (Hmo : plains mo). { unfold mo. destruct (sessions st !! cur); [apply plains_module_join|constructor]. }
    rewrite join_resp_cons_other by done. by rewrite (join_resp_plain _ _ Hmo).
  - pose proof (inv_leave cfg st c I) as I1.
    pose proof (leave_nowrap cfg st c I W) as W1. pose proof (plains_leave cfg st c) as P1.
    pose proof (Forall_leave (λ m, vikja_of m = None) cfg st c ltac:(done) ltac:(done)) as LV.
    pose proof (Forall_leave (λ m, odal_of m = None) cfg st c ltac:(done) ltac:(done)) as LO.
    destruct (leave cfg st c) as [st1 o1]. simpl in *.
    assert (Hnotfound : ∀ outs, outs = o1 ++ [(c, MError rid E_NOT_FOUND)] → join_resp c outs = None).
    { intros ? ->. rewrite join_resp_app_plain by done. by rewrite join_resp_cons_other. }
    assert (Hshape : ∀ st2 n0 SS, sessions st2 !! n0 = Some SS →
      ∀ r' n u p', join_resp c (o1 ++ (enter cfg st2 c rid n0 ots).1.2) = Some (r', n, u, p') →
      ∃ S1, sessions (enter cfg st2 c rid n0 ots).1.1 !! n = Some S1 ∧
        (cfg_vikja cfg = true → first_to c (o1 ++ (enter cfg st2 c rid n0 ots).1.2) vikja_of = Some (map snd (map_to_list (s_actions S1)))) ∧
        (cfg_odal cfg = true → first_to c (o1 ++ (enter cfg st2 c rid n0 ots).1.2) odal_of = Some (map snd (map_to_list (s_assets S1))))).
    { intros st2 n0 SS HS r' n u p'. pose proof (enter_sessions cfg st2 c rid n0 ots _ HS) as E3.
      rewrite (enter_eq cfg st2 c rid n0 ots SS HS). cbv zeta. cbn [fst snd].
      rewrite join_resp_app_plain by done. unfold join_resp at 1. erewrite first_to_hit by reflexivity.
      intros [= <- <- <- <-]. exists (entered SS c). rewrite E3, lookup_insert. split; [done|].
      destruct (module_join_first cfg c (entered SS c)) as [MV MO].
      assert (Hskip : ∀ {A} (f : msg → option A), (∀ a b, f (MJoinB a b) = None) → (∀ a b c0, f (MSessionState a b c0) = None) →
        (∀ a b c0 d, f (MJoinResp a b c0 d) = None) → Forall (λ d : delivery, f (snd d) = None) o1 →
        first_to c (o1 ++ (c, MJoinResp rid n0 (s_uuid SS) (u32_succ (s_pgen SS))) ::
          (if flag_on cfg F_SESSION_STATE then [] else [(c, session_state_msg (entered SS c))]) ++
          (if flag_on cfg F_JOIN_B then [] else broadcast (entered SS c) (u32_succ (s_pgen SS)) (MJoinB ots (u32_succ (s_pgen SS)))) ++
          module_join_msgs cfg c (entered SS c)) f = first_to c (module_join_msgs cfg c (entered SS c)) f).
      { intros A f F1 F2 F3 F4. rewrite first_to_app_skip by done. rewrite first_to_cons_skip by done.
        rewrite first_to_app_skip by (destruct (flag_on cfg F_SESSION_STATE); repeat constructor; apply F2).
        rewrite first_to_app_skip; [done|]. destruct (flag_on cfg F_JOIN_B); [constructor|].
        apply (Forall_broadcast (λ m, f m = None)). apply F1. }
      split; intros Hm; rewrite Hskip by done; [by apply MV|by apply MO]. }
    destruct s as [|n0|k].
    + destruct (create_session hint st1) as [n0 st2] eqn:Hcr.
      destruct (c07_created_fresh _ _ _ _ Hcr) as [HS2 _].
      specialize (Hshape st2 n0 _ HS2).
      destruct (enter cfg st2 c rid n0 ots) as [[st3 o2] v2]. intros [= <- <- <-]. exact Hshape.
    + destruct (sessions st1 !! n0) as [SS|] eqn:HS.
      * specialize (Hshape st1 n0 _ HS).
        destruct (enter cfg st1 c rid n0 ots) as [[st3 o2] v2]. intros [= <- <- <-]. exact Hshape.
      * intros [= <- <- <-] r' n u p'. by rewrite (Hnotfound _ eq_refl).
    + intros [= <- <- <-] r' n u p'. by rewrite (Hnotfound _ eq_refl).
Qed.

(* ================= P_C16, clause by clause ================= *)
Definition k16 : snapsel := {| k_parts := false; k_ents := false; k_comps := false; k_acts := true;
  k_assets := true; k_types := false; k_subs := false; k_reg := false |}.

Definition c16_req_clauses (cfg : config) (i : nat) (sp : spec) (c sid p : N) (r : req) (outs : list delivery) : list violation :=
  match r with
  | RAction rid ao ots =>
      if negb (cfg_vikja cfg) then okv i (bool_decide (outs = [])) 1601 [zn c] else
      let got := outcome c rid outs (λ m, match m with MActionResp r' => r' =? rid | _ => false end) in
      let want := match ao with
                  | None => zn E_BAD_REQUEST
                  | Some a =>
                      if (a_name a =? 0) || negb (is_Some_b (a_ts a)) then zn E_BAD_REQUEST
                      else if negb (is_Some_b (sp_ents sp !! (sid, a_eid a))) then zn E_BAD_REQUEST
                      else match sp_acts sp !! (sid, a_eid a, a_name a) with
                           | Some old => if ts_before (a_ts a) (a_ts old) then zn E_BAD_REQUEST else 0%Z
                           | None => 0%Z end
                  end in
      okv i (bool_decide (got = want)) 1602 [zn c; got; want] ++
      let rel := sel (λ m, match m with MActionB _ _ => true | _ => false end) outs in
      match ao with
      | Some a => okv i (same_lines rel (if bool_decide (got = 0%Z) then to_all (sp_others sp sid p) (MActionB ots a) else []))
                      1603 [zn c; got]
      | None => okv i (bool_decide (rel = [])) 1603 [zn c; got]
      end
  | RAssetAdd rid eid aid ots =>
      if negb (cfg_odal cfg) then okv i (bool_decide (outs = [])) 1604 [zn c] else
      let got := match first_to c outs (λ m, match m with MAssetAddResp r' x => if r' =? rid then Some x else None | _ => None end) with
                 | Some _ => 0%Z
                 | None => outcome c rid outs (λ _, false) end in
      let want := if aid =? 0 then zn E_BAD_REQUEST
                  else match sp_ents sp !! (sid, eid) with
                       | None => zn E_NOT_FOUND
                       | Some (ent, _) => if ep_owner ent =? p then 0%Z else zn E_UNAUTHORIZED end in
      okv i (bool_decide (got = want)) 1605 [zn c; zn eid; got; want] ++
      match first_to c outs (λ m, match m with MAssetAddResp r' x => if r' =? rid then Some x else None | _ => None end) with
      | Some iid => okv i (bool_decide (iid ∉ issued (sp_iids sp) (uuid_of sp sid))) 1606 [zn c; zn eid; zn iid]
      | None => []
      end
  | _ => []
  end.

Lemma P_C16_event_unfold cfg i sp sp' e :
  P_C16_event cfg i sp sp' e =
  match stepped e with
  | Some (c, r) => match sp_mem sp !! c with
                   | None => []
                   | Some (sid, p) => c16_req_clauses cfg i sp c sid p r (ev_outs e)
                   end
  | None => []
  end ++
  match stepped e with
  | Some (c, RJoin _ _ _) =>
      match join_resp c (ev_outs e) with
      | Some (_, sid, _, _) => join_snapshot_check cfg k16 1600 i sp' c sid (ev_outs e)
      | None => [] end
  | _ => []
  end ++
  snap_check cfg k16 1600 i sp e ++ bad_msgs i 1600 e.
Proof. reflexivity. Qed.

Lemma outcome_error_only c rid k : outcome c rid [(c, MError rid k)] (λ _, false) = zn k.
Proof. unfold outcome, has_msg. simpl. rewrite andb_false_r. simpl. unfold first_to. simpl. by rewrite !N.eqb_refl. Qed.

(* the two module requests of a member, against the model's handler *)
Lemma c16_request_ok cfg i st c cn sid p SS r hint st' o v sp :
  (∀ e, sp_ents sp !! (sid, e) = ent_abs e <$> s_ents SS !! e) →
  (∀ e n, sp_acts sp !! (sid, e, n) = s_actions SS !! (e, n)) →
  (∀ x, x ∈ issued (sp_iids sp) (uuid_of sp sid) ↔ 1 ≤ x ≤ s_agen SS) → s_agen SS + 1 < two32 →
  (∀ S1 m, s_parts S1 = s_parts SS → broadcast S1 p m ≡ₚ to_all (sp_others sp sid p) m) →
  handle_joined cfg st c cn sid p SS r hint = (st', o, v) →
  c16_req_clauses cfg i sp c sid p r o = [].
Proof.
  intros Ee Ea Ei Hga Hb H.
  assert (Hent : ∀ e, is_Some_b (sp_ents sp !! (sid, e)) = is_Some_b (s_ents SS !! e)).
  { intros e. rewrite Ee. by destruct (s_ents SS !! e). }
  destruct r; try reflexivity; simpl in H; unfold c16_req_clauses.
  - (* entity action *)
    destruct (cfg_vikja cfg) eqn:Ev; simpl in H |- *.
    2:{ by injection H as <- <- <-. }
    set (succ := λ m : msg, match m with MActionResp r' => r' =? rid | _ => false end).
    set (isb := λ m : msg, match m with MActionB _ _ => true | _ => false end).
    assert (Hrefused : ∀ a', sel isb [(c, MError rid E_BAD_REQUEST)] = [] ∧
        outcome c rid [(c, MError rid E_BAD_REQUEST)] succ = zn E_BAD_REQUEST ∧
        same_lines [] (if bool_decide (zn E_BAD_REQUEST = 0%Z) then to_all (sp_others sp sid p) (MActionB ots a') else []) = true).
    { intros a'. split; [done|]. split; [by apply outcome_error|]. done. }
    destruct a as [a|].
    2:{ injection H as <- <- <-. destruct (Hrefused {| a_eid := 0; a_name := 0; a_ts := None; a_data := 0 |}) as (->&->&_). done. }
    destruct (Hrefused a) as (R1&R2&R3).
    destruct ((a_name a =? 0) || negb (is_Some_b (a_ts a))) eqn:Hbad.
    { injection H as <- <- <-. rewrite R1, R2, R3. done. }
    rewrite Hent, Ea.
    destruct (s_ents SS !! a_eid a) as [ent|] eqn:He; simpl in H |- *.
    2:{ injection H as <- <- <-. rewrite R1, R2, R3. done. }
    destruct (match s_actions SS !! (a_eid a, a_name a) with Some o0 => ts_before (a_ts a) (a_ts o0) | None => false end) eqn:Hold.
    { injection H as <- <- <-. rewrite R1, R2, R3.
      destruct (s_actions SS !! (a_eid a, a_name a)) as [old|]; [|done]. by rewrite Hold. }
    injection H as <- <- <-.
    rewrite outcome_hit by (apply has_msg_cons_hit, N.eqb_refl).
    rewrite sel_cons_false, sel_broadcast_true by done.
    replace (match s_actions SS !! (a_eid a, a_name a) with Some old => if ts_before (a_ts a) (a_ts old) then zn E_BAD_REQUEST else 0%Z | None => 0%Z end)
      with 0%Z by (destruct (s_actions SS !! (a_eid a, a_name a)); [by rewrite Hold|done]).
    simpl. rewrite same_lines_perm; [done|]. by apply Hb.
  - (* asset add *)
    destruct (cfg_odal cfg) eqn:Eo; simpl in H |- *.
    2:{ by injection H as <- <- <-. }
    set (f := λ m : msg, match m with MAssetAddResp r' x => if r' =? rid then Some x else None | _ => None end).
    assert (Hrefused : ∀ k', first_to c [(c, MError rid k')] f = None).
    { intros k'. apply first_to_none. by repeat constructor. }
    destruct (asset =? 0) eqn:Ha.
    { injection H as <- <- <-. rewrite Hrefused, outcome_error_only. done. }
    rewrite (Ee eid). destruct (s_ents SS !! eid) as [ent|] eqn:He; simpl in H |- *.
    2:{ injection H as <- <- <-. rewrite Hrefused, outcome_error_only. done. }
    destruct (e_owner ent =? p) eqn:Ho; simpl in H; injection H as <- <- <-.
    2:{ rewrite Hrefused, outcome_error_only. done. }
    erewrite first_to_hit by (unfold f; by rewrite N.eqb_refl). simpl.
    rewrite bool_decide_eq_true_2; [done|]. rewrite Ei, u32_succ_small by done. lia.
Qed.

(* the VIKJA_STATE / ODAL_STATE of a successful join against the spec after the event *)
Lemma join_snapshot_mod_ok cfg k i sp' c sid outs S1 :
  wf cfg k S1 →
  (cfg_vikja cfg = true → first_to c outs vikja_of = Some (map snd (map_to_list (s_actions S1)))) →
  (cfg_odal cfg = true → first_to c outs odal_of = Some (map snd (map_to_list (s_assets S1)))) →
  (cfg_vikja cfg = true → spec_acts sp' sid = sort_by eAction (map snd (map_to_list (s_actions S1)))) →
  (cfg_odal cfg = true → spec_assets sp' sid = sort_by eAsset (map snd (map_to_list (s_assets S1)))) →
  join_snapshot_check cfg k16 1600 i sp' c sid outs = [].
Proof.
  intros W HV HO EV EO. unfold join_snapshot_check. cbn [k_parts k_ents k_comps k_acts k_assets k16].
  rewrite !andb_true_r.
  change (λ m : msg, match m with MSessionState ps0 es0 cs0 => Some (ps0, es0, cs0) | _ => None end) with state_of.
  assert (Hss : (if flag_on cfg F_SESSION_STATE then [] else
             match first_to c outs state_of with
             | Some (ps, es, cs) =>
                 okv i (negb false || bool_decide (sortN ps = map fst (sp_members sp' sid))) (1600 + 11) [zn c; zn sid] ++
                 okv i (negb false || bool_decide (sort_by eEnt es = map fst (spec_ents sp' sid))) (1600 + 12) [zn c; zn sid] ++
                 okv i (negb false || bool_decide (sort_by eComp cs = spec_comps sp' sid)) (1600 + 13) [zn c; zn sid]
             | None => if false || false || false then [viol i (1600 + 10) [zn c; zn sid]] else [] end) = (@nil violation)).
  { destruct (flag_on cfg F_SESSION_STATE); [done|]. by destruct (first_to c outs state_of) as [[[? ?] ?]|]. }
  rewrite Hss. clear Hss. cbn [app].
  change (λ m : msg, match m with MVikjaState a => Some a | _ => None end) with vikja_of.
  change (λ m : msg, match m with MOdalState a => Some a | _ => None end) with odal_of.
  destruct (cfg_vikja cfg) eqn:Ev; [rewrite (HV eq_refl), (EV eq_refl), bool_decide_eq_true_2 by done|];
  (destruct (cfg_odal cfg) eqn:Eo; [rewrite (HO eq_refl), (EO eq_refl), !bool_decide_eq_true_2; [done|by apply (NoDup_asset_eids cfg k)|done]|done]).
Qed.

(* a hook snapshot against the spec: the module tables of every session *)
Lemma dump_check_k16 cfg i sp d0 :
  dump_check cfg k16 1600 i sp d0 =
  okv i (negb (cfg_vikja cfg) || bool_decide (sort_by eAction (d_actions d0) = spec_acts sp (d_sid d0))) 1626 [zn (d_sid d0)] ++
  okv i (negb (cfg_odal cfg) || bool_decide (sort_by eAsset (d_assets d0) = spec_assets sp (d_sid d0))) 1627 [zn (d_sid d0)].
Proof. unfold dump_check. cbn [k16 k_parts k_ents k_comps k_types k_subs k_acts k_assets k_reg negb orb andb okv app]. by rewrite app_nil_r. Qed.

Lemma snap_ok_16 cfg kw i sp st :
  swf cfg kw st → refines_mod sp st →
  snap_check cfg k16 1600 i sp {| ev_op := OSnap; ev_req := None; ev_outs := [(0, snapshot st)]; ev_verdict := VOk |} = [].
Proof.
  intros Wf D. unfold snap_check. cbn [ev_op ev_outs flat_map snd snapshot k_reg k16]. rewrite !app_nil_r.
  apply flat_map_nil_all. intros d0 Hd. apply elem_of_list_fmap in Hd as ([sid SS]&->&Hin).
  apply elem_of_map_to_list in Hin. rewrite dump_check_k16. cbn [fst snd dump_session d_actions d_assets d_sid].
  rewrite (spec_acts_eq cfg kw sp st sid SS D Hin (Wf sid SS Hin)), (spec_assets_eq cfg kw sp st sid SS D Hin (Wf sid SS Hin)).
  rewrite !bool_decide_eq_true_2 by done. by rewrite !orb_true_r.
Qed.

(* ================= one step ================= *)
Lemma step_bad_msgs cfg st o k sp i b :
  inv st → bounded k st → k + 1 < two32 → reg st → refines_mem sp st →
  bad_msgs i b (ev_of st o (step cfg st o)) = [].
Proof.
  intros I B Hk G R. destruct (step_sim cfg st o k sp 0%nat I B Hk G R) as [_ C]. unfold P_C07_event in C.
  apply app_eq_nil in C as [_ C]. apply app_eq_nil in C as [_ C]. by eapply bad_msgs_base.
Qed.

Lemma c16_step_ok cfg st o k kw kw' sp i :
  inv st → bounded k st → k + 1 < two32 → kw + 1 < two32 → good cfg kw sp st → swf cfg kw' (step cfg st o).1.1 →
  let e := ev_of st o (step cfg st o) in
  P_C16_event cfg i sp (spec_step sp e) e = [].
Proof.
  intros I B Hk Hkw [_ G O Wf R E D] Wf' e. pose proof (bounded_nowrap _ _ B Hk) as W.
  rewrite P_C16_event_unfold.
  pose proof (step_bad_msgs cfg st o k sp i 1600 I B Hk G R) as Hbad. fold e in Hbad. rewrite Hbad, app_nil_r.
  pose proof (step_sim_mod cfg st o k kw sp I B Hk Wf Hkw G O R E D) as D'. fold e in D'.
  assert (H1 : match stepped e with
               | Some (c, r) => match sp_mem sp !! c with
                                | None => []
                                | Some (sid, p) => c16_req_clauses cfg i sp c sid p r (ev_outs e)
                                end
               | None => []
               end = []).
  { destruct (stepped e) as [[c r]|] eqn:Hst; [|done].
    destruct (sp_mem sp !! c) as [[sid p]|] eqn:Hmem; [|done].
    destruct (step_member cfg st o sp c r sid p I R Hst Hmem) as (hint&cn&q&SS&st1&o1&v&->&Hc&Hcur&HS&Hp&Hinj&Hc0&_&Eh&Es).
    unfold e, ev_of. rewrite Es. cbn [ev_outs fst snd].
    destruct (wf_cnt _ _ _ (Wf sid SS HS)) as (_&_&Hga&_).
    eapply c16_request_ok; [| | | | |exact Eh].
    - intros e0. rewrite (E sid e0). unfold ents_at. by rewrite HS.
    - intros e0 n. rewrite (rd_acts _ _ D). unfold acts_at. by rewrite HS.
    - rewrite (uuid_of_refines sp st sid SS R HS). apply (rd_iids _ _ D sid SS HS).
    - lia.
    - intros S1 m Hpe. by apply (to_all_broadcast sp st sid p SS S1 m I (rm_mem _ _ R) HS). }
  assert (H2 : match stepped e with
               | Some (c, RJoin _ _ _) =>
                   match join_resp c (ev_outs e) with
                   | Some (_, sid, _, _) => join_snapshot_check cfg k16 1600 i (spec_step sp e) c sid (ev_outs e)
                   | None => [] end
               | _ => []
               end = []).
  { destruct (stepped e) as [[c r]|] eqn:Hst; [|done]. destruct r; try done.
    destruct (step_stepped_join cfg st o c rid sid ots I Hst) as (hint&cn&q&st1&o1&v&->&Hc&Hc0&Ej&Es).
    set (st0 := upd_conn c (set_queue q) st) in *.
    assert (Hs0 : same_mem st st0) by (apply same_mem_upd_conn; by intros []).
    assert (I0 : inv st0) by by eapply inv_same_mem.
    assert (W0 : nowrap st0) by (eapply bounded_nowrap; [by eapply bounded_same_mem|done]).
    revert D'. generalize (spec_step sp e). intros sp' D'. unfold e, ev_of in *. rewrite Es in *. cbn [ev_outs fst snd] in *.
    destruct (join_resp c o1) as [[[[r' n] u] p']|] eqn:Hjr; [|done].
    destruct (join_shape_mod cfg st0 c _ rid sid ots hint _ _ _ I0 W0 Hc0 Ej _ _ _ _ Hjr) as (S1&HS1&HV&HO).
    eapply (join_snapshot_mod_ok cfg kw'); [exact (Wf' n S1 HS1)|exact HV|exact HO| |].
    - intros _. exact (spec_acts_eq cfg kw' sp' st1 n S1 D' HS1 (Wf' n S1 HS1)).
    - intros _. exact (spec_assets_eq cfg kw' sp' st1 n S1 D' HS1 (Wf' n S1 HS1)). }
  rewrite H1, H2. simpl.
  destruct o as [c|c r|c hint|sid|c|]; try (by apply snap_check_not_snap).
  unfold e, ev_of. cbn [step consumed fst snd]. by eapply snap_ok_16.
Qed.

(* ================= every history ================= *)
(* Deliverable 2a: the model's own trace is never flagged by P_C16 (all clauses) *)
Theorem model_passes_C16 cfg h : short h → P_C16 cfg (run cfg h) = [].
Proof.
  induction h as [|o h IH] using rev_ind; intros Hs; [done|].
  pose proof (reachable_swf cfg _ Hs) as Wf'. rewrite final_snoc in Wf'.
  apply short_snoc in Hs as [Hs Hb]. unfold P_C16 in *. rewrite run_snoc, sscan_snoc, IH by done. simpl.
  assert (Hlen : N.of_nat (length h) < two32) by (unfold short in Hs; lia).
  destruct (reachable_inv cfg h state0 0 inv_state0 bounded_state0) as [I B]; [lia|].
  apply (c16_step_ok cfg (final cfg h) o (0 + N.of_nat (length h)) (4 * N.of_nat (length h)) (4 * N.of_nat (length (h ++ [o]))));
    [exact I|exact B|lia|lia|by apply reachable_good|exact Wf'].
Qed.

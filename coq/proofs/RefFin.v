(* proofs/RefFin.v — generic lemmas about the stateful scan [xscan] of Preds2.v (the engine of P_C01, P_C03, P_C04):
   the observer state after a trace, and the snoc equation used by the inductions over whole histories
   (proofs/RefFin2.v: P_C01, proofs/RefFin3.v: P_C04, proofs/RefFin4.v: P_C03). *)
From hagall Require Import Model Spec Obs Preds Preds2.
From hagall.proofs Require Import Refine2 Refine3 Own.
From Coq Require Import Lia.

(* the observer state [xscan f] has after the trace t *)
Fixpoint xstate {St A} (f : nat → spec → spec → St → event → St * list A) (i : nat) (sp : spec) (s : St) (t : trace) : St :=
  match t with
  | [] => s
  | e :: t' => xstate f (S i) (spec_step sp e) (f i sp (spec_step sp e) s e).1 t'
  end.

Lemma xscan_cons_gen {St A} (f : nat → spec → spec → St → event → St * list A) i sp s e t :
  xscan f i sp s (e :: t) =
    (f i sp (spec_step sp e) s e).2 ++ xscan f (S i) (spec_step sp e) (f i sp (spec_step sp e) s e).1 t.
Proof. simpl. by destruct (f i sp (spec_step sp e) s e). Qed.

Lemma xscan_snoc {St A} (f : nat → spec → spec → St → event → St * list A) i sp s t e :
  xscan f i sp s (t ++ [e]) =
    xscan f i sp s t ++
    (f (i + length t)%nat (fold_left spec_step t sp) (spec_step (fold_left spec_step t sp) e) (xstate f i sp s t) e).2.
Proof.
  revert i sp s. induction t as [|e0 t IH]; intros i sp s.
  - cbn [app]. rewrite xscan_cons_gen. cbn [xscan xstate fold_left length]. by rewrite Nat.add_0_r, app_nil_r.
  - change ((e0 :: t) ++ [e]) with (e0 :: (t ++ [e])). rewrite !xscan_cons_gen, IH, <- app_assoc.
    cbn [xstate fold_left length]. by rewrite Nat.add_succ_r.
Qed.

Lemma xstate_snoc {St A} (f : nat → spec → spec → St → event → St * list A) i sp s t e :
  xstate f i sp s (t ++ [e]) =
    (f (i + length t)%nat (fold_left spec_step t sp) (spec_step (fold_left spec_step t sp) e) (xstate f i sp s t) e).1.
Proof.
  revert i sp s. induction t as [|e0 t IH]; intros i sp s.
  - cbn [app xstate fold_left length]. by rewrite Nat.add_0_r.
  - change ((e0 :: t) ++ [e]) with (e0 :: (t ++ [e])). cbn [xstate fold_left length]. rewrite IH. by rewrite Nat.add_succ_r.
Qed.

(* the shape every whole-history induction uses: one more operation *)
Lemma xscan_run_snoc {St A} (f : nat → spec → spec → St → event → St * list A) s0 cfg h o :
  let e := ev_of (final cfg h) o (step cfg (final cfg h) o) in
  let sp := spec_after (run cfg h) in
  xscan f 0 spec0 s0 (run cfg (h ++ [o])) =
    xscan f 0 spec0 s0 (run cfg h) ++
    (f (length (run cfg h)) sp (spec_step sp e) (xstate f 0 spec0 s0 (run cfg h)) e).2.
Proof. intros e sp. rewrite run_snoc, xscan_snoc. done. Qed.

Lemma xstate_run_snoc {St A} (f : nat → spec → spec → St → event → St * list A) s0 cfg h o :
  let e := ev_of (final cfg h) o (step cfg (final cfg h) o) in
  let sp := spec_after (run cfg h) in
  xstate f 0 spec0 s0 (run cfg (h ++ [o])) =
    (f (length (run cfg h)) sp (spec_step sp e) (xstate f 0 spec0 s0 (run cfg h)) e).1.
Proof. intros e sp. rewrite run_snoc, xstate_snoc. done. Qed.

(* proofs/Purge6.v — noninterference experiment of C03 (Purge.v), part 6: an operation outside the group
   (a connection outside the group acts, or a session without members of the group has a frame)
   leaves the records of the group's connections and the group's sessions untouched and delivers
   nothing to the group, provided the group stays separated. *)
From stdpp Require Import relations sorting.
From hagall Require Import Model Spec Obs Preds Purge.
From hagall.proofs Require Import BaseLemmas Relay Inv Session Local Trans WF Mono Reach PC03 PC06 PC07
  Refine Refine2 Refine3 Refine5 RefSched RefSched2 Purge1 Purge2 Purge3 Purge4 Purge5.
From Coq Require Import Lia.

Definition untouched (A : list N) (st st' : state) : Prop :=
  (∀ d, grp A d = true → conns st' !! d = conns st !! d) ∧
  (∀ d s p, grp A d = true → cur_of st d = Some (s, p) → sessions st' !! s = sessions st !! s).

(* nothing is delivered to the group *)
Definition quiet (A : list N) (outs : list delivery) : Prop := ∀ d, d ∈ outs → grp A (fst d) = false.

(* [e] shares no session with the group *)
Definition nosh (A : list N) (st : state) (e : N) : Prop :=
  ∀ d s p q, grp A d = true → cur_of st d = Some (s, p) → cur_of st e = Some (s, q) → False.

Lemma untouched_refl A st : untouched A st st.
Proof. by split. Qed.
Lemma untouched_cur A st st' d : untouched A st st' → grp A d = true → cur_of st' d = cur_of st d.
Proof. intros [H _] Hd. apply cur_of_same. by apply H. Qed.
Lemma untouched_trans A st st' st'' : untouched A st st' → untouched A st' st'' → untouched A st st''.
Proof.
  intros X Y. split.
  - intros d Hd. rewrite (proj1 Y d Hd). by apply (proj1 X).
  - intros d s p Hd Hcur. rewrite (proj2 Y d s p Hd); [by apply (proj2 X d s p)|].
    by rewrite (untouched_cur A st st' d X Hd).
Qed.

Lemma quiet_nil A : quiet A [].
Proof. intros d Hd. by apply elem_of_nil in Hd. Qed.
Lemma quiet_app A l1 l2 : quiet A l1 → quiet A l2 → quiet A (l1 ++ l2).
Proof. intros H1 H2 d [Hd|Hd]%elem_of_app; [by apply H1|by apply H2]. Qed.
Lemma quiet_outs_to A l : quiet A l → outs_to A l = [].
Proof.
  intros H. unfold outs_to. assert (E : List.filter (keep A) l = []); [|by rewrite E].
  induction l as [|d l IH]; [done|]. simpl. unfold keep at 1. rewrite (H d) by left. simpl.
  apply IH. intros d' Hd'. apply H. by right.
Qed.

Lemma untouched_sim A uu st1 st2 st1' :
  sim A st1 st2 → uuc A uu st1 st2 → untouched A st1 st1' → sim A st1' st2 ∧ uuc A uu st1' st2.
Proof.
  intros S U X. apply (sim_frame A uu st1 st2); try done.
  - intros d Hd. by apply (untouched_cur A st1).
  - intros d Hd. rewrite (proj1 X d Hd). apply (sim_conn _ _ _ S d Hd).
  - intros d Hd. apply (sim_only _ _ _ S d Hd).
  - intros d s p s' p' T1 T2 Hd D1 D2 F1 F2 RT. rewrite (proj2 X d s p Hd D1). eauto 10.
Qed.

(* ================= the building blocks, by a connection outside the group ================= *)
Lemma untouched_upd_conn A st e f : grp A e = false → untouched A st (upd_conn e f st).
Proof. intros He. split; [|done]. intros d Hd. apply conns_upd_conn_ne. congruence. Qed.

Lemma untouched_connect A st e : grp A e = false → untouched A st (set_conns (<[e := conn0]>) st).
Proof. intros He. split; [|done]. intros d Hd. simpl. rewrite lookup_insert_ne; [done|congruence]. Qed.

Lemma nosh_same A st st' e :
  (∀ d, cur_of st' d = cur_of st d) → nosh A st e → nosh A st' e.
Proof. intros C H d s p q Hd. rewrite !C. by apply H. Qed.

Lemma leave_untouched cfg A st e :
  inv st → grp A e = false → nosh A st e →
  untouched A st (leave cfg st e).1 ∧ quiet A (leave cfg st e).2.
Proof.
  intros I He Hn. split.
  - split.
    + intros d Hd. assert (Nd : d ≠ e) by congruence.
      destruct (conns st !! e) as [cn|] eqn:Hc; [|unfold leave; by rewrite Hc].
      destruct (c_cur cn) as [[sid p]|] eqn:Hcur; [|unfold leave; by rewrite Hc, Hcur].
      assert (Hcur0 : cur_of st e = Some (sid, p)) by (unfold cur_of; by rewrite Hc).
      destruct (inv_cur_session _ _ _ _ I Hcur0) as (SS&HS&_).
      destruct (leave_joined cfg st e cn sid p SS Hc Hcur HS) as (E1&_). rewrite E1. by rewrite lookup_insert_ne.
    + intros d s p Hd Hcur. apply leave_frame; [done|]. intros q Hq. by apply (Hn d s p q).
  - intros d Hd. destruct (leave_recipients cfg st e d Hd) as (cn&sid&p&SS&q&Hc&Hcur&HS&Hq&Hqp).
    destruct (grp A (fst d)) eqn:Hg; [|done]. exfalso.
    assert (Hps : parts_of st sid = Some (s_parts SS)) by (unfold parts_of; by rewrite HS).
    apply (inv_parts _ I sid _ q (fst d) Hps) in Hq.
    apply (Hn (fst d) sid q p Hg Hq). unfold cur_of. by rewrite Hc.
Qed.

Lemma enter_untouched cfg A st e rid n ots SS :
  (∀ q d, s_parts SS !! q = Some d → cur_of st d = Some (n, q)) →
  grp A e = false → is_Some (conns st !! e) → sessions st !! n = Some SS →
  (∀ d p, grp A d = true → cur_of st d ≠ Some (n, p)) →
  untouched A st (enter cfg st e rid n ots).1.1 ∧ quiet A (enter cfg st e rid n ots).1.2.
Proof.
  intros I He [cn Hc] HS Hn.
  destruct (enter_joined cfg st e cn rid n ots SS Hc HS) as (E1&E2&_). split.
  - split.
    + intros d Hd. rewrite E1. rewrite lookup_insert_ne; [done|congruence].
    + intros d s p Hd Hcur. rewrite E2. rewrite lookup_insert_ne; [done|]. intros <-. by apply (Hn d p).
  - intros d Hd. destruct (enter_recipients cfg st e rid n ots SS d HS Hd) as [->|[q Hq]]; [done|].
    destruct (grp A (fst d)) eqn:Hg; [|done]. exfalso.
    apply I in Hq. by apply (Hn (fst d) q).
Qed.

Lemma module_join_fst cfg c SS d : d ∈ module_join_msgs cfg c SS → fst d = c.
Proof.
  unfold module_join_msgs. destruct (cfg_vikja cfg), (cfg_odal cfg); simpl; intros H.
  all: repeat (apply elem_of_cons in H as [->|H]; [done|]); by apply elem_of_nil in H.
Qed.

Lemma quiet_self A e l : grp A e = false → (∀ d, d ∈ l → fst d = e) → quiet A l.
Proof. intros He H d Hd. by rewrite (H d Hd). Qed.

Lemma join_untouched cfg A st e rid sd ots hint :
  inv st → nowrap st → grp A e = false → is_Some (conns st !! e) → nosh A st e →
  nosh A (Model.join cfg st e rid sd ots hint).1.1 e →
  untouched A st (Model.join cfg st e rid sd ots hint).1.1 ∧ quiet A (Model.join cfg st e rid sd ots hint).1.2.
Proof.
  intros I W He [cn Hc] Hn Hpost. destruct (already_joined cn sd) eqn:Ha.
  - unfold Model.join. rewrite Hc, Ha. cbn [fst snd]. split; [apply untouched_refl|].
    apply (quiet_self A e); [done|]. intros d [->|Hd]%elem_of_cons; [done|].
    destruct (c_cur cn) as [[cur p]|]; [|by apply elem_of_nil in Hd].
    destruct (sessions st !! cur); [by eapply module_join_fst|by apply elem_of_nil in Hd].
  - revert Hpost. rewrite (join_eq cfg st e cn rid sd ots hint Hc Ha). cbv zeta.
    destruct (leave_untouched cfg A st e I He Hn) as [X1 Q1].
    pose proof (inv_leave cfg st e I) as J. pose proof (leave_nowrap cfg st e I W) as V.
    pose proof (leave_conn_Some cfg st e ltac:(eauto)) as HcL.
    set (sl := (leave cfg st e).1) in *. set (o := (leave cfg st e).2) in *.
    assert (Qe : quiet A (o ++ [(e, MError rid E_NOT_FOUND)])).
    { apply quiet_app; [done|]. apply (quiet_self A e); [done|]. by intros d ->%elem_of_list_singleton. }
    assert (Hent : ∀ st' n SS, untouched A sl st' → (∀ d, cur_of st' d = cur_of sl d) → is_Some (conns st' !! e) →
      sessions st' !! n = Some SS → (∀ q d, s_parts SS !! q = Some d → cur_of st' d = Some (n, q)) →
      nosh A (enter cfg st' e rid n ots).1.1 e →
      untouched A st (enter cfg st' e rid n ots).1.1 ∧ quiet A (o ++ (enter cfg st' e rid n ots).1.2)).
    { intros st' n SS X' C' [cn' Hc'] HS HP Hpost.
      destruct (enter_joined cfg st' e cn' rid n ots SS Hc' HS) as (E1&_).
      assert (Hno : ∀ d p, grp A d = true → cur_of st' d ≠ Some (n, p)).
      { intros d p Hd Hcur. assert (Nd : d ≠ e) by congruence.
        apply (Hpost d n p (u32_succ (s_pgen SS)) Hd).
        - rewrite <- Hcur. apply cur_of_same. rewrite E1. by rewrite lookup_insert_ne.
        - erewrite cur_of_conn by (rewrite E1; apply lookup_insert). done. }
      destruct (enter_untouched cfg A st' e rid n ots SS HP He ltac:(eauto) HS Hno) as [X2 Q2].
      split; [|by apply quiet_app].
      eapply untouched_trans; [exact X1|]. eapply untouched_trans; [exact X'|exact X2]. }
    destruct sd as [|n|j]; cbn [fst snd].
    + destruct (create_session hint sl) as [n sc] eqn:Hcr. cbn [fst snd].
      destruct (create_session_char _ _ _ _ Hcr) as (G1&G2&_).
      destruct (create_session_proj _ _ _ _ J V Hcr) as (F1&_).
      assert (N1 : sessions sl !! n = None) by (unfold parts_of in F1; by destruct (sessions sl !! n)).
      intros Hpost. apply (Hent sc n (session0 (next_uuid sl + 1))); [| | | | |exact Hpost].
      * split; [intros d _; by rewrite G1|]. intros d s p Hd Hcur. rewrite G2.
        rewrite lookup_insert_ne; [done|]. intros <-.
        destruct (inv_cur_session _ _ _ _ J Hcur) as (X&EX&_). congruence.
      * intros d. apply cur_of_same. by rewrite G1.
      * by rewrite G1.
      * rewrite G2. apply lookup_insert.
      * intros q d Hq. simpl in Hq. by rewrite lookup_empty in Hq.
    + destruct (sessions sl !! n) as [SS|] eqn:HS; cbn [fst snd]; [|intros _; split; [exact X1|exact Qe]].
      intros Hpost. apply (Hent sl n SS); [apply untouched_refl|done|done|done| |exact Hpost].
      intros q d Hq. apply (inv_parts _ J n (s_parts SS) q d); [unfold parts_of; by rewrite HS|done].
    + intros _. split; [exact X1|exact Qe].
Qed.

(* ================= requests other than join ================= *)
Local Arguments upd_conn : simpl never.
Lemma hj_conns cfg st c cn sid p SS r hint d :
  is_join r = false → d ≠ c → conns (handle_joined cfg st c cn sid p SS r hint).1.1 !! d = conns st !! d.
Proof.
  intros Hj Nd. destruct r; try discriminate Hj; simpl.
  all: unfold on_ping, send_ping; repeat case_match; simplify_eq; simpl; rewrite ?conns_upd_conn_ne by done; try reflexivity.
  all: repeat case_match; rewrite ?lookup_insert_ne by done; reflexivity.
Qed.
Lemma hu_conns cfg st c cn r hint :
  is_join r = false → conns (handle_unjoined cfg st c cn r hint).1.1 = conns st.
Proof. intros Hj. destruct r; try discriminate Hj; simpl; repeat case_match; reflexivity. Qed.

Ltac self_outs Hd :=
  repeat (apply elem_of_cons in Hd as [->|Hd]; [done|]); by apply elem_of_nil in Hd.

Lemma hj_outs_self cfg st c cn sid p SS r hint d :
  session_local r = false → is_join r = false → d ∈ (handle_joined cfg st c cn sid p SS r hint).1.2 → fst d = c.
Proof.
  intros Hl Hj. destruct r; try discriminate Hj; try discriminate Hl; simpl.
  all: unfold on_ping, send_ping; repeat case_match; simplify_eq; simpl; intros Hd; self_outs Hd.
Qed.
Lemma hu_outs_self cfg st c cn r hint d :
  is_join r = false → d ∈ (handle_unjoined cfg st c cn r hint).1.2 → fst d = c.
Proof.
  intros Hj. destruct r; try discriminate Hj; simpl.
  all: repeat case_match; simplify_eq; simpl; intros Hd; self_outs Hd.
Qed.

Lemma handle_nonjoin_untouched cfg A st e r hint :
  inv st → grp A e = false → is_Some (conns st !! e) → nosh A st e → is_join r = false →
  untouched A st (handle cfg st e r hint).1.1 ∧ quiet A (handle cfg st e r hint).1.2 ∧
  (∀ d, cur_of (handle cfg st e r hint).1.1 d = cur_of st d).
Proof.
  intros I He [cn Hc] Hn Hj.
  assert (Hcur : ∀ d, cur_of (handle cfg st e r hint).1.1 d = cur_of st d).
  { destruct (handle cfg st e r hint) as [[st' o] v] eqn:Eh.
    destruct (handle_nonjoin cfg st e cn r hint st' o v I Hc Hj Eh) as ((C&_)&_). exact C. }
  split; [|split; [|exact Hcur]].
  - unfold handle. rewrite Hc. destruct (c_cur cn) as [[sid p]|] eqn:Ccur.
    + assert (Hcur0 : cur_of st e = Some (sid, p)) by (unfold cur_of; by rewrite Hc).
      destruct (inv_cur_session _ _ _ _ I Hcur0) as (SS&HS&_). rewrite HS. split.
      * intros d Hd. apply hj_conns; [done|congruence].
      * intros d s q Hd Hdc. destruct (session_local r) eqn:Hl.
        -- rewrite (handle_joined_sstep cfg st e cn sid p SS r hint Hl Hc HS). unfold apply_sstep. simpl.
           rewrite lookup_insert_ne; [done|]. intros <-. by apply (Hn d sid q p).
        -- by rewrite handle_joined_other.
    + split.
      * intros d Hd. by rewrite hu_conns.
      * intros d s q Hd Hdc. by rewrite handle_unjoined_other.
  - unfold handle. rewrite Hc. destruct (c_cur cn) as [[sid p]|] eqn:Ccur.
    + assert (Hcur0 : cur_of st e = Some (sid, p)) by (unfold cur_of; by rewrite Hc).
      destruct (inv_cur_session _ _ _ _ I Hcur0) as (SS&HS&_). rewrite HS.
      destruct (session_local r) eqn:Hl.
      * rewrite (handle_joined_sstep cfg st e cn sid p SS r hint Hl Hc HS). unfold apply_sstep. cbn [fst snd].
        intros d Hd. destruct (sstep_recipients _ _ _ _ _ _ _ Hd) as [->|(q&Hq&_)]; [done|].
        destruct (grp A (fst d)) eqn:Hg; [|done]. exfalso.
        assert (Hps : parts_of st sid = Some (s_parts SS)) by (unfold parts_of; by rewrite HS).
        apply (inv_parts _ I sid _ q (fst d) Hps) in Hq. by apply (Hn (fst d) sid q p).
      * apply (quiet_self A e); [done|]. intros d. by apply hj_outs_self.
    + apply (quiet_self A e); [done|]. intros d. by apply hu_outs_self.
Qed.

(* ================= a connection outside the group ends; a frame elsewhere ================= *)
Lemma disconnect_untouched cfg A st e :
  inv st → grp A e = false → nosh A st e →
  untouched A st (disconnect cfg st e).1 ∧ quiet A (disconnect cfg st e).2.
Proof.
  intros I He Hn. rewrite disconnect_eq. cbn [fst snd].
  destruct (leave_untouched cfg A st e I He Hn) as [X Q]. split; [|done].
  eapply untouched_trans; [exact X|]. by apply untouched_upd_conn.
Qed.

Lemma tick_untouched A st s :
  inv st → frames_inv st → (∀ d p, grp A d = true → cur_of st d ≠ Some (s, p)) → untouched A st (tick st s).
Proof.
  intros I F Hn. split; [|intros; by rewrite tick_sessions].
  intros d Hd. destruct (sessions st !! s) as [SS|] eqn:HS; [|by rewrite tick_conns_none].
  rewrite (tick_conns st s SS d HS). destruct (conns st !! d) as [cn|] eqn:Hc; [|done]. simpl.
  rewrite decide_False; [done|]. intros Hin. apply (F s SS HS d) in Hin as [p Hp].
  assert (Hps : parts_of st s = Some (s_parts SS)) by (unfold parts_of; by rewrite HS).
  apply (inv_parts _ I s _ p d Hps) in Hp. by apply (Hn d p).
Qed.

Lemma step_ostep_eq cfg st c hint :
  step cfg st (OStep c hint) =
  match conns st !! c with
  | None => (st, [], VSkip)
  | Some cn =>
    if negb (c_open cn) then (st, [], VSkip)
    else match c_queue cn with
    | [] => (st, [], VSkip)
    | r :: q =>
      let h := handle cfg (upd_conn c (set_queue q) st) c r hint in
      match h.2 with
      | VErr => ((disconnect cfg h.1.1 c).1, h.1.2 ++ (disconnect cfg h.1.1 c).2, VErr)
      | _ => h
      end
    end
  end.
Proof.
  simpl. destruct (conns st !! c) as [cn|]; [|done]. destruct (negb (c_open cn)); [done|].
  destruct (c_queue cn) as [|r q]; [done|]. cbv zeta.
  destruct (handle cfg (upd_conn c (set_queue q) st) c r hint) as [[st1 o1] v]. cbn [fst snd].
  destruct v; try done. by destruct (disconnect cfg st1 c).
Qed.

(* ================= every operation outside the group ================= *)
Lemma irr_step cfg A st m k o :
  inv st → bounded k st → k + 1 < two32 → frames_inv st → (∀ c, m !! c = cur_of st c) →
  relevant A m o = false →
  (∀ e, grp A e = false → nosh A st e) →
  (∀ e, grp A e = false → nosh A (step cfg st o).1.1 e) →
  untouched A st (step cfg st o).1.1 ∧ outs_to A (step cfg st o).1.2 = [].
Proof.
  intros I Bk Hk F M Hr Hpre Hpost.
  destruct o as [e|e r|e hint|s|e|]; cbn [relevant] in Hr.
  - (* connect *) simpl. destruct (conns st !! e); cbn [fst snd]; (split; [|done]); [apply untouched_refl|by apply untouched_connect].
  - (* send *)
    simpl. unfold dispatch. destruct (conns st !! e) as [cn|] eqn:Hc; cbn [fst snd]; [|split; [apply untouched_refl|done]].
    destruct (c_open cn); cbn [negb fst snd]; [|split; [apply untouched_refl|done]].
    destruct r; cbn [fst snd]; try (split; [by apply untouched_upd_conn|done]).
    destruct (ty =? 14); cbn [fst snd]; [|split; [by apply untouched_upd_conn|done]].
    destruct (disconnect_untouched cfg A st e I Hr (Hpre e Hr)) as [X Q].
    destruct (disconnect cfg st e) as [sd od]. cbn [fst snd] in *. split; [done|by apply quiet_outs_to].
  - (* step *)
    revert Hpost. rewrite step_ostep_eq.
    destruct (conns st !! e) as [cn|] eqn:Hc; cbn [fst snd]; [|intros _; split; [apply untouched_refl|done]].
    destruct (c_open cn) eqn:Ho; cbn [negb fst snd]; [|intros _; split; [apply untouched_refl|done]].
    destruct (c_queue cn) as [|r q] eqn:Hq; cbn [fst snd]; [intros _; split; [apply untouched_refl|done]|].
    cbv zeta. set (st0 := upd_conn e (set_queue q) st).
    assert (Hs0 : same_mem st st0) by (apply same_mem_upd_conn; by intros []).
    assert (I0 : inv st0) by by eapply inv_same_mem.
    assert (B0 : bounded k st0) by by eapply bounded_same_mem.
    assert (W0 : nowrap st0) by by eapply bounded_nowrap.
    assert (X0 : untouched A st st0) by by apply untouched_upd_conn.
    assert (C0 : ∀ d, cur_of st0 d = cur_of st d) by (intros d; apply cur_of_upd_conn; by intros []).
    assert (N0 : nosh A st0 e) by (eapply nosh_same; [exact C0|by apply Hpre]).
    assert (Hc0 : is_Some (conns st0 !! e)) by (unfold st0; rewrite conns_upd_conn_eq, Hc; by eexists).
    assert (Ho0 : open_of st0 e = Some true).
    { destruct Hs0 as (_&H2&_). rewrite H2. unfold open_of. by rewrite Hc; simpl; rewrite Ho. }
    destruct (is_join r) eqn:Hj.
    + destruct r as [| | |rid sd ots| | | | | | | | | | | | | | | | | | | |]; try discriminate Hj.
      rewrite handle_join_eq by done. destruct Hc0 as [cn0 Hc0].
      rewrite (join_verdict cfg st0 e cn0 rid sd ots hint Hc0). intros Hpost.
      destruct (join_untouched cfg A st0 e rid sd ots hint I0 W0 Hr ltac:(eauto) N0 (Hpost e Hr)) as [X Q].
      split; [by eapply untouched_trans|by apply quiet_outs_to].
    + destruct (handle_nonjoin_untouched cfg A st0 e r hint I0 Hr Hc0 N0 Hj) as (X&Q&C).
      destruct (handle_inv cfg st0 e r hint k I0 B0 Hk Ho0) as [I1 _].
      destruct (handle cfg st0 e r hint) as [[sh oh] v]. cbn [fst snd] in *. intros _.
      assert (Xh : untouched A st sh) by by eapply untouched_trans.
      destruct v; cbn [fst snd]; try (split; [done|by apply quiet_outs_to]).
      assert (Nh : nosh A sh e) by (eapply nosh_same; [exact C|exact N0]).
      destruct (disconnect_untouched cfg A sh e I1 Hr Nh) as [Xd Qd].
      split; [by eapply untouched_trans|]. apply quiet_outs_to. by apply quiet_app.
  - (* tick *)
    simpl. split; [|done]. apply tick_untouched; [done|done|].
    intros d p Hd Hcur. rewrite live_in_false in Hr. apply (Hr d); [by apply grp_true|].
    unfold Purge.cur_of. by rewrite M, Hcur.
  - (* disconnect *)
    simpl. destruct (conns st !! e) as [cn|] eqn:Hc; cbn [fst snd]; [|split; [apply untouched_refl|done]].
    destruct (c_open cn); cbn [negb fst snd]; [|split; [apply untouched_refl|done]].
    destruct (disconnect_untouched cfg A st e I Hr (Hpre e Hr)) as [X Q].
    destruct (disconnect cfg st e) as [sd od]. cbn [fst snd] in *. split; [done|by apply quiet_outs_to].
  - (* snapshot *)
    simpl. split; [apply untouched_refl|]. unfold outs_to. simpl. unfold keep. simpl. by rewrite andb_false_r.
Qed.

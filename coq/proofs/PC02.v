(* proofs/PC02.v — joins and departures are relayed exactly once to every other member (C02, C06). *)
From stdpp Require Import relations.
From hagall Require Import Model.
From hagall.proofs Require Import BaseLemmas Relay Inv Session Local Trans WF Mono Reach.
From Coq Require Import Lia.

Lemma others_parts_eq S1 S2 p : s_parts S1 = s_parts S2 → others S1 p = others S2 p.
Proof. unfold others. by intros ->. Qed.
Lemma broadcast_parts_eq S1 S2 p m : s_parts S1 = s_parts S2 → broadcast S1 p m = broadcast S2 p m.
Proof. unfold broadcast. intros H. by rewrite (others_parts_eq _ _ _ H). Qed.

(* ---------- the deletes a departure relays ---------- *)
Lemma remove_doomed_outs cfg p l SS :
  flag_on cfg F_ENTITY_DELETE_B = false →
  (remove_doomed cfg p l SS).2 = flat_map (λ eid, broadcast SS p (MEntityDeleteB 0 eid)) l.
Proof.
  intros Hf. revert SS. induction l as [|eid l IH]; intros SS; simpl; [done|].
  specialize (IH (set_ents (delete eid) (set_store (store_delete_entity eid) SS))).
  destruct (remove_doomed cfg p l _) as [S2 o2]. simpl in *. rewrite Hf, IH. done.
Qed.
Lemma remove_doomed_outs_flag cfg p l SS :
  flag_on cfg F_ENTITY_DELETE_B = true → (remove_doomed cfg p l SS).2 = [].
Proof.
  intros Hf. revert SS. induction l as [|eid l IH]; intros SS; simpl; [done|].
  specialize (IH (set_ents (delete eid) (set_store (store_delete_entity eid) SS))).
  destruct (remove_doomed cfg p l _) as [S2 o2]. simpl in *. by rewrite Hf, IH.
Qed.

(* a broadcast whose sender is not (or no longer) in the participant map *)
Lemma broadcast_exactly_once_gone SS p c m :
  parts_injective SS → (∀ q, s_parts SS !! q = Some c → q = p) →
  exactly_once_to_others SS p c m (broadcast SS p m).
Proof.
  intros Hi Hc. split; [|split].
  - intros cq m'. apply broadcast_spec.
  - by apply broadcast_recipients_NoDup.
  - intros H. apply elem_of_list_fmap in H as ([c' m']&->&H). simpl in *.
    apply broadcast_spec in H as (_&q&Hq&Hne). apply Hne. by apply Hc.
Qed.

(* ---------- departure ---------- *)
Lemma leave_outputs cfg st c cn sid p SS :
  conns st !! c = Some cn → c_cur cn = Some (sid, p) → sessions st !! sid = Some SS →
  flag_on cfg F_ENTITY_DELETE_B = false → flag_on cfg F_LEAVE_B = false →
  let S2 := set_store (store_set_subs (fmap (λ s : gset N, s ∖ {[p]}))) (module_disconnect cfg (c_own cn) SS) in
  (leave cfg st c).2 =
    flat_map (λ eid, broadcast SS p (MEntityDeleteB 0 eid)) (doomed S2 (c_own cn)) ++
    broadcast (left_session cfg c p (c_own cn) SS) p (MLeaveB p).
Proof.
  intros Hc Hcur HS Hf1 Hf2 S2. unfold leave. rewrite Hc, Hcur, HS. fold S2.
  pose proof (remove_doomed_outs cfg p (doomed S2 (c_own cn)) S2 Hf1) as Ho.
  unfold left_session. fold S2.
  destruct (remove_doomed cfg p (doomed S2 (c_own cn)) S2) as [S3 o1]. simpl in *. rewrite Hf2, Ho. f_equal.
  apply flat_map_ext. intros e. apply broadcast_parts_eq. unfold S2. simpl. apply module_disconnect_parts.
Qed.

(* the remaining members are exactly the others; each is told once about the departure, the leaver is not *)
Lemma leave_broadcast_once cfg c p own SS :
  parts_injective SS → s_parts SS !! p = Some c →
  let L := left_session cfg c p own SS in
  (∀ cq m', (cq, m') ∈ broadcast L p (MLeaveB p) ↔ m' = MLeaveB p ∧ ∃ q, s_parts SS !! q = Some cq ∧ q ≠ p) ∧
  NoDup (map fst (broadcast L p (MLeaveB p))) ∧ c ∉ map fst (broadcast L p (MLeaveB p)).
Proof.
  intros Hi Hp L. destruct (left_session_parts cfg c p own SS) as [EL _]. fold L in EL.
  assert (HiL : parts_injective L).
  { intros q1 q2 c0. rewrite EL. intros [_ H1]%lookup_delete_Some [_ H2]%lookup_delete_Some. by eapply Hi. }
  assert (HcL : ∀ q, s_parts L !! q = Some c → q = p).
  { intros q. rewrite EL. intros [Hne H]%lookup_delete_Some. destruct Hne. by eapply Hi. }
  destruct (broadcast_exactly_once_gone L p c (MLeaveB p) HiL HcL) as (H1&H2&H3).
  split; [|done]. intros cq m'. rewrite H1, EL. split.
  - intros (->&q&[Hne Hq]%lookup_delete_Some&_). split; [done|]. by exists q.
  - intros (->&q&Hq&Hne). split; [done|]. exists q. split; [|done]. by apply lookup_delete_Some.
Qed.

(* the entities a departure removes: the leaver's own, non-persistent, still existing ones - each once *)
Lemma doomed_NoDup SS own : NoDup (doomed SS own).
Proof. unfold doomed. apply NoDup_ListNoDup, List.NoDup_filter, NoDup_ListNoDup, NoDup_set_to_sorted. Qed.

(* ---------- join ---------- *)
Lemma enter_outputs cfg st c rid n ots SS :
  sessions st !! n = Some SS → flag_on cfg F_SESSION_STATE = false → flag_on cfg F_JOIN_B = false →
  let S1 := entered SS c in
  let p := u32_succ (s_pgen SS) in
  (enter cfg st c rid n ots).1.2 =
    [(c, MJoinResp rid n (s_uuid SS) p); (c, session_state_msg S1)] ++ broadcast S1 p (MJoinB ots p) ++ module_join_msgs cfg c S1.
Proof. intros HS Hf1 Hf2. unfold enter. rewrite HS. simpl. rewrite Hf1, Hf2. done. Qed.

Lemma join_broadcast_once SS c ots :
  parts_injective (entered SS c) →
  let p := u32_succ (s_pgen SS) in
  exactly_once_to_others (entered SS c) p c (MJoinB ots p) (broadcast (entered SS c) p (MJoinB ots p)).
Proof.
  intros Hi p. apply broadcast_exactly_once; [done|]. unfold entered. simpl. by rewrite lookup_insert.
Qed.

(* ---------- order: what later operations cause comes after what earlier ones caused ---------- *)
Lemma run_from_app cfg st h1 h2 :
  run_from cfg st (h1 ++ h2) =
    let '(t1, st1) := run_from cfg st h1 in let '(t2, st2) := run_from cfg st1 h2 in (t1 ++ t2, st2).
Proof.
  revert st. induction h1 as [|o h1 IH]; intros st; simpl.
  - by destruct (run_from cfg st h2).
  - destruct (step cfg st o) as [[st1 outs] v]. rewrite IH.
    destruct (run_from cfg st1 h1) as [t1 st2]. by destruct (run_from cfg st2 h2).
Qed.
(* the stream of messages a connection is handed over a whole history *)
Definition stream (t : trace) (q : N) : list msg :=
  flat_map (λ e, map snd (List.filter (λ d : delivery, fst d =? q) (ev_outs e))) t.
Lemma stream_prefix cfg h1 h2 q :
  ∃ later, stream (run cfg (h1 ++ h2)) q = stream (run cfg h1) q ++ later.
Proof.
  unfold run. rewrite run_from_app. destruct (run_from cfg state0 h1) as [t1 st1].
  destruct (run_from cfg st1 h2) as [t2 st2]. simpl. exists (stream t2 q). unfold stream. by rewrite flat_map_app.
Qed.

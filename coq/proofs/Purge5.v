(* proofs/Purge5.v — noninterference experiment of C03 (Purge.v), part 5: one operation of the group,
   executed in the full run and (translated) in the purged run from related states:
   the judge's tests on the pair of events succeed and the states after are related. *)
From stdpp Require Import relations sorting.
From hagall Require Import Model Spec Obs Preds Purge.
From hagall.proofs Require Import BaseLemmas Relay Inv Session Local Trans WF Mono Reach PC03 PC06 PC07
  Refine Refine2 Refine3 Refine5 RefSched RefSched2 Purge1 Purge2 Purge3 Purge4.
From Coq Require Import Lia.

(* ================= from the states to the observers ================= *)
Section link.
  Context (A : list N) (st1 st2 : state) (m1 m2 : members).
  Hypothesis S : sim A st1 st2.
  Hypothesis M1 : ∀ c, m1 !! c = cur_of st1 c.
  Hypothesis M2 : ∀ c, m2 !! c = cur_of st2 c.

  Lemma pcur1 c : Purge.cur_of m1 c = fst <$> cur_of st1 c.
  Proof. unfold Purge.cur_of. by rewrite M1. Qed.
  Lemma pcur2 c : Purge.cur_of m2 c = fst <$> cur_of st2 c.
  Proof. unfold Purge.cur_of. by rewrite M2. Qed.

  Lemma sim_mrel : mrel A m1 m2.
  Proof.
    split.
    - intros c Hc%grp_true. rewrite M1, M2. by apply (sim_cur A st1 st2).
    - intros c d s t s' t' Hc%grp_true Hd%grp_true. rewrite !pcur1, !pcur2. intros H1 H2 H3 H4.
      destruct (cur_of st1 c) as [[? p]|] eqn:E1; simplify_eq/=.
      destruct (cur_of st1 d) as [[? q]|] eqn:E2; simplify_eq/=.
      destruct (cur_of st2 c) as [[? p']|] eqn:E3; simplify_eq/=.
      destruct (cur_of st2 d) as [[? q']|] eqn:E4; simplify_eq/=.
      by eapply (sim_part _ _ _ S c d).
  Qed.

  Lemma rho_corr s s' :
    rho A m1 m2 s = Some s' →
    ∃ d p p', grp A d = true ∧ cur_of st1 d = Some (s, p) ∧ cur_of st2 d = Some (s', p').
  Proof.
    intros (d&Hd&H1&H2)%rho_Some. rewrite pcur1 in H1. rewrite pcur2 in H2.
    destruct (cur_of st1 d) as [[? p]|] eqn:E1; simplify_eq/=.
    destruct (cur_of st2 d) as [[? p']|] eqn:E2; simplify_eq/=.
    exists d, p, p'. split; [by apply grp_true|done].
  Qed.

  Lemma live_in_rho s :
    live_in A m1 s = true →
    ∃ s' d p p', rho A m1 m2 s = Some s' ∧ grp A d = true ∧ cur_of st1 d = Some (s, p) ∧ cur_of st2 d = Some (s', p').
  Proof.
    intros H. destruct (rho_live A m1 m2 s sim_mrel H) as [s' Hr]. exists s'.
    destruct (rho_corr s s' Hr) as (d&p&p'&?&?&?). exists d, p, p'. done.
  Qed.

  Lemma join_now_sidrel rid1 rid2 n n' ots1 ots2 :
    inv st1 → inv st2 →
    join_now A m1 m2 (Some (RJoin rid1 (SId n) ots1)) (Some (RJoin rid2 (SId n') ots2)) = 0%Z →
    sidrel A st1 st2 (SId n) (SId n').
  Proof.
    intros I1 I2. unfold join_now. destruct (rho A m1 m2 n) as [s'|] eqn:Hr.
    - destruct (n' =? s') eqn:E; [|done]. apply N.eqb_eq in E. subst s'. intros _.
      destruct (rho_corr n n' Hr) as (d&p&p'&Hd&D1&D2). by eapply sr_live.
    - destruct (foreign_in A m1 n) eqn:Hf; [done|]. destruct (live_in A m2 n') eqn:Hl; [done|]. intros _.
      pose proof (rho_None A m1 m2 n sim_mrel Hr) as Hl1. apply sr_dead.
      + destruct (sessions st1 !! n) as [SS|] eqn:E; [|done]. exfalso.
        destruct (inv_session_member _ _ _ I1 E) as (d&p&Hd).
        destruct (grp A d) eqn:Hg.
        * rewrite live_in_false in Hl1. apply (Hl1 d); [by apply grp_true|]. rewrite pcur1, Hd. done.
        * rewrite foreign_in_false in Hf. rewrite (Hf d p) in Hg; [done|]. by rewrite M1.
      + destruct (sessions st2 !! n') as [SS|] eqn:E; [|done]. exfalso.
        destruct (sim_live2 _ _ _ _ _ S I2 E) as (d&p&Hg&Hd).
        rewrite live_in_false in Hl. apply (Hl d); [by apply grp_true|]. rewrite pcur2, Hd. done.
  Qed.
End link.

Lemma qrel_req_match r1 r2 : qrel r1 r2 → req_match r1 r2 = true.
Proof.
  intros [->|(rid&n&n'&ots&->&->)].
  - destruct r2; simpl; try (by apply bool_decide_eq_true).
    destruct sid; simpl; try (by apply bool_decide_eq_true). by rewrite !N.eqb_refl.
  - simpl. by rewrite !N.eqb_refl.
Qed.

Lemma sidrel_same A st1 st2 st1' st2' sd1 sd2 :
  (∀ d, cur_of st1' d = cur_of st1 d) → (∀ d, cur_of st2' d = cur_of st2 d) →
  sessions st1' = sessions st1 → sessions st2' = sessions st2 →
  sidrel A st1 st2 sd1 sd2 → sidrel A st1' st2' sd1 sd2.
Proof.
  intros C1 C2 E1 E2 [|k|n n' d p p' Hd D1 D2|n n' N1 N2].
  - constructor.
  - constructor.
  - eapply sr_live; [done|by rewrite C1|by rewrite C2].
  - apply sr_dead; [by rewrite E1|by rewrite E2].
Qed.

(* the request as it is sent in the purged run *)
Lemma translate_send A m1 m2 c r :
  ∃ r2, translate A m1 m2 (OSend c r) = OSend c r2 ∧ qrel r r2.
Proof.
  destruct r; try (eexists; split; [reflexivity|apply qrel_refl]).
  destruct sid; try (eexists; split; [reflexivity|apply qrel_refl]).
  eexists. split; [reflexivity|]. right. by eexists _, _, _, _.
Qed.

(* ================= one operation of the group ================= *)
Lemma sim_connect A uu st1 st2 c :
  sim A st1 st2 → uuc A uu st1 st2 → grp A c = true → conns st1 !! c = None → conns st2 !! c = None →
  sim A (set_conns (<[c := conn0]>) st1) (set_conns (<[c := conn0]>) st2) ∧
  uuc A uu (set_conns (<[c := conn0]>) st1) (set_conns (<[c := conn0]>) st2).
Proof.
  intros S U Hc N1 N2.
  assert (C : ∀ st d, conns st !! c = None → cur_of (set_conns (<[c := conn0]>) st) d = cur_of st d).
  { intros st d Hn. unfold cur_of. simpl. destruct (decide (d = c)) as [->|Nd].
    - by rewrite lookup_insert, Hn.
    - by rewrite lookup_insert_ne. }
  apply (sim_frame A uu st1 st2); try done.
  - intros d _. by apply C.
  - intros d _. by apply C.
  - intros d Hd. simpl. destruct (decide (d = c)) as [->|Nd].
    + rewrite !lookup_insert. constructor. apply crel_conn0.
    + rewrite !lookup_insert_ne by done. apply (sim_conn _ _ _ S d Hd).
  - intros d Hd. simpl. rewrite lookup_insert_ne by congruence. apply (sim_only _ _ _ S d Hd).
  - intros d s p s' p' T1 T2 _ _ _ F1 F2 RT. simpl. eauto 10.
Qed.

Section rel.
  Context (cfg : config) (A : list N) (uu : list (N * N)) (st1 st2 : state) (m1 m2 : members) (k : N).
  Hypothesis S : sim A st1 st2.
  Hypothesis U : uuc A uu st1 st2.
  Hypothesis B : uub uu st1 st2.
  Hypothesis I1 : inv st1.
  Hypothesis I2 : inv st2.
  Hypothesis B1 : bounded k st1.
  Hypothesis B2 : bounded k st2.
  Hypothesis Hk : k + 1 < two32.
  Hypothesis M1 : ∀ c, m1 !! c = cur_of st1 c.
  Hypothesis M2 : ∀ c, m2 !! c = cur_of st2 c.

  Definition rel_res (o o2 : op) : Prop :=
    let r1 := step cfg st1 o in
    let r2 := step cfg st2 o2 in
    op_match A m1 m2 o o2 = true ∧ opt_req_match (consumed st1 o) (consumed st2 o2) = true ∧
    ((match consumed st1 o with Some r => global_req r | None => false end) = false →
     join_now A m1 m2 (consumed st1 o) (consumed st2 o2) = 0%Z →
     r1.2 = r2.2 ∧ step_ok A uu r1.1.1 r2.1.1 r1.1.2 r2.1.2).

  Lemma skip_ok : step_ok A uu st1 st2 [] [].
  Proof. apply step_ok_plain; [done|done|constructor]. Qed.

  Lemma rel_connect c : grp A c = true → rel_res (OConnect c) (OConnect c).
  Proof.
    intros Hc. unfold rel_res. cbn [step consumed op_match opt_req_match]. rewrite N.eqb_refl.
    split; [done|]. split; [done|]. intros _ _.
    pose proof (sim_conn _ _ _ S c Hc) as X.
    destruct (conns st1 !! c) as [cn1|] eqn:Hc1, (conns st2 !! c) as [cn2|] eqn:Hc2; try (by inversion X); cbn [fst snd].
    - split; [done|apply skip_ok].
    - split; [done|]. destruct (sim_connect A uu st1 st2 c S U Hc Hc1 Hc2) as [S' U'].
      apply step_ok_plain; [done|done|constructor].
  Qed.

  Lemma rel_disconnect c : grp A c = true → rel_res (ODisconnect c) (ODisconnect c).
  Proof.
    intros Hc. unfold rel_res. cbn [step consumed op_match opt_req_match]. rewrite N.eqb_refl.
    split; [done|]. split; [done|]. intros _ _.
    pose proof (sim_conn _ _ _ S c Hc) as X.
    destruct (conns st1 !! c) as [cn1|] eqn:Hc1, (conns st2 !! c) as [cn2|] eqn:Hc2; try (by inversion X); cbn [fst snd].
    2:{ split; [done|apply skip_ok]. }
    inversion X as [? ? CR|]; subst. rewrite <- (cr_open _ _ CR).
    destruct (c_open cn1); cbn [negb]; [|split; [done|apply skip_ok]].
    pose proof (disconnect_sim cfg A uu st1 st2 c S U I1 I2 Hc) as D.
    destruct (disconnect cfg st1 c) as [sd1 o1], (disconnect cfg st2 c) as [sd2 o2]. cbn [fst snd] in *.
    destruct D as (SD&UD&<-&NO). split; [done|]. by apply step_ok_plain.
  Qed.

  Lemma rel_tick s : live_in A m1 s = true → rel_res (OTick s) (translate A m1 m2 (OTick s)).
  Proof.
    intros Hl. destruct (live_in_rho A st1 st2 m1 m2 S M1 M2 s Hl) as (s'&d&p&p'&Hr&Hd&D1&D2).
    unfold rel_res, translate. rewrite Hr. cbn [default step consumed op_match opt_req_match fst snd].
    split; [by apply bool_decide_eq_true|]. split; [done|]. intros _ _. split; [done|].
    destruct (tick_sim A uu st1 st2 d s p s' p' S U Hd D1 D2) as [S' U'].
    apply step_ok_plain; [done|done|constructor].
  Qed.

  Lemma upd_ok c f1 f2 :
    grp A c = true →
    (∀ cn1 cn2, conns st1 !! c = Some cn1 → conns st2 !! c = Some cn2 → crel cn1 cn2 → crel (f1 cn1) (f2 cn2)) →
    (∀ cn, c_cur (f1 cn) = c_cur cn) → (∀ cn, c_cur (f2 cn) = c_cur cn) →
    step_ok A uu (upd_conn c f1 st1) (upd_conn c f2 st2) [] [].
  Proof.
    intros Hc Hf H1 H2. destruct (sim_upd_conn A uu st1 st2 c f1 f2 S U Hc Hf H1 H2) as [S' U'].
    apply step_ok_plain; [done|done|constructor].
  Qed.

  Lemma queue_ok c r r2 :
    grp A c = true → qrel r r2 →
    step_ok A uu (upd_conn c (λ cn, set_queue (c_queue cn ++ [r]) cn) st1)
                 (upd_conn c (λ cn, set_queue (c_queue cn ++ [r2]) cn) st2) [] [].
  Proof.
    intros Hc Hq. apply upd_ok; [done| |done|done].
    intros a b _ _ [H1 H2 H3 H4 H5 H6 H7 H8]. split; simpl; try done.
    apply Forall2_app; [done|]. constructor; [done|constructor].
  Qed.

  Lemma rel_send c r : grp A c = true → rel_res (OSend c r) (translate A m1 m2 (OSend c r)).
  Proof.
    intros Hc. destruct (translate_send A m1 m2 c r) as (r2&->&Hq).
    unfold rel_res. cbn [step consumed op_match opt_req_match]. rewrite N.eqb_refl, (qrel_req_match _ _ Hq).
    split; [done|]. split; [done|]. intros _ _. unfold dispatch.
    pose proof (sim_conn _ _ _ S c Hc) as X.
    destruct (conns st1 !! c) as [cn1|] eqn:Hc1, (conns st2 !! c) as [cn2|] eqn:Hc2; try (by inversion X); cbn [fst snd].
    2:{ split; [done|apply skip_ok]. }
    inversion X as [? ? CR|]; subst. rewrite <- (cr_open _ _ CR).
    destruct (c_open cn1); cbn [negb]; [|split; [done|apply skip_ok]].
    destruct (is_join r) eqn:Hj.
    { destruct r as [| | |rid sd1 ots| | | | | | | | | | | | | | | | | | | |]; try discriminate Hj.
      destruct (qrel_join _ _ rid sd1 ots Hq eq_refl) as [sd2 ->]. cbn [fst snd]. split; [done|]. by apply queue_ok. }
    pose proof (qrel_nonjoin _ _ Hq Hj) as ->.
    destruct r; try discriminate Hj; cbn [fst snd].
    all: try (split; [done|]; by apply queue_ok).
    - (* pose *) split; [done|]. apply upd_ok; [done| |done|done].
      intros a b _ _ [H1 H2 H3 H4 H5 H6 H7 H8]. split; simpl; try done. by rewrite H5.
    - (* component update *) split; [done|]. apply upd_ok; [done| |done|done].
      intros a b _ _ [H1 H2 H3 H4 H5 H6 H7 H8]. split; simpl; try done. by rewrite H6.
    - (* undecodable *) destruct (ty =? 14); [|split; [done|]; by apply queue_ok].
      pose proof (disconnect_sim cfg A uu st1 st2 c S U I1 I2 Hc) as D.
      destruct (disconnect cfg st1 c) as [sd1 o1], (disconnect cfg st2 c) as [sd2 o2]. cbn [fst snd] in *.
    destruct D as (SD&UD&<-&NO). split; [done|]. by apply step_ok_plain.
  Qed.

  Lemma rel_step c hint : grp A c = true → rel_res (OStep c hint) (OStep c hint).
  Proof.
    intros Hc. unfold rel_res. cbn [step consumed op_match]. rewrite N.eqb_refl.
    pose proof (sim_conn _ _ _ S c Hc) as X.
    destruct (conns st1 !! c) as [cn1|] eqn:Hc1, (conns st2 !! c) as [cn2|] eqn:Hc2; try (by inversion X); cbn [fst snd].
    2:{ split; [done|]. split; [done|]. intros _ _. split; [done|apply skip_ok]. }
    inversion X as [? ? CR|]; subst. rewrite <- (cr_open _ _ CR).
    destruct (c_open cn1) eqn:Ho; cbn [negb]; [|split; [done|]; split; [done|]; intros _ _; split; [done|apply skip_ok]].
    pose proof (cr_queue _ _ CR) as Q.
    destruct (c_queue cn1) as [|r1 q1] eqn:Q1, (c_queue cn2) as [|r2 q2] eqn:Q2; try (by inversion Q).
    { split; [done|]. split; [done|]. intros _ _. split; [done|apply skip_ok]. }
    apply Forall2_cons_1 in Q as [Hq Hqs]. cbn [head opt_req_match].
    split; [done|]. split; [by apply qrel_req_match|]. intros Hg Hjn.
    set (st01 := upd_conn c (set_queue q1) st1). set (st02 := upd_conn c (set_queue q2) st2).
    destruct (sim_upd_conn A uu st1 st2 c (set_queue q1) (set_queue q2) S U Hc) as [S0 U0]; [|done|done|].
    { intros a b Ha Hb [H1 H2 H3 H4 H5 H6 H7 H8]. split; simpl; done. }
    fold st01 st02 in S0, U0.
    assert (Hs1 : same_mem st1 st01) by (apply same_mem_upd_conn; by intros []).
    assert (Hs2 : same_mem st2 st02) by (apply same_mem_upd_conn; by intros []).
    assert (J1 : inv st01) by by eapply inv_same_mem.
    assert (J2 : inv st02) by by eapply inv_same_mem.
    assert (C1 : bounded k st01) by by eapply bounded_same_mem.
    assert (C2 : bounded k st02) by by eapply bounded_same_mem.
    assert (W1 : nowrap st01) by by eapply bounded_nowrap.
    assert (W2 : nowrap st02) by by eapply bounded_nowrap.
    assert (B0 : uub uu st01 st02) by (eapply uub_same; [| |exact B]; done).
    assert (Hc01 : is_Some (conns st01 !! c)).
    { unfold st01. rewrite conns_upd_conn_eq, Hc1. by eexists. }
    assert (Hsd : ∀ rid sd1 sd2 ots, r1 = RJoin rid sd1 ots → r2 = RJoin rid sd2 ots → sidrel A st01 st02 sd1 sd2).
    { intros rid sd1 sd2 ots -> ->.
      apply (sidrel_same A st1 st2); [intros d; apply cur_of_upd_conn; by intros []|intros d; apply cur_of_upd_conn; by intros []|done|done|].
      destruct sd1 as [|n|j], sd2 as [|n'|j']; try (destruct Hq as [[=]|(?&?&?&?&[=]&[=])]; fail).
      - constructor.
      - by apply (join_now_sidrel A st1 st2 m1 m2 S M1 M2 rid rid n n' ots ots I1 I2).
      - destruct Hq as [[= ->]|(?&?&?&?&[=]&_)]. constructor. }
    destruct (handle_sim cfg A uu st01 st02 c r1 r2 hint S0 U0 B0 J1 J2 W1 W2 Hc Hc01 Hq Hg Hsd) as (V&OK&E).
    assert (Ho1 : open_of st01 c = Some true).
    { destruct Hs1 as (_&H2&_). rewrite H2. unfold open_of. by rewrite Hc1; simpl; rewrite Ho. }
    assert (Ho2 : open_of st02 c = Some true).
    { destruct Hs2 as (_&H2&_). rewrite H2. unfold open_of. rewrite Hc2; simpl. by rewrite <- (cr_open _ _ CR), Ho. }
    destruct (handle_inv cfg st01 c r1 hint k J1 C1 Hk Ho1) as [K1 _].
    destruct (handle_inv cfg st02 c r2 hint k J2 C2 Hk Ho2) as [K2 _].
    destruct (handle cfg st01 c r1 hint) as [[sh1 oh1] v1], (handle cfg st02 c r2 hint) as [[sh2 oh2] v2].
    cbn [fst snd] in *. subst v2.
    destruct v1; try done.
    destruct OK as (SH&UH&_).
    pose proof (disconnect_sim cfg A uu sh1 sh2 c SH UH K1 K2 Hc) as D.
    destruct (disconnect cfg sh1 c) as [sd1 o1], (disconnect cfg sh2 c) as [sd2 o2]. cbn [fst snd] in *.
    destruct D as (SD&UD&<-&NO). split; [done|]. split; [done|]. split; [done|].
    exists false, 0, 0. split; [|by intros ?]. apply orl_app; [by apply E|by apply orl_refl].
  Qed.

  (* every operation of the group *)
  Lemma rel_all o : relevant A m1 o = true → rel_res o (translate A m1 m2 o).
  Proof.
    destruct o as [c|c r|c hint|s|c|]; cbn [relevant]; intros H; try done.
    - by apply rel_connect.
    - by apply rel_send.
    - by apply rel_step.
    - by apply rel_tick.
    - by apply rel_disconnect.
  Qed.
End rel.

(* proofs/PC11.v — the per-connection scheduler (hagall-common scheduler as modelled by [dispatch] / [flush] /
   the queue): pose updates of an entity are consumed in the order sent, possibly skipping values that were
   overwritten before a frame, never reordered or repeated, and the latest one sent is the last to arrive (C11). *)
From hagall Require Import Model.
From hagall.proofs Require Import BaseLemmas.
From Coq Require Import Lia.

(* an update is identified by its origin timestamp *)
Definition pose_of (e : N) (r : req) : option N :=
  match r with RPose e' _ ots => if e' =? e then Some ots else None | _ => None end.
Definition queued_poses (e : N) (q : list req) : list N := omap (pose_of e) q.
Definition pending_pose (e : N) (cn : conn) : list N :=
  match c_pposes cn !! e with Some r => match pose_of e r with Some o => [o] | None => [] end | None => [] end.

(* the scheduler operations of one connection, exactly as [dispatch], [tick]/[flush] and [OStep] perform them *)
Inductive sop := SSend (r : req) | SFlush | SPop.
Definition sched_send (r : req) (cn : conn) : conn :=
  match r with
  | RPose eid _ _ => set_pending (<[eid := r]> (c_pposes cn)) (c_pcomps cn) cn
  | RCompUpdate tid eid _ _ => set_pending (c_pposes cn) (<[(tid, eid) := r]> (c_pcomps cn)) cn
  | _ => set_queue (c_queue cn ++ [r]) cn
  end.
Definition sched_step (o : sop) (cn : conn) : conn * option req :=
  match o with
  | SSend r => (sched_send r cn, None)
  | SFlush => (flush cn, None)
  | SPop => match c_queue cn with [] => (cn, None) | r :: q => (set_queue q cn, Some r) end
  end.
(* what was sent for entity e / what the main loop consumed for entity e, over a sequence of operations *)
Fixpoint sched_run (e : N) (ops : list sop) (cn : conn) (sent consumed : list N) : conn * list N * list N :=
  match ops with
  | [] => (cn, sent, consumed)
  | o :: ops' =>
      let '(cn', popped) := sched_step o cn in
      let sent' := match o with SSend r => match pose_of e r with Some x => sent ++ [x] | None => sent end | _ => sent end in
      let consumed' := match popped with Some r => match pose_of e r with Some x => consumed ++ [x] | None => consumed end | None => consumed end in
      sched_run e ops' cn' sent' consumed'
  end.

(* well-formed pending map: the slot of entity e holds a pose update of entity e *)
Definition slots_ok (cn : conn) : Prop :=
  ∀ e r, c_pposes cn !! e = Some r → ∃ po ots, r = RPose e po ots.

Definition pipeline (e : N) (cn : conn) (consumed : list N) : list N :=
  consumed ++ queued_poses e (c_queue cn) ++ pending_pose e cn.

(* the invariant: everything of e that is consumed, queued or pending, in that order, is a subsequence of what
   was sent, and ends with the latest one sent *)
Definition sched_inv (e : N) (cn : conn) (sent consumed : list N) : Prop :=
  slots_ok cn ∧ sublist (pipeline e cn consumed) sent ∧ last (pipeline e cn consumed) = last sent.

Lemma queued_poses_app e q1 q2 : queued_poses e (q1 ++ q2) = queued_poses e q1 ++ queued_poses e q2.
Proof. unfold queued_poses. apply omap_app. Qed.

Lemma pose_of_comp_none e (l : list req) :
  (∀ r, r ∈ l → ∃ t x d o, r = RCompUpdate t x d o) → queued_poses e l = [].
Proof.
  induction l as [|r l IH]; intros H; [done|]. unfold queued_poses. simpl.
  destruct (H r) as (t&x&d&o&->); [by left|]. simpl. apply IH. intros r' Hr'. apply H. by right.
Qed.

(* flushing moves the pending pose of e, if any, behind everything of e already queued *)
Lemma flush_queued e cn :
  slots_ok cn →
  (∀ k r, c_pcomps cn !! k = Some r → ∃ t x d o, r = RCompUpdate t x d o) →
  queued_poses e (c_queue (flush cn)) = queued_poses e (c_queue cn) ++ pending_pose e cn ∧
  pending_pose e (flush cn) = [] ∧ slots_ok (flush cn).
Proof.
  intros Hs Hc. unfold flush. simpl. split; [|split].
  - rewrite !queued_poses_app. f_equal.
    rewrite (pose_of_comp_none e (map snd (sort_by _ (map_to_list (c_pcomps cn))))), app_nil_r.
    2: { intros r [[k r'] [-> Hr]]%elem_of_list_fmap. apply elem_of_sort_by, elem_of_map_to_list in Hr. by eapply Hc. }
    unfold pending_pose.
    (* the sorted list of pending poses, projected to e, is the slot of e *)
    assert (Hnd : NoDup (map fst (sort_by (λ kv : N * req, [zn kv.1]) (map_to_list (c_pposes cn))))).
    { rewrite sort_by_perm. apply NoDup_fst_map_to_list. }
    assert (Hin : ∀ k r, (k, r) ∈ sort_by (λ kv : N * req, [zn kv.1]) (map_to_list (c_pposes cn)) ↔ c_pposes cn !! k = Some r).
    { intros k r. by rewrite elem_of_sort_by, elem_of_map_to_list. }
    revert Hnd Hin. generalize (sort_by (λ kv : N * req, [zn kv.1]) (map_to_list (c_pposes cn))). intros l Hnd Hin.
    assert (G : ∀ l, NoDup (map fst l) → (∀ k r, (k, r) ∈ l → ∃ po ots, r = RPose k po ots) →
                queued_poses e (map snd l) = match list_find (λ kr : N * req, kr.1 = e) l with
                                              | Some (_, (_, r)) => match pose_of e r with Some o => [o] | None => [] end
                                              | None => [] end).
    { clear. induction l as [|[k r] l IH]; intros Hnd Hok; [reflexivity|]. simpl in *. apply NoDup_cons in Hnd as [Hn Hnd].
      destruct (Hok k r) as (po&ots&->); [by left|]. unfold queued_poses. simpl.
      case_decide as Hk.
      - subst k. rewrite N.eqb_refl. simpl. rewrite ?N.eqb_refl. simpl. f_equal.
        change (omap (pose_of e) (map snd l)) with (queued_poses e (map snd l)).
        rewrite IH; [|done|intros k r H; apply Hok; by right].
        destruct (list_find (λ kr : N * req, kr.1 = e) l) as [[i [k' r']]|] eqn:E; [|done].
        apply list_find_Some in E as (Hi&He&_). simpl in He. subst k'. destruct Hn.
        apply elem_of_list_fmap. exists (e, r'). split; [done|]. by eapply elem_of_list_lookup_2.
      - apply N.eqb_neq in Hk. rewrite Hk. change (omap (pose_of e) (map snd l)) with (queued_poses e (map snd l)).
        rewrite IH; [|done|intros k' r' H; apply Hok; by right].
        destruct (list_find (λ kr : N * req, kr.1 = e) l) as [[i [k' r']]|]; done. }
    rewrite G; [|done|intros k r Hkr; apply Hs; by apply Hin].
    destruct (list_find (λ kr : N * req, kr.1 = e) l) as [[i [k r]]|] eqn:E.
    + apply list_find_Some in E as (Hi&He&_). simpl in He. subst k.
      apply elem_of_list_lookup_2, Hin in Hi. by rewrite Hi.
    + destruct (c_pposes cn !! e) as [r|] eqn:Er; [|done]. exfalso.
      apply Hin in Er. apply list_find_None in E. rewrite Forall_forall in E. by apply (E _ Er).
  - unfold pending_pose. simpl. by rewrite lookup_empty.
  - intros k r. simpl. by rewrite lookup_empty.
Qed.

Lemma sublist_replace_last {A} (a : list A) (old : list A) x sent :
  sublist (a ++ old) sent → sublist (a ++ [x]) (sent ++ [x]).
Proof.
  intros H. apply sublist_app; [|done]. etrans; [|exact H]. apply sublist_inserts_r. done.
Qed.

Lemma last_app_singleton {A} (l : list A) x : last (l ++ [x]) = Some x.
Proof. by rewrite last_snoc. Qed.

Lemma sched_step_inv e o cn sent consumed :
  (∀ k r, c_pcomps cn !! k = Some r → ∃ t x d o, r = RCompUpdate t x d o) →
  sched_inv e cn sent consumed →
  let '(cn', popped) := sched_step o cn in
  let sent' := match o with SSend r => match pose_of e r with Some x => sent ++ [x] | None => sent end | _ => sent end in
  let consumed' := match popped with Some r => match pose_of e r with Some x => consumed ++ [x] | None => consumed end | None => consumed end in
  sched_inv e cn' sent' consumed' ∧ (∀ k r, c_pcomps cn' !! k = Some r → ∃ t x d o, r = RCompUpdate t x d o).
Proof.
  intros Hc (Hs&Hsub&Hlast). unfold sched_inv. destruct o as [r| |]; simpl.
  - (* send *)
    destruct r; simpl; try (split; [|done]).
    all: try (split; [done|]; unfold pipeline in *; simpl; rewrite queued_poses_app; unfold queued_poses at 2; simpl;
              rewrite app_nil_r; split; done).
    + (* pose *)
      unfold pipeline, pending_pose in *. simpl. destruct (eid =? e) eqn:Ee.
      * apply N.eqb_eq in Ee. subst eid. rewrite lookup_insert. simpl. rewrite N.eqb_refl. split; [|split].
        -- intros k r. simpl. intros [[<- <-]|[_ H]]%lookup_insert_Some; [eauto|by apply Hs].
        -- rewrite app_assoc. rewrite app_assoc in Hsub. by eapply sublist_replace_last.
        -- by rewrite app_assoc, !last_app_singleton.
      * apply N.eqb_neq in Ee. rewrite lookup_insert_ne by done. split; [|done].
        intros k r. simpl. intros [[<- <-]|[_ H]]%lookup_insert_Some; [eauto|by apply Hs].
    + (* component update *)
      split; [done|]. intros k r. simpl. intros [[<- <-]|[_ H]]%lookup_insert_Some; [eauto|by eapply Hc].
  - (* flush *)
    destruct (flush_queued e cn Hs Hc) as (F1&F2&F3). split.
    + split; [done|]. unfold pipeline in *. rewrite F1, F2, app_nil_r. done.
    + intros k r. simpl. by rewrite lookup_empty.
  - (* pop *)
    destruct (c_queue cn) as [|r q] eqn:Eq; [split; [done|done]|]. simpl. split; [|done].
    split; [done|]. unfold pipeline, pending_pose in *. simpl. rewrite Eq in *. unfold queued_poses in *. simpl in *.
    destruct (pose_of e r) as [x|]; [|done]. by rewrite <- app_assoc.
Qed.

Theorem sched_run_inv e ops cn sent consumed :
  (∀ k r, c_pcomps cn !! k = Some r → ∃ t x d o, r = RCompUpdate t x d o) →
  sched_inv e cn sent consumed →
  let '(cn', sent', consumed') := sched_run e ops cn sent consumed in sched_inv e cn' sent' consumed'.
Proof.
  revert cn sent consumed. induction ops as [|o ops IH]; intros cn sent consumed Hc I; [done|]. simpl.
  pose proof (sched_step_inv e o cn sent consumed Hc I) as H. destruct (sched_step o cn) as [cn' popped].
  destruct H as [I' Hc']. by apply IH.
Qed.

Lemma sched_inv_conn0 e : sched_inv e conn0 [] [].
Proof.
  split; [|split].
  - intros k r. simpl. by rewrite lookup_empty.
  - unfold pipeline, pending_pose. simpl. by rewrite lookup_empty.
  - unfold pipeline, pending_pose. simpl. by rewrite lookup_empty.
Qed.

(* for every sequence of dispatches, frames and consumptions on a fresh connection *)
Theorem pose_order e ops :
  let '(cn, sent, consumed) := sched_run e ops conn0 [] [] in
  sublist consumed sent ∧
  (queued_poses e (c_queue cn) = [] → pending_pose e cn = [] → last consumed = last sent).
Proof.
  pose proof (sched_run_inv e ops conn0 [] [] ltac:(intros k r; simpl; by rewrite lookup_empty) (sched_inv_conn0 e)) as H.
  destruct (sched_run e ops conn0 [] []) as [[cn sent] consumed]. destruct H as (_&Hsub&Hlast). split.
  - etrans; [|exact Hsub]. unfold pipeline. by apply sublist_inserts_r.
  - intros H1 H2. unfold pipeline in Hlast. by rewrite H1, H2, !app_nil_r in Hlast.
Qed.

(* the link to the global model: the receiver's [dispatch] is [sched_send] on the connection's record, and a
   frame applies [flush] to the connections registered with the session *)
Lemma dispatch_is_sched_send cfg st c cn r :
  conns st !! c = Some cn → c_open cn = true → (∀ ty, r ≠ RUndecodable ty) →
  dispatch cfg st c r = (upd_conn c (sched_send r) st, [], VOk).
Proof.
  intros Hc Ho Hr. unfold dispatch. rewrite Hc, Ho. simpl. destruct r; try reflexivity. by destruct (Hr ty).
Qed.
Lemma step_pop cfg st c cn r q hint :
  conns st !! c = Some cn → c_open cn = true → c_queue cn = r :: q →
  consumed st (OStep c hint) = Some r ∧
  ∃ st1 o v, handle cfg (upd_conn c (set_queue q) st) c r hint = (st1, o, v).
Proof. intros Hc Ho Hq. split; [simpl; by rewrite Hc, Ho, Hq|]. destruct (handle cfg _ c r hint) as [[? ?] ?]. eauto. Qed.
